(** The C09 resume invariant: what relates the revision table to the journal
    between (and inside) runs of [Executor.ExecuteN], and its consequences for
    any sequence of runs, each with its own fault stream.

    Setting: one directory [all] (files strictly sorted by version, no
    checkpoint files), no baseline, and a revision reader that lists the stored
    revisions by version ([read_revisions], as the CLI's Ent reader does).

    - [Inv t k a has]: the table holds complete revisions of the first [k]
      files and, if [has], a revision of file [k] that claims its first [a]
      statements -- nothing else.
    - [good]: inside one [Execute], every bookkeeping write claims exactly what
      ran, and at most one executed statement is not yet claimed.
    - [Step]/[GInv]: across event prefixes and runs, the journal is the planned
      statement list up to a position [E] with repeats, the table claims a
      position [P] with [P <= E <= P + 1], and every repeat is paid for by a
      failed bookkeeping write that directly followed its statement. *)
From Coq Require Import List NArith Bool Arith Lia Sorted.
From Atlas Require Import Base.Bytes Base.ListX Base.Stutter
  Exec.ExecModel Exec.ExecProofs Exec.StepProofs Exec.PendingModel Exec.PendingProofs
  Exec.RunModel Exec.TxModel Exec.TxProofs.
Import ListNotations.

Definition b2n (b : bool) : nat := if b then 1 else 0.

(** * generic facts about the table *)
Section Table.
Variable hash : Type.
Notation rev := (rev hash).

Lemma tbl_get_None (t : list rev) v : tbl_get t v = None <-> ~ In v (map (@r_version hash) t).
Proof.
  induction t as [|x t IH]; simpl; [tauto|].
  destruct (bytes_eqb (r_version x) v) eqn:E.
  - apply bytes_eqb_eq in E. split; [discriminate|]. intros H. exfalso. apply H. left. exact E.
  - apply bytes_eqb_neq in E. rewrite IH. tauto.
Qed.

Lemma tbl_get_In (t : list rev) v r : tbl_get t v = Some r -> In r t.
Proof.
  induction t as [|x t IH]; simpl; [discriminate|].
  destruct (bytes_eqb (r_version x) v); intros H; [inversion H; left; reflexivity|right; auto].
Qed.

Lemma tbl_get_of_In (t : list rev) r :
  NoDup (map (@r_version hash) t) -> In r t -> tbl_get t (r_version r) = Some r.
Proof.
  induction t as [|x t IH]; simpl; intros Hnd Hin; [destruct Hin|].
  inversion Hnd as [|? ? Hni Hnd']; subst.
  destruct Hin as [->|Hin]; [rewrite bytes_eqb_refl; reflexivity|].
  destruct (bytes_eqb (r_version x) (r_version r)) eqn:E; [|auto].
  apply bytes_eqb_eq in E. exfalso. apply Hni. rewrite E. apply in_map. exact Hin.
Qed.

Lemma tbl_put_versions_in (t : list rev) r :
  In (r_version r) (map (@r_version hash) t) -> map (@r_version hash) (tbl_put t r) = map (@r_version hash) t.
Proof.
  induction t as [|x t IH]; simpl; [intros []|].
  destruct (bytes_eqb (r_version x) (r_version r)) eqn:E; intros H.
  - apply bytes_eqb_eq in E. simpl. rewrite E. reflexivity.
  - apply bytes_eqb_neq in E. destruct H as [H|H]; [congruence|]. simpl. rewrite IH by exact H. reflexivity.
Qed.

Lemma tbl_put_versions_notin (t : list rev) r :
  ~ In (r_version r) (map (@r_version hash) t) ->
  map (@r_version hash) (tbl_put t r) = map (@r_version hash) t ++ [r_version r].
Proof.
  induction t as [|x t IH]; simpl; [reflexivity|].
  destruct (bytes_eqb (r_version x) (r_version r)) eqn:E; intros H.
  - apply bytes_eqb_eq in E. exfalso. apply H. left. exact E.
  - simpl. rewrite IH; [reflexivity|]. intros H'. apply H. right. exact H'.
Qed.

Lemma tbl_put_In (t : list rev) r x : In x (tbl_put t r) -> x = r \/ In x t.
Proof.
  induction t as [|y t IH]; simpl; [intros [<-|[]]; auto|].
  destruct (bytes_eqb (r_version y) (r_version r)); simpl.
  - intros [<-|H]; auto.
  - intros [<-|H]; auto. destruct (IH H); auto.
Qed.

Lemma read_revisions_sorted_id (t : list rev) : sorted_revs t -> read_revisions hash t = t.
Proof.
  unfold read_revisions. induction 1 as [|x l Hs IH Hf]; simpl; [reflexivity|].
  rewrite IH. destruct l as [|y l]; simpl; [reflexivity|].
  inversion Hf as [|? ? Hxy _]; subst. unfold rver_lt in Hxy.
  rewrite (bytes_ltb_leb _ _ Hxy). reflexivity.
Qed.

End Table.

(** * the plan of a directory and positions in it *)
Definition fplan (f : file) : list (bytes * bytes) := map (pair (f_version f)) (f_stmts f).
Definition plan (fl : list file) : list (bytes * bytes) := flat_map fplan fl.

Lemma plan_app a b : plan (a ++ b) = plan a ++ plan b.
Proof. apply flat_map_app. Qed.

Lemma sorted_files_NoDup all : sorted_files all -> NoDup (map f_version all).
Proof.
  induction 1 as [|x l Hs IH Hf]; simpl; constructor; [|exact IH].
  intros Hin. apply in_map_iff in Hin as (y & Ey & Hy). rewrite Forall_forall in Hf.
  specialize (Hf y Hy). unfold fver_lt in Hf. rewrite Ey, bytes_ltb_irrefl in Hf. discriminate.
Qed.

Lemma nth_error_firstn_split {A} (l : list A) k x :
  nth_error l k = Some x -> firstn (S k) l = firstn k l ++ [x] /\ l = firstn k l ++ x :: skipn (S k) l.
Proof.
  intros H. split; [apply firstn_S_snoc; exact H|].
  rewrite <- (firstn_skipn k l) at 1. f_equal. apply skipn_nth_cons. exact H.
Qed.

(** * Pending from a linear history of the files from the last checkpoint on

    The directory is [pre ++ all]; the revisions are those of the first [m]
    files of [all] (all complete, or the last one partial); the files of [all]
    after its first are no checkpoints. Then whatever [pre] holds, Pending names
    exactly the files of [all] that are not complete. (Generalises
    [pending_linear_state] to directories with checkpoint files.) *)
Lemma from_last_ckpt_split l : exists pre, l = pre ++ from_last_ckpt l.
Proof.
  induction l as [|f l [pre IH]]; [exists []; reflexivity|].
  simpl. destruct (existsb f_ckpt l).
  - exists (f :: pre). simpl. rewrite <- IH. reflexivity.
  - exists []. reflexivity.
Qed.

Lemma from_last_ckpt_tail l f : In f (tl (from_last_ckpt l)) -> f_ckpt f = false.
Proof.
  induction l as [|x l IH]; simpl; [intros []|].
  destruct (existsb f_ckpt l) eqn:E; [exact IH|]. simpl. intros Hin.
  destruct (f_ckpt f) eqn:Ef; [|reflexivity].
  assert (existsb f_ckpt l = true) by (apply existsb_exists; eauto). congruence.
Qed.

Lemma from_last_ckpt_none l : (forall f, In f l -> f_ckpt f = false) -> from_last_ckpt l = l.
Proof.
  destruct l as [|x l]; [reflexivity|]. intros H. simpl.
  assert (existsb f_ckpt l = false) as ->; [|reflexivity].
  destruct (existsb f_ckpt l) eqn:E; [|reflexivity].
  apply existsb_exists in E as (y & Hy & Ey). rewrite (H y (or_intror Hy)) in Ey. discriminate.
Qed.

Section PendingFrom.
Variable hash : Type.
Notation rev := (rev hash).

Lemma pending_from_state c pre all (revs : list rev) k p :
  sorted_files (pre ++ all) -> (forall f, In f (tl all) -> f_ckpt f = false) ->
  linear_state hash all revs k p ->
  pending c (pre ++ all) revs = (finish (skipn k all), None).
Proof.
  intros Hsf Htail (Hm & Hpos & Hmap & Hcomp & Hpart).
  set (m := k + (if p then 1 else 0)) in *.
  assert (sorted_files all) as Hsa by (apply StronglySorted_app_inv in Hsf as (_ & H & _); exact H).
  assert (forall x y, In x pre -> In y all -> bytes_ltb (f_version x) (f_version y) = true) as Hpre_lt
    by (apply StronglySorted_app_inv in Hsf as (_ & _ & H); exact H).
  assert (length revs = m) as Hlen.
  { rewrite <- (map_length (@r_version hash)), Hmap, map_length, firstn_length. lia. }
  destruct revs as [|r0 tl0] eqn:Er; [simpl in Hlen; lia|]. rewrite <- Er in *.
  assert (revs <> []) as Hne by (rewrite Er; discriminate).
  destruct (nth_error_some_lt all (m - 1) ltac:(lia)) as [fm Hfm].
  pose proof Hfm as Hfm'. apply nth_error_split in Hfm' as (A & B & Hall & HA).
  assert (firstn m all = A ++ [fm]) as Hfirst.
  { rewrite Hall. replace m with (S (length A)) by lia. apply firstn_app_exact_S. }
  pose proof (revs_snoc hash revs r0 Hne) as Hsn. set (lst := last revs r0) in *. set (rl := removelast revs) in *.
  assert (map (@r_version hash) rl = map f_version A /\ r_version lst = f_version fm) as [Hmrl Hlv].
  { rewrite Hsn, Hfirst, !map_app in Hmap. simpl in Hmap. apply app_inj_tail in Hmap. exact Hmap. }
  assert (length rl = m - 1) as Hrl.
  { rewrite Hsn, app_length in Hlen. simpl in Hlen. lia. }
  assert (nth_error revs (m - 1) = Some lst) as Hnth.
  { rewrite Hsn. rewrite nth_error_app2 by lia. rewrite Hrl, Nat.sub_diag. reflexivity. }
  assert (sorted_revs revs) as Hsr.
  { apply (proj2 (StronglySorted_map (fun a b => bytes_ltb a b = true) (@r_version hash) revs)).
    rewrite Hmap. apply (proj1 (StronglySorted_map (fun a b => bytes_ltb a b = true) f_version (firstn m all))).
    rewrite <- (firstn_skipn m all) in Hsa. apply StronglySorted_app_inv in Hsa as [H1 _]. exact H1. }
  (* the first revision is the one of the first file of [all] *)
  assert (exists f0, In f0 all /\ r_version r0 = f_version f0) as (f0 & Hf0 & Hv0).
  { destruct all as [|f0 l]; [simpl in Hm; lia|]. exists f0. split; [left; reflexivity|].
    rewrite Er in Hmap. replace m with (S (m - 1)) in Hmap by lia. simpl in Hmap. congruence. }
  rewrite (pending_refines hash c (pre ++ all) revs Hsf Hsr). unfold pending_spec. rewrite Er. rewrite <- Er.
  fold lst. unfold hist_spec. cbv zeta. rewrite Hlv.
  assert (sorted_files ((pre ++ A) ++ fm :: B)) as Hsf2 by (rewrite <- app_assoc, <- Hall; exact Hsf).
  destruct (sorted_files_mid (pre ++ A) fm B Hsf2) as [Hlt Hgt].
  assert (forall x, In x B -> f_ckpt x = false) as HBn.
  { intros x Hx. apply Htail. rewrite Hall. destruct A; simpl; [exact Hx|]. apply in_or_app. right. right. exact Hx. }
  assert (ooo_files (r_version r0) (f_version fm) revs (pre ++ all) = []) as ->.
  { unfold ooo_files. apply filter_false. intros x Hx.
    destruct (bytes_ltb (f_version x) (f_version fm)) eqn:Elt; [|rewrite andb_false_r; reflexivity].
    apply in_app_or in Hx as [Hx|Hx].
    - rewrite Hv0. assert (bytes_leb (f_version f0) (f_version x) = false) as ->.
      { apply bytes_leb_false_ltb. apply Hpre_lt; assumption. }
      rewrite andb_false_r. reflexivity.
    - assert (In x A) as HxA.
      { rewrite Hall in Hx. apply in_app_or in Hx as [Hx|[<-|Hx]]; [exact Hx| |].
        - rewrite bytes_ltb_irrefl in Elt. discriminate.
        - rewrite (bytes_ltb_asym _ _ (Hgt x Hx)) in Elt. discriminate. }
      assert (done_rev revs (f_version x) = true) as ->; [|rewrite andb_false_r; reflexivity].
      apply In_nth_error in HxA as [i Hi].
      assert (i < length A) as Hil by (apply nth_error_Some; congruence).
      destruct (nth_error_some_lt rl i ltac:(lia)) as [r Hr].
      assert (r_version r = f_version x) as Evx.
      { assert (nth_error (map (@r_version hash) rl) i = nth_error (map f_version A) i) as X by (rewrite Hmrl; reflexivity).
        rewrite !nth_error_map, Hr, Hi in X. simpl in X. congruence. }
      assert (nth_error revs i = Some r) as Hri.
      { rewrite Hsn. rewrite nth_error_app1 by lia. exact Hr. }
      apply done_rev_In. exists r. split; [eapply nth_error_In; exact Hri|]. split; [exact Evx|].
      apply (Hcomp i r); [unfold m in *; destruct p; lia|exact Hri]. }
  assert (newer (f_version fm) (pre ++ all) = B) as ->.
  { unfold newer. rewrite Hall. replace (pre ++ A ++ fm :: B) with (((pre ++ A) ++ [fm]) ++ B)
      by (rewrite <- !app_assoc; reflexivity).
    apply filter_split.
    - intros x Hx. apply in_app_or in Hx as [Hx|[<-|[]]].
      + rewrite (bytes_ltb_asym _ _ (Hlt x Hx)). apply andb_false_r.
      + rewrite bytes_ltb_irrefl. apply andb_false_r.
    - intros x Hx. rewrite (HBn x Hx), (Hgt x Hx). reflexivity. }
  rewrite !by_order_nil.
  assert (pre ++ all = (pre ++ A) ++ fm :: B) as Hfull2 by (rewrite Hall, <- app_assoc; reflexivity).
  destruct p.
  - assert (m - 1 = k) as Hk by (unfold m; lia). rewrite Hk in *.
    assert (r_applied lst =? r_total lst = false) as ->.
    { apply Nat.eqb_neq. apply (Hpart eq_refl lst Hnth). }
    rewrite Hfull2 at 1. rewrite (find_sorted (pre ++ A) fm B Hsf2).
    assert (skipn k all = fm :: B) as ->.
    { rewrite Hall, <- HA. apply skipn_app_exact. }
    destruct (f_ckpt fm); [reflexivity|]. rewrite by_order_nil. reflexivity.
  - assert (m = k) as Hk by (unfold m; lia). rewrite Hk in *.
    assert (r_applied lst =? r_total lst = true) as ->.
    { apply Nat.eqb_eq. apply (Hcomp (k - 1) lst); [lia|exact Hnth]. }
    rewrite Hall. replace k with (S (length A)) by lia. rewrite skipn_app_exact_S. reflexivity.
Qed.

End PendingFrom.

Section Resume.
Variable hash : Type.
Variable hash_eqb : hash -> hash -> bool.
Variable HS : bytes -> hash.
Hypothesis hash_eqb_spec : forall a b, hash_eqb a b = true <-> a = b.

Notation rev := (rev hash).
Notation event := (event hash).
Notation execute := (execute hash hash_eqb HS).
Notation exec_files := (exec_files hash hash_eqb HS).
Notation execute_n := (execute_n hash hash_eqb HS).
Notation claim_ok := (claim_ok hash HS).
Notation tbl_of_events := (tbl_of_events hash).
Notation sums := (sums hash HS).

(** ** inside one [Execute] *)
Section Good.
Variable f : file.
Local Notation fv := (f_version f).
Local Notation fstmts := (f_stmts f).
Local Notation fn := (length (f_stmts f)).

(** State [(a, e)]: the last successful write claims [a] statements; [e] =
    one more statement ran and is not claimed yet. *)
Fixpoint good (a : nat) (e : bool) (es : list event) : Prop :=
  match es with
  | [] => True
  | EExec v i s ok :: es' =>
      e = false /\ v = fv /\ i = a /\ nth_error fstmts a = Some s /\ good a ok es'
  | EWrite r ok :: es' =>
      claim_ok f r (a + b2n e) /\ r_total r = fn /\
      good (if ok then a + b2n e else a) (if ok then false else e) es'
  end.

Lemma good_okrun kind : forall c a tl,
  a + c <= fn -> good (a + c) false tl ->
  good a false (okrun hash fv fn kind (sums fstmts) fstmts a c ++ tl).
Proof.
  induction c as [|c IH]; intros a tl H Hg.
  - rewrite Nat.add_0_r in Hg. exact Hg.
  - simpl. destruct (nth_error_some_lt fstmts a) as [s Hs]; [lia|]. rewrite Hs.
    simpl. split; [reflexivity|]. split; [reflexivity|]. split; [reflexivity|]. split; [exact Hs|].
    split.
    + repeat split; unfold rv; cbn [r_applied r_version r_hashes b2n]; try lia.
      left. f_equal. lia.
    + split; [reflexivity|]. cbn [b2n]. replace (a + 1) with (S a) by lia.
      apply IH; [lia|]. replace (S a + c) with (a + S c) by lia. exact Hg.
Qed.

Lemma shape_good t r0 o t' es :
  pre hash HS f t r0 -> r_total r0 = fn ->
  exec_shape hash HS f t r0 o t' es -> good (r_applied r0) false es.
Proof.
  intros Hpre Htot Hsh.
  pose proof (pre_applied hash HS f t r0 Hpre) as Ha.
  set (a0 := r_applied r0) in *.
  assert (claim_ok f r0 (a0 + b2n false)) as C0.
  { cbn [b2n]. rewrite Nat.add_0_r. repeat split;
      [apply (pre_version hash HS f t r0 Hpre)|exact Ha|left; apply (pre_hashes hash HS f t r0 Hpre)]. }
  assert (forall c, r_total (cur hash HS f r0 c) = fn) as Tcur.
  { intros c. unfold cur. destruct (c =? 0); reflexivity. }
  destruct Hsh as [Ho Ht Hes|c ok3 Hc Ho Hes Ht|c s ok3 Hn Ho Hes Ht|c s Hn Ho Hes Ht]; subst es.
  - simpl. split; [exact C0|]. split; [exact Htot|exact I].
  - cbn [good]. split; [exact C0|]. split; [exact Htot|]. cbn [b2n]. rewrite Nat.add_0_r.
    apply good_okrun; [fold a0; lia|]. cbn [good b2n]. rewrite Nat.add_0_r.
    destruct (cur_claim hash HS f t r0 Hpre c) as (Hv & Hap & _ & _); [fold a0; lia|].
    split; [|split; [apply Tcur|destruct ok3; exact I]].
    unfold StepProofs.claim_ok. simpl. fold a0.
    split; [exact Hv|]. split; [exact Hap|]. split; [lia|]. right. split; [lia|reflexivity].
  - assert (a0 + c < fn) as Hlt by (apply nth_error_Some; unfold a0; congruence).
    cbn [good]. split; [exact C0|]. split; [exact Htot|]. cbn [b2n]. rewrite Nat.add_0_r.
    apply good_okrun; [fold a0; lia|]. cbn [good b2n]. rewrite Nat.add_0_r.
    split; [reflexivity|]. split; [reflexivity|]. split; [reflexivity|]. split; [exact Hn|].
    destruct (cur_claim hash HS f t r0 Hpre c) as (Hv & Hap & Hle & Hh); [fold a0; lia|].
    split; [|split; [apply Tcur|destruct ok3; exact I]].
    repeat split; simpl; auto.
  - assert (a0 + c < fn) as Hlt by (apply nth_error_Some; unfold a0; congruence).
    cbn [good]. split; [exact C0|]. split; [exact Htot|]. cbn [b2n]. rewrite Nat.add_0_r.
    apply good_okrun; [fold a0; lia|]. cbn [good b2n].
    split; [reflexivity|]. split; [reflexivity|]. split; [reflexivity|]. split; [exact Hn|].
    split; [|split; [reflexivity|exact I]].
    repeat split; unfold rv; cbn [r_applied r_version r_hashes]; try lia. left. f_equal. lia.
Qed.

(** What any prefix of a good event list leaves behind. *)
Lemma good_prefix : forall es1 es2 a e (t : list rev),
  a + b2n e <= fn ->
  good a e (es1 ++ es2) ->
  exists a1 e1,
    good a1 e1 es2 /\ a <= a1 /\ a + b2n e <= a1 + b2n e1 /\ a1 + b2n e1 <= fn /\
    journal es1 = map (pair fv) (firstn (a1 + b2n e1 - (a + b2n e)) (skipn (a + b2n e) fstmts)) /\
    ((tbl_of_events es1 t = t /\ a1 = a) \/
     (exists r1, tbl_of_events es1 t = tbl_put t r1 /\ claim_ok f r1 a1 /\ r_total r1 = fn)).
Proof.
  induction es1 as [|x es1 IH]; intros es2 a e t Hb Hg.
  - exists a, e. split; [exact Hg|]. split; [lia|]. split; [lia|]. split; [exact Hb|].
    split; [rewrite Nat.sub_diag; reflexivity|]. left. split; reflexivity.
  - destruct x as [v i s ok|r ok]; cbn [app good] in Hg.
    + destruct Hg as (-> & -> & -> & Hn & Hg). cbn [b2n] in *.
      assert (a < fn) as Hlt by (apply nth_error_Some; congruence).
      destruct (IH es2 a ok t ltac:(destruct ok; simpl; lia) Hg)
        as (a1 & e1 & Hg1 & Hle & Hle2 & Hb1 & Hj & Htb).
      exists a1, e1. split; [exact Hg1|]. split; [exact Hle|]. split; [destruct ok; simpl in *; lia|].
      split; [exact Hb1|]. split.
      * destruct ok; cbn [journal b2n] in *.
        -- rewrite Hj. rewrite !Nat.add_0_r.
           rewrite (skipn_nth_cons _ _ _ Hn).
           replace (a1 + b2n e1 - a) with (S (a1 + b2n e1 - (a + 1))) by lia.
           cbn [firstn map]. replace (S a) with (a + 1) by lia. reflexivity.
        -- rewrite Hj. reflexivity.
      * exact Htb.
    + destruct Hg as (Hcl & Htot & Hg).
      destruct ok.
      * destruct (IH es2 (a + b2n e) false (tbl_put t r) ltac:(simpl; lia) Hg)
          as (a1 & e1 & Hg1 & Hle & Hle2 & Hb1 & Hj & Htb).
        cbn [b2n] in Hle2, Hj. rewrite Nat.add_0_r in Hle2, Hj.
        exists a1, e1. split; [exact Hg1|]. split; [lia|]. split; [lia|]. split; [exact Hb1|].
        split; [exact Hj|]. right.
        change (tbl_of_events (EWrite r true :: es1) t) with (tbl_of_events es1 (tbl_put t r)).
        destruct Htb as [[Ht Ea]|(r1 & Ht & Hc1 & Ht1)].
        -- exists r. split; [exact Ht|]. split; [rewrite Ea; exact Hcl|exact Htot].
        -- exists r1. split; [|split; [exact Hc1|exact Ht1]].
           rewrite Ht. apply tbl_put_put. destruct Hcl as (-> & _). destruct Hc1 as (-> & _). reflexivity.
      * destruct (IH es2 a e t Hb Hg) as (a1 & e1 & Hg1 & Hle & Hle2 & Hb1 & Hj & Htb).
        exists a1, e1. repeat (split; [assumption|]). exact Htb.
Qed.

End Good.


Lemma journal_positions_length (es : list event) : length (journal es) = length (positions es).
Proof.
  induction es as [|x es IH]; [reflexivity|].
  destruct x as [v i s [|]|r ok]; simpl; rewrite ?IH; reflexivity.
Qed.

(** outputs of [run_all] *)
Definition all_events (outs : list (run_outcome * list rev * list event)) : list event :=
  flat_map (fun x => snd x) outs.
Definition wf_all (outs : list (run_outcome * list rev * list event)) : nat :=
  list_sum (map (fun x => wf (snd x)) outs).
Definition final_tbl (outs : list (run_outcome * list rev * list event)) (t : list rev) : list rev :=
  fold_left (fun _ x => snd (fst x)) outs t.

(** ** one directory *)
Section Dir.
(** [all]: the files the executor has to run, in order = the directory from its
    last checkpoint file on ([skipped] = the files before it, never run). *)
Variable all : list file.
Hypothesis Hsorted : sorted_files all.
Variable skipped : list file.
Hypothesis Hfull : sorted_files (skipped ++ all).
Hypothesis Hfresh : from_last_ckpt (skipped ++ all) = all.

Definition pos (k a : nat) : nat := length (plan (firstn k all)) + a.
Definition upto (n : nat) : list (bytes * bytes) := firstn n (plan all).
Local Notation plen := (length (plan all)).
Local Notation len f := (length (f_stmts f)).

Lemma plan_split k f : nth_error all k = Some f ->
  plan all = plan (firstn k all) ++ fplan f ++ plan (skipn (S k) all).
Proof.
  intros Hn. destruct (nth_error_firstn_split all k f Hn) as [_ Hall].
  pose proof (f_equal plan Hall) as Hp. rewrite plan_app in Hp. exact Hp.
Qed.

Lemma upto_pos k f a : nth_error all k = Some f -> a <= len f ->
  upto (pos k a) = plan (firstn k all) ++ map (pair (f_version f)) (firstn a (f_stmts f)).
Proof.
  intros Hn Ha. unfold upto, pos. rewrite (plan_split k f Hn).
  rewrite firstn_app. rewrite firstn_all2 by lia. f_equal.
  replace (length (plan (firstn k all)) + a - length (plan (firstn k all))) with a by lia.
  rewrite firstn_app. unfold fplan. rewrite map_length.
  replace (a - len f) with 0 by lia. simpl. rewrite app_nil_r. apply firstn_map.
Qed.

Lemma pos_add k a x : pos k a + x = pos k (a + x).
Proof. unfold pos. lia. Qed.

Lemma pos_next k f : nth_error all k = Some f -> pos (S k) 0 = pos k (len f).
Proof.
  intros Hn. destruct (nth_error_firstn_split all k f Hn) as [Hf _].
  unfold pos. rewrite Hf, plan_app, app_length. simpl. rewrite app_nil_r. unfold fplan. rewrite map_length. lia.
Qed.

Lemma pos_bound k f a : nth_error all k = Some f -> a <= len f -> pos k a <= plen.
Proof.
  intros Hn Ha. rewrite (plan_split k f Hn), !app_length. unfold pos, fplan. rewrite map_length. lia.
Qed.

Lemma pos_all : pos (length all) 0 = plen.
Proof. unfold pos. rewrite firstn_all. lia. Qed.

Lemma upto_length n : n <= plen -> length (upto n) = n.
Proof. intros H. unfold upto. apply firstn_length_le. exact H. Qed.

Lemma versions_inj i j f g :
  nth_error all i = Some f -> nth_error all j = Some g -> f_version f = f_version g -> i = j.
Proof.
  intros Hi Hj E. pose proof (sorted_files_NoDup all Hsorted) as Hnd.
  apply (proj1 (NoDup_nth_error _) Hnd).
  - rewrite map_length. apply nth_error_Some. congruence.
  - rewrite (map_nth_error f_version _ _ Hi), (map_nth_error f_version _ _ Hj), E. reflexivity.
Qed.

(** The resume invariant. *)
Definition Inv (t : list rev) (k a : nat) (has : bool) : Prop :=
  k + b2n has <= length all /\
  map (@r_version hash) t = map f_version (firstn (k + b2n has) all) /\
  (forall i f, i < k -> nth_error all i = Some f ->
     exists r, tbl_get t (f_version f) = Some r /\ claim_ok f r (len f) /\ r_total r = len f) /\
  (if has then exists f r, nth_error all k = Some f /\ tbl_get t (f_version f) = Some r /\
                          claim_ok f r a /\ r_total r = len f
   else a = 0).

Definition normal (k a : nat) (has : bool) : Prop :=
  has = true -> forall f, nth_error all k = Some f -> a < len f.

Lemma Inv_nil : Inv [] 0 0 false.
Proof.
  split; [simpl; lia|]. split; [reflexivity|]. split; [intros i f Hi; lia|reflexivity].
Qed.

Lemma Inv_notin t k a has j g :
  Inv t k a has -> nth_error all j = Some g -> k + b2n has <= j -> tbl_get t (f_version g) = None.
Proof.
  intros (Hm & Hmap & _) Hj Hle. apply tbl_get_None. rewrite Hmap. intros Hin.
  apply In_nth_error in Hin as [i Hi].
  assert (i < k + b2n has) as Hlt.
  { assert (i < length (map f_version (firstn (k + b2n has) all))) as L by (apply nth_error_Some; congruence).
    rewrite map_length, firstn_length in L. lia. }
  destruct (nth_error (firstn (k + b2n has) all) i) as [f|] eqn:Ef.
  2:{ rewrite nth_error_map, Ef in Hi. discriminate. }
  rewrite nth_error_map, Ef in Hi. simpl in Hi. inversion Hi as [E].
  rewrite nth_error_firstn in Ef by exact Hlt.
  pose proof (versions_inj i j f g Ef Hj E). lia.
Qed.

Lemma Inv_complete t k f : nth_error all k = Some f -> Inv t k (len f) true -> Inv t (S k) 0 false.
Proof.
  intros Hn (Hm & Hmap & Hrows & (f' & r & Hn' & Hg & Hc & Ht)).
  rewrite Hn in Hn'. inversion Hn'; subst f'. unfold Inv. cbn [b2n] in *.
  split; [lia|]. split; [replace (S k + 0) with (k + 1) by lia; exact Hmap|].
  split; [|reflexivity].
  intros i g Hi Hg'. destruct (Nat.eq_dec i k) as [->|Hne].
  - rewrite Hn in Hg'. inversion Hg'; subst g. exists r. auto.
  - apply (Hrows i g); [lia|exact Hg'].
Qed.

Lemma normalize t k a has : Inv t k a has ->
  exists k' a' has', Inv t k' a' has' /\ normal k' a' has' /\ pos k' a' = pos k a.
Proof.
  intros HI. destruct has.
  2:{ exists k, a, false. split; [exact HI|]. split; [intros H; discriminate|reflexivity]. }
  pose proof HI as (_ & _ & _ & (f & r & Hn & Hg & Hc & Ht)).
  destruct Hc as (_ & _ & Hle & _).
  destruct (Nat.eq_dec a (len f)) as [->|Hne].
  - exists (S k), 0, false. split; [apply (Inv_complete t k f Hn HI)|].
    split; [intros H; discriminate|apply pos_next; exact Hn].
  - exists k, a, true. split; [exact HI|]. split; [|reflexivity].
    intros _ f' Hn'. rewrite Hn in Hn'. inversion Hn'; subst f'. lia.
Qed.

Lemma Inv_pre t k a has f :
  Inv t k a has -> normal k a has -> nth_error all k = Some f ->
  exists r0, pre hash HS f t r0 /\ r_total r0 = len f /\ r_applied r0 = a.
Proof.
  intros HI Hnorm Hn. destruct has.
  - pose proof HI as (_ & _ & _ & (f' & r & Hn' & Hg & Hc & Ht)).
    rewrite Hn in Hn'. inversion Hn'; subst f'.
    pose proof (Hnorm eq_refl f Hn) as Hlt.
    destruct Hc as (Hv & Hap & Hle & Hh).
    exists r. split; [|split; [exact Ht|exact Hap]].
    right. split; [exact Hg|]. split; [lia|]. rewrite Hap.
    destruct Hh as [Hh|[E _]]; [exact Hh|lia].
  - pose proof HI as (_ & _ & _ & Ea). subst a.
    exists (new_rev (f_version f) (len f)). split; [|split; reflexivity].
    left. split; [|reflexivity]. apply (Inv_notin t k 0 false k f HI Hn). simpl. lia.
Qed.

Lemma Inv_put t k a has f r' a' :
  Inv t k a has -> nth_error all k = Some f ->
  claim_ok f r' a' -> r_total r' = len f -> Inv (tbl_put t r') k a' true.
Proof.
  intros HI Hn Hc Ht. pose proof HI as (Hm & Hmap & Hrows & Hk).
  pose proof Hc as (Hv & _).
  assert (k < length all) as Hlt by (apply nth_error_Some; congruence).
  destruct (nth_error_firstn_split all k f Hn) as [Hf1 _].
  split; [simpl; lia|]. split; [|split].
  - destruct has; cbn [b2n] in *.
    + rewrite tbl_put_versions_in; [exact Hmap|]. rewrite Hmap, Hv.
      apply in_map. replace (k + 1) with (S k) by lia. rewrite Hf1. apply in_or_app. right. left. reflexivity.
    + rewrite tbl_put_versions_notin.
      * rewrite Hmap, Hv. rewrite Nat.add_0_r. replace (k + 1) with (S k) by lia.
        rewrite Hf1, map_app. reflexivity.
      * apply tbl_get_None. rewrite Hv. apply (Inv_notin t k a false k f HI Hn). simpl. lia.
  - intros i g Hi Hg. destruct (Hrows i g Hi Hg) as (r & Hgr & Hcr & Htr).
    exists r. split; [|auto]. rewrite tbl_get_put_other; [exact Hgr|].
    rewrite Hv. intros E. pose proof (versions_inj i k g f Hg Hn E). lia.
  - exists f, r'. split; [exact Hn|]. split; [|auto]. rewrite <- Hv. apply tbl_get_put_same.
Qed.

(** Prefixes of the events of one [Execute] of file [k]. *)
Lemma file_prefix t k a has f x1 x2 :
  Inv t k a has -> normal k a has -> nth_error all k = Some f ->
  a <= len f ->
  good f a false (x1 ++ x2) ->
  exists a1 has1 e1,
    Inv (tbl_of_events x1 t) k a1 has1 /\
    upto (pos k a) ++ journal x1 = upto (pos k a1 + b2n e1) /\
    a <= a1 /\ a1 + b2n e1 <= len f /\
    length (journal x1) = a1 + b2n e1 - a.
Proof.
  intros HI Hnorm Hn Hle Hg.
  destruct (good_prefix f x1 x2 a false t ltac:(simpl; lia) Hg)
    as (a1 & e1 & _ & Hle1 & Hle2 & Hb1 & Hj & Htb).
  cbn [b2n] in Hle2, Hj. rewrite Nat.add_0_r in Hle2, Hj.
  assert (upto (pos k a) ++ journal x1 = upto (pos k a1 + b2n e1)) as Hup.
  { rewrite pos_add. rewrite (upto_pos k f a Hn Hle), (upto_pos k f (a1 + b2n e1) Hn Hb1).
    rewrite Hj, <- app_assoc, <- map_app, firstn_add_skipn. do 3 f_equal. lia. }
  assert (length (journal x1) = a1 + b2n e1 - a) as Hlen.
  { rewrite Hj, map_length, firstn_length, skipn_length. lia. }
  destruct Htb as [[Ht Ea]|(r1 & Ht & Hc1 & Ht1)].
  - exists a1, has, e1. rewrite Ht. split; [rewrite Ea; exact HI|]. repeat split; auto.
  - exists a1, true, e1. rewrite Ht. split; [eapply Inv_put; eauto|]. repeat split; auto.
Qed.

(** One whole [Execute] of file [k]: where it leaves table and journal; the
    statement that ran without being claimed is exactly a failed bookkeeping
    write directly after it ([wf]). *)
Lemma file_whole t k a has f fs o t1 fs1 es :
  Inv t k a has -> normal k a has -> nth_error all k = Some f ->
  execute f t fs = (o, t1, fs1, es) ->
  exists a1 has1 e1,
    Inv t1 k a1 has1 /\
    upto (pos k a) ++ journal es = upto (pos k a1 + b2n e1) /\
    a <= a1 /\ a1 + b2n e1 <= len f /\ b2n e1 = wf es.
Proof.
  intros HI Hnorm Hn EX.
  destruct (Inv_pre t k a has f HI Hnorm Hn) as (r0 & Hpre & Htot & Ha).
  pose proof (pre_applied hash HS f t r0 Hpre) as Hle. rewrite Ha in Hle.
  pose proof (execute_tbl hash hash_eqb HS f t fs o t1 fs1 es EX) as Ht1.
  destruct (execute_shape hash hash_eqb HS hash_eqb_spec f t r0 Hpre fs o t1 fs1 es EX) as [Hsh _].
  pose proof (shape_good f t r0 o t1 es Hpre Htot Hsh) as Hgood. rewrite Ha in Hgood.
  destruct (execute_spec hash hash_eqb HS hash_eqb_spec f t r0 fs o t1 fs1 es Hpre Htot EX)
    as (c & a' & S1 & S2 & S3 & S4 & Spos & Swf & Stbl & _).
  rewrite Ha in *.
  destruct (file_prefix t k a has f es [] HI Hnorm Hn Hle ltac:(rewrite app_nil_r; exact Hgood))
    as (aw & hasw & ew & HIw & Hupw & Hlew & Hbw & Hlenw).
  rewrite <- Ht1 in HIw.
  assert (aw = a') as Eaw.
  { destruct Stbl as [(-> & Hnone & _ & _ & -> & _)|(r' & -> & Hc' & _)].
    - destruct hasw.
      + destruct HIw as (_ & _ & _ & (g & r & Hg & Hgr & _)). rewrite Hn in Hg. inversion Hg; subst g.
        rewrite Hnone in Hgr. discriminate.
      + destruct HIw as (_ & _ & _ & ->). reflexivity.
    - destruct hasw.
      + destruct HIw as (_ & _ & _ & (g & r & Hg & Hgr & (_ & Hap & _) & _)). rewrite Hn in Hg. inversion Hg; subst g.
        destruct Hc' as (Hv' & Hap' & _). rewrite <- Hv', tbl_get_put_same in Hgr. inversion Hgr; subst r. lia.
      + exfalso. pose proof (Inv_notin _ k aw false k f HIw Hn ltac:(simpl; lia)) as Hnone.
        destruct Hc' as (Hv' & _). rewrite <- Hv', tbl_get_put_same in Hnone. discriminate. }
  exists aw, hasw, ew. split; [exact HIw|]. split; [exact Hupw|]. split; [exact Hlew|]. split; [exact Hbw|].
  assert (c = aw + b2n ew - a) as Ec.
  { rewrite <- Hlenw, journal_positions_length, Spos, map_length, seq_length. reflexivity. }
  rewrite Swf. lia.
Qed.

(** [Executor.exec] over pending files, from a state that satisfies the invariant. *)
Lemma exec_files_inv : forall files t fs o t' fs' es k a has,
  Inv t k a has -> normal k a has ->
  files = firstn (length files) (skipn k all) ->
  exec_files files t fs = (o, t', fs', es) ->
  (forall es1 es2, es = es1 ++ es2 ->
     exists k1 a1 has1 e1,
       Inv (tbl_of_events es1 t) k1 a1 has1 /\
       upto (pos k a) ++ journal es1 = upto (pos k1 a1 + b2n e1) /\
       pos k a <= pos k1 a1 /\ pos k1 a1 + b2n e1 <= plen /\
       (es2 = [] -> b2n e1 <= wf es /\
          (o = ODone -> files <> [] \/ (a = 0 /\ has = false) ->
           k1 = k + length files /\ a1 = 0 /\ has1 = false /\ e1 = false))) /\
  (fs = [] -> o = ODone /\ fs' = []) /\ t' = tbl_of_events es t.
Proof.
  induction files as [|f rest IH]; intros t fs o t' fs' es k a has HI Hnorm Hfiles Hex.
  - simpl in Hex. inversion Hex; subst o t' fs' es. split; [|split; [auto|reflexivity]].
    intros es1 es2 E. symmetry in E. apply app_eq_nil in E as [-> ->].
    exists k, a, has, false. cbn [b2n]. rewrite Nat.add_0_r. simpl. rewrite app_nil_r.
    split; [exact HI|]. split; [reflexivity|]. split; [lia|]. split.
    + destruct (normalize t k a has HI) as (k' & a' & has' & HI' & _ & <-).
      destruct has'.
      * destruct HI' as (_ & _ & _ & (g & r & Hg & _ & (_ & _ & Hle & _) & _)).
        apply (pos_bound k' g a' Hg Hle).
      * destruct HI' as (Hm & _ & _ & ->). simpl in Hm. rewrite Nat.add_0_r in Hm.
        unfold pos. rewrite Nat.add_0_r. rewrite <- (firstn_skipn k' all) at 2. rewrite plan_app, app_length. lia.
    + intros _. split; [lia|]. intros _ [H|[-> ->]]; [congruence|]. repeat split; lia.
  - (* the first pending file is file number k *)
    cbn [length firstn] in Hfiles.
    destruct (skipn k all) as [|f' tl] eqn:Esk; [discriminate|].
    inversion Hfiles as [[Ef Erest]]. subst f'.
    apply skipn_cons_inv in Esk as [Hn Esk']. subst tl.
    destruct (Inv_pre t k a has f HI Hnorm Hn) as (r0 & Hpre & Htot & Ha).
    pose proof (pre_applied hash HS f t r0 Hpre) as Hle. rewrite Ha in Hle.
    cbn [ExecModel.exec_files] in Hex.
    destruct (execute f t fs) as [[[o1 t1] fs1] es_f] eqn:EX.
    pose proof (execute_tbl hash hash_eqb HS f t fs o1 t1 fs1 es_f EX) as Ht1.
    destruct (execute_shape hash hash_eqb HS hash_eqb_spec f t r0 Hpre fs o1 t1 fs1 es_f EX) as [Hsh _].
    pose proof (shape_good f t r0 o1 t1 es_f Hpre Htot Hsh) as Hgood. rewrite Ha in Hgood.
    destruct (execute_spec hash hash_eqb HS hash_eqb_spec f t r0 fs o1 t1 fs1 es_f Hpre Htot EX)
      as (c & a' & S1 & S2 & S3 & S4 & Spos & Swf & Stbl & Soth & Sdone & Sok & Snf).
    rewrite Ha in *.
    (* the whole file *)
    destruct (file_prefix t k a has f es_f [] HI Hnorm Hn Hle ltac:(rewrite app_nil_r; exact Hgood))
      as (aw & hasw & ew & HIw & Hupw & Hlew & Hbw & Hlenw).
    rewrite <- Ht1 in HIw.
    assert (aw = a') as Eaw.
    { destruct Stbl as [(-> & Hnone & _ & _ & -> & _)|(r' & -> & Hc' & _)].
      - destruct hasw.
        + destruct HIw as (_ & _ & _ & (g & r & Hg & Hgr & _)). rewrite Hn in Hg. inversion Hg; subst g.
          rewrite Hnone in Hgr. discriminate.
        + destruct HIw as (_ & _ & _ & ->). reflexivity.
      - destruct hasw.
        + destruct HIw as (_ & _ & _ & (g & r & Hg & Hgr & (_ & Hap & _) & _)). rewrite Hn in Hg. inversion Hg; subst g.
          destruct Hc' as (Hv' & Hap' & _). rewrite <- Hv', tbl_get_put_same in Hgr. inversion Hgr; subst r. lia.
        + exfalso. pose proof (Inv_notin _ k aw false k f HIw Hn ltac:(simpl; lia)) as Hnone.
          destruct Hc' as (Hv' & _). rewrite <- Hv', tbl_get_put_same in Hnone. discriminate. }
    assert (b2n ew = wf es_f) as Eew.
    { assert (c = aw + b2n ew - a) as Ec.
      { rewrite <- Hlenw, journal_positions_length, Spos, map_length, seq_length. reflexivity. }
      rewrite Swf. lia. }
    assert (forall x1 x2, es_f = x1 ++ x2 ->
       exists k1 a1 has1 e1,
         Inv (tbl_of_events x1 t) k1 a1 has1 /\
         upto (pos k a) ++ journal x1 = upto (pos k1 a1 + b2n e1) /\
         pos k a <= pos k1 a1 /\ pos k1 a1 + b2n e1 <= plen /\
         (x2 = [] -> b2n e1 <= wf es_f)) as Hfile.
    { intros x1 x2 E. rewrite E in Hgood.
      destruct (file_prefix t k a has f x1 x2 HI Hnorm Hn Hle Hgood)
        as (a1 & has1 & e1 & HI1 & Hup1 & Hle1 & Hb1 & Hlen1).
      exists k, a1, has1, e1. split; [exact HI1|]. split; [exact Hup1|].
      split; [unfold pos; lia|]. split; [rewrite pos_add; apply (pos_bound k f _ Hn Hb1)|].
      intros ->. rewrite app_nil_r in E. subst x1.
      assert (a1 + b2n e1 = aw + b2n ew) as E2 by lia.
      assert (a1 = a').
      { destruct Stbl as [(Et & Hnone & _ & _ & -> & _)|(r' & Et & Hc' & _)].
        - rewrite <- Ht1, Et in HI1. destruct has1.
          + destruct HI1 as (_ & _ & _ & (g & r & Hg & Hgr & _)). rewrite Hn in Hg. inversion Hg; subst g.
            rewrite Hnone in Hgr. discriminate.
          + destruct HI1 as (_ & _ & _ & ->). reflexivity.
        - rewrite <- Ht1, Et in HI1. destruct has1.
          + destruct HI1 as (_ & _ & _ & (g & r & Hg & Hgr & (_ & Hap & _) & _)). rewrite Hn in Hg. inversion Hg; subst g.
            destruct Hc' as (Hv' & Hap' & _). rewrite <- Hv', tbl_get_put_same in Hgr. inversion Hgr; subst r. lia.
          + exfalso. pose proof (Inv_notin _ k a1 false k f HI1 Hn ltac:(simpl; lia)) as Hnone.
            destruct Hc' as (Hv' & _). rewrite <- Hv', tbl_get_put_same in Hnone. discriminate. }
      lia. }
    assert (o1 = ODone \/ o1 <> ODone) as [Eo|Hne] by (destruct o1; auto; right; discriminate).
    + (* the file completed: continue with file k + 1 *)
      subst o1. destruct (Sdone eq_refl) as [Ea' Hallok]. 
      destruct (exec_files rest t1 fs1) as [[[o2 t2] fs2] es_r] eqn:EXr.
      inversion Hex; subst o t' fs' es. clear Hex.
      assert (Inv t1 (S k) 0 false) as HI1.
      { apply (Inv_complete t1 k f Hn).
        destruct Stbl as [(_ & _ & Ees & _)|(r' & -> & Hc' & Ht')].
        - rewrite Ees in Hallok. inversion Hallok as [|? ? Hx _]; subst. discriminate.
        - rewrite <- Ea'. eapply Inv_put; eauto. }
      assert (normal (S k) 0 false) as Hnorm1 by (intros H; discriminate).
      destruct (IH t1 fs1 o2 t2 fs2 es_r (S k) 0 false HI1 Hnorm1 Erest EXr) as (IHp & IHnf & IHt).
      assert (ew = false) as Eew0 by (destruct ew; [simpl in Hbw; lia|reflexivity]).
      assert (upto (pos k a) ++ journal es_f = upto (pos (S k) 0)) as Hupf.
      { rewrite Hupw, Eew0, Eaw, Ea'. cbn [b2n]. rewrite Nat.add_0_r, (pos_next k f Hn). reflexivity. }
      split; [|split].
      * intros es1 es2 E.
        assert ((exists x y, es_f = es1 ++ x :: y) \/ (exists l, es1 = es_f ++ l /\ es_r = l ++ es2)) as [(x & y & E1)|(l & E1 & E2)].
        { apply app_eq_app in E as [l [[E1 E2]|[E1 E2]]].
          - destruct l as [|x y]; [|left; eauto].
            right. exists []. rewrite app_nil_r in *. simpl in E2. subst. split; reflexivity.
          - right. eauto. }
        -- destruct (Hfile es1 (x :: y) E1) as (k1 & a1 & has1 & e1 & H1 & H2 & H3 & H4 & _).
           exists k1, a1, has1, e1. repeat (split; [assumption|]).
           intros ->. exfalso. rewrite E1, <- app_assoc in E. simpl in E.
           apply (f_equal (@length _)) in E. rewrite !app_length in E. simpl in E. lia.
        -- destruct (IHp l es2 E2) as (k1 & a1 & has1 & e1 & H1 & H2 & H3 & H4 & H5).
           exists k1, a1, has1, e1.
           split; [rewrite E1, tbl_of_events_app, <- Ht1; exact H1|].
           split; [rewrite E1, journal_app, app_assoc, Hupf; exact H2|].
           split; [rewrite (pos_next k f Hn) in H3; unfold pos in *; lia|]. split; [exact H4|].
           intros ->. destruct (H5 eq_refl) as [Hw Hd]. split.
           ++ pose proof (wf_app hash es_f es_r). lia.
           ++ intros Ho _. destruct (Hd Ho ltac:(right; split; reflexivity)) as (-> & -> & -> & ->).
              rewrite <- Erest. repeat split; simpl; try reflexivity; lia.
      * intros ->. destruct (Snf eq_refl) as [_ ->]. apply IHnf. reflexivity.
      * rewrite tbl_of_events_app, <- Ht1. exact IHt.
    + (* the file failed: the run ends here *)
      assert ((o, t', fs', es) = (o1, t1, fs1, es_f)) as Eres.
      { rewrite <- Hex. destruct o1; try reflexivity. contradiction. }
      inversion Eres; subst o t' fs' es. clear Eres Hex.
      split; [|split; [|exact Ht1]].
      * intros es1 es2 E. destruct (Hfile es1 es2 E) as (k1 & a1 & has1 & e1 & H1 & H2 & H3 & H4 & H5).
        exists k1, a1, has1, e1. repeat (split; [assumption|]).
        intros E2. split; [apply H5; exact E2|]. intros Ho. contradiction.
      * intros ->. destruct (Snf eq_refl) as [Ho _]. contradiction.
Qed.


Lemma Inv_pos_le t k a has : Inv t k a has -> pos k a <= plen.
Proof.
  intros HI. destruct (normalize t k a has HI) as (k' & a' & has' & HI' & _ & <-).
  destruct has'.
  - destruct HI' as (_ & _ & _ & (g & r & Hg & _ & (_ & _ & Hle & _) & _)).
    apply (pos_bound k' g a' Hg Hle).
  - destruct HI' as (Hm & _ & _ & ->). simpl in Hm. rewrite Nat.add_0_r in Hm.
    unfold pos. rewrite Nat.add_0_r. rewrite <- (firstn_skipn k' all) at 2. rewrite plan_app, app_length. lia.
Qed.

Lemma exec_files_single f (t : list rev) fs :
  exec_files [f] t fs = execute f t fs.
Proof.
  cbn [ExecModel.exec_files]. destruct (execute f t fs) as [[[o t1] fs1] es].
  destruct o; try reflexivity. rewrite app_nil_r. reflexivity.
Qed.

(** ** [Pending] from a state that satisfies the invariant *)
Definition cfg_ok (c : cfg) : Prop :=
  c_baseline c = None /\ c_dirty c && negb (c_allow_dirty c) = false.

Lemma Inv_sorted t k a has : Inv t k a has -> sorted_revs t.
Proof.
  intros (Hm & Hmap & _).
  apply (proj2 (StronglySorted_map (fun a b => bytes_ltb a b = true) (@r_version hash) t)).
  rewrite Hmap. apply (proj1 (StronglySorted_map (fun a b => bytes_ltb a b = true) f_version _)).
  pose proof Hsorted as Hs. rewrite <- (firstn_skipn (k + b2n has) all) in Hs.
  apply StronglySorted_app_inv in Hs as [H1 _]. exact H1.
Qed.

Lemma sorted_revs_NoDup (t : list rev) : sorted_revs t -> NoDup (map (@r_version hash) t).
Proof.
  induction 1 as [|x l Hs IH Hf]; simpl; constructor; [|exact IH].
  intros Hin. apply in_map_iff in Hin as (y & Ey & Hy). rewrite Forall_forall in Hf.
  specialize (Hf y Hy). unfold rver_lt in Hf. rewrite Ey, bytes_ltb_irrefl in Hf. discriminate.
Qed.

Lemma Inv_row t k a has i r f :
  Inv t k a has -> nth_error t i = Some r -> nth_error all i = Some f ->
  tbl_get t (f_version f) = Some r.
Proof.
  intros HI Hr Hf. pose proof HI as (Hm & Hmap & _).
  assert (r_version r = f_version f) as Ev.
  { pose proof (map_nth_error (@r_version hash) _ _ Hr) as H1. rewrite Hmap in H1.
    assert (i < k + b2n has) as Hlt.
    { assert (i < length (map f_version (firstn (k + b2n has) all))) as L by (apply nth_error_Some; congruence).
      rewrite map_length, firstn_length in L. lia. }
    rewrite nth_error_map, nth_error_firstn, Hf in H1 by exact Hlt. simpl in H1. congruence. }
  rewrite <- Ev. apply tbl_get_of_In; [|eapply nth_error_In; exact Hr].
  apply sorted_revs_NoDup. eapply Inv_sorted; exact HI.
Qed.

Lemma Htail : forall f, In f (tl all) -> f_ckpt f = false.
Proof. rewrite <- Hfresh. apply from_last_ckpt_tail. Qed.

Lemma pending_inv c t k a has :
  cfg_ok c -> Inv t k a has -> normal k a has ->
  pending c (skipped ++ all) (read_revisions hash t) = (finish (skipn k all), None).
Proof.
  intros [Hb Hd] HI Hnorm. rewrite (read_revisions_sorted_id hash t (Inv_sorted t k a has HI)).
  pose proof HI as (Hm & Hmap & Hrows & Hk).
  destruct (Nat.eq_dec (k + b2n has) 0) as [E0|Hpos].
  - assert (k = 0) as -> by lia. rewrite E0 in Hmap. simpl in Hmap. apply map_eq_nil in Hmap. subst t.
    rewrite (first_refines hash c (skipped ++ all) Hfull). unfold first_spec.
    rewrite Hb, Hd, Hfresh. reflexivity.
  - apply (pending_from_state hash c skipped all t k has Hfull Htail).
    split; [exact Hm|]. split; [unfold b2n in Hpos; lia|]. split; [exact Hmap|]. split.
    + intros i r Hi Hr.
      destruct (nth_error_some_lt all i ltac:(lia)) as [f Hf].
      destruct (Hrows i f Hi Hf) as (r' & Hg & (_ & Hap & _) & Ht).
      rewrite (Inv_row t k a has i r f HI Hr Hf) in Hg. inversion Hg; subst r'. lia.
    + intros -> r Hr. destruct Hk as (f & r' & Hf & Hg & (_ & Hap & _) & Ht).
      rewrite (Inv_row t k a true k r f HI Hr Hf) in Hg. inversion Hg; subst r'.
      pose proof (Hnorm eq_refl f Hf). lia.
Qed.

(** ** the journal across event prefixes and runs *)
Lemma upto_all : upto plen = plan all.
Proof. unfold upto. apply firstn_all. Qed.

Lemma upto_snoc P y X Q :
  P + 1 <= plen -> upto P ++ y :: X = upto Q -> upto (P + 1) = upto P ++ [y].
Proof.
  intros HP E.
  assert (P + 1 <= Q) as HQ.
  { apply (f_equal (@length _)) in E. rewrite app_length, upto_length in E by lia.
    simpl in E. unfold upto in E. pose proof (firstn_le_length Q (plan all)). lia. }
  apply (f_equal (firstn (P + 1))) in E. unfold upto in *.
  rewrite firstn_firstn, Nat.min_l in E by exact HQ. rewrite <- E.
  rewrite firstn_app, firstn_length_le by lia.
  rewrite (firstn_all2 (firstn P (plan all))) by (rewrite firstn_length_le; lia).
  replace (P + 1 - P) with 1 by lia. reflexivity.
Qed.

Lemma stutter_step P e d (J X : list (bytes * bytes)) Q e1 :
  stutter d (upto (P + b2n e)) J -> P + b2n e <= plen ->
  upto P ++ X = upto (Q + b2n e1) -> P <= Q -> Q + b2n e1 <= plen ->
  exists e' d', stutter d' (upto (Q + b2n e')) (J ++ X) /\ Q + b2n e' <= plen /\
                d' + b2n e' <= d + b2n e + b2n e1.
Proof.
  intros Hst HP E HPQ HQ. destruct X as [|y X].
  - rewrite app_nil_r in *. apply (f_equal (@length _)) in E. rewrite !upto_length in E by lia.
    assert (Q = P) as -> by lia. exists e, d. split; [exact Hst|]. split; [exact HP|lia].
  - destruct e; cbn [b2n] in *.
    + rewrite (upto_snoc P y X _ HP E) in Hst.
      exists e1, (S d). split; [|split; [exact HQ|lia]].
      rewrite <- E. change (y :: X) with ([y] ++ X). rewrite !app_assoc.
      apply stutter_app. apply stutter_dup. exact Hst.
    + rewrite Nat.add_0_r in Hst. exists e1, d. split; [|split; [exact HQ|lia]].
      rewrite <- E. apply stutter_app. exact Hst.
Qed.

(** The global invariant: the table is at position [P = pos k a], the journal
    [J] covers the plan up to [E = P + e] with [d] repeats, and repeats plus the
    pending unclaimed statement are bounded by [D]. *)
Definition GInv (t : list rev) (J : list (bytes * bytes)) (D : nat) : Prop :=
  exists k a has e d,
    Inv t k a has /\ stutter d (upto (pos k a + b2n e)) J /\
    pos k a + b2n e <= plen /\ d + b2n e <= D.

Definition GDone (t : list rev) (J : list (bytes * bytes)) (D : nat) : Prop :=
  Inv t (length all) 0 false /\ exists d, stutter d (plan all) J /\ d <= D.

Lemma GInv_nil : GInv [] [] 0.
Proof.
  exists 0, 0, false, false, 0. split; [exact Inv_nil|].
  split; [constructor|]. simpl. split; lia.
Qed.

Lemma firstn_length_self {A} n (l : list A) : firstn n l = firstn (length (firstn n l)) l.
Proof.
  rewrite firstn_length. destruct (Nat.le_ge_cases n (length l)) as [H|H].
  - rewrite Nat.min_l by exact H. reflexivity.
  - rewrite Nat.min_r by exact H. rewrite firstn_all, firstn_all2 by lia. reflexivity.
Qed.

Lemma run_ginv c n t fs ro t' fs' es J D :
  cfg_ok c -> GInv t J D ->
  execute_n c n (skipped ++ all) t fs = (ro, t', fs', es) ->
  GInv t' (J ++ journal es) (D + wf es) /\
  t' = tbl_of_events es t /\
  (forall es1 es2, es = es1 ++ es2 -> GInv (tbl_of_events es1 t) (J ++ journal es1) (D + 1)) /\
  (fs = [] -> n = 0 -> GDone t' (J ++ journal es) (D + wf es)).
Proof.
  intros Hc (k0 & a0 & has0 & e & d & HI0 & Hst & HE & HD) Hex.
  destruct (normalize t k0 a0 has0 HI0) as (k & a & has & HI & Hnorm & Epos).
  rewrite <- Epos in Hst, HE. clear HI0 Epos k0 a0 has0.
  pose proof (pending_inv c t k a has Hc HI Hnorm) as Hpend.
  destruct (skipn k all) as [|f l] eqn:Esk.
  - (* nothing pending *)
    rewrite (execute_n_error hash hash_eqb HS c n (skipped ++ all) t fs _ Hpend) in Hex by (intros p; discriminate).
    inversion Hex; subst ro t' fs' es. simpl. rewrite app_nil_r, !Nat.add_0_r.
    assert (GInv t J D) as HG by (exists k, a, has, e, d; auto).
    split; [exact HG|]. split; [reflexivity|]. split.
    + intros es1 es2 E. symmetry in E. apply app_eq_nil in E as [-> _]. simpl. rewrite app_nil_r.
      destruct HG as (k1 & a1 & has1 & e1 & d1 & H1 & H2 & H3 & H4). exists k1, a1, has1, e1, d1. split; [exact H1|split; [exact H2|split; [exact H3|lia]]].
    + intros _ _.
      assert (length all <= k) as Hk.
      { apply (f_equal (@length _)) in Esk. rewrite skipn_length in Esk. simpl in Esk. lia. }
      pose proof HI as (Hm & _ & _ & Hk').
      assert (k = length all) as -> by lia. destruct has; [simpl in Hm; lia|]. subst a.
      rewrite pos_all in Hst, HE. destruct e; [simpl in HE; lia|].
      cbn [b2n] in Hst. rewrite Nat.add_0_r, upto_all in Hst.
      split; [exact HI|]. exists d. split; [exact Hst|]. simpl in HD. lia.
  - (* run the chosen pending files *)
    change (finish (f :: l)) with (PFiles (f :: l)) in Hpend.
    rewrite (execute_n_first_n hash hash_eqb HS c n (skipped ++ all) t fs _ Hpend) in Hex.
    set (chosen := if 0 <? n then firstn n (f :: l) else f :: l) in *.
    destruct (exec_files chosen t fs) as [[[o t2] fs2] es'] eqn:EX.
    inversion Hex; subst ro t' fs' es. clear Hex.
    assert (chosen = firstn (length chosen) (skipn k all)) as Hch.
    { rewrite Esk. unfold chosen. destruct (0 <? n); [apply firstn_length_self|].
      symmetry. apply firstn_all. }
    destruct (exec_files_inv chosen t fs o t2 fs2 es' k a has HI Hnorm Hch EX) as (Hp & Hnf & Ht).
    assert (forall es1 es2, es' = es1 ++ es2 ->
              exists k1 a1 has1 e' d' w,
                Inv (tbl_of_events es1 t) k1 a1 has1 /\
                stutter d' (upto (pos k1 a1 + b2n e')) (J ++ journal es1) /\
                pos k1 a1 + b2n e' <= plen /\ d' + b2n e' <= D + w /\ w <= 1 /\
                (es2 = [] -> w <= wf es' /\
                   (o = ODone -> chosen <> [] -> k1 = k + length chosen /\ a1 = 0 /\ has1 = false))) as Hgen.
    { intros es1 es2 E.
      destruct (Hp es1 es2 E) as (k1 & a1 & has1 & e1 & H1 & H2 & H3 & H4 & H5).
      destruct (stutter_step (pos k a) e d J (journal es1) (pos k1 a1) e1 Hst HE H2 H3 H4)
        as (e' & d' & S1 & S2 & S3).
      exists k1, a1, has1, e', d', (b2n e1). split; [exact H1|]. split; [exact S1|]. split; [exact S2|].
      split; [lia|]. split; [destruct e1; simpl; lia|].
      intros E2. destruct (H5 E2) as [Hw Hd]. split; [exact Hw|].
      intros Ho Hne. destruct (Hd Ho (or_introl Hne)) as (-> & -> & -> & _). auto. }
    split; [|split; [exact Ht|split]].
    + destruct (Hgen es' [] ltac:(rewrite app_nil_r; reflexivity))
        as (k1 & a1 & has1 & e' & d' & w & G1 & G2 & G3 & G4 & _ & G5).
      destruct (G5 eq_refl) as [Hw _].
      rewrite <- Ht in G1. exists k1, a1, has1, e', d'. split; [exact G1|split; [exact G2|split; [exact G3|lia]]].
    + intros es1 es2 E.
      destruct (Hgen es1 es2 E) as (k1 & a1 & has1 & e' & d' & w & G1 & G2 & G3 & G4 & G5 & _).
      exists k1, a1, has1, e', d'. split; [exact G1|split; [exact G2|split; [exact G3|lia]]].
    + intros -> ->. destruct (Hnf eq_refl) as [-> _].
      destruct (Hgen es' [] ltac:(rewrite app_nil_r; reflexivity))
        as (k1 & a1 & has1 & e' & d' & w & G1 & G2 & G3 & G4 & _ & G5).
      assert (chosen = f :: l) as Ech by reflexivity.
      destruct (G5 eq_refl) as [Hw G6].
      destruct (G6 eq_refl ltac:(rewrite Ech; discriminate)) as (-> & -> & ->).
      rewrite <- Ht in G1.
      assert (k + length chosen = length all) as Ek.
      { rewrite Ech, <- Esk, skipn_length.
        assert (k < length all).
        { destruct (Nat.lt_ge_cases k (length all)) as [H|H]; [exact H|].
          rewrite skipn_length_ge in Esk by exact H. discriminate. }
        lia. }
      rewrite Ek in *. rewrite pos_all in G2, G3. destruct e'; [simpl in G3; lia|].
      cbn [b2n] in *. rewrite Nat.add_0_r, upto_all in G2.
      split; [exact G1|]. exists d'. split; [exact G2|lia].
Qed.


(** ** what the table claims, as a list of planned statements *)
Definition claimed_plan (t : list rev) : list (bytes * bytes) :=
  flat_map (fun f => map (pair (f_version f)) (firstn (stored_applied hash t (f_version f)) (f_stmts f))) all.

Lemma nth_error_skipn_add {A} m (l : list A) j : nth_error (skipn m l) j = nth_error l (m + j).
Proof.
  revert l; induction m as [|m IH]; intros l; [reflexivity|].
  destruct l as [|x l]; simpl; [destruct j; reflexivity|apply IH].
Qed.

Lemma upto_pos0 k : upto (pos k 0) = plan (firstn k all).
Proof.
  pose proof (f_equal plan (firstn_skipn k all)) as Hp. rewrite plan_app in Hp.
  unfold upto, pos. rewrite <- Hp, Nat.add_0_r, firstn_app, firstn_all, Nat.sub_diag. simpl. apply app_nil_r.
Qed.

Lemma Inv_claimed t k a has : Inv t k a has -> claimed_plan t = upto (pos k a).
Proof.
  intros HI. pose proof HI as (Hm & Hmap & Hrows & Hk).
  set (g := fun f => map (pair (f_version f)) (firstn (stored_applied hash t (f_version f)) (f_stmts f))).
  assert (forall l, (forall f, In f l -> stored_applied hash t (f_version f) = len f) -> flat_map g l = plan l) as Hwhole.
  { induction l as [|f l IH]; intros H; [reflexivity|]. simpl. rewrite IH by (intros; apply H; right; auto).
    unfold g. rewrite (H f (or_introl eq_refl)), firstn_all. reflexivity. }
  assert (forall l, (forall f, In f l -> stored_applied hash t (f_version f) = 0) -> flat_map g l = []) as Hnone.
  { induction l as [|f l IH]; intros H; [reflexivity|]. simpl. rewrite IH by (intros; apply H; right; auto).
    unfold g. rewrite (H f (or_introl eq_refl)). reflexivity. }
  assert (forall m f, k + b2n has <= m -> In f (skipn m all) -> stored_applied hash t (f_version f) = 0) as Hlater.
  { intros m f Hle Hin. apply In_nth_error in Hin as [j Hj]. rewrite nth_error_skipn_add in Hj.
    unfold stored_applied. rewrite (Inv_notin t k a has (m + j) f HI Hj) by lia. reflexivity. }
  unfold claimed_plan. fold g. rewrite <- (firstn_skipn k all) at 1. rewrite flat_map_app.
  rewrite Hwhole.
  2:{ intros f Hin. apply In_nth_error in Hin as [i Hi].
      assert (i < k) as Hlt.
      { assert (i < length (firstn k all)) as L by (apply nth_error_Some; congruence).
        rewrite firstn_length in L. lia. }
      rewrite nth_error_firstn in Hi by exact Hlt.
      destruct (Hrows i f Hlt Hi) as (r & Hg & (_ & Hap & _) & _).
      unfold stored_applied. rewrite Hg. exact Hap. }
  destruct has; cbn [b2n] in *.
  - destruct Hk as (f & r & Hn & Hg & (_ & Hap & Hle & _) & _).
    rewrite (upto_pos k f a Hn Hle). f_equal.
    destruct (nth_error_firstn_split all k f Hn) as [_ Hall].
    rewrite (skipn_nth_cons all k f Hn). cbn [flat_map].
    rewrite (Hnone (skipn (S k) all)) by (intros x Hx; apply (Hlater (S k)); [lia|exact Hx]).
    rewrite app_nil_r. unfold g, stored_applied. rewrite Hg, Hap. reflexivity.
  - subst a. rewrite upto_pos0.
    rewrite (Hnone (skipn k all)) by (intros x Hx; apply (Hlater k); [lia|exact Hx]).
    apply app_nil_r.
Qed.

Lemma Inv_rows t k a has r :
  Inv t k a has -> In r t -> exists f, In f all /\ claim_ok f r (r_applied r) /\ r_total r = len f.
Proof.
  intros HI Hin. pose proof HI as (Hm & Hmap & Hrows & Hk).
  apply In_nth_error in Hin as [i Hi].
  assert (i < k + b2n has) as Hlt.
  { assert (i < length (map (@r_version hash) t)) as L by (rewrite map_length; apply nth_error_Some; congruence).
    rewrite Hmap, map_length, firstn_length in L. lia. }
  destruct (nth_error_some_lt all i ltac:(lia)) as [f Hf].
  pose proof (Inv_row t k a has i r f HI Hi Hf) as Hg.
  exists f. split; [eapply nth_error_In; exact Hf|].
  destruct (Nat.lt_ge_cases i k) as [Hik|Hik].
  - destruct (Hrows i f Hik Hf) as (r' & Hg' & Hc & Ht). rewrite Hg in Hg'. inversion Hg'; subst r'.
    pose proof Hc as (_ & Hap & _). rewrite Hap. auto.
  - destruct has; cbn [b2n] in *; [|lia]. assert (i = k) as -> by lia.
    destruct Hk as (f' & r' & Hn & Hg' & Hc & Ht). rewrite Hf in Hn. inversion Hn; subst f'.
    rewrite Hg in Hg'. inversion Hg'; subst r'.
    pose proof Hc as (_ & Hap & _). rewrite Hap. auto.
Qed.

(** ** sequences of runs *)
Definition run_ok (r : run) : Prop := run_dir r = skipped ++ all /\ cfg_ok (run_cfg r).

Notation run_all := (run_all hash hash_eqb HS).

Lemma runs_ginv : forall rs t J D,
  Forall run_ok rs -> GInv t J D ->
  GInv (final_tbl (run_all rs t) t) (J ++ journal (all_events (run_all rs t)))
       (D + wf_all (run_all rs t)) /\
  final_tbl (run_all rs t) t = tbl_of_events (all_events (run_all rs t)) t.
Proof.
  induction rs as [|r rs IH]; intros t J D Hok HG.
  - simpl. rewrite app_nil_r, Nat.add_0_r. split; [exact HG|reflexivity].
  - inversion Hok as [|? ? [Hdir Hcfg] Hok']; subst.
    cbn [RunModel.run_all]. rewrite Hdir.
    destruct (execute_n (run_cfg r) (run_n r) (skipped ++ all) t (run_faults r)) as [[[ro t'] fs'] es] eqn:EX.
    destruct (run_ginv _ _ _ _ _ _ _ _ J D Hcfg HG EX) as (G1 & Ht & _ & _).
    destruct (IH t' (J ++ journal es) (D + wf es) Hok' G1) as (G2 & Ht2).
    unfold final_tbl, all_events, wf_all in *. simpl.
    rewrite journal_app, app_assoc, Nat.add_assoc. split; [exact G2|].
    rewrite tbl_of_events_app, <- Ht. exact Ht2.
Qed.

Lemma runs_prefix : forall rs t J D,
  Forall run_ok rs -> GInv t J D ->
  forall pre post, all_events (run_all rs t) = pre ++ post ->
  exists D', GInv (tbl_of_events pre t) (J ++ journal pre) D'.
Proof.
  induction rs as [|r rs IH]; intros t J D Hok HG pre post E.
  - simpl in E. symmetry in E. apply app_eq_nil in E as [-> _]. simpl. rewrite app_nil_r. eauto.
  - inversion Hok as [|? ? [Hdir Hcfg] Hok']; subst.
    cbn [RunModel.run_all] in E. rewrite Hdir in E.
    destruct (execute_n (run_cfg r) (run_n r) (skipped ++ all) t (run_faults r)) as [[[ro t'] fs'] es] eqn:EX.
    destruct (run_ginv _ _ _ _ _ _ _ _ J D Hcfg HG EX) as (G1 & Ht & Gp & _).
    unfold all_events in E. simpl in E. apply app_eq_app in E as [l [[E1 E2]|[E1 E2]]].
    + exists (D + 1). apply (Gp pre l). exact E1.
    + destruct (IH t' (J ++ journal es) (D + wf es) Hok' G1 l post) as (D' & G2).
      { unfold all_events. exact E2. }
      exists D'. rewrite E1, tbl_of_events_app, journal_app, app_assoc, <- Ht. exact G2.
Qed.

Lemma runs_done : forall rs c t J D,
  Forall run_ok rs -> cfg_ok c -> GInv t J D ->
  let outs := run_all (rs ++ [mkRun c 0 (skipped ++ all) []]) t in
  GDone (final_tbl outs t) (J ++ journal (all_events outs)) (D + wf_all outs).
Proof.
  induction rs as [|r rs IH]; intros c t J D Hok Hc HG.
  - cbn [app RunModel.run_all run_cfg run_n run_dir run_faults].
    destruct (execute_n c 0 (skipped ++ all) t []) as [[[ro t'] fs'] es] eqn:EX.
    destruct (run_ginv _ _ _ _ _ _ _ _ J D Hc HG EX) as (_ & _ & _ & Gd).
    unfold final_tbl, all_events, wf_all. simpl. rewrite app_nil_r, Nat.add_0_r. apply Gd; reflexivity.
  - inversion Hok as [|? ? [Hdir Hcfg] Hok']; subst.
    cbn [app RunModel.run_all]. rewrite Hdir.
    destruct (execute_n (run_cfg r) (run_n r) (skipped ++ all) t (run_faults r)) as [[[ro t'] fs'] es] eqn:EX.
    destruct (run_ginv _ _ _ _ _ _ _ _ J D Hcfg HG EX) as (G1 & Ht & _ & _).
    pose proof (IH c t' (J ++ journal es) (D + wf es) Hok' Hc G1) as G2.
    unfold final_tbl, all_events, wf_all in *. simpl.
    rewrite journal_app, app_assoc, Nat.add_assoc. exact G2.
Qed.

(** ** the statements exported to Props_C09 *)
Lemma resume_lemma rs :
  Forall run_ok rs ->
  let outs := run_all rs [] in
  exists P E reps,
    P <= E /\ E <= P + 1 /\ E <= plen /\ length reps = E /\
    journal (all_events outs) = expand (firstn E (plan all)) reps /\
    list_sum reps <= wf_all outs /\
    claimed_plan (final_tbl outs []) = firstn P (plan all).
Proof.
  intros Hok outs.
  destruct (runs_ginv rs [] [] 0 Hok GInv_nil) as ((k & a & has & e & d & HI & Hst & HE & HD) & _).
  fold outs in HI, Hst, HD. simpl in Hst, HD.
  destruct (stutter_expand _ _ _ Hst) as (reps & Hl & Hs & Hj).
  exists (pos k a), (pos k a + b2n e), reps.
  split; [lia|]. split; [destruct e; simpl; lia|]. split; [exact HE|].
  split; [rewrite Hl; apply upto_length; exact HE|]. split; [exact Hj|]. split; [lia|].
  apply (Inv_claimed _ k a has HI).
Qed.

Lemma never_overclaims_runs rs :
  Forall run_ok rs ->
  forall pre post, all_events (run_all rs []) = pre ++ post ->
  exists P E reps,
    P <= E /\ E <= P + 1 /\ E <= plen /\ length reps = E /\
    journal pre = expand (firstn E (plan all)) reps /\
    claimed_plan (tbl_of_events pre []) = firstn P (plan all) /\
    (forall r, In r (tbl_of_events pre []) ->
       exists f, In f all /\ claim_ok f r (r_applied r) /\ r_total r = len f).
Proof.
  intros Hok pre post E.
  destruct (runs_prefix rs [] [] 0 Hok GInv_nil pre post E) as (D' & (k & a & has & e & d & HI & Hst & HE & HD)).
  simpl in Hst.
  destruct (stutter_expand _ _ _ Hst) as (reps & Hl & Hs & Hj).
  exists (pos k a), (pos k a + b2n e), reps.
  split; [lia|]. split; [destruct e; simpl; lia|]. split; [exact HE|].
  split; [rewrite Hl; apply upto_length; exact HE|]. split; [exact Hj|].
  split; [apply (Inv_claimed _ k a has HI)|].
  intros r Hr. apply (Inv_rows _ k a has r HI Hr).
Qed.

Lemma wf_all_no_wfail (outs : list (run_outcome * list rev * list event)) :
  (forall out r, In out outs -> ~ In (EWrite r false) (snd out)) -> wf_all outs = 0.
Proof.
  induction outs as [|x outs IH]; intros H; [reflexivity|].
  unfold wf_all in *. simpl. rewrite IH by (intros out r Hin; apply H; right; exact Hin).
  unfold wf. rewrite (wf_from_no_wfail hash false (snd x)); [reflexivity|].
  intros r. apply H. left. reflexivity.
Qed.

(** Only statements fail: no repeats at all. *)
Lemma once_prefix_lemma rs :
  Forall run_ok rs ->
  let outs := run_all rs [] in
  (forall out r, In out outs -> ~ In (EWrite r false) (snd out)) ->
  exists E, E <= plen /\ journal (all_events outs) = firstn E (plan all).
Proof.
  intros Hok outs Hnw.
  destruct (runs_ginv rs [] [] 0 Hok GInv_nil) as ((k & a & has & e & d & HI & Hst & HE & HD) & _).
  fold outs in Hst, HD. rewrite (wf_all_no_wfail outs Hnw) in HD. simpl in Hst, HD.
  assert (d = 0) as -> by lia. exists (pos k a + b2n e). split; [exact HE|].
  apply stutter_zero. exact Hst.
Qed.

Lemma complete_lemma rs c :
  Forall run_ok rs -> cfg_ok c ->
  let outs := run_all (rs ++ [mkRun c 0 (skipped ++ all) []]) [] in
  let T := final_tbl outs [] in
  (exists reps, length reps = plen /\ journal (all_events outs) = expand (plan all) reps /\
                list_sum reps <= wf_all outs) /\
  (forall f, In f all -> exists r, tbl_get T (f_version f) = Some r /\
                                   r_applied r = len f /\ r_total r = len f) /\
  (forall c', cfg_ok c' -> pending c' (skipped ++ all) (read_revisions hash T) = (PNoPending, None)).
Proof.
  intros Hok Hc outs T.
  destruct (runs_done rs c [] [] 0 Hok Hc GInv_nil) as (HI & d & Hst & Hd).
  fold outs in HI, Hst, Hd. fold T in HI. simpl in Hst, Hd.
  split; [|split].
  - destruct (stutter_expand _ _ _ Hst) as (reps & Hl & Hs & Hj). exists reps. repeat split; auto. lia.
  - intros f Hin. apply In_nth_error in Hin as [i Hi].
    assert (i < length all) as Hlt by (apply nth_error_Some; congruence).
    destruct HI as (_ & _ & Hrows & _). destruct (Hrows i f Hlt Hi) as (r & Hg & (_ & Hap & _) & Ht).
    exists r. auto.
  - intros c' Hc'. rewrite (pending_inv c' T (length all) 0 false Hc' HI) by (intros H; discriminate).
    rewrite skipn_all. reflexivity.
Qed.

Lemma exactly_once_lemma rs c :
  Forall run_ok rs -> cfg_ok c ->
  let outs := run_all (rs ++ [mkRun c 0 (skipped ++ all) []]) [] in
  (forall out r, In out outs -> ~ In (EWrite r false) (snd out)) ->
  journal (all_events outs) = plan all.
Proof.
  intros Hok Hc outs Hnw.
  destruct (runs_done rs c [] [] 0 Hok Hc GInv_nil) as (_ & d & Hst & Hd).
  fold outs in Hst, Hd. rewrite (wf_all_no_wfail outs Hnw) in Hd. simpl in Hst, Hd.
  assert (d = 0) as -> by lia. apply stutter_zero. exact Hst.
Qed.

End Dir.

(** ** the same statements for a whole directory [full] (checkpoint files allowed):
    the plan is the directory from its last checkpoint file on *)
Section Full.
Variable full : list file.
Hypothesis Hfs : sorted_files full.

Definition run_on (r : run) : Prop := run_dir r = full /\ cfg_ok (run_cfg r).
Notation run_all := (run_all hash hash_eqb HS).
Local Notation all := (from_last_ckpt full).

Lemma full_split :
  exists sk, full = sk ++ all /\ sorted_files all /\ sorted_files (sk ++ all) /\ from_last_ckpt (sk ++ all) = all.
Proof.
  destruct (from_last_ckpt_split full) as [sk E]. exists sk. split; [exact E|].
  split; [|split; rewrite <- E; [exact Hfs|reflexivity]].
  pose proof Hfs as H. rewrite E in H. apply StronglySorted_app_inv in H as (_ & H & _). exact H.
Qed.

Lemma run_on_ok sk rs : full = sk ++ all -> Forall run_on rs -> Forall (run_ok all sk) rs.
Proof.
  intros E H. induction H as [|r rs [Hd Hc] _ IH]; constructor; [|exact IH].
  split; [rewrite Hd; exact E|exact Hc].
Qed.

Lemma resume_full rs :
  Forall run_on rs ->
  let outs := run_all rs [] in
  exists P E reps,
    P <= E /\ E <= P + 1 /\ E <= length (plan all) /\ length reps = E /\
    journal (all_events outs) = expand (firstn E (plan all)) reps /\
    list_sum reps <= wf_all outs /\
    claimed_plan all (final_tbl outs []) = firstn P (plan all).
Proof.
  destruct full_split as (sk & E & Hs & Hf & Hfr). intros Hok.
  exact (resume_lemma all Hs sk Hf Hfr rs (run_on_ok sk rs E Hok)).
Qed.

Lemma never_overclaims_full rs :
  Forall run_on rs ->
  forall pre post, all_events (run_all rs []) = pre ++ post ->
  exists P E reps,
    P <= E /\ E <= P + 1 /\ E <= length (plan all) /\ length reps = E /\
    journal pre = expand (firstn E (plan all)) reps /\
    claimed_plan all (tbl_of_events pre []) = firstn P (plan all) /\
    (forall r, In r (tbl_of_events pre []) ->
       exists f, In f all /\ claim_ok f r (r_applied r) /\ r_total r = length (f_stmts f)).
Proof.
  destruct full_split as (sk & E & Hs & Hf & Hfr). intros Hok.
  exact (never_overclaims_runs all Hs sk Hf Hfr rs (run_on_ok sk rs E Hok)).
Qed.

Lemma once_prefix_full rs :
  Forall run_on rs ->
  let outs := run_all rs [] in
  (forall out r, In out outs -> ~ In (EWrite r false) (snd out)) ->
  exists E, E <= length (plan all) /\ journal (all_events outs) = firstn E (plan all).
Proof.
  destruct full_split as (sk & E & Hs & Hf & Hfr). intros Hok.
  exact (once_prefix_lemma all Hs sk Hf Hfr rs (run_on_ok sk rs E Hok)).
Qed.

Lemma complete_full rs c :
  Forall run_on rs -> cfg_ok c ->
  let outs := run_all (rs ++ [mkRun c 0 full []]) [] in
  let T := final_tbl outs [] in
  (exists reps, length reps = length (plan all) /\ journal (all_events outs) = expand (plan all) reps /\
                list_sum reps <= wf_all outs) /\
  (forall f, In f all -> exists r, tbl_get T (f_version f) = Some r /\
                                   r_applied r = length (f_stmts f) /\ r_total r = length (f_stmts f)) /\
  (forall c', cfg_ok c' -> pending c' full (read_revisions hash T) = (PNoPending, None)).
Proof.
  destruct full_split as (sk & E & Hs & Hf & Hfr). intros Hok Hc.
  pose proof (complete_lemma all Hs sk Hf Hfr rs c (run_on_ok sk rs E Hok) Hc) as H.
  rewrite <- E in H. exact H.
Qed.

Lemma exactly_once_full rs c :
  Forall run_on rs -> cfg_ok c ->
  let outs := run_all (rs ++ [mkRun c 0 full []]) [] in
  (forall out r, In out outs -> ~ In (EWrite r false) (snd out)) ->
  journal (all_events outs) = plan all.
Proof.
  destruct full_split as (sk & E & Hs & Hf & Hfr). intros Hok Hc.
  pose proof (exactly_once_lemma all Hs sk Hf Hfr rs c (run_on_ok sk rs E Hok) Hc) as H.
  rewrite <- E in H. exact H.
Qed.

End Full.

(** ** one run stops at the first failing call (any configuration, any table) *)
Lemma execute_n_stops c n all (t : list rev) fs ro t' fs' es :
  execute_n c n all t fs = (ro, t', fs', es) ->
  forall es1 e es2, es = es1 ++ e :: es2 -> ev_ok e = false ->
    after_fail e es2 /\ exec_events es2 = [].
Proof.
  unfold RunModel.execute_n. intros Hex es1 e es2 E Hf.
  destruct (pending c all (read_revisions hash t)) as [p w].
  assert (forall t1 fs1 ev1 r t2 fs2,
            (forall x, In x ev1 -> ev_ok x = true) ->
            match p with
            | PFiles files =>
                let chosen := if 0 <? n then firstn n files else files in
                let '(o, t2, fs2, es) := exec_files chosen t1 fs1 in (RExec o, t2, fs2, ev1 ++ es)
            | _ => (RPend p, t1, fs1, ev1)
            end = (r, t2, fs2, es) ->
            after_fail e es2 /\ exec_events es2 = []) as Hbody.
  { intros t1 fs1 ev1 r t2 fs2 Hev H.
    assert (forall l, es = ev1 ++ l -> exists l1, l = l1 ++ e :: es2) as Hsplit.
    { intros l El. rewrite El in E. apply app_eq_app in E as [m [[E1 E2]|[E1 E2]]].
      - destruct m as [|x m].
        + exists []. simpl in E2. rewrite app_nil_r in E1. subst. simpl. congruence.
        + simpl in E2. inversion E2; subst x. exfalso.
          assert (ev_ok e = true) by (apply Hev; rewrite E1; apply in_or_app; right; left; reflexivity).
          congruence.
      - exists m. exact E2. }
    destruct p; try (inversion H; subst; destruct (Hsplit [] (eq_sym (app_nil_r _))) as [[|? ?] D]; discriminate).
    cbv zeta in H.
    destruct (exec_files (if 0 <? n then firstn n fs0 else fs0) t1 fs1) as [[[o t3] fs3] es3] eqn:EX.
    inversion H as [[Ho Ht Hfs Hes]]. destruct (Hsplit es3 (eq_sym Hes)) as [l1 El1].
    destruct (stop_on_fault_files hash hash_eqb HS _ _ _ _ _ _ _ EX) as [Hs _]. eapply Hs; eauto. }
  destruct w as [rb|].
  - destruct (write t fs rb) as [[[ok t1] fs1] e1] eqn:W.
    apply write_ok_inv in W as (He1 & _). destruct ok; cbn [negb] in Hex.
    + apply (Hbody t1 fs1 [e1] ro t' fs'); [|exact Hex].
      intros x [<-|[]]. subst e1. reflexivity.
    + inversion Hex as [[Ho Ht Hfs Hes]]. rewrite <- Hes in E.
      destruct es1 as [|? [|? ?]]; inversion E; subst. split; [left; reflexivity|reflexivity].
  - cbn [negb] in Hex. apply (Hbody t fs [] ro t' fs'); [intros x []|exact Hex].
Qed.

End Resume.
