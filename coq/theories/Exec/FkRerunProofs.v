(** C13, round 3: a commit refused by the foreign-key check leaves a RESUME state
    (a file boundary with literal revision rows), so re-running the command once
    the check no longer fires completes the migration exactly as a run without
    the refusal would (over the C09 resume invariant of CrashProofs.v). *)
From Coq Require Import List NArith ZArith Bool Arith Lia.
From Atlas Require Import Base.Bytes Base.ListX Base.Stutter Exec.ExecModel Exec.ExecProofs Exec.StepProofs
  Exec.PendingModel Exec.PendingProofs Exec.RunModel Exec.TxModel Exec.TxProofs Exec.RunProofs Exec.CrashProofs
  Exec.DryModel Exec.FkModel Exec.FkProofs.
Import ListNotations.

Lemma fixed_clean_id dir : clean dir -> fixed dir = dir.
Proof.
  intros Hcl. unfold fixed. rewrite <- (map_id dir) at 2. apply map_ext_in.
  intros tf Hin. specialize (Hcl tf Hin). destruct tf as [f d b]. simpl in *. subst b. reflexivity.
Qed.

Section FkRerun.
Variable hash : Type.
Variable hash_eqb : hash -> hash -> bool.
Variable HS : bytes -> hash.
Hypothesis hash_eqb_spec : forall a b, hash_eqb a b = true <-> a = b.
Variable dskip dir : list tfile.
Hypothesis Hfull : sorted_files (map tf_file dskip ++ map tf_file dir).
Hypothesis Hfresh : from_last_ckpt (map tf_file dskip ++ map tf_file dir) = map tf_file dir.

Notation db := (db hash).
Notation all := (map tf_file dir).

Lemma apply_run_fk_unfold violations fk g n (c : db) k a has :
  Inv hash HS all (d_tbl c) k a has -> normal all k a has ->
  apply_run_fk hash hash_eqb HS violations fk g n (dskip ++ dir) c =
  match skipn k all with
  | [] => (FOut (APend PNoPending), c)
  | _ => let '(o, c1, w) := apply_loop_fk hash hash_eqb HS violations fk g (dsl dir k n) c None in
         match o, w with
         | FOut ADone, Some t =>
             if commit_mismatch hash violations fk t then (FFkMismatch, c1) else (FOut ADone, o_w t)
         | _, _ => (o, c1)
         end
  end.
Proof.
  intros HI Hnorm. unfold FkModel.apply_run_fk. rewrite map_app. fold the_cfg.
  rewrite (pending_inv hash HS all (Hsorted dskip dir Hfull) (map tf_file dskip) Hfull Hfresh the_cfg
             (d_tbl c) k a has the_cfg_ok HI Hnorm).
  destruct (skipn k all) as [|f l] eqn:E; [reflexivity|].
  cbn [fst finish]. rewrite <- E, (dsl_chosen dir k n), (tchosen_dsl dskip dir Hfull). reflexivity.
Qed.

Lemma slice_firstn j tfiles k : slice dir tfiles k -> slice dir (firstn j tfiles) k.
Proof.
  unfold slice. intros H. rewrite firstn_length. rewrite H at 1. rewrite firstn_firstn. reflexivity.
Qed.

(** The state a refused commit leaves is a file boundary with literal rows. *)
Lemma fk_mismatch_resume violations fk g n (c0 : db) k0 c1 :
  clean dir -> valid g dir -> Bd hash HS dir c0 k0 -> LK hash dir (d_tbl c0) k0 ->
  apply_run_fk hash hash_eqb HS violations fk g n (dskip ++ dir) c0 = (FFkMismatch, c1) ->
  exists k, k0 <= k /\ Bd hash HS dir c1 k /\ LK hash dir (d_tbl c1) k.
Proof.
  intros Hcl Hval HB HL H.
  assert (normal all k0 0 false) as Hn0 by (intros X; discriminate).
  rewrite (apply_run_fk_unfold violations fk g n c0 k0 0 false (proj1 HB) Hn0) in H.
  destruct (skipn k0 all) as [|f0 l0]; [discriminate|].
  destruct (apply_loop_fk hash hash_eqb HS violations fk g (dsl dir k0 n) c0 None) as [[o c'] w] eqn:L.
  assert (clean (dsl dir k0 n)) as Hcl' by (intros x Hx; apply Hcl; eapply dsl_In; eauto).
  assert (valid g (dsl dir k0 n)) as Hval' by (intros x Hx; apply Hval; eapply dsl_In; eauto).
  destruct (mode_eqb g TxAll) eqn:Eg.
  - assert (g = TxAll) as -> by (destruct g; simpl in Eg; congruence).
    destruct (apply_loop_fk_all hash hash_eqb HS violations fk _ _ _ _ _ _ L) as (-> & _ & _).
    assert (c1 = c0) as ->.
    { destruct o as [[| | |]|]; try (inversion H; reflexivity).
      destruct w as [t|]; [destruct (commit_mismatch hash violations fk t)|]; inversion H; reflexivity. }
    exists k0. auto.
  - assert (g <> TxAll) as Hg by (intros ->; discriminate).
    destruct (apply_loop_fk_sim hash hash_eqb HS violations fk _ _ _ _ _ _ _ L) as [E|(o2 & tr & E & PL)].
    + subst o. inversion H; subst c'. clear H.
      destruct (apply_loop_fk_mismatch hash hash_eqb HS violations fk _ _ _ _ _ _ L)
        as (_ & kk & f & wK & _ & _ & Hp & _).
      destruct (apply_loop_fk_sim hash hash_eqb HS violations fk _ _ _ _ _ _ _ Hp) as [E|(o2 & tr & E & PL)];
        [discriminate|].
      inversion E; subst o2. simpl in PL.
      destruct (loop_mixed hash hash_eqb HS hash_eqb_spec dskip dir Hfull g Hg (firstn kk (dsl dir k0 n)) c0 0 k0 0 false false
                  HB Hn0 (slice_firstn kk _ k0 (dsl_slice dir k0 n))
                  ltac:(intros x Hx; apply Hcl'; eapply In_firstn; eauto)
                  ltac:(intros x Hx; apply Hval'; eapply In_firstn; eauto))
        as (c'' & tr'' & k' & a' & has' & e' & Hloop & HS' & _ & Hne & Hnil & HL' & _).
      rewrite Hloop in PL. inversion PL; subst c''.
      pose proof (St0 hash HS dir c1 k' a' has' e' HS') as ->.
      assert (k0 <= k' /\ a' = 0 /\ has' = false) as (Hk & -> & ->).
      { destruct (firstn kk (dsl dir k0 n)) as [|x xs].
        - destruct (Hnil eq_refl) as (-> & -> & ->). auto.
        - destruct (Hne ltac:(discriminate)) as (-> & -> & ->). split; [lia|auto]. }
      exists k'. split; [exact Hk|]. split; [exact HS'|]. apply HL'. exact HL.
    + subst o. simpl in PL.
      destruct (loop_mixed hash hash_eqb HS hash_eqb_spec dskip dir Hfull g Hg (dsl dir k0 n) c0 0 k0 0 false false
                  HB Hn0 (dsl_slice dir k0 n) Hcl' Hval')
        as (c'' & tr'' & k' & a' & has' & e' & Hloop & _).
      rewrite Hloop in PL. inversion PL; subst. destruct w; [discriminate|]. discriminate.
Qed.

(** Fix and re-run after a refused commit. [dir] has no failing statement (the
    only failure is the check); the command is refused in any mode with any count
    from a file boundary [c0] with literal rows (e.g. the empty database). Once
    the check no longer fires -- the data was repaired so that the engine reports
    no new violation ([violations'], [fk']), or foreign keys are off -- `migrate
    apply` from the state left and the same command from [c0] both succeed and
    end in literally the same state: every statement exactly once in plan order,
    one completed revision per file. *)
Lemma fk_fix_rerun_lemma violations fk g n (c0 : db) k0 c1 :
  clean dir -> valid g dir -> Bd hash HS dir c0 k0 -> LK hash dir (d_tbl c0) k0 ->
  apply_run_fk hash hash_eqb HS violations fk g n (dskip ++ dir) c0 = (FFkMismatch, c1) ->
  forall violations' fk', (forall t, commit_mismatch hash violations' fk' t = false) ->
  exists o2 o3,
    apply_run_fk hash hash_eqb HS violations' fk' g 0 (dskip ++ dir) c1 = (FOut o2, final_db hash dir) /\
    (o2 = ADone \/ o2 = APend PNoPending) /\
    apply_run_fk hash hash_eqb HS violations' fk' g 0 (dskip ++ dir) c0 = (FOut o3, final_db hash dir) /\
    (o3 = ADone \/ o3 = APend PNoPending).
Proof.
  intros Hcl Hval HB HL H violations' fk' Hno.
  destruct (fk_mismatch_resume violations fk g n c0 k0 c1 Hcl Hval HB HL H) as (k & _ & HB1 & HL1).
  assert (forall j, normal all j 0 false) as Hn by (intros j X; discriminate).
  destruct (fixed_completes hash hash_eqb HS hash_eqb_spec dskip dir Hfull Hfresh g c1 k 0 false false Hval HB1 (Hn k) HL1)
    as (o2 & c2 & tr2 & E2 & Ho2 & Hc2).
  destruct (fixed_completes hash hash_eqb HS hash_eqb_spec dskip dir Hfull Hfresh g c0 k0 0 false false Hval HB (Hn k0) HL)
    as (o3 & c3 & tr3 & E3 & Ho3 & Hc3).
  rewrite (fixed_clean_id dir Hcl) in E2, E3.
  exists o2, o3.
  rewrite !(apply_run_fk_off hash hash_eqb HS violations' fk' g 0 (dskip ++ dir) _ Hno), E2, E3.
  subst c2 c3. auto.
Qed.

End FkRerun.
