(** `migrate apply --dry-run` combined with --baseline / --allow-dirty / the count argument:
    exact characterisation per flag combination (C13, round 5). Proofs over Exec/DryModel.v. *)
From Coq Require Import List NArith Bool Arith Lia.
From Atlas Require Import Base.Bytes Base.ListX Exec.ExecModel Exec.PendingModel Exec.RunModel
  Exec.TxModel Exec.DryModel Exec.DryProofs.
Import ListNotations.

Section DryFlags.
Variable hash : Type.
Variable hash_eqb : hash -> hash -> bool.
Variable HS : bytes -> hash.
Notation db := (db hash).
Notation cdb := (cdb hash).
Notation migrate_apply := (migrate_apply hash hash_eqb HS).

Lemma last_opt_none {A} (l : list A) : last_opt l = None <-> l = [].
Proof.
  split; [|intros ->; reflexivity].
  destruct l as [|x l]; [reflexivity|]. unfold last_opt. intros H.
  apply nth_error_None in H. simpl in H. lia.
Qed.

(** The revision write Pending asks for: only on a database without any revision, only with
    --baseline, only if the version is a (non-checkpoint) file of the directory. *)
Lemma pending_write_spec (cf : cfg) all (revs : list (rev hash)) :
  snd (pending cf all revs) =
  match last_opt revs, c_baseline cf with
  | None, Some bv =>
      match files_last_index (fun f => bytes_eqb (f_version f) bv) (skip_checkpoints all) with
      | Some _ => Some (baseline_rev bv)
      | None => None
      end
  | _, _ => None
  end.
Proof.
  destruct (c_baseline cf) as [bv|] eqn:Hb.
  2:{ rewrite (pending_no_baseline hash cf all revs Hb). destruct (last_opt revs); reflexivity. }
  unfold pending. rewrite Hb.
  destruct (last_opt revs) as [last|].
  2:{ rewrite andb_false_r. destruct (files_last_index _ _); reflexivity. }
  cbv zeta.
  destruct (if negb (r_applied last =? r_total last) && negb (length all =? 0)
            then let '(idx, found) := bsearch (map f_version all) (r_version last) in
                 if found then match nth_error all idx with
                               | Some f => if f_ckpt f then Some (f :: skip_checkpoints (skipn idx all)) else None
                               | None => None end
                 else None
            else None) as [p|]; [reflexivity|].
  destruct (skip_checkpoints all) as [|m ms]; [reflexivity|].
  destruct (files_last_index _ (m :: ms)) as [idx0|].
  2:{ destruct (negb (r_applied last =? r_total last)); reflexivity. }
  destruct (index_func _ _) as [first|]; [|destruct (skipn _ _); reflexivity].
  destruct ((first <? _) && _); [|destruct (skipn _ _); reflexivity].
  destruct (filter _ _) as [|x xs]; [destruct (skipn _ _); reflexivity|].
  destruct (c_order cf); try reflexivity; simpl; try (destruct (skipn _ _); reflexivity).
Qed.

(** What Pending decides on a database without any revision. *)
Lemma pending_first_run (cf : cfg) all :
  fst (pending cf all (@nil (rev hash))) =
  match c_baseline cf with
  | None => if c_dirty cf && negb (c_allow_dirty cf) then PNotClean
            else match files_from_last_checkpoint all with [] => PNoPending | p => PFiles p end
  | Some bv =>
      match files_last_index (fun f => bytes_eqb (f_version f) bv) (skip_checkpoints all) with
      | None => PBaselineNotFound
      | Some b => match skipn (S b) (skip_checkpoints all) with [] => PNoPending | p => PFiles p end
      end
  end.
Proof.
  unfold pending. cbn [last_opt].
  destruct (c_baseline cf) as [bv|].
  - rewrite andb_false_r. destruct (files_last_index _ _); [destruct (skipn _ _)|]; reflexivity.
  - rewrite andb_true_r. destruct (c_dirty cf && negb (c_allow_dirty cf)); [reflexivity|].
    destruct (files_from_last_checkpoint all); reflexivity.
Qed.

(** The flag table of `migrate apply --dry-run`. *)
Lemma dry_run_flags global n cf dir (d : cdb) :
  let revs := read_revisions hash (d_tbl (cd_db d)) in
  let all := map tf_file dir in
  (* (1) a history exists: --baseline, --allow-dirty and the count change nothing at all *)
  (revs <> [] -> snd (migrate_apply true global n cf dir d) = mkCdb true (cd_db d)) /\
  (* (2) no history, no --baseline: nothing changes; a dirty database without --allow-dirty is refused *)
  (revs = [] -> c_baseline cf = None ->
     snd (migrate_apply true global n cf dir d) = mkCdb true (cd_db d) /\
     (c_dirty cf = true -> c_allow_dirty cf = false ->
        fst (migrate_apply true global n cf dir d) = APend PNotClean) /\
     (c_dirty cf && negb (c_allow_dirty cf) = false -> files_from_last_checkpoint all = [] ->
        fst (migrate_apply true global n cf dir d) = APend PNoPending)) /\
  (* (3) no history, --baseline bv: --allow-dirty and the dirty flag are irrelevant *)
  (forall bv, revs = [] -> c_baseline cf = Some bv ->
     match files_last_index (fun f => bytes_eqb (f_version f) bv) (skip_checkpoints all) with
     | None => migrate_apply true global n cf dir d = (APend PBaselineNotFound, mkCdb true (cd_db d))
     | Some b =>
         (* exactly the baseline row is written, whatever the rest of the run says *)
         snd (migrate_apply true global n cf dir d) =
           mkCdb true (mkDb (d_journal (cd_db d)) (tbl_put (d_tbl (cd_db d)) (baseline_rev bv))) /\
         (skipn (S b) (skip_checkpoints all) = [] ->
            fst (migrate_apply true global n cf dir d) = APend PNoPending)
     end).
Proof.
  intros revs all.
  pose proof (dry_run_effect hash hash_eqb HS global n cf dir d) as He.
  pose proof (pending_write_spec cf all revs) as Hw. fold revs all in He.
  split; [|split].
  - intros Hne. rewrite He, Hw.
    destruct (last_opt revs) eqn:Hl; [reflexivity|]. apply last_opt_none in Hl. contradiction.
  - intros Hnil Hb. split; [|split].
    + rewrite He, Hw, Hb. destruct (last_opt revs); reflexivity.
    + intros Hd Ha. unfold DryModel.migrate_apply. fold all revs.
      pose proof (pending_first_run cf all) as Hp. rewrite Hb, Hd, Ha in Hp.
      rewrite Hnil. destruct (pending cf all []) as [p w]. cbn in Hp. subst p. reflexivity.
    + intros Hd Hf. unfold DryModel.migrate_apply. fold all revs.
      pose proof (pending_first_run cf all) as Hp. rewrite Hb, Hd, Hf in Hp.
      rewrite Hnil. destruct (pending cf all []) as [p w]. cbn in Hp. subst p. reflexivity.
  - intros bv Hnil Hb.
    pose proof (pending_first_run cf all) as Hp. rewrite Hb in Hp.
    rewrite Hnil in Hw. cbn [last_opt] in Hw. rewrite Hb in Hw.
    destruct (files_last_index _ _) as [b|] eqn:Hf.
    + split.
      * rewrite He, Hnil, Hw. reflexivity.
      * intros Hs. rewrite Hs in Hp. unfold DryModel.migrate_apply. fold all revs. rewrite Hnil.
        destruct (pending cf all []) as [p w]. cbn in Hp. subst p. reflexivity.
    + unfold DryModel.migrate_apply. fold all revs. rewrite Hnil.
      destruct (pending cf all []) as [p w]. cbn in Hp, Hw. subst p w. reflexivity.
Qed.

(** The count argument: a count that is not smaller than the number of pending files is the
    same as no count; the state a dry run leaves never depends on the count. *)
Lemma dry_run_count global n cf dir (d : cdb) :
  snd (migrate_apply true global n cf dir d) = snd (migrate_apply true global 0 cf dir d) /\
  (forall ps, fst (pending cf (map tf_file dir) (read_revisions hash (d_tbl (cd_db d)))) = PFiles ps ->
     length ps <= n -> migrate_apply true global n cf dir d = migrate_apply true global 0 cf dir d).
Proof.
  split.
  - rewrite !(dry_run_effect hash hash_eqb HS). reflexivity.
  - intros ps Hp Hn. unfold DryModel.migrate_apply.
    destruct (pending cf (map tf_file dir) (read_revisions hash (d_tbl (cd_db d)))) as [p w].
    cbn in Hp. subst p. destruct (0 <? n) eqn:H0; [|reflexivity].
    rewrite firstn_all2 by exact Hn. reflexivity.
Qed.

End DryFlags.
