(** [Executor.ExecuteN]: Pending, then the first n pending files through
    [exec]. [ReadRevisions] is modelled as the CLI's reader behaves: all
    stored revisions ordered by version. No proofs here. *)
From Coq Require Import List NArith Bool Arith.
From Atlas Require Import Base.Bytes Exec.ExecModel Exec.PendingModel.
Import ListNotations.

Section Run.
Variable hash : Type.
Variable hash_eqb : hash -> hash -> bool.
Variable HS : bytes -> hash.
Notation rev := (rev hash).

Fixpoint insert_rev (r : rev) (l : list rev) : list rev :=
  match l with
  | [] => [r]
  | x :: l' => if bytes_leb (r_version r) (r_version x) then r :: l else x :: insert_rev r l'
  end.
Definition read_revisions (t : list rev) : list rev := fold_right insert_rev [] t.

Inductive run_outcome :=
| RPend (p : presult)      (* Pending returned an error *)
| RExec (o : outcome).     (* result of exec over the chosen files *)

Definition execute_n (c : cfg) (n : nat) (all : list file) (t : list rev) (fs : list bool)
  : run_outcome * list rev * list bool * list (event hash) :=
  let '(p, w) := pending c all (read_revisions t) in
  let '(wok, t1, fs1, ev1) :=
    match w with
    | None => (true, t, fs, [])
    | Some r => let '(ok, t', fs', e) := write t fs r in (ok, t', fs', [e])
    end in
  if negb wok then (RPend PWriteErr, t1, fs1, ev1) else
  match p with
  | PFiles files =>
      let chosen := if 0 <? n then firstn n files else files in
      let '(o, t2, fs2, es) := exec_files hash hash_eqb HS chosen t1 fs1 in
      (RExec o, t2, fs2, ev1 ++ es)
  | _ => (RPend p, t1, fs1, ev1)
  end.

(** A history: the directory may change between runs. *)
Record run := mkRun { run_cfg : cfg; run_n : nat; run_dir : list file; run_faults : list bool }.

Fixpoint run_all (rs : list run) (t : list rev)
  : list (run_outcome * list rev * list (event hash)) :=
  match rs with
  | [] => []
  | r :: rs' =>
      let '(o, t', _, es) := execute_n (run_cfg r) (run_n r) (run_dir r) t (run_faults r) in
      (o, t', es) :: run_all rs' t'
  end.

End Run.
