(** M-STORE (crash view): the contract of the revision store the crash model relies on
    (cmd/atlas/internal/migrate/migrate.go: EntRevisions).

    - [WriteRevision] = `Create().SetRevision(rev).OnConflict(id).UpdateNewValues()`:
      an upsert that overwrites EVERY field of the row ([tbl_put]); a failing
      write leaves the table as it was;
    - [ReadRevision] = `Revision.Get(id)`: the exact row, ErrRevisionNotExist when
      there is none, or the error of the storage -- never "does not exist" for an
      error;
    - [Executor.Execute] (sql/migrate/migrate.go) reads the row first and returns
      "read revision" on an error before anything is written or executed.

    No proofs here. *)
From Coq Require Import List NArith Bool Arith.
From Atlas Require Import Base.Bytes Exec.ExecModel.
Import ListNotations.

Section Store.
Variable hash : Type.
Variable hash_eqb : hash -> hash -> bool.
Variable HS : bytes -> hash.
Notation rev := (rev hash).
Notation event := (event hash).

Inductive rd := RRow (r : rev) | RNotExist | RErr.

(** EntRevisions.ReadRevision; [fault] = the SELECT fails ("database is locked"). *)
Definition read_revision (t : list rev) (v : bytes) (fault : bool) : rd :=
  if fault then RErr
  else match tbl_get t v with Some r => RRow r | None => RNotExist end.

(** EntRevisions.WriteRevision; [None] = the INSERT .. ON CONFLICT fails. *)
Definition write_revision (t : list rev) (r : rev) (fault : bool) : option (list rev) :=
  if fault then None else Some (tbl_put t r).

Inductive xoutcome :=
| XRead                    (* "sql/migrate: read revision: ..." *)
| XExec (o : outcome).

(** Executor.Execute over the store: the read of the file's row comes first. *)
Definition execute_st (f : file) (t : list rev) (rfault : bool) (fs : list bool)
  : xoutcome * list rev * list bool * list event :=
  match read_revision t (f_version f) rfault with
  | RErr => (XRead, t, fs, [])
  | _ => let '(o, t', fs', es) := execute hash hash_eqb HS f t fs in (XExec o, t', fs', es)
  end.

End Store.
