(** M-EDIT (C12, round 5): the parts of the refusal path of [Executor.Execute]
    that M-EXEC keeps abstract, made executable:

    - file names: [LocalFile.Version] / [LocalFile.Desc] of sql/migrate/dir.go
      (the revision is looked up by the *version extracted from the name*; the
      description column of a fresh revision is the rest of the name);
    - the text of a stored partial hash: sql/migrate/migrate.go, Execute
        [r.PartialHashes = append(r.PartialHashes, "h1:"+sums[r.Applied])]
      and its comparison
        [sums[i] != strings.TrimPrefix(r.PartialHashes[i], "h1:")];
    - the hash input: [h.Write([]byte(stmt.Text))] on ONE running sha256 state,
      [sums[i] = base64(h.Sum(nil))]: this is [ExecModel.sums] (statement texts
      only, concatenated without separator, no comments, no delimiter beyond
      what is inside [Stmt.Text]); here only the concrete instance
      [hs_stored raw] = "h1:" ++ raw(concatenation) used by the tie;
    - a directory of *named* files run through [StoreModel.cli_history].

    This file contains no proofs. *)
From Coq Require Import List NArith Bool Arith.
From Atlas Require Import Base.Bytes Exec.ExecModel Exec.PendingModel Exec.RunModel Exec.StoreModel.
Import ListNotations.

(** ** strings.HasPrefix / TrimPrefix / TrimSuffix on byte strings *)
Fixpoint strip_prefix (p s : bytes) : option bytes :=
  match p, s with
  | [], _ => Some s
  | x :: p', y :: s' => if N.eqb x y then strip_prefix p' s' else None
  | _ :: _, [] => None
  end.

(** [strings.TrimPrefix(s, p)] *)
Definition trim_prefix (s p : bytes) : bytes :=
  match strip_prefix p s with Some r => r | None => s end.

(** [strings.TrimSuffix(s, p)] *)
Definition trim_suffix (s p : bytes) : bytes :=
  match strip_prefix (List.rev p) (List.rev s) with Some r => List.rev r | None => s end.

(** [strings.SplitN(s, "_", 2)]: ([parts[0]], [Some parts[1]] when there is a '_'). *)
Fixpoint split_under (s : bytes) : bytes * option bytes :=
  match s with
  | [] => ([], None)
  | c :: s' =>
      if N.eqb c 95 then ([], Some s')
      else let '(a, b) := split_under s' in (c :: a, b)
  end.

Definition dot_sql : bytes := [46; 115; 113; 108]%N.   (* ".sql" *)

(** sql/migrate/dir.go, LocalFile.Version:
      [strings.SplitN(strings.TrimSuffix(f.n, ".sql"), "_", 2)[0]] *)
Definition version_of_name (n : bytes) : bytes :=
  fst (split_under (trim_suffix n dot_sql)).

(** sql/migrate/dir.go, LocalFile.Desc:
      [parts := strings.SplitN(f.n, "_", 2); if len(parts) == 1 { return "" };
       return strings.TrimSuffix(parts[1], ".sql")] *)
Definition desc_of_name (n : bytes) : bytes :=
  match snd (split_under n) with
  | None => []
  | Some p => trim_suffix p dot_sql
  end.

(** ** the stored text of a partial hash *)
Definition h1_prefix : bytes := [104; 49; 58]%N.       (* "h1:" *)

(** ["h1:"+sums[r.Applied]] *)
Definition stored_hash (sum : bytes) : bytes := h1_prefix ++ sum.

(** [sums[i] != strings.TrimPrefix(r.PartialHashes[i], "h1:")], negated. *)
Definition sum_eqb_stored (sum stored : bytes) : bool :=
  bytes_eqb sum (trim_prefix stored h1_prefix).

(** The instance of the abstract pair ([HS], [hash_eqb]) of M-EXEC the tie runs:
    the table holds the stored texts; [raw] is base64 . sha256 (OCaml side:
    ocaml/common/sha256.ml, Go side: crypto/sha256 + encoding/base64). *)
Definition hs_stored (raw : bytes -> bytes) (b : bytes) : bytes := stored_hash (raw b).
Definition stored_eqb (a b : bytes) : bool := sum_eqb_stored (trim_prefix a h1_prefix) b.

(** ** named files *)
Record nfile := mkNFile {
  nf_name  : bytes;          (* File.Name(), e.g. "2.sql", "3_add_users.sql" *)
  nf_stmts : list bytes;     (* Stmt.Text of File.StmtDecls() *)
  nf_ckpt  : bool
}.

(** What [Execute] uses of a file: [m.Version()], [e.fileStmts(m)]. *)
Definition file_of (nf : nfile) : file :=
  mkFile (version_of_name (nf_name nf)) (nf_stmts nf) (nf_ckpt nf).

(** A history of `atlas migrate apply` runs over named directories
    ([StoreModel.cli_history] after [file_of]). *)
Record ncli_run := mkNCliRun {
  ncr_txfile : bool; ncr_order : order; ncr_dir : list nfile; ncr_faults : list bool
}.

Definition cli_run_of (r : ncli_run) : cli_run :=
  mkCliRun (ncr_txfile r) (ncr_order r) (map file_of (ncr_dir r)) (ncr_faults r).

Section Named.
Variable hash : Type.
Variable hash_eqb : hash -> hash -> bool.
Variable HS : bytes -> hash.

Definition ncli_history (rs : list ncli_run) (t : list (rev hash))
  : list (cli_outcome * list (rev hash) * list (bytes * bytes)) :=
  cli_history hash hash_eqb HS (map cli_run_of rs) t.

(** API level: [Executor.ExecuteN(0)] with the default options over a named directory. *)
Record nrun := mkNRun { nr_dir : list nfile; nr_faults : list bool }.

Definition run_of (r : nrun) : run :=
  mkRun (mkCfg Linear None false false) 0 (map file_of (nr_dir r)) (nr_faults r).

Definition nrun_all (rs : list nrun) (t : list (rev hash))
  : list (run_outcome * list (rev hash) * list (event hash)) :=
  run_all hash hash_eqb HS (map run_of rs) t.

End Named.

(** ** white space (used only to *state* the whitespace-edit corollary) *)
Definition is_space (b : N) : bool :=
  N.eqb b 32 || N.eqb b 9 || N.eqb b 10 || N.eqb b 13.
Definition strip_ws (s : bytes) : bytes := filter (fun b => negb (is_space b)) s.
