(** Proofs about M-PEND ([Executor.Pending]) used by C11 and C09.

    Layout:
    1. order / list / sortedness lemmas;
    2. specifications of [files_last_index], [index_func], [bsearch];
    3. a declarative specification [pending_spec] (filters over the directory)
       and the refinement [pending_refines] (model = spec on sorted input);
    4. the documented properties (A)-(G) as corollaries, and
       [pending_linear_state] for C09. *)
From Coq Require Import List NArith Bool Arith Lia Sorted.
From Atlas Require Import Base.Bytes Base.ListX Exec.ExecModel Exec.PendingModel Exec.RunModel.
Import ListNotations.

(** * 1. order lemmas on byte strings *)

Lemma bytes_leb_refl a : bytes_leb a a = true.
Proof. rewrite bytes_leb_ltb, bytes_ltb_irrefl. reflexivity. Qed.

Lemma bytes_ltb_leb a b : bytes_ltb a b = true -> bytes_leb a b = true.
Proof.
  intros H. rewrite bytes_leb_ltb. destruct (bytes_ltb b a) eqn:E; [|reflexivity].
  pose proof (bytes_ltb_trans _ _ _ H E) as T. rewrite bytes_ltb_irrefl in T. discriminate.
Qed.

Lemma bytes_ltb_asym a b : bytes_ltb a b = true -> bytes_ltb b a = false.
Proof. intros H. apply bytes_ltb_leb in H. rewrite bytes_leb_ltb in H. destruct (bytes_ltb b a); [discriminate|reflexivity]. Qed.

Lemma bytes_leb_cases a b : bytes_leb a b = true <-> bytes_ltb a b = true \/ a = b.
Proof.
  rewrite bytes_leb_ltb. split.
  - intros H. destruct (bytes_trichotomy a b) as [L|[E|G]]; auto. rewrite G in H. discriminate.
  - intros [L|E].
    + rewrite (bytes_ltb_asym _ _ L). reflexivity.
    + subst. rewrite bytes_ltb_irrefl. reflexivity.
Qed.

Lemma bytes_leb_ltb_trans a b c : bytes_leb a b = true -> bytes_ltb b c = true -> bytes_ltb a c = true.
Proof.
  intros H1 H2. apply bytes_leb_cases in H1 as [L|E]; [eapply bytes_ltb_trans; eauto|subst; exact H2].
Qed.

Lemma bytes_ltb_leb_trans a b c : bytes_ltb a b = true -> bytes_leb b c = true -> bytes_ltb a c = true.
Proof.
  intros H1 H2. apply bytes_leb_cases in H2 as [L|E]; [eapply bytes_ltb_trans; eauto|subst; exact H1].
Qed.

Lemma bytes_leb_trans a b c : bytes_leb a b = true -> bytes_leb b c = true -> bytes_leb a c = true.
Proof.
  intros H1 H2. apply bytes_leb_cases in H2 as [L|E]; [|subst; exact H1].
  apply bytes_ltb_leb. eapply bytes_leb_ltb_trans; eauto.
Qed.

Lemma bytes_ltb_false_leb a b : bytes_ltb a b = false <-> bytes_leb b a = true.
Proof. rewrite bytes_leb_ltb. destruct (bytes_ltb a b); simpl; split; congruence. Qed.

Lemma bytes_leb_false_ltb a b : bytes_leb a b = false <-> bytes_ltb b a = true.
Proof. rewrite bytes_leb_ltb. destruct (bytes_ltb b a); simpl; split; congruence. Qed.

Lemma bytes_eqb_leb a b : bytes_eqb a b = true -> bytes_leb a b = true.
Proof. intros H. apply bytes_eqb_eq in H. subst. apply bytes_leb_refl. Qed.

Lemma bytes_ltb_eqb_false a b : bytes_ltb a b = true -> bytes_eqb a b = false.
Proof. intros H. apply bytes_eqb_neq. apply bytes_ltb_neq. exact H. Qed.

Lemma bytes_ltb_eqb_false' a b : bytes_ltb a b = true -> bytes_eqb b a = false.
Proof. intros H. rewrite bytes_eqb_sym. apply bytes_ltb_eqb_false. exact H. Qed.

(** * list lemmas *)

Lemma filter_true {A} (p : A -> bool) l : (forall x, In x l -> p x = true) -> filter p l = l.
Proof.
  induction l as [|a l IH]; simpl; intros H; [reflexivity|].
  rewrite (H a (or_introl eq_refl)). f_equal. apply IH. intros x Hx. apply H. right. exact Hx.
Qed.

Lemma filter_false {A} (p : A -> bool) l : (forall x, In x l -> p x = false) -> filter p l = [].
Proof.
  induction l as [|a l IH]; simpl; intros H; [reflexivity|].
  rewrite (H a (or_introl eq_refl)). apply IH. intros x Hx. apply H. right. exact Hx.
Qed.

Lemma filter_filter {A} (p q : A -> bool) l :
  filter q (filter p l) = filter (fun x => p x && q x) l.
Proof.
  induction l as [|a l IH]; simpl; [reflexivity|].
  destruct (p a); simpl; [destruct (q a); rewrite IH; reflexivity|exact IH].
Qed.

Lemma firstn_app_exact {A} (l1 l2 : list A) : firstn (length l1) (l1 ++ l2) = l1.
Proof. rewrite firstn_app, Nat.sub_diag, firstn_all. simpl. apply app_nil_r. Qed.

Lemma skipn_app_exact {A} (l1 l2 : list A) : skipn (length l1) (l1 ++ l2) = l2.
Proof. rewrite skipn_app, Nat.sub_diag, skipn_all. reflexivity. Qed.

Lemma firstn_app_exact_S {A} (l1 : list A) x l2 : firstn (S (length l1)) (l1 ++ x :: l2) = l1 ++ [x].
Proof.
  replace (l1 ++ x :: l2) with ((l1 ++ [x]) ++ l2) by (rewrite <- app_assoc; reflexivity).
  replace (S (length l1)) with (length (l1 ++ [x])) by (rewrite app_length; simpl; lia).
  apply firstn_app_exact.
Qed.

Lemma skipn_app_exact_S {A} (l1 : list A) x l2 : skipn (S (length l1)) (l1 ++ x :: l2) = l2.
Proof.
  replace (l1 ++ x :: l2) with ((l1 ++ [x]) ++ l2) by (rewrite <- app_assoc; reflexivity).
  replace (S (length l1)) with (length (l1 ++ [x])) by (rewrite app_length; simpl; lia).
  apply skipn_app_exact.
Qed.

Lemma nth_error_decomp {A} (l : list A) i x :
  nth_error l i = Some x -> exists l1 l2, l = l1 ++ x :: l2 /\ length l1 = i.
Proof. intros H. apply nth_error_split in H. exact H. Qed.

(** * sortedness *)

Lemma StronglySorted_app_inv {A} (R : A -> A -> Prop) l1 l2 :
  StronglySorted R (l1 ++ l2) ->
  StronglySorted R l1 /\ StronglySorted R l2 /\ (forall a b, In a l1 -> In b l2 -> R a b).
Proof.
  induction l1 as [|x l1 IH]; simpl; intros H.
  - repeat split; [constructor|exact H|intros a b []].
  - inversion H as [|? ? Hs Hf]; subst. destruct (IH Hs) as (S1 & S2 & S3).
    rewrite Forall_app in Hf. destruct Hf as [F1 F2]. repeat split.
    + constructor; assumption.
    + exact S2.
    + intros a b [Ea|Ia] Ib; [subst; rewrite Forall_forall in F2; auto|auto].
Qed.

Lemma StronglySorted_mid_inv {A} (R : A -> A -> Prop) l1 x l2 :
  StronglySorted R (l1 ++ x :: l2) ->
  StronglySorted R l1 /\ StronglySorted R l2 /\
  (forall a, In a l1 -> R a x) /\ (forall b, In b l2 -> R x b) /\
  (forall a b, In a l1 -> In b l2 -> R a b).
Proof.
  intros H. apply StronglySorted_app_inv in H as (S1 & S2 & S3).
  inversion S2 as [|? ? Hs Hf]; subst. rewrite Forall_forall in Hf.
  repeat split; auto.
  - intros a Ha. apply S3; simpl; auto.
  - intros a b Ha Hb. apply S3; simpl; auto.
Qed.

Lemma StronglySorted_filter {A} (R : A -> A -> Prop) (p : A -> bool) l :
  StronglySorted R l -> StronglySorted R (filter p l).
Proof.
  induction 1 as [|a l Hs IH Hf]; simpl; [constructor|].
  destruct (p a); [|exact IH]. constructor; [exact IH|].
  rewrite Forall_forall in *. intros x Hx. apply filter_In in Hx as [Hx _]. auto.
Qed.

Lemma StronglySorted_map {A B} (R : B -> B -> Prop) (f : A -> B) l :
  StronglySorted (fun a b => R (f a) (f b)) l <-> StronglySorted R (map f l).
Proof.
  induction l as [|a l IH]; simpl; split; intros H; try constructor; inversion H; subst.
  - apply IH; assumption.
  - rewrite Forall_forall in *. intros y Hy. apply in_map_iff in Hy as (x & <- & Hx). auto.
  - apply IH; assumption.
  - rewrite Forall_forall in *. intros x Hx. match goal with H : _ |- _ => apply H end. apply in_map. exact Hx.
Qed.

(** * 2. [files_last_index], [index_func] *)

Lemma last_index_from_shift p l i acc :
  last_index_from p l i acc =
  match files_last_index p l with Some j => Some (i + j) | None => acc end.
Proof.
  unfold files_last_index. revert i acc. induction l as [|f l IH]; intros i acc; simpl; [reflexivity|].
  rewrite (IH (S i)), (IH 1).
  destruct (last_index_from p l 0 None) as [j|].
  - f_equal. lia.
  - destruct (p f); [f_equal; lia|reflexivity].
Qed.

Lemma fli_cons p f l :
  files_last_index p (f :: l) =
  match files_last_index p l with
  | Some j => Some (S j)
  | None => if p f then Some 0 else None
  end.
Proof.
  unfold files_last_index at 1. simpl. rewrite last_index_from_shift.
  destruct (files_last_index p l); reflexivity.
Qed.

Lemma fli_nil p : files_last_index p [] = None.
Proof. reflexivity. Qed.

Lemma fli_None p l : files_last_index p l = None <-> (forall f, In f l -> p f = false).
Proof.
  induction l as [|a l IH]; [rewrite fli_nil; split; [intros _ f []|reflexivity]|].
  rewrite fli_cons. destruct (files_last_index p l) as [j|] eqn:E.
  - split; [discriminate|]. intros H. assert (Some j = None) as X; [|discriminate X].
    apply IH. intros f Hf. apply H. right. exact Hf.
  - destruct (p a) eqn:Pa; split; try discriminate.
    + intros H. rewrite (H a (or_introl eq_refl)) in Pa. discriminate.
    + intros _ f [<-|Hf]; [exact Pa|]. apply IH; auto.
    + reflexivity.
Qed.

Lemma fli_Some p l i :
  files_last_index p l = Some i ->
  exists l1 f l2, l = l1 ++ f :: l2 /\ length l1 = i /\ p f = true /\
                  (forall g, In g l2 -> p g = false).
Proof.
  revert i. induction l as [|a l IH]; intros i; [rewrite fli_nil; discriminate|].
  rewrite fli_cons. destruct (files_last_index p l) as [j|] eqn:E.
  - intros H. inversion H; subst. destruct (IH j eq_refl) as (l1 & f & l2 & -> & Hl & Hp & Hn).
    exists (a :: l1), f, l2. simpl. repeat split; auto.
  - destruct (p a) eqn:Pa; [|discriminate]. intros H; inversion H; subst.
    exists [], a, l. repeat split; auto. apply fli_None. exact E.
Qed.

Lemma fli_app_last p l1 f l2 :
  p f = true -> (forall g, In g l2 -> p g = false) ->
  files_last_index p (l1 ++ f :: l2) = Some (length l1).
Proof.
  intros Hp Hn. induction l1 as [|a l1 IH]; simpl.
  - rewrite fli_cons. apply fli_None in Hn. rewrite Hn, Hp. reflexivity.
  - rewrite fli_cons, IH. reflexivity.
Qed.

Lemma index_func_lt p l i : index_func p l = Some i -> i < length l.
Proof.
  revert i. induction l as [|a l IH]; simpl; intros i; [discriminate|].
  destruct (p a); [intros H; inversion H; lia|].
  destruct (index_func p l) as [j|]; simpl; [|discriminate].
  intros H; inversion H; subst. specialize (IH j eq_refl). lia.
Qed.

Lemma index_func_Some p l i :
  index_func p l = Some i ->
  exists l1 f l2, l = l1 ++ f :: l2 /\ length l1 = i /\ p f = true /\
                  (forall g, In g l1 -> p g = false).
Proof.
  revert i. induction l as [|a l IH]; simpl; intros i; [discriminate|].
  destruct (p a) eqn:Pa.
  - intros H; inversion H; subst. exists [], a, l. repeat split; auto. intros g [].
  - destruct (index_func p l) as [j|]; simpl; [|discriminate].
    intros H; inversion H; subst. destruct (IH j eq_refl) as (l1 & f & l2 & -> & Hl & Hp & Hn).
    exists (a :: l1), f, l2. simpl. repeat split; auto.
    intros g [<-|Hg]; auto.
Qed.

Lemma index_func_None p l : index_func p l = None <-> (forall f, In f l -> p f = false).
Proof.
  induction l as [|a l IH]; simpl; [split; [intros _ f []|reflexivity]|].
  destruct (p a) eqn:Pa.
  - split; [discriminate|]. intros H. rewrite (H a (or_introl eq_refl)) in Pa. discriminate.
  - destruct (index_func p l) as [j|]; simpl.
    + split; [discriminate|]. intros H. assert (Some j = None) as X; [|discriminate X].
      apply IH. intros f Hf. apply H. right; exact Hf.
    + split; [|reflexivity]. intros _ f [<-|Hf]; [exact Pa|]. apply IH; auto.
Qed.

(** * [slices.BinarySearchFunc] on strictly sorted keys *)

Definition sorted_keys (keys : list bytes) : Prop :=
  StronglySorted (fun a b => bytes_ltb a b = true) keys.

Lemma sorted_keys_nth keys a b x y :
  sorted_keys keys -> a < b -> nth_error keys a = Some x -> nth_error keys b = Some y ->
  bytes_ltb x y = true.
Proof.
  intros Hs Hab Ha Hb. apply nth_error_split in Ha as (l1 & l2 & -> & Hl).
  apply StronglySorted_mid_inv in Hs as (_ & _ & _ & Hr & _). apply Hr.
  rewrite nth_error_app2 in Hb by lia. destruct (b - length l1) as [|d] eqn:Ed; [lia|].
  simpl in Hb. eapply nth_error_In; eauto.
Qed.

Lemma bsearch_loop_S fuel keys t i j :
  bsearch_loop (S fuel) keys t i j =
  if i <? j then
    match nth_error keys ((i + j) / 2) with
    | Some k => if bytes_ltb k t then bsearch_loop fuel keys t (S ((i + j) / 2)) j
                else bsearch_loop fuel keys t i ((i + j) / 2)
    | None => i
    end
  else i.
Proof. reflexivity. Qed.

Lemma half_bounds i j : i < j -> i <= (i + j) / 2 < j.
Proof.
  intros H. pose proof (Nat.div_mod (i + j) 2 ltac:(lia)) as D.
  pose proof (Nat.mod_upper_bound (i + j) 2 ltac:(lia)) as M. lia.
Qed.

(** The loop invariant: left of [i] everything is [< t], from [j] on nothing is. *)
Lemma bsearch_loop_inv keys t : sorted_keys keys ->
  forall fuel i j,
  i <= j -> j <= length keys -> j - i < fuel ->
  (forall h k, h < i -> nth_error keys h = Some k -> bytes_ltb k t = true) ->
  (forall h k, j <= h -> nth_error keys h = Some k -> bytes_ltb k t = false) ->
  let r := bsearch_loop fuel keys t i j in
  r <= length keys /\
  (forall h k, h < r -> nth_error keys h = Some k -> bytes_ltb k t = true) /\
  (forall h k, r <= h -> nth_error keys h = Some k -> bytes_ltb k t = false).
Proof.
  intros Hs. induction fuel as [|fuel IH]; intros i j Hij Hj Hf Hl Hr; [lia|].
  cbv zeta. rewrite bsearch_loop_S. destruct (i <? j) eqn:Elt.
  - apply Nat.ltb_lt in Elt. pose proof (half_bounds i j Elt) as Hh.
    set (h := (i + j) / 2) in *.
    destruct (nth_error keys h) as [k|] eqn:Ek.
    + destruct (bytes_ltb k t) eqn:Ekt.
      * apply IH; try lia; auto.
        intros h' k' Hh' Ek'. destruct (Nat.eq_dec h' h) as [->|Hne]; [congruence|].
        assert (h' < h) as Hlt by lia.
        pose proof (sorted_keys_nth keys h' h k' k Hs Hlt Ek' Ek) as L.
        eapply bytes_ltb_trans; eauto.
      * apply IH; try lia; auto.
        intros h' k' Hh' Ek'. destruct (Nat.eq_dec h' h) as [->|Hne]; [congruence|].
        assert (h < h') as Hlt by lia.
        pose proof (sorted_keys_nth keys h h' k k' Hs Hlt Ek Ek') as L.
        destruct (bytes_ltb k' t) eqn:E'; [|reflexivity].
        rewrite (bytes_ltb_trans _ _ _ L E') in Ekt. discriminate.
    + apply nth_error_None in Ek. lia.
  - apply Nat.ltb_ge in Elt. assert (i = j) by lia. subst j.
    repeat split; auto.
Qed.

Lemma bsearch_inv keys t : sorted_keys keys ->
  let r := fst (bsearch keys t) in
  r <= length keys /\
  (forall h k, h < r -> nth_error keys h = Some k -> bytes_ltb k t = true) /\
  (forall h k, r <= h -> nth_error keys h = Some k -> bytes_ltb k t = false).
Proof.
  intros Hs. unfold bsearch. cbv zeta. cbn [fst].
  apply bsearch_loop_inv; auto; try lia.
  intros h k Hh Ek. assert (nth_error keys h = None) as N by (apply nth_error_None; lia). congruence.
Qed.

Lemma bsearch_found keys t i :
  bsearch keys t = (i, true) -> nth_error keys i = Some t.
Proof.
  unfold bsearch. cbv zeta. intros H. injection H as Hi Hf. rewrite Hi in Hf.
  destruct (nth_error keys i) as [k|]; [|discriminate]. apply bytes_eqb_eq in Hf. subst k. reflexivity.
Qed.

Lemma bsearch_In keys t : sorted_keys keys -> (snd (bsearch keys t) = true <-> In t keys).
Proof.
  intros Hs. split.
  - destruct (bsearch keys t) as [i b] eqn:E. simpl. intros ->.
    apply bsearch_found in E. eapply nth_error_In; eauto.
  - intros Hin. apply In_nth_error in Hin as [q Hq].
    destruct (bsearch_inv keys t Hs) as (Hlen & Hl & Hr).
    unfold bsearch in *. cbv zeta in *. cbn [fst snd] in *.
    set (r := bsearch_loop (S (length keys)) keys t 0 (length keys)) in *.
    assert (r <= q) as Hrq.
    { destruct (le_lt_dec r q) as [|Hlt]; [assumption|].
      pose proof (Hl q t Hlt Hq) as X. rewrite bytes_ltb_irrefl in X. discriminate. }
    destruct (Nat.eq_dec r q) as [->|Hne].
    + rewrite Hq. apply bytes_eqb_refl.
    + assert (r < q) as Hlt by lia.
      assert (r < length keys) as Hrl.
      { assert (q < length keys) by (apply nth_error_Some; congruence). lia. }
      destruct (nth_error keys r) as [k|] eqn:Ek; [|apply nth_error_None in Ek; lia].
      pose proof (sorted_keys_nth keys r q k t Hs Hlt Ek Hq) as L.
      rewrite (Hr r k (le_n _) Ek) in L. discriminate.
Qed.

Lemma bsearch_not_In keys t : sorted_keys keys -> (snd (bsearch keys t) = false <-> ~ In t keys).
Proof.
  intros Hs. rewrite <- (bsearch_In keys t Hs). destruct (snd (bsearch keys t)); split; congruence.
Qed.

(** * 3. well-formedness, declarative specification, refinement *)

Definition fver_lt (a b : file) : Prop := bytes_ltb (f_version a) (f_version b) = true.
(** Directory order = version order, versions distinct. *)
Definition sorted_files (all : list file) : Prop := StronglySorted fver_lt all.

Definition finish (p : list file) : presult := match p with [] => PNoPending | _ => PFiles p end.

(** What the three execution orders do with the out-of-order files [skipped]. *)
Definition by_order (o : order) (skipped pend : list file) : presult :=
  match o with
  | LinearSkip => finish pend
  | NonLinear => finish (skipped ++ pend)
  | Linear => match skipped with [] => finish pend | _ => PNonLinear skipped pend end
  end.

(** Non-checkpoint files with a version strictly greater than [v], in directory order. *)
Definition newer (v : bytes) (all : list file) : list file :=
  filter (fun f => negb (f_ckpt f) && bytes_ltb v (f_version f)) all.

(** Drop files while a later checkpoint exists. *)
Fixpoint from_last_ckpt (l : list file) : list file :=
  match l with
  | [] => []
  | f :: l' => if existsb f_ckpt l' then from_last_ckpt l' else f :: l'
  end.

Lemma by_order_nil o p : by_order o [] p = finish p.
Proof. destruct o; reflexivity. Qed.

Lemma sorted_files_mid l1 f l2 :
  sorted_files (l1 ++ f :: l2) ->
  (forall a, In a l1 -> bytes_ltb (f_version a) (f_version f) = true) /\
  (forall b, In b l2 -> bytes_ltb (f_version f) (f_version b) = true).
Proof. intros H. apply StronglySorted_mid_inv in H as (_ & _ & A & B & _). split; assumption. Qed.

Lemma skip_checkpoints_app l1 l2 : skip_checkpoints (l1 ++ l2) = skip_checkpoints l1 ++ skip_checkpoints l2.
Proof. apply filter_app. Qed.

Lemma skip_checkpoints_In f l : In f (skip_checkpoints l) <-> In f l /\ f_ckpt f = false.
Proof. unfold skip_checkpoints. rewrite filter_In. rewrite negb_true_iff. reflexivity. Qed.

Lemma skip_checkpoints_sorted l : sorted_files l -> sorted_files (skip_checkpoints l).
Proof. apply StronglySorted_filter. Qed.

Lemma skip_checkpoints_nil_existsb l :
  skip_checkpoints l = [] <-> existsb (fun f => negb (f_ckpt f)) l = false.
Proof.
  unfold skip_checkpoints. induction l as [|a l IH]; simpl; [split; reflexivity|].
  destruct (negb (f_ckpt a)); simpl; [split; discriminate|exact IH].
Qed.

Lemma filter_split {A} (p : A -> bool) a b :
  (forall x, In x a -> p x = false) -> (forall x, In x b -> p x = true) -> filter p (a ++ b) = b.
Proof. intros Ha Hb. rewrite filter_app, (filter_false p a Ha), (filter_true p b Hb). reflexivity. Qed.

Lemma newer_mig v all : newer v all = filter (fun f => bytes_ltb v (f_version f)) (skip_checkpoints all).
Proof. unfold newer, skip_checkpoints. rewrite filter_filter. reflexivity. Qed.

Lemma match_nonempty {A B} (l : list A) (a b : B) :
  l <> [] -> match l with [] => a | _ :: _ => b end = b.
Proof. destruct l; [congruence|reflexivity]. Qed.

Lemma find_sorted l1 f l2 :
  sorted_files (l1 ++ f :: l2) ->
  find (fun g => bytes_eqb (f_version g) (f_version f)) (l1 ++ f :: l2) = Some f.
Proof.
  intros Hs. apply sorted_files_mid in Hs as [Hl _].
  induction l1 as [|a l1 IH]; simpl.
  - rewrite bytes_eqb_refl. reflexivity.
  - rewrite (bytes_ltb_eqb_false _ _ (Hl a (or_introl eq_refl))). apply IH.
    intros x Hx. apply Hl. right. exact Hx.
Qed.

Lemma find_none_all {A} (p : A -> bool) l : (forall x, In x l -> p x = false) -> find p l = None.
Proof.
  induction l as [|a l IH]; simpl; intros H; [reflexivity|].
  rewrite (H a (or_introl eq_refl)). apply IH. intros x Hx. apply H. right; exact Hx.
Qed.

Lemma from_last_ckpt_eq all : files_from_last_checkpoint all = from_last_ckpt all.
Proof.
  unfold files_from_last_checkpoint. induction all as [|a l IH]; [reflexivity|].
  rewrite fli_cons. simpl from_last_ckpt.
  destruct (files_last_index f_ckpt l) as [j|] eqn:E.
  - assert (existsb f_ckpt l = true) as X.
    { apply fli_Some in E as (l1 & f & l2 & -> & _ & Hp & _).
      apply existsb_exists. exists f. split; [apply in_or_app; right; left; reflexivity|exact Hp]. }
    rewrite X. simpl. exact IH.
  - assert (existsb f_ckpt l = false) as X.
    { destruct (existsb f_ckpt l) eqn:Ex; [|reflexivity].
      apply existsb_exists in Ex as (x & Hx & Px). rewrite (proj1 (fli_None _ _) E x Hx) in Px. discriminate. }
    rewrite X. destruct (f_ckpt a); reflexivity.
Qed.

Section PendingProofs.
Variable hash : Type.
Notation rev := (rev hash).

Definition rver_lt (a b : rev) : Prop := bytes_ltb (r_version a) (r_version b) = true.
(** What the CLI's revision reader returns: ordered by version (versions are the primary key). *)
Definition sorted_revs (revs : list rev) : Prop := StronglySorted rver_lt revs.
Definition complete (r : rev) : Prop := r_applied r = r_total r.
Definition only_last_partial (revs : list rev) : Prop := Forall complete (removelast revs).

Definition has_rev (revs : list rev) (v : bytes) : bool :=
  existsb (fun r => bytes_eqb (r_version r) v) revs.

(** [v] has a completely applied revision. *)
Definition done_rev (revs : list rev) (v : bytes) : bool :=
  existsb (fun r => bytes_eqb (r_version r) v && (r_applied r =? r_total r)) revs.

(** Out-of-order files: non-checkpoint files inside the window [fv <= version < lv]
    that were never applied or only partially (no completely applied revision), in
    directory order. *)
Definition ooo_files (fv lv : bytes) (revs : list rev) (all : list file) : list file :=
  filter (fun f => negb (f_ckpt f) && bytes_leb fv (f_version f) && bytes_ltb (f_version f) lv
                   && negb (done_rev revs (f_version f))) all.

Definition first_spec (c : cfg) (all : list file) : presult * option rev :=
  if c_dirty c && negb (c_allow_dirty c) && (match c_baseline c with None => true | Some _ => false end)
  then (PNotClean, None)
  else match c_baseline c with
       | Some bv =>
           if existsb (fun f => negb (f_ckpt f) && bytes_eqb (f_version f) bv) all
           then (finish (newer bv all), Some (baseline_rev bv))
           else (PBaselineNotFound, None)
       | None => (finish (from_last_ckpt all), None)
       end.

Definition hist_spec (c : cfg) (all : list file) (revs : list rev) (r0 last : rev) : presult * option rev :=
  let lv := r_version last in
  let out := ooo_files (r_version r0) lv revs all in
  if r_applied last =? r_total last then (by_order (c_order c) out (newer lv all), None)
  else match find (fun f => bytes_eqb (f_version f) lv) all with
       | Some f => if f_ckpt f then (PFiles (f :: newer lv all), None)
                   else (by_order (c_order c) out (f :: newer lv all), None)
       | None => if existsb (fun f => negb (f_ckpt f)) all then (PMissing lv, None) else (PNoPending, None)
       end.

(** The declarative specification of [Executor.Pending] (filters over the directory,
    no indices, no searches). *)
Definition pending_spec (c : cfg) (all : list file) (revs : list rev) : presult * option rev :=
  match revs with
  | [] => first_spec c all
  | r0 :: _ => hist_spec c all revs r0 (last revs r0)
  end.

(** ** the model, cut into named pieces (same text as [pending]) *)

Definition p_tail (c : cfg) (revs : list rev) (migrations : list file) (idx : nat) : presult * option rev :=
  let finish (p : list file) := match p with [] => PNoPending | _ => PFiles p end in
  let pend := skipn idx migrations in
  let first_v := match revs with r0 :: _ => r_version r0 | [] => [] end in
  match index_func (fun f => bytes_leb first_v (f_version f)) (firstn idx migrations) with
  | Some first =>
      if (first <? idx) && negb (match c_order c with LinearSkip => true | _ => false end) then
        let window := skipn first (firstn idx migrations) in
        let skipped := filter (out_of_order revs) window in
        match skipped, c_order c with
        | [], _ => (finish pend, None)
        | _, NonLinear => (finish (skipped ++ pend), None)
        | _, Linear => (PNonLinear skipped pend, None)
        | _, LinearSkip => (finish pend, None)
        end
      else (finish pend, None)
  | None => (finish pend, None)
  end.

Definition p_hist (c : cfg) (all : list file) (revs : list rev) (last : rev) : presult * option rev :=
  let migrations := skip_checkpoints all in
  let partially := negb (r_applied last =? r_total last) in
  let ckpt_case :=
    if partially && negb (length all =? 0) then
      let '(idx, found) := bsearch (map f_version all) (r_version last) in
      if found then
        match nth_error all idx with
        | Some f => if f_ckpt f then Some (f :: skip_checkpoints (skipn idx all)) else None
        | None => None
        end
      else None
    else None in
  match ckpt_case with
  | Some p => (PFiles p, None)
  | None =>
      match migrations with
      | [] => (PNoPending, None)
      | _ =>
          let fn := if partially
                    then (fun f => bytes_eqb (f_version f) (r_version last))
                    else (fun f => bytes_leb (f_version f) (r_version last)) in
          match files_last_index fn migrations with
          | None => if partially then (PMissing (r_version last), None)
                    else (PFiles migrations, None)
          | Some idx0 => p_tail c revs migrations (if partially then idx0 else S idx0)
          end
      end
  end.

Lemma pending_hist c all revs last :
  last_opt revs = Some last -> pending c all revs = p_hist c all revs last.
Proof. intros H. unfold pending. rewrite H. reflexivity. Qed.

Lemma pending_first c all :
  pending (hash := hash) c all [] =
  if c_dirty c && negb (c_allow_dirty c) && (match c_baseline c with None => true | Some _ => false end)
  then (PNotClean, None)
  else match c_baseline c with
       | Some bv =>
           match files_last_index (fun f => bytes_eqb (f_version f) bv) (skip_checkpoints all) with
           | None => (PBaselineNotFound, None)
           | Some b => (finish (skipn (S b) (skip_checkpoints all)), Some (baseline_rev bv))
           end
       | None => (finish (files_from_last_checkpoint all), None)
       end.
Proof. reflexivity. Qed.

Lemma last_opt_last (revs : list rev) r0 : revs <> [] -> last_opt revs = Some (last revs r0).
Proof.
  intros Hne. destruct (exists_last Hne) as (l & a & ->).
  rewrite last_last. unfold last_opt. destruct (l ++ [a]) eqn:E; [destruct l; discriminate|].
  rewrite <- E. rewrite app_length. simpl. replace (length l + 1 - 1) with (length l) by lia.
  rewrite nth_error_app2 by lia. rewrite Nat.sub_diag. reflexivity.
Qed.

(** ** the out-of-order window *)

Definition ooo_of (fv : bytes) (revs : list rev) (pre : list file) : list file :=
  match index_func (fun f => bytes_leb fv (f_version f)) pre with
  | Some first => filter (out_of_order revs) (skipn first pre)
  | None => []
  end.

Lemma p_tail_eq c revs mig idx :
  p_tail c revs mig idx =
  (by_order (c_order c)
     (ooo_of (match revs with r0 :: _ => r_version r0 | [] => [] end) revs (firstn idx mig))
     (skipn idx mig), None).
Proof.
  unfold p_tail, ooo_of. cbv zeta.
  destruct (index_func _ (firstn idx mig)) as [first|] eqn:E.
  - pose proof (index_func_lt _ _ _ E) as Hlt. pose proof (firstn_le_length idx mig) as Hle.
    assert (first <? idx = true) as -> by (apply Nat.ltb_lt; lia).
    set (sk := filter _ (skipn first (firstn idx mig))).
    destruct (c_order c); destruct sk; reflexivity.
  - rewrite by_order_nil. reflexivity.
Qed.

Lemma sorted_revs_keys revs : sorted_revs revs -> sorted_keys (map (@r_version hash) revs).
Proof. intros H. apply (proj1 (StronglySorted_map (fun a b => bytes_ltb a b = true) (@r_version hash) revs)). exact H. Qed.

Lemma has_rev_In revs v : has_rev revs v = true <-> In v (map (@r_version hash) revs).
Proof.
  unfold has_rev. rewrite existsb_exists, in_map_iff. split.
  - intros (r & Hr & E). apply bytes_eqb_eq in E. eauto.
  - intros (r & E & Hr). exists r. split; [exact Hr|]. apply bytes_eqb_eq. exact E.
Qed.

Lemma bsearch_has_rev revs v :
  sorted_revs revs -> snd (bsearch (map (@r_version hash) revs) v) = has_rev revs v.
Proof.
  intros Hs. pose proof (bsearch_In _ v (sorted_revs_keys _ Hs)) as B.
  pose proof (has_rev_In revs v) as H.
  destruct (snd (bsearch _ v)), (has_rev revs v); try reflexivity.
  - symmetry. apply H, B. reflexivity.
  - apply B, H. reflexivity.
Qed.

Lemma sorted_revs_unique revs a b :
  sorted_revs revs -> In a revs -> In b revs -> r_version a = r_version b -> a = b.
Proof.
  unfold sorted_revs. induction 1 as [|x l Hs IH Hf]; [intros []|].
  rewrite Forall_forall in Hf. intros [<-|Ha] [<-|Hb] E; auto.
  - specialize (Hf b Hb). unfold rver_lt in Hf. rewrite E, bytes_ltb_irrefl in Hf. discriminate.
  - specialize (Hf a Ha). unfold rver_lt in Hf. rewrite E, bytes_ltb_irrefl in Hf. discriminate.
Qed.

Lemma done_rev_In revs v :
  done_rev revs v = true <-> exists r, In r revs /\ r_version r = v /\ r_applied r = r_total r.
Proof.
  unfold done_rev. rewrite existsb_exists. split; intros (r & Hr & H); exists r.
  - apply andb_true_iff in H as [E C]. apply bytes_eqb_eq in E. apply Nat.eqb_eq in C. auto.
  - destruct H as [E C]. split; [exact Hr|]. rewrite E, bytes_eqb_refl, C, Nat.eqb_refl. reflexivity.
Qed.

Lemma done_rev_has_rev revs v : done_rev revs v = true -> has_rev revs v = true.
Proof.
  intros H. apply done_rev_In in H as (r & Hr & E & _). apply has_rev_In. rewrite <- E. apply in_map. exact Hr.
Qed.

(** The loop test of [Pending] ("not found, or found but partially applied") is "no
    completely applied revision" on a table sorted by version. *)
Lemma out_of_order_done revs f :
  sorted_revs revs -> out_of_order revs f = negb (done_rev revs (f_version f)).
Proof.
  intros Hs. unfold out_of_order.
  destruct (bsearch (map (@r_version hash) revs) (f_version f)) as [i found] eqn:Eb.
  destruct found; cbn [negb orb].
  - apply bsearch_found in Eb. rewrite nth_error_map in Eb.
    destruct (nth_error revs i) as [r|] eqn:En; [|discriminate]. simpl in Eb. injection Eb as Ev.
    pose proof (nth_error_In _ _ En) as Hr.
    destruct (r_applied r =? r_total r) eqn:Ec; cbn [negb].
    + symmetry. apply negb_false_iff. apply done_rev_In. exists r. apply Nat.eqb_eq in Ec. auto.
    + symmetry. apply negb_true_iff. destruct (done_rev revs (f_version f)) eqn:D; [|reflexivity].
      apply done_rev_In in D as (r' & Hr' & E' & C').
      assert (r' = r) as -> by (apply (sorted_revs_unique revs); auto; congruence).
      apply Nat.eqb_neq in Ec. contradiction.
  - symmetry. apply negb_true_iff. destruct (done_rev revs (f_version f)) eqn:D; [|reflexivity].
    apply done_rev_has_rev in D. rewrite <- (bsearch_has_rev revs _ Hs), Eb in D. discriminate.
Qed.

Lemma window_filter fv pre :
  sorted_files pre ->
  match index_func (fun f => bytes_leb fv (f_version f)) pre with
  | Some first => skipn first pre
  | None => []
  end = filter (fun f => bytes_leb fv (f_version f)) pre.
Proof.
  induction 1 as [|a l Hs IH Hf]; simpl; [reflexivity|].
  destruct (bytes_leb fv (f_version a)) eqn:E.
  - simpl. f_equal. symmetry. apply filter_true. rewrite Forall_forall in Hf.
    intros x Hx. apply bytes_ltb_leb. eapply bytes_leb_ltb_trans; [exact E|]. apply Hf. exact Hx.
  - destruct (index_func _ l) as [j|]; simpl; exact IH.
Qed.

Lemma ooo_of_filter fv revs pre :
  sorted_files pre -> sorted_revs revs ->
  ooo_of fv revs pre =
  filter (fun f => bytes_leb fv (f_version f) && negb (done_rev revs (f_version f))) pre.
Proof.
  intros Hp Hr. unfold ooo_of. rewrite <- filter_filter. rewrite <- (window_filter fv pre Hp).
  destruct (index_func _ pre) as [j|]; [|reflexivity].
  apply filter_ext_in. intros a _. apply (out_of_order_done revs a Hr).
Qed.

Lemma ooo_files_mig fv lv revs all :
  ooo_files fv lv revs all =
  filter (fun f => bytes_leb fv (f_version f) && bytes_ltb (f_version f) lv && negb (done_rev revs (f_version f)))
         (skip_checkpoints all).
Proof.
  unfold ooo_files, skip_checkpoints. rewrite filter_filter. apply filter_ext_in. intros a _.
  destruct (f_ckpt a); simpl; reflexivity.
Qed.

Lemma ooo_eq fv lv revs pre post :
  sorted_revs revs -> (forall x, In x pre -> f_version x = lv -> done_rev revs lv = true) ->
  sorted_files (pre ++ post) ->
  (forall x, In x pre -> bytes_leb (f_version x) lv = true) ->
  (forall x, In x post -> bytes_leb lv (f_version x) = true) ->
  ooo_of fv revs pre =
  filter (fun f => bytes_leb fv (f_version f) && bytes_ltb (f_version f) lv && negb (done_rev revs (f_version f)))
         (pre ++ post).
Proof.
  intros Hr Hl Hs Hpre Hpost. apply StronglySorted_app_inv in Hs as (Hs1 & _ & _).
  rewrite filter_app. rewrite (filter_false _ post).
  2:{ intros x Hx. apply Hpost in Hx. apply bytes_ltb_false_leb in Hx. rewrite Hx.
      rewrite andb_false_r. reflexivity. }
  rewrite app_nil_r. rewrite (ooo_of_filter fv revs pre Hs1 Hr).
  apply filter_ext_in. intros x Hx. pose proof (Hl x Hx) as Hd. apply Hpre in Hx. apply bytes_leb_cases in Hx as [L|E].
  - rewrite L, andb_true_r. reflexivity.
  - rewrite E, (Hd E). simpl. rewrite !andb_false_r. reflexivity.
Qed.

Lemma last_In (revs : list rev) r0 : revs <> [] -> In (last revs r0) revs.
Proof.
  intros Hne. destruct (exists_last Hne) as (l & a & ->). rewrite last_last.
  apply in_or_app. right. left. reflexivity.
Qed.

Lemma has_rev_of_In revs r : In r revs -> has_rev revs (r_version r) = true.
Proof. intros H. apply has_rev_In. apply in_map. exact H. Qed.

(** ** refinement, history case *)
Lemma hist_refines c all r0 tl lst :
  sorted_files all -> sorted_revs (r0 :: tl) -> In lst (r0 :: tl) ->
  p_hist c all (r0 :: tl) lst = hist_spec c all (r0 :: tl) r0 lst.
Proof.
  intros Hsa Hsr Hin. set (revs := r0 :: tl) in *.
  pose proof (has_rev_of_In revs lst Hin) as Hhas.
  pose proof (skip_checkpoints_sorted all Hsa) as Hsm.
  unfold p_hist, hist_spec. cbv zeta.
  rewrite newer_mig, ooo_files_mig.
  destruct (r_applied lst =? r_total lst) eqn:Ec; cbn [negb andb].
  - (* last revision complete *)
    destruct (skip_checkpoints all) as [|m0 mt] eqn:Em.
    + simpl. rewrite by_order_nil. reflexivity.
    + rewrite <- Em in *.
      destruct (files_last_index _ (skip_checkpoints all)) as [idx0|] eqn:Ef.
      * apply fli_Some in Ef as (l1 & g & l2 & Hm & Hl & Hg & Hn). rewrite Hm in *. subst idx0.
        rewrite p_tail_eq. rewrite firstn_app_exact_S, skipn_app_exact_S. cbn [revs].
        replace (l1 ++ g :: l2) with ((l1 ++ [g]) ++ l2) in * by (rewrite <- app_assoc; reflexivity).
        pose proof Hsm as Hsm'. apply StronglySorted_app_inv in Hsm' as (_ & _ & Hord).
        assert (forall x, In x (l1 ++ [g]) -> bytes_leb (f_version x) (r_version lst) = true) as Hpre.
        { intros x Hx. apply in_app_or in Hx as [Hx|[<-|[]]]; [|exact Hg].
          apply bytes_ltb_leb. eapply bytes_ltb_leb_trans; [|exact Hg].
          destruct (sorted_files_mid l1 g l2) as [A _];
            [rewrite <- app_assoc in Hsm; exact Hsm|]. apply A. exact Hx. }
        assert (forall x, In x l2 -> bytes_ltb (r_version lst) (f_version x) = true) as Hpost.
        { intros x Hx. apply bytes_leb_false_ltb. apply Hn. exact Hx. }
        rewrite (filter_split (fun f => bytes_ltb (r_version lst) (f_version f)) (l1 ++ [g]) l2).
        2:{ intros x Hx. apply bytes_ltb_false_leb. apply Hpre. exact Hx. }
        2:{ exact Hpost. }
        rewrite <- (ooo_eq (r_version r0) (r_version lst) revs (l1 ++ [g]) l2); auto.
        -- intros x _ _. apply done_rev_In. exists lst. apply Nat.eqb_eq in Ec. auto.
        -- intros x Hx. apply bytes_ltb_leb. apply Hpost. exact Hx.
      * pose proof (proj1 (fli_None _ _) Ef) as Hn.
        assert (forall x, In x (skip_checkpoints all) -> bytes_ltb (r_version lst) (f_version x) = true) as Hpost.
        { intros x Hx. apply bytes_leb_false_ltb. apply Hn. exact Hx. }
        rewrite (filter_true _ _ Hpost). rewrite filter_false.
        2:{ intros x Hx. rewrite (bytes_ltb_asym _ _ (Hpost x Hx)). rewrite andb_false_r. reflexivity. }
        rewrite by_order_nil. rewrite Em. reflexivity.
  - (* last revision partial *)
    destruct (length all =? 0) eqn:El.
    { apply Nat.eqb_eq in El. destruct all; [|discriminate]. reflexivity. }
    cbn [negb].
    destruct (bsearch (map f_version all) (r_version lst)) as [idx found] eqn:Eb.
    destruct found.
    + apply bsearch_found in Eb. rewrite nth_error_map in Eb.
      destruct (nth_error all idx) as [f|] eqn:En; [|discriminate]. simpl in Eb.
      injection Eb as Ev. apply nth_error_split in En as (l1 & l2 & Hall & Hlen).
      rewrite Hall in *. rewrite <- Ev. rewrite (find_sorted l1 f l2 Hsa).
      destruct (sorted_files_mid l1 f l2 Hsa) as [Hlt Hgt].
      assert (forall x, In x (skip_checkpoints l1) -> bytes_ltb (f_version f) (f_version x) = false) as Hpre.
      { intros x Hx. apply skip_checkpoints_In in Hx as [Hx _]. apply bytes_ltb_asym. apply Hlt. exact Hx. }
      assert (forall x, In x (skip_checkpoints l2) -> bytes_ltb (f_version f) (f_version x) = true) as Hpost.
      { intros x Hx. apply skip_checkpoints_In in Hx as [Hx _]. apply Hgt. exact Hx. }
      destruct (f_ckpt f) eqn:Ck.
      * subst idx. rewrite skipn_app_exact. rewrite skip_checkpoints_app.
        unfold skip_checkpoints at 1 3. simpl filter. rewrite Ck. simpl negb. cbv iota.
        fold (skip_checkpoints l2).
        rewrite (filter_split _ _ _ Hpre Hpost). reflexivity.
      * rewrite skip_checkpoints_app in *.
        assert (skip_checkpoints (f :: l2) = f :: skip_checkpoints l2) as Hcons.
        { unfold skip_checkpoints. simpl. rewrite Ck. reflexivity. }
        rewrite Hcons in *.
        rewrite match_nonempty by (destruct (skip_checkpoints l1); discriminate).
        rewrite (fli_app_last _ (skip_checkpoints l1) f (skip_checkpoints l2)).
        2:{ apply bytes_eqb_refl. }
        2:{ intros x Hx. apply bytes_ltb_eqb_false'. apply Hpost. exact Hx. }
        rewrite p_tail_eq. rewrite firstn_app_exact, skipn_app_exact. cbn [revs].
        replace (filter (fun f0 => bytes_ltb (f_version f) (f_version f0)) (skip_checkpoints l1 ++ f :: skip_checkpoints l2))
          with (skip_checkpoints l2).
        2:{ rewrite filter_app. rewrite (filter_false _ _ Hpre). simpl. rewrite bytes_ltb_irrefl.
            rewrite (filter_true _ _ Hpost). reflexivity. }
        rewrite <- (ooo_eq (r_version r0) (f_version f) revs (skip_checkpoints l1) (f :: skip_checkpoints l2)); auto.
        -- intros x Hx E. exfalso. apply skip_checkpoints_In in Hx as [Hx _]. apply Hlt in Hx.
           rewrite E, bytes_ltb_irrefl in Hx. discriminate.
        -- intros x Hx. apply bytes_ltb_leb. apply skip_checkpoints_In in Hx as [Hx _]. apply Hlt. exact Hx.
        -- intros x [<-|Hx]; [apply bytes_leb_refl|]. apply bytes_ltb_leb. apply Hpost. exact Hx.
    + assert (~ In (r_version lst) (map f_version all)) as Hni.
      { apply (bsearch_not_In (map f_version all) (r_version lst)).
        - apply (proj1 (StronglySorted_map (fun a b => bytes_ltb a b = true) f_version all)). exact Hsa.
        - rewrite Eb. reflexivity. }
      assert (forall x, In x all -> bytes_eqb (f_version x) (r_version lst) = false) as Hne.
      { intros x Hx. apply bytes_eqb_neq. intros E. apply Hni. rewrite <- E. apply in_map. exact Hx. }
      rewrite (find_none_all _ _ Hne).
      destruct (skip_checkpoints all) as [|m0 mt] eqn:Em.
      * apply skip_checkpoints_nil_existsb in Em. rewrite Em. reflexivity.
      * rewrite <- Em in *.
        assert (existsb (fun f => negb (f_ckpt f)) all = true) as ->.
        { destruct (existsb (fun f => negb (f_ckpt f)) all) eqn:Ex; [reflexivity|].
          apply skip_checkpoints_nil_existsb in Ex. rewrite Ex in Em. discriminate. }
        rewrite (proj2 (fli_None _ (skip_checkpoints all))); [reflexivity|].
        intros x Hx. apply Hne. apply skip_checkpoints_In in Hx as [Hx _]. exact Hx.
Qed.

(** ** refinement, first run *)
Lemma first_refines c all : sorted_files all -> pending (hash := hash) c all [] = first_spec c all.
Proof.
  intros Hsa. rewrite pending_first. unfold first_spec.
  destruct (c_dirty c && negb (c_allow_dirty c) && _); [reflexivity|].
  destruct (c_baseline c) as [bv|]; [|rewrite from_last_ckpt_eq; reflexivity].
  pose proof (skip_checkpoints_sorted all Hsa) as Hsm.
  destruct (files_last_index _ (skip_checkpoints all)) as [b|] eqn:Ef.
  - apply fli_Some in Ef as (l1 & g & l2 & Hm & Hl & Hg & Hn). subst b.
    assert (existsb (fun f => negb (f_ckpt f) && bytes_eqb (f_version f) bv) all = true) as ->.
    { apply existsb_exists. exists g. assert (In g (skip_checkpoints all)) as Hin.
      { rewrite Hm. apply in_or_app. right. left. reflexivity. }
      apply skip_checkpoints_In in Hin as [Hin Ck]. rewrite Ck, Hg. split; [exact Hin|reflexivity]. }
    rewrite newer_mig. rewrite Hm in *. rewrite skipn_app_exact_S.
    apply bytes_eqb_eq in Hg. subst bv.
    destruct (sorted_files_mid l1 g l2 Hsm) as [Hlt Hgt].
    replace (l1 ++ g :: l2) with ((l1 ++ [g]) ++ l2) by (rewrite <- app_assoc; reflexivity).
    rewrite filter_split; [reflexivity| |exact Hgt].
    intros x Hx. apply in_app_or in Hx as [Hx|[<-|[]]]; [|apply bytes_ltb_irrefl].
    apply bytes_ltb_asym. apply Hlt. exact Hx.
  - assert (existsb (fun f => negb (f_ckpt f) && bytes_eqb (f_version f) bv) all = false) as ->; [|reflexivity].
    destruct (existsb _ all) eqn:Ex; [|reflexivity].
    apply existsb_exists in Ex as (x & Hx & Px). apply andb_true_iff in Px as [P1 P2].
    apply negb_true_iff in P1.
    rewrite (proj1 (fli_None _ _) Ef x) in P2; [discriminate|]. apply skip_checkpoints_In. auto.
Qed.

(** ** the refinement theorem: on sorted input the transcription of [Executor.Pending]
    computes exactly the declarative specification. *)
Theorem pending_refines c all revs :
  sorted_files all -> sorted_revs revs -> pending c all revs = pending_spec c all revs.
Proof.
  intros Hsa Hsr. destruct revs as [|r0 tl]; [apply first_refines; exact Hsa|].
  unfold pending_spec.
  assert (r0 :: tl <> []) as Hne by discriminate.
  rewrite (pending_hist c all (r0 :: tl) (last (r0 :: tl) r0) (last_opt_last _ r0 Hne)).
  apply hist_refines; auto. apply last_In. exact Hne.
Qed.

(** * 4. consequences *)

Lemma revs_snoc (revs : list rev) r0 : revs <> [] -> revs = removelast revs ++ [last revs r0].
Proof. apply app_removelast_last. Qed.

Lemma sorted_revs_last_max revs r0 r :
  sorted_revs revs -> In r revs -> r = last revs r0 \/ bytes_ltb (r_version r) (r_version (last revs r0)) = true.
Proof.
  intros Hs Hin. assert (revs <> []) as Hne by (destruct revs; [destruct Hin|discriminate]).
  rewrite (revs_snoc revs r0 Hne) in Hin, Hs. apply in_app_or in Hin as [Hin|[<-|[]]]; [right|left; reflexivity].
  apply StronglySorted_mid_inv in Hs as (_ & _ & A & _ & _). apply A. exact Hin.
Qed.

(** ** C09's lemma: a linear history *)

(* no checkpoint files, files strictly sorted; the table holds complete revisions of the first k
   files and, if [p = true], a partial revision of file number k *)
Definition linear_state (all : list file) (revs : list rev) (k : nat) (p : bool) : Prop :=
  let m := k + (if p then 1 else 0) in
  m <= length all /\ 0 < m /\
  map (@r_version hash) revs = map f_version (firstn m all) /\
  (forall i r, i < k -> nth_error revs i = Some r -> r_applied r = r_total r) /\
  (p = true -> forall r, nth_error revs k = Some r -> r_applied r <> r_total r).

Lemma pending_linear_state_aux c all (revs : list rev) k p :
  sorted_files all -> (forall f, In f all -> f_ckpt f = false) ->
  linear_state all revs k p ->
  pending c all revs = ((match skipn k all with [] => PNoPending | l => PFiles l end), None).
Proof.
  intros Hsa Hnc (Hm & Hpos & Hmap & Hcomp & Hpart).
  set (m := k + (if p then 1 else 0)) in *.
  assert (length revs = m) as Hlen.
  { rewrite <- (map_length (@r_version hash)), Hmap, map_length, firstn_length. lia. }
  destruct revs as [|r0 tl] eqn:Er; [simpl in Hlen; lia|]. rewrite <- Er in *.
  assert (revs <> []) as Hne by (rewrite Er; discriminate).
  (* the m-th file *)
  destruct (nth_error_some_lt all (m - 1) ltac:(lia)) as [fm Hfm].
  apply nth_error_split in Hfm as (A & B & Hall & HA).
  assert (firstn m all = A ++ [fm]) as Hfirst.
  { rewrite Hall. replace m with (S (length A)) by lia. apply firstn_app_exact_S. }
  (* the last revision *)
  pose proof (revs_snoc revs r0 Hne) as Hsn. set (lst := last revs r0) in *. set (rl := removelast revs) in *.
  assert (map (@r_version hash) rl = map f_version A /\ r_version lst = f_version fm) as [Hmrl Hlv].
  { rewrite Hsn, Hfirst, !map_app in Hmap. simpl in Hmap. apply app_inj_tail in Hmap. exact Hmap. }
  assert (length rl = m - 1) as Hrl.
  { rewrite Hsn, app_length in Hlen. simpl in Hlen. lia. }
  assert (nth_error revs (m - 1) = Some lst) as Hnth.
  { rewrite Hsn. rewrite nth_error_app2 by lia. rewrite Hrl, Nat.sub_diag. reflexivity. }
  (* sortedness of the table *)
  assert (sorted_revs revs) as Hsr.
  { apply (proj2 (StronglySorted_map (fun a b => bytes_ltb a b = true) (@r_version hash) revs)).
    rewrite Hmap. apply (proj1 (StronglySorted_map (fun a b => bytes_ltb a b = true) f_version (firstn m all))).
    rewrite <- (firstn_skipn m all) in Hsa. apply StronglySorted_app_inv in Hsa as [H1 _]. exact H1. }
  rewrite (pending_refines c all revs Hsa Hsr). unfold pending_spec. rewrite Er. rewrite <- Er.
  fold lst. unfold hist_spec. cbv zeta. rewrite Hlv.
  destruct (sorted_files_mid A fm B) as [Hlt Hgt]; [rewrite <- Hall; exact Hsa|].
  (* no out-of-order file *)
  assert (ooo_files (r_version r0) (f_version fm) revs all = []) as ->.
  { unfold ooo_files. apply filter_false. intros x Hx.
    destruct (bytes_ltb (f_version x) (f_version fm)) eqn:Elt; [|rewrite andb_false_r; reflexivity].
    assert (In x A) as HxA.
    { rewrite Hall in Hx. apply in_app_or in Hx as [Hx|[<-|Hx]]; [exact Hx| |].
      - rewrite bytes_ltb_irrefl in Elt. discriminate.
      - rewrite (bytes_ltb_asym _ _ (Hgt x Hx)) in Elt. discriminate. }
    assert (done_rev revs (f_version x) = true) as ->; [|rewrite andb_false_r; reflexivity].
    apply In_nth_error in HxA as [i Hi].
    assert (i < length A) as Hil by (apply nth_error_Some; congruence).
    destruct (nth_error_some_lt rl i ltac:(lia)) as [r Hr].
    assert (r_version r = f_version x) as Evx.
    { assert (nth_error (map (@r_version hash) rl) i = nth_error (map f_version A) i) as X by (rewrite Hmrl; reflexivity).
      rewrite !nth_error_map, Hr, Hi in X. simpl in X. congruence. }
    assert (nth_error revs i = Some r) as Hri.
    { rewrite Hsn. rewrite nth_error_app1 by lia. exact Hr. }
    apply done_rev_In. exists r. split; [eapply nth_error_In; exact Hri|]. split; [exact Evx|].
    apply (Hcomp i r); [unfold m in *; destruct p; lia|exact Hri]. }
  assert (newer (f_version fm) all = B) as ->.
  { rewrite newer_mig. unfold skip_checkpoints. rewrite (filter_true _ all).
    2:{ intros x Hx. rewrite (Hnc x Hx). reflexivity. }
    rewrite Hall. replace (A ++ fm :: B) with ((A ++ [fm]) ++ B) by (rewrite <- app_assoc; reflexivity).
    apply filter_split; [|exact Hgt].
    intros x Hx. apply in_app_or in Hx as [Hx|[<-|[]]]; [|apply bytes_ltb_irrefl].
    apply bytes_ltb_asym. apply Hlt. exact Hx. }
  rewrite !by_order_nil.
  destruct p.
  - (* partial revision of file k *)
    assert (m - 1 = k) as Hk by (unfold m; lia). rewrite Hk in *.
    assert (r_applied lst =? r_total lst = false) as ->.
    { apply Nat.eqb_neq. apply (Hpart eq_refl lst Hnth). }
    rewrite Hall at 1. rewrite (find_sorted A fm B); [|rewrite <- Hall; exact Hsa].
    rewrite (Hnc fm); [|rewrite Hall; apply in_or_app; right; left; reflexivity].
    rewrite by_order_nil. rewrite Hall. rewrite <- HA. rewrite skipn_app_exact. reflexivity.
  - assert (m = k) as Hk by (unfold m; lia). rewrite Hk in *.
    assert (r_applied lst =? r_total lst = true) as ->.
    { apply Nat.eqb_eq. apply (Hcomp (k - 1) lst); [lia|exact Hnth]. }
    rewrite Hall. replace k with (S (length A)) by lia. rewrite skipn_app_exact_S.
    destruct B; reflexivity.
Qed.

End PendingProofs.

Arguments sorted_revs {hash}.
Arguments complete {hash}.
Arguments only_last_partial {hash}.
Arguments has_rev {hash}.
Arguments done_rev {hash}.
Arguments ooo_files {hash}.
Arguments pending_spec {hash}.

(** The statement the coordinator asked for (C09). *)
Lemma pending_linear_state : forall hash c all (revs : list (rev hash)) k p,
  sorted_files all -> (forall f, In f all -> f_ckpt f = false) ->
  linear_state hash all revs k p ->
  pending c all revs = ((match skipn k all with [] => PNoPending | l => PFiles l end), None).
Proof. intros hash. apply pending_linear_state_aux. Qed.

(** * 5. the documented properties *)

(** The files a decision names (to run, or to report in the non-linear error). *)
Definition result_files (r : presult) : list file :=
  match r with PFiles p => p | PNonLinear s p => s ++ p | _ => [] end.

Lemma finish_files p : result_files (finish p) = p.
Proof. destruct p; reflexivity. Qed.

Lemma finish_nonempty p f : In f p -> finish p = PFiles p.
Proof. destruct p; [intros []|reflexivity]. Qed.

Lemma by_order_files o s p f : In f (result_files (by_order o s p)) -> In f s \/ In f p.
Proof.
  destruct o; simpl.
  - destruct s as [|a s]; [rewrite finish_files; auto|]. simpl. intros [<-|H]; [left; left; reflexivity|].
    apply in_app_or in H as [H|H]; [left; right; exact H|right; exact H].
  - rewrite finish_files. auto.
  - rewrite finish_files. apply in_app_or.
Qed.

Lemma by_order_contains o s p f : In f p ->
  match by_order o s p with PFiles q => In f q | PNonLinear _ q => In f q | _ => False end.
Proof.
  intros H. destruct o; simpl.
  - destruct s; [rewrite (finish_nonempty p f H)|]; exact H.
  - rewrite (finish_nonempty p f H). exact H.
  - rewrite (finish_nonempty (s ++ p) f); apply in_or_app; right; exact H.
Qed.

Section Properties.
Variable hash : Type.
Notation rev := (rev hash).

Lemma last_indep (revs : list rev) a b : revs <> [] -> last revs a = last revs b.
Proof. intros Hne. destruct (exists_last Hne) as (l & x & ->). rewrite !last_last. reflexivity. Qed.

Lemma pending_hist_spec c all (revs : list rev) r0 :
  sorted_files all -> sorted_revs revs -> revs <> [] ->
  pending c all revs = hist_spec hash c all revs (hd r0 revs) (last revs r0).
Proof.
  intros Hsa Hsr Hne. rewrite (pending_refines hash c all revs Hsa Hsr).
  destruct revs as [|r1 tl]; [congruence|]. unfold pending_spec. cbn [hd].
  rewrite (last_indep (r1 :: tl) r1 r0 Hne). reflexivity.
Qed.

Lemma last_ver_unique (revs : list rev) r0 r :
  sorted_revs revs -> In r revs -> r_version r = r_version (last revs r0) -> r = last revs r0.
Proof.
  intros Hs Hin E. destruct (sorted_revs_last_max hash revs r0 r Hs Hin) as [H|H]; [exact H|].
  rewrite E, bytes_ltb_irrefl in H. discriminate.
Qed.

Lemma newer_no_rev all (revs : list rev) r0 r f :
  sorted_revs revs -> In r revs -> In f (newer (r_version (last revs r0)) all) ->
  r_version r <> f_version f.
Proof.
  intros Hs Hin Hf E. unfold newer in Hf. apply filter_In in Hf as [_ Hf].
  apply andb_true_iff in Hf as [_ Hf]. rewrite <- E in Hf.
  destruct (sorted_revs_last_max hash revs r0 r Hs Hin) as [H|H].
  - rewrite <- H, bytes_ltb_irrefl in Hf. discriminate.
  - rewrite (bytes_ltb_asym _ _ H) in Hf. discriminate.
Qed.

Lemma ooo_no_rev fv lv all (revs : list rev) r f :
  In r revs -> complete r -> In f (ooo_files fv lv revs all) -> r_version r <> f_version f.
Proof.
  intros Hin Hc Hf E. unfold ooo_files in Hf. apply filter_In in Hf as [_ Hf].
  apply andb_true_iff in Hf as [_ Hf]. apply negb_true_iff in Hf.
  assert (done_rev revs (f_version f) = true) as X by (apply (done_rev_In hash); exists r; auto).
  congruence.
Qed.

Lemma find_In_sorted all g :
  sorted_files all -> In g all ->
  find (fun f => bytes_eqb (f_version f) (f_version g)) all = Some g.
Proof. intros Hs Hin. apply in_split in Hin as (l1 & l2 & ->). apply find_sorted. exact Hs. Qed.

(** (A) never a fully applied version again *)
Lemma never_applied_again c all (revs : list rev) f r :
  sorted_files all -> sorted_revs revs ->
  In f (result_files (fst (pending c all revs))) ->
  In r revs -> r_version r = f_version f -> ~ complete r.
Proof.
  intros Hsa Hsr Hf Hr Ev Hc.
  assert (revs <> []) as Hne by (destruct revs; [destruct Hr|discriminate]).
  rewrite (pending_hist_spec c all revs r Hsa Hsr Hne) in Hf.
  unfold hist_spec in Hf. cbv zeta in Hf.
  assert (forall g, bytes_eqb (f_version g) (r_version (last revs r)) = true ->
          r_applied (last revs r) =? r_total (last revs r) = false ->
          In f (g :: newer (r_version (last revs r)) all) -> False) as Hcons.
  { intros g Hg Ec [<-|Hn]; [|exact (newer_no_rev all revs r r f Hsr Hr Hn Ev)].
    apply bytes_eqb_eq in Hg. rewrite <- Ev in Hg.
    apply (last_ver_unique revs r r Hsr Hr) in Hg. rewrite <- Hg in Ec.
    apply Nat.eqb_neq in Ec. apply Ec. exact Hc. }
  destruct (r_applied (last revs r) =? r_total (last revs r)) eqn:Ec.
  - simpl in Hf. apply by_order_files in Hf as [Hf|Hf].
    + exact (ooo_no_rev _ _ all revs r f Hr Hc Hf Ev).
    + exact (newer_no_rev all revs r r f Hsr Hr Hf Ev).
  - destruct (find _ all) as [g|] eqn:Efind.
    + apply find_some in Efind as [_ Hg].
      destruct (f_ckpt g); simpl in Hf.
      * exact (Hcons g Hg eq_refl Hf).
      * apply by_order_files in Hf as [Hf|Hf]; [exact (ooo_no_rev _ _ all revs r f Hr Hc Hf Ev)|].
        exact (Hcons g Hg eq_refl Hf).
    + destruct (existsb _ all); simpl in Hf; exact Hf.
Qed.

(** (B) every version newer than the last applied one *)
Lemma all_newer_pending c all (revs : list rev) r0 f :
  sorted_files all -> sorted_revs revs -> revs <> [] ->
  In f all -> f_ckpt f = false -> bytes_ltb (r_version (last revs r0)) (f_version f) = true ->
  match fst (pending c all revs) with
  | PFiles p => In f p
  | PNonLinear _ p => In f p
  | PMissing v => v = r_version (last revs r0) /\ ~ complete (last revs r0) /\
                  (forall g, In g all -> f_version g <> v)
  | _ => False
  end.
Proof.
  intros Hsa Hsr Hne Hin Hck Hlt.
  rewrite (pending_hist_spec c all revs r0 Hsa Hsr Hne). unfold hist_spec. cbv zeta.
  assert (In f (newer (r_version (last revs r0)) all)) as Hn.
  { unfold newer. apply filter_In. rewrite Hck, Hlt. auto. }
  destruct (r_applied (last revs r0) =? r_total (last revs r0)) eqn:Ec.
  - simpl.
    match goal with |- context [by_order ?o ?s ?p] =>
      pose proof (by_order_contains o s p f Hn) as X; destruct (by_order o s p); try exact X; try contradiction end.
  - destruct (find _ all) as [g|] eqn:Efind.
    + destruct (f_ckpt g); simpl; [right; exact Hn|].
      match goal with |- context [by_order ?o ?s ?p] =>
        pose proof (by_order_contains o s p f (or_intror Hn)) as X; destruct (by_order o s p); try exact X; try contradiction end.
    + assert (existsb (fun f0 => negb (f_ckpt f0)) all = true) as ->.
      { apply existsb_exists. exists f. rewrite Hck. auto. }
      simpl. repeat split.
      * intros Hc. apply Nat.eqb_neq in Ec. apply Ec. exact Hc.
      * intros g Hg. apply bytes_eqb_neq. exact (find_none _ _ Efind g Hg).
Qed.

(** (C) the partially applied file first *)
Lemma partial_first_ckpt c all (revs : list rev) r0 g :
  sorted_files all -> sorted_revs revs -> revs <> [] -> ~ complete (last revs r0) ->
  In g all -> f_version g = r_version (last revs r0) -> f_ckpt g = true ->
  pending c all revs = (PFiles (g :: newer (r_version (last revs r0)) all), None).
Proof.
  intros Hsa Hsr Hne Hp Hin Hv Hck.
  rewrite (pending_hist_spec c all revs r0 Hsa Hsr Hne). unfold hist_spec. cbv zeta.
  assert (r_applied (last revs r0) =? r_total (last revs r0) = false) as -> by (apply Nat.eqb_neq; exact Hp).
  rewrite <- Hv. rewrite (find_In_sorted all g Hsa Hin), Hck. reflexivity.
Qed.

Lemma partial_first_file c all (revs : list rev) r0 g :
  sorted_files all -> sorted_revs revs -> revs <> [] -> ~ complete (last revs r0) ->
  In g all -> f_version g = r_version (last revs r0) -> f_ckpt g = false ->
  pending c all revs =
  (by_order (c_order c)
     (ooo_files (r_version (hd r0 revs)) (r_version (last revs r0)) revs all)
     (g :: newer (r_version (last revs r0)) all), None).
Proof.
  intros Hsa Hsr Hne Hp Hin Hv Hck.
  rewrite (pending_hist_spec c all revs r0 Hsa Hsr Hne). unfold hist_spec. cbv zeta.
  assert (r_applied (last revs r0) =? r_total (last revs r0) = false) as -> by (apply Nat.eqb_neq; exact Hp).
  rewrite <- Hv. rewrite (find_In_sorted all g Hsa Hin), Hck. reflexivity.
Qed.

Lemma partial_missing c all (revs : list rev) r0 :
  sorted_files all -> sorted_revs revs -> revs <> [] -> ~ complete (last revs r0) ->
  (forall g, In g all -> f_version g <> r_version (last revs r0)) ->
  pending c all revs =
  (if existsb (fun f => negb (f_ckpt f)) all then PMissing (r_version (last revs r0)) else PNoPending, None).
Proof.
  intros Hsa Hsr Hne Hp Hno.
  rewrite (pending_hist_spec c all revs r0 Hsa Hsr Hne). unfold hist_spec. cbv zeta.
  assert (r_applied (last revs r0) =? r_total (last revs r0) = false) as -> by (apply Nat.eqb_neq; exact Hp).
  rewrite find_none_all.
  - destruct (existsb _ all); reflexivity.
  - intros x Hx. apply bytes_eqb_neq. apply Hno. exact Hx.
Qed.

(** (D) first run: the latest checkpoint, and only it, is the starting point *)
Lemma first_run_from_checkpoint c pre ck rest :
  c_dirty c && negb (c_allow_dirty c) = false -> c_baseline c = None ->
  f_ckpt ck = true -> (forall f, In f rest -> f_ckpt f = false) ->
  pending (hash := hash) c (pre ++ ck :: rest) [] = (PFiles (ck :: rest), None).
Proof.
  intros Hd Hb Hck Hrest. rewrite pending_first, Hb, Hd. simpl.
  unfold files_from_last_checkpoint. rewrite (fli_app_last f_ckpt pre ck rest Hck Hrest).
  rewrite skipn_app_exact. reflexivity.
Qed.

Lemma first_run_no_checkpoint c all :
  c_dirty c && negb (c_allow_dirty c) = false -> c_baseline c = None ->
  (forall f, In f all -> f_ckpt f = false) ->
  pending (hash := hash) c all [] = (finish all, None).
Proof.
  intros Hd Hb Hno. rewrite pending_first, Hb, Hd. simpl.
  unfold files_from_last_checkpoint. rewrite (proj2 (fli_None f_ckpt all) Hno). reflexivity.
Qed.

Lemma last_checkpoint_split all :
  (forall f, In f all -> f_ckpt f = false) \/
  exists pre ck rest, all = pre ++ ck :: rest /\ f_ckpt ck = true /\ (forall f, In f rest -> f_ckpt f = false).
Proof.
  destruct (files_last_index f_ckpt all) as [i|] eqn:E.
  - right. apply fli_Some in E as (l1 & f & l2 & -> & _ & Hp & Hn). exists l1, f, l2. auto.
  - left. apply fli_None. exact E.
Qed.

(** (E) baseline *)
Lemma baseline_not_found c all bv :
  c_baseline c = Some bv ->
  (forall f, In f all -> f_ckpt f = false -> f_version f <> bv) ->
  pending (hash := hash) c all [] = (PBaselineNotFound, None).
Proof.
  intros Hb Hno. rewrite pending_first, Hb. rewrite andb_false_r.
  rewrite (proj2 (fli_None _ (skip_checkpoints all))); [reflexivity|].
  intros f Hf. apply skip_checkpoints_In in Hf as [Hin Hck]. apply bytes_eqb_neq. auto.
Qed.

Lemma baseline_skipped_general c all bv pre g p :
  c_baseline c = Some bv ->
  skip_checkpoints all = pre ++ g :: p -> f_version g = bv ->
  (forall x, In x p -> f_version x <> bv) ->
  pending (hash := hash) c all [] = (finish p, Some (baseline_rev bv)).
Proof.
  intros Hb Hm Hg Hp. rewrite pending_first, Hb. rewrite andb_false_r. rewrite Hm.
  rewrite (fli_app_last _ pre g p).
  - rewrite skipn_app_exact_S. reflexivity.
  - apply bytes_eqb_eq. exact Hg.
  - intros x Hx. apply bytes_eqb_neq. auto.
Qed.

Lemma baseline_skipped c all bv g :
  sorted_files all -> c_baseline c = Some bv ->
  In g all -> f_ckpt g = false -> f_version g = bv ->
  pending (hash := hash) c all [] = (finish (newer bv all), Some (baseline_rev bv)).
Proof.
  intros Hsa Hb Hin Hck Hv. rewrite (first_refines hash c all Hsa). unfold first_spec. rewrite Hb.
  rewrite andb_false_r.
  assert (existsb (fun f => negb (f_ckpt f) && bytes_eqb (f_version f) bv) all = true) as ->; [|reflexivity].
  apply existsb_exists. exists g. rewrite Hck, Hv, bytes_eqb_refl. auto.
Qed.

Lemma newer_In v all f : In f (newer v all) <-> In f all /\ f_ckpt f = false /\ bytes_ltb v (f_version f) = true.
Proof. unfold newer. rewrite filter_In, andb_true_iff, negb_true_iff. reflexivity. Qed.

(** (F) out-of-order files *)
Lemma out_of_order c all (revs : list rev) r0 :
  sorted_files all -> sorted_revs revs -> revs <> [] -> complete (last revs r0) ->
  pending c all revs =
  (by_order (c_order c)
     (ooo_files (r_version (hd r0 revs)) (r_version (last revs r0)) revs all)
     (newer (r_version (last revs r0)) all), None).
Proof.
  intros Hsa Hsr Hne Hc.
  rewrite (pending_hist_spec c all revs r0 Hsa Hsr Hne). unfold hist_spec. cbv zeta.
  assert (r_applied (last revs r0) =? r_total (last revs r0) = true) as -> by (apply Nat.eqb_eq; exact Hc).
  reflexivity.
Qed.

Lemma ooo_files_In fv lv (revs : list rev) all f :
  In f (ooo_files fv lv revs all) <->
  In f all /\ f_ckpt f = false /\ bytes_leb fv (f_version f) = true /\
  bytes_ltb (f_version f) lv = true /\ done_rev revs (f_version f) = false.
Proof.
  unfold ooo_files. rewrite filter_In, !andb_true_iff, !negb_true_iff. tauto.
Qed.

Lemma ooo_newer_disjoint fv lv (revs : list rev) all f :
  In f (ooo_files fv lv revs all) -> In f (newer lv all) -> False.
Proof.
  intros H1 H2. apply ooo_files_In in H1 as (_ & _ & _ & L & _). apply newer_In in H2 as (_ & _ & G).
  rewrite (bytes_ltb_asym _ _ L) in G. discriminate.
Qed.

Lemma out_of_order_skip c all (revs : list rev) r0 f :
  sorted_files all -> sorted_revs revs -> revs <> [] -> c_order c = LinearSkip ->
  In f (result_files (fst (pending c all revs))) ->
  ~ In f (ooo_files (r_version (hd r0 revs)) (r_version (last revs r0)) revs all).
Proof.
  intros Hsa Hsr Hne Ho Hf Hooo.
  rewrite (pending_hist_spec c all revs r0 Hsa Hsr Hne) in Hf. unfold hist_spec in Hf. cbv zeta in Hf.
  rewrite Ho in Hf. cbn [by_order] in Hf.
  assert (forall g, bytes_eqb (f_version g) (r_version (last revs r0)) = true ->
          In f (g :: newer (r_version (last revs r0)) all) -> False) as Hcons.
  { intros g Hg [<-|Hn]; [|exact (ooo_newer_disjoint _ _ _ _ _ Hooo Hn)].
    apply ooo_files_In in Hooo as (_ & _ & _ & L & _). apply bytes_eqb_eq in Hg.
    rewrite Hg, bytes_ltb_irrefl in L. discriminate. }
  destruct (r_applied (last revs r0) =? r_total (last revs r0)).
  - simpl in Hf. rewrite finish_files in Hf. exact (ooo_newer_disjoint _ _ _ _ _ Hooo Hf).
  - destruct (find _ all) as [g|] eqn:Efind.
    + apply find_some in Efind as [_ Hg]. destruct (f_ckpt g); simpl in Hf; exact (Hcons g Hg Hf).
    + destruct (existsb _ all); simpl in Hf; exact Hf.
Qed.

(** with no out-of-order file the execution order is irrelevant *)
Lemma in_order_same c c' all (revs : list rev) r0 :
  sorted_files all -> sorted_revs revs -> revs <> [] ->
  ooo_files (r_version (hd r0 revs)) (r_version (last revs r0)) revs all = [] ->
  c_baseline c' = c_baseline c -> c_allow_dirty c' = c_allow_dirty c -> c_dirty c' = c_dirty c ->
  pending c' all revs = pending c all revs.
Proof.
  intros Hsa Hsr Hne Hooo _ _ _.
  rewrite !(pending_hist_spec _ all revs r0 Hsa Hsr Hne). unfold hist_spec. cbv zeta.
  rewrite Hooo. rewrite !by_order_nil.
  destruct (r_applied (last revs r0) =? r_total (last revs r0)); [reflexivity|].
  destruct (find _ all) as [g|]; [|reflexivity].
  rewrite !by_order_nil. reflexivity.
Qed.

End Properties.

(** (G) ExecuteN runs the first n pending files *)
Section RunProps.
Variable hash : Type.
Variable hash_eqb : hash -> hash -> bool.
Variable HS : bytes -> hash.

Lemma execute_n_first_n c n all (t : list (rev hash)) fs p :
  pending c all (read_revisions hash t) = (PFiles p, None) ->
  execute_n hash hash_eqb HS c n all t fs =
  (let '(o, t2, fs2, es) := exec_files hash hash_eqb HS (if 0 <? n then firstn n p else p) t fs in
   (RExec o, t2, fs2, es)).
Proof.
  intros H. unfold execute_n. rewrite H. cbn [negb].
  destruct (exec_files hash hash_eqb HS (if 0 <? n then firstn n p else p) t fs) as [[[o t2] fs2] es].
  reflexivity.
Qed.

Lemma execute_n_error c n all (t : list (rev hash)) fs r :
  pending c all (read_revisions hash t) = (r, None) ->
  (forall p, r <> PFiles p) ->
  execute_n hash hash_eqb HS c n all t fs = (RPend r, t, fs, []).
Proof.
  intros H Hr. unfold execute_n. rewrite H. cbn [negb].
  destruct r; try reflexivity. exfalso. apply (Hr fs0). reflexivity.
Qed.

End RunProps.

(** * 6. the partial revision is resumed when it is the last one; the reader's order *)

Lemma by_order_result_In o s p f : In f p -> In f (result_files (by_order o s p)).
Proof.
  intros H. pose proof (by_order_contains o s p f H) as X.
  destruct (by_order o s p); simpl; try contradiction; [exact X|apply in_or_app; right; exact X].
Qed.

Section Resume.
Variable hash : Type.
Notation rev := (rev hash).

Lemma only_last_partial_is_last (revs : list rev) r :
  only_last_partial revs -> In r revs -> ~ complete r -> r = last revs r.
Proof.
  intros Ho Hin Hp. assert (revs <> []) as Hne by (destruct revs; [destruct Hin|discriminate]).
  rewrite (revs_snoc hash revs r Hne) in Hin. apply in_app_or in Hin as [Hin|[E|[]]]; [|symmetry; exact E].
  unfold only_last_partial in Ho. rewrite Forall_forall in Ho. exfalso. apply Hp. apply Ho. exact Hin.
Qed.

(** Under "only the last revision may be partial", the file of every partial revision
    is named by the decision (this is what fails for non-linear histories, see
    [C11_partial_not_last_refuted]). *)
Lemma partial_resumed c all (revs : list rev) r g :
  sorted_files all -> sorted_revs revs -> only_last_partial revs ->
  In r revs -> ~ complete r -> In g all -> f_version g = r_version r ->
  In g (result_files (fst (pending c all revs))).
Proof.
  intros Hsa Hsr Ho Hin Hp Hg Hv.
  assert (revs <> []) as Hne by (destruct revs; [destruct Hin|discriminate]).
  pose proof (only_last_partial_is_last revs r Ho Hin Hp) as El.
  assert (~ complete (last revs r)) as Hp' by (rewrite <- El; exact Hp).
  assert (f_version g = r_version (last revs r)) as Hv' by (rewrite <- El; exact Hv).
  destruct (f_ckpt g) eqn:Ck.
  - rewrite (partial_first_ckpt hash c all revs r g Hsa Hsr Hne Hp' Hg Hv' Ck). simpl. left. reflexivity.
  - rewrite (partial_first_file hash c all revs r g Hsa Hsr Hne Hp' Hg Hv' Ck). cbn [fst].
    apply by_order_result_In. left. reflexivity.
Qed.

(** [read_revisions] (the CLI reader: ORDER BY version) returns a strictly sorted list
    whenever versions are unique in the table (they are its primary key). *)
Lemma insert_rev_In (r : rev) l y : In y (insert_rev hash r l) <-> y = r \/ In y l.
Proof.
  induction l as [|x l IH]; simpl.
  - split; [intros [<-|[]]; auto|intros [->|[]]; auto].
  - destruct (bytes_leb (r_version r) (r_version x)); simpl.
    + split; [intros [<-|H]; auto|intros [->|H]; auto].
    + rewrite IH. split; [intros [H|[H|H]]; auto|intros [H|[H|H]]; auto].
Qed.

Lemma insert_rev_sorted (r : rev) l :
  sorted_revs l -> (forall x, In x l -> r_version x <> r_version r) -> sorted_revs (insert_rev hash r l).
Proof.
  induction 1 as [|x l Hs IH Hf]; intros Hne; simpl.
  - repeat constructor.
  - rewrite Forall_forall in Hf.
    destruct (bytes_leb (r_version r) (r_version x)) eqn:E.
    + assert (bytes_ltb (r_version r) (r_version x) = true) as L.
      { apply bytes_leb_cases in E as [L|E]; [exact L|]. exfalso. apply (Hne x); [left; reflexivity|congruence]. }
      constructor; [constructor; [exact Hs|apply Forall_forall; exact Hf]|].
      apply Forall_forall. intros y [<-|Hy]; [exact L|].
      unfold rver_lt. eapply bytes_ltb_trans; [exact L|]. apply Hf. exact Hy.
    + apply bytes_leb_false_ltb in E. constructor.
      * apply IH. intros y Hy. apply Hne. right. exact Hy.
      * apply Forall_forall. intros y Hy. apply insert_rev_In in Hy as [->|Hy]; [exact E|apply Hf; exact Hy].
Qed.

Lemma read_revisions_In (t : list rev) y : In y (read_revisions hash t) <-> In y t.
Proof.
  unfold read_revisions. induction t as [|x t IH]; simpl; [reflexivity|].
  rewrite insert_rev_In, IH. split; [intros [->|H]; auto|intros [->|H]; auto].
Qed.

Lemma read_revisions_sorted (t : list rev) :
  NoDup (map (@r_version hash) t) -> sorted_revs (read_revisions hash t).
Proof.
  unfold read_revisions. induction t as [|x t IH]; simpl; intros Hnd; [constructor|].
  inversion Hnd as [|? ? Hni Hnd']; subst. apply insert_rev_sorted; [apply IH; exact Hnd'|].
  intros y Hy E. apply Hni. rewrite <- E. apply in_map. apply read_revisions_In. exact Hy.
Qed.

End Resume.

(** * 7. explicit forms used by Props_C11.v, and the refutation witness *)

Lemma by_order_cons o s g p :
  by_order o s (g :: p) =
  match o with
  | LinearSkip => PFiles (g :: p)
  | NonLinear => PFiles (s ++ g :: p)
  | Linear => match s with [] => PFiles (g :: p) | _ => PNonLinear s (g :: p) end
  end.
Proof.
  destruct o; simpl; try reflexivity. destruct s; reflexivity.
Qed.

Lemma finish_app_nonempty s p : s <> [] -> finish (s ++ p) = PFiles (s ++ p).
Proof. destruct s; [congruence|reflexivity]. Qed.

Section Explicit.
Variable hash : Type.
Notation rev := (rev hash).

Lemma partial_first_file_explicit c all (revs : list rev) r0 g :
  sorted_files all -> sorted_revs revs -> revs <> [] -> ~ complete (last revs r0) ->
  In g all -> f_version g = r_version (last revs r0) -> f_ckpt g = false ->
  pending c all revs =
  (match c_order c with
   | LinearSkip => PFiles (g :: newer (r_version (last revs r0)) all)
   | NonLinear => PFiles (ooo_files (r_version (hd r0 revs)) (r_version (last revs r0)) revs all
                          ++ g :: newer (r_version (last revs r0)) all)
   | Linear => match ooo_files (r_version (hd r0 revs)) (r_version (last revs r0)) revs all with
               | [] => PFiles (g :: newer (r_version (last revs r0)) all)
               | _ => PNonLinear (ooo_files (r_version (hd r0 revs)) (r_version (last revs r0)) revs all)
                                 (g :: newer (r_version (last revs r0)) all)
               end
   end, None).
Proof.
  intros Hsa Hsr Hne Hp Hin Hv Hck.
  rewrite (partial_first_file hash c all revs r0 g Hsa Hsr Hne Hp Hin Hv Hck).
  rewrite by_order_cons. reflexivity.
Qed.

Lemma out_of_order_linear c all (revs : list rev) r0 :
  sorted_files all -> sorted_revs revs -> revs <> [] -> complete (last revs r0) ->
  c_order c = Linear ->
  ooo_files (r_version (hd r0 revs)) (r_version (last revs r0)) revs all <> [] ->
  pending c all revs =
  (PNonLinear (ooo_files (r_version (hd r0 revs)) (r_version (last revs r0)) revs all)
              (newer (r_version (last revs r0)) all), None).
Proof.
  intros Hsa Hsr Hne Hc Ho Hooo. rewrite (out_of_order hash c all revs r0 Hsa Hsr Hne Hc), Ho. simpl.
  destruct (ooo_files _ _ revs all); [congruence|reflexivity].
Qed.

Lemma out_of_order_nonlinear c all (revs : list rev) r0 :
  sorted_files all -> sorted_revs revs -> revs <> [] -> complete (last revs r0) ->
  c_order c = NonLinear ->
  ooo_files (r_version (hd r0 revs)) (r_version (last revs r0)) revs all <> [] ->
  pending c all revs =
  (PFiles (ooo_files (r_version (hd r0 revs)) (r_version (last revs r0)) revs all
           ++ newer (r_version (last revs r0)) all), None).
Proof.
  intros Hsa Hsr Hne Hc Ho Hooo. rewrite (out_of_order hash c all revs r0 Hsa Hsr Hne Hc), Ho. simpl.
  rewrite finish_app_nonempty by exact Hooo. reflexivity.
Qed.

End Explicit.

(** Every partially applied revision is resumed, also when it is not the greatest recorded
    version (an out-of-order file that failed in a previous non-linear run): its file is among
    the out-of-order files, which linear rejects and non-linear runs first (linear-skip skips
    them, as documented). Fixed defect C11-nonlinear-partial-not-resumed. *)
Lemma by_order_skipped_In o s p f :
  o <> LinearSkip -> In f s -> In f (result_files (by_order o s p)).
Proof.
  intros Ho H. destruct o; [|congruence|]; simpl.
  - destruct s as [|a s]; [destruct H|]. simpl. simpl in H. destruct H as [->|H]; [left; reflexivity|].
    right. apply in_or_app. left. exact H.
  - rewrite finish_files. apply in_or_app. left. exact H.
Qed.

Lemma sorted_revs_hd_min (hash : Type) (revs : list (rev hash)) r0 r :
  sorted_revs revs -> In r revs -> bytes_leb (r_version (hd r0 revs)) (r_version r) = true.
Proof.
  intros Hs Hin. destruct revs as [|a l]; [destruct Hin|]. simpl.
  destruct Hin as [<-|Hin]; [apply bytes_leb_refl|].
  inversion Hs as [|? ? _ Hf]; subst. rewrite Forall_forall in Hf. apply bytes_ltb_leb. exact (Hf r Hin).
Qed.

Lemma partial_resumed_any (hash : Type) c all (revs : list (rev hash)) r0 r g :
  sorted_files all -> sorted_revs revs -> c_order c <> LinearSkip ->
  In r revs -> ~ complete r -> In g all -> f_ckpt g = false -> f_version g = r_version r ->
  (forall k, In k all -> f_version k = r_version (last revs r0) -> f_ckpt k = false) ->
  (complete (last revs r0) \/ exists k, In k all /\ f_version k = r_version (last revs r0)) ->
  In g (result_files (fst (pending c all revs))).
Proof.
  intros Hsa Hsr Ho Hin Hp Hg Hck Hv Hnock Hex.
  assert (revs <> []) as Hne by (destruct revs; [destruct Hin|discriminate]).
  rewrite (pending_hist_spec hash c all revs r0 Hsa Hsr Hne). unfold hist_spec. cbv zeta.
  destruct (sorted_revs_last_max hash revs r0 r Hsr Hin) as [El|Lt].
  - (* r is the last revision *)
    assert (r_applied (last revs r0) =? r_total (last revs r0) = false) as ->.
    { apply Nat.eqb_neq. rewrite <- El. exact Hp. }
    rewrite <- El, <- Hv. rewrite (find_In_sorted all g Hsa Hg). rewrite Hck. cbn [fst].
    apply by_order_result_In. left. reflexivity.
  - (* r is older than the last revision: its file is out of order *)
    assert (In g (ooo_files (r_version (hd r0 revs)) (r_version (last revs r0)) revs all)) as Hooo.
    { apply (ooo_files_In hash). split; [exact Hg|]. split; [exact Hck|]. rewrite Hv.
      split; [apply sorted_revs_hd_min; assumption|]. split; [exact Lt|].
      destruct (done_rev revs (r_version r)) eqn:D; [|reflexivity]. exfalso.
      apply (done_rev_In hash) in D as (r' & Hr' & E' & C').
      assert (r' = r) as -> by (apply (sorted_revs_unique hash revs); auto). exact (Hp C'). }
    destruct (r_applied (last revs r0) =? r_total (last revs r0)) eqn:Ec.
    + cbn [fst]. apply by_order_skipped_In; assumption.
    + destruct Hex as [Hc|(k & Hk & Ek)]; [apply Nat.eqb_neq in Ec; contradiction|].
      pose proof (Hnock k Hk Ek) as Hkc. rewrite <- Ek in *.
      rewrite (find_In_sorted all k Hsa Hk). rewrite Hkc. cbn [fst].
      apply by_order_skipped_In; assumption.
Qed.

(** linear-skip skips such a file like every other out-of-order file: files 1,2,3; revisions
    1 complete, 2 partial (1/3), 3 complete. *)
Definition w_files : list file :=
  [mkFile [49%N] [[65%N]] false; mkFile [50%N] [[65%N]; [66%N]; [67%N]] false; mkFile [51%N] [[65%N]] false].
Definition w_revs : list (rev unit) :=
  [mkRev [49%N] 1 1 [] false 2%N; mkRev [50%N] 1 3 [tt] true 2%N; mkRev [51%N] 1 1 [] false 2%N].

Lemma w_files_sorted : sorted_files w_files.
Proof. unfold sorted_files, w_files, fver_lt. repeat constructor. Qed.

Lemma w_revs_sorted : sorted_revs w_revs.
Proof. unfold sorted_revs, w_revs, rver_lt. repeat constructor. Qed.

Lemma first_run_dirty_refused (hash : Type) (c : cfg) (all : list file) :
  c_dirty c = true -> c_allow_dirty c = false -> c_baseline c = None ->
  pending (hash := hash) c all [] = (PNotClean, None).
Proof. intros Hd Ha Hb. rewrite pending_first, Hd, Ha, Hb. reflexivity. Qed.

Lemma first_run_checkpoint (hash : Type) (c : cfg) :
  c_dirty c && negb (c_allow_dirty c) = false -> c_baseline c = None ->
  (forall (pre : list file) (ck : file) (rest : list file),
     f_ckpt ck = true -> (forall f, In f rest -> f_ckpt f = false) ->
     pending (hash := hash) c (pre ++ ck :: rest) [] = (PFiles (ck :: rest), None)) /\
  (forall (all : list file),
     (forall f, In f all -> f_ckpt f = false) ->
     pending (hash := hash) c all [] = (finish all, None)).
Proof.
  intros Hd Hb. split.
  - intros pre ck rest. apply first_run_from_checkpoint; assumption.
  - intros all. apply first_run_no_checkpoint; assumption.
Qed.

(** Files older than the first (smallest) revision are never named, whatever the order:
    the out-of-order window starts at [revs[0]] ("first can be set to the first checkpoint"). *)
Lemma result_not_before_first (hash : Type) c all (revs : list (rev hash)) r0 f :
  sorted_files all -> sorted_revs revs -> revs <> [] ->
  In f (result_files (fst (pending c all revs))) ->
  bytes_leb (r_version (hd r0 revs)) (f_version f) = true.
Proof.
  intros Hsa Hsr Hne Hf.
  assert (bytes_leb (r_version (hd r0 revs)) (r_version (last revs r0)) = true) as Hfl.
  { assert (In (hd r0 revs) revs) as Hin by (destruct revs; [congruence|left; reflexivity]).
    destruct (sorted_revs_last_max hash revs r0 _ Hsr Hin) as [E|L].
    - rewrite <- E. apply bytes_leb_refl.
    - apply bytes_ltb_leb. exact L. }
  rewrite (pending_hist_spec hash c all revs r0 Hsa Hsr Hne) in Hf. unfold hist_spec in Hf. cbv zeta in Hf.
  assert (forall x, In x (newer (r_version (last revs r0)) all) ->
          bytes_leb (r_version (hd r0 revs)) (f_version x) = true) as Hnew.
  { intros x Hx. apply newer_In in Hx as (_ & _ & L). apply bytes_ltb_leb.
    eapply bytes_leb_ltb_trans; eauto. }
  assert (forall x, In x (ooo_files (r_version (hd r0 revs)) (r_version (last revs r0)) revs all) ->
          bytes_leb (r_version (hd r0 revs)) (f_version x) = true) as Hooo.
  { intros x Hx. apply ooo_files_In in Hx as (_ & _ & L & _). exact L. }
  assert (forall g, bytes_eqb (f_version g) (r_version (last revs r0)) = true ->
          In f (g :: newer (r_version (last revs r0)) all) ->
          bytes_leb (r_version (hd r0 revs)) (f_version f) = true) as Hcons.
  { intros g Hg [<-|Hn]; [|apply Hnew; exact Hn]. apply bytes_eqb_eq in Hg. rewrite Hg. exact Hfl. }
  destruct (r_applied (last revs r0) =? r_total (last revs r0)).
  - simpl in Hf. apply by_order_files in Hf as [Hf|Hf]; auto.
  - destruct (find _ all) as [g|] eqn:Efind.
    + apply find_some in Efind as [_ Hg]. destruct (f_ckpt g); simpl in Hf.
      * exact (Hcons g Hg Hf).
      * apply by_order_files in Hf as [Hf|Hf]; [auto|exact (Hcons g Hg Hf)].
    + destruct (existsb _ all); simpl in Hf; destruct Hf.
Qed.
