(** C09 over the store contract: completion.  After ANY history of store runs
    (any --tx-mode, count, fault stream per run; directives), one more run
    without faults and without a count under --tx-mode none | file whose
    directives are valid completes the migration: every file's stored revision
    has Applied = Total = its statement count, Pending has nothing to do, and
    the database's journal is the whole plan (repeats bounded as before). *)
From Coq Require Import List NArith Bool Arith Lia.
From Atlas Require Import Base.Bytes Base.ListX Base.Stutter Exec.ExecModel Exec.ExecProofs Exec.StepProofs
  Exec.PendingModel Exec.PendingProofs Exec.RunModel Exec.TxModel Exec.TxProofs Exec.RunProofs
  Exec.StoreModel Exec.StoreProofs Exec.StoreTxModel Exec.StoreTxProofs Exec.StoreTxDirProofs Exec.StoreTxAllProofs.
Import ListNotations.

Section StoreComplete.
Variable hash : Type.
Variable hash_eqb : hash -> hash -> bool.
Variable HS : bytes -> hash.
Hypothesis hash_eqb_spec : forall a b, hash_eqb a b = true <-> a = b.
Notation rev := (rev hash).
Notation event := (event hash).
Notation sdb := (sdb hash).

Lemma m_history_app (a b : list m_run) (d : sdb) :
  m_history hash hash_eqb HS (a ++ b) d =
  m_history hash hash_eqb HS a d ++
  m_history hash hash_eqb HS b (m_final hash (m_history hash hash_eqb HS a d) d).
Proof.
  revert d; induction a as [|r a IH]; intros d; [reflexivity|].
  cbn [app m_history].
  destruct (cli_apply_m hash hash_eqb HS (mr_mode r) m_cfg (mr_n r) (mr_dir r) d (mr_faults r)) as [[[o d'] fs'] es].
  rewrite IH. reflexivity.
Qed.

Section Dir.
Variable all : list file.
Hypothesis Hsorted : sorted_files all.
Variable skipped : list file.
Hypothesis Hfull : sorted_files (skipped ++ all).
Hypothesis Hfresh : from_last_ckpt (skipped ++ all) = all.
Notation dir := (skipped ++ all).
Notation Inv := (Inv hash HS all).
Notation normal := (normal all).
Notation run_all := (run_all hash hash_eqb HS).
Notation GInv := (GInv hash HS all).

(** a run of the loop without faults *)
Lemma apply_files_m_clean g : g <> TxAll ->
  forall tfs (t : list rev) j0 o cd w' fs' es k a has,
  Inv t k a has -> normal k a has ->
  map tf_file tfs = firstn (length tfs) (skipn k all) ->
  (forall tf, In tf tfs -> mode_for g tf <> None) ->
  apply_files_m hash hash_eqb HS g tfs (mkSdb j0 t) None [] = (o, cd, w', fs', es) ->
  o = MDone /\ (tfs <> [] -> Inv (s_tbl cd) (k + length tfs) 0 false).
Proof.
  intros Hg. induction tfs as [|tf rest IH]; intros t j0 o cd w' fs' es k a has HI Hn Hfiles Hval Hex.
  - simpl in Hex. inversion Hex; subst. split; [reflexivity|]. intros H; contradiction.
  - cbn [map length firstn] in Hfiles.
    destruct (skipn k all) as [|f tl] eqn:Esk; [discriminate|].
    inversion Hfiles as [[Ef Erest]].
    destruct (skipn_cons_inv all k f tl Esk) as [Hnth Esk'].
    cbn [apply_files_m] in Hex.
    destruct (mode_for g tf) as [m|] eqn:Em.
    2:{ exfalso. apply (Hval tf (or_introl eq_refl)). exact Em. }
    assert (Hexec : exec_on hash hash_eqb HS tf (mkSdb j0 t) [] =
                    let '(o1, t1, fs1, es1) := execute hash hash_eqb HS f t [] in
                    (SExec o1, mkSdb (j0 ++ journal es1) t1, fs1, es1)).
    { unfold exec_on. cbn [s_tbl s_journal]. rewrite Ef, (execute_st_cases hash hash_eqb HS). cbn [pop].
      destruct (execute hash hash_eqb HS f t []) as [[[o1 t1] fs1] es1]. reflexivity. }
    cbv zeta in Hex. cbv iota in Hex. rewrite !Hexec in Hex. clear Hexec.
    destruct (execute hash hash_eqb HS f t []) as [[[o1 t1] fs1] es1] eqn:EX.
    assert (Hx : exec_files hash hash_eqb HS [f] t [] = (o1, t1, fs1, es1)).
    { rewrite exec_files_single. exact EX. }
    assert (Hf1 : [f] = firstn (length [f]) (skipn k all)) by (rewrite Esk; reflexivity).
    destruct (exec_files_inv hash hash_eqb HS hash_eqb_spec all Hsorted [f] t [] o1 t1 fs1 es1 k a has HI Hn Hf1 Hx)
      as (Hp & Hnf & Ht1).
    destruct (Hnf eq_refl) as [-> ->].
    destruct (Hp es1 [] ltac:(rewrite app_nil_r; reflexivity)) as (k1 & a1 & has1 & e1 & HI1 & _ & _ & _ & H5).
    destruct (H5 eq_refl) as [_ Hd].
    assert (Hne1 : [f] <> []) by discriminate.
    destruct (Hd eq_refl (or_introl Hne1)) as (E1 & E2 & E3 & E4). subst k1 a1 has1 e1.
    rewrite <- Ht1 in HI1. replace (k + length [f]) with (S k) in HI1 by (simpl; lia).
    assert (Hn1 : normal (S k) 0 false) by (intros H; discriminate).
    assert (Erest' : map tf_file rest = firstn (length rest) (skipn (S k) all)) by (rewrite Esk'; exact Erest).
    assert (Hval' : forall x, In x rest -> mode_for g x <> None) by (intros x Hxr; apply Hval; right; exact Hxr).
    assert (Hcont : exists o2 c2 w2 fs2 es2,
              apply_files_m hash hash_eqb HS g rest (mkSdb (j0 ++ journal es1) t1) None [] = (o2, c2, w2, fs2, es2) /\
              (o, cd, w', fs', es) = (o2, c2, w2, fs2, es1 ++ es2)).
    { destruct (apply_files_m hash hash_eqb HS g rest (mkSdb (j0 ++ journal es1) t1) None [])
        as [[[[o2 c2] w2] fs2] es2] eqn:EX2.
      exists o2, c2, w2, fs2, es2. split; [reflexivity|].
      destruct m; destruct g; try contradiction; rewrite ?EX2 in Hex; symmetry; exact Hex. }
    destruct Hcont as (o2 & c2 & w2 & fs2 & es2 & EX2 & Eres).
    inversion Eres; subst o cd w' fs' es. clear Eres Hex.
    destruct (IH t1 (j0 ++ journal es1) o2 c2 w2 fs2 es2 (S k) 0 false HI1 Hn1 Erest' Hval' EX2) as (-> & HIr).
    split; [reflexivity|]. intros _.
    destruct rest as [|x rest'].
    + simpl in EX2. inversion EX2; subst. simpl. replace (k + 1) with (S k) by lia. exact HI1.
    + replace (k + length (tf :: x :: rest')) with (S k + length (x :: rest')) by (simpl; lia).
      apply HIr. discriminate.
Qed.

Variable tdir : list tfile.
Hypothesis Htdir : map tf_file tdir = dir.

Lemma in_with_directives (chosen : list file) tf : In tf (with_directives tdir chosen) -> In tf tdir.
Proof.
  unfold with_directives. intros H. apply in_flat_map in H as (f & _ & Hf).
  apply filter_In in Hf. exact (proj1 Hf).
Qed.

(** `migrate apply` without count and without faults, --tx-mode none | file, valid directives *)
Lemma cli_apply_m_clean g (d : sdb) co d' fs' es :
  g <> TxAll -> (forall tf, In tf tdir -> mode_for g tf <> None) ->
  (exists k a has, Inv (s_tbl d) k a has) ->
  cli_apply_m hash hash_eqb HS g m_cfg 0 tdir d [] = (co, d', fs', es) ->
  Inv (s_tbl d') (length all) 0 false.
Proof.
  intros Hg Hval (k0 & a0 & has0 & HI0) Hex.
  destruct (normalize hash HS all (s_tbl d) k0 a0 has0 HI0) as (k & a & has & HI & Hn & _).
  unfold cli_apply_m in Hex. rewrite Htdir in Hex.
  unfold read_revisions_f in Hex. cbn [pop] in Hex.
  rewrite (pending_inv hash HS all Hsorted skipped Hfull Hfresh m_cfg (s_tbl d) k a has m_cfg_ok HI Hn) in Hex.
  cbn [negb] in Hex.
  destruct (skipn k all) as [|f l] eqn:Esk.
  - cbn [finish] in Hex. inversion Hex; subst. cbn [s_tbl].
    assert (length all <= k) as Hk.
    { apply (f_equal (@length _)) in Esk. rewrite skipn_length in Esk. simpl in Esk. lia. }
    pose proof HI as (Hm & _ & _ & Hlast).
    assert (k = length all) as -> by lia.
    destruct has; [simpl in Hm; lia|]. subst a. exact HI.
  - change (finish (f :: l)) with (PFiles (f :: l)) in Hex. cbv iota in Hex. cbn [pop] in Hex. cbv iota in Hex.
    change (if 0 <? 0 then firstn 0 (f :: l) else f :: l) with (f :: l) in Hex.
    set (chosen := f :: l) in *.
    assert (Hch : chosen = firstn (length chosen) (skipn k all)).
    { rewrite Esk. symmetry. apply firstn_all. }
    assert (Hincl : incl chosen (map tf_file tdir)).
    { rewrite Htdir. intros x Hx. rewrite Hch in Hx. apply in_or_app. right. eapply in_skipn. eapply in_firstn. exact Hx. }
    pose proof (with_directives_files tdir chosen (tdir_NoDup all skipped Hfull tdir Htdir) Hincl) as Hmap.
    pose proof (in_with_directives chosen) as Hsub.
    set (tfs := with_directives tdir chosen) in *.
    assert (Hlen : length tfs = length chosen) by (rewrite <- (map_length tf_file tfs), Hmap; reflexivity).
    assert (Htfs : map tf_file tfs = firstn (length tfs) (skipn k all)) by (rewrite Hmap, Hlen; exact Hch).
    assert (Hval' : forall tf, In tf tfs -> mode_for g tf <> None) by (intros tf Hin; apply Hval, Hsub, Hin).
    destruct d as [j0 t0]. cbn [s_tbl s_journal] in *.
    destruct (apply_files_m hash hash_eqb HS g tfs (mkSdb j0 t0) None [])
      as [[[[o c1] w1] fs4] es1] eqn:EX.
    destruct (apply_files_m_clean g Hg tfs t0 j0 o c1 w1 fs4 es1 k a has HI Hn Htfs Hval' EX) as (-> & HIf).
    assert (Hne : tfs <> []).
    { intros E0. rewrite E0 in Hlen. simpl in Hlen. unfold chosen in Hlen. simpl in Hlen. lia. }
    specialize (HIf Hne).
    assert (k + length tfs = length all) as Ek.
    { rewrite Hlen, <- Esk, skipn_length.
      assert (k < length all).
      { destruct (Nat.lt_ge_cases k (length all)) as [H|H]; [exact H|].
        rewrite skipn_length_ge in Esk by exact H. discriminate. }
      lia. }
    rewrite Ek in HIf.
    destruct w1 as [wd|].
    + destruct (apply_files_m_dir_sim hash hash_eqb HS hash_eqb_spec all Hsorted skipped Hfull Hfresh g m_cfg Hg m_cfg_ok
                  tfs t0 j0 [] MDone c1 (Some wd) fs4 es1 k a has HI Hn Htfs EX) as (Hw & _). discriminate Hw.
    + inversion Hex; subst. exact HIf.
Qed.

Definition clean_run (g : mode) : m_run := mkMRun g 0 tdir [].

Lemma complete_store_lemma (rs : list m_run) g :
  Forall (mrun_any_ok tdir) rs ->
  g <> TxAll -> (forall tf, In tf tdir -> mode_for g tf <> None) ->
  let outs := m_history hash hash_eqb HS (rs ++ [clean_run g]) (mkSdb [] []) in
  let Dn := m_final hash outs (mkSdb [] []) in
  (exists reps, length reps = length (plan all) /\
                s_journal Dn = expand (plan all) reps /\ list_sum reps <= m_wf hash outs) /\
  (forall f, In f all -> exists r, tbl_get (s_tbl Dn) (f_version f) = Some r /\
                                   r_applied r = length (f_stmts f) /\ r_total r = length (f_stmts f)) /\
  (forall c', cfg_ok c' -> pending c' dir (read_revisions hash (s_tbl Dn)) = (PNoPending, None)).
Proof.
  intros Hok Hg Hval outs Dn.
  (* the state before the clean run satisfies the invariant *)
  destruct (m_history_any_sim hash hash_eqb HS hash_eqb_spec all Hsorted skipped Hfull Hfresh tdir Htdir
              rs (mkSdb [] []) [] 0 Hok (GInv_nil hash HS all)) as (irs & Hoki & Hft & _).
  destruct (runs_ginv hash hash_eqb HS hash_eqb_spec all Hsorted skipped Hfull Hfresh irs [] [] 0 Hoki (GInv_nil hash HS all))
    as (HG1 & _).
  cbn [s_tbl] in Hft. rewrite Hft in HG1.
  set (d1 := m_final hash (m_history hash hash_eqb HS rs (mkSdb [] [])) (mkSdb [] [])) in *.
  assert (HIe : exists k a has, Inv (s_tbl d1) k a has).
  { destruct HG1 as (k & a & has & e & dd & HI & _). eauto. }
  assert (HIn : Inv (s_tbl Dn) (length all) 0 false).
  { unfold Dn, outs. rewrite m_history_app. fold d1. unfold m_final at 1. rewrite fold_left_app.
    fold (m_final hash (m_history hash hash_eqb HS rs (mkSdb [] [])) (mkSdb [] [])). fold d1.
    cbn [m_history clean_run mr_mode mr_n mr_dir mr_faults].
    destruct (cli_apply_m hash hash_eqb HS g m_cfg 0 tdir d1 []) as [[[co d'] fs'] es] eqn:EX.
    cbn [fold_left fst snd].
    exact (cli_apply_m_clean g d1 co d' fs' es Hg Hval HIe EX). }
  assert (Hok' : Forall (mrun_any_ok tdir) (rs ++ [clean_run g])).
  { apply Forall_app. split; [exact Hok|]. constructor; [reflexivity|constructor]. }
  destruct (resume_store_any_lemma hash hash_eqb HS hash_eqb_spec all Hsorted skipped Hfull Hfresh tdir Htdir _ Hok')
    as (P & E & reps & H1 & H2 & H3 & H4 & H5 & H6 & H7).
  fold outs in H5, H6, H7. fold Dn in H5, H7.
  rewrite (Inv_claimed hash HS all Hsorted (s_tbl Dn) (length all) 0 false HIn) in H7.
  rewrite (pos_all all), (upto_all all) in H7.
  assert (length (plan all) <= P) as HP.
  { apply (f_equal (@length _)) in H7. rewrite firstn_length in H7. lia. }
  assert (E = length (plan all)) as EE by lia.
  split; [|split].
  - exists reps. rewrite EE in H4, H5. rewrite firstn_all in H5. repeat split; assumption.
  - intros f Hin. apply In_nth_error in Hin as [i Hi].
    assert (i < length all) as Hlt by (apply nth_error_Some; congruence).
    destruct HIn as (_ & _ & Hrows & _). destruct (Hrows i f Hlt Hi) as (r & Hgt & (_ & Hap & _) & Ht).
    exists r. auto.
  - intros c' Hc'.
    rewrite (pending_inv hash HS all Hsorted skipped Hfull Hfresh c' (s_tbl Dn) (length all) 0 false Hc' HIn)
      by (intros H; discriminate).
    rewrite skipn_all. reflexivity.
Qed.

End Dir.

Section Full.
Variable tfull : list tfile.
Hypothesis Hfs : sorted_files (map tf_file tfull).
Notation all := (from_last_ckpt (map tf_file tfull)).

Lemma complete_store_full (rs : list m_run) g :
  Forall (mrun_any_on tfull) rs ->
  g <> TxAll -> (forall tf, In tf tfull -> mode_for g tf <> None) ->
  let outs := m_history hash hash_eqb HS (rs ++ [mkMRun g 0 tfull []]) (mkSdb [] []) in
  let Dn := m_final hash outs (mkSdb [] []) in
  (exists reps, length reps = length (plan all) /\
                s_journal Dn = expand (plan all) reps /\ list_sum reps <= m_wf hash outs) /\
  (forall f, In f all -> exists r, tbl_get (s_tbl Dn) (f_version f) = Some r /\
                                   r_applied r = length (f_stmts f) /\ r_total r = length (f_stmts f)) /\
  (forall c', cfg_ok c' -> pending c' (map tf_file tfull) (read_revisions hash (s_tbl Dn)) = (PNoPending, None)).
Proof.
  intros Hok Hg Hval. destruct (full_split (map tf_file tfull) Hfs) as (sk & Efull & Hs1 & Hs2 & Hfr).
  pose proof (complete_store_lemma all Hs1 sk Hs2 Hfr tfull Efull rs g Hok Hg Hval) as H.
  unfold clean_run in H. rewrite <- Efull in H. exact H.
Qed.

End Full.
End StoreComplete.
