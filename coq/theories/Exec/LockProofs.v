(** Proofs about M-LOCK (Exec/LockModel.v). *)
From Coq Require Import List NArith Bool Arith Lia.
From Atlas Require Import Base.Bytes Exec.ExecModel Exec.PendingModel Exec.RunModel Exec.TxModel Exec.LockModel.
Import ListNotations.

Lemma lock_valid_taken : forall now timeout e,
  (now < e)%N -> lock now timeout (Some (Some e)) = (LTaken, Some (Some e)).
Proof.
  intros now timeout e H. unfold lock, lock_check.
  apply N.ltb_lt in H. rewrite H. reflexivity.
Qed.

Lemma lock_expired_acquired : forall now timeout e,
  (e <= now)%N -> lock now timeout (Some (Some e)) = (LAcquired, Some (Some (now + timeout)%N)).
Proof.
  intros now timeout e H. unfold lock, lock_check.
  apply N.ltb_ge in H. rewrite H. reflexivity.
Qed.

Lemma lock_invalid : forall now timeout, lock now timeout (Some None) = (LInvalid, Some None).
Proof. reflexivity. Qed.

Lemma lock_free : forall now timeout, lock now timeout None = (LAcquired, Some (Some (now + timeout)%N)).
Proof. reflexivity. Qed.

(** Lock as a whole: acquired iff there is no file or a file with a past expiry. *)
Lemma lock_spec : forall now timeout l,
  match l with
  | None => lock now timeout l = (LAcquired, Some (Some (now + timeout)%N))
  | Some None => lock now timeout l = (LInvalid, l)
  | Some (Some e) =>
      ((now < e)%N /\ lock now timeout l = (LTaken, l)) \/
      ((e <= now)%N /\ lock now timeout l = (LAcquired, Some (Some (now + timeout)%N)))
  end.
Proof.
  intros now timeout [[e|]|]; try reflexivity.
  destruct (N.lt_ge_cases now e) as [H|H].
  - left. split; [exact H|]. apply lock_valid_taken; exact H.
  - right. split; [exact H|]. apply lock_expired_acquired; exact H.
Qed.

Section LockP.
Variable hash : Type.
Variable hash_eqb : hash -> hash -> bool.
Variable HS : bytes -> hash.
Notation db := (db hash).
Notation locked_apply := (locked_apply hash hash_eqb HS).
Notation apply_run := (apply_run hash hash_eqb HS).

(** A process that does not get the lock changes nothing: neither the database nor the lock file. *)
Lemma locked_apply_blocked : forall now timeout cr g n dir l (d : db),
  fst (lock now timeout l) <> LAcquired ->
  (locked_apply now timeout cr g n dir (l, d) = (CLockTaken, (l, d)) /\ fst (lock now timeout l) = LTaken) \/
  (locked_apply now timeout cr g n dir (l, d) = (CLockInvalid, (l, d)) /\ l = Some None).
Proof.
  intros now timeout cr g n dir l d H. unfold LockModel.locked_apply.
  destruct l as [[e|]|]; cbn in *.
  - unfold lock, lock_check in *. destruct (now <? e)%N; cbn in *; [left; split; reflexivity|congruence].
  - right. split; reflexivity.
  - congruence.
Qed.

(** While a lock file with a future expiry exists no other process runs. *)
Lemma locked_apply_excluded : forall now timeout cr g n dir e (d : db),
  (now < e)%N ->
  locked_apply now timeout cr g n dir (Some (Some e), d) = (CLockTaken, (Some (Some e), d)).
Proof.
  intros. unfold LockModel.locked_apply. rewrite lock_valid_taken by assumption. reflexivity.
Qed.

(** A process that got the lock and is not killed: it is the apply run, and the lock file is
    gone afterwards whatever the outcome (success, statement error, directive error, nothing
    pending). *)
Lemma locked_apply_releases : forall now timeout g n dir l (d : db),
  fst (lock now timeout l) = LAcquired ->
  forall o d' tr, apply_run g n dir d = (o, d', tr) ->
  locked_apply now timeout CNo g n dir (l, d) = (CRan o, (None, d')).
Proof.
  intros now timeout g n dir l d H o d' tr Hr. unfold LockModel.locked_apply.
  destruct (lock now timeout l) as [r l1]. cbn in H. subst r. rewrite Hr. reflexivity.
Qed.

(** A process killed at a crash point of the run leaves the committed state of that point AND
    its lock file, valid until now + timeout. *)
Lemma locked_apply_crash : forall now timeout g n dir l (d : db) pt k,
  fst (lock now timeout l) = LAcquired ->
  forall o d' tr dc, apply_run g n dir d = (o, d', tr) ->
  crash_state hash tr pt k = Some dc ->
  locked_apply now timeout (CAt pt k) g n dir (l, d) = (CCrashed, (Some (Some (now + timeout)%N), dc)).
Proof.
  intros now timeout g n dir l d pt k H o d' tr dc Hr Hc. unfold LockModel.locked_apply.
  pose proof (lock_spec now timeout l) as Hs.
  destruct l as [[e|]|].
  - destruct Hs as [[_ Hs]|[_ Hs]]; rewrite Hs in *; cbn in H; [discriminate|].
    rewrite Hr, Hc. reflexivity.
  - rewrite Hs in H. discriminate.
  - rewrite Hs. rewrite Hr, Hc. reflexivity.
Qed.

(** The re-run after such a crash: refused, changing nothing, as long as the dead process's
    lock has not expired; from the expiry on it IS the apply run from the crashed state (so the
    re-run theorems of C10 apply to it) and the lock file is gone afterwards. *)
Lemma rerun_after_crash : forall now timeout dc now' timeout' g n dir,
  ((now' < now + timeout)%N ->
     forall cr, locked_apply now' timeout' cr g n dir (Some (Some (now + timeout)%N), dc)
                = (CLockTaken, (Some (Some (now + timeout)%N), dc))) /\
  ((now + timeout <= now')%N ->
     forall o d' tr, apply_run g n dir dc = (o, d', tr) ->
     locked_apply now' timeout' CNo g n dir (Some (Some (now + timeout)%N), dc) = (CRan o, (None, d'))).
Proof.
  intros. split.
  - intros H cr. apply locked_apply_excluded. exact H.
  - intros H o d' tr Hr. eapply locked_apply_releases; [|exact Hr].
    rewrite lock_expired_acquired by exact H. reflexivity.
Qed.

(** Killed between os.Create and Write: the lock file is empty, and every later process, at
    any time, with any timeout, is refused and changes nothing. *)
Lemma crash_in_acquire_blocks_forever : forall now timeout g n dir l (d : db),
  fst (lock now timeout l) = LAcquired ->
  locked_apply now timeout CInAcquire g n dir (l, d) = (CCrashed, (Some None, d)) /\
  forall now' timeout' cr g' n' dir',
    locked_apply now' timeout' cr g' n' dir' (Some None, d) = (CLockInvalid, (Some None, d)).
Proof.
  intros now timeout g n dir l d H. split.
  - unfold LockModel.locked_apply. destruct (lock now timeout l) as [r l1]. cbn in H. subst r.
    destruct (apply_run g n dir d) as [[o d'] tr]. reflexivity.
  - intros. reflexivity.
Qed.

(** Two processes: as long as B starts before A's lock expires, B is refused, and the result is
    A's run alone. *)
Lemma concurrent_excluded : forall tA TA tB TB pt k n dir (d0 : db) o dA tr dc,
  (tB < tA + TA)%N ->
  apply_run TxNone n dir d0 = (o, dA, tr) ->
  crash_state hash tr pt k = Some dc ->
  concurrent_apply hash hash_eqb HS tA TA tB TB pt k n dir d0 = Some (CRan o, CLockTaken, (None, dA)).
Proof.
  intros tA TA tB TB pt k n dir d0 o dA tr dc H Hr Hc. unfold concurrent_apply.
  rewrite Hr, Hc. unfold acquire_written. rewrite locked_apply_excluded by exact H. reflexivity.
Qed.

(** ... and once it has expired B is a whole apply run from the state A has committed so far. *)
Lemma concurrent_expired : forall tA TA tB TB pt k n dir (d0 : db) o dA tr dc oB dB trB,
  (tA + TA <= tB)%N ->
  apply_run TxNone n dir d0 = (o, dA, tr) ->
  crash_state hash tr pt k = Some dc ->
  apply_run TxNone n dir dc = (oB, dB, trB) ->
  concurrent_apply hash hash_eqb HS tA TA tB TB pt k n dir d0
  = Some (CUnlockErr o, CRan oB, (None, interleave_none hash dA dc dB)).
Proof.
  intros tA TA tB TB pt k n dir d0 o dA tr dc oB dB trB H Hr Hc HB. unfold concurrent_apply.
  rewrite Hr, Hc. unfold acquire_written.
  erewrite locked_apply_releases; [reflexivity| |exact HB].
  rewrite lock_expired_acquired by exact H. reflexivity.
Qed.

End LockP.
