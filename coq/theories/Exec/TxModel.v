(** M-TX: the transaction multiplexer of `atlas migrate apply`
    (cmd/atlas/internal/cmdapi/migrate.go: tx.driverFor / modeFor / txmodeFor /
    mayRollback / mayCommit / commit; migrate_oss.go: the migrateApplyRun loop)
    on top of M-EXEC and M-PEND.

    A database is its committed state (journal = the effects of the migration
    statements, in order; revision table) plus an optional open transaction
    (a working copy). The run emits a trace of crash points, each paired with
    the committed state at that instant: a crash at that point leaves exactly
    that state (the open transaction is discarded, deferred actions are
    skipped). Assumed of the engine, not modelled: a transaction is atomic,
    and durable once Commit returned.

    Statements that fail do so deterministically ([tf_bad] = index of the
    failing statement), which is what `--tx-mode` failure atomicity (C13) is
    about. No proofs here. *)
From Coq Require Import List NArith Bool Arith.
From Atlas Require Import Base.Bytes Exec.ExecModel Exec.PendingModel Exec.RunModel.
Import ListNotations.

Inductive mode := TxNone | TxFile | TxAll.
Inductive point := BeforeExec | AfterExec | BeforeWrite | AfterWrite | BeforeCommit | AfterCommit.

Section Tx.
Variable hash : Type.
Variable hash_eqb : hash -> hash -> bool.
Variable HS : bytes -> hash.
Notation rev := (rev hash).
Notation event := (event hash).

Record db := mkDb { d_journal : list bytes; d_tbl : list rev }.

Record tfile := mkTfile {
  tf_file : file;
  tf_directive : option (option mode);  (* None: no txmode directive; Some None: invalid value; Some (Some m) *)
  tf_bad : option nat                   (* index of the statement that fails, if any *)
}.

Definition mode_eqb (a b : mode) : bool :=
  match a, b with TxNone, TxNone | TxFile, TxFile | TxAll, TxAll => true | _, _ => false end.

(** tx.modeFor + txmodeFor: [None] = error. *)
Definition mode_for (global : mode) (f : tfile) : option mode :=
  match tf_directive f with
  | None => Some global
  | Some None => None                     (* unknown txmode value *)
  | Some (Some TxAll) => None             (* "all" is not allowed in a file directive *)
  | Some (Some m) =>
      if mode_eqb m global then Some global
      else match global with TxAll => None | _ => Some m end
  end.

(** Fault stream that makes exactly statement number [bad] fail when the file
    is (re)started at statement [a]: calls are write, (exec, write)*, final write. *)
Fixpoint bad_faults_from (n a : nat) (bad : option nat) : list bool :=
  match n with
  | O => []
  | S n' =>
      match bad with
      | Some b => if a =? b then [true] else false :: false :: bad_faults_from n' (S a) bad
      | None => []
      end
  end.
Definition bad_faults (f : tfile) (a : nat) : list bool :=
  false :: bad_faults_from (length (f_stmts (tf_file f)) - a) a (tf_bad f).

Definition apply_event (d : db) (e : event) : db :=
  match e with
  | EExec _ _ s true => mkDb (d_journal d ++ [s]) (d_tbl d)
  | EWrite r true => mkDb (d_journal d) (tbl_put (d_tbl d) r)
  | _ => d
  end.

Definition before_point (e : event) : point :=
  match e with EExec _ _ _ _ => BeforeExec | EWrite _ _ => BeforeWrite end.
Definition after_point (e : event) : point :=
  match e with EExec _ _ _ _ => AfterExec | EWrite _ _ => AfterWrite end.
Definition event_ok (e : event) : bool :=
  match e with EExec _ _ _ ok => ok | EWrite _ ok => ok end.

(** Events applied directly to the committed state (tx-mode none). *)
Fixpoint run_direct (es : list event) (d : db) : db * list (point * db) :=
  match es with
  | [] => (d, [])
  | e :: es' =>
      let d' := apply_event d e in
      let '(d'', tr) := run_direct es' d' in
      (d'', (before_point e, d) :: (if event_ok e then [(after_point e, d')] else []) ++ tr)
  end.

(** Events applied to the working copy of an open transaction: the committed
    state [c] does not move. *)
Fixpoint run_in_tx (es : list event) (w : db) (c : db) : db * list (point * db) :=
  match es with
  | [] => (w, [])
  | e :: es' =>
      let w' := apply_event w e in
      let '(w'', tr) := run_in_tx es' w' c in
      (w'', (before_point e, c) :: (if event_ok e then [(after_point e, c)] else []) ++ tr)
  end.

Inductive aoutcome :=
| ADone
| AFail (o : outcome)       (* Execute returned an error *)
| ADirective                (* invalid / conflicting txmode directive *)
| APend (p : presult).      (* Pending returned an error (incl. nothing to do) *)

Definition stored_applied (t : list rev) (v : bytes) : nat :=
  match tbl_get t v with Some r => r_applied r | None => 0 end.

(** The loop of migrateApplyRun over the pending files. *)
Fixpoint apply_loop (global : mode) (files : list tfile) (c : db) (w : option db)
  : aoutcome * db * option db * list (point * db) :=
  match files with
  | [] => (ADone, c, w, [])
  | f :: rest =>
      match mode_for global f with
      | None => (ADirective, c, w, [])
      | Some TxNone =>
          let '(o, _, _, es) := execute hash hash_eqb HS (tf_file f) (d_tbl c)
                                        (bad_faults f (stored_applied (d_tbl c) (f_version (tf_file f)))) in
          let '(c', tr) := run_direct es c in
          match o with
          | ODone =>
              let '(o2, c2, w2, tr2) := apply_loop global rest c' w in
              (o2, c2, w2, tr ++ tr2)
          | _ => (AFail o, c', w, tr)    (* mayRollback: only an open transaction is rolled back *)
          end
      | Some m =>
          (* file: a new transaction per file; all: reuse the open one *)
          let w0 := match w with Some x => x | None => c end in
          let '(o, _, _, es) := execute hash hash_eqb HS (tf_file f) (d_tbl w0)
                                        (bad_faults f (stored_applied (d_tbl w0) (f_version (tf_file f)))) in
          let '(w1, tr) := run_in_tx es w0 c in
          match o with
          | ODone =>
              match m with
              | TxFile =>
                  (* mayCommit *)
                  let '(o2, c2, w2, tr2) := apply_loop global rest w1 None in
                  (o2, c2, w2, tr ++ [(BeforeCommit, c); (AfterCommit, w1)] ++ tr2)
              | _ =>
                  let '(o2, c2, w2, tr2) := apply_loop global rest c (Some w1) in
                  (o2, c2, w2, tr ++ tr2)
              end
          | _ => (AFail o, c, None, tr)   (* rollback *)
          end
      end
  end.

(** One `migrate apply [n]` invocation (no baseline, database flagged dirty
    is allowed: the harness passes --allow-dirty because the journal table
    pre-exists). Returns the outcome, the committed state when the process
    ends normally, and the crash trace. *)
Definition apply_run (global : mode) (n : nat) (dir : list tfile) (c : db)
  : aoutcome * db * list (point * db) :=
  let all := map tf_file dir in
  let cfg := mkCfg Linear None true true in
  match fst (pending cfg all (read_revisions hash (d_tbl c))) with
  | PFiles p =>
      let chosen := if 0 <? n then firstn n p else p in
      let tchosen := flat_map (fun f => filter (fun tf => bytes_eqb (f_version (tf_file tf)) (f_version f)) dir) chosen in
      let '(o, c1, w, tr) := apply_loop global tchosen c None in
      match o, w with
      | ADone, Some wd => (ADone, wd, tr ++ [(BeforeCommit, c1); (AfterCommit, wd)])
      | _, _ => (o, c1, tr)             (* an open transaction is never committed: rolled back on close *)
      end
  | p => (APend p, c, [])
  end.

(** State left by a crash at the [k]-th (1-based) occurrence of point [pt]:
    [None] if the run never reaches it. *)
Fixpoint crash_state (tr : list (point * db)) (pt : point) (k : nat) : option db :=
  match tr with
  | [] => None
  | (p, d) :: tr' =>
      let same := match p, pt with
                  | BeforeExec, BeforeExec | AfterExec, AfterExec | BeforeWrite, BeforeWrite
                  | AfterWrite, AfterWrite | BeforeCommit, BeforeCommit | AfterCommit, AfterCommit => true
                  | _, _ => false end in
      if same then match k with
                   | 1 => Some d
                   | _ => crash_state tr' pt (k - 1)
                   end
      else crash_state tr' pt k
  end.

End Tx.

Arguments mkDb {hash}.
Arguments d_journal {hash}.
Arguments d_tbl {hash}.
