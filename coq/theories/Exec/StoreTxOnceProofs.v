(** C09 over the store contract: exactly once.  When no revisions upsert fails in
    any run (statements and revisions SELECTs may fail anywhere, any number of
    times, transactions may be rolled back), the database's journal after the
    completing run IS the plan: every statement exactly once, in order. *)
From Coq Require Import List NArith Bool Arith Lia.
From Atlas Require Import Base.Bytes Base.ListX Base.Stutter Exec.ExecModel Exec.ExecProofs Exec.StepProofs
  Exec.PendingModel Exec.PendingProofs Exec.RunModel Exec.TxModel Exec.TxProofs Exec.RunProofs
  Exec.StoreModel Exec.StoreTxModel Exec.StoreTxProofs Exec.StoreTxDirProofs Exec.StoreTxAllProofs Exec.StoreTxCompleteProofs.
Import ListNotations.

Lemma expand_zero {A} (p : list A) : forall reps,
  length reps = length p -> list_sum reps = 0 -> expand p reps = p.
Proof.
  induction p as [|x p IH]; intros [|r reps] Hl Hs; simpl in *; try discriminate; [reflexivity|].
  assert (r = 0) as -> by lia. unfold expand in *. simpl. f_equal. apply IH; lia.
Qed.

Section StoreOnce.
Variable hash : Type.
Variable hash_eqb : hash -> hash -> bool.
Variable HS : bytes -> hash.
Hypothesis hash_eqb_spec : forall a b, hash_eqb a b = true <-> a = b.
Notation event := (event hash).
Notation sdb := (sdb hash).

Lemma m_wf_no_wfail (outs : list (cx_outcome * sdb * list event)) :
  (forall out r, In out outs -> ~ In (EWrite r false) (snd out)) -> m_wf hash outs = 0.
Proof.
  induction outs as [|x outs IH]; intros H; [reflexivity|].
  unfold m_wf in *. simpl. rewrite IH by (intros out r Hin; apply H; right; exact Hin).
  unfold wf. rewrite (wf_from_no_wfail hash false (snd x)); [reflexivity|].
  intros r. apply H. left. reflexivity.
Qed.

Variable tfull : list tfile.
Hypothesis Hfs : sorted_files (map tf_file tfull).
Notation all := (from_last_ckpt (map tf_file tfull)).

Lemma exactly_once_store_full (rs : list m_run) g :
  Forall (mrun_any_on tfull) rs ->
  g <> TxAll -> (forall tf, In tf tfull -> mode_for g tf <> None) ->
  let outs := m_history hash hash_eqb HS (rs ++ [mkMRun g 0 tfull []]) (mkSdb [] []) in
  (forall out r, In out outs -> ~ In (EWrite r false) (snd out)) ->
  s_journal (m_final hash outs (mkSdb [] [])) = plan all.
Proof.
  intros Hok Hg Hval outs Hnw.
  destruct (complete_store_full hash hash_eqb HS hash_eqb_spec tfull Hfs rs g Hok Hg Hval)
    as ((reps & Hl & Hj & Hs) & _).
  fold outs in Hj, Hs. rewrite (m_wf_no_wfail outs Hnw) in Hs.
  rewrite Hj. apply expand_zero; [exact Hl|lia].
Qed.

End StoreOnce.
