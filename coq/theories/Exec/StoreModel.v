(** M-STORE: the storage layer between [Executor.Execute] and the database, as
    the CLI runs it: [EntRevisions] of cmd/atlas/internal/migrate/migrate.go
    ([ReadRevision], [ReadRevisions], [WriteRevision]) and the apply loop of
    cmd/atlas/internal/cmdapi/migrate_oss.go ([migrateApplyRun]) with the
    [tx] multiplexer of cmdapi/migrate.go (modes none / file).

    The store is a table of rows keyed by version ([ExecModel.tbl_get] /
    [tbl_put]).  Every call that reaches the database pops one boolean from the
    fault stream ([true] = the statement fails with an ordinary error):

    - [ReadRevision] = [Revision.Get]: the exact row, or [ErrRevisionNotExist]
      when ent reports NotFound, or the error itself for any other failure;
    - [ReadRevisions] = [Query().Order(ByID()).All]: all rows ordered by
      version, or the error;
    - [WriteRevision] = [Create().SetRevision(rev).OnConflict(version).
      UpdateNewValues()]: an upsert that overwrites every modelled column
      (applied, total, partial_hashes, error, type) of the row -- it is
      [ExecModel.write] ([tbl_put]); a failing upsert leaves the row as it was.

    [execute_rd] is [Executor.Execute] with the result of its [ReadRevision]
    call made a parameter; [execute_rd f (tbl_get t v) t fs] is [execute f t fs]
    (StoreProofs.execute_rd_get, by reflexivity).  This file contains no proofs. *)
From Coq Require Import List NArith Bool Arith.
From Atlas Require Import Base.Bytes Exec.ExecModel Exec.PendingModel Exec.RunModel.
Import ListNotations.

Section Store.
Variable hash : Type.
Variable hash_eqb : hash -> hash -> bool.
Variable HS : bytes -> hash.
Notation rev := (rev hash).
Notation event := (event hash).

(** ** EntRevisions *)
Inductive read_result :=
| RdRow (r : rev)     (* the stored row, all columns *)
| RdNotExist          (* migrate.ErrRevisionNotExist *)
| RdError.            (* any other error of the SELECT *)

(** [EntRevisions.ReadRevision]:
      rev, err := r.ec.Revision.Get(ctx, v)
      if err != nil && !ent.IsNotFound(err) { return nil, err }
      if ent.IsNotFound(err) { return nil, migrate.ErrRevisionNotExist }
      return rev.AtlasRevision(), nil *)
Definition read_revision (t : list rev) (fs : list bool) (v : bytes) : read_result * list bool :=
  let '(fail, fs') := pop fs in
  if fail then (RdError, fs')
  else (match tbl_get t v with Some r => RdRow r | None => RdNotExist end, fs').

(** [EntRevisions.ReadRevisions]: ordered by version. *)
Definition read_revisions_f (t : list rev) (fs : list bool) : option (list rev) * list bool :=
  let '(fail, fs') := pop fs in
  if fail then (None, fs') else (Some (read_revisions hash t), fs').

(** ** [Executor.Execute] (sql/migrate/migrate.go) after its ReadRevision call.
    [rd]: [Some r] = the revision read, [None] = ErrRevisionNotExist.
    Same text as [ExecModel.execute], whose [r0] is [tbl_get t v]. *)
Definition execute_rd (f : file) (rd : option rev) (t : list rev) (fs : list bool)
  : outcome * list rev * list bool * list event :=
  let stmts := f_stmts f in
  let sm := sums hash HS stmts in
  let v := f_version f in
  let r0 := match rd with Some r => r | None => new_rev v (length stmts) end in
  let '(ok, t1, fs1, e1) := write t fs r0 in
  if negb ok then (OWriteErr, t1, fs1, [e1]) else
  match (if 0 <? r_applied r0 then check_loop hash hash_eqb (r_applied r0) 0 sm (r_hashes r0) else Some None) with
  | None => (OPanic, t1, fs1, [e1])
  | Some (Some i) =>
      let '(_, t2, fs2, e2) := write t1 fs1 r0 in
      (OHistory (S i), t2, fs2, [e1; e2])
  | Some None =>
      let r1 := set_total r0 (length stmts) in
      if length stmts <? r_applied r1 then (OPanic, t1, fs1, [e1]) else
      let '(o, r2, t2, fs2, es) :=
        run_stmts hash v (skipn (r_applied r1) stmts) (skipn (r_applied r1) sm) r1 t1 fs1 in
      match o with
      | OWriteErr | OPanic | OHistory _ => (o, t2, fs2, e1 :: es)
      | OStmtErr =>
          let '(_, t3, fs3, e3) := write t2 fs2 r2 in
          (OStmtErr, t3, fs3, e1 :: es ++ [e3])
      | ODone =>
          let r3 := set_hashes r2 [] in
          let '(ok3, t3, fs3, e3) := write t2 fs2 r3 in
          ((if ok3 then ODone else OWriteErr), t3, fs3, e1 :: es ++ [e3])
      end
  end.

(** Outcome of [Execute] over the store. *)
Inductive st_outcome :=
| SReadErr                 (* "sql/migrate: read revision: ..." -- returned before anything else happens *)
| SExec (o : outcome).

(** [Executor.Execute] over [EntRevisions]:
      r, err := e.rrw.ReadRevision(ctx, version)
      if err != nil && !errors.Is(err, ErrRevisionNotExist) { return fmt.Errorf("sql/migrate: read revision: %w", err) }
      if errors.Is(err, ErrRevisionNotExist) { r = &Revision{...} } ... *)
Definition execute_st (f : file) (t : list rev) (fs : list bool)
  : st_outcome * list rev * list bool * list event :=
  let '(rr, fs0) := read_revision t fs (f_version f) in
  match rr with
  | RdError => (SReadErr, t, fs0, [])
  | RdRow r => let '(o, t', fs', es) := execute_rd f (Some r) t fs0 in (SExec o, t', fs', es)
  | RdNotExist => let '(o, t', fs', es) := execute_rd f None t fs0 in (SExec o, t', fs', es)
  end.

(** ** the loop [for _, f := range pending] of migrateApplyRun.
    [txfile = false]: --tx-mode none, every statement and revision write is final.
    [txfile = true]: --tx-mode file: [driverFor] opens a transaction per file,
    [mayRollback] rolls it back when Execute returns an error (the table is
    what it was before the file, the statements of that file are undone),
    [mayCommit] commits it otherwise.
    Result: outcome, table, faults left, all events (also those rolled back),
    and the committed journal. *)
Fixpoint apply_files (txfile : bool) (files : list file) (t : list rev) (fs : list bool)
  : st_outcome * list rev * list bool * list event * list (bytes * bytes) :=
  match files with
  | [] => (SExec ODone, t, fs, [], [])
  | f :: rest =>
      let '(o, t1, fs1, es) := execute_st f t fs in
      match o with
      | SExec ODone =>
          let '(o', t2, fs2, es', j') := apply_files txfile rest t1 fs1 in
          (o', t2, fs2, es ++ es', journal es ++ j')
      | _ => if txfile then (o, t, fs1, es, []) else (o, t1, fs1, es, journal es)
      end
  end.

(** Result of one `atlas migrate apply`. *)
Inductive cli_outcome :=
| CReadErr                  (* one of the two ReadRevisions calls failed *)
| CPend (p : presult)       (* Pending's error or ErrNoPendingFiles ("No migration files to execute", exit 0) *)
| CRun (o : st_outcome).

(** [migrateApplyRun] from [ex.Pending] on (the table exists, [Migrate] has run):
      pending, err := ex.Pending(ctx)            -- ReadRevisions (1)
      if err != nil && !errors.Is(err, ErrNoPendingFiles) { return err }
      applied, err := rrw.ReadRevisions(ctx)     -- ReadRevisions (2)
      if err != nil { return err }
      if noPending { ...; return mr.Done }
      pending = pending[:count]; for _, f := range pending { ... }
    No baseline in this model ([c_baseline c = None] is what the harness uses);
    a baseline write requested by [pending] is performed like [execute_n] does. *)
Definition cli_apply (txfile : bool) (c : cfg) (n : nat) (all : list file) (t : list rev) (fs : list bool)
  : cli_outcome * list rev * list bool * list event * list (bytes * bytes) :=
  let '(r1, fs1) := read_revisions_f t fs in
  match r1 with
  | None => (CReadErr, t, fs1, [], [])
  | Some revs =>
      let '(p, w) := pending c all revs in
      let '(wok, t1, fs2, ev1) :=
        match w with
        | None => (true, t, fs1, [])
        | Some r => let '(ok, t', fs', e) := write t fs1 r in (ok, t', fs', [e])
        end in
      if negb wok then (CPend PWriteErr, t1, fs2, ev1, []) else
      match p with
      | PFiles files =>
          let '(r2, fs3) := read_revisions_f t1 fs2 in
          match r2 with
          | None => (CReadErr, t1, fs3, ev1, [])
          | Some _ =>
              let chosen := if 0 <? n then firstn n files else files in
              let '(o, t2, fs4, es, j) := apply_files txfile chosen t1 fs3 in
              (CRun o, t2, fs4, ev1 ++ es, j)
          end
      | PNoPending =>
          let '(r2, fs3) := read_revisions_f t1 fs2 in
          match r2 with
          | None => (CReadErr, t1, fs3, ev1, [])
          | Some _ => (CPend PNoPending, t1, fs3, ev1, [])
          end
      | _ => (CPend p, t1, fs2, ev1, [])
      end
  end.

(** A history of `migrate apply --allow-dirty [--exec-order o]` runs; the directory may change between runs. *)
Record cli_run := mkCliRun { cr_txfile : bool; cr_order : order; cr_dir : list file; cr_faults : list bool }.

Fixpoint cli_history (rs : list cli_run) (t : list rev)
  : list (cli_outcome * list rev * list (bytes * bytes)) :=
  match rs with
  | [] => []
  | r :: rs' =>
      let '(o, t', _, _, j) :=
        cli_apply (cr_txfile r) (mkCfg (cr_order r) None true true) 0 (cr_dir r) t (cr_faults r) in
      (o, t', j) :: cli_history rs' t'
  end.

(** ** A store that breaks the contract (used only by the [_refuted] witness of
    Props_C12, which shows that the guarantee depends on this clause).
    [read_revision_lax]: every failure of the lookup is reported as
    ErrRevisionNotExist. *)
Definition read_revision_lax (t : list rev) (fs : list bool) (v : bytes) : read_result * list bool :=
  let '(fail, fs') := pop fs in
  if fail then (RdNotExist, fs')
  else (match tbl_get t v with Some r => RdRow r | None => RdNotExist end, fs').

Definition execute_st_lax (f : file) (t : list rev) (fs : list bool)
  : st_outcome * list rev * list bool * list event :=
  let '(rr, fs0) := read_revision_lax t fs (f_version f) in
  match rr with
  | RdError => (SReadErr, t, fs0, [])
  | RdRow r => let '(o, t', fs', es) := execute_rd f (Some r) t fs0 in (SExec o, t', fs', es)
  | RdNotExist => let '(o, t', fs', es) := execute_rd f None t fs0 in (SExec o, t', fs', es)
  end.

End Store.

Arguments RdRow {hash}.
Arguments RdNotExist {hash}.
Arguments RdError {hash}.
