(** Proofs about M-TX part 3 (C13: the foreign-key check at commit). *)
From Coq Require Import List NArith ZArith Bool Arith Lia.
From Atlas Require Import Base.Bytes Base.ListX Exec.ExecModel Exec.PendingModel Exec.RunModel
  Exec.TxModel Exec.TxProofs Exec.DryModel Exec.DryProofs Exec.FkModel.
Import ListNotations.

(** ** contains / violationsDiff *)
Lemma contains_In hs n : contains hs n = true <-> In n hs.
Proof.
  unfold contains. rewrite existsb_exists. split.
  - intros (v & Hin & E). rewrite !andb_true_iff in E. destruct E as [[[E1 E2] E3] E4].
    apply Z.eqb_eq in E1, E3. apply bytes_eqb_eq in E2, E4.
    destruct v, n; simpl in *; subst. exact Hin.
  - intros Hin. exists n. split; [exact Hin|]. rewrite !Z.eqb_refl, !bytes_eqb_refl. reflexivity.
Qed.

Lemma violationsDiff_In v1 v2 v : In v (violationsDiff v1 v2) <-> In v v2 /\ ~ In v v1.
Proof.
  unfold violationsDiff. rewrite filter_In, negb_true_iff, <- not_true_iff_false, contains_In. tauto.
Qed.

Lemma violationsDiff_nil v1 v2 : violationsDiff v1 v2 = [] <-> incl v2 v1.
Proof.
  split.
  - intros E v Hin. destruct (contains v1 v) eqn:C; [apply contains_In; exact C|].
    assert (In v (violationsDiff v1 v2)) as H.
    { apply violationsDiff_In. split; [exact Hin|]. intro H. apply contains_In in H. congruence. }
    rewrite E in H. destruct H.
  - intros Hi. destruct (violationsDiff v1 v2) as [|x l] eqn:E; [reflexivity|].
    assert (In x (violationsDiff v1 v2)) as H by (rewrite E; left; reflexivity).
    apply violationsDiff_In in H as [H1 H2]. exfalso. apply H2, Hi, H1.
Qed.

Lemma is_nil_true {A} (l : list A) : is_nil l = true <-> l = [].
Proof. destruct l; simpl; split; intros; congruence. Qed.

(** The "new violation" predicate, spelled out. *)
Lemma new_violation_spec v1 v2 :
  negb (is_nil (violationsDiff v1 v2)) = true <-> exists v, In v v2 /\ ~ In v v1.
Proof.
  rewrite negb_true_iff, <- not_true_iff_false, is_nil_true. split.
  - intros Hne. destruct (violationsDiff v1 v2) as [|x l] eqn:E; [contradiction|].
    exists x. apply violationsDiff_In. rewrite E. left; reflexivity.
  - intros (v & Hv) E. apply violationsDiff_In in Hv. rewrite E in Hv. destruct Hv.
Qed.

Section FkProofs.
Variable hash : Type.
Variable hash_eqb : hash -> hash -> bool.
Variable HS : bytes -> hash.
Variable violations : list bytes -> list violation.
Variable fk : bool.

Notation db := (db hash).
Notation otx := (otx hash).
Notation apply_loop := (apply_loop hash hash_eqb HS).
Notation apply_run := (apply_run hash hash_eqb HS).
Notation apply_loop_fk := (apply_loop_fk hash hash_eqb HS violations fk).
Notation apply_run_fk := (apply_run_fk hash hash_eqb HS violations fk).
Notation commit_mismatch := (commit_mismatch hash violations fk).
Notation open_tx := (open_tx hash violations fk).

Lemma commit_mismatch_spec (t : otx) :
  commit_mismatch t = true <->
  fk = true /\ exists v, In v (violations (d_journal (o_w t))) /\ ~ In v (o_before t).
Proof.
  unfold FkModel.commit_mismatch. rewrite andb_true_iff, new_violation_spec. tauto.
Qed.

Lemma commit_mismatch_false (t : otx) :
  commit_mismatch t = false <->
  fk = false \/ incl (violations (d_journal (o_w t))) (o_before t).
Proof.
  unfold FkModel.commit_mismatch. rewrite andb_false_iff, negb_false_iff, is_nil_true, violationsDiff_nil. tauto.
Qed.

Definition wmap (w : option otx) : option db := option_map o_w w.

Lemma w0_eq (c : db) (w : option otx) :
  match wmap w with Some x => x | None => c end = o_w (match w with Some x => x | None => open_tx c end).
Proof. destruct w; reflexivity. Qed.

(** ** Simulation: as long as no commit reports a mismatch, the run IS the run
    of TxModel.v (all its theorems apply). *)
Lemma apply_loop_fk_sim g files : forall (c : db) (w : option otx) o c' w',
  apply_loop_fk g files c w = (o, c', w') ->
  o = FFkMismatch \/
  exists o2 tr, o = FOut o2 /\ apply_loop g files c (wmap w) = (o2, c', wmap w', tr).
Proof.
  induction files as [|f files IH]; intros c w o c' w' H; simpl in H.
  - inversion H; subst. right. exists ADone, []. split; reflexivity.
  - simpl. destruct (mode_for g f) as [[| |]|].
    + (* none *)
      destruct (execute hash hash_eqb HS (tf_file f) (d_tbl c) _) as [[[oe te] fe] es].
      destruct (run_direct hash es c) as [c1 tr1].
      destruct oe; try (inversion H; subst; right; eexists _, _; split; reflexivity).
      destruct (IH _ _ _ _ _ H) as [E|(o2 & tr2 & E & L)]; [left; exact E|].
      right. rewrite L. eexists _, _; split; [exact E|reflexivity].
    + (* file *)
      rewrite (w0_eq c w).
      set (t0 := match w with Some x => x | None => open_tx c end) in *.
      destruct (execute hash hash_eqb HS (tf_file f) (d_tbl (o_w t0)) _) as [[[oe te] fe] es].
      destruct (run_in_tx hash es (o_w t0) c) as [w1 tr1].
      destruct oe; try (inversion H; subst; right; eexists _, _; split; reflexivity).
      destruct (commit_mismatch (mkOtx w1 (o_before t0))).
      * inversion H; subst. left; reflexivity.
      * destruct (IH _ _ _ _ _ H) as [E|(o2 & tr2 & E & L)]; [left; exact E|].
        right. simpl in L. rewrite L. eexists _, _; split; [exact E|reflexivity].
    + (* all *)
      rewrite (w0_eq c w).
      set (t0 := match w with Some x => x | None => open_tx c end) in *.
      destruct (execute hash hash_eqb HS (tf_file f) (d_tbl (o_w t0)) _) as [[[oe te] fe] es].
      destruct (run_in_tx hash es (o_w t0) c) as [w1 tr1].
      destruct oe; try (inversion H; subst; right; eexists _, _; split; reflexivity).
      destruct (IH _ _ _ _ _ H) as [E|(o2 & tr2 & E & L)]; [left; exact E|].
      right. simpl in L. rewrite L. eexists _, _; split; [exact E|reflexivity].
    + inversion H; subst. right. eexists _, _; split; reflexivity.
Qed.

(** ** A mismatch: where it happens and what it leaves.
    The loop stops at the commit of some file [f] = files[k] that runs in file
    mode; the files before it ran to completion (the loop over them alone ends
    with ADone in the same committed state [c'] -- the state left is the state
    after those k files, none of [f]'s effects and no revision of [f]); [f] itself
    executed without error, and its working copy holds a violation that was not
    recorded when its transaction was opened. No transaction stays open. *)
Lemma apply_loop_fk_mismatch g files : forall (c : db) (w : option otx) c' w',
  apply_loop_fk g files c w = (FFkMismatch, c', w') ->
  w' = None /\
  exists k f wK,
    nth_error files k = Some f /\ mode_for g f = Some TxFile /\
    apply_loop_fk g (firstn k files) c w = (FOut ADone, c', wK) /\
    let t0 := match wK with Some x => x | None => open_tx c' end in
    exists t' fs' es w1 tr,
      execute hash hash_eqb HS (tf_file f) (d_tbl (o_w t0))
              (bad_faults f (stored_applied hash (d_tbl (o_w t0)) (f_version (tf_file f)))) = (ODone, t', fs', es) /\
      run_in_tx hash es (o_w t0) c' = (w1, tr) /\
      commit_mismatch (mkOtx w1 (o_before t0)) = true.
Proof.
  induction files as [|f files IH]; intros c w c' w' H; simpl in H.
  - inversion H.
  - destruct (mode_for g f) as [[| |]|] eqn:M.
    + destruct (execute hash hash_eqb HS (tf_file f) (d_tbl c) _) as [[[oe te] fe] es] eqn:EX.
      destruct (run_direct hash es c) as [c1 tr1] eqn:R.
      destruct oe; try (inversion H; fail).
      destruct (IH _ _ _ _ H) as (Hw & k & f' & wK & Hn & Hm & Hp & Hrest).
      split; [exact Hw|]. exists (S k), f', wK. split; [exact Hn|]. split; [exact Hm|]. split.
      * cbn [firstn]. simpl. rewrite M, EX, R. exact Hp.
      * exact Hrest.
    + set (t0 := match w with Some x => x | None => open_tx c end) in *.
      destruct (execute hash hash_eqb HS (tf_file f) (d_tbl (o_w t0)) _) as [[[oe te] fe] es] eqn:EX.
      destruct (run_in_tx hash es (o_w t0) c) as [w1 tr1] eqn:R.
      destruct oe; try (inversion H; fail).
      destruct (commit_mismatch (mkOtx w1 (o_before t0))) eqn:CM.
      * inversion H; subst. split; [reflexivity|].
        exists 0, f, w. split; [reflexivity|]. split; [exact M|]. split; [reflexivity|].
        cbv zeta. fold t0. exists te, fe, es, w1, tr1. split; [exact EX|]. split; [exact R|exact CM].
      * destruct (IH _ _ _ _ H) as (Hw & k & f' & wK & Hn & Hm & Hp & Hrest).
        split; [exact Hw|]. exists (S k), f', wK. split; [exact Hn|]. split; [exact Hm|]. split.
        -- cbn [firstn]. simpl. rewrite M. fold t0. rewrite EX, R, CM. exact Hp.
        -- exact Hrest.
    + set (t0 := match w with Some x => x | None => open_tx c end) in *.
      destruct (execute hash hash_eqb HS (tf_file f) (d_tbl (o_w t0)) _) as [[[oe te] fe] es] eqn:EX.
      destruct (run_in_tx hash es (o_w t0) c) as [w1 tr1] eqn:R.
      destruct oe; try (inversion H; fail).
      destruct (IH _ _ _ _ H) as (Hw & k & f' & wK & Hn & Hm & Hp & Hrest).
      split; [exact Hw|]. exists (S k), f', wK. split; [exact Hn|]. split; [exact Hm|]. split.
      * cbn [firstn]. simpl. rewrite M. fold t0. rewrite EX, R. exact Hp.
      * exact Hrest.
    + inversion H.
Qed.

(** If no commit can report a mismatch (foreign keys off, or the engine never
    reports a violation that was not there before), the run is the run of TxModel.v. *)
Lemma apply_loop_fk_off g files (c : db) (w : option otx) :
  (forall t, commit_mismatch t = false) ->
  forall o c' w', apply_loop_fk g files c w = (o, c', w') ->
  exists o2 tr, o = FOut o2 /\ apply_loop g files c (wmap w) = (o2, c', wmap w', tr).
Proof.
  intros Hno o c' w' H. destruct (apply_loop_fk_sim g files c w o c' w' H) as [E|R]; [|exact R].
  subst o. destruct (apply_loop_fk_mismatch g files c w c' w' H) as (_ & k & f & wK & _ & _ & _ & Hr).
  cbv zeta in Hr. destruct Hr as (? & ? & ? & ? & ? & _ & _ & CM). rewrite Hno in CM. discriminate.
Qed.

Lemma apply_run_fk_off g n dir (c : db) :
  (forall t, commit_mismatch t = false) ->
  apply_run_fk g n dir c = (let '(o, c', _) := apply_run g n dir c in (FOut o, c')).
Proof.
  intros Hno. unfold FkModel.apply_run_fk, TxModel.apply_run.
  destruct (fst (pending _ _ _)); try reflexivity.
  destruct (FkModel.apply_loop_fk hash hash_eqb HS violations fk g _ c None) as [[o c1] w1] eqn:L.
  destruct (apply_loop_fk_off g _ c None Hno _ _ _ L) as (o2 & tr & E & P). subst o.
  simpl in P. rewrite P. destruct o2; try reflexivity.
  destruct w1 as [t|]; simpl; [rewrite Hno|]; reflexivity.
Qed.

Lemma apply_loop_fk_simulation g files (c : db) w o c' w' :
  apply_loop_fk g files c w = (o, c', w') ->
  (o = FFkMismatch /\ w' = None /\
     exists k f wK, nth_error files k = Some f /\ mode_for g f = Some TxFile /\
       apply_loop_fk g (firstn k files) c w = (FOut ADone, c', wK)) \/
  exists o2 tr, o = FOut o2 /\
    apply_loop g files c (option_map o_w w) = (o2, c', option_map o_w w', tr).
Proof.
  intros H.
  destruct (apply_loop_fk_sim g files c w o c' w' H) as [E|R]; [left|right; exact R].
  subst o. destruct (apply_loop_fk_mismatch g files c w c' w' H) as (Hw & k & f & wK & Hn & Hm & Hp & _).
  split; [reflexivity|]. split; [exact Hw|]. exists k, f, wK. auto.
Qed.

Lemma mismatch_off_fk : fk = false -> forall t, commit_mismatch t = false.
Proof. intros E t. apply commit_mismatch_false. left; exact E. Qed.

(** ** tx-mode all: nothing is committed inside the loop, whatever the check says;
    the one transaction keeps the violations recorded when it was opened on [c]. *)
Lemma apply_loop_fk_all files : forall (c : db) (w : option otx) o c' w',
  apply_loop_fk TxAll files c w = (o, c', w') ->
  c' = c /\ o <> FFkMismatch /\
  ((forall t, w = Some t -> o_before t = o_before (open_tx c)) ->
   forall t, w' = Some t -> o_before t = o_before (open_tx c)).
Proof.
  induction files as [|f files IH]; intros c w o c' w' H; simpl in H.
  - inversion H; subst. split; [reflexivity|]. split; [discriminate|]. auto.
  - destruct (mode_for_all f) as [E|E]; rewrite E in H.
    + set (t0 := match w with Some x => x | None => open_tx c end) in *.
      destruct (execute hash hash_eqb HS (tf_file f) (d_tbl (o_w t0)) _) as [[[oe te] fe] es].
      destruct (run_in_tx hash es (o_w t0) c) as [w1 tr1].
      destruct oe; try (inversion H; subst; split; [reflexivity|]; split; [discriminate|]; intros _ t Ht; discriminate).
      destruct (IH _ _ _ _ _ H) as (Hc & Hn & Hinv). split; [exact Hc|]. split; [exact Hn|].
      intros Hw. apply Hinv. intros t Ht. inversion Ht; subst t. cbn [o_before].
      subst t0. destruct w as [x|]; [apply Hw; reflexivity|reflexivity].
    + inversion H; subst. split; [reflexivity|]. split; [discriminate|]. auto.
Qed.

(** C13, mode all, with the commit-time check: unless the command succeeds the
    committed state is exactly as before; a mismatch is reported only if the whole
    run executed without error and its working copy holds a violation that was
    not there when the transaction was opened; success = the run of TxModel.v. *)
Lemma apply_run_fk_all_atomic n dir (c : db) o c' :
  apply_run_fk TxAll n dir c = (o, c') ->
  (o <> FOut ADone -> c' = c) /\
  (o = FFkMismatch ->
     fk = true /\
     exists wd tr, apply_run TxAll n dir c = (ADone, wd, tr) /\
       exists v, In v (violations (d_journal wd)) /\ ~ In v (violations (d_journal c))) /\
  (o = FOut ADone -> exists tr, apply_run TxAll n dir c = (ADone, c', tr)).
Proof.
  unfold FkModel.apply_run_fk, TxModel.apply_run. intros H.
  destruct (fst (pending _ _ _)) eqn:P;
    try (inversion H; subst; split; [reflexivity|]; split; discriminate).
  destruct (FkModel.apply_loop_fk hash hash_eqb HS violations fk TxAll _ c None) as [[o1 c1] w1] eqn:L.
  destruct (apply_loop_fk_all _ _ _ _ _ _ L) as (Hc & Hnm & Hinv). subst c1.
  destruct (apply_loop_fk_sim _ _ _ _ _ _ _ L) as [E|(o2 & tr & E & PL)]; [contradiction|]. subst o1.
  simpl in PL. rewrite PL.
  destruct o2; try (inversion H; subst; split; [reflexivity|]; split; discriminate).
  destruct w1 as [t|]; simpl.
  - destruct (commit_mismatch t) eqn:CM; inversion H; subst.
    + split; [reflexivity|]. split; [|discriminate]. intros _.
      apply commit_mismatch_spec in CM as [Hfk (v & Hv & Hnv)]. split; [exact Hfk|].
      eexists _, _. split; [reflexivity|]. exists v. split; [exact Hv|].
      rewrite (Hinv ltac:(intros ? ?; discriminate) t eq_refl) in Hnv.
      unfold FkModel.open_tx in Hnv. cbn [o_before] in Hnv. rewrite Hfk in Hnv. exact Hnv.
    + split; [intros Hne; contradiction|]. split; [discriminate|]. intros _. eexists; reflexivity.
  - inversion H; subst. split; [intros Hne; contradiction|]. split; [discriminate|].
    intros _. eexists; reflexivity.
Qed.

Lemma wmap_none (w : option otx) : wmap w = None -> w = None.
Proof. destruct w; [discriminate|reflexivity]. Qed.

Lemma no_directive_firstn k files : no_directive files -> no_directive (firstn k files).
Proof.
  intros Hnd f Hin. apply Hnd. rewrite <- (firstn_skipn k files). apply in_or_app. left; exact Hin.
Qed.

(** ** tx-mode file (no directives): also a mismatch leaves a file boundary of
    TxModel.v -- the state after the k files before the one whose commit was
    refused; that file executed without error ([w1] = its working copy, statements
    and revision rows) and [w1] holds a violation the state [c'] does not. *)
Lemma apply_loop_fk_file files (c : db) :
  no_directive files ->
  forall o c' w', apply_loop_fk TxFile files c None = (o, c', w') ->
  w' = None /\
  exists k, k <= length files /\ c' = boundary hash hash_eqb HS files c k /\
    (o = FOut ADone -> k = length files) /\
    (o = FFkMismatch ->
       fk = true /\
       exists f t' fs' es w1 tr,
         nth_error files k = Some f /\
         execute hash hash_eqb HS (tf_file f) (d_tbl c')
                 (bad_faults f (stored_applied hash (d_tbl c') (f_version (tf_file f)))) = (ODone, t', fs', es) /\
         run_in_tx hash es c' c' = (w1, tr) /\
         exists v, In v (violations (d_journal w1)) /\ ~ In v (violations (d_journal c'))).
Proof.
  intros Hnd o c' w' H.
  destruct (apply_loop_fk_sim _ _ _ _ _ _ _ H) as [E|(o2 & tr & E & PL)].
  - subst o. destruct (apply_loop_fk_mismatch _ _ _ _ _ _ H) as (Hw & k & f & wK & Hn & _ & Hp & Hr).
    split; [exact Hw|].
    destruct (apply_loop_fk_sim _ _ _ _ _ _ _ Hp) as [E|(o2 & tr & E & PL)]; [discriminate|].
    inversion E; subst o2. simpl in PL.
    destruct (apply_loop_file hash hash_eqb HS (firstn k files) c (no_directive_firstn k files Hnd) _ _ _ _ PL) as (HwK & _).
    apply wmap_none in HwK. subst wK.
    assert (Hk : k < length files) by (apply nth_error_Some; congruence).
    exists k. split; [lia|]. split.
    + unfold boundary. rewrite PL. reflexivity.
    + split; [discriminate|]. intros _. cbv zeta in Hr.
      destruct Hr as (t' & fs' & es & w1 & tr1 & EX & R & CM).
      apply commit_mismatch_spec in CM as [Hfk (v & Hv & Hnv)]. split; [exact Hfk|].
      unfold FkModel.open_tx in *. cbn [o_w o_before] in *. rewrite Hfk in Hnv.
      exists f, t', fs', es, w1, tr1. split; [exact Hn|]. split; [exact EX|]. split; [exact R|].
      exists v. split; [exact Hv|exact Hnv].
  - subst o. simpl in PL.
    destruct (apply_loop_file hash hash_eqb HS files c Hnd _ _ _ _ PL) as (Hw & (k & Hk & Hc & Hd & _) & _).
    split; [apply wmap_none; exact Hw|].
    exists k. split; [exact Hk|]. split; [exact Hc|]. split; [|discriminate].
    intros E. inversion E; subst o2. apply Hd; reflexivity.
Qed.

End FkProofs.

(** ** schema apply with the check computed from the engine state *)
Lemma schema_apply_fk_lemma violations txmode stmts bad (d : sdb) o d' es :
  txmode <> TxNone ->
  apply_changes_fk violations txmode stmts bad d = (o, d', es) ->
  (o <> SOk -> d' = d) /\
  (o = SOk -> d' = mkSdb (s_effects d ++ stmts) (s_fk d)) /\
  (o = SOk <-> (forall b, bad = Some b -> length stmts <= b) /\
               (s_fk d = false \/ incl (violations (s_effects d ++ stmts)) (violations (s_effects d)))) /\
  (o = SFkMismatch -> s_fk d = true /\ (forall b, bad = Some b -> length stmts <= b) /\
       exists v, In v (violations (s_effects d ++ stmts)) /\ ~ In v (violations (s_effects d))) /\
  (forall k, o = SApplyErr k -> bad = Some k /\ k < length stmts).
Proof.
  intros Hm H. unfold apply_changes_fk in H.
  set (nv := negb (is_nil (violationsDiff (violations (s_effects d)) (violations (s_effects d ++ stmts))))) in *.
  destruct (schema_apply_atomic_lemma _ _ _ _ _ _ _ _ Hm H) as (H1 & H2 & H3 & H4).
  split; [exact H1|]. split; [exact H2|].
  assert (Hnv : s_fk d && nv = false <-> s_fk d = false \/ incl (violations (s_effects d ++ stmts)) (violations (s_effects d))).
  { unfold nv. rewrite andb_false_iff, negb_false_iff, is_nil_true, violationsDiff_nil. tauto. }
  split; [rewrite H3, Hnv; tauto|]. split; [|exact H4].
  intros E.
  assert (Hnok : o <> SOk) by (rewrite E; discriminate).
  assert (Hb : forall b, bad = Some b -> length stmts <= b).
  { (* a failing statement gives SApplyErr, not SFkMismatch *)
    intros b Eb. destruct (le_lt_dec (length stmts) b) as [L|L]; [exact L|exfalso].
    destruct d as [eff0 f0].
    assert (apply_changes_tx stmts bad nv (mkSdb eff0 f0) = (o, d', es)) as H'
      by (destruct txmode; [contradiction|exact H|exact H]).
    unfold apply_changes_tx in H'. cbn [s_effects s_fk] in H'.
    destruct (exec_plan 0 stmts bad eff0) as [[r eff] es0] eqn:R.
    destruct (exec_plan_spec _ _ _ _ _ _ _ R) as [_ Hr].
    destruct r as [k|]; [inversion H'; subst; discriminate|].
    destruct Hr as [_ Hbb]. destruct (Hbb b Eb) as [X|X]; simpl in X; lia. }
  destruct (s_fk d && nv) eqn:V.
  - apply andb_true_iff in V as [Vf Vn]. split; [exact Vf|]. split; [exact Hb|].
    unfold nv in Vn. apply new_violation_spec in Vn. exact Vn.
  - exfalso. apply Hnok. apply H3. split; [exact Hb|reflexivity].
Qed.
