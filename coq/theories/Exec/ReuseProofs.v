(** Proofs about M-REUSE: [ExecuteTo] leaves the executor value as it found it,
    on every exit path; hence a session on one executor value is the session
    in which every call is made on a new executor. *)
From Coq Require Import List NArith Bool Arith.
From Atlas Require Import Base.Bytes Exec.ExecModel Exec.PendingModel Exec.RunModel Exec.ReuseModel.
Import ListNotations.

Section ReuseProofs.
Variable hash : Type.
Variable hash_eqb : hash -> hash -> bool.
Variable HS : bytes -> hash.
Notation rev := (rev hash).
Notation execute_to := (execute_to hash hash_eqb HS).
Notation step := (step hash hash_eqb HS).
Notation session := (session hash hash_eqb HS).
Notation session_fresh := (session_fresh hash hash_eqb HS).

Lemma set_dir_restore e d : set_dir (set_dir e d) (e_dir e) = e.
Proof. destruct e; reflexivity. Qed.

Lemma execute_to_restores e v (t : list rev) fs :
  snd (fst (fst (fst (execute_to e v t fs)))) = e.
Proof.
  unfold ReuseModel.execute_to.
  destruct (files_last_index (version_is v) (e_dir e)) as [idx|]; [|reflexivity].
  destruct (existsb f_ckpt (skipn (S idx) (e_dir e))).
  - destruct (pending (e_cfg (set_dir e (firstn (S idx) (e_dir e))))
                      (e_dir (set_dir e (firstn (S idx) (e_dir e)))) (read_revisions hash t)) as [p w].
    destruct (exec_chosen hash hash_eqb HS p w (fun l => Some l) t fs) as [[[o t'] fs'] es].
    simpl. apply set_dir_restore.
  - destruct (pending (e_cfg e) (e_dir e) (read_revisions hash t)) as [p w].
    destruct (exec_chosen hash hash_eqb HS p w _ t fs) as [[[o t'] fs'] es].
    reflexivity.
Qed.

Lemma step_restores e o (t : list rev) :
  snd (fst (step execute_to e o t)) = e.
Proof.
  destruct o as [n fs|v fs|]; unfold ReuseModel.step.
  - destruct (execute_n_of hash hash_eqb HS e n t fs) as [[[ro t'] fs'] es]. reflexivity.
  - pose proof (execute_to_restores e v t fs) as H.
    destruct (execute_to e v t fs) as [[[[o' e'] t'] fs'] es]. simpl in *. exact H.
  - destruct (pending_of hash e t) as [p w]. reflexivity.
Qed.

Lemma session_reuse_fresh : forall ops e (t : list rev),
  session execute_to e ops t = session_fresh execute_to e ops t.
Proof.
  induction ops as [|o ops IH]; intros e t; [reflexivity|].
  cbn [ReuseModel.session ReuseModel.session_fresh].
  pose proof (step_restores e o t) as H.
  destruct (step execute_to e o t) as [[r e'] t']. simpl in H. subst e'.
  rewrite IH. reflexivity.
Qed.

(** After any [ExecuteTo], [ExecuteN] on the executor it leaves is [ExecuteN] of the directory the
    executor was created with. *)
Lemma execute_n_after_execute_to e v (t : list rev) fs n fs2 :
  let '(_, e', t', _, _) := execute_to e v t fs in
  execute_n_of hash hash_eqb HS e' n t' fs2 = execute_n hash hash_eqb HS (e_cfg e) n (e_dir e) t' fs2.
Proof.
  pose proof (execute_to_restores e v t fs) as H.
  destruct (execute_to e v t fs) as [[[[o' e'] t'] fs'] es]. simpl in H. subst e'. reflexivity.
Qed.

End ReuseProofs.
