(** Proofs about M-REUSE: [ExecuteTo] leaves the executor value as it found it,
    on every exit path; hence a session on one executor value is the session
    in which every call is made on a new executor. *)
From Coq Require Import List NArith Bool Arith.
From Atlas Require Import Base.Bytes Exec.ExecModel Exec.PendingModel Exec.RunModel Exec.ReuseModel.
Import ListNotations.

Section ReuseProofs.
Variable hash : Type.
Variable hash_eqb : hash -> hash -> bool.
Variable HS : bytes -> hash.
Notation rev := (rev hash).
Notation execute_to := (execute_to hash hash_eqb HS).
Notation step := (step hash hash_eqb HS).
Notation session := (session hash hash_eqb HS).
Notation session_fresh := (session_fresh hash hash_eqb HS).

Lemma set_dir_restore e d : set_dir (set_dir e d) (e_dir e) = e.
Proof. destruct e; reflexivity. Qed.

Lemma execute_to_restores e v (t : list rev) fs :
  snd (fst (fst (fst (execute_to e v t fs)))) = e.
Proof.
  unfold ReuseModel.execute_to.
  destruct (files_last_index (version_is v) (e_dir e)) as [idx|]; [|reflexivity].
  destruct (existsb f_ckpt (skipn (S idx) (e_dir e))).
  - destruct (pending (e_cfg (set_dir e (firstn (S idx) (e_dir e))))
                      (e_dir (set_dir e (firstn (S idx) (e_dir e)))) (read_revisions hash t)) as [p w].
    destruct (exec_chosen hash hash_eqb HS p w (fun l => Some l) t fs) as [[[o t'] fs'] es].
    simpl. apply set_dir_restore.
  - destruct (pending (e_cfg e) (e_dir e) (read_revisions hash t)) as [p w].
    destruct (exec_chosen hash hash_eqb HS p w _ t fs) as [[[o t'] fs'] es].
    reflexivity.
Qed.

Lemma step_restores e o (t : list rev) :
  snd (fst (step execute_to e o t)) = e.
Proof.
  destruct o as [n fs|v fs|]; unfold ReuseModel.step.
  - destruct (execute_n_of hash hash_eqb HS e n t fs) as [[[ro t'] fs'] es]. reflexivity.
  - pose proof (execute_to_restores e v t fs) as H.
    destruct (execute_to e v t fs) as [[[[o' e'] t'] fs'] es]. simpl in *. exact H.
  - destruct (pending_of hash e t) as [p w]. reflexivity.
Qed.

Lemma session_reuse_fresh : forall ops e (t : list rev),
  session execute_to e ops t = session_fresh execute_to e ops t.
Proof.
  induction ops as [|o ops IH]; intros e t; [reflexivity|].
  cbn [ReuseModel.session ReuseModel.session_fresh].
  pose proof (step_restores e o t) as H.
  destruct (step execute_to e o t) as [[r e'] t']. simpl in H. subst e'.
  rewrite IH. reflexivity.
Qed.

(** After any [ExecuteTo], [ExecuteN] on the executor it leaves is [ExecuteN] of the directory the
    executor was created with. *)
Lemma execute_n_after_execute_to e v (t : list rev) fs n fs2 :
  let '(_, e', t', _, _) := execute_to e v t fs in
  execute_n_of hash hash_eqb HS e' n t' fs2 = execute_n hash hash_eqb HS (e_cfg e) n (e_dir e) t' fs2.
Proof.
  pose proof (execute_to_restores e v t fs) as H.
  destruct (execute_to e v t fs) as [[[[o' e'] t'] fs'] es]. simpl in H. subst e'. reflexivity.
Qed.

End ReuseProofs.

(** ** [ExecuteTo] is [ExecuteN] with a count, over the (possibly truncated) directory *)
Section ReuseBound.
Variable hash : Type.
Variable hash_eqb : hash -> hash -> bool.
Variable HS : bytes -> hash.
Notation rev := (rev hash).
Notation execute_to := (execute_to hash hash_eqb HS).
Notation execute_n_of := (execute_n_of hash hash_eqb HS).

Definition as_run (e : executor) (r : run_outcome * list rev * list bool * list (event hash))
  : to_outcome * executor * list rev * list bool * list (event hash) :=
  let '(ro, t', fs', es) := r in (TRun ro, e, t', fs', es).

(** [ExecuteTo(v)], [v] before a checkpoint file: [ExecuteN(0)] over the directory truncated after [v]. *)
Lemma execute_to_before_checkpoint e v (t : list rev) fs idx :
  files_last_index (version_is v) (e_dir e) = Some idx ->
  existsb f_ckpt (skipn (S idx) (e_dir e)) = true ->
  execute_to e v t fs =
  as_run e (execute_n hash hash_eqb HS (e_cfg e) 0 (firstn (S idx) (e_dir e)) t fs).
Proof.
  destruct e as [c d]. cbn [e_cfg e_dir]. intros H1 H2.
  unfold ReuseModel.execute_to, execute_n, as_run, exec_chosen. cbn [set_dir e_cfg e_dir]. rewrite H1, H2.
  cbn [set_dir e_cfg e_dir].
  destruct (pending c (firstn (S idx) d) (read_revisions hash t)) as [p w].
  destruct w as [r|].
  - destruct (write t fs r) as [[[ok t1] fs1] e1]. destruct ok; cbn [negb]; [|reflexivity].
    destruct p; try reflexivity. cbn [Nat.ltb Nat.leb].
    destruct (exec_files hash hash_eqb HS fs0 t1 fs1) as [[[o t2] fs2] es]. reflexivity.
  - cbn [negb]. destruct p; try reflexivity. cbn [Nat.ltb Nat.leb].
    destruct (exec_files hash hash_eqb HS fs0 t fs) as [[[o t2] fs2] es]. reflexivity.
Qed.

(** [ExecuteTo(v)], no checkpoint file after [v]: [ExecuteN(i+1)] where [i] is the position of [v]
    among the pending files; when [v] is not pending nothing is executed. *)
Lemma execute_to_bounded e v (t : list rev) fs idx :
  files_last_index (version_is v) (e_dir e) = Some idx ->
  existsb f_ckpt (skipn (S idx) (e_dir e)) = false ->
  match fst (pending_of hash e t) with
  | PFiles files =>
      match files_last_index (version_is v) files with
      | Some i => execute_to e v t fs = as_run e (execute_n_of e (S i) t fs)
      | None =>
          let '(o, e', t', _, es) := execute_to e v t fs in
          e' = e /\ exec_events es = [] /\ (o = TNotFound \/ o = TRun (RPend PWriteErr))
      end
  | _ => execute_to e v t fs = as_run e (execute_n_of e 0 t fs)
  end.
Proof.
  destruct e as [c d]. cbn [e_cfg e_dir]. intros H1 H2.
  unfold ReuseModel.execute_to, ReuseModel.execute_n_of, execute_n, as_run, exec_chosen, pending_of.
  cbn [e_cfg e_dir]. rewrite H1, H2.
  destruct (pending c d (read_revisions hash t)) as [p w]. cbn [fst].
  destruct p as [files| | | | | |];
    try (destruct w as [r|]; [destruct (write t fs r) as [[[ok t1] fs1] e1]; destruct ok|]; reflexivity).
  destruct (files_last_index (version_is v) files) as [i|]; cbn [option_map].
  - destruct w as [r|].
    + destruct (write t fs r) as [[[ok t1] fs1] e1]. destruct ok; cbn [negb]; [|reflexivity].
      change (0 <? S i) with true. cbv iota.
      destruct (exec_files hash hash_eqb HS (firstn (S i) files) t1 fs1) as [[[o t2] fs2] es]. reflexivity.
    + cbn [negb]. change (0 <? S i) with true. cbv iota.
      destruct (exec_files hash hash_eqb HS (firstn (S i) files) t fs) as [[[o t2] fs2] es]. reflexivity.
  - destruct w as [r|].
    + unfold write. destruct (pop fs) as [b fs1]. destruct b; cbn [negb]; (split; [reflexivity|]); (split; [reflexivity|]); auto.
    + cbn [negb]. split; [reflexivity|]. split; [reflexivity|]. auto.
Qed.

End ReuseBound.
