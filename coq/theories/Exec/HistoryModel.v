(** M-PEND, closed loop: the CLI commands as state transformers of the database
    (revisions table + "holds other resources"), so that a whole operation
    sequence -- [migrate status], [migrate apply [n] --exec-order o --tx-mode m
    [--baseline v] [--allow-dirty] [--dry-run]], [migrate set [v]] on a changing
    directory -- runs in the model and is compared with the real CLI step by step.

    [apply_run] = [migrateApplyRun] (cmd/atlas/internal/cmdapi/migrate_oss.go) at
    the level of the revisions table: [rrw.Migrate] creates the table (also under
    --dry-run), [Pending] may write the baseline row (also under --dry-run), the
    selected files go through [Executor.Execute] ([ExecModel.execute]); what is kept
    of a failing run depends on the transaction mode ([tx.mayRollback/mayCommit/commit];
    the detailed transaction model is TxModel.v, this is its effect on the table):
      none : everything written up to the failing statement stays;
      file : the failing file's writes are rolled back, earlier files stay;
      all  : every file's writes are rolled back.
    Statements fail as the database decides: [fails] is a section variable. No
    revision write fails here (fault-free store). No proofs in this file. *)
From Coq Require Import List NArith Bool Arith.
From Atlas Require Import Base.Bytes Exec.ExecModel Exec.PendingModel Exec.RunModel Exec.StatusModel.
Import ListNotations.

Inductive txmode := TxNone | TxFile | TxAll.

Section History.
Variable hash : Type.
Variable hash_eqb : hash -> hash -> bool.
Variable HS : bytes -> hash.
Variable fails : bytes -> bool.       (* the database rejects this statement *)
Notation rev := (rev hash).

Record db := mkDb {
  db_table : bool;        (* the revisions table exists *)
  db_dirty : bool;        (* the database holds other resources (CheckClean fails) *)
  db_revs  : list rev     (* the stored rows (no row without a table) *)
}.

Definition db_read (d : db) : list rev := if db_table d then read_revisions hash (db_revs d) else [].

(** The fault stream [ExecModel.execute] consumes for file [f] on table [t]: one pop for
    the "started" write, two per successful statement (ExecContext, WriteRevision), and
    [true] at the first statement the database rejects. No [true]: the empty stream. *)
Fixpoint stmt_faults (rest : list bytes) : option (list bool) :=
  match rest with
  | [] => None
  | s :: rest' =>
      if fails s then Some [true]
      else match stmt_faults rest' with
           | Some l => Some (false :: false :: l)
           | None => None
           end
  end.

Definition file_faults (f : file) (t : list rev) : list bool :=
  let applied := match tbl_get t (f_version f) with Some r => r_applied r | None => 0 end in
  match stmt_faults (skipn applied (f_stmts f)) with
  | Some l => false :: l
  | None => []
  end.

(** [for _, f := range pending { Execute(f) ... }]: stops at the first error.
    Returns (all ok?, table, did any statement run and stay?). [keep_failed]: the failing
    file's own writes stay (tx-mode none). *)
Fixpoint run_seq (keep_failed : bool) (files : list file) (t : list rev) : bool * list rev * bool :=
  match files with
  | [] => (true, t, false)
  | f :: rest =>
      let '(o, t1, _, es) := execute hash hash_eqb HS f t (file_faults f t) in
      let ran := negb (match journal es with [] => true | _ => false end) in
      match o with
      | ODone => let '(ok, t2, ran2) := run_seq keep_failed rest t1 in (ok, t2, ran || ran2)
      | _ => if keep_failed then (false, t1, ran) else (false, t, false)
      end
  end.

Definition run_files (mode : txmode) (files : list file) (t : list rev) : list rev * bool :=
  match mode with
  | TxNone => let '(_, t', ran) := run_seq true files t in (t', ran)
  | TxFile => let '(_, t', ran) := run_seq false files t in (t', ran)
  | TxAll => let '(ok, t', ran) := run_seq false files t in if ok then (t', ran) else (t, false)
  end.

(** [migrate apply [n]]: the decision (as [apply_plan]), the baseline row written, the database afterwards. *)
Definition apply_run (o : order) (baseline : option bytes) (allow_dirty : bool) (n : nat)
           (mode : txmode) (dry : bool) (all : list file) (d : db)
  : presult * option rev * db :=
  let c := mkCfg o baseline allow_dirty (db_dirty d) in
  let '(p, w) := apply_plan c n all (db_read d) in
  let t1 := match w with Some r => tbl_put (db_revs d) r | None => db_revs d end in
  match p with
  | PFiles chosen =>
      if dry then (p, w, mkDb true (db_dirty d) t1)
      else let '(t2, ran) := run_files mode chosen t1 in (p, w, mkDb true (db_dirty d || ran) t2)
  | _ => (p, w, mkDb true (db_dirty d) t1)
  end.

(** [migrate set [v]]: creates the table; on success the table is what [migrate_set] says. *)
Definition set_run (arg : option bytes) (all : list file) (d : db) : set_result hash * db :=
  let r := migrate_set arg all (db_read d) in
  match r with
  | SetOk t' => (r, mkDb true (db_dirty d) t')
  | _ => (r, mkDb true (db_dirty d) (db_revs d))
  end.

(** [migrate status] changes nothing. *)
Definition status_run (all : list file) (d : db) : sresult hash :=
  report (db_table d) (db_dirty d) all (db_read d).

Inductive cmd :=
| CStatus
| CApply (o : order) (baseline : option bytes) (allow_dirty : bool) (n : nat) (mode : txmode) (dry : bool)
| CSet (arg : option bytes).

Inductive answer :=
| AStatus (s : sresult hash)
| AApply (p : presult) (w : option rev)
| ASet (r : set_result hash).

Definition step (all : list file) (k : cmd) (d : db) : answer * db :=
  match k with
  | CStatus => (AStatus (status_run all d), d)
  | CApply o b a n m dry => let '(p, w, d') := apply_run o b a n m dry all d in (AApply p w, d')
  | CSet arg => let '(r, d') := set_run arg all d in (ASet r, d')
  end.

(** A history: each command comes with the directory as it is at that moment. *)
Fixpoint history (ks : list (list file * cmd)) (d : db) : list (answer * db) :=
  match ks with
  | [] => []
  | (all, k) :: ks' => let '(a, d') := step all k d in (a, d') :: history ks' d'
  end.

End History.

Arguments mkDb {hash}.
Arguments db_table {hash}.
Arguments db_dirty {hash}.
Arguments db_revs {hash}.
Arguments AStatus {hash}.
Arguments AApply {hash}.
Arguments ASet {hash}.
