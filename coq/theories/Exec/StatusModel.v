(** M-PEND, CLI layer: executable model of the three commands that must agree
    with [Executor.Pending]:

    - [report]        = [StatusReporter.Report]   (cmd/atlas/internal/cmdlog/cmdlog.go)
    - [apply_plan]    = the file selection of [migrateApplyRun]
                        (cmd/atlas/internal/cmdapi/migrate_oss.go: [Pending], then
                        [if count == 0 || count >= l { count = l }; pending[:count]])
    - [migrate_set]   = [migrateSetRun]           (cmd/atlas/internal/cmdapi/migrate.go)

    on top of [PendingModel.pending]. Control flow and names are kept.

    The revision table is the list of rows the CLI's reader returns
    ([ReadRevisions]: ordered by version). Not modelled: [Env], descriptions,
    timestamps, error texts, the [SQL] field, database errors of the revision
    store, the lock. The database itself appears as two booleans: whether the
    revisions table exists, and what [Driver.CheckClean] answers.

    No proofs here. *)
From Coq Require Import List NArith Bool Arith.
From Atlas Require Import Base.Bytes Exec.ExecModel Exec.PendingModel.
Import ListNotations.

(** [rep.Next]: left empty (early return), "Already at latest version", or a version. *)
Inductive next_field := NextEmpty | NextLatest | NextVer (v : bytes).

(** [rep.Current]: left empty, "No migration applied yet", or a version. *)
Inductive cur_field := CurNone | CurVer (v : bytes).

Section Status.
Variable hash : Type.
Notation rev := (rev hash).

(** [MigrateStatus] (the fields that depend on directory and history). *)
Record mstatus := mkStatus {
  s_available : list file;
  s_ooo       : list file;     (* OutOfOrder *)
  s_pending   : list file;
  s_applied   : list rev;
  s_current   : cur_field;
  s_next      : next_field;
  s_count     : nat;
  s_total     : nat;
  s_ok        : bool;          (* Status: true = "OK", false = "PENDING" *)
  s_error     : bool           (* Error <> "" *)
}.

Inductive sresult :=
| SOk (s : mstatus)
| SErr (p : presult)           (* Pending's error, returned as is *)
| SFileNotFound (v : bytes)    (* "migration file with version %q not found" *)
| SPanic.                      (* rep.Applied[len(rep.Applied)-1] on an empty slice *)

(** [RevisionType.Has(RevisionTypeResolved)]: bit 4. *)
Definition is_resolved (r : rev) : bool := N.testbit (r_kind r) 2.

(** [StatusReporter.Report]. [has_table]: the revisions table exists;
    [dirty]: what [CheckClean] says; [revs]: [rrw.ReadRevisions] (only read
    when the table exists). The executor is built with [WithAllowDirty(true)]
    only (as fixed, C11-status-not-clean-empty-table): linear order, no baseline. *)
Definition report (has_table dirty : bool) (all : list file) (revs : list rev) : sresult :=
  let applied := if has_table then revs else [] in
  (* first part: Available / Pending, or an early return *)
  let part : sresult + (list file * list file) :=
    if negb has_table then
      let av := files_from_last_checkpoint all in inr (av, av)
    else
      match fst (pending (mkCfg Linear None true dirty) all applied) with
      | PNonLinear skipped pend =>
          inl (match last_opt applied with
               | None => SPanic
               | Some l => SOk (mkStatus [] skipped pend applied (CurVer (r_version l)) NextEmpty 0 0 false true)
               end)
      | PFiles p => inr (match applied with [] => p | _ => all end, p)
      | PNoPending => inr (match applied with [] => [] | _ => all end, [])
      | e => inl (SErr e)
      end in
  match part with
  | inl r => r
  | inr (available, pend) =>
      (* switch len(rep.Pending) { case len(rep.Available): ... default: ... } *)
      let cur : option cur_field :=
        if length pend =? length available then Some CurNone
        else match last_opt applied with None => None | Some l => Some (CurVer (r_version l)) end in
      match cur with
      | None => SPanic
      | Some current =>
          let ok := match pend with [] => true | _ => false end in
          let nxt := match pend with [] => NextLatest | f :: _ => NextVer (f_version f) end in
          match last_opt applied with
          | None => SOk (mkStatus available [] pend applied current nxt 0 0 ok false)
          | Some l =>
              if negb (is_resolved l) && (r_applied l <? r_total l) then
                match files_last_index (fun f => bytes_eqb (f_version f) (r_version l)) available with
                | None => SFileNotFound (r_version l)
                | Some idx =>
                    match nth_error available idx with
                    | None => SPanic
                    | Some f => SOk (mkStatus available [] pend applied current nxt
                                              (r_applied l) (length (f_stmts f)) ok (r_err l))
                    end
                end
              else SOk (mkStatus available [] pend applied current nxt 0 0 ok false)
          end
      end
  end.

(** [migrateApplyRun]: [if l := len(pending); count == 0 || count >= l { count = l }]. *)
Definition apply_count (n l : nat) : nat := if (n =? 0) || (l <=? n) then l else n.

(** The files [migrate apply [n]] decides to run ([n = 0]: no amount given), and
    the baseline revision [Pending] asks to write. ErrNoPendingFiles is not an
    error of the command ("No migration files to execute"). *)
Definition apply_plan (c : cfg) (n : nat) (all : list file) (revs : list rev) : presult * option rev :=
  let '(p, w) := pending c all revs in
  match p with
  | PFiles fs => (PFiles (firstn (apply_count n (length fs)) fs), w)
  | _ => (p, w)
  end.

(** ** migrate set *)

Inductive set_result :=
| SetOk (revs : list rev)       (* the table afterwards, as the reader returns it is [read] of it *)
| SetNotFound                   (* "migration with version %q not found" *)
| SetArgs.                      (* "accepts 1 arg(s), received 0" on an empty table *)

(** As fixed (C11-set-on-partial-revision): [r.Type = Execute | Resolved; r.Applied = r.Total]. *)
Definition resolve (r : rev) : rev :=
  mkRev (r_version r) (r_total r) (r_total r) (r_hashes r) (r_err r) 6%N.   (* Execute | Resolved *)

Definition resolved_rev (f : file) : rev := mkRev (f_version f) 0 0 [] false 4%N.  (* Resolved *)

(** [for _, r := range revs { switch { case r.Version > version: delete;
    case r.Error != "" || r.Total != r.Applied: resolve } }] (as fixed: every kept row with an
    error or partially applied, not only the row of [version]):
    every row is deleted, rewritten in place, or kept. *)
Definition set_loop (version : bytes) (revs : list rev) : list rev :=
  flat_map (fun r =>
    if bytes_ltb version (r_version r) then []
    else if r_err r || negb (r_total r =? r_applied r) then [resolve r]
    else [r]) revs.

(** [len(revs) == 0]: every file until one exceeds the target ([break]). *)
Fixpoint set_upto (version : bytes) (files : list file) : list file :=
  match files with
  | [] => []
  | f :: fs => if bytes_ltb version (f_version f) then [] else f :: set_upto version fs
  end.

(** [version > revs[len(revs)-1].Version]: files after the last revision until one
    exceeds the target ([break loop]). *)
Fixpoint set_between (lastv version : bytes) (files : list file) : list file :=
  match files with
  | [] => []
  | f :: fs =>
      if bytes_leb (f_version f) lastv then set_between lastv version fs
      else if bytes_ltb version (f_version f) then []
      else f :: set_between lastv version fs
  end.

(** [migrateSetRun]. [arg = None]: no version argument. [revs] is what
    [ReadRevisions] returns; the second [ReadRevisions] returns the surviving
    rows in the same order ([set_loop] keeps the order). The result lists the
    old rows, then the new ones in the order they are written. *)
Definition migrate_set (arg : option bytes) (all : list file) (revs : list rev)
  : set_result :=
  let target : option (option bytes) :=      (* None: error; Some None: SetNotFound *)
    match arg with
    | None => match revs with
              | [] => None
              | _ => Some (Some (match last_opt all with Some f => f_version f | None => [] end))
              end
    | Some v => match files_last_index (fun f => bytes_eqb (f_version f) v) all with
                | None => Some None
                | Some _ => Some (Some v)
                end
    end in
  match target with
  | None => SetArgs
  | Some None => SetNotFound
  | Some (Some version) =>
      let revs1 := set_loop version revs in
      let pend :=
        match last_opt revs1 with
        | None => set_upto version all
        | Some l => if bytes_ltb (r_version l) version then set_between (r_version l) version all else []
        end in
      SetOk (revs1 ++ map resolved_rev pend)
  end.

End Status.

Arguments mkStatus {hash}.
Arguments s_available {hash}.
Arguments s_ooo {hash}.
Arguments s_pending {hash}.
Arguments s_applied {hash}.
Arguments s_current {hash}.
Arguments s_next {hash}.
Arguments s_count {hash}.
Arguments s_total {hash}.
Arguments s_ok {hash}.
Arguments s_error {hash}.
Arguments SOk {hash}.
Arguments SErr {hash}.
Arguments SFileNotFound {hash}.
Arguments SPanic {hash}.
Arguments report {hash}.
Arguments apply_plan {hash}.
Arguments migrate_set {hash}.
Arguments set_loop {hash}.
Arguments resolve {hash}.
Arguments resolved_rev {hash}.
Arguments is_resolved {hash}.
Arguments SetOk {hash}.
Arguments SetNotFound {hash}.
Arguments SetArgs {hash}.
