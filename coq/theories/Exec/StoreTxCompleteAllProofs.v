(** Completion over the store contract with the completing run under ANY
    --tx-mode (adds --tx-mode all to StoreTxCompleteProofs.v). *)
From Coq Require Import List NArith Bool Arith Lia.
From Atlas Require Import Base.Bytes Base.ListX Base.Stutter Exec.ExecModel Exec.ExecProofs Exec.StepProofs
  Exec.PendingModel Exec.PendingProofs Exec.RunModel Exec.TxModel Exec.TxProofs Exec.RunProofs
  Exec.StoreModel Exec.StoreProofs Exec.StoreTxModel Exec.StoreTxProofs Exec.StoreTxDirProofs Exec.StoreTxAllProofs
  Exec.StoreTxCompleteProofs Exec.StoreTxOnceProofs.
Import ListNotations.

Section StoreCompleteAll.
Variable hash : Type.
Variable hash_eqb : hash -> hash -> bool.
Variable HS : bytes -> hash.
Hypothesis hash_eqb_spec : forall a b, hash_eqb a b = true <-> a = b.
Notation rev := (rev hash).
Notation event := (event hash).
Notation sdb := (sdb hash).

Section Dir.
Variable all : list file.
Hypothesis Hsorted : sorted_files all.
Variable skipped : list file.
Hypothesis Hfull : sorted_files (skipped ++ all).
Hypothesis Hfresh : from_last_ckpt (skipped ++ all) = all.
Notation dir := (skipped ++ all).
Notation Inv := (Inv hash HS all).
Notation normal := (normal all).
Notation GInv := (GInv hash HS all).
Notation cur := (cur hash).

Lemma apply_files_m_all_clean :
  forall tfs (cdb : sdb) w o cd w' fs' es k a has,
  Inv (s_tbl (cur cdb w)) k a has -> normal k a has ->
  map tf_file tfs = firstn (length tfs) (skipn k all) ->
  (forall tf, In tf tfs -> mode_for TxAll tf <> None) ->
  apply_files_m hash hash_eqb HS TxAll tfs cdb w [] = (o, cd, w', fs', es) ->
  o = MDone /\ (tfs <> [] -> exists wd, w' = Some wd /\ Inv (s_tbl wd) (k + length tfs) 0 false).
Proof.
  induction tfs as [|tf rest IH]; intros cdb w o cd w' fs' es k a has HI Hn Hfiles Hval Hex.
  - simpl in Hex. inversion Hex; subst. split; [reflexivity|]. intros H; contradiction.
  - cbn [map length firstn] in Hfiles.
    destruct (skipn k all) as [|f tl] eqn:Esk; [discriminate|].
    inversion Hfiles as [[Ef Erest]].
    destruct (skipn_cons_inv all k f tl Esk) as [Hnth Esk'].
    cbn [apply_files_m] in Hex.
    destruct (mode_for TxAll tf) as [m|] eqn:Em.
    2:{ exfalso. apply (Hval tf (or_introl eq_refl)). exact Em. }
    apply (mode_for_all) in Em. subst m.
    fold (cur cdb w) in Hex. set (w0 := cur cdb w) in *.
    unfold exec_on in Hex. rewrite Ef, (execute_st_cases hash hash_eqb HS) in Hex. cbn [pop] in Hex.
    destruct (execute hash hash_eqb HS f (s_tbl w0) []) as [[[o1 t1] fs1] es1] eqn:EX.
    assert (Hx : exec_files hash hash_eqb HS [f] (s_tbl w0) [] = (o1, t1, fs1, es1)).
    { rewrite exec_files_single. exact EX. }
    assert (Hf1 : [f] = firstn (length [f]) (skipn k all)) by (rewrite Esk; reflexivity).
    destruct (exec_files_inv hash hash_eqb HS hash_eqb_spec all Hsorted [f] (s_tbl w0) [] o1 t1 fs1 es1 k a has HI Hn Hf1 Hx)
      as (Hp & Hnf & Ht1).
    destruct (Hnf eq_refl) as [-> ->].
    destruct (Hp es1 [] ltac:(rewrite app_nil_r; reflexivity)) as (k1 & a1 & has1 & e1 & HI1 & _ & _ & _ & H5).
    destruct (H5 eq_refl) as [_ Hd].
    assert (Hne1 : [f] <> []) by discriminate.
    destruct (Hd eq_refl (or_introl Hne1)) as (E1 & E2 & E3 & E4). subst k1 a1 has1 e1.
    rewrite <- Ht1 in HI1. replace (k + length [f]) with (S k) in HI1 by (simpl; lia).
    assert (Hn1 : normal (S k) 0 false) by (intros H; discriminate).
    assert (Erest' : map tf_file rest = firstn (length rest) (skipn (S k) all)) by (rewrite Esk'; exact Erest).
    assert (Hval' : forall x, In x rest -> mode_for TxAll x <> None) by (intros x Hxr; apply Hval; right; exact Hxr).
    set (w1 := mkSdb (s_journal w0 ++ journal es1) t1) in *.
    destruct (apply_files_m hash hash_eqb HS TxAll rest cdb (Some w1) []) as [[[[o2 c2] w2] fs2] es2] eqn:EX2.
    inversion Hex; subst o cd w' fs' es. clear Hex.
    destruct (IH cdb (Some w1) o2 c2 w2 fs2 es2 (S k) 0 false HI1 Hn1 Erest' Hval' EX2) as (-> & HIr).
    split; [reflexivity|]. intros _.
    destruct rest as [|x rest'].
    + simpl in EX2. inversion EX2; subst. exists w1. split; [reflexivity|].
      simpl. replace (k + 1) with (S k) by lia. exact HI1.
    + replace (k + length (tf :: x :: rest')) with (S k + length (x :: rest')) by (simpl; lia).
      apply HIr. discriminate.
Qed.

Variable tdir : list tfile.
Hypothesis Htdir : map tf_file tdir = dir.

Lemma cli_apply_m_clean_all (d : sdb) co d' fs' es :
  (forall tf, In tf tdir -> mode_for TxAll tf <> None) ->
  (exists k a has, Inv (s_tbl d) k a has) ->
  cli_apply_m hash hash_eqb HS TxAll m_cfg 0 tdir d [] = (co, d', fs', es) ->
  Inv (s_tbl d') (length all) 0 false.
Proof.
  intros Hval (k0 & a0 & has0 & HI0) Hex.
  destruct (normalize hash HS all (s_tbl d) k0 a0 has0 HI0) as (k & a & has & HI & Hn & _).
  unfold cli_apply_m in Hex. rewrite Htdir in Hex.
  unfold read_revisions_f in Hex. cbn [pop] in Hex.
  rewrite (pending_inv hash HS all Hsorted skipped Hfull Hfresh m_cfg (s_tbl d) k a has m_cfg_ok HI Hn) in Hex.
  cbn [negb] in Hex.
  destruct (skipn k all) as [|f l] eqn:Esk.
  - cbn [finish] in Hex. inversion Hex; subst. cbn [s_tbl].
    assert (length all <= k) as Hk.
    { apply (f_equal (@length _)) in Esk. rewrite skipn_length in Esk. simpl in Esk. lia. }
    pose proof HI as (Hm & _ & _ & Hlast).
    assert (k = length all) as -> by lia.
    destruct has; [simpl in Hm; lia|]. subst a. exact HI.
  - change (finish (f :: l)) with (PFiles (f :: l)) in Hex. cbv iota in Hex. cbn [pop] in Hex. cbv iota in Hex.
    change (if 0 <? 0 then firstn 0 (f :: l) else f :: l) with (f :: l) in Hex.
    set (chosen := f :: l) in *.
    assert (Hch : chosen = firstn (length chosen) (skipn k all)).
    { rewrite Esk. symmetry. apply firstn_all. }
    assert (Hincl : incl chosen (map tf_file tdir)).
    { rewrite Htdir. intros x Hx. rewrite Hch in Hx. apply in_or_app. right. eapply in_skipn. eapply in_firstn. exact Hx. }
    pose proof (with_directives_files tdir chosen (tdir_NoDup all skipped Hfull tdir Htdir) Hincl) as Hmap.
    pose proof (in_with_directives tdir chosen) as Hsub.
    set (tfs := with_directives tdir chosen) in *.
    assert (Hlen : length tfs = length chosen) by (rewrite <- (map_length tf_file tfs), Hmap; reflexivity).
    assert (Htfs : map tf_file tfs = firstn (length tfs) (skipn k all)) by (rewrite Hmap, Hlen; exact Hch).
    assert (Hval' : forall tf, In tf tfs -> mode_for TxAll tf <> None) by (intros tf Hin; apply Hval, Hsub, Hin).
    destruct d as [j0 t0]. cbn [s_tbl s_journal] in *.
    destruct (apply_files_m hash hash_eqb HS TxAll tfs (mkSdb j0 t0) None [])
      as [[[[o c1] w1] fs4] es1] eqn:EX.
    destruct (apply_files_m_all_clean tfs (mkSdb j0 t0) None o c1 w1 fs4 es1 k a has HI Hn Htfs Hval' EX) as (-> & HIf).
    assert (Hne : tfs <> []).
    { intros E0. rewrite E0 in Hlen. simpl in Hlen. unfold chosen in Hlen. simpl in Hlen. lia. }
    destruct (HIf Hne) as (wd & -> & HIw).
    assert (k + length tfs = length all) as Ek.
    { rewrite Hlen, <- Esk, skipn_length.
      assert (k < length all).
      { destruct (Nat.lt_ge_cases k (length all)) as [H|H]; [exact H|].
        rewrite skipn_length_ge in Esk by exact H. discriminate. }
      lia. }
    rewrite Ek in HIw. inversion Hex; subst. exact HIw.
Qed.

Lemma cli_apply_m_clean_any g (d : sdb) co d' fs' es :
  (forall tf, In tf tdir -> mode_for g tf <> None) ->
  (exists k a has, Inv (s_tbl d) k a has) ->
  cli_apply_m hash hash_eqb HS g m_cfg 0 tdir d [] = (co, d', fs', es) ->
  Inv (s_tbl d') (length all) 0 false.
Proof.
  intros Hval HI Hex. destruct g.
  - exact (cli_apply_m_clean hash hash_eqb HS hash_eqb_spec all Hsorted skipped Hfull Hfresh tdir Htdir
             TxNone d co d' fs' es ltac:(discriminate) Hval HI Hex).
  - exact (cli_apply_m_clean hash hash_eqb HS hash_eqb_spec all Hsorted skipped Hfull Hfresh tdir Htdir
             TxFile d co d' fs' es ltac:(discriminate) Hval HI Hex).
  - exact (cli_apply_m_clean_all d co d' fs' es Hval HI Hex).
Qed.

Lemma complete_store_any_lemma (rs : list m_run) g :
  Forall (mrun_any_ok tdir) rs ->
  (forall tf, In tf tdir -> mode_for g tf <> None) ->
  let outs := m_history hash hash_eqb HS (rs ++ [mkMRun g 0 tdir []]) (mkSdb [] []) in
  let Dn := m_final hash outs (mkSdb [] []) in
  (exists reps, length reps = length (plan all) /\
                s_journal Dn = expand (plan all) reps /\ list_sum reps <= m_wf hash outs) /\
  (forall f, In f all -> exists r, tbl_get (s_tbl Dn) (f_version f) = Some r /\
                                   r_applied r = length (f_stmts f) /\ r_total r = length (f_stmts f)) /\
  (forall c', cfg_ok c' -> pending c' dir (read_revisions hash (s_tbl Dn)) = (PNoPending, None)).
Proof.
  intros Hok Hval outs Dn.
  destruct (m_history_any_sim hash hash_eqb HS hash_eqb_spec all Hsorted skipped Hfull Hfresh tdir Htdir
              rs (mkSdb [] []) [] 0 Hok (GInv_nil hash HS all)) as (irs & Hoki & Hft & _).
  destruct (runs_ginv hash hash_eqb HS hash_eqb_spec all Hsorted skipped Hfull Hfresh irs [] [] 0 Hoki (GInv_nil hash HS all))
    as (HG1 & _).
  cbn [s_tbl] in Hft. rewrite Hft in HG1.
  set (d1 := m_final hash (m_history hash hash_eqb HS rs (mkSdb [] [])) (mkSdb [] [])) in *.
  assert (HIe : exists k a has, Inv (s_tbl d1) k a has).
  { destruct HG1 as (k & a & has & e & dd & HI & _). eauto. }
  assert (HIn : Inv (s_tbl Dn) (length all) 0 false).
  { unfold Dn, outs. rewrite (m_history_app hash hash_eqb HS). fold d1. unfold m_final at 1. rewrite fold_left_app.
    fold (m_final hash (m_history hash hash_eqb HS rs (mkSdb [] [])) (mkSdb [] [])). fold d1.
    cbn [m_history mr_mode mr_n mr_dir mr_faults].
    destruct (cli_apply_m hash hash_eqb HS g m_cfg 0 tdir d1 []) as [[[co d'] fs'] es] eqn:EX.
    cbn [fold_left fst snd].
    exact (cli_apply_m_clean_any g d1 co d' fs' es Hval HIe EX). }
  assert (Hok' : Forall (mrun_any_ok tdir) (rs ++ [mkMRun g 0 tdir []])).
  { apply Forall_app. split; [exact Hok|]. constructor; [reflexivity|constructor]. }
  destruct (resume_store_any_lemma hash hash_eqb HS hash_eqb_spec all Hsorted skipped Hfull Hfresh tdir Htdir _ Hok')
    as (P & E & reps & H1 & H2 & H3 & H4 & H5 & H6 & H7).
  fold outs in H5, H6, H7. fold Dn in H5, H7.
  rewrite (Inv_claimed hash HS all Hsorted (s_tbl Dn) (length all) 0 false HIn) in H7.
  rewrite (pos_all all), (upto_all all) in H7.
  assert (length (plan all) <= P) as HP.
  { apply (f_equal (@length _)) in H7. rewrite firstn_length in H7. lia. }
  assert (E = length (plan all)) as EE by lia.
  split; [|split].
  - exists reps. rewrite EE in H4, H5. rewrite firstn_all in H5. repeat split; assumption.
  - intros f Hin. apply In_nth_error in Hin as [i Hi].
    assert (i < length all) as Hlt by (apply nth_error_Some; congruence).
    destruct HIn as (_ & _ & Hrows & _). destruct (Hrows i f Hlt Hi) as (r & Hgt & (_ & Hap & _) & Ht).
    exists r. auto.
  - intros c' Hc'.
    rewrite (pending_inv hash HS all Hsorted skipped Hfull Hfresh c' (s_tbl Dn) (length all) 0 false Hc' HIn)
      by (intros H; discriminate).
    rewrite skipn_all. reflexivity.
Qed.

End Dir.

Section Full.
Variable tfull : list tfile.
Hypothesis Hfs : sorted_files (map tf_file tfull).
Notation all := (from_last_ckpt (map tf_file tfull)).

Lemma complete_store_any_full (rs : list m_run) g :
  Forall (mrun_any_on tfull) rs ->
  (forall tf, In tf tfull -> mode_for g tf <> None) ->
  let outs := m_history hash hash_eqb HS (rs ++ [mkMRun g 0 tfull []]) (mkSdb [] []) in
  let Dn := m_final hash outs (mkSdb [] []) in
  (exists reps, length reps = length (plan all) /\
                s_journal Dn = expand (plan all) reps /\ list_sum reps <= m_wf hash outs) /\
  (forall f, In f all -> exists r, tbl_get (s_tbl Dn) (f_version f) = Some r /\
                                   r_applied r = length (f_stmts f) /\ r_total r = length (f_stmts f)) /\
  (forall c', cfg_ok c' -> pending c' (map tf_file tfull) (read_revisions hash (s_tbl Dn)) = (PNoPending, None)).
Proof.
  intros Hok Hval. destruct (full_split (map tf_file tfull) Hfs) as (sk & Efull & Hs1 & Hs2 & Hfr).
  pose proof (complete_store_any_lemma all Hs1 sk Hs2 Hfr tfull Efull rs g Hok Hval) as H.
  rewrite <- Efull in H. exact H.
Qed.

Lemma exactly_once_store_any_full (rs : list m_run) g :
  Forall (mrun_any_on tfull) rs ->
  (forall tf, In tf tfull -> mode_for g tf <> None) ->
  let outs := m_history hash hash_eqb HS (rs ++ [mkMRun g 0 tfull []]) (mkSdb [] []) in
  (forall out r, In out outs -> ~ In (EWrite r false) (snd out)) ->
  s_journal (m_final hash outs (mkSdb [] [])) = plan all.
Proof.
  intros Hok Hval outs Hnw.
  destruct (complete_store_any_full rs g Hok Hval) as ((reps & Hl & Hj & Hs) & _).
  fold outs in Hj, Hs. rewrite (m_wf_no_wfail hash outs Hnw) in Hs.
  rewrite Hj. apply expand_zero; [exact Hl|lia].
Qed.

End Full.
End StoreCompleteAll.
