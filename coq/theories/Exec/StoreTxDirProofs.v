(** C09 over the store contract, directories WITH per-file txmode directives
    under --tx-mode none | file: the COMMITTED database (journal of durable
    effects + revision table) after every run is what a sequence of ideal
    ExecuteN(1) runs leaves -- one per file that ran outside a transaction or
    whose transaction was committed, none for a file whose transaction was
    rolled back. *)
From Coq Require Import List NArith Bool Arith Lia.
From Atlas Require Import Base.Bytes Base.ListX Base.Stutter Exec.ExecModel Exec.ExecProofs Exec.StepProofs
  Exec.PendingModel Exec.PendingProofs Exec.RunModel Exec.TxModel Exec.TxProofs Exec.RunProofs
  Exec.StoreModel Exec.StoreProofs Exec.StoreTxModel Exec.StoreTxProofs.
Import ListNotations.

Definition tversion (tf : tfile) : bytes := f_version (tf_file tf).

Lemma filter_tversion_none (l : list tfile) v :
  ~ In v (map tversion l) ->
  filter (fun tf => bytes_eqb (f_version (tf_file tf)) v) l = [].
Proof.
  induction l as [|a l IH]; simpl; intros H; [reflexivity|].
  destruct (bytes_eqb (f_version (tf_file a)) v) eqn:E.
  - apply bytes_eqb_eq in E. exfalso. apply H. left. exact E.
  - apply IH. intros H'. apply H. right. exact H'.
Qed.

Lemma filter_tversion_unique (dir : list tfile) (a : file) :
  NoDup (map tversion dir) -> In a (map tf_file dir) ->
  map tf_file (filter (fun tf => bytes_eqb (f_version (tf_file tf)) (f_version a)) dir) = [a].
Proof.
  induction dir as [|x l IH]; intros Hnd Hin; [destruct Hin|].
  inversion Hnd as [|? ? Hx Hnd']; subst. simpl in Hin. simpl.
  destruct Hin as [E|Hin].
  - rewrite E, bytes_eqb_refl. simpl. rewrite E. f_equal.
    rewrite filter_tversion_none; [reflexivity|]. unfold tversion in Hx. rewrite E in Hx. exact Hx.
  - destruct (bytes_eqb (f_version (tf_file x)) (f_version a)) eqn:E.
    + apply bytes_eqb_eq in E. exfalso. apply Hx. unfold tversion at 1. rewrite E.
      apply in_map_iff in Hin as (y & Ey & Hy). apply in_map_iff. exists y. split; [unfold tversion; rewrite Ey; reflexivity|exact Hy].
    + apply IH; assumption.
Qed.

Lemma with_directives_files (dir : list tfile) (chosen : list file) :
  NoDup (map tversion dir) -> incl chosen (map tf_file dir) ->
  map tf_file (with_directives dir chosen) = chosen.
Proof.
  intros Hnd. induction chosen as [|a l IH]; intros Hin; [reflexivity|].
  unfold with_directives in *. simpl. rewrite map_app.
  rewrite (filter_tversion_unique dir a Hnd (Hin a (or_introl eq_refl))). simpl. f_equal.
  apply IH. intros x Hx. apply Hin. right. exact Hx.
Qed.

Section StoreDir.
Variable hash : Type.
Variable hash_eqb : hash -> hash -> bool.
Variable HS : bytes -> hash.
Hypothesis hash_eqb_spec : forall a b, hash_eqb a b = true <-> a = b.
Notation rev := (rev hash).
Notation event := (event hash).
Notation sdb := (sdb hash).

Section Dir.
Variable all : list file.
Hypothesis Hsorted : sorted_files all.
Variable skipped : list file.
Hypothesis Hfull : sorted_files (skipped ++ all).
Hypothesis Hfresh : from_last_ckpt (skipped ++ all) = all.
Notation dir := (skipped ++ all).
Notation Inv := (Inv hash HS all).
Notation normal := (normal all).
Notation run_all := (run_all hash hash_eqb HS).
Notation run_ok := (run_ok all skipped).
Notation GInv := (GInv hash HS all).

(** the committed state [(t', j')] reached from [(t, j)] while the calls [es] were made *)
Definition committed_sim (t : list rev) (j : list (bytes * bytes)) (es : list event)
           (t' : list rev) (j' : list (bytes * bytes)) : Prop :=
  exists rs, Forall run_ok rs /\
    final_tbl hash (run_all rs t) t = t' /\
    j' = j ++ journal (all_events hash (run_all rs t)) /\
    wf_all hash (run_all rs t) <= wf es.

Lemma committed_sim_nil t j es : committed_sim t j es t j.
Proof.
  exists []. split; [constructor|]. simpl. split; [reflexivity|]. split; [rewrite app_nil_r; reflexivity|].
  unfold wf_all. simpl. lia.
Qed.

Lemma apply_files_m_dir_sim g c : g <> TxAll -> cfg_ok c ->
  forall tfs (t : list rev) j0 fs o cd w' fs' es k a has,
  Inv t k a has -> normal k a has ->
  map tf_file tfs = firstn (length tfs) (skipn k all) ->
  apply_files_m hash hash_eqb HS g tfs (mkSdb j0 t) None fs = (o, cd, w', fs', es) ->
  w' = None /\ committed_sim t j0 es (s_tbl cd) (s_journal cd).
Proof.
  intros Hg Hc. induction tfs as [|tf rest IH]; intros t j0 fs o cd w' fs' es k a has HI Hn Hfiles Hex.
  - simpl in Hex. inversion Hex; subst. simpl. split; [reflexivity|apply committed_sim_nil].
  - cbn [map length firstn] in Hfiles.
    destruct (skipn k all) as [|f tl] eqn:Esk; [discriminate|].
    inversion Hfiles as [[Ef Erest]].
    destruct (skipn_cons_inv all k f tl Esk) as [Hnth Esk'].
    cbn [apply_files_m] in Hex.
    destruct (mode_for g tf) as [m|].
    2:{ inversion Hex; subst. simpl. split; [reflexivity|apply committed_sim_nil]. }
    (* what one Execute of the file does, whatever the mode *)
    assert (Hexec : exec_on hash hash_eqb HS tf (mkSdb j0 t) fs =
                    let '(b, fs0) := pop fs in
                    if b then (SReadErr, mkSdb (j0 ++ []) t, fs0, [])
                    else let '(o1, t1, fs1, es1) := execute hash hash_eqb HS f t fs0 in
                         (SExec o1, mkSdb (j0 ++ journal es1) t1, fs1, es1)).
    { unfold exec_on. cbn [s_tbl s_journal]. rewrite Ef, execute_st_cases.
      destruct (pop fs) as [b fs0]. destruct b; [reflexivity|].
      destruct (execute hash hash_eqb HS f t fs0) as [[[o1 t1] fs1] es1]. reflexivity. }
    cbv zeta in Hex. cbv iota in Hex. rewrite !Hexec in Hex. clear Hexec.
    destruct (pop fs) as [b fs0]. destruct b.
    { destruct m; inversion Hex; subst; simpl; (split; [reflexivity|]);
        try rewrite app_nil_r; apply committed_sim_nil. }
    pose proof (ideal_one hash hash_eqb HS all Hsorted skipped Hfull Hfresh c f tl t k a has fs0 Hc HI Hn Esk) as Hid.
    destruct (execute hash hash_eqb HS f t fs0) as [[[o1 t1] fs1] es1] eqn:EX.
    set (r1 := mkRun c 1 dir fs0).
    assert (Hr1 : run_ok r1) by (split; [reflexivity|exact Hc]).
    assert (Hone : run_all [r1] t = [(RExec o1, t1, es1)]).
    { cbn [RunModel.run_all]. unfold r1. cbn [run_cfg run_n run_dir run_faults]. rewrite Hid. reflexivity. }
    assert (o1 = ODone \/ o1 <> ODone) as [Eo|Hne] by (destruct o1; auto; right; discriminate).
    + (* the file completed: its effects are committed in every mode *)
      subst o1.
      assert (Hcont : exists o2 c2 w2 fs2 es2,
                apply_files_m hash hash_eqb HS g rest (mkSdb (j0 ++ journal es1) t1) None fs1 = (o2, c2, w2, fs2, es2) /\
                (o, cd, w', fs', es) = (o2, c2, w2, fs2, es1 ++ es2)).
      { destruct (apply_files_m hash hash_eqb HS g rest (mkSdb (j0 ++ journal es1) t1) None fs1)
          as [[[[o2 c2] w2] fs2] es2] eqn:EX2.
        exists o2, c2, w2, fs2, es2. split; [reflexivity|].
        destruct m; destruct g; try contradiction; rewrite ?EX2 in Hex; symmetry; exact Hex. }
      destruct Hcont as (o2 & c2 & w2 & fs2 & es2 & EX2 & Eres).
      inversion Eres; subst o cd w' fs' es. clear Eres Hex.
      assert (Hx : exec_files hash hash_eqb HS [f] t fs0 = (ODone, t1, fs1, es1))
        by (rewrite exec_files_single; exact EX).
      assert (Hf1 : [f] = firstn (length [f]) (skipn k all)) by (rewrite Esk; reflexivity).
      destruct (exec_files_inv hash hash_eqb HS hash_eqb_spec all Hsorted [f] t fs0 ODone t1 fs1 es1 k a has HI Hn Hf1 Hx)
        as (Hp & _ & Ht1).
      destruct (Hp es1 [] ltac:(rewrite app_nil_r; reflexivity)) as (k1 & a1 & has1 & e1 & HI1 & _ & _ & _ & H5).
      destruct (H5 eq_refl) as [_ Hd].
      assert (Hne1 : [f] <> []) by discriminate.
      destruct (Hd eq_refl (or_introl Hne1)) as (E1 & E2 & E3 & E4). subst k1 a1 has1 e1.
      rewrite <- Ht1 in HI1. replace (k + length [f]) with (S k) in HI1 by (simpl; lia).
      assert (Hn1 : normal (S k) 0 false) by (intros H; discriminate).
      assert (Erest' : map tf_file rest = firstn (length rest) (skipn (S k) all)) by (rewrite Esk'; exact Erest).
      destruct (IH t1 (j0 ++ journal es1) fs1 o2 c2 w2 fs2 es2 (S k) 0 false HI1 Hn1 Erest' EX2)
        as (-> & rs' & Hok & Hft & Hj & Hwf).
      split; [reflexivity|].
      exists ([r1] ++ rs'). split; [constructor; assumption|].
      rewrite run_all_app, Hone. unfold final_tbl at 1. cbn [fold_left fst snd].
      unfold all_events, final_tbl, wf_all in *. rewrite flat_map_app, fold_left_app, map_app, list_sum_app.
      cbn [flat_map fold_left map fst snd]. rewrite app_nil_r, Hft.
      split; [reflexivity|]. split; [rewrite Hj, journal_app, app_assoc; reflexivity|].
      pose proof (wf_app hash es1 es2).
      assert (list_sum [wf es1] = wf es1) as -> by (simpl; lia). lia.
    + (* the file failed: outside a transaction what ran stays; inside, the transaction is rolled back *)
      destruct m.
      * assert ((MFail (SExec o1), mkSdb (j0 ++ journal es1) t1, @None sdb, fs1, es1) = (o, cd, w', fs', es)) as Eres.
        { rewrite <- Hex. destruct o1; try reflexivity. contradiction. }
        inversion Eres; subst o cd w' fs' es. clear Eres Hex.
        split; [reflexivity|].
        exists [r1]. split; [constructor; [assumption|constructor]|].
        rewrite Hone. unfold all_events, final_tbl, wf_all. cbn [flat_map fold_left map fst snd s_tbl s_journal].
        rewrite app_nil_r. split; [reflexivity|]. split; [reflexivity|]. simpl. lia.
      * assert ((MFail (SExec o1), mkSdb j0 t, @None sdb, fs1, es1) = (o, cd, w', fs', es)) as Eres.
        { rewrite <- Hex. destruct o1; try reflexivity. contradiction. }
        inversion Eres; subst. split; [reflexivity|apply committed_sim_nil].
      * assert ((MFail (SExec o1), mkSdb j0 t, @None sdb, fs1, es1) = (o, cd, w', fs', es)) as Eres.
        { rewrite <- Hex. destruct o1; try reflexivity. contradiction. }
        inversion Eres; subst. split; [reflexivity|apply committed_sim_nil].
Qed.

(** ** one `migrate apply`, and histories, over a directory with directives *)
Variable tdir : list tfile.
Hypothesis Htdir : map tf_file tdir = dir.

Lemma tdir_NoDup : NoDup (map tversion tdir).
Proof.
  assert (map tversion tdir = map f_version dir) as ->.
  { rewrite <- Htdir, map_map. reflexivity. }
  apply sorted_files_NoDup. exact Hfull.
Qed.

Lemma cli_apply_m_dir_sim g c n (d : sdb) fs co d' fs' es :
  g <> TxAll -> cfg_ok c -> (exists k a has, Inv (s_tbl d) k a has) ->
  cli_apply_m hash hash_eqb HS g c n tdir d fs = (co, d', fs', es) ->
  committed_sim (s_tbl d) (s_journal d) es (s_tbl d') (s_journal d').
Proof.
  intros Hg Hc (k0 & a0 & has0 & HI0) Hex.
  destruct (normalize hash HS all (s_tbl d) k0 a0 has0 HI0) as (k & a & has & HI & Hn & _).
  unfold cli_apply_m in Hex. rewrite Htdir in Hex.
  unfold read_revisions_f in Hex.
  destruct (pop fs) as [b1 fs1]. destruct b1.
  { inversion Hex; subst. apply committed_sim_nil. }
  rewrite (pending_inv hash HS all Hsorted skipped Hfull Hfresh c (s_tbl d) k a has Hc HI Hn) in Hex.
  cbn [negb] in Hex.
  destruct (skipn k all) as [|f l] eqn:Esk.
  - cbn [finish] in Hex. destruct (pop fs1) as [b2 fs2]. destruct b2; inversion Hex; subst; simpl; apply committed_sim_nil.
  - change (finish (f :: l)) with (PFiles (f :: l)) in Hex. cbv iota in Hex.
    destruct (pop fs1) as [b2 fs3]. destruct b2.
    { inversion Hex; subst. simpl. apply committed_sim_nil. }
    set (chosen := if 0 <? n then firstn n (f :: l) else f :: l) in *.
    assert (Hch : chosen = firstn (length chosen) (skipn k all)).
    { rewrite Esk. unfold chosen. destruct (0 <? n); [apply firstn_length_self|].
      symmetry. apply firstn_all. }
    assert (Hincl : incl chosen (map tf_file tdir)).
    { rewrite Htdir. intros x Hx. rewrite Hch in Hx. apply in_or_app. right. eapply in_skipn. eapply in_firstn. exact Hx. }
    pose proof (with_directives_files tdir chosen tdir_NoDup Hincl) as Hmap.
    set (tfs := with_directives tdir chosen) in *.
    assert (Hlen : length tfs = length chosen) by (rewrite <- (map_length tf_file tfs), Hmap; reflexivity).
    assert (Htfs : map tf_file tfs = firstn (length tfs) (skipn k all)) by (rewrite Hmap, Hlen; exact Hch).
    destruct d as [j0 t0]. cbn [s_tbl s_journal] in *.
    destruct (apply_files_m hash hash_eqb HS g tfs (mkSdb j0 t0) None fs3)
      as [[[[o c1] w1] fs4] es1] eqn:EX.
    destruct (apply_files_m_dir_sim g c Hg Hc tfs t0 j0 fs3 o c1 w1 fs4 es1 k a has HI Hn Htfs EX) as (-> & Hsim).
    assert ((XRun o, c1, fs4, [] ++ es1) = (co, d', fs', es)) as Eres.
    { rewrite <- Hex. destruct o; reflexivity. }
    inversion Eres; subst. simpl. exact Hsim.
Qed.

Definition mrun_dir_ok (r : m_run) : Prop := mr_mode r <> TxAll /\ mr_dir r = tdir.

Lemma m_history_dir_sim : forall (rs : list m_run) (d : sdb) J D,
  Forall mrun_dir_ok rs -> GInv (s_tbl d) J D ->
  let outs := m_history hash hash_eqb HS rs d in
  exists irs, Forall run_ok irs /\
    final_tbl hash (run_all irs (s_tbl d)) (s_tbl d) = s_tbl (m_final hash outs d) /\
    s_journal (m_final hash outs d) = s_journal d ++ journal (all_events hash (run_all irs (s_tbl d))) /\
    wf_all hash (run_all irs (s_tbl d)) <= m_wf hash outs.
Proof.
  induction rs as [|r rs IH]; intros d J D Hok HG.
  - simpl. exists []. split; [constructor|]. simpl. split; [reflexivity|]. split; [rewrite app_nil_r; reflexivity|].
    unfold wf_all, m_wf. simpl. lia.
  - inversion Hok as [|? ? [Hm Hd] Hok']; subst.
    cbn [m_history]. rewrite Hd.
    destruct (cli_apply_m hash hash_eqb HS (mr_mode r) m_cfg (mr_n r) tdir d (mr_faults r))
      as [[[co d1] fs1] es1] eqn:EX.
    assert (HIe : exists k a has, Inv (s_tbl d) k a has).
    { destruct HG as (k & a & has & e & dd & HI & _). eauto. }
    destruct (cli_apply_m_dir_sim (mr_mode r) m_cfg (mr_n r) d (mr_faults r) co d1 fs1 es1 Hm (m_cfg_ok) HIe EX)
      as (irs1 & Hok1 & Hft1 & Hj1 & Hwf1).
    destruct (runs_ginv hash hash_eqb HS hash_eqb_spec all Hsorted skipped Hfull Hfresh irs1 (s_tbl d) J D Hok1 HG)
      as (HG1 & _).
    rewrite Hft1 in HG1.
    destruct (IH d1 _ _ Hok' HG1) as (irs2 & Hok2 & Hft2 & Hj2 & Hwf2).
    unfold m_events, m_final, m_wf in *. cbn [flat_map fold_left map fst snd].
    exists (irs1 ++ irs2). split; [apply Forall_app; split; assumption|].
    rewrite run_all_app, Hft1.
    unfold all_events, final_tbl, wf_all in *.
    rewrite flat_map_app, fold_left_app, map_app, list_sum_app, Hft1, Hft2.
    split; [reflexivity|]. split; [rewrite Hj2, Hj1, journal_app, app_assoc; reflexivity|].
    unfold list_sum in *. cbn [fold_right] in *. lia.
Qed.

Lemma resume_store_dir_lemma (rs : list m_run) :
  Forall mrun_dir_ok rs ->
  let outs := m_history hash hash_eqb HS rs (mkSdb [] []) in
  exists P E reps,
    P <= E /\ E <= P + 1 /\ E <= length (plan all) /\ length reps = E /\
    s_journal (m_final hash outs (mkSdb [] [])) = expand (firstn E (plan all)) reps /\
    list_sum reps <= m_wf hash outs /\
    claimed_plan hash all (s_tbl (m_final hash outs (mkSdb [] []))) = firstn P (plan all).
Proof.
  intros Hok outs.
  destruct (m_history_dir_sim rs (mkSdb [] []) [] 0 Hok (GInv_nil hash HS all)) as (irs & Hoki & Hft & Hj & Hwf).
  fold outs in Hj, Hft, Hwf. cbn [s_tbl s_journal app] in *.
  destruct (resume_lemma hash hash_eqb HS hash_eqb_spec all Hsorted skipped Hfull Hfresh irs Hoki)
    as (P & E & reps & H1 & H2 & H3 & H4 & H5 & H6 & H7).
  exists P, E, reps. rewrite Hft in H7.
  repeat (split; [assumption|]). split; [rewrite Hj; exact H5|].
  split; [lia|exact H7].
Qed.

End Dir.

(** ** whole directories (checkpoint files and directives allowed) *)
Section Full.
Variable tfull : list tfile.
Hypothesis Hfs : sorted_files (map tf_file tfull).
Notation all := (from_last_ckpt (map tf_file tfull)).

Definition mrun_dir_on (r : m_run) : Prop := mr_mode r <> TxAll /\ mr_dir r = tfull.

Lemma resume_store_dir_full (rs : list m_run) :
  Forall mrun_dir_on rs ->
  let outs := m_history hash hash_eqb HS rs (mkSdb [] []) in
  exists P E reps,
    P <= E /\ E <= P + 1 /\ E <= length (plan all) /\ length reps = E /\
    s_journal (m_final hash outs (mkSdb [] [])) = expand (firstn E (plan all)) reps /\
    list_sum reps <= m_wf hash outs /\
    claimed_plan hash all (s_tbl (m_final hash outs (mkSdb [] []))) = firstn P (plan all).
Proof.
  intros Hok. destruct (full_split (map tf_file tfull) Hfs) as (sk & Efull & Hs1 & Hs2 & Hfr).
  exact (resume_store_dir_lemma all Hs1 sk Hs2 Hfr tfull Efull rs Hok).
Qed.

End Full.
End StoreDir.
