(** M-LOCK: the migration lock of `atlas migrate apply` on SQLite.

    cmd/atlas/internal/cmdapi/migrate_oss.go: migrateApplyRun
      unlock, err := client.Driver.Lock(ctx, applyLockValue, flags.lockTimeout)   -- error: return, nothing ran
      defer func() { cobra.CheckErr(unlock()) }()                                 -- every normal exit, also errors
    sql/sqlite/driver.go: Driver.Lock, acquireLock
      the lock is a FILE in os.TempDir() (name + ".lock"); its content is the decimal expiry
      time now+timeout (--lock-timeout is the lock's life time, Lock never waits);
      no file -> acquire; unreadable number -> error "invalid lock file format"; expiry in the
      future -> error "already taken"; else acquire. acquireLock = os.Create (the file exists
      and is EMPTY) then Write(expiry); unlock = os.Remove(path) (whatever file is there;
      an error if none is).

    The lock file is state that survives the death of the process: a crash skips the deferred
    unlock. Times are abstract numbers (the tie uses milliseconds). No proofs here. *)
From Coq Require Import List NArith Bool Arith.
From Atlas Require Import Base.Bytes Exec.ExecModel Exec.PendingModel Exec.RunModel Exec.TxModel.
Import ListNotations.

(** [None]: no file; [Some None]: a file whose content is not a number (empty: created and not
    yet written); [Some (Some e)]: expiry time [e]. *)
Definition lockfile := option (option N).

Inductive lock_result := LAcquired | LTaken | LInvalid.

(** Driver.Lock up to the decision. [time.Unix(0, expires).After(time.Now())] = now < e. *)
Definition lock_check (now : N) (l : lockfile) : lock_result :=
  match l with
  | None => LAcquired
  | Some None => LInvalid
  | Some (Some e) => if (now <? e)%N then LTaken else LAcquired
  end.

(** acquireLock: the two file operations. *)
Definition acquire_created : lockfile := Some None.
Definition acquire_written (now timeout : N) : lockfile := Some (Some (now + timeout)%N).

Definition lock (now timeout : N) (l : lockfile) : lock_result * lockfile :=
  match lock_check now l with
  | LAcquired => (LAcquired, acquire_written now timeout)
  | r => (r, l)
  end.

(** unlock = os.Remove(path): fails if there is no file (cobra.CheckErr then exits 1). *)
Definition unlock_ok (l : lockfile) : bool := match l with None => false | Some _ => true end.
Definition unlock (l : lockfile) : lockfile := None.

(** Where the process dies: not at all, inside acquireLock between os.Create and Write, or at
    the [k]-th occurrence of crash point [pt] of the apply run (M-TX). *)
Inductive ccrash := CNo | CInAcquire | CAt (pt : point) (k : nat).

Section Lock.
Variable hash : Type.
Variable hash_eqb : hash -> hash -> bool.
Variable HS : bytes -> hash.
Notation db := (db hash).

Inductive cout :=
| CLockTaken                (* "acquiring database lock: ... already taken" *)
| CLockInvalid              (* "acquiring database lock: ... invalid lock file format" *)
| CCrashed
| CUnlockErr (o : aoutcome) (* the run ended with [o], then os.Remove failed *)
| CRan (o : aoutcome).

(** One `atlas migrate apply` process started at time [now] with --lock-timeout [timeout] on
    the lock file and database [s]. *)
Definition locked_apply (now timeout : N) (cr : ccrash) (global : mode) (n : nat) (dir : list tfile)
           (s : lockfile * db) : cout * (lockfile * db) :=
  let '(l, d) := s in
  match lock now timeout l with
  | (LTaken, _) => (CLockTaken, (l, d))
  | (LInvalid, _) => (CLockInvalid, (l, d))
  | (LAcquired, l1) =>
      let '(o, d', tr) := apply_run hash hash_eqb HS global n dir d in
      match cr with
      | CInAcquire => (CCrashed, (acquire_created, d))
      | CAt pt k =>
          match crash_state hash tr pt k with
          | Some dc => (CCrashed, (l1, dc))           (* the deferred unlock never runs *)
          | None => (CRan o, (unlock l1, d'))
          end
      | CNo => (CRan o, (unlock l1, d'))
      end
  end.

(** Two processes on one database. A starts at [tA] (timeout [TA]) on a free lock and is
    suspended at the [k]-th occurrence of point [pt]; B runs a whole command at [tB] on what is
    on disk at that moment (A's lock file, the committed state); A resumes. A does not read
    the database again: without a transaction (none mode, the only case modelled here) its
    remaining statements are appended to whatever is there, its remaining revision writes
    overwrite the rows of its files, and its deferred unlock removes whatever lock file exists. *)
Definition interleave_none (dA dc dB : db) : db :=
  mkDb (d_journal dB ++ skipn (length (d_journal dc)) (d_journal dA)) (d_tbl dA).

Definition concurrent_apply (tA TA tB TB : N) (pt : point) (k : nat) (n : nat) (dir : list tfile) (d0 : db)
  : option (cout * cout * (lockfile * db)) :=
  let lA := acquire_written tA TA in
  let '(oA, dA, tr) := apply_run hash hash_eqb HS TxNone n dir d0 in
  match crash_state hash tr pt k with
  | None => None
  | Some dc =>
      let '(oB, (lB, dB)) := locked_apply tB TB CNo TxNone n dir (lA, dc) in
      let final := match oB with CRan _ => interleave_none dA dc dB | _ => dA end in
      Some ((if unlock_ok lB then CRan oA else CUnlockErr oA), oB, (unlock lB, final))
  end.

End Lock.

