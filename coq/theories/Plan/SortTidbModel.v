(** M-SORT, part 3 (round 5) -- the TiDB planner: sql/mysql/tidb.go, method PlanChanges of tplanApply.

    Installed by mysql.Open when the server version contains "TiDB" (driver_oss.go: c.TiDB()).  It does NOT run
    sqlx.SortChanges on the change list: it runs sqlx.DetachCycles, breaks every ModifyTable into one ModifyTable
    per sub-change ([flat]), re-sorts the atomic changes with sort.SliceStable by [priority] and hands each atomic
    change, alone, to the MySQL planner (planApply.PlanChanges = topLevel, DetachCycles, SortChanges of a one-element
    list, then state.modifyTable).  Go code followed (names kept):
      tidb.go : priority  -- the table of priorities is DUMPED from the Go source on every run into
                             gen/Gen_TidbPriority.v (harness/cmd/sort/gen.go, go/ast); ModifyTable -> priority(c.Changes[0])
                flat      -- [tflat]; a ModifyTable without sub-changes disappears
                PlanChanges -- [tidb_order] (DetachCycles, flat, stable sort) and [tidb_sources] (what Plan.Changes[i].Source
                             carries: SortModel.plan of the singleton, then mysql_sources)
    sort.SliceStable is stable for every length: the model's stable insertion sort (SortModel.sort_by) is exact here.
    Restrictions: as SortModel.v (table / foreign-key changes).  A plain column change [Other k] is an AddColumn when k
    is even and a DropColumn when k is odd (the convention of the harness' scenario builder).  ModifySchema / AddSchema /
    DropSchema are outside (the TiDB planner has no topLevel pass over the whole list; the stage has no schema-level changes).
    The other MySQL-family flavours (MariaDB: driver name / URL scheme only, driver_oss.go) use planApply unchanged. *)
From Coq Require Import List Bool Arith Lia.
From Atlas Require Import Plan.SortModel gen.Gen_TidbPriority.
Import ListNotations.

(* tidb.go: priority, on the sub-change of an atomic ModifyTable *)
Definition tc_priority (c : tchange) : nat :=
  match c with
  | AddFK _ => gen_prio_AddForeignKey
  | DropFK _ => gen_prio_DropForeignKey
  | ModifyFK _ _ => gen_prio_ModifyForeignKey
  | Other k => if Nat.even k then gen_prio_AddColumn else gen_prio_DropColumn
  end.

(* tidb.go: priority.  ModifyTable: priority(c.Changes[0]); c.Changes[0] of an empty ModifyTable would panic -- flat
   never emits one (SortTidbProofs.tflat_atomic); the model reads 0 there *)
Definition priority (c : change) : nat :=
  match c with
  | AddTable _ _ => gen_prio_AddTable
  | DropTable _ _ => gen_prio_DropTable
  | ModifyTable _ [] => 0
  | ModifyTable _ (tc :: _) => tc_priority tc
  end.

(* tidb.go: flat *)
Definition tflat1 (c : change) : list change :=
  match c with
  | ModifyTable t cs => map (fun tc => ModifyTable t [tc]) cs
  | c => [c]
  end.
Definition tflat (l : list change) : list change := flat_map tflat1 l.

Inductive tres := TOut | TOk (l : list change).

(* detachReferences, AddTable arm: when a created table has a key to another table, the planned change is
   &schema.AddTable{T: &t} with t := *change.T -- a NEW *schema.Table, while the kept self-referencing keys still
   have RefTable == change.T, the old pointer.  SortModel.det_planned keeps the id (no comparison of the default
   planners looks at the copy again); the TiDB planner plans every atomic change a second time, alone, and there
   fk.RefTable != change.T holds for the copy: the self reference is detached into an ALTER.  [recopy] gives the
   copies their fresh pointer: id = 1 + the largest id of the change set + the old id. *)
Definition fk_ids (f : fkey) : list nat := [t_id (f_tab f); t_id (f_ref f)].
Definition tc_ids (c : tchange) : list nat :=
  match c with
  | AddFK f | DropFK f => fk_ids f
  | ModifyFK a b => fk_ids a ++ fk_ids b
  | Other _ => []
  end.
Definition change_ids (c : change) : list nat :=
  match c with
  | AddTable t fks | DropTable t fks => t_id t :: flat_map fk_ids fks
  | ModifyTable t cs => t_id t :: flat_map tc_ids cs
  end.
Definition fresh_id (changes : list change) : nat := S (list_max (flat_map change_ids changes)).

(* was AddTable t copied by detachReferences?  (it had a foreign key to another table object) *)
Definition is_copied (changes : list change) (t : table) : bool :=
  existsb (fun c => match c with
                    | AddTable t' fks => ptr_eqb t' t && existsb (fun f => negb (ptr_eqb (f_ref f) t')) fks
                    | _ => false
                    end) changes.

Definition recopy (changes : list change) (c : change) : change :=
  match c with
  | AddTable t fks =>
      if is_copied changes t
      then AddTable (mkT (t_name t) (t_schema t) (fresh_id changes + t_id t)) fks
      else c
  | c => c
  end.

(* sqlx.DetachCycles as the TiDB planner sees its result *)
Definition tidb_detach (changes : list change) : dcres :=
  match sortMap changes, DetachCycles changes with
  | SMCycle, DCOk l => DCOk (map (recopy changes) l)
  | _, r => r
  end.

(* PlanChanges: DetachCycles, flat, sort.SliceStable by priority *)
Definition tidb_order (changes : list change) : tres :=
  match tidb_detach changes with
  | DCOut => TOut
  | DCOk l => TOk (sort_by priority (tflat l))
  end.

(* ... then planApply.PlanChanges on each atomic change alone; the sources of the resulting statements *)
Definition tidb_sources (l : list change) : list change :=
  flat_map (fun c => match plan [c] with POk r => flat_map mysql_sources r | POut => [] end) l.

Definition tidb_plan (changes : list change) : tres :=
  match tidb_order changes with TOut => TOut | TOk l => TOk (tidb_sources l) end.
