(** M-SORT, part 3 -- the TiDB planner: the exception is exact.  When no foreign key is re-pointed to a table that is
    not yet in the catalogue, the TiDB order (DetachCycles, flat, stable sort by priority) of a well-formed change set
    replays on every consistent catalogue. *)
From Coq Require Import List Bool Arith Lia Permutation Sorted.
From Atlas Require Import Plan.SortModel Plan.SortDfs Plan.SortReplay Plan.SortProofs Plan.SortExamples
  Plan.SortTidbModel Plan.SortTidbProofs gen.Gen_TidbPriority.
Import ListNotations.

(** * the pointer copy does not matter to the catalogue *)
Lemma replay1_recopy cs c x : replay1 c (recopy cs x) = replay1 c x.
Proof. destruct x as [t fks|t fks|t tcs]; simpl; try reflexivity. destruct (is_copied cs t); reflexivity. Qed.

Lemma replay_map_recopy cs l : forall c, replay (map (recopy cs) l) c = replay l c.
Proof.
  induction l as [|x l IH]; intros c; simpl; [reflexivity|]. rewrite replay1_recopy.
  destruct (replay1 c x); [apply IH|reflexivity].
Qed.

Lemma priority_recopy cs x : priority (recopy cs x) = priority x.
Proof. destruct x as [t fks|t fks|t tcs]; simpl; try reflexivity. destruct (is_copied cs t); reflexivity. Qed.

Lemma insert_by_map (g : change -> change) key c l :
  (forall x, key (g x) = key x) -> insert_by key (g c) (map g l) = map g (insert_by key c l).
Proof.
  intros H. induction l as [|x l IH]; simpl; [reflexivity|]. rewrite !H.
  destruct (key c <? key x); simpl; [reflexivity|]. rewrite IH. reflexivity.
Qed.

Lemma sort_by_map (g : change -> change) key l :
  (forall x, key (g x) = key x) -> sort_by key (map g l) = map g (sort_by key l).
Proof.
  intros H. unfold sort_by.
  assert (G : forall acc, fold_left (fun acc c => insert_by key c acc) (map g l) (map g acc) =
                          map g (fold_left (fun acc c => insert_by key c acc) l acc)).
  { induction l as [|c l IH]; intros acc; simpl; [reflexivity|]. rewrite (insert_by_map g key c acc H). apply IH. }
  apply (G []).
Qed.

Lemma tflat_map_recopy cs l : tflat (map (recopy cs) l) = map (recopy cs) (tflat l).
Proof.
  unfold tflat. induction l as [|x l IH]; simpl; [reflexivity|]. rewrite map_app, IH. f_equal.
  destruct x as [t fks|t fks|t tcs]; simpl.
  - destruct (is_copied cs t); reflexivity.
  - reflexivity.
  - rewrite map_map. reflexivity.
Qed.

(** * sorted by priority, then by a key: lexicographic rank *)
Lemma lex_sorted (p q : change -> nat) K l :
  StronglySorted (fun x y => p x <= p y) l ->
  (forall k, StronglySorted (rle q) (filter (fun x => p x =? k) l)) ->
  (forall x, In x l -> q x < K) ->
  StronglySorted (rle (fun x => p x * K + q x)) l.
Proof.
  intros Hs. induction Hs as [|a l Hs IH Ha]; intros Hq HK; [constructor|].
  constructor.
  - apply IH.
    + intros k. specialize (Hq k). simpl in Hq. destruct (p a =? k); [inversion Hq; assumption|exact Hq].
    + intros x Hx. apply HK. right. exact Hx.
  - apply Forall_forall. intros b Hb. unfold rle. rewrite Forall_forall in Ha. pose proof (Ha b Hb) as Hle.
    pose proof (HK a (or_introl eq_refl)) as Hqa.
    destruct (Nat.eq_dec (p a) (p b)) as [E|E].
    + specialize (Hq (p a)). simpl in Hq. rewrite Nat.eqb_refl in Hq. inversion Hq as [|? ? _ Hf]; subst.
      rewrite Forall_forall in Hf. assert (Hbf : In b (filter (fun x => p x =? p a) l)).
      { apply filter_In. split; [exact Hb|]. apply Nat.eqb_eq. symmetry. exact E. }
      pose proof (Hf b Hbf) as H1. unfold rle in H1. rewrite E. lia.
    + assert (Hlt : p a < p b) by lia. nia.
Qed.

Lemma SS_tflat (k : change -> nat) d :
  StronglySorted (rle k) d -> (forall x y, In y (tflat1 x) -> k y = k x) -> StronglySorted (rle k) (tflat d).
Proof.
  intros Hs Hk. induction Hs as [|a d Hs IH Ha]; [constructor|]. unfold tflat in *. simpl.
  apply SS_app; [|exact IH|].
  - apply (SS_const k (k a)). intros y Hy. apply Hk. exact Hy.
  - intros x y Hx Hy. apply in_flat_map in Hy. destruct Hy as [b [Hb Hy]].
    rewrite Forall_forall in Ha. pose proof (Ha b Hb) as H1. unfold rle in *. rewrite (Hk a x Hx), (Hk b y Hy). exact H1.
Qed.

Lemma tflat1_rm x : flat_map rm_keys (tflat1 x) = rm_keys x.
Proof.
  destruct x as [t fks|t fks|t tcs]; simpl; try reflexivity.
  induction tcs as [|tc tcs IH]; simpl; [reflexivity|]. rewrite IH, app_nil_r, map_app. reflexivity.
Qed.

Lemma tflat_rm l : flat_map rm_keys (tflat l) = flat_map rm_keys l.
Proof. unfold tflat. rewrite flat_map_flat_map. apply flat_map_ext. apply tflat1_rm. Qed.

Lemma tflat_added d x f : In x (tflat d) -> In f (added_fks x) ->
  exists y, In y d /\ In f (added_fks y) /\ nm y = nm x /\ In x (tflat1 y).
Proof.
  intros Hx Hf. apply in_flat_map in Hx. destruct Hx as [y [Hy Hx]]. exists y. split; [exact Hy|].
  destruct y as [t fks|t fks|t tcs]; simpl in Hx.
  - destruct Hx as [<-|[]]. split; [exact Hf|]. split; [reflexivity|left; reflexivity].
  - destruct Hx as [<-|[]]. split; [exact Hf|]. split; [reflexivity|left; reflexivity].
  - pose proof Hx as Hx'. apply in_map_iff in Hx. destruct Hx as [tc [<- Htc]]. simpl in Hf. rewrite app_nil_r in Hf.
    split; [|split; [reflexivity|exact Hx']].
    simpl. apply in_flat_map. exists tc. split; assumption.
Qed.

Lemma in_tflat d x : In x (tflat d) ->
  (In x d /\ match x with ModifyTable _ _ => False | _ => True end) \/
  (exists t tcs tc, x = ModifyTable t [tc] /\ In (ModifyTable t tcs) d /\ In tc tcs).
Proof.
  intros Hx. apply in_flat_map in Hx. destruct Hx as [y [Hy Hx]].
  destruct y as [t fks|t fks|t tcs]; simpl in Hx.
  - destruct Hx as [<-|[]]. left. split; [exact Hy|exact I].
  - destruct Hx as [<-|[]]. left. split; [exact Hy|exact I].
  - apply in_map_iff in Hx. destruct Hx as [tc [<- Htc]]. right. exists t, tcs, tc. repeat split; assumption.
Qed.

Lemma tflat_keep d y : In y d -> match y with ModifyTable _ _ => False | _ => True end -> In y (tflat d).
Proof.
  intros Hy Hs. apply in_flat_map. exists y. split; [exact Hy|]. destruct y; simpl; try (left; reflexivity). destruct Hs.
Qed.

Lemma lex_lt a b k i j : a < b -> i < k -> a * k + i < b * k + j.
Proof. intros. nia. Qed.
Lemma lex_le a b k i j : a <= b -> i < j -> a * k + i < b * k + j.
Proof. intros. nia. Qed.

Lemma prio_facts :
  gen_prio_AddTable <= gen_prio_AddForeignKey /\ gen_prio_DropForeignKey < gen_prio_DropTable /\
  gen_prio_ModifyForeignKey < gen_prio_DropTable.
Proof. vm_compute. repeat split; lia. Qed.

(** * the core: positional facts about the flattened list, in terms of the lexicographic rank, give split_ok *)
Section Core.
  Variable c : cat.
  Variable d out : list change.
  Hypothesis Hpo : Permutation d out.
  Hypothesis Hso : split_ok out c.
  Variable key : change -> nat.
  Variable K : nat.
  Hypothesis K1 : StronglySorted (rle key) (tflat d).
  Hypothesis K2 : forall x, In x (tflat d) -> key x < K.

  Definition rk (x : change) : nat := priority x * K + key x.
  Let l := sort_by priority (tflat d).

  Hypothesis Pfk : forall x f, In x (tflat d) -> In f (added_fks x) ->
    In (qn (f_ref f)) (c_tabs c) \/ (exists y, In y (tflat d) /\ adds y = [qn (f_ref f)] /\ rk y < rk x) \/ adds x = [qn (f_ref f)].
  Hypothesis Pmod : forall t tcs, In (ModifyTable t tcs) (tflat d) ->
    (~ In (qn t) (flat_map drops d) \/ forall y, In y (tflat d) -> is_drop y = true -> rk (ModifyTable t tcs) < rk y) /\
    (In (qn t) (c_tabs c) \/ exists y, In y (tflat d) /\ adds y = [qn t] /\ rk y < rk (ModifyTable t tcs)).
  Hypothesis Pdrop : forall p fks e, In (DropTable p fks) (tflat d) -> In e (c_fks c) -> snd e = qn p -> fst (fst e) <> qn p ->
    exists y, In y (tflat d) /\ removes (fst (fst e)) (snd (fst e)) y = true /\ rk y < rk (DropTable p fks).

  Lemma core_perm : Permutation (tflat d) l.
  Proof. destruct (sort_by_spec priority (tflat d) [] (SSorted_nil _)) as [H _]. exact H. Qed.

  Lemma core_in x : In x l <-> In x (tflat d).
  Proof. split; intros H; [apply (Permutation_in _ (Permutation_sym core_perm) H)|apply (Permutation_in _ core_perm H)]. Qed.

  Lemma core_sorted : StronglySorted (rle rk) l.
  Proof.
    destruct (sort_by_spec priority (tflat d) [] (SSorted_nil _)) as [_ H2].
    apply lex_sorted; [exact H2| |].
    - intros k. unfold l, sort_by. rewrite (sort_by_stable priority k (tflat d) [] (SSorted_nil _)). simpl.
      apply SS_filter. exact K1.
    - intros x Hx. apply K2. apply core_in. exact Hx.
  Qed.

  Lemma core_fm {B} (f : change -> list B) : (forall x, flat_map f (tflat1 x) = f x) -> Permutation (flat_map f out) (flat_map f l).
  Proof.
    intros Hf. eapply perm_trans; [apply Permutation_flat_map; apply Permutation_sym; exact Hpo|].
    assert (E : flat_map f (tflat d) = flat_map f d) by (unfold tflat; rewrite flat_map_flat_map; apply flat_map_ext; exact Hf).
    rewrite <- E. apply Permutation_flat_map. exact core_perm.
  Qed.

  Lemma core_split : split_ok l c.
  Proof.
    pose proof core_sorted as Hs.
    constructor.
    - apply (Permutation_NoDup (core_fm adds tflat1_adds)). apply (so_adds out c Hso).
    - intros n Hn. apply (so_adds_new out c Hso). apply (Permutation_in _ (Permutation_sym (core_fm adds tflat1_adds)) Hn).
    - apply (Permutation_NoDup (core_fm drops tflat1_drops)). apply (so_drops out c Hso).
    - intros n Hn. apply (so_drops_old out c Hso). apply (Permutation_in _ (Permutation_sym (core_fm drops tflat1_drops)) Hn).
    - intros x f Hx Hf Hd. apply core_in in Hx. destruct (tflat_added d x f Hx Hf) as [y [Hy [Hfy _]]].
      apply (so_nodrop out c Hso y f (Permutation_in _ Hpo Hy) Hfy).
      apply (Permutation_in _ (Permutation_sym (core_fm drops tflat1_drops)) Hd).
    - intros pre x post f El Hf.
      assert (Hx : In x (tflat d)) by (apply core_in; rewrite El; apply in_or_app; right; left; reflexivity).
      destruct (Pfk x f Hx Hf) as [H|[[y [Hy [Ha Hr]]]|H]]; [left; exact H| |right; right; exact H].
      right. left. apply in_flat_map. exists y. split; [|rewrite Ha; left; reflexivity].
      apply (sorted_before rk l Hs pre x post y El); [apply core_in; exact Hy|exact Hr].
    - intros pre t tcs post El.
      assert (Hx : In (ModifyTable t tcs) (tflat d)) by (apply core_in; rewrite El; apply in_or_app; right; left; reflexivity).
      destruct (Pmod t tcs Hx) as [Hdr Hex]. split.
      + intros Hin. apply in_drops_iff in Hin. destruct Hin as [t' [fks' [Hin Hq]]].
        assert (Hl : In (DropTable t' fks') l) by (rewrite El; apply in_or_app; left; exact Hin).
        destruct Hdr as [Hno|Hlt].
        * apply Hno. assert (Hd : In (qn t) (flat_map drops l)).
          { apply in_drops_iff. exists t', fks'. split; assumption. }
          apply (Permutation_in _ (Permutation_sym (core_fm drops tflat1_drops))) in Hd.
          apply (Permutation_in _ (Permutation_flat_map drops (Permutation_sym Hpo)) Hd).
        * pose proof (Hlt _ (proj1 (core_in _) Hl) eq_refl) as H1.
          pose proof (sorted_prefix_le rk l Hs pre _ post _ El Hin) as H2. lia.
      + destruct Hex as [H|[y [Hy [Ha Hr]]]]; [left; exact H|right].
        apply in_flat_map. exists y. split; [|rewrite Ha; left; reflexivity].
        apply (sorted_before rk l Hs pre _ post y El); [apply core_in; exact Hy|exact Hr].
    - intros pre p fks post e El He Hp Hne.
      assert (Hx : In (DropTable p fks) (tflat d)) by (apply core_in; rewrite El; apply in_or_app; right; left; reflexivity).
      destruct (Pdrop p fks e Hx He Hp Hne) as [y [Hy [Hrm Hr]]]. exists y. split; [|exact Hrm].
      apply (sorted_before rk l Hs pre _ post y El); [apply core_in; exact Hy|exact Hr].
    - apply (Permutation_NoDup (core_fm rm_keys tflat1_rm)). apply (so_rm_nodup out c Hso).
    - intros k Hk. apply (so_rm_live out c Hso). apply (Permutation_in _ (Permutation_sym (core_fm rm_keys tflat1_rm)) Hk).
  Qed.
End Core.

(** * the two branches of DetachCycles *)
Section Except.
  Variable cs : list change.
  Variable c : cat.
  Hypothesis HWF : WF cs.
  Hypothesis Hcons : consistent c cs.
  (* the exception: every re-pointed foreign key points at a table of the catalogue *)
  Hypothesis Hex : forall t tcs from to, In (ModifyTable t tcs) cs -> In (ModifyFK from to) tcs ->
    In (qn (f_ref to)) (c_tabs c).

  Lemma removing_prio tc s : tc_removes s tc = true -> tc_priority tc < gen_prio_DropTable.
  Proof.
    destruct prio_facts as [_ [H1 H2]]. destruct tc; simpl; intros H; try discriminate; assumption.
  Qed.

  Lemma acyc_tidb sorted d0 :
    sortMap cs = SMOk sorted -> Permutation cs d0 -> StronglySorted (kle sorted) d0 ->
    split_ok (sort_by priority (tflat d0)) c.
  Proof.
    intros Hsm Hp Hss.
    assert (Hspec : detach_spec cs d0) by (unfold detach_spec; rewrite Hsm; split; assumption).
    destruct (safe_split cs c d0 HWF Hcons Hspec) as [out [_ [Hpo Hso]]].
    assert (Hin : forall x, In x d0 -> In x cs) by (intros x Hx; apply (Permutation_in _ (Permutation_sym Hp) Hx)).
    assert (Hin' : forall x, In x cs -> In x d0) by (intros x Hx; apply (Permutation_in _ Hp Hx)).
    destruct prio_facts as [PF1 [PF2 PF3]].
    apply (core_split c d0 out Hpo Hso (sort_key sorted) (S (length sorted))).
    - apply SS_tflat; [exact Hss|]. intros x y Hy. destruct x as [t fks|t fks|t tcs]; simpl in Hy.
      + destruct Hy as [<-|[]]. reflexivity.
      + destruct Hy as [<-|[]]. reflexivity.
      + apply in_map_iff in Hy. destruct Hy as [tc [<- _]]. reflexivity.
    - intros x _. pose proof (key_bound cs sorted Hsm x). lia.
    - (* declared keys *)
      intros x f Hx Hf. destruct (tflat_added d0 x f Hx Hf) as [y0 [Hy0 [Hfy [Hnm Hx1]]]].
      pose proof (Hin _ Hy0) as Hy0c.
      assert (Hmf : forall t tcs from, y0 = ModifyTable t tcs -> x = ModifyTable t [ModifyFK from f] -> In (qn (f_ref f)) (c_tabs c)).
      { intros t tcs from E1 E2. subst. simpl in Hx1. apply in_map_iff in Hx1. destruct Hx1 as [tc [E Htc]].
        injection E as ->. apply (Hex t tcs from f Hy0c Htc). }
      destruct (cn_parent c cs Hcons y0 f Hy0c Hfy) as [H|H]; [left; exact H|].
      apply in_adds_iff in H. destruct H as [p [fks2 [Hpc Hq]]].
      destruct (Nat.eq_dec (qn (f_ref f)) (nm y0)) as [E|E].
      + right. right. assert (Ey : AddTable p fks2 = y0).
        { apply (names_inj cs HWF); [assumption|assumption|unfold nm at 1; simpl; congruence]. }
        subst y0. simpl in Hx1. destruct Hx1 as [<-|[]]. simpl. rewrite Hq. reflexivity.
      + pose proof (decl_key_lt cs HWF sorted Hsm y0 f Hy0c Hfy E) as Hlt.
        rewrite <- (key_qn sorted p (f_ref f) Hq) in Hlt.
        assert (Hw : In (AddTable p fks2) (tflat d0)) by (apply tflat_keep; [apply Hin'; exact Hpc|exact I]).
        destruct y0 as [t fks|t fks|t tcs]; simpl in Hx1.
        * destruct Hx1 as [<-|[]]. right. left. exists (AddTable p fks2). split; [exact Hw|]. split; [simpl; rewrite Hq; reflexivity|].
          unfold rk. cbn [priority]. apply lex_le; [apply le_n|]. unfold sort_key in *. simpl in *. exact Hlt.
        * destruct Hfy.
        * apply in_map_iff in Hx1. destruct Hx1 as [tc [<- Htc]]. simpl in Hf. rewrite app_nil_r in Hf.
          destruct tc as [g|g|from to|k]; simpl in Hf; try (destruct Hf; fail); destruct Hf as [<-|[]].
          -- right. left. exists (AddTable p fks2). split; [exact Hw|]. split; [simpl; rewrite Hq; reflexivity|].
             unfold rk. cbn [priority tc_priority]. apply lex_le; [exact PF1|]. unfold sort_key in *. simpl in *. exact Hlt.
          -- left. apply (Hex t tcs from to Hy0c Htc).
    - (* modified tables *)
      intros t tcs Hx. destruct (in_tflat d0 _ Hx) as [[_ []]|[t' [tcs0 [tc [E [Hs Htc]]]]]]. injection E as -> ->.
      pose proof (Hin _ Hs) as Hsc. split.
      + left. intros Hd. apply (Permutation_in _ (Permutation_flat_map drops (Permutation_sym Hp))) in Hd.
        apply in_drops_iff in Hd. destruct Hd as [t2 [fks2 [Hd Hq]]].
        assert (Ey : ModifyTable t' tcs0 = DropTable t2 fks2) by (apply (names_inj cs HWF); [assumption|assumption|unfold nm; simpl; congruence]).
        discriminate.
      + left. apply (cn_mods c cs Hcons t' tcs0 Hsc).
    - (* dropped tables *)
      intros p fks e Hx He Hpe Hne. destruct (in_tflat d0 _ Hx) as [[Hd0 _]|[t' [tcs0 [tc [E _]]]]]; [|discriminate].
      pose proof (Hin _ Hd0) as Hdc.
      assert (Hpd : In (snd e) (flat_map drops cs)).
      { rewrite Hpe. apply in_drops_iff. exists p, fks. split; [exact Hdc|reflexivity]. }
      assert (Hne' : fst (fst e) <> snd e) by (rewrite Hpe; exact Hne).
      destruct (cn_live c cs Hcons e He Hpd Hne') as [y [Hy [Hny Hcov]]].
      destruct y as [t fks0|t fks0|t tcs]; simpl in Hcov; [destruct Hcov| |]; unfold nm in Hny; simpl in Hny.
      + destruct Hcov as [f [Hf [Hsy Hr]]].
        exists (DropTable t fks0). split; [apply tflat_keep; [apply Hin'; exact Hy|exact I]|].
        split; [simpl; apply Nat.eqb_eq; exact Hny|].
        assert (Hdr : isDropped cs (f_ref f) = true) by (apply isDropped_qn; rewrite Hr; exact Hpd).
        pose proof (deps_of_drop cs t fks0 f Hy Hf Hdr) as Hdep.
        assert (Hrp : qn (f_ref f) = qn p) by (rewrite Hr, Hpe; reflexivity).
        rewrite (qn_name _ _ (wf_child cs HWF t fks0 f Hy Hf)), (qn_name _ _ Hrp) in Hdep.
        apply (idx_lt cs sorted Hsm) in Hdep.
        unfold rk. cbn [priority]. apply lex_le; [apply le_n|]. unfold sort_key. simpl. exact Hdep.
      + apply existsb_exists in Hcov. destruct Hcov as [tc [Htc Hrm]].
        exists (ModifyTable t [tc]). split; [apply (tflat_in_modify d0 t tcs tc (Hin' _ Hy) Htc)|].
        split; [simpl; rewrite Hrm, (proj2 (Nat.eqb_eq _ _) Hny); reflexivity|].
        unfold rk. cbn [priority]. apply lex_lt; [apply (removing_prio tc _ Hrm)|].
        pose proof (key_bound cs sorted Hsm (ModifyTable t [tc])). lia.
  Qed.

  (* the cycle branch: the key tells the planned part (0) from the deferred part (1) of detachReferences *)
  Definition kcyc (x : change) : nat := match rc x with 0 => 0 | _ => 1 end.

  Lemma cyc_tidb : sortMap cs = SMCycle -> split_ok (sort_by priority (tflat (detachReferences cs))) c.
  Proof.
    intros Hsm. set (L := detachReferences cs).
    assert (Hspec : detach_spec cs L) by (unfold detach_spec; rewrite Hsm; reflexivity).
    destruct (safe_split cs c L HWF Hcons Hspec) as [out [_ [Hpo Hso]]].
    destruct prio_facts as [PF1 [PF2 PF3]].
    assert (HP0 : forall x, In x (tflat (flat_map det_planned cs)) -> kcyc x = 0).
    { intros x Hx. apply in_flat_map in Hx. destruct Hx as [y [Hy Hx]]. apply in_flat_map in Hy. destruct Hy as [src [_ Hy]].
      apply det_planned_image in Hy. destruct Hy as [t fks fks' _|t fks _|t tcs _]; simpl in Hx.
      - destruct Hx as [<-|[]]. reflexivity.
      - apply in_map_iff in Hx. destruct Hx as [tc [<- Htc]]. apply in_map_iff in Htc. destruct Htc as [f [<- _]]. reflexivity.
      - apply in_map_iff in Hx. destruct Hx as [tc [<- Htc]]. apply filter_In in Htc. destruct Htc as [_ Hn].
        unfold not_addfk in Hn. apply negb_true_iff in Hn. unfold kcyc, rc. simpl. rewrite Hn. reflexivity. }
    assert (HD1 : forall x, In x (tflat (flat_map det_deferred cs)) -> kcyc x = 1).
    { intros x Hx. apply in_flat_map in Hx. destruct Hx as [y [Hy Hx]]. apply in_flat_map in Hy. destruct Hy as [src [_ Hy]].
      apply det_deferred_image in Hy. destruct Hy as [t fks _|t fks fks' _|t tcs _]; simpl in Hx.
      - apply in_map_iff in Hx. destruct Hx as [tc [<- Htc]]. apply in_map_iff in Htc. destruct Htc as [f [<- _]]. reflexivity.
      - destruct Hx as [<-|[]]. reflexivity.
      - apply in_map_iff in Hx. destruct Hx as [tc [<- Htc]]. apply filter_In in Htc. destruct Htc as [_ Hn].
        unfold kcyc, rc. simpl. rewrite Hn. reflexivity. }
    assert (HK2 : forall x, kcyc x < 2) by (intros x; unfold kcyc; destruct (rc x); lia).
    assert (Hnd : forall t src, In src cs -> nm src = qn t -> is_drop src = false -> ~ In (qn t) (flat_map drops L)).
    { intros t src Hs Hn Hd Hin. unfold L in Hin. rewrite detach_drops in Hin. apply in_drops_iff in Hin.
      destruct Hin as [t2 [fks2 [H2 Hq]]].
      assert (E : src = DropTable t2 fks2) by (apply (names_inj cs HWF); [assumption|assumption|unfold nm at 2; simpl; congruence]).
      subst src. discriminate. }
    apply (core_split c L out Hpo Hso kcyc 2).
    - unfold L, detachReferences, tflat. rewrite flat_map_app. apply SS_app.
      + apply (SS_const kcyc 0). exact HP0.
      + apply (SS_const kcyc 1). exact HD1.
      + intros x y Hx Hy. unfold rle. rewrite (HP0 x Hx), (HD1 y Hy). lia.
    - intros x _. apply HK2.
    - (* declared keys *)
      intros x f Hx Hf. destruct (tflat_added L x f Hx Hf) as [y [Hy [Hfy [_ Hx1]]]].
      destruct (detach_image cs y Hy) as [src [Hsrc Im]].
      assert (Hfs : In f (added_fks src)).
      { destruct Im as [Im|Im]; [apply (pimage_added src y f Im Hfy)|apply (dimage_added src y f Im Hfy)]. }
      assert (Hnew : forall t g, x = ModifyTable t [AddFK g] -> f = g ->
                In (qn (f_ref f)) (c_tabs c) \/
                (exists y0, In y0 (tflat L) /\ adds y0 = [qn (f_ref f)] /\ rk kcyc 2 y0 < rk kcyc 2 x) \/ adds x = [qn (f_ref f)]).
      { intros t g -> <-. destruct (cn_parent c cs Hcons src f Hsrc Hfs) as [H|H]; [left; exact H|right; left].
        apply in_adds_iff in H. destruct H as [p [fks2 [Hpc Hq]]].
        destruct (ex_planned_add cs p fks2 Hpc) as [fks' Hw].
        exists (AddTable p fks'). split; [apply tflat_keep; [exact Hw|exact I]|]. split; [simpl; rewrite Hq; reflexivity|].
        unfold rk. cbn [priority tc_priority]. apply lex_le; [exact PF1|]. unfold kcyc. simpl. lia. }
      destruct Im as [Im|Im]; [destruct Im as [t fks fks' Hself|t fks Hne|t tcs Hne]|destruct Im as [t fks Hne|t fks fks' Hself|t tcs Hne]]; simpl in Hx1.
      + (* created table: the kept keys are self references *)
        destruct Hx1 as [<-|[]]. right. right. simpl in Hf. destruct (Hself f Hf) as [Hin Hp].
        simpl. rewrite (self_name cs HWF (AddTable t fks) t fks f Hsrc eq_refl eq_refl Hin Hp). reflexivity.
      + exfalso. simpl in Hfy. rewrite tc_added_mapdrop in Hfy. destruct Hfy.
      + apply in_map_iff in Hx1. destruct Hx1 as [tc [<- Htc]]. apply filter_In in Htc. destruct Htc as [Htc Hn].
        simpl in Hf. rewrite app_nil_r in Hf.
        destruct tc as [g|g|from to|k]; simpl in Hf; try (destruct Hf; fail); destruct Hf as [<-|[]].
        * discriminate Hn.
        * left. apply (Hex t tcs from to Hsrc Htc).
      + apply in_map_iff in Hx1. destruct Hx1 as [tc [<- Htc]]. apply in_map_iff in Htc. destruct Htc as [g [<- _]].
        simpl in Hf. destruct Hf as [<-|[]]. apply (Hnew t g eq_refl eq_refl).
      + destruct Hx1 as [<-|[]]. destruct Hf.
      + apply in_map_iff in Hx1. destruct Hx1 as [tc [<- Htc]]. apply filter_In in Htc. destruct Htc as [_ Hn].
        destruct tc as [g|g|from to|k]; try discriminate. simpl in Hf. destruct Hf as [<-|[]]. apply (Hnew t g eq_refl eq_refl).
    - (* modified tables *)
      intros t tcs Hx. destruct (in_tflat L _ Hx) as [[_ []]|[t' [tcs0 [tc [E [Hs Htc]]]]]]. injection E as -> ->.
      destruct (detach_image cs _ Hs) as [src [Hsrc Im]].
      destruct Im as [Im|Im]; inversion Im; subst.
      + (* the keys of a dropped table, dropped first: every DROP TABLE comes later *)
        apply in_map_iff in Htc. destruct Htc as [g [<- _]]. split.
        * right. intros y Hy Hd. destruct y as [| t2 fks2|]; try discriminate.
          unfold rk. cbn [priority tc_priority]. apply lex_lt; [exact PF2|apply HK2].
        * left. apply (cn_drops c cs Hcons). apply in_drops_iff. exists t', fks. split; [exact Hsrc|reflexivity].
      + split; [left; apply (Hnd t' _ Hsrc eq_refl eq_refl)|left; apply (cn_mods c cs Hcons t' tcs Hsrc)].
      + (* the deferred keys of a created table *)
        apply in_map_iff in Htc. destruct Htc as [g [<- _]]. split; [left; apply (Hnd t' _ Hsrc eq_refl eq_refl)|right].
        destruct (ex_planned_add cs t' fks Hsrc) as [fks' Hw].
        exists (AddTable t' fks'). split; [apply tflat_keep; [exact Hw|exact I]|]. split; [reflexivity|].
        unfold rk. cbn [priority tc_priority]. apply lex_le; [exact PF1|]. unfold kcyc. simpl. lia.
      + split; [left; apply (Hnd t' _ Hsrc eq_refl eq_refl)|left; apply (cn_mods c cs Hcons t' tcs Hsrc)].
    - (* dropped tables: the keys that point at them are dropped by priority-2 / priority-3 ALTERs *)
      intros p fks e Hx He Hpe Hne. destruct (in_tflat L _ Hx) as [[Hd0 _]|[t' [tcs0 [tc [E _]]]]]; [|discriminate].
      destruct (detach_image cs _ Hd0) as [src [Hsrc Im]].
      assert (Hpd : In (snd e) (flat_map drops cs)).
      { rewrite Hpe. rewrite <- detach_drops. apply in_drops_iff. exists p, fks. split; [exact Hd0|reflexivity]. }
      assert (Hne' : fst (fst e) <> snd e) by (rewrite Hpe; exact Hne).
      destruct (cn_live c cs Hcons e He Hpd Hne') as [y [Hy [Hny Hcov]]].
      assert (Hrk : forall t tc s, tc_removes s tc = true -> rk kcyc 2 (ModifyTable t [tc]) < rk kcyc 2 (DropTable p fks)).
      { intros t tc s Hr. unfold rk. cbn [priority]. apply lex_lt; [apply (removing_prio tc s Hr)|apply HK2]. }
      destruct y as [t fks0|t fks0|t tcs]; simpl in Hcov; [destruct Hcov| |]; unfold nm in Hny; simpl in Hny.
      + destruct Hcov as [f [Hf [Hsy Hr]]].
        assert (Hpf : ptr_eqb (f_ref f) t = false).
        { apply (ptr_false cs HWF (DropTable t fks0) f Hy Hf). unfold nm. simpl. congruence. }
        destruct (ex_planned_dropfk cs t fks0 f Hy Hf Hpf) as [Hin Hfe].
        exists (ModifyTable t [DropFK f]). split; [apply (tflat_in_modify L t _ (DropFK f) Hin); apply in_map; exact Hfe|].
        split; [simpl; rewrite (proj2 (Nat.eqb_eq _ _) Hny), (proj2 (Nat.eqb_eq _ _) Hsy); reflexivity|].
        apply (Hrk t (DropFK f) (f_sym f)). simpl. apply Nat.eqb_refl.
      + apply existsb_exists in Hcov. destruct Hcov as [tc [Htc Hrm]].
        assert (Hna : is_addfk tc = false) by (destruct tc; simpl in *; congruence).
        destruct (ex_planned_rest cs t tcs tc Hy Htc Hna) as [Hin Hfe].
        exists (ModifyTable t [tc]). split; [apply (tflat_in_modify L t _ tc Hin Hfe)|].
        split; [simpl; rewrite Hrm, (proj2 (Nat.eqb_eq _ _) Hny); reflexivity|].
        apply (Hrk t tc _ Hrm).
  Qed.

  (* C04_tidb_safe_except *)
  Theorem tidb_safe_except l : tidb_order cs = TOk l -> exists c', replay l c = Some c'.
  Proof.
    unfold tidb_order. destruct (tidb_detach cs) as [|d] eqn:Ed; [discriminate|]. intros H. injection H as <-.
    destruct (tidb_detach_spec cs d Ed) as [d0 [Ed0 Hdd]].
    assert (Hs0 : split_ok (sort_by priority (tflat d0)) c).
    { pose proof (DetachCycles_spec cs d0 Ed0) as Hs. unfold detach_spec in Hs.
      destruct (sortMap cs) as [| |sorted] eqn:Esm; [destruct Hs| |].
      - subst d0. apply cyc_tidb. exact Esm.
      - destruct Hs as [H1 H2]. apply (acyc_tidb sorted d0 Esm H1 H2). }
    destruct (split_replay_ok _ _ Hs0) as [c' Hc]. exists c'.
    destruct Hdd as [->| ->]; [exact Hc|].
    rewrite tflat_map_recopy, (sort_by_map (recopy cs) priority _ (priority_recopy cs)), replay_map_recopy. exact Hc.
  Qed.
End Except.
