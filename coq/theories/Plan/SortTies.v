(** M-SORT -- what Go's unstable sort.Slice in DetachCycles can and cannot change (round 5; for C20's reuse).
    In the cycle-free branch the plan is the partition of the sorted list (acyclic_sort_is_partition): it is sorted
    by the rank [ra] = (index in the sortMap order, drops behind).  Hence two plans of the same change set that differ
    in the tie-break agree on the relative order of every two changes of different rank, and the changes whose order
    the tie-break can swap -- equal rank -- never depend on one another.  In the cycle branch there is no sort. *)
From Coq Require Import List Bool Arith Lia Permutation Sorted.
From Atlas Require Import Plan.SortModel Plan.SortDfs Plan.SortReplay Plan.SortProofs.
Import ListNotations.

(* changes of equal rank are independent *)
Theorem ties_independent cs sorted x y :
  WF cs -> sortMap cs = SMOk sorted -> In x cs -> In y cs -> x <> y ->
  ra sorted x = ra sorted y -> dependsOn x y = false /\ dependsOn y x = false.
Proof.
  intros HWF Hsm Hx Hy Hne Er. split.
  - destruct (dependsOn x y) eqn:E; [|reflexivity].
    pose proof (acyc_edges cs HWF sorted Hsm x y Hx Hy Hne E). lia.
  - destruct (dependsOn y x) eqn:E; [|reflexivity].
    pose proof (acyc_edges cs HWF sorted Hsm y x Hy Hx (fun H => Hne (eq_sym H)) E). lia.
Qed.

(* every tie-break gives a plan sorted by rank: a change of smaller rank stands before every change of larger rank *)
Theorem plan_sorted_by_rank cs sorted S out :
  WF cs -> sortMap cs = SMOk sorted -> detach_spec cs S -> SortChanges S = Some out ->
  Permutation cs out /\ StronglySorted (rle (ra sorted)) out /\
  (forall pre x post y, out = pre ++ x :: post -> In y cs -> ra sorted y < ra sorted x -> In y pre).
Proof.
  intros HWF Hsm HS Hout.
  rewrite (acyclic_sort_is_partition cs S sorted HWF Hsm HS) in Hout. injection Hout as <-.
  unfold detach_spec in HS. rewrite Hsm in HS. destruct HS as [Hp Hss].
  pose proof (acyc_sorted cs sorted S Hsm Hss) as Hs.
  assert (Hpo : Permutation cs (partition_changes S)).
  { eapply perm_trans; [exact Hp|apply Permutation_sym; apply partition_perm]. }
  split; [exact Hpo|]. split; [exact Hs|].
  intros pre x post y E Hy Hr. apply (sorted_before _ _ Hs pre x post y E); [|exact Hr].
  apply (Permutation_in _ Hpo Hy).
Qed.

(* two tie-breaks: the plans are permutations of one another and order every pair of different rank alike *)
Theorem tiebreaks_agree cs sorted S1 S2 o1 o2 :
  WF cs -> sortMap cs = SMOk sorted -> detach_spec cs S1 -> detach_spec cs S2 ->
  SortChanges S1 = Some o1 -> SortChanges S2 = Some o2 ->
  Permutation o1 o2 /\
  (forall pre x post y, o1 = pre ++ x :: post -> In y pre -> ra sorted y <> ra sorted x ->
     exists pre' post', o2 = pre' ++ x :: post' /\ In y pre').
Proof.
  intros HWF Hsm H1 H2 E1 E2.
  destruct (plan_sorted_by_rank cs sorted S1 o1 HWF Hsm H1 E1) as [P1 [Q1 R1]].
  destruct (plan_sorted_by_rank cs sorted S2 o2 HWF Hsm H2 E2) as [P2 [Q2 R2]].
  split; [eapply perm_trans; [apply Permutation_sym; exact P1|exact P2]|].
  intros pre x post y Eo Hy Hne.
  pose proof (sorted_prefix_le _ _ Q1 pre x post y Eo Hy) as Hle.
  assert (Hx2 : In x o2).
  { apply (Permutation_in _ P2). apply (Permutation_in _ (Permutation_sym P1)). rewrite Eo. apply in_or_app. right. left. reflexivity. }
  destruct (in_split _ _ Hx2) as [pre' [post' E']]. exists pre', post'. split; [exact E'|].
  apply (R2 pre' x post' y E').
  - apply (Permutation_in _ (Permutation_sym P1)). rewrite Eo. apply in_or_app. left. exact Hy.
  - lia.
Qed.
