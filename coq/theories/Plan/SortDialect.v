(** M-SORT proofs, part 4: what the MySQL / PostgreSQL planners put into Plan.Changes.
    Both split or rewrite a ModifyTable (a re-pointed key becomes DROP + ADD; MySQL emits the drops
    as a first ALTER).  Any such refinement of a plan that meets its obligations meets them too. *)
From Coq Require Import List Bool Arith Lia Permutation Sorted.
From Atlas Require Import Plan.SortModel Plan.SortDfs Plan.SortReplay Plan.SortProofs.
Import ListNotations.

Record refines (h : change -> list change) : Prop := {
  rf_add : forall t fks, h (AddTable t fks) = [AddTable t fks];
  rf_drop : forall t fks, h (DropTable t fks) = [DropTable t fks];
  rf_mod : forall t tcs y, In y (h (ModifyTable t tcs)) ->
    exists tcs', y = ModifyTable t tcs' /\
      forall f, In f (flat_map tc_added tcs') -> In f (flat_map tc_added tcs);
  rf_rm : forall t tcs s, existsb (tc_removes s) tcs = true ->
    exists tcs', In (ModifyTable t tcs') (h (ModifyTable t tcs)) /\ existsb (tc_removes s) tcs' = true;
  (* ... and drops each key as often as the original *)
  rf_keys : forall t tcs, Permutation (flat_map rm_keys (h (ModifyTable t tcs))) (rm_keys (ModifyTable t tcs))
}.

Section Transfer.
  Variable h : change -> list change.
  Hypothesis Hh : refines h.

  Lemma h_adds x : flat_map adds (h x) = adds x.
  Proof.
    destruct x as [t fks|t fks|t tcs].
    - rewrite (rf_add h Hh). reflexivity.
    - rewrite (rf_drop h Hh). reflexivity.
    - simpl. assert (Hall : forall y, In y (h (ModifyTable t tcs)) -> adds y = []).
      { intros y Hy. destruct (rf_mod h Hh t tcs y Hy) as [tcs' [-> _]]. reflexivity. }
      induction (h (ModifyTable t tcs)) as [|a l IH]; simpl; [reflexivity|].
      rewrite (Hall a (or_introl eq_refl)). apply IH. intros y Hy. apply Hall. right. exact Hy.
  Qed.

  Lemma h_drops x : flat_map drops (h x) = drops x.
  Proof.
    destruct x as [t fks|t fks|t tcs].
    - rewrite (rf_add h Hh). reflexivity.
    - rewrite (rf_drop h Hh). reflexivity.
    - simpl. assert (Hall : forall y, In y (h (ModifyTable t tcs)) -> drops y = []).
      { intros y Hy. destruct (rf_mod h Hh t tcs y Hy) as [tcs' [-> _]]. reflexivity. }
      induction (h (ModifyTable t tcs)) as [|a l IH]; simpl; [reflexivity|].
      rewrite (Hall a (or_introl eq_refl)). apply IH. intros y Hy. apply Hall. right. exact Hy.
  Qed.

  Lemma fm_adds l : flat_map adds (flat_map h l) = flat_map adds l.
  Proof. induction l as [|x l IH]; simpl; [reflexivity|]. rewrite flat_map_app, h_adds, IH. reflexivity. Qed.

  Lemma fm_drops l : flat_map drops (flat_map h l) = flat_map drops l.
  Proof. induction l as [|x l IH]; simpl; [reflexivity|]. rewrite flat_map_app, h_drops, IH. reflexivity. Qed.

  Lemma h_keys x : Permutation (flat_map rm_keys (h x)) (rm_keys x).
  Proof.
    destruct x as [t fks|t fks|t tcs].
    - rewrite (rf_add h Hh). apply Permutation_refl.
    - rewrite (rf_drop h Hh). apply Permutation_refl.
    - apply (rf_keys h Hh).
  Qed.

  Lemma fm_keys l : Permutation (flat_map rm_keys (flat_map h l)) (flat_map rm_keys l).
  Proof.
    induction l as [|x l IH]; simpl; [constructor|]. rewrite flat_map_app.
    apply Permutation_app; [apply h_keys|exact IH].
  Qed.

  Lemma h_added x y f : In y (h x) -> In f (added_fks y) -> In f (added_fks x).
  Proof.
    destruct x as [t fks|t fks|t tcs]; intros Hy Hf.
    - rewrite (rf_add h Hh) in Hy. destruct Hy as [<-|[]]. exact Hf.
    - rewrite (rf_drop h Hh) in Hy. destruct Hy as [<-|[]]. exact Hf.
    - destruct (rf_mod h Hh t tcs y Hy) as [tcs' [-> Hsub]]. simpl in *. apply Hsub. exact Hf.
  Qed.

  (* a prefix of the images of a ModifyTable creates and drops nothing *)
  Lemma h_mod_prefix t tcs p1 y p2 : h (ModifyTable t tcs) = p1 ++ y :: p2 ->
    flat_map adds p1 = [] /\ flat_map drops p1 = [] /\ exists tcs', y = ModifyTable t tcs'.
  Proof.
    intros E.
    assert (Hall : forall z, In z (h (ModifyTable t tcs)) -> exists tcs', z = ModifyTable t tcs').
    { intros z Hz. destruct (rf_mod h Hh t tcs z Hz) as [tcs' [-> _]]. eexists; reflexivity. }
    rewrite E in Hall. split; [|split].
    - clear E. induction p1 as [|a p1 IH]; simpl; [reflexivity|].
      destruct (Hall a (or_introl eq_refl)) as [tcs' ->]. simpl. apply IH. intros z Hz. apply Hall. right. exact Hz.
    - clear E. induction p1 as [|a p1 IH]; simpl; [reflexivity|].
      destruct (Hall a (or_introl eq_refl)) as [tcs' ->]. simpl. apply IH. intros z Hz. apply Hall. right. exact Hz.
    - apply Hall. apply in_or_app. right. left. reflexivity.
  Qed.

  Lemma h_removes x child s : removes child s x = true -> exists y, In y (h x) /\ removes child s y = true.
  Proof.
    destruct x as [t fks|t fks|t tcs]; simpl; intros H; [discriminate| |].
    - exists (DropTable t fks). rewrite (rf_drop h Hh). split; [left; reflexivity|exact H].
    - apply andb_true_iff in H. destruct H as [H1 H2].
      destruct (rf_rm h Hh t tcs s H2) as [tcs' [Hin Hr]].
      exists (ModifyTable t tcs'). split; [exact Hin|]. simpl. rewrite H1, Hr. reflexivity.
  Qed.

  Theorem refine_split_ok l c : split_ok l c -> split_ok (flat_map h l) c.
  Proof.
    intros H. constructor.
    - rewrite fm_adds. apply (so_adds l c H).
    - intros n. rewrite fm_adds. apply (so_adds_new l c H).
    - rewrite fm_drops. apply (so_drops l c H).
    - intros n. rewrite fm_drops. apply (so_drops_old l c H).
    - intros y f Hy Hf. rewrite fm_drops. apply in_flat_map in Hy. destruct Hy as [x [Hx Hy]].
      apply (so_nodrop l c H x f Hx (h_added x y f Hy Hf)).
    - intros pre' y post' f E Hf.
      destruct (flat_map_split h l pre' y post' E) as [pre [x [post [p1 [p2 [El [Ex [Ep _]]]]]]]].
      assert (Hy : In y (h x)) by (rewrite Ex; apply in_or_app; right; left; reflexivity).
      destruct (so_fk l c H pre x post f El (h_added x y f Hy Hf)) as [H1|[H1|H1]].
      + left. exact H1.
      + right. left. rewrite Ep, flat_map_app, fm_adds. apply in_or_app. left. exact H1.
      + right. right. destruct x as [t fks|t fks|t tcs]; simpl in H1; try discriminate.
        rewrite (rf_add h Hh) in Hy. destruct Hy as [<-|[]]. exact H1.
    - intros pre' t tcs' post' E.
      destruct (flat_map_split h l pre' _ post' E) as [pre [x [post [p1 [p2 [El [Ex [Ep _]]]]]]]].
      assert (Hy : In (ModifyTable t tcs') (h x)) by (rewrite Ex; apply in_or_app; right; left; reflexivity).
      destruct x as [t0 fks|t0 fks|t0 tcs].
      + rewrite (rf_add h Hh) in Hy. destruct Hy as [Hy|[]]. discriminate.
      + rewrite (rf_drop h Hh) in Hy. destruct Hy as [Hy|[]]. discriminate.
      + destruct (h_mod_prefix t0 tcs p1 _ p2 Ex) as [Ha [Hd [tcs'' Et]]]. inversion Et; subst t0.
        destruct (so_mod l c H pre t tcs post El) as [Hnd Hex].
        rewrite Ep, !flat_map_app, fm_adds, fm_drops, Ha, Hd, !app_nil_r. split; assumption.
    - intros pre' p fks post' e E He Hp Hne.
      destruct (flat_map_split h l pre' _ post' E) as [pre [x [post [p1 [p2 [El [Ex [Ep _]]]]]]]].
      assert (Hy : In (DropTable p fks) (h x)) by (rewrite Ex; apply in_or_app; right; left; reflexivity).
      destruct x as [t0 fks0|t0 fks0|t0 tcs].
      + rewrite (rf_add h Hh) in Hy. destruct Hy as [Hy|[]]. discriminate.
      + rewrite (rf_drop h Hh) in Hy. destruct Hy as [Hy|[]]. inversion Hy; subst t0 fks0.
        destruct (so_drop l c H pre p fks post e El He Hp Hne) as [y0 [Hy0 Hrm]].
        destruct (h_removes y0 _ _ Hrm) as [y1 [Hy1 Hr1]].
        exists y1. split; [|exact Hr1]. rewrite Ep. apply in_or_app. left. apply in_flat_map. exists y0. split; assumption.
      + destruct (rf_mod h Hh t0 tcs _ Hy) as [tcs' [Hd _]]. discriminate.
    - apply (Permutation_NoDup (Permutation_sym (fm_keys l))). apply (so_rm_nodup l c H).
    - intros k Hk. apply (Permutation_in _ (fm_keys l)) in Hk. apply (so_rm_live l c H k Hk).
  Qed.
End Transfer.

(** * mysql/migrate_oss.go modifyTable, postgres/migrate_oss.go modifyTable + alterTable *)
Lemma mysql_refines : refines mysql_sources.
Proof.
  constructor.
  - reflexivity.
  - reflexivity.
  - intros t tcs y Hy. simpl in Hy. apply in_app_or in Hy. destruct Hy as [Hy|Hy].
    + destruct (flat_map _ tcs) as [|a g0] eqn:E in Hy; [destruct Hy|]. destruct Hy as [<-|[]].
      eexists. split; [reflexivity|]. intros f Hf. exfalso. rewrite <- E in Hf.
      apply in_flat_map in Hf. destruct Hf as [tc [Htc Hf]]. apply in_flat_map in Htc.
      destruct Htc as [tc0 [_ Htc]]. destruct tc0; simpl in Htc; try (destruct Htc; fail).
      destruct Htc as [<-|[]]. destruct Hf.
    + destruct (map _ tcs) as [|a g1] eqn:E in Hy; [destruct Hy|]. destruct Hy as [<-|[]].
      eexists. split; [reflexivity|]. intros f Hf. rewrite <- E in Hf.
      apply in_flat_map in Hf. destruct Hf as [tc [Htc Hf]]. apply in_map_iff in Htc.
      destruct Htc as [tc0 [<- Htc]]. apply in_flat_map. exists tc0. split; [exact Htc|].
      destruct tc0; simpl in *; exact Hf.
  - intros t tcs s H. apply existsb_exists in H. destruct H as [tc [Htc Hr]].
    destruct tc as [f|f|from to|k]; simpl in Hr; try discriminate.
    + (* DropFK stays in the second ALTER *)
      set (g1 := map (fun c => match c with ModifyFK _ to => AddFK to | c => c end) tcs).
      assert (Hin : In (DropFK f) g1) by (apply in_map_iff; exists (DropFK f); split; [reflexivity|exact Htc]).
      exists g1. split.
      * simpl. apply in_or_app. right. fold g1. destruct g1; [destruct Hin|left; reflexivity].
      * apply existsb_exists. exists (DropFK f). split; [exact Hin|exact Hr].
    + (* the old side of a re-pointed key is dropped by the first ALTER *)
      set (g0 := flat_map (fun c => match c with ModifyFK from _ => [DropFK from] | _ => [] end) tcs).
      assert (Hin : In (DropFK from) g0).
      { apply in_flat_map. exists (ModifyFK from to). split; [exact Htc|left; reflexivity]. }
      exists g0. split.
      * simpl. apply in_or_app. left. fold g0. destruct g0; [destruct Hin|left; reflexivity].
      * apply existsb_exists. exists (DropFK from). split; [exact Hin|exact Hr].
  - intros t tcs. simpl.
    set (g0 := flat_map (fun c => match c with ModifyFK from _ => [DropFK from] | _ => [] end) tcs).
    set (g1 := map (fun c => match c with ModifyFK _ to => AddFK to | c => c end) tcs).
    assert (E0 : flat_map rm_keys (match g0 with [] => [] | _ :: _ => [ModifyTable t g0] end) =
                 map (pair (qn t)) (flat_map tc_rm g0)).
    { destruct g0; [reflexivity|]. simpl. rewrite app_nil_r. reflexivity. }
    assert (E1 : flat_map rm_keys (match g1 with [] => [] | _ :: _ => [ModifyTable t g1] end) =
                 map (pair (qn t)) (flat_map tc_rm g1)).
    { destruct g1; [reflexivity|]. simpl. rewrite app_nil_r. reflexivity. }
    rewrite flat_map_app, E0, E1, <- map_app. apply Permutation_map.
    unfold g0, g1. clear. induction tcs as [|tc tcs IH]; simpl; [constructor|].
    destruct tc as [f|f|from to|k]; simpl.
    + exact IH.
    + apply Permutation_sym. apply Permutation_cons_app. apply Permutation_sym. exact IH.
    + constructor. exact IH.
    + exact IH.
Qed.

Lemma pg_refines : refines pg_sources.
Proof.
  constructor.
  - reflexivity.
  - reflexivity.
  - intros t tcs y Hy. simpl in Hy.
    set (alter := flat_map (fun c => match c with ModifyFK from to => [DropFK from; AddFK to] | c => [c] end) tcs) in *.
    destruct alter as [|a al] eqn:E; [destruct Hy|]. destruct Hy as [<-|[]]. rewrite <- E.
    eexists. split; [reflexivity|]. intros f Hf.
    apply in_flat_map in Hf. destruct Hf as [tc [Htc Hf]].
    assert (Hal : In tc alter).
    { rewrite E. apply in_app_or in Htc. destruct Htc as [Htc|Htc]; apply filter_In in Htc; rewrite <- E; tauto. }
    unfold alter in Hal. apply in_flat_map in Hal. destruct Hal as [tc0 [Htc0 Hin]].
    apply in_flat_map. exists tc0. split; [exact Htc0|].
    destruct tc0; simpl in Hin; try (destruct Hin as [<-|[]]; exact Hf).
    destruct Hin as [<-|[<-|[]]]; [destruct Hf|exact Hf].
  - intros t tcs s H. apply existsb_exists in H. destruct H as [tc [Htc Hr]].
    set (alter := flat_map (fun c => match c with ModifyFK from to => [DropFK from; AddFK to] | c => [c] end) tcs).
    assert (Hex : exists g, In (DropFK g) alter /\ f_sym g = s).
    { destruct tc as [f|f|from to|k]; simpl in Hr; try discriminate; apply Nat.eqb_eq in Hr.
      - exists f. split; [|exact Hr]. apply in_flat_map. exists (DropFK f). split; [exact Htc|left; reflexivity].
      - exists from. split; [|exact Hr]. apply in_flat_map. exists (ModifyFK from to). split; [exact Htc|left; reflexivity]. }
    destruct Hex as [g [Hg Hs]].
    exists (filter is_dropfk alter ++ filter (fun c => negb (is_dropfk c)) alter). split.
    + simpl. fold alter. destruct alter; [destruct Hg|left; reflexivity].
    + apply existsb_exists. exists (DropFK g). split.
      * apply in_or_app. left. apply filter_In. split; [exact Hg|reflexivity].
      * simpl. apply Nat.eqb_eq. exact Hs.
  - intros t tcs. simpl.
    set (alter := flat_map (fun c => match c with ModifyFK from to => [DropFK from; AddFK to] | c => [c] end) tcs).
    assert (Ea : Permutation (flat_map tc_rm alter) (flat_map tc_rm tcs)).
    { unfold alter. clear. induction tcs as [|tc tcs IH]; simpl; [constructor|].
      destruct tc as [f|f|from to|k]; simpl; try exact IH; constructor; exact IH. }
    destruct alter as [|a al] eqn:E.
    + simpl in *. apply Permutation_nil in Ea. rewrite Ea. constructor.
    + rewrite <- E in *. simpl. rewrite app_nil_r. apply Permutation_map.
      eapply perm_trans; [|exact Ea]. apply Permutation_flat_map.
      eapply perm_trans; [apply Permutation_app_comm|]. apply (filter_perm is_dropfk alter).
Qed.

(** * Safety of what the dialect planners emit *)
Theorem dialect_safe cs c S h :
  refines h -> WF cs -> consistent c cs -> detach_spec cs S ->
  exists out c', SortChanges S = Some out /\ replay (flat_map h out) c = Some c'.
Proof.
  intros Hh HWF Hcons HS. destruct (safe_split cs c S HWF Hcons HS) as [out [H1 [_ H2]]].
  destruct (split_replay_ok _ _ (refine_split_ok h Hh out c H2)) as [c' Hc].
  exists out, c'. split; assumption.
Qed.

Theorem plan_dialect_safe cs c :
  WF cs -> consistent c cs ->
  exists l, plan cs = POk l /\
    (exists c1, replay l c = Some c1) /\
    (exists c2, replay (flat_map mysql_sources l) c = Some c2) /\
    (exists c3, replay (flat_map pg_sources l) c = Some c3).
Proof.
  intros HWF Hcons. destruct (DetachCycles_total cs) as [S HS].
  pose proof (DetachCycles_spec cs S HS) as Hspec.
  destruct (safe_split cs c S HWF Hcons Hspec) as [out [H1 [_ H2]]].
  exists out. split; [unfold plan; rewrite HS, H1; reflexivity|].
  split; [apply (split_replay_ok _ _ H2)|]. split.
  - apply (split_replay_ok _ _ (refine_split_ok mysql_sources mysql_refines out c H2)).
  - apply (split_replay_ok _ _ (refine_split_ok pg_sources pg_refines out c H2)).
Qed.

(** * topLevel: the schema-level changes of the list, each once and in order, in front; the table
      changes, each once and in order, to the sort *)
Definition schemas_of (l : list gchange) : list schange :=
  flat_map (fun g => match g with GSchema c => [c] | GTable _ => [] end) l.
Definition tables_of (l : list gchange) : list change :=
  flat_map (fun g => match g with GSchema _ => [] | GTable c => [c] end) l.

Lemma topLevel_spec l : topLevel l = (schemas_of l, tables_of l).
Proof.
  induction l as [|g l IH]; simpl; [reflexivity|].
  rewrite IH. destruct g; reflexivity.
Qed.

Lemma plan_all_safe l c :
  WF (tables_of l) -> consistent c (tables_of l) ->
  exists r c', plan_all l = Some (schemas_of l, r) /\ plan (tables_of l) = POk r /\ replay r c = Some c'.
Proof.
  intros Hwf Hc. destruct (plan_safe (tables_of l) c Hwf Hc) as [r [c' [Hp Hr]]].
  exists r, c'. unfold plan_all. rewrite topLevel_spec, Hp. split; [reflexivity|]. split; [reflexivity|exact Hr].
Qed.

Lemma plan_all_total l : exists r, plan_all l = Some (schemas_of l, r).
Proof.
  destruct (plan_total (tables_of l)) as [r Hp]. exists r. unfold plan_all. rewrite topLevel_spec, Hp. reflexivity.
Qed.
