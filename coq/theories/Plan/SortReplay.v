(** M-SORT proofs, part 2: the reference catalogue.
    What the catalogue looks like after replaying a prefix of a plan, and a sufficient
    condition ("the plan is sorted by a rank under which every obligation of the catalogue
    points to a strictly smaller rank") for the whole replay to succeed. *)
From Coq Require Import List Bool Arith Lia Permutation Sorted.
From Atlas Require Import Plan.SortModel Plan.SortDfs.
Import ListNotations.

(** * Table identity: the pair (schema, name), coded injectively *)
Lemma qcode_inj s n s' n' : qcode s n = qcode s' n' -> s = s' /\ n = n'.
Proof.
  unfold qcode. intros H.
  assert (Ha : s + n = s' + n') by nia.
  rewrite Ha in H. split; lia.
Qed.

Lemma qn_inj a b : qn a = qn b -> t_name a = t_name b /\ t_schema a = t_schema b.
Proof. unfold qn. intros H. apply qcode_inj in H. tauto. Qed.

Lemma qn_name a b : qn a = qn b -> t_name a = t_name b.
Proof. intros H. apply (proj1 (qn_inj a b H)). Qed.

(* SameTable: equal name and schema = the same database table *)
Lemma same_table_qn a b : same_table a b = true <-> qn a = qn b.
Proof.
  unfold same_table. rewrite andb_true_iff, !Nat.eqb_eq. split.
  - intros [Hn Hs]. unfold qn. rewrite Hn, Hs. reflexivity.
  - intros H. apply qn_inj in H. tauto.
Qed.

(** * What a change does, by table (schema, name) *)
Definition nm (c : change) : nat := qn (table_of c).
Definition adds (c : change) : list nat := match c with AddTable t _ => [qn t] | _ => [] end.
Definition drops (c : change) : list nat := match c with DropTable t _ => [qn t] | _ => [] end.
Definition tc_added (tc : tchange) : list fkey :=
  match tc with AddFK f => [f] | ModifyFK _ to => [to] | _ => [] end.
(* the foreign keys a change declares *)
Definition added_fks (c : change) : list fkey :=
  match c with
  | AddTable _ fks => fks
  | DropTable _ _ => []
  | ModifyTable _ tcs => flat_map tc_added tcs
  end.
Definition tc_removes (s : nat) (tc : tchange) : bool :=
  match tc with DropFK f => f_sym f =? s | ModifyFK from _ => f_sym from =? s | _ => false end.
(* does the change remove the live foreign key (child, symbol)? *)
Definition removes (child s : nat) (c : change) : bool :=
  match c with
  | AddTable _ _ => false
  | DropTable t _ => qn t =? child
  | ModifyTable t tcs => (qn t =? child) && existsb (tc_removes s) tcs
  end.
(* the symbols of the live keys a table change drops, and the keys (child, symbol) a change drops explicitly *)
Definition tc_rm (tc : tchange) : list nat :=
  match tc with DropFK f => [f_sym f] | ModifyFK from _ => [f_sym from] | _ => [] end.
Definition rm_keys (c : change) : list (nat * nat) :=
  match c with ModifyTable t tcs => map (pair (qn t)) (flat_map tc_rm tcs) | _ => [] end.
Definition fk_entry (child : nat) (f : fkey) : nat * nat * nat := (child, f_sym f, qn (f_ref f)).

Lemma replay_app l1 l2 c :
  replay (l1 ++ l2) c = match replay l1 c with None => None | Some c1 => replay l2 c1 end.
Proof.
  revert c. induction l1 as [|x l1 IH]; intros c; simpl; [reflexivity|].
  destruct (replay1 c x); [apply IH|reflexivity].
Qed.

Lemma remove_nat_in x n l : In x (remove_nat n l) <-> In x l /\ x <> n.
Proof.
  induction l as [|a l IH]; simpl; [tauto|].
  destruct (n =? a) eqn:E.
  - apply Nat.eqb_eq in E. subst. rewrite IH. split; [tauto|]. intros [[H|H] Hn]; [congruence|tauto].
  - apply Nat.eqb_neq in E. simpl. rewrite IH. split.
    + intros [H|H]; [subst; split; [left; reflexivity|congruence]|tauto].
    + tauto.
Qed.

(** * One step *)
Lemma replay_tcs_tabs t : forall tcs c c', replay_tcs t c tcs = Some c' -> c_tabs c' = c_tabs c.
Proof.
  induction tcs as [|tc tcs IH]; intros c c' H; simpl in H; [inversion H; reflexivity|].
  destruct (replay_tc t c tc) as [c1|] eqn:E; [|discriminate].
  rewrite (IH c1 c' H). destruct tc; simpl in E.
  - destruct (mem _ _); inversion E; reflexivity.
  - destruct (fk_live _ _ _); inversion E; reflexivity.
  - destruct (mem _ _); [|discriminate]. destruct (fk_live _ _ _); inversion E; reflexivity.
  - inversion E; reflexivity.
Qed.

Lemma step_tabs c x c1 n :
  replay1 c x = Some c1 ->
  (In n (c_tabs c1) <-> (In n (c_tabs c) \/ In n (adds x)) /\ ~ In n (drops x)).
Proof.
  destruct x as [t fks|t fks|t tcs]; simpl; intros H.
  - destruct (mem (qn t) (c_tabs c)); [discriminate|].
    destruct (forallb _ fks); inversion H; subst; simpl. tauto.
  - destruct (negb (mem (qn t) (c_tabs c))); [discriminate|].
    destruct (existsb _ (c_fks c)); inversion H; subst; simpl.
    rewrite remove_nat_in. intuition.
  - destruct (mem (qn t) (c_tabs c)); [|discriminate].
    rewrite (replay_tcs_tabs _ _ _ _ H). tauto.
Qed.

Lemma filter_key_in child s (e : nat * nat * nat) l :
  In e (filter (fk_key_neqb child s) l) <->
  In e l /\ ~ (fst (fst e) = child /\ snd (fst e) = s).
Proof.
  rewrite filter_In. unfold fk_key_neqb.
  destruct (Nat.eqb_spec (fst (fst e)) child) as [E1|E1];
    destruct (Nat.eqb_spec (snd (fst e)) s) as [E2|E2]; simpl;
    (split; [intros [H1 H2]; split; [exact H1|try discriminate; tauto]
            |intros [H1 H2]; split; [exact H1|try reflexivity; tauto]]).
Qed.

Lemma replay_tcs_fks t : forall tcs c c' e,
  replay_tcs t c tcs = Some c' -> In e (c_fks c') ->
  (In e (c_fks c) /\ ((fst (fst e) =? t) && existsb (tc_removes (snd (fst e))) tcs = false)) \/
  (exists f, In f (flat_map tc_added tcs) /\ e = fk_entry t f).
Proof.
  induction tcs as [|tc tcs IH]; intros c c' e H He; simpl in H.
  - inversion H; subst. left. split; [exact He|]. simpl. apply andb_false_r.
  - destruct (replay_tc t c tc) as [c1|] eqn:E; [|discriminate].
    destruct (IH c1 c' e H He) as [[H1 H2]|[f [Hf Hfe]]].
    2:{ right. exists f. split; [|exact Hfe]. simpl. apply in_or_app. right. exact Hf. }
    destruct tc as [f|f|from to|k]; simpl in E.
    + destruct (mem _ _); inversion E; subst; simpl in *.
      apply in_app_or in H1. destruct H1 as [H1|[<-|[]]].
      * left. split; [exact H1|exact H2].
      * right. exists f. split; [left; reflexivity|reflexivity].
    + destruct (fk_live _ _ _); inversion E; subst; simpl in *. apply filter_key_in in H1. destruct H1 as [H1 Hk].
      left. split; [exact H1|].
      apply andb_false_iff in H2. apply andb_false_iff.
      destruct H2 as [H2|H2]; [left; exact H2|].
      destruct (fst (fst e) =? t) eqn:Et; [|left; reflexivity]. right.
      rewrite H2, orb_false_r. apply Nat.eqb_eq in Et. apply Nat.eqb_neq.
        intros Hs. apply Hk. split; [exact Et|symmetry; exact Hs].
    + destruct (mem _ _); [|discriminate]. destruct (fk_live _ _ _); inversion E; subst; simpl in *.
      apply in_app_or in H1. destruct H1 as [H1|[<-|[]]].
      * apply filter_key_in in H1. destruct H1 as [H1 Hk].
        left. split; [exact H1|].
        apply andb_false_iff in H2. apply andb_false_iff.
        destruct H2 as [H2|H2]; [left; exact H2|].
        destruct (fst (fst e) =? t) eqn:Et; [|left; reflexivity]. right.
        rewrite H2, orb_false_r. apply Nat.eqb_eq in Et. apply Nat.eqb_neq.
        intros Hs. apply Hk. split; [exact Et|symmetry; exact Hs].
      * right. exists to. split; [left; reflexivity|reflexivity].
    + inversion E; subst. left. split; [exact H1|exact H2].
Qed.

Lemma step_fks c x c1 e :
  replay1 c x = Some c1 -> In e (c_fks c1) ->
  (In e (c_fks c) /\ removes (fst (fst e)) (snd (fst e)) x = false) \/
  (exists f, In f (added_fks x) /\ e = fk_entry (nm x) f).
Proof.
  destruct x as [t fks|t fks|t tcs]; simpl; intros H He.
  - destruct (mem (qn t) (c_tabs c)); [discriminate|].
    destruct (forallb _ fks); inversion H; subst; simpl in *.
    apply in_app_or in He. destruct He as [He|He]; [left; split; [exact He|reflexivity]|].
    apply in_map_iff in He. destruct He as [f [Hf Hin]]. right. exists f. split; [exact Hin|].
    rewrite <- Hf. reflexivity.
  - destruct (negb (mem (qn t) (c_tabs c))); [discriminate|].
    destruct (existsb _ (c_fks c)); inversion H; subst; simpl in *.
    apply filter_In in He. destruct He as [He Hn]. left. split; [exact He|].
    apply negb_true_iff in Hn. rewrite Nat.eqb_sym. exact Hn.
  - destruct (mem (qn t) (c_tabs c)); [|discriminate].
    destruct (replay_tcs_fks _ _ _ _ e H He) as [[H1 H2]|H2]; [left|right; exact H2].
    split; [exact H1|]. rewrite Nat.eqb_sym. exact H2.
Qed.

(** * The catalogue after a prefix *)
Lemma after_tabs_lower : forall pre c st n,
  replay pre c = Some st ->
  In n (c_tabs c) \/ In n (flat_map adds pre) -> ~ In n (flat_map drops pre) -> In n (c_tabs st).
Proof.
  induction pre as [|x pre IH]; intros c st n H Hin Hnd; simpl in *.
  - inversion H; subst. destruct Hin as [Hin|[]]. exact Hin.
  - destruct (replay1 c x) as [c1|] eqn:E; [|discriminate].
    apply (IH c1 st n H).
    + rewrite in_app_iff in Hin.
      destruct Hin as [Hin|[Hin|Hin]]; [left|left|right; exact Hin];
        apply (step_tabs c x c1 n E); (split; [tauto|]); intros Hd; apply Hnd; apply in_or_app; left; exact Hd.
    + intros Hd. apply Hnd. apply in_or_app. right. exact Hd.
Qed.

Lemma after_tabs_upper : forall pre c st n,
  replay pre c = Some st -> In n (c_tabs st) -> In n (c_tabs c) \/ In n (flat_map adds pre).
Proof.
  induction pre as [|x pre IH]; intros c st n H Hin; simpl in *.
  - inversion H; subst. left. exact Hin.
  - destruct (replay1 c x) as [c1|] eqn:E; [|discriminate].
    rewrite in_app_iff. destruct (IH c1 st n H Hin) as [H1|H1]; [|tauto].
    apply (step_tabs c x c1 n E) in H1. tauto.
Qed.

Lemma after_fks : forall pre c st e,
  replay pre c = Some st -> In e (c_fks st) ->
  (In e (c_fks c) /\ forall x, In x pre -> removes (fst (fst e)) (snd (fst e)) x = false) \/
  (exists x f, In x pre /\ In f (added_fks x) /\ e = fk_entry (nm x) f).
Proof.
  induction pre as [|x pre IH]; intros c st e H He; simpl in *.
  - inversion H; subst. left. split; [exact He|intros x []].
  - destruct (replay1 c x) as [c1|] eqn:E; [|discriminate].
    destruct (IH c1 st e H He) as [[H1 H2]|[y [f [Hy Hf]]]].
    + destruct (step_fks c x c1 e E H1) as [[H3 H4]|[f [Hf Hfe]]].
      * left. split; [exact H3|]. intros y [<-|Hy]; [exact H4|apply H2; exact Hy].
      * right. exists x, f. split; [left; reflexivity|split; assumption].
    + right. exists y, f. split; [right; exact Hy|exact Hf].
Qed.

(** * When one step succeeds *)
Lemma fk_live_true t s c p : In (t, s, p) (c_fks c) -> fk_live t s c = true.
Proof.
  intros H. unfold fk_live. apply existsb_exists. exists (t, s, p). split; [exact H|].
  unfold fk_key_neqb. simpl. rewrite !Nat.eqb_refl. reflexivity.
Qed.

Lemma tc_removes_rm s tc : tc_removes s tc = true <-> In s (tc_rm tc).
Proof.
  destruct tc; simpl; try (split; [discriminate|intros []]);
    (rewrite Nat.eqb_eq; split; [intros <-; left; reflexivity|intros [H|[]]; exact H]).
Qed.

Lemma removes_rm_keys child s x :
  removes child s x = true -> (exists t fks, x = DropTable t fks /\ qn t = child) \/ In (child, s) (rm_keys x).
Proof.
  destruct x as [t fks|t fks|t tcs]; simpl; intros H; [discriminate| |].
  - left. exists t, fks. split; [reflexivity|apply Nat.eqb_eq; exact H].
  - right. apply andb_true_iff in H. destruct H as [H1 H2]. apply Nat.eqb_eq in H1. subst child.
    apply in_map. apply existsb_exists in H2. destruct H2 as [tc [Htc Hr]].
    apply in_flat_map. exists tc. split; [exact Htc|apply tc_removes_rm; exact Hr].
Qed.

(* a ModifyTable replays when the parents of the keys it declares exist and every key it drops is live
   and is dropped once *)
Lemma replay_tcs_ok t : forall tcs c,
  (forall f, In f (flat_map tc_added tcs) -> In (qn (f_ref f)) (c_tabs c)) ->
  NoDup (flat_map tc_rm tcs) ->
  (forall s, In s (flat_map tc_rm tcs) -> exists p, In (t, s, p) (c_fks c)) ->
  exists c', replay_tcs t c tcs = Some c'.
Proof.
  induction tcs as [|tc tcs IH]; intros c Hf Hn Hl; simpl; [eexists; reflexivity|].
  assert (Hstep : exists c1, replay_tc t c tc = Some c1 /\ c_tabs c1 = c_tabs c /\
            (forall s p, In (t, s, p) (c_fks c) -> ~ In s (tc_rm tc) -> In (t, s, p) (c_fks c1))).
  { destruct tc as [f|f|from to|k]; simpl.
    - assert (Hm : mem (qn (f_ref f)) (c_tabs c) = true)
        by (apply mem_In; apply Hf; simpl; left; reflexivity).
      rewrite Hm. eexists; split; [reflexivity|]. split; [reflexivity|].
      intros s p H _. simpl. apply in_or_app. left. exact H.
    - destruct (Hl (f_sym f)) as [p Hp]; [simpl; left; reflexivity|].
      rewrite (fk_live_true t (f_sym f) c p Hp). eexists; split; [reflexivity|]. split; [reflexivity|].
      intros s q H Hs. simpl. apply filter_key_in. split; [exact H|]. simpl. intros [_ E]. apply Hs. left. symmetry. exact E.
    - assert (Hm : mem (qn (f_ref to)) (c_tabs c) = true)
        by (apply mem_In; apply Hf; simpl; left; reflexivity).
      rewrite Hm. destruct (Hl (f_sym from)) as [p Hp]; [simpl; left; reflexivity|].
      rewrite (fk_live_true t (f_sym from) c p Hp). eexists; split; [reflexivity|]. split; [reflexivity|].
      intros s q H Hs. simpl. apply in_or_app. left. apply filter_key_in. split; [exact H|]. simpl.
      intros [_ E]. apply Hs. left. symmetry. exact E.
    - eexists; split; [reflexivity|]. split; [reflexivity|]. intros s p H _. exact H. }
  destruct Hstep as [c1 [E1 [Et Hk]]]. rewrite E1. apply IH.
  - intros f Hin. rewrite Et. apply Hf. simpl. apply in_or_app. right. exact Hin.
  - simpl in Hn. apply NoDup_app_r in Hn. exact Hn.
  - intros s Hs. destruct (Hl s) as [p Hp]; [simpl; apply in_or_app; right; exact Hs|].
    exists p. apply Hk; [exact Hp|]. intros Hs1. simpl in Hn.
    clear -Hn Hs Hs1. induction (tc_rm tc) as [|a l IHl]; [destruct Hs1|].
    simpl in Hn. inversion Hn; subst. destruct Hs1 as [->|Hs1].
    + apply H1. apply in_or_app. right. exact Hs.
    + apply IHl; assumption.
Qed.

Lemma step_add_ok st t fks :
  ~ In (qn t) (c_tabs st) ->
  (forall f, In f fks -> qn (f_ref f) = qn t \/ In (qn (f_ref f)) (c_tabs st)) ->
  exists c', replay1 st (AddTable t fks) = Some c'.
Proof.
  intros Hn Hf. unfold replay1. apply mem_false in Hn. rewrite Hn.
  assert (Hall : forallb (fun f => mem (qn (f_ref f)) (qn t :: c_tabs st)) fks = true).
  { apply forallb_forall. intros f Hin. apply mem_In. destruct (Hf f Hin) as [->|H]; [left; reflexivity|right; exact H]. }
  rewrite Hall. eexists; reflexivity.
Qed.

Lemma step_modify_ok st t tcs :
  In (qn t) (c_tabs st) ->
  (forall f, In f (flat_map tc_added tcs) -> In (qn (f_ref f)) (c_tabs st)) ->
  NoDup (flat_map tc_rm tcs) ->
  (forall s, In s (flat_map tc_rm tcs) -> exists p, In (qn t, s, p) (c_fks st)) ->
  exists c', replay1 st (ModifyTable t tcs) = Some c'.
Proof.
  intros Ht Hf Hn Hl. simpl. apply mem_In in Ht. rewrite Ht. apply replay_tcs_ok; assumption.
Qed.

(* a live key stays live as long as nothing removes it *)
Lemma replay_tcs_fks_lower t : forall tcs c c' e,
  replay_tcs t c tcs = Some c' -> In e (c_fks c) ->
  (fst (fst e) =? t) && existsb (tc_removes (snd (fst e))) tcs = false -> In e (c_fks c').
Proof.
  induction tcs as [|tc tcs IH]; intros c c' e H He Hr; simpl in H; [inversion H; subst; exact He|].
  destruct (replay_tc t c tc) as [c1|] eqn:E; [|discriminate].
  apply (IH c1 c' e H).
  - simpl in Hr. destruct tc as [f|f|from to|k]; simpl in E.
    + destruct (mem _ _); inversion E; subst; simpl. apply in_or_app. left. exact He.
    + destruct (fk_live _ _ _); inversion E; subst; simpl. apply filter_key_in. split; [exact He|].
      intros [E1 E2]. rewrite E1, Nat.eqb_refl in Hr. simpl in Hr. rewrite E2, Nat.eqb_refl in Hr. discriminate.
    + destruct (mem _ _); [|discriminate]. destruct (fk_live _ _ _); inversion E; subst; simpl.
      apply in_or_app. left. apply filter_key_in. split; [exact He|].
      intros [E1 E2]. rewrite E1, Nat.eqb_refl in Hr. simpl in Hr. rewrite E2, Nat.eqb_refl in Hr. discriminate.
    + inversion E; subst. exact He.
  - simpl in Hr. destruct (fst (fst e) =? t); [|reflexivity]. simpl in *.
    apply orb_false_iff in Hr. tauto.
Qed.

Lemma step_fks_lower c x c1 e :
  replay1 c x = Some c1 -> In e (c_fks c) -> removes (fst (fst e)) (snd (fst e)) x = false -> In e (c_fks c1).
Proof.
  destruct x as [t fks|t fks|t tcs]; simpl; intros H He Hr.
  - destruct (mem (qn t) (c_tabs c)); [discriminate|].
    destruct (forallb _ fks); inversion H; subst; simpl. apply in_or_app. left. exact He.
  - destruct (negb (mem (qn t) (c_tabs c))); [discriminate|].
    destruct (existsb _ (c_fks c)); inversion H; subst; simpl.
    apply filter_In. split; [exact He|]. apply negb_true_iff. rewrite Nat.eqb_sym. exact Hr.
  - destruct (mem (qn t) (c_tabs c)); [|discriminate].
    apply (replay_tcs_fks_lower _ _ _ _ e H He). rewrite Nat.eqb_sym. exact Hr.
Qed.

Lemma after_fks_lower : forall pre c st e,
  replay pre c = Some st -> In e (c_fks c) ->
  (forall y, In y pre -> removes (fst (fst e)) (snd (fst e)) y = false) -> In e (c_fks st).
Proof.
  induction pre as [|x pre IH]; intros c st e H He Hr; simpl in H; [inversion H; subst; exact He|].
  destruct (replay1 c x) as [c1|] eqn:E; [|discriminate].
  apply (IH c1 st e H).
  - apply (step_fks_lower c x c1 e E He). apply Hr. left. reflexivity.
  - intros y Hy. apply Hr. right. exact Hy.
Qed.

Lemma step_drop_ok st t fks :
  In (qn t) (c_tabs st) ->
  (forall e, In e (c_fks st) -> snd e = qn t -> fst (fst e) = qn t) ->
  exists c', replay1 st (DropTable t fks) = Some c'.
Proof.
  intros Ht Hf. simpl. apply mem_In in Ht. rewrite Ht. simpl.
  assert (He : existsb (fun e => (snd e =? qn t) && negb (fst (fst e) =? qn t)) (c_fks st) = false).
  { destruct (existsb _ (c_fks st)) eqn:E; [|reflexivity]. exfalso.
    apply existsb_exists in E. destruct E as [e [Hin He]].
    apply andb_true_iff in He. destruct He as [H1 H2].
    apply Nat.eqb_eq in H1. apply negb_true_iff in H2. apply Nat.eqb_neq in H2.
    apply H2. apply Hf; assumption. }
  rewrite He. eexists; reflexivity.
Qed.

(** * Rank-sorted plans replay *)
Definition rle (r : change -> nat) (x y : change) : Prop := r x <= r y.

Lemma sorted_before r l : StronglySorted (rle r) l ->
  forall pre x post y, l = pre ++ x :: post -> In y l -> r y < r x -> In y pre.
Proof.
  intros Hs. induction Hs as [|a l Hs IH Hall]; intros pre x post y El Hy Hr.
  - destruct pre; discriminate.
  - destruct pre as [|b pre]; simpl in El.
    + inversion El; subst. destruct Hy as [<-|Hy]; [lia|].
      rewrite Forall_forall in Hall. specialize (Hall y Hy). unfold rle in Hall. lia.
    + inversion El; subst. destruct Hy as [<-|Hy]; [left; reflexivity|].
      right. apply (IH pre x post y eq_refl Hy Hr).
Qed.

Lemma sorted_prefix_le r l : StronglySorted (rle r) l ->
  forall pre x post y, l = pre ++ x :: post -> In y pre -> r y <= r x.
Proof.
  intros Hs. induction Hs as [|a l Hs IH Hall]; intros pre x post y El Hy.
  - destruct pre; discriminate.
  - destruct pre as [|b pre]; simpl in El; [destruct Hy|].
    inversion El; subst. destruct Hy as [<-|Hy].
    + rewrite Forall_forall in Hall. apply Hall. apply in_or_app. right. left. reflexivity.
    + apply (IH pre x post y eq_refl Hy).
Qed.

Lemma in_adds_iff n l : In n (flat_map adds l) <-> exists t fks, In (AddTable t fks) l /\ qn t = n.
Proof.
  rewrite in_flat_map. split.
  - intros [x [Hx Hn]]. destruct x as [t fks| |]; simpl in Hn; try (destruct Hn; fail).
    destruct Hn as [<-|[]]. exists t, fks. split; [exact Hx|reflexivity].
  - intros [t [fks [Hx <-]]]. exists (AddTable t fks). split; [exact Hx|left; reflexivity].
Qed.

Lemma in_drops_iff n l : In n (flat_map drops l) <-> exists t fks, In (DropTable t fks) l /\ qn t = n.
Proof.
  rewrite in_flat_map. split.
  - intros [x [Hx Hn]]. destruct x as [|t fks|]; simpl in Hn; try (destruct Hn; fail).
    destruct Hn as [<-|[]]. exists t, fks. split; [exact Hx|reflexivity].
  - intros [t [fks [Hx <-]]]. exists (DropTable t fks). split; [exact Hx|left; reflexivity].
Qed.

(** * Plans whose every obligation is met by the prefix before it *)
Record split_ok (l : list change) (c : cat) : Prop := {
  (* every table of the plan is created at most once, and does not pre-exist *)
  so_adds : NoDup (flat_map adds l);
  so_adds_new : forall n, In n (flat_map adds l) -> ~ In n (c_tabs c);
  (* ... dropped at most once, and pre-exists *)
  so_drops : NoDup (flat_map drops l);
  so_drops_old : forall n, In n (flat_map drops l) -> In n (c_tabs c);
  (* a declared foreign key never points at a table the plan drops *)
  so_nodrop : forall x f, In x l -> In f (added_fks x) -> ~ In (qn (f_ref f)) (flat_map drops l);
  (* its parent pre-exists, or is created before, or is the created table itself *)
  so_fk : forall pre x post f, l = pre ++ x :: post -> In f (added_fks x) ->
    In (qn (f_ref f)) (c_tabs c) \/ In (qn (f_ref f)) (flat_map adds pre) \/ adds x = [qn (f_ref f)];
  (* a modified table pre-exists or is created before, and is not dropped before *)
  so_mod : forall pre t tcs post, l = pre ++ ModifyTable t tcs :: post ->
    ~ In (qn t) (flat_map drops pre) /\
    (In (qn t) (c_tabs c) \/ In (qn t) (flat_map adds pre));
  (* every live foreign key from another table to a dropped table is removed before *)
  so_drop : forall pre p fks post e, l = pre ++ DropTable p fks :: post -> In e (c_fks c) ->
    snd e = qn p -> fst (fst e) <> qn p ->
    exists y, In y pre /\ removes (fst (fst e)) (snd (fst e)) y = true;
  (* a key that is dropped explicitly (DROP FOREIGN KEY / re-pointed) is live initially and dropped once *)
  so_rm_nodup : NoDup (flat_map rm_keys l);
  so_rm_live : forall k, In k (flat_map rm_keys l) -> exists p, In (k, p) (c_fks c)
}.

Section Split.
  Variable l : list change.
  Variable c : cat.
  Hypothesis H : split_ok l c.

  Lemma prefix_ok : forall pre post, l = pre ++ post -> exists st, replay pre c = Some st.
  Proof.
    induction pre as [|x pre IH] using rev_ind; intros post El; [eexists; reflexivity|].
    rewrite <- app_assoc in El. simpl in El.
    destruct (IH (x :: post) El) as [st Hst].
    rewrite replay_app, Hst. simpl.
    assert (Hx : In x l) by (rewrite El; apply in_or_app; right; left; reflexivity).
    assert (Hnodrop_fk : forall f, In f (added_fks x) -> ~ In (qn (f_ref f)) (flat_map drops pre)).
    { intros f Hf Hd. apply (so_nodrop l c H x f Hx Hf).
      rewrite El, flat_map_app. apply in_or_app. left. exact Hd. }
    assert (Hfk_live : forall f, In f (added_fks x) ->
              adds x = [qn (f_ref f)] \/ In (qn (f_ref f)) (c_tabs st)).
    { intros f Hf. destruct (so_fk l c H pre x post f El Hf) as [H1|[H1|H1]].
      - right. apply (after_tabs_lower pre c st _ Hst); [left; exact H1|apply Hnodrop_fk; exact Hf].
      - right. apply (after_tabs_lower pre c st _ Hst); [right; exact H1|apply Hnodrop_fk; exact Hf].
      - left. exact H1. }
    destruct x as [t fks|t fks|t tcs].
    - (* AddTable *)
      assert (E : exists c', replay1 st (AddTable t fks) = Some c').
      { apply step_add_ok.
        - intros Hin. apply (after_tabs_upper pre c st _ Hst) in Hin. destruct Hin as [Hin|Hin].
          + apply (so_adds_new l c H (qn t)); [|exact Hin].
            rewrite El, flat_map_app. apply in_or_app. right. simpl. left. reflexivity.
          + pose proof (so_adds l c H) as Hadds. rewrite El, flat_map_app in Hadds. simpl in Hadds.
            apply NoDup_remove_2 in Hadds. apply Hadds. apply in_or_app. left. exact Hin.
        - intros f Hf. destruct (Hfk_live f Hf) as [H1|H1]; [left|right; exact H1].
          simpl in H1. inversion H1. reflexivity. }
      destruct E as [c' E]. rewrite E. eexists; reflexivity.
    - (* DropTable *)
      assert (E : exists c', replay1 st (DropTable t fks) = Some c').
      { apply step_drop_ok.
        - apply (after_tabs_lower pre c st _ Hst).
          + left. apply (so_drops_old l c H). rewrite El, flat_map_app. apply in_or_app. right. simpl. left. reflexivity.
          + pose proof (so_drops l c H) as Hdrops. rewrite El, flat_map_app in Hdrops. simpl in Hdrops.
            apply NoDup_remove_2 in Hdrops. intros Hin. apply Hdrops. apply in_or_app. left. exact Hin.
        - intros e He Hp. destruct (Nat.eq_dec (fst (fst e)) (qn t)) as [Heq|Hne]; [exact Heq|exfalso].
          destruct (after_fks pre c st e Hst He) as [[H1 H2]|[y [f [Hy [Hf Hfe]]]]].
          + destruct (so_drop l c H pre t fks post e El H1 Hp Hne) as [y [Hy Hrm]].
            rewrite (H2 y Hy) in Hrm. discriminate.
          + assert (Hyl : In y l) by (rewrite El; apply in_or_app; left; exact Hy).
            apply (so_nodrop l c H y f Hyl Hf).
            subst e. simpl in Hp. rewrite Hp. apply in_drops_iff. exists t, fks. split; [exact Hx|reflexivity]. }
      destruct E as [c' E]. rewrite E. eexists; reflexivity.
    - (* ModifyTable *)
      assert (E : exists c', replay1 st (ModifyTable t tcs) = Some c').
      { destruct (so_mod l c H pre t tcs post El) as [Hdr Hex].
        pose proof (so_rm_nodup l c H) as Hnd. rewrite El, flat_map_app in Hnd. simpl in Hnd.
        apply step_modify_ok.
        - apply (after_tabs_lower pre c st _ Hst); [exact Hex|exact Hdr].
        - intros f Hf. destruct (Hfk_live f Hf) as [H1|H1]; [discriminate H1|exact H1].
        - apply NoDup_app_r in Hnd. apply NoDup_app_l in Hnd.
          apply (NoDup_map_inv _ _ Hnd).
        - intros s Hs.
          assert (Hk : In (qn t, s) (map (pair (qn t)) (flat_map tc_rm tcs))) by (apply in_map; exact Hs).
          destruct (so_rm_live l c H (qn t, s)) as [p Hp].
          { rewrite El, flat_map_app. apply in_or_app. right. simpl. apply in_or_app. left. exact Hk. }
          exists p. apply (after_fks_lower pre c st _ Hst Hp). simpl.
          intros y Hy. destruct (removes (qn t) s y) eqn:Er; [exfalso|reflexivity].
          destruct (removes_rm_keys _ _ _ Er) as [[t' [fks' [-> Hn]]]|Hky].
          + apply Hdr. apply in_drops_iff. exists t', fks'. split; [exact Hy|exact Hn].
          + assert (Hkp : In (qn t, s) (flat_map rm_keys pre)) by (apply in_flat_map; exists y; split; assumption).
            clear -Hnd Hkp Hk. induction (flat_map rm_keys pre) as [|a l0 IHl]; [destruct Hkp|].
            simpl in Hnd. inversion Hnd; subst. destruct Hkp as [->|Hkp].
            * apply H1. apply in_or_app. right. apply in_or_app. left. exact Hk.
            * apply IHl; assumption. }
      destruct E as [c' E]. rewrite E. eexists; reflexivity.
  Qed.

  Theorem split_replay_ok : exists c', replay l c = Some c'.
  Proof. apply (prefix_ok l []). rewrite app_nil_r. reflexivity. Qed.
End Split.

Section Safe.
  Variable r : change -> nat.
  Variable l : list change.
  Variable c : cat.
  Hypothesis Hsorted : StronglySorted (rle r) l.
  (* every table of the plan is created at most once, and does not pre-exist *)
  Hypothesis Hadds : NoDup (flat_map adds l).
  Hypothesis Hadds_new : forall n, In n (flat_map adds l) -> ~ In n (c_tabs c).
  (* ... dropped at most once, and pre-exists *)
  Hypothesis Hdrops : NoDup (flat_map drops l).
  Hypothesis Hdrops_old : forall n, In n (flat_map drops l) -> In n (c_tabs c).
  (* a declared foreign key never points at a table the plan drops; its parent pre-exists,
     or is created by a change of strictly smaller rank (or, stated directly, before it),
     or is the created table itself *)
  Hypothesis Hfk : forall x f, In x l -> In f (added_fks x) ->
    ~ In (qn (f_ref f)) (flat_map drops l) /\
    (In (qn (f_ref f)) (c_tabs c) \/
     ((exists y, In y l /\ adds y = [qn (f_ref f)] /\ r y < r x) \/
      (forall pre post, l = pre ++ x :: post -> In (qn (f_ref f)) (flat_map adds pre))) \/
     (adds x = [qn (f_ref f)])).
  (* a modified table pre-exists or is created at a strictly smaller rank; every drop has a larger rank *)
  Hypothesis Hmod : forall t tcs, In (ModifyTable t tcs) l ->
    (forall y, In y l -> is_drop y = true -> r (ModifyTable t tcs) < r y) /\
    (In (qn t) (c_tabs c) \/ exists y, In y l /\ adds y = [qn t] /\ r y < r (ModifyTable t tcs)).
  (* every live foreign key from another table to a dropped table is removed at a strictly smaller rank *)
  Hypothesis Hdrop : forall p fks e, In (DropTable p fks) l -> In e (c_fks c) ->
    snd e = qn p -> fst (fst e) <> qn p ->
    exists y, In y l /\ removes (fst (fst e)) (snd (fst e)) y = true /\ r y < r (DropTable p fks).

  Hypothesis Hrm_nodup : NoDup (flat_map rm_keys l).
  Hypothesis Hrm_live : forall k, In k (flat_map rm_keys l) -> exists p, In (k, p) (c_fks c).

  Lemma adds_in_pre pre x post n y :
    l = pre ++ x :: post -> In y l -> adds y = [n] -> r y < r x -> In n (flat_map adds pre).
  Proof.
    intros El Hy Ha Hr. pose proof (sorted_before r l Hsorted pre x post y El Hy Hr) as Hp.
    apply in_flat_map. exists y. split; [exact Hp|]. rewrite Ha. left. reflexivity.
  Qed.

  Lemma ranked_split : split_ok l c.
  Proof.
    constructor; try assumption.
    - intros x f Hx Hf. apply (Hfk x f Hx Hf).
    - intros pre x post f El Hf.
      assert (Hx : In x l) by (rewrite El; apply in_or_app; right; left; reflexivity).
      destruct (Hfk x f Hx Hf) as [_ [H|[[[y [Hy [Ha Hr]]]|H]|H]]]; [left; exact H| | |right; right; exact H].
      + right. left. apply (adds_in_pre pre x post _ y El Hy Ha Hr).
      + right. left. apply (H pre post El).
    - intros pre t tcs post El.
      assert (Hx : In (ModifyTable t tcs) l) by (rewrite El; apply in_or_app; right; left; reflexivity).
      destruct (Hmod t tcs Hx) as [Hdr Hex]. split.
      + intros Hin. apply in_drops_iff in Hin. destruct Hin as [t' [fks' [Hin _]]].
        assert (Hl : In (DropTable t' fks') l) by (rewrite El; apply in_or_app; left; exact Hin).
        pose proof (Hdr _ Hl eq_refl) as H1.
        pose proof (sorted_prefix_le r l Hsorted pre _ post _ El Hin) as H2. lia.
      + destruct Hex as [H|[y [Hy [Ha Hr]]]]; [left; exact H|right].
        apply (adds_in_pre pre _ post _ y El Hy Ha Hr).
    - intros pre p fks post e El He Hp Hne.
      assert (Hx : In (DropTable p fks) l) by (rewrite El; apply in_or_app; right; left; reflexivity).
      destruct (Hdrop p fks e Hx He Hp Hne) as [y [Hy [Hrm Hr]]].
      exists y. split; [|exact Hrm]. apply (sorted_before r l Hsorted pre _ post y El Hy Hr).
  Qed.

  Theorem ranked_replay_ok : exists c', replay l c = Some c'.
  Proof. apply (split_replay_ok l c ranked_split). Qed.
End Safe.
