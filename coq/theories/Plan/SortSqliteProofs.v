(** M-SORT, part 4 -- the SQLite planner (SortSqliteModel.v): proofs.
    The plan is the change list itself; it replays on the SQLite catalogue in ANY input order, because the only
    order-dependent obligation SQLite has (DROP TABLE of a referenced table under enforcement) is switched off by the
    bracket, which is present whenever the plan drops a table. *)
From Coq Require Import List Bool Arith Lia Permutation Sorted.
From Atlas Require Import Plan.SortModel Plan.SortDfs Plan.SortReplay Plan.SortProofs Plan.SortSqliteModel.
Import ListNotations.

Definition live (t s : nat) (c : cat) : Prop := exists p, In (t, s, p) (c_fks c).

Lemma fk_live_iff t s c : fk_live t s c = true <-> live t s c.
Proof.
  unfold fk_live, live. rewrite existsb_exists. split.
  - intros [[[a b] p] [Hin He]]. unfold fk_key_neqb in He. simpl in He. apply negb_true_iff in He. apply negb_false_iff in He.
    apply andb_true_iff in He. destruct He as [E1 E2]. apply Nat.eqb_eq in E1. apply Nat.eqb_eq in E2. subst. exists p. exact Hin.
  - intros [p Hin]. exists (t, s, p). split; [exact Hin|]. unfold fk_key_neqb. simpl. rewrite !Nat.eqb_refl. reflexivity.
Qed.

Lemma live_filter_other t s t0 s0 l p :
  In (t, s, p) l -> (t <> t0 \/ s <> s0) -> In (t, s, p) (filter (fk_key_neqb t0 s0) l).
Proof.
  intros Hin Hne. apply filter_In. split; [exact Hin|]. unfold fk_key_neqb. simpl. apply negb_true_iff. apply andb_false_iff.
  destruct Hne as [H|H]; [left|right]; apply Nat.eqb_neq; exact H.
Qed.

(* the sub-changes of one ALTER: succeed when the dropped / re-pointed symbols are live and distinct;
   tables unchanged; keys of other tables stay live *)
Lemma stcs_ok t : forall tcs c,
  NoDup (flat_map tc_rm tcs) -> (forall s, In s (flat_map tc_rm tcs) -> live t s c) ->
  exists c', sreplay_tcs t c tcs = Some c' /\ c_tabs c' = c_tabs c /\
    (forall t' s', t' <> t -> live t' s' c -> live t' s' c').
Proof.
  induction tcs as [|tc tcs IH]; intros c Hnd Hl.
  - exists c. split; [reflexivity|]. split; [reflexivity|]. intros; assumption.
  - assert (Hstep : forall c1 s0, tc_rm tc = [s0] -> c_tabs c1 = c_tabs c ->
              (forall t' s' p, In (t', s', p) (c_fks c) -> t' <> t \/ s' <> s0 -> exists p', In (t', s', p') (c_fks c1)) ->
              exists c', sreplay_tcs t c1 tcs = Some c' /\ c_tabs c' = c_tabs c /\
                (forall t' s', t' <> t -> live t' s' c -> live t' s' c')).
    { intros c1 s0 Erm Etab Hkeep. simpl in Hnd. rewrite Erm in Hnd. simpl in Hnd. inversion Hnd as [|? ? Hn Hnd']; subst.
      destruct (IH c1 Hnd') as [c' [H1 [H2 H3]]].
      - intros s Hs. destruct (Hl s) as [p Hp]; [simpl; rewrite Erm; right; exact Hs|].
        apply (Hkeep t s p Hp). right. intros E. subst s. exact (Hn Hs).
      - exists c'. split; [exact H1|]. split; [congruence|].
        intros t' s' Ht [p Hp]. apply H3; [exact Ht|]. apply (Hkeep t' s' p Hp). left. exact Ht. }
    assert (Hplain : forall c1, tc_rm tc = [] -> c_tabs c1 = c_tabs c ->
              (forall t' s' p, In (t', s', p) (c_fks c) -> In (t', s', p) (c_fks c1)) ->
              exists c', sreplay_tcs t c1 tcs = Some c' /\ c_tabs c' = c_tabs c /\
                (forall t' s', t' <> t -> live t' s' c -> live t' s' c')).
    { intros c1 Erm Etab Hkeep. simpl in Hnd, Hl. rewrite Erm in Hnd, Hl. simpl in Hnd, Hl.
      destruct (IH c1 Hnd) as [c' [H1 [H2 H3]]].
      - intros s Hs. destruct (Hl s Hs) as [p Hp]. exists p. apply Hkeep. exact Hp.
      - exists c'. split; [exact H1|]. split; [congruence|].
        intros t' s' Ht [p Hp]. apply H3; [exact Ht|]. exists p. apply Hkeep. exact Hp. }
    destruct tc as [f|f|from to|k]; simpl.
    + apply Hplain; [reflexivity|reflexivity|]. simpl. intros t' s' p Hp. apply in_or_app. left. exact Hp.
    + assert (Hlv : fk_live t (f_sym f) c = true) by (apply fk_live_iff; apply Hl; simpl; left; reflexivity).
      rewrite Hlv. apply (Hstep _ (f_sym f)); [reflexivity|reflexivity|].
      simpl. intros t' s' p Hp Hne. exists p. apply live_filter_other; assumption.
    + assert (Hlv : fk_live t (f_sym from) c = true) by (apply fk_live_iff; apply Hl; simpl; left; reflexivity).
      rewrite Hlv. apply (Hstep _ (f_sym from)); [reflexivity|reflexivity|].
      simpl. intros t' s' p Hp Hne. exists p. apply in_or_app. left. apply live_filter_other; assumption.
    + apply Hplain; [reflexivity|reflexivity|]. intros; assumption.
Qed.

Section Sqlite.
  Variable cs : list change.
  Variable c : cat.
  Hypothesis HWF : WF cs.
  Hypothesis Hcons : consistent c cs.

  Let off := skipFKs cs.

  Definition sinv (pre : list change) (st : cat) : Prop :=
    (forall n, In n (c_tabs st) <-> (In n (c_tabs c) \/ In n (flat_map adds pre)) /\ ~ In n (flat_map drops pre)) /\
    (forall t s, live t s c -> (forall y, In y pre -> nm y <> t) -> live t s st).

  Lemma sprefix_ok : forall pre post, cs = pre ++ post -> exists st, sreplay off pre c = Some st /\ sinv pre st.
  Proof.
    induction pre as [|x pre IH] using rev_ind; intros post El.
    - exists c. split; [reflexivity|]. split.
      + intros n. simpl. tauto.
      + intros t s Hl _. exact Hl.
    - rewrite <- app_assoc in El. simpl in El.
      destruct (IH (x :: post) El) as [st [Hst [I1 I2]]].
      assert (Hx : In x cs) by (rewrite El; apply in_or_app; right; left; reflexivity).
      assert (Hpre : forall y, In y pre -> In y cs) by (intros y Hy; rewrite El; apply in_or_app; left; exact Hy).
      assert (Hnm : forall y, In y pre -> nm y <> nm x).
      { intros y Hy E. pose proof (wf_names cs HWF) as Hnd. rewrite El, map_app in Hnd. simpl in Hnd.
        apply NoDup_remove_2 in Hnd. apply Hnd. apply in_or_app. left. rewrite <- E. apply in_map. exact Hy. }
      assert (Hstep : exists st', sreplay1 off st x = Some st' /\ sinv (pre ++ [x]) st').
      { destruct x as [t fks|t fks|t tcs].
        - (* CREATE TABLE: the table is new *)
          assert (Hm : mem (qn t) (c_tabs st) = false).
          { apply mem_false. intros Hin. apply I1 in Hin. destruct Hin as [[H0|H0] _].
            - apply (cn_adds c cs Hcons (qn t)); [|exact H0]. apply in_adds_iff. exists t, fks. split; [exact Hx|reflexivity].
            - apply in_adds_iff in H0. destruct H0 as [t' [fks' [Hy Hq]]]. apply (Hnm _ Hy). unfold nm. simpl. exact Hq. }
          simpl. rewrite Hm. eexists. split; [reflexivity|]. split.
          + intros n. simpl. rewrite flat_map_app, in_app_iff, flat_map_app. simpl. rewrite !app_nil_r.
            rewrite (I1 n). split.
            * intros [<-|[H1 H2]]; [|tauto]. split; [tauto|]. intros Hd. apply in_drops_iff in Hd.
              destruct Hd as [t' [fks' [Hy Hq]]]. apply (Hnm _ Hy). unfold nm. simpl. exact Hq.
            * intros [[H1|[H1|[<-|[]]]] H2]; tauto.
          + intros t0 s Hl Hno. destruct (I2 t0 s Hl) as [p Hp].
            { intros y Hy. apply Hno. apply in_or_app. left. exact Hy. }
            exists p. simpl. apply in_or_app. left. exact Hp.
        - (* DROP TABLE: the table exists; enforcement is off because the plan drops a table *)
          assert (Hm : mem (qn t) (c_tabs st) = true).
          { apply mem_In. apply I1. split.
            - left. apply (cn_drops c cs Hcons). apply in_drops_iff. exists t, fks. split; [exact Hx|reflexivity].
            - intros Hd. apply in_drops_iff in Hd. destruct Hd as [t' [fks' [Hy Hq]]]. apply (Hnm _ Hy). unfold nm. simpl. exact Hq. }
          assert (Hoff : off = true).
          { unfold off, skipFKs. apply existsb_exists. exists (DropTable t fks). split; [exact Hx|reflexivity]. }
          simpl. rewrite Hm, Hoff. simpl. eexists. split; [reflexivity|]. split.
          + intros n. simpl. rewrite remove_nat_in, flat_map_app, flat_map_app. simpl. rewrite !app_nil_r, in_app_iff.
            rewrite (I1 n). simpl. split.
            * intros [[H1 H2] H3]. split; [exact H1|]. intros [H4|[H4|[]]]; [tauto|]. apply H3. symmetry. exact H4.
            * intros [H1 H2]. split; [split; [exact H1|tauto]|]. intros E. apply H2. right. left. symmetry. exact E.
          + intros t0 s Hl Hno. destruct (I2 t0 s Hl) as [p Hp].
            { intros y Hy. apply Hno. apply in_or_app. left. exact Hy. }
            exists p. simpl. apply filter_In. split; [exact Hp|]. simpl. apply negb_true_iff. apply Nat.eqb_neq.
            intros E. apply (Hno (DropTable t fks)); [apply in_or_app; right; left; reflexivity|]. unfold nm. simpl. congruence.
        - (* ALTER TABLE: the table exists, the dropped / re-pointed keys are live *)
          assert (Hm : mem (qn t) (c_tabs st) = true).
          { apply mem_In. apply I1. split.
            - left. apply (cn_mods c cs Hcons t tcs Hx).
            - intros Hd. apply in_drops_iff in Hd. destruct Hd as [t' [fks' [Hy Hq]]]. apply (Hnm _ Hy). unfold nm. simpl. exact Hq. }
          destruct (stcs_ok (qn t) tcs st) as [st' [H1 [H2 H3]]].
          + apply (wf_rm cs HWF _ Hx).
          + intros s Hs. apply I2.
            * apply (cn_rm_live c cs Hcons _ Hx s Hs).
            * intros y Hy. apply (Hnm y Hy).
          + simpl. rewrite Hm. exists st'. split; [exact H1|]. split.
            * intros n. rewrite H2, flat_map_app, flat_map_app. simpl. rewrite !app_nil_r. apply I1.
            * intros t0 s Hl Hno. apply H3.
              -- intros E. apply (Hno (ModifyTable t tcs)); [apply in_or_app; right; left; reflexivity|]. unfold nm. simpl. congruence.
              -- apply I2; [exact Hl|]. intros y Hy. apply Hno. apply in_or_app. left. exact Hy. }
      destruct Hstep as [st' [Hs Hi]]. exists st'. split; [|exact Hi].
      clear -Hst Hs. revert c Hst. induction pre as [|y pre IHp]; intros c0 Hst; simpl in *.
      + inversion Hst; subst. rewrite Hs. reflexivity.
      + destruct (sreplay1 off c0 y); [apply IHp; exact Hst|discriminate].
  Qed.

  Theorem sqlite_safe : exists c', sreplay (fst (sqlite_plan cs)) (snd (sqlite_plan cs)) c = Some c'.
  Proof.
    simpl. destruct (sprefix_ok cs [] (eq_sym (app_nil_r cs))) as [st [H _]]. exists st. exact H.
  Qed.
End Sqlite.

(* the plan is the change list: nothing is reordered, duplicated or lost; the bracket is there exactly when a
   table is dropped or rebuilt *)
Theorem sqlite_plan_spec l :
  snd (sqlite_plan l) = l /\
  (fst (sqlite_plan l) = true <->
   exists x, In x l /\ match x with AddTable _ _ => False | DropTable _ _ => True | ModifyTable _ tcs => alterable tcs = false end).
Proof.
  split; [reflexivity|]. simpl. unfold skipFKs. rewrite existsb_exists. split.
  - intros [x [Hx H]]. exists x. split; [exact Hx|]. destruct x; [discriminate|exact I|apply negb_true_iff; exact H].
  - intros [x [Hx H]]. exists x. split; [exact Hx|]. destruct x; [destruct H|reflexivity|apply negb_true_iff; exact H].
Qed.
