(** M-SORT, part 2 -- the type half of the reference catalogue (SortObjModel.treplay): a plan whose every type
    obligation is met by its prefix replays, and the plans of xplan are such plans. *)
From Coq Require Import List Bool Arith Lia Permutation Sorted.
From Atlas Require Import Plan.SortModel Plan.SortDfs Plan.SortReplay Plan.SortProofs Plan.SortObjModel
  Plan.SortGenProofs Plan.SortObjProofs.
Import ListNotations.

(** * what a change does to the type half *)
(* the enum types a table-level sub-change starts / stops using *)
Definition unew_tc (c : xtchange) : list enum :=
  match c with XAddCol e => [e] | XModCol _ (Some e) => [e] | _ => [] end.
Definition ugone_tc (c : xtchange) : list enum :=
  match c with XDropCol e => [e] | XModCol (Some e) _ => [e] | _ => [] end.

(* (table, type) uses a change adds; uses a ModifyTable removes column by column; uses a DropTable removes *)
Definition unew (x : xchange) : list (nat * enum) :=
  match x with
  | XAddTable t _ tys => map (pair (qn t)) tys
  | XModifyTable t cs => map (pair (qn t)) (flat_map unew_tc cs)
  | _ => []
  end.
Definition gone_col (x : xchange) : list (nat * enum) :=
  match x with XModifyTable t cs => map (pair (qn t)) (flat_map ugone_tc cs) | _ => [] end.
Definition gone_tab (x : xchange) : list (nat * enum) :=
  match x with XDropTable t _ tys => map (pair (qn t)) tys | _ => [] end.

Definition named (n : nat) (e : enum) : bool := e_name e =? n.

(* does the change remove the use u = (table, type name)? *)
Definition urem (x : xchange) (u : nat * nat) : bool :=
  match x with
  | XDropTable t _ _ => fst u =? qn t
  | XModifyTable t cs => (fst u =? qn t) && existsb (named (snd u)) (flat_map ugone_tc cs)
  | _ => false
  end.

(** * one step *)
Lemma use_neqb_spec t n u : use_neqb t n u = negb ((fst u =? t) && (snd u =? n)).
Proof. reflexivity. Qed.

(* the sub-changes of one ALTER TABLE: succeed when every type they start using exists; types unchanged;
   a use that survives was there and is not removed, or is new *)
Lemma tcs_ok t : forall cs tys uses,
  (forall e, In e (flat_map unew_tc cs) -> In (e_name e) tys) ->
  exists uses', treplay_tcs t (tys, uses) cs = Some (tys, uses') /\
    (forall u, In u uses' ->
       (In u uses /\ (fst u =? t) && existsb (named (snd u)) (flat_map ugone_tc cs) = false) \/
       In u (map (fun e => (t, e_name e)) (flat_map unew_tc cs))).
Proof.
  induction cs as [|c cs IH]; intros tys uses Hty.
  - exists uses. split; [reflexivity|]. intros u Hu. left. split; [exact Hu|]. simpl. apply andb_false_r.
  - assert (Hty' : forall e, In e (flat_map unew_tc cs) -> In (e_name e) tys).
    { intros e He. apply Hty. simpl. apply in_or_app. right. exact He. }
    assert (Hrem : forall (uses1 : list (nat * nat)) n,
              (forall u, In u uses1 -> In u uses /\ use_neqb t n u = true) ->
              forall g, ugone_tc c = [g] -> e_name g = n ->
              forall u, In u uses1 -> In u uses /\
                ((fst u =? t) && existsb (named (snd u)) (flat_map ugone_tc cs) = false ->
                 (fst u =? t) && existsb (named (snd u)) (flat_map ugone_tc (c :: cs)) = false)).
    { intros uses1 n H1 g Hg Hn u Hu. destruct (H1 u Hu) as [Hin Hneq]. split; [exact Hin|]. intros Hrest.
      simpl. rewrite Hg. simpl. unfold named at 1. rewrite Hn.
      rewrite use_neqb_spec in Hneq. apply negb_true_iff in Hneq.
      destruct (fst u =? t); simpl in *; [|reflexivity].
      rewrite (Nat.eqb_sym n (snd u)), Hneq. simpl. exact Hrest. }
    destruct c as [tc|e|from to|e].
    + (* foreign-key change / plain column *)
      destruct (IH tys uses Hty') as [uses' [H1 H2]]. exists uses'. split; [simpl; exact H1|]. exact H2.
    + (* AddColumn of type e *)
      assert (He : mem (e_name e) tys = true) by (apply mem_In; apply Hty; left; reflexivity).
      destruct (IH tys (uses ++ [(t, e_name e)]) Hty') as [uses' [H1 H2]]. exists uses'.
      split; [simpl; rewrite He; exact H1|].
      intros u Hu. destruct (H2 u Hu) as [[Hin Hr]|Hn].
      * apply in_app_or in Hin. destruct Hin as [Hin|[<-|[]]].
        -- left. split; [exact Hin|exact Hr].
        -- right. simpl. left. reflexivity.
      * right. simpl. right. exact Hn.
    + (* ModifyColumn from / to *)
      set (uses1 := match from with Some f => filter (use_neqb t (e_name f)) uses | None => uses end).
      assert (Hsub : forall u, In u uses1 -> In u uses /\
                ((fst u =? t) && existsb (named (snd u)) (flat_map ugone_tc cs) = false ->
                 (fst u =? t) && existsb (named (snd u)) (flat_map ugone_tc (XModCol from to :: cs)) = false)).
      { destruct from as [f|]; unfold uses1.
        - apply (Hrem (filter (use_neqb t (e_name f)) uses) (e_name f)) with (g := f); try reflexivity.
          intros u Hu. apply filter_In in Hu. exact Hu.
        - intros u Hu. split; [exact Hu|]. intros H. exact H. }
      destruct to as [e|].
      * assert (He : mem (e_name e) tys = true) by (apply mem_In; apply Hty; simpl; left; reflexivity).
        destruct (IH tys (uses1 ++ [(t, e_name e)]) Hty') as [uses' [H1 H2]]. exists uses'.
        split; [simpl; fold uses1; rewrite He; exact H1|].
        intros u Hu. destruct (H2 u Hu) as [[Hin Hr]|Hn].
        -- apply in_app_or in Hin. destruct Hin as [Hin|[<-|[]]].
           ++ left. destruct (Hsub u Hin) as [Ha Hb]. split; [exact Ha|apply Hb; exact Hr].
           ++ right. simpl. left. reflexivity.
        -- right. simpl. right. exact Hn.
      * destruct (IH tys uses1 Hty') as [uses' [H1 H2]]. exists uses'.
        split; [simpl; fold uses1; exact H1|].
        intros u Hu. destruct (H2 u Hu) as [[Hin Hr]|Hn].
        -- left. destruct (Hsub u Hin) as [Ha Hb]. split; [exact Ha|apply Hb; exact Hr].
        -- right. simpl. exact Hn.
    + (* DropColumn of type e *)
      destruct (IH tys (filter (use_neqb t (e_name e)) uses) Hty') as [uses' [H1 H2]]. exists uses'.
      split; [simpl; exact H1|].
      intros u Hu. destruct (H2 u Hu) as [[Hin Hr]|Hn].
      * left.
        destruct (Hrem (filter (use_neqb t (e_name e)) uses) (e_name e)
                    (fun u0 H0 => proj1 (filter_In _ _ _) H0) e eq_refl eq_refl u Hin) as [Ha Hb].
        split; [exact Ha|apply Hb; exact Hr].
      * right. simpl. exact Hn.
Qed.

Definition uname (p : nat * enum) : nat * nat := (fst p, e_name (snd p)).

(* one change: when it succeeds, and what the state is afterwards *)
Lemma tstep_ok tys uses x :
  (forall n, In n (oadds x) -> ~ In n tys) ->
  (forall n, In n (odrops x) -> In n tys /\ forall u, In u uses -> snd u <> n) ->
  (forall p, In p (unew x) -> In (e_name (snd p)) tys) ->
  exists tys' uses', treplay1 (tys, uses) x = Some (tys', uses') /\
    (forall n, In n tys' -> In n tys \/ In n (oadds x)) /\
    (forall n, In n tys \/ In n (oadds x) -> ~ In n (odrops x) -> In n tys') /\
    (forall u, In u uses' -> (In u uses /\ urem x u = false) \/ In u (map uname (unew x))).
Proof.
  intros Ha Hd Hu. destruct x as [t fks etys|t fks etys|t cs|e|e]; simpl.
  - (* AddTable *)
    assert (Hf : forallb (fun e => mem (e_name e) tys) etys = true).
    { apply forallb_forall. intros e He. apply mem_In. apply (Hu (qn t, e)). simpl. apply in_map. exact He. }
    rewrite Hf. eexists; eexists. split; [reflexivity|]. split; [intros n Hn; left; exact Hn|].
    split; [intros n [Hn|[]] _; exact Hn|].
    intros u Hin. apply in_app_or in Hin. destruct Hin as [Hin|Hin]; [left; split; [exact Hin|reflexivity]|right].
    rewrite map_map. exact Hin.
  - (* DropTable *)
    eexists; eexists. split; [reflexivity|]. split; [intros n Hn; left; exact Hn|].
    split; [intros n [Hn|[]] _; exact Hn|].
    intros u Hin. apply filter_In in Hin. destruct Hin as [Hin Hn]. left. split; [exact Hin|].
    apply negb_true_iff in Hn. exact Hn.
  - (* ModifyTable *)
    destruct (tcs_ok (qn t) cs tys uses) as [uses' [H1 H2]].
    { intros e He. apply (Hu (qn t, e)). simpl. apply in_map. exact He. }
    exists tys, uses'. split; [exact H1|]. split; [intros n Hn; left; exact Hn|].
    split; [intros n [Hn|[]] _; exact Hn|].
    intros u Hin. destruct (H2 u Hin) as [H|H]; [left; exact H|right]. rewrite map_map. exact H.
  - (* AddObject *)
    assert (Hm : mem (e_name e) tys = false) by (apply mem_false; apply Ha; left; reflexivity).
    rewrite Hm. eexists; eexists. split; [reflexivity|].
    split; [intros n [<-|Hn]; [right; left; reflexivity|left; exact Hn]|].
    split; [intros n [Hn|[<-|[]]] _; [right; exact Hn|left; reflexivity]|].
    intros u Hin. left. split; [exact Hin|reflexivity].
  - (* DropObject *)
    destruct (Hd (e_name e) (or_introl eq_refl)) as [Hin Hno].
    assert (Hm : mem (e_name e) tys = true) by (apply mem_In; exact Hin). rewrite Hm. simpl.
    assert (Hex : existsb (fun u => snd u =? e_name e) uses = false).
    { destruct (existsb (fun u => snd u =? e_name e) uses) eqn:E; [|reflexivity].
      apply existsb_exists in E. destruct E as [u [Hu' Hs]]. apply Nat.eqb_eq in Hs. exfalso. exact (Hno u Hu' Hs). }
    rewrite Hex. eexists; eexists. split; [reflexivity|].
    split; [intros n Hn; apply remove_nat_in in Hn; left; tauto|].
    split; [intros n [Hn|[]] Hnd; apply remove_nat_in; split; [exact Hn|]; intros E; apply Hnd; left; congruence|].
    intros u Hin'. left. split; [exact Hin'|reflexivity].
Qed.

(** * plans whose every type obligation is met by the prefix before it *)
Record tsplit_ok (l : list xchange) (t0 : tstate) : Prop := {
  (* a type is created at most once and does not pre-exist; dropped at most once and pre-exists *)
  ts_adds : NoDup (flat_map oadds l);
  ts_adds_new : forall n, In n (flat_map oadds l) -> ~ In n (fst t0);
  ts_drops : NoDup (flat_map odrops l);
  ts_drops_old : forall n, In n (flat_map odrops l) -> In n (fst t0);
  (* a type a change starts using is not dropped by the plan, and pre-exists or is created before *)
  ts_use : forall pre x post p, l = pre ++ x :: post -> In p (unew x) ->
    ~ In (e_name (snd p)) (flat_map odrops l) /\
    (In (e_name (snd p)) (fst t0) \/ In (e_name (snd p)) (flat_map oadds pre));
  (* every pre-existing use of a dropped type is given up before the DROP TYPE *)
  ts_drop : forall pre e post u, l = pre ++ XDropObject e :: post -> In u (snd t0) -> snd u = e_name e ->
    exists y, In y pre /\ urem y u = true
}.

Lemma treplay_app l1 l2 st :
  treplay (l1 ++ l2) st = match treplay l1 st with None => None | Some st1 => treplay l2 st1 end.
Proof.
  revert st. induction l1 as [|x l1 IH]; intros st; simpl; [reflexivity|].
  destruct (treplay1 st x); [apply IH|reflexivity].
Qed.

Section TSplit.
  Variable l : list xchange.
  Variable t0 : tstate.
  Hypothesis H : tsplit_ok l t0.

  Definition tinv (pre : list xchange) (tys : list nat) (uses : list (nat * nat)) : Prop :=
    (forall n, In n tys -> In n (fst t0) \/ In n (flat_map oadds pre)) /\
    (forall n, In n (fst t0) \/ In n (flat_map oadds pre) -> ~ In n (flat_map odrops pre) -> In n tys) /\
    (forall u, In u uses -> (In u (snd t0) /\ forall y, In y pre -> urem y u = false) \/
                            In u (map uname (flat_map unew pre))).

  Lemma tprefix_ok : forall pre post, l = pre ++ post ->
    exists tys uses, treplay pre t0 = Some (tys, uses) /\ tinv pre tys uses.
  Proof.
    induction pre as [|x pre IH] using rev_ind; intros post El.
    - exists (fst t0), (snd t0). split; [simpl; rewrite <- surjective_pairing; reflexivity|]. split; [intros n Hn; left; exact Hn|].
      split; [intros n [Hn|[]] _; exact Hn|]. intros u Hu. left. split; [exact Hu|intros y []].
    - rewrite <- app_assoc in El. simpl in El.
      destruct (IH (x :: post) El) as [tys [uses [Hst [I1 [I2 I3]]]]].
      assert (Hsub : forall {B} (f : xchange -> list B) n, In n (flat_map f pre) -> In n (flat_map f l)).
      { intros B f n Hn. rewrite El, flat_map_app. apply in_or_app. left. exact Hn. }
      assert (Hx : forall {B} (f : xchange -> list B) n, In n (f x) -> In n (flat_map f l)).
      { intros B f n Hn. rewrite El, flat_map_app. apply in_or_app. right. simpl. apply in_or_app. left. exact Hn. }
      destruct (tstep_ok tys uses x) as [tys' [uses' [Hs [S1 [S2 S3]]]]].
      + (* a created type is new *)
        intros n Hn Hin. destruct x as [| | |e|]; simpl in Hn; try (destruct Hn; fail). destruct Hn as [<-|[]].
        destruct (I1 _ Hin) as [H0|H0].
        * apply (ts_adds_new l t0 H (e_name e)); [|exact H0]. apply (Hx _ oadds). left. reflexivity.
        * pose proof (ts_adds l t0 H) as Hnd. rewrite El, flat_map_app in Hnd. simpl in Hnd.
          apply NoDup_remove_2 in Hnd. apply Hnd. apply in_or_app. left. exact H0.
      + (* a dropped type exists and is not used any more *)
        intros n Hn. destruct x as [| | | |e]; simpl in Hn; try (destruct Hn; fail). destruct Hn as [<-|[]]. split.
        * apply I2.
          -- left. apply (ts_drops_old l t0 H). apply (Hx _ odrops). left. reflexivity.
          -- pose proof (ts_drops l t0 H) as Hnd. rewrite El, flat_map_app in Hnd. simpl in Hnd.
             apply NoDup_remove_2 in Hnd. intros Hin. apply Hnd. apply in_or_app. left. exact Hin.
        * intros u Hu Hs. destruct (I3 u Hu) as [[H0 Hno]|Hnew].
          -- destruct (ts_drop l t0 H pre e post u El H0 Hs) as [y [Hy Hr]]. rewrite (Hno y Hy) in Hr. discriminate.
          -- apply in_map_iff in Hnew. destruct Hnew as [p [Ep Hp]]. apply in_flat_map in Hp. destruct Hp as [y [Hy Hp]].
             destruct (in_split _ _ Hy) as [q1 [q2 Eq]].
             assert (El' : l = q1 ++ y :: (q2 ++ XDropObject e :: post)) by (rewrite El, Eq, <- app_assoc; reflexivity).
             destruct (ts_use l t0 H q1 y _ p El' Hp) as [Hnd _]. apply Hnd.
             subst u. simpl in Hs. rewrite Hs. apply (Hx _ odrops). left. reflexivity.
      + (* a type that starts being used exists *)
        intros p Hp. destruct (ts_use l t0 H pre x post p El Hp) as [Hnd Hex].
        apply I2; [exact Hex|]. intros Hin. apply Hnd. apply (Hsub _ odrops). exact Hin.
      + exists tys', uses'. split; [rewrite treplay_app, Hst; cbn [treplay]; rewrite Hs; reflexivity|].
        split; [|split].
        * intros n Hn. rewrite flat_map_app, in_app_iff. simpl. rewrite app_nil_r.
          destruct (S1 n Hn) as [H1|H1]; [|tauto]. destruct (I1 n H1); tauto.
        * intros n Hn Hnd. rewrite flat_map_app, in_app_iff in Hn, Hnd. simpl in Hn, Hnd. rewrite app_nil_r in Hn, Hnd.
          apply S2; [|tauto]. destruct Hn as [Hn|[Hn|Hn]]; [left; apply I2; tauto|left; apply I2; tauto|right; exact Hn].
        * intros u Hu. rewrite flat_map_app, map_app, in_app_iff. simpl. rewrite app_nil_r.
          destruct (S3 u Hu) as [[H1 H2]|H1]; [|tauto].
          destruct (I3 u H1) as [[H3 H4]|H3]; [|tauto].
          left. split; [exact H3|]. intros y Hy. apply in_app_or in Hy. destruct Hy as [Hy|[<-|[]]]; [apply H4; exact Hy|exact H2].
  Qed.

  Theorem tsplit_replay_ok : exists st, treplay l t0 = Some st.
  Proof.
    destruct (tprefix_ok l [] (eq_sym (app_nil_r l))) as [tys [uses [Hst _]]]. eexists; exact Hst.
  Qed.
End TSplit.

(** * detachReferences keeps what the table changes do to the types *)
(* the three summaries are instances of one shape *)
Definition summ (fa fd : bool) (g : xtchange -> list enum) (x : xchange) : list (nat * enum) :=
  match x with
  | XAddTable t _ tys => if fa then map (pair (qn t)) tys else []
  | XDropTable t _ tys => if fd then map (pair (qn t)) tys else []
  | XModifyTable t cs => map (pair (qn t)) (flat_map g cs)
  | _ => []
  end.

Lemma unew_summ x : unew x = summ true false unew_tc x.
Proof. destruct x; reflexivity. Qed.
Lemma gone_tab_summ x : gone_tab x = summ false true (fun _ => []) x.
Proof.
  destruct x as [| |t cs| |]; try reflexivity. simpl.
  assert (E : flat_map (fun _ : xtchange => @nil enum) cs = []) by (induction cs; [reflexivity|assumption]).
  rewrite E. reflexivity.
Qed.
Lemma gone_col_summ x : gone_col x = summ false false ugone_tc x.
Proof. destruct x; reflexivity. Qed.

Section Summ.
  Variables fa fd : bool.
  Variable g : xtchange -> list enum.
  Hypothesis Hg : forall c, g (XT c) = [].

  Lemma g_filter (p : xtchange -> bool) cs :
    (forall c, p c = false -> g c = []) -> flat_map g (filter p cs) = flat_map g cs.
  Proof.
    intros Hp. induction cs as [|c cs IH]; [reflexivity|]. simpl.
    destruct (p c) eqn:E; simpl; rewrite IH; [reflexivity|]. rewrite (Hp c E). reflexivity.
  Qed.

  Lemma g_none (p : xtchange -> bool) cs : (forall c, p c = true -> g c = []) -> flat_map g (filter p cs) = [].
  Proof.
    intros Hp. induction cs as [|c cs IH]; [reflexivity|]. simpl.
    destruct (p c) eqn:E; simpl; [rewrite (Hp c E)|]; exact IH.
  Qed.

  Lemma g_map_xt (h : fkey -> tchange) fks : flat_map g (map (fun f => XT (h f)) fks) = [].
  Proof. induction fks as [|f fks IH]; [reflexivity|]. simpl. rewrite Hg. exact IH. Qed.

  Lemma summ_det1 c :
    flat_map (summ fa fd g) (xdet_planned c) ++ flat_map (summ fa fd g) (xdet_deferred c) = summ fa fd g c.
  Proof.
    destruct c as [t fks tys|t fks tys|t cs|e|e]; simpl; try reflexivity.
    - destruct (filter (fun f => negb (ptr_eqb (f_ref f) t)) fks) as [|f0 ext]; simpl;
        rewrite ?Hg, ?g_map_xt; simpl; rewrite ?app_nil_r; reflexivity.
    - destruct (filter (fun f => negb (ptr_eqb (f_ref f) t)) fks) as [|f0 ext]; simpl;
        rewrite ?Hg, ?g_map_xt; simpl; rewrite ?app_nil_r; reflexivity.
    - set (R := filter (fun c => negb (xis_addfk c)) cs). set (K := filter xis_addfk cs).
      assert (E1 : flat_map g R = flat_map g cs).
      { apply g_filter. intros c Hc. apply negb_false_iff in Hc. destruct c as [[]| | |]; try discriminate. apply Hg. }
      assert (E2 : flat_map g K = []).
      { apply g_none. intros c Hc. destruct c as [[]| | |]; try discriminate. apply Hg. }
      rewrite <- E1.
      assert (HR : flat_map (summ fa fd g) (match R with [] => [] | _ => [XModifyTable t R] end) = map (pair (qn t)) (flat_map g R)).
      { clear E1. destruct R; [reflexivity|]. simpl. rewrite app_nil_r. reflexivity. }
      assert (HK : flat_map (summ fa fd g) (match K with [] => [] | _ => [XModifyTable t K] end) = []).
      { clear E1 HR. destruct K; [reflexivity|]. simpl in *. rewrite E2. reflexivity. }
      rewrite HR, HK, app_nil_r. reflexivity.
  Qed.

  Lemma summ_detach X item :
    In item (flat_map (summ fa fd g) (xdetachReferences X)) <-> In item (flat_map (summ fa fd g) X).
  Proof.
    unfold xdetachReferences. rewrite flat_map_app, in_app_iff, !in_flat_map. split.
    - intros [[y [Hy Hi]]|[y [Hy Hi]]]; apply in_flat_map in Hy; destruct Hy as [c [Hc Hy]]; exists c; (split; [exact Hc|]);
        rewrite <- (summ_det1 c); apply in_or_app; [left|right]; apply in_flat_map; exists y; split; assumption.
    - intros [c [Hc Hi]]. rewrite <- (summ_det1 c) in Hi. apply in_app_or in Hi.
      destruct Hi as [Hi|Hi]; apply in_flat_map in Hi; destruct Hi as [y [Hy Hi]]; [left|right]; exists y;
        (split; [apply in_flat_map; exists c; split; assumption|exact Hi]).
  Qed.

  Lemma summ_spec X S item : xdetach_spec X S ->
    (In item (flat_map (summ fa fd g) S) <-> In item (flat_map (summ fa fd g) X)).
  Proof.
    unfold xdetach_spec. destruct (xsortMap X); intros H; [destruct H| |].
    - subst S. apply summ_detach.
    - pose proof (Permutation_flat_map (summ fa fd g) H) as Hp. split; intros Hi.
      + apply (Permutation_in _ (Permutation_sym Hp) Hi).
      + apply (Permutation_in _ Hp Hi).
  Qed.
End Summ.

Lemma fm_ext_in {A B} (f g : A -> list B) l : (forall x, f x = g x) -> flat_map f l = flat_map g l.
Proof. intros H. apply flat_map_ext. exact H. Qed.

Lemma unew_spec X S p : xdetach_spec X S -> (In p (flat_map unew S) <-> In p (flat_map unew X)).
Proof.
  intros H. rewrite (fm_ext_in unew _ S unew_summ), (fm_ext_in unew _ X unew_summ).
  apply summ_spec; [reflexivity|exact H].
Qed.
Lemma gone_tab_spec X S p : xdetach_spec X S -> (In p (flat_map gone_tab S) <-> In p (flat_map gone_tab X)).
Proof.
  intros H. rewrite (fm_ext_in gone_tab _ S gone_tab_summ), (fm_ext_in gone_tab _ X gone_tab_summ).
  apply summ_spec; [reflexivity|exact H].
Qed.
Lemma gone_col_spec X S p : xdetach_spec X S -> (In p (flat_map gone_col S) <-> In p (flat_map gone_col X)).
Proof.
  intros H. rewrite (fm_ext_in gone_col _ S gone_col_summ), (fm_ext_in gone_col _ X gone_col_summ).
  apply summ_spec; [reflexivity|exact H].
Qed.

Lemma objs_spec X S x : xdetach_spec X S -> xis_obj x = true -> (In x S <-> In x X).
Proof.
  unfold xdetach_spec. destruct (xsortMap X); intros H Ho; [destruct H| |].
  - subst S. split; intros Hi.
    + assert (Hf : In x (filter xis_obj (xdetachReferences X))) by (apply filter_In; split; assumption).
      rewrite xdetach_objs in Hf. apply filter_In in Hf. tauto.
    + assert (Hf : In x (filter xis_obj X)) by (apply filter_In; split; assumption).
      rewrite <- xdetach_objs in Hf. apply filter_In in Hf. tauto.
  - split; intros Hi; [apply (Permutation_in _ (Permutation_sym H) Hi)|apply (Permutation_in _ H Hi)].
Qed.

(** * the plans of xplan meet the type obligations *)
(* the type half of the catalogue the plan is applied to, relative to the change set *)
Record tconsistent (t0 : tstate) (X : list xchange) : Prop := {
  (* created types are new, dropped types exist; each once *)
  tc_adds : NoDup (flat_map oadds X);
  tc_adds_new : forall n, In n (flat_map oadds X) -> ~ In n (fst t0);
  tc_drops : NoDup (flat_map odrops X);
  tc_drops_old : forall n, In n (flat_map odrops X) -> In n (fst t0);
  (* a type that a change starts using is not dropped by the set; it exists, or the set creates it -- and the
     column's type is the very object (pointer) that AddObject carries, as in a realm *)
  tc_use : forall p, In p (flat_map unew X) ->
    ~ In (e_name (snd p)) (flat_map odrops X) /\
    (In (e_name (snd p)) (fst t0) \/
     exists e', In (XAddObject e') X /\ isType (snd p) e' = true /\ e_name e' = e_name (snd p));
  (* every existing use of a type the set drops is given up by the set: its table is dropped and lists the type
     object that DropObject carries, or the column is dropped / moved to another type *)
  tc_live : forall u e, In u (snd t0) -> In (XDropObject e) X -> snd u = e_name e ->
    (exists e', In (fst u, e') (flat_map gone_tab X) /\ isType e' e = true) \/
    (exists e', In (fst u, e') (flat_map gone_col X) /\ e_name e' = snd u)
}.

Section TPlan.
  Variable X S out : list xchange.
  Variable t0 : tstate.
  Hypothesis Hspec : xdetach_spec X S.
  Hypothesis Hcons : tconsistent t0 X.
  Hypothesis Hperm : Permutation S out.
  Hypothesis Hdeps : forall pre x post y, out = pre ++ x :: post -> In y S -> y <> x -> xdependsOn x y = true -> In y pre.
  Hypothesis Hbehind : forall pre x post y, out = pre ++ x :: post -> xis_drop x = false -> In y pre -> xis_drop y = false.

  Lemma tp_in x : In x out <-> In x S.
  Proof. split; intros H; [apply (Permutation_in _ (Permutation_sym Hperm) H)|apply (Permutation_in _ Hperm H)]. Qed.

  Lemma tp_fm {B} (f : xchange -> list B) n : In n (flat_map f out) <-> In n (flat_map f S).
  Proof.
    pose proof (Permutation_flat_map f Hperm) as Hp. split; intros H.
    - apply (Permutation_in _ (Permutation_sym Hp) H).
    - apply (Permutation_in _ Hp H).
  Qed.

  Lemma tp_oadds : Permutation (flat_map oadds X) (flat_map oadds out).
  Proof. eapply perm_trans; [apply (proj1 (xdetach_spec_objs X S Hspec))|apply Permutation_flat_map; exact Hperm]. Qed.
  Lemma tp_odrops : Permutation (flat_map odrops X) (flat_map odrops out).
  Proof. eapply perm_trans; [apply (proj2 (xdetach_spec_objs X S Hspec))|apply Permutation_flat_map; exact Hperm]. Qed.

  Lemma plan_tsplit : tsplit_ok out t0.
  Proof.
    constructor.
    - apply (Permutation_NoDup tp_oadds). apply (tc_adds t0 X Hcons).
    - intros n Hn. apply (tc_adds_new t0 X Hcons). apply (Permutation_in _ (Permutation_sym tp_oadds) Hn).
    - apply (Permutation_NoDup tp_odrops). apply (tc_drops t0 X Hcons).
    - intros n Hn. apply (tc_drops_old t0 X Hcons). apply (Permutation_in _ (Permutation_sym tp_odrops) Hn).
    - (* a new use: CREATE TYPE of the same object is a dependsOn edge *)
      intros pre x post p Eo Hp.
      assert (HpX : In p (flat_map unew X)).
      { apply (unew_spec X S p Hspec). apply tp_fm. rewrite Eo, flat_map_app. apply in_or_app. right.
        simpl. apply in_or_app. left. exact Hp. }
      destruct (tc_use t0 X Hcons p HpX) as [Hnd Hex]. split.
      + intros Hd. apply Hnd. apply (Permutation_in _ (Permutation_sym tp_odrops) Hd).
      + destruct Hex as [H0|[e' [He' [Hty Hnm]]]]; [left; exact H0|right].
        assert (HeS : In (XAddObject e') S) by (apply (objs_spec X S (XAddObject e') Hspec eq_refl); exact He').
        assert (Hdep : xdependsOn x (XAddObject e') = true).
        { destruct x as [t fks tys|t fks tys|t cs|e|e]; simpl in Hp; try (destruct Hp; fail).
          - apply in_map_iff in Hp. destruct Hp as [e0 [<- He0]]. simpl in *. unfold uses_type.
            apply existsb_exists. exists e0. split; assumption.
          - apply in_map_iff in Hp. destruct Hp as [e0 [<- He0]]. simpl in *.
            apply in_flat_map in He0. destruct He0 as [c [Hc He0]]. apply existsb_exists. exists c. split; [exact Hc|].
            destruct c as [tc|a|from [a|]|a]; simpl in He0; try (destruct He0; fail); destruct He0 as [<-|[]]; exact Hty. }
        assert (Hne : XAddObject e' <> x).
        { intros E. subst x. destruct Hp. }
        pose proof (Hdeps pre x post _ Eo HeS Hne Hdep) as Hin.
        rewrite <- Hnm. apply in_flat_map. exists (XAddObject e'). split; [exact Hin|left; reflexivity].
    - (* DROP TYPE: the users are dropped tables (dependsOn edges) or column changes (no drops: they stand before) *)
      intros pre e post u Eo Hu Hs.
      assert (HxS : In (XDropObject e) S) by (apply tp_in; rewrite Eo; apply in_or_app; right; left; reflexivity).
      assert (HxX : In (XDropObject e) X) by (apply (objs_spec X S (XDropObject e) Hspec eq_refl); exact HxS).
      destruct (tc_live t0 X Hcons u e Hu HxX Hs) as [[e' [Hg Hty]]|[e' [Hg Hnm]]].
      + apply (gone_tab_spec X S _ Hspec) in Hg. apply in_flat_map in Hg. destruct Hg as [y [Hy Hg]].
        destruct y as [t fks tys|t fks tys|t cs|a|a]; simpl in Hg; try (destruct Hg; fail).
        apply in_map_iff in Hg. destruct Hg as [e0 [E0 He0]]. injection E0 as Et Ee. subst e0.
        exists (XDropTable t fks tys). split; [|simpl; rewrite <- Et; apply Nat.eqb_refl].
        apply (Hdeps pre _ post _ Eo Hy); [discriminate|].
        simpl. unfold uses_type. apply existsb_exists. exists e'. split; assumption.
      + apply (gone_col_spec X S _ Hspec) in Hg. apply in_flat_map in Hg. destruct Hg as [y [Hy Hg]].
        destruct y as [t fks tys|t fks tys|t cs|a|a]; simpl in Hg; try (destruct Hg; fail).
        apply in_map_iff in Hg. destruct Hg as [e0 [E0 He0]]. injection E0 as Et Ee. subst e0.
        exists (XModifyTable t cs). split.
        * assert (Hz : In (XModifyTable t cs) out) by (apply tp_in; exact Hy).
          rewrite Eo in Hz. apply in_app_or in Hz. destruct Hz as [Hz|[Hz|Hz]]; [exact Hz|discriminate Hz|].
          exfalso. destruct (in_split _ _ Hz) as [q1 [q2 Eq]].
          assert (Eo' : out = (pre ++ XDropObject e :: q1) ++ XModifyTable t cs :: q2) by (rewrite Eo, Eq, <- app_assoc; reflexivity).
          assert (Hdd : xis_drop (XDropObject e) = false).
          { apply (Hbehind _ _ q2 _ Eo' eq_refl). apply in_or_app. right. left. reflexivity. }
          discriminate.
        * simpl. rewrite <- Et, Nat.eqb_refl. simpl. apply existsb_exists. exists e'. split; [exact He0|].
          unfold named. apply Nat.eqb_eq. exact Hnm.
  Qed.

  Theorem plan_treplay_ok : exists st, treplay out t0 = Some st.
  Proof. apply (tsplit_replay_ok out t0 plan_tsplit). Qed.
End TPlan.

(** the full statement with objects: both halves of the catalogue *)
Definition xconsistent (c : xcat) (X : list xchange) : Prop :=
  consistent (x_cat c) (erase_all X) /\ tconsistent (x_types c, x_uses c) X.

Theorem xreplay_safe_any_tiebreak X c S :
  XWF X -> xconsistent c X -> xdetach_spec X S ->
  exists out c', xSortChanges S = Some out /\ Permutation S out /\ xreplay out c = Some c'.
Proof.
  intros HW [Hc Ht] HS.
  destruct (xsafe_any_tiebreak X (x_cat c) S HW Hc HS) as [out [Hs [Hp [Hd [Hb [c1 Hr]]]]]].
  destruct (plan_treplay_ok X S out (x_types c, x_uses c) HS Ht Hp Hd Hb) as [[tys uses] Htr].
  exists out, (mkXC c1 tys uses). split; [exact Hs|]. split; [exact Hp|].
  unfold xreplay. rewrite Hr, Htr. reflexivity.
Qed.

Theorem xreplay_safe X c :
  XWF X -> xconsistent c X -> exists out c', xplan X = XPOk out /\ xreplay out c = Some c'.
Proof.
  intros HW Hc. destruct (xDetachCycles_total X) as [S HS].
  destruct (xreplay_safe_any_tiebreak X c S HW Hc (xDetachCycles_spec X S HS)) as [out [c' [H1 [_ H2]]]].
  exists out, c'. split; [|exact H2]. unfold xplan. rewrite HS, H1. reflexivity.
Qed.
