(** M-SORT: concrete change sets -- the counterexample to the unrestricted safety statement
    and the non-vacuity witnesses of the C04 theorems. *)
From Coq Require Import List Bool Arith Lia Permutation Sorted.
From Atlas Require Import Plan.SortModel Plan.SortDfs Plan.SortReplay Plan.SortProofs.
Import ListNotations.

(** * tables: name n, current object id 2n, desired object id 2n+1 *)
Definition cur (n : nat) : table := mkT n 0 (2 * n).
Definition des (n : nat) : table := mkT n 0 (2 * n + 1).
(* catalogues are written with table names; the catalogue itself keys tables by [qn] (schema 0 here) *)
Definition ktabs (tabs : list nat) : list nat := map (qcode 0) tabs.
Definition kfks (fks : list (nat * nat * nat)) : list (nat * nat * nat) :=
  map (fun e => (qcode 0 (fst (fst e)), snd (fst e), qcode 0 (snd e))) fks.
Definition kcat (tabs : list nat) (fks : list (nat * nat * nat)) : cat := mkCat (ktabs tabs) (kfks fks).

(* tables of two schemas: [tq s n i] = table n of schema s, object i *)
Definition tq (s n i : nat) : table := mkT n s i.
Definition qcat (tabs : list (nat * nat)) (fks : list ((nat * nat) * nat * (nat * nat))) : cat :=
  mkCat (map (fun t => qcode (fst t) (snd t)) tabs)
        (map (fun e => (qcode (fst (fst (fst e))) (snd (fst (fst e))), snd (fst e), qcode (fst (snd e)) (snd (snd e)))) fks).

Ltac explode :=
  repeat match goal with
  | H : False |- _ => destruct H
  | H : _ \/ _ |- _ => destruct H
  | H : _ /\ _ |- _ => destruct H
  | H : exists _, _ |- _ => destruct H
  | H : ?x = _ |- _ => is_var x; subst x
  | H : _ = ?x |- _ => is_var x; subst x
  | H : In _ _ |- _ => simpl in H
  end.

(* [qn] of a concrete table is a numeral *)
Ltac norm := cbv [qn qcode cur des tq t_name t_schema Nat.add Nat.mul] in *.

Ltac wf_tac :=
  constructor; simpl;
  [ repeat constructor; simpl; intuition discriminate
  | intros x f Hx Hf Hp; explode; simpl in *; explode; try discriminate; try reflexivity
  | intros t fks f Hx Hf; explode; try discriminate;
    repeat match goal with H : DropTable _ _ = DropTable _ _ |- _ => inversion H; clear H; subst end;
    simpl in *; explode; try reflexivity
  | intros x f Hx Hf Hd; explode; simpl in *; explode; try discriminate
  | intros x Hx; explode; simpl; repeat constructor; simpl; intuition discriminate ].

Ltac cons_tac :=
  constructor; simpl;
  [ intros n Hn Hc; explode; try discriminate
  | intros n Hn; explode; simpl; auto 10
  | intros t tcs Hx; explode; try discriminate;
    repeat match goal with H : ModifyTable _ _ = ModifyTable _ _ |- _ => inversion H; clear H; subst end;
    simpl; auto 10
  | intros x f Hx Hf; explode; simpl in *; explode; simpl; auto 10
  | intros e He Hd Hn; explode; simpl in *; explode; try congruence; try (exfalso; norm; congruence)
  | intros x Hx; explode; simpl; try exact I; intros y Hy; explode; simpl; eauto 10 ].

(** * The former counterexample (finding C04-modfk-detached, repaired in dependsOn): re-point a foreign key
      of kept table 0 to created table 1, which references 0.  The cycle 0 <-> 1 makes DetachCycles detach;
      SortChanges now moves CREATE TABLE 1 in front of the ALTER that re-points the key. *)
Definition cx_cs : list change :=
  [ ModifyTable (des 0) [ModifyFK (mkFK 5 (cur 0) (cur 2)) (mkFK 5 (des 0) (des 1))];
    AddTable (des 1) [mkFK 21 (des 1) (des 0)] ].
Definition cx_cat : cat := kcat [0; 2] [(0, 5, 2)].
Definition cx_plan : list change :=
  [ AddTable (des 1) [];
    ModifyTable (des 0) [ModifyFK (mkFK 5 (cur 0) (cur 2)) (mkFK 5 (des 0) (des 1))];
    ModifyTable (des 1) [AddFK (mkFK 21 (des 1) (des 0))] ].

Lemma cx_wf : WF cx_cs.
Proof. wf_tac. Qed.

Lemma cx_cons : consistent cx_cat cx_cs.
Proof. cons_tac. Qed.

Lemma cx_runs : sortMap cx_cs = SMCycle /\ DetachCycles cx_cs = DCOk
    [ ModifyTable (des 0) [ModifyFK (mkFK 5 (cur 0) (cur 2)) (mkFK 5 (des 0) (des 1))];
      AddTable (des 1) [];
      ModifyTable (des 1) [AddFK (mkFK 21 (des 1) (des 0))] ] /\
  plan cx_cs = POk cx_plan /\
  replay cx_plan cx_cat = Some (kcat [1; 0; 2] [(0, 5, 1); (1, 21, 0)]).
Proof. repeat split; vm_compute; reflexivity. Qed.

(** * Three new tables referencing each other in a 3-cycle *)
Definition c3_cs : list change :=
  [ AddTable (des 0) [mkFK 21 (des 0) (des 1)];
    AddTable (des 1) [mkFK 22 (des 1) (des 2)];
    AddTable (des 2) [mkFK 20 (des 2) (des 0)] ].
Definition c3_cat : cat := kcat [] [].
Definition c3_plan : list change :=
  [ AddTable (des 0) []; AddTable (des 1) []; AddTable (des 2) [];
    ModifyTable (des 0) [AddFK (mkFK 21 (des 0) (des 1))];
    ModifyTable (des 1) [AddFK (mkFK 22 (des 1) (des 2))];
    ModifyTable (des 2) [AddFK (mkFK 20 (des 2) (des 0))] ].

Lemma c3_wf : WF c3_cs.
Proof. wf_tac. Qed.
Lemma c3_cons : consistent c3_cat c3_cs.
Proof. cons_tac. Qed.
Lemma c3_runs : sortMap c3_cs = SMCycle /\ plan c3_cs = POk c3_plan /\
  replay c3_plan c3_cat = Some (kcat [2; 1; 0] [(0, 21, 1); (1, 22, 2); (2, 20, 0)]).
Proof. repeat split; vm_compute; reflexivity. Qed.

(** * A new self-referencing table; two dropped tables referencing each other, one also itself *)
Definition sr_cs : list change :=
  [ AddTable (des 0) [mkFK 20 (des 0) (des 0)];
    DropTable (cur 1) [mkFK 1 (cur 1) (cur 1); mkFK 2 (cur 1) (cur 2)];
    DropTable (cur 2) [mkFK 1 (cur 2) (cur 1)] ].
Definition sr_cat : cat := kcat [1; 2] [(1, 1, 1); (1, 2, 2); (2, 1, 1)].
Definition sr_plan : list change :=
  [ AddTable (des 0) [mkFK 20 (des 0) (des 0)];
    ModifyTable (cur 1) [DropFK (mkFK 2 (cur 1) (cur 2))];
    ModifyTable (cur 2) [DropFK (mkFK 1 (cur 2) (cur 1))];
    DropTable (cur 1) []; DropTable (cur 2) [] ].

Lemma sr_wf : WF sr_cs.
Proof. wf_tac. Qed.
Lemma sr_cons : consistent sr_cat sr_cs.
Proof.
  cons_tac.
  - exists (DropTable (cur 2) [mkFK 1 (cur 2) (cur 1)]). simpl. split; [auto|]. split; [reflexivity|].
    eexists; split; [left; reflexivity|split; reflexivity].
  - exists (DropTable (cur 1) [mkFK 1 (cur 1) (cur 1); mkFK 2 (cur 1) (cur 2)]). simpl. split; [auto|]. split; [reflexivity|].
    eexists; split; [right; left; reflexivity|split; reflexivity].
Qed.
Lemma sr_runs : sortMap sr_cs = SMCycle /\ plan sr_cs = POk sr_plan /\
  replay sr_plan sr_cat = Some (kcat [0] [(0, 20, 0)]).
Proof. repeat split; vm_compute; reflexivity. Qed.

(** * No cycle: a re-pointed key to a created table, a chain of created tables, a drop *)
Definition ch_cs : list change :=
  [ ModifyTable (des 0) [ModifyFK (mkFK 5 (cur 0) (cur 3)) (mkFK 5 (des 0) (des 1))];
    AddTable (des 1) [mkFK 22 (des 1) (des 2)];
    AddTable (des 2) [];
    DropTable (cur 3) [] ].
Definition ch_cat : cat := kcat [0; 3] [(0, 5, 3)].
Definition ch_plan : list change :=
  [ AddTable (des 2) [];
    AddTable (des 1) [mkFK 22 (des 1) (des 2)];
    ModifyTable (des 0) [ModifyFK (mkFK 5 (cur 0) (cur 3)) (mkFK 5 (des 0) (des 1))];
    DropTable (cur 3) [] ].

Lemma ch_wf : WF ch_cs.
Proof. wf_tac. Qed.
Lemma ch_cons : consistent ch_cat ch_cs.
Proof.
  cons_tac.
  exists (ModifyTable (des 0) [ModifyFK (mkFK 5 (cur 0) (cur 3)) (mkFK 5 (des 0) (des 1))]).
  simpl. split; [auto|]. split; reflexivity.
Qed.
Lemma ch_runs : sortMap ch_cs = SMOk [2; 1; 0] /\ plan ch_cs = POk ch_plan /\
  replay ch_plan ch_cat = Some (kcat [1; 2; 0] [(1, 22, 2); (0, 5, 1)]).
Proof. repeat split; vm_compute; reflexivity. Qed.

(* another order sort.Slice may produce for the chain example (the drop, index 0, between the creations) *)
Lemma ch_tiebreak : detach_spec ch_cs [AddTable (des 2) []; DropTable (cur 3) [];
    AddTable (des 1) [mkFK 22 (des 1) (des 2)];
    ModifyTable (des 0) [ModifyFK (mkFK 5 (cur 0) (cur 3)) (mkFK 5 (des 0) (des 1))]].
Proof. apply DetachCycles_spec. vm_compute. reflexivity. Qed.

(** * Two schemas with same-named tables: s1.t1 <-> s1.t2 are dropped (a 2-cycle of drops) while the
      namesake s2.t1 is altered EARLIER in the list (new key to the created s2.t2).  By name alone the
      altered table would be "dropped" (isDropped says so) and "t1", "t2" would be one node each. *)
Definition tw_cs : list change :=
  [ ModifyTable (tq 2 1 5) [AddFK (mkFK 23 (tq 2 1 5) (tq 2 2 7))];
    AddTable (tq 2 2 7) [];
    DropTable (tq 1 1 0) [mkFK 1 (tq 1 1 0) (tq 1 2 2)];
    DropTable (tq 1 2 2) [mkFK 0 (tq 1 2 2) (tq 1 1 0)] ].
Definition tw_cat : cat := qcat [(1, 1); (1, 2); (2, 1)] [((1, 1), 1, (1, 2)); ((1, 2), 0, (1, 1))].
Definition tw_plan : list change :=
  [ AddTable (tq 2 2 7) [];
    ModifyTable (tq 1 1 0) [DropFK (mkFK 1 (tq 1 1 0) (tq 1 2 2))];
    ModifyTable (tq 1 2 2) [DropFK (mkFK 0 (tq 1 2 2) (tq 1 1 0))];
    ModifyTable (tq 2 1 5) [AddFK (mkFK 23 (tq 2 1 5) (tq 2 2 7))];
    DropTable (tq 1 1 0) []; DropTable (tq 1 2 2) [] ].

Lemma tw_wf : WF tw_cs.
Proof. wf_tac. Qed.
Lemma tw_cons : consistent tw_cat tw_cs.
Proof.
  cons_tac;
  first
  [ exists (DropTable (tq 1 1 0) [mkFK 1 (tq 1 1 0) (tq 1 2 2)]); simpl; split; [auto|]; split; [reflexivity|];
    eexists; split; [left; reflexivity|split; reflexivity]
  | exists (DropTable (tq 1 2 2) [mkFK 0 (tq 1 2 2) (tq 1 1 0)]); simpl; split; [auto|]; split; [reflexivity|];
    eexists; split; [left; reflexivity|split; reflexivity] ].
Qed.
Lemma tw_runs : sortMap tw_cs = SMCycle /\ plan tw_cs = POk tw_plan /\
  replay tw_plan tw_cat = Some (qcat [(2, 2); (2, 1)] [((2, 1), 23, (2, 2))]) /\
  isDropped tw_cs (tq 2 1 5) = true /\ same_table (tq 2 1 5) (tq 1 1 0) = false.
Proof. repeat split; vm_compute; reflexivity. Qed.
