(** M-SORT: concrete change sets -- the counterexample to the unrestricted safety statement
    and the non-vacuity witnesses of the C04 theorems. *)
From Coq Require Import List Bool Arith Lia Permutation Sorted.
From Atlas Require Import Plan.SortModel Plan.SortDfs Plan.SortReplay Plan.SortProofs.
Import ListNotations.

Ltac explode :=
  repeat match goal with
  | H : False |- _ => destruct H
  | H : _ \/ _ |- _ => destruct H
  | H : _ /\ _ |- _ => destruct H
  | H : exists _, _ |- _ => destruct H
  | H : ?x = _ |- _ => is_var x; subst x
  | H : _ = ?x |- _ => is_var x; subst x
  | H : In _ _ |- _ => simpl in H
  end.

Ltac wf_tac :=
  constructor; simpl;
  [ repeat constructor; simpl; intuition discriminate
  | intros x f Hx Hf Hp; explode; simpl in *; explode; try discriminate; try reflexivity
  | intros t fks f Hx Hf; explode; try discriminate;
    repeat match goal with H : DropTable _ _ = DropTable _ _ |- _ => inversion H; clear H; subst end;
    simpl in *; explode; try reflexivity
  | intros x f Hx Hf Hd; explode; simpl in *; explode; try discriminate ].

Ltac cons_tac :=
  constructor; simpl;
  [ intros n Hn Hc; explode; try discriminate
  | intros n Hn; explode; simpl; auto 10
  | intros t tcs Hx; explode; try discriminate;
    repeat match goal with H : ModifyTable _ _ = ModifyTable _ _ |- _ => inversion H; clear H; subst end;
    simpl; auto 10
  | intros x f Hx Hf; explode; simpl in *; explode; simpl; auto 10
  | intros e He Hd Hn; explode; simpl in *; explode; try congruence ].

(** * tables: name n, current object id 2n, desired object id 2n+1 *)
Definition cur (n : nat) : table := mkT n (2 * n).
Definition des (n : nat) : table := mkT n (2 * n + 1).

(** * The counterexample: re-point a foreign key of kept table 0 to created table 1, which references 0 *)
Definition cx_cs : list change :=
  [ ModifyTable (des 0) [ModifyFK (mkFK 5 (cur 0) (cur 2)) (mkFK 5 (des 0) (des 1))];
    AddTable (des 1) [mkFK 21 (des 1) (des 0)] ].
Definition cx_cat : cat := mkCat [0; 2] [(0, 5, 2)].
Definition cx_plan : list change :=
  [ ModifyTable (des 0) [ModifyFK (mkFK 5 (cur 0) (cur 2)) (mkFK 5 (des 0) (des 1))];
    AddTable (des 1) [];
    ModifyTable (des 1) [AddFK (mkFK 21 (des 1) (des 0))] ].

Lemma cx_wf : WF cx_cs.
Proof. wf_tac. Qed.

Lemma cx_cons : consistent cx_cat cx_cs.
Proof. cons_tac. Qed.

Lemma cx_refutes :
  WF cx_cs /\ consistent cx_cat cx_cs /\ plan cx_cs = POk cx_plan /\ replay cx_plan cx_cat = None.
Proof. split; [exact cx_wf|]. split; [exact cx_cons|]. split; vm_compute; reflexivity. Qed.

Ltac norepoint_tac :=
  intros _ t tcs from to Hx Htc; simpl in Hx; explode; try discriminate;
  repeat match goal with H : ModifyTable _ _ = ModifyTable _ _ |- _ => inversion H; clear H; subst end;
  simpl in Htc; explode; discriminate.

(** * Three new tables referencing each other in a 3-cycle *)
Definition c3_cs : list change :=
  [ AddTable (des 0) [mkFK 21 (des 0) (des 1)];
    AddTable (des 1) [mkFK 22 (des 1) (des 2)];
    AddTable (des 2) [mkFK 20 (des 2) (des 0)] ].
Definition c3_cat : cat := mkCat [] [].
Definition c3_plan : list change :=
  [ AddTable (des 0) []; AddTable (des 1) []; AddTable (des 2) [];
    ModifyTable (des 0) [AddFK (mkFK 21 (des 0) (des 1))];
    ModifyTable (des 1) [AddFK (mkFK 22 (des 1) (des 2))];
    ModifyTable (des 2) [AddFK (mkFK 20 (des 2) (des 0))] ].

Lemma c3_wf : WF c3_cs.
Proof. wf_tac. Qed.
Lemma c3_cons : consistent c3_cat c3_cs.
Proof. cons_tac. Qed.
Lemma c3_norepoint : sortMap c3_cs = SMCycle -> no_repoint_to_added c3_cs.
Proof. norepoint_tac. Qed.
Lemma c3_runs : sortMap c3_cs = SMCycle /\ plan c3_cs = POk c3_plan /\
  replay c3_plan c3_cat = Some (mkCat [2; 1; 0] [(0, 21, 1); (1, 22, 2); (2, 20, 0)]).
Proof. repeat split; vm_compute; reflexivity. Qed.

(** * A new self-referencing table; two dropped tables referencing each other, one also itself *)
Definition sr_cs : list change :=
  [ AddTable (des 0) [mkFK 20 (des 0) (des 0)];
    DropTable (cur 1) [mkFK 1 (cur 1) (cur 1); mkFK 2 (cur 1) (cur 2)];
    DropTable (cur 2) [mkFK 1 (cur 2) (cur 1)] ].
Definition sr_cat : cat := mkCat [1; 2] [(1, 1, 1); (1, 2, 2); (2, 1, 1)].
Definition sr_plan : list change :=
  [ AddTable (des 0) [mkFK 20 (des 0) (des 0)];
    ModifyTable (cur 1) [DropFK (mkFK 2 (cur 1) (cur 2))];
    ModifyTable (cur 2) [DropFK (mkFK 1 (cur 2) (cur 1))];
    DropTable (cur 1) []; DropTable (cur 2) [] ].

Lemma sr_wf : WF sr_cs.
Proof. wf_tac. Qed.
Lemma sr_cons : consistent sr_cat sr_cs.
Proof.
  cons_tac.
  - exists (DropTable (cur 2) [mkFK 1 (cur 2) (cur 1)]). simpl. split; [auto|]. split; [reflexivity|].
    eexists; split; [left; reflexivity|split; reflexivity].
  - exists (DropTable (cur 1) [mkFK 1 (cur 1) (cur 1); mkFK 2 (cur 1) (cur 2)]). simpl. split; [auto|]. split; [reflexivity|].
    eexists; split; [right; left; reflexivity|split; reflexivity].
Qed.
Lemma sr_norepoint : sortMap sr_cs = SMCycle -> no_repoint_to_added sr_cs.
Proof. norepoint_tac. Qed.
Lemma sr_runs : sortMap sr_cs = SMCycle /\ plan sr_cs = POk sr_plan /\
  replay sr_plan sr_cat = Some (mkCat [0] [(0, 20, 0)]).
Proof. repeat split; vm_compute; reflexivity. Qed.

(** * No cycle: a re-pointed key to a created table, a chain of created tables, a drop *)
Definition ch_cs : list change :=
  [ ModifyTable (des 0) [ModifyFK (mkFK 5 (cur 0) (cur 3)) (mkFK 5 (des 0) (des 1))];
    AddTable (des 1) [mkFK 22 (des 1) (des 2)];
    AddTable (des 2) [];
    DropTable (cur 3) [] ].
Definition ch_cat : cat := mkCat [0; 3] [(0, 5, 3)].
Definition ch_plan : list change :=
  [ AddTable (des 2) [];
    AddTable (des 1) [mkFK 22 (des 1) (des 2)];
    ModifyTable (des 0) [ModifyFK (mkFK 5 (cur 0) (cur 3)) (mkFK 5 (des 0) (des 1))];
    DropTable (cur 3) [] ].

Lemma ch_wf : WF ch_cs.
Proof. wf_tac. Qed.
Lemma ch_cons : consistent ch_cat ch_cs.
Proof.
  cons_tac.
  exists (ModifyTable (des 0) [ModifyFK (mkFK 5 (cur 0) (cur 3)) (mkFK 5 (des 0) (des 1))]).
  simpl. split; [auto|]. split; reflexivity.
Qed.
Lemma ch_norepoint : sortMap ch_cs = SMCycle -> no_repoint_to_added ch_cs.
Proof. vm_compute. discriminate. Qed.
Lemma ch_runs : sortMap ch_cs = SMOk [2; 1; 0] /\ plan ch_cs = POk ch_plan /\
  replay ch_plan ch_cat = Some (mkCat [1; 2; 0] [(1, 22, 2); (0, 5, 1)]).
Proof. repeat split; vm_compute; reflexivity. Qed.

(** * The counterexample with the two changes swapped: same cycle, the created parent comes first *)
Definition or_cs : list change :=
  [ AddTable (des 1) [mkFK 21 (des 1) (des 0)];
    ModifyTable (des 0) [ModifyFK (mkFK 5 (cur 0) (cur 2)) (mkFK 5 (des 0) (des 1))] ].
Definition or_plan : list change :=
  [ AddTable (des 1) [];
    ModifyTable (des 0) [ModifyFK (mkFK 5 (cur 0) (cur 2)) (mkFK 5 (des 0) (des 1))];
    ModifyTable (des 1) [AddFK (mkFK 21 (des 1) (des 0))] ].

Lemma or_wf : WF or_cs.
Proof. wf_tac. Qed.
Lemma or_cons : consistent cx_cat or_cs.
Proof. cons_tac. Qed.
Lemma or_ordered : repoint_ordered or_cs.
Proof.
  intros pre t tcs post from to E Hin Ha.
  destruct pre as [|a [|b [|c pre]]]; simpl in E; inversion E; subst; simpl in *.
  destruct Ha as [Ha|[]]. left. exact Ha.
Qed.
Lemma cx_not_ordered : ~ repoint_ordered cx_cs.
Proof.
  intros H.
  specialize (H [] (des 0) [ModifyFK (mkFK 5 (cur 0) (cur 2)) (mkFK 5 (des 0) (des 1))]
                [AddTable (des 1) [mkFK 21 (des 1) (des 0)]]
                (mkFK 5 (cur 0) (cur 2)) (mkFK 5 (des 0) (des 1)) eq_refl (or_introl eq_refl)).
  simpl in H. apply H. left. reflexivity.
Qed.
Lemma or_runs : sortMap or_cs = SMCycle /\ plan or_cs = POk or_plan /\
  replay or_plan cx_cat = Some (mkCat [1; 0; 2] [(0, 5, 1); (1, 21, 0)]).
Proof. repeat split; vm_compute; reflexivity. Qed.

Lemma or_exact_ex :
  WF or_cs /\ consistent cx_cat or_cs /\ sortMap or_cs = SMCycle /\ repoint_ordered or_cs /\
  ~ no_repoint_to_added or_cs /\ plan or_cs = POk or_plan /\
  replay or_plan cx_cat = Some (mkCat [1; 0; 2] [(0, 5, 1); (1, 21, 0)]) /\
  sortMap cx_cs = SMCycle /\ ~ repoint_ordered cx_cs.
Proof.
  refine (conj or_wf (conj or_cons (conj (proj1 or_runs) (conj or_ordered (conj _ (conj (proj1 (proj2 or_runs))
           (conj (proj2 (proj2 or_runs)) (conj _ cx_not_ordered)))))))).
  - intros H. apply (H (des 0) _ (mkFK 5 (cur 0) (cur 2)) (mkFK 5 (des 0) (des 1)) (or_intror (or_introl eq_refl)) (or_introl eq_refl)).
    simpl. left. reflexivity.
  - vm_compute. reflexivity.
Qed.

(* another order sort.Slice may produce for the chain example (the drop, index 0, between the creations) *)
Lemma ch_tiebreak : detach_spec ch_cs [AddTable (des 2) []; DropTable (cur 3) [];
    AddTable (des 1) [mkFK 22 (des 1) (des 2)];
    ModifyTable (des 0) [ModifyFK (mkFK 5 (cur 0) (cur 3)) (mkFK 5 (des 0) (des 1))]].
Proof. apply DetachCycles_spec. vm_compute. reflexivity. Qed.
