(** M-SORT, part 2 (round 5) -- the planner on change sets with typed objects (PostgreSQL enum types).

    Go code followed (names kept, prefix x = "extended change"):
      sql/internal/sqlx/sqlx_oss.go : dependsOn -- in addition to the table / foreign-key arms of SortModel.v the
                                      arms AddTable/AddObject, ModifyTable/AddObject (AddColumn, ModifyColumn.To),
                                      DropObject/DropTable (T.Columns), DropObject/ModifyTable (DropColumn)
      sql/schema/schema.go          : IsType on *schema.EnumType (target comparable, no Is method, no Underlying:
                                      pointer equality)
      sql/internal/sqlx/plan.go     : dependencies, isDropped, sortMap, table (an object change has no table: key ""),
                                      detachReferences (default arm: planned = append(planned, change); the copy
                                      t := *change.T keeps T.Columns), DetachCycles, SortChanges (DropObject is in the
                                      [drop] partition, AddObject in [other])
      sql/postgres/migrate_oss.go   : state.plan (AddObject / DropObject are planned like table changes, in the
                                      sorted order), modifyTable + alterTable (sources)

    The table-only model SortModel.v is untouched ([change] is shared with Det/, C20).  [erase] maps an extended
    change set to the table-only one; SortObjProofs.v proves that the functions below commute with it where the Go
    code ignores objects and column types (dependencies / sortMap / detachReferences).

    Restrictions (said once, here):
    * a typed object is an enum type: [enum] = name + pointer id.  ModifyObject (ALTER TYPE .. ADD VALUE), RenameObject
      (handled by topLevel), domains / composite types (Underlying chains), T.Deps, triggers, views, functions are outside:
      [dependOnOf] (EnumType is no Depender), [depOfAdd] / [depOfDrop] (T.Deps empty, no triggers) and
      [typeDependsOnT] (no row types) are constantly false and omitted.
    * a table change carries the enum types of its columns ([tys] = the enum-typed members of T.Columns, in column
      order); a ModifyTable carries AddColumn / ModifyColumn / DropColumn of enum-typed columns next to the
      foreign-key changes; columns of other types are [XT (Other k)].
    * the catalogue records (table, enum name) uses as a set: a table has at most one column of a given enum type. *)
From Coq Require Import List Bool Arith Lia.
From Atlas Require Import Plan.SortModel.
Import ListNotations.

(** * Data *)
Record enum := mkE { e_name : nat; e_id : nat }.       (* e_id = the *schema.EnumType pointer *)

(* schema.IsType(c.Type.Type, t) for enum types *)
Definition isType (a b : enum) : bool := e_id a =? e_id b.

Inductive xtchange :=
| XT (c : tchange)                              (* foreign-key changes and plain columns, as in SortModel *)
| XAddCol (e : enum)                            (* AddColumn{C} with C.Type.Type = e *)
| XModCol (from to : option enum)               (* ModifyColumn{From, To}; None = not an enum type *)
| XDropCol (e : enum).                          (* DropColumn{C} *)

Inductive xchange :=
| XAddTable (t : table) (fks : list fkey) (tys : list enum)
| XDropTable (t : table) (fks : list fkey) (tys : list enum)
| XModifyTable (t : table) (cs : list xtchange)
| XAddObject (e : enum)
| XDropObject (e : enum).

(* the table-only change set behind an extended one (specification side; no Go function) *)
Definition erase_tc (c : xtchange) : tchange := match c with XT c => c | _ => Other 0 end.
Definition erase (x : xchange) : list change :=
  match x with
  | XAddTable t fks _ => [AddTable t fks]
  | XDropTable t fks _ => [DropTable t fks]
  | XModifyTable t cs => [ModifyTable t (map erase_tc cs)]
  | XAddObject _ | XDropObject _ => []
  end.
Definition erase_all (l : list xchange) : list change := flat_map erase l.

(** * dependencies, isDropped (plan.go): object changes fall through the type switch *)
Definition xisDropped (changes : list xchange) (t : table) : bool :=
  existsb (fun c => match c with XDropTable t' _ _ => t_name t' =? t_name t | _ => false end) changes.

Definition xdep_dropfk (changes : list xchange) (f : fkey) (d : deps_t) : deps_t :=
  if xisDropped changes (f_ref f) then deps_add (t_name (f_ref f)) (t_name (f_tab f)) d else d.

Definition xdep_tc (changes : list xchange) (t : table) (d : deps_t) (c : xtchange) : deps_t :=
  match c with
  | XT (AddFK f) => dep_addfk t f d
  | XT (ModifyFK _ to) => dep_addfk t to d
  | XT (DropFK f) => xdep_dropfk changes f d
  | _ => d
  end.

Definition xdep_change (changes : list xchange) (d : deps_t) (c : xchange) : deps_t :=
  match c with
  | XAddTable t fks _ => fold_left (fun d f => dep_addfk t f d) fks d
  | XDropTable t fks _ => fold_left (fun d f => xdep_dropfk changes f d) fks d
  | XModifyTable t cs => fold_left (xdep_tc changes t) cs d
  | XAddObject _ | XDropObject _ => d
  end.

Definition xdependencies (changes : list xchange) : deps_t :=
  fold_left (xdep_change changes) changes [].

(** * sortMap (plan.go): the search of SortModel on the dependency map *)
Definition sortMap_of (deps : deps_t) : smres :=
  match visit_refs (visit deps (sortMap_fuel deps)) (map fst deps) [] [] with
  | VOut => SMOut
  | VRet true _ _ => SMCycle
  | VRet false s _ => SMOk s
  end.

Definition xsortMap (changes : list xchange) : smres := sortMap_of (xdependencies changes).

(** * detachReferences (plan.go) *)
Definition xis_addfk (c : xtchange) : bool := match c with XT (AddFK _) => true | _ => false end.

Definition xdet_planned (c : xchange) : list xchange :=
  match c with
  | XAddTable t fks tys =>
      let ext := filter (fun f => negb (ptr_eqb (f_ref f) t)) fks in
      let self := filter (fun f => ptr_eqb (f_ref f) t) fks in
      match ext with [] => [XAddTable t fks tys] | _ => [XAddTable t self tys] end
  | XDropTable t fks _ =>
      let ext := filter (fun f => negb (ptr_eqb (f_ref f) t)) fks in
      match ext with [] => [] | _ => [XModifyTable t (map (fun f => XT (DropFK f)) ext)] end
  | XModifyTable t cs =>
      let rest := filter (fun c => negb (xis_addfk c)) cs in
      match rest with [] => [] | _ => [XModifyTable t rest] end
  | XAddObject _ | XDropObject _ => [c]                                   (* default: planned = append(planned, change) *)
  end.

Definition xdet_deferred (c : xchange) : list xchange :=
  match c with
  | XAddTable t fks _ =>
      let ext := filter (fun f => negb (ptr_eqb (f_ref f) t)) fks in
      match ext with [] => [] | _ => [XModifyTable t (map (fun f => XT (AddFK f)) ext)] end
  | XDropTable t fks tys =>
      let ext := filter (fun f => negb (ptr_eqb (f_ref f) t)) fks in
      match ext with [] => [XDropTable t fks tys] | _ => [XDropTable t [] tys] end   (* t := *change.T keeps Columns *)
  | XModifyTable t cs =>
      let fks := filter xis_addfk cs in
      match fks with [] => [] | _ => [XModifyTable t fks] end
  | XAddObject _ | XDropObject _ => []
  end.

Definition xdetachReferences (changes : list xchange) : list xchange :=
  flat_map xdet_planned changes ++ flat_map xdet_deferred changes.

(** * DetachCycles (plan.go) *)
(* stable insertion sort by a key, any element type (= SortModel.insert_by / sort_by on [change]) *)
Fixpoint ginsert_by {A} (key : A -> nat) (c : A) (l : list A) : list A :=
  match l with
  | [] => [c]
  | x :: l' => if key c <? key x then c :: l else x :: ginsert_by key c l'
  end.

Definition gsort_by {A} (key : A -> nat) (l : list A) : list A :=
  fold_left (fun acc c => ginsert_by key c acc) l [].

(* sorted[table(c)]: table() returns "" for a change that is no table change, and sorted[""] reads 0 *)
Definition xsort_key (sorted : list nat) (c : xchange) : nat :=
  match c with
  | XAddTable t _ _ | XDropTable t _ _ | XModifyTable t _ => sorted_idx sorted (t_name t)
  | XAddObject _ | XDropObject _ => 0
  end.

Inductive xdcres := XDCOut | XDCOk (planned : list xchange).

Definition xDetachCycles (changes : list xchange) : xdcres :=
  match xsortMap changes with
  | SMOut => XDCOut
  | SMCycle => XDCOk (xdetachReferences changes)
  | SMOk sorted => XDCOk (gsort_by (xsort_key sorted) changes)
  end.

(** * dependsOn (sqlx_oss.go): table, foreign-key and enum-object arms *)
Definition uses_type (tys : list enum) (e : enum) : bool := existsb (fun x => isType x e) tys.

Definition xdependsOn (c1 c2 : xchange) : bool :=
  match c1, c2 with
  | XAddTable t1 _ _, XDropTable t2 _ _ => same_table t1 t2                 (* table recreation *)
  | XAddTable _ f1 _, XAddTable t2 _ _ => refTo f1 t2
  | XAddTable t1 f1 _, XModifyTable t2 _ => negb (same_table t1 t2) && refTo f1 t2
  | XAddTable _ _ tys, XAddObject e => uses_type tys e                      (* a column of the new table has the type *)
  | XAddTable _ _ _, XDropObject _ => false
  | XDropTable t1 _ _, XDropTable t2 f2 _ => refTo f2 t1
  | XDropTable t1 _ _, XModifyTable _ cs =>
      existsb (fun c => match c with XT (DropFK f) => same_table (f_ref f) t1 | _ => false end) cs
  | XDropTable _ _ _, _ => false
  | XModifyTable t1 cs, XAddTable t2 _ _ =>
      same_table t1 t2
      || existsb (fun c => match c with
                            | XT (AddFK f) => same_table (f_ref f) t2
                            | XT (ModifyFK _ to) => same_table (f_ref to) t2
                            | _ => false
                            end) cs
  | XModifyTable _ cs, XAddObject e =>
      existsb (fun c => match c with
                        | XAddCol x => isType x e
                        | XModCol _ (Some x) => isType x e
                        | _ => false
                        end) cs
  | XModifyTable _ _, _ => false
  | XDropObject e, XDropTable _ _ tys => uses_type tys e                    (* dropped after the tables that use it *)
  | XDropObject e, XModifyTable _ cs =>
      existsb (fun c => match c with XDropCol x => isType x e | _ => false end) cs
  | XDropObject _, _ => false
  | XAddObject _, _ => false
  end.

(** * SortChanges (plan.go), for any change type: partition, hasE / edges, the closure add (SortModel.add) *)
Section Gen.
  Variable A : Type.
  Variable dep : A -> A -> bool.
  Variable isdrop : A -> bool.

  Definition gpartition (cs : list A) : list A :=
    filter (fun c => negb (isdrop c)) cs ++ filter isdrop cs.

  Fixpoint gedges_row (i : nat) (c1 : A) (js : list (nat * A))
           (hasE : list (nat * nat)) (row : list nat) : list nat * list (nat * nat) :=
    match js with
    | [] => (row, hasE)
    | (j, c2) :: js' =>
        if negb (i =? j) && negb (memp (j, i) hasE) && dep c1 c2
        then gedges_row i c1 js' ((i, j) :: hasE) (row ++ [j])
        else gedges_row i c1 js' hasE row
    end.

  Fixpoint gedges_rows (is all : list (nat * A)) (hasE : list (nat * nat)) : list (list nat) :=
    match is with
    | [] => []
    | (i, c1) :: is' =>
        let '(row, hasE') := gedges_row i c1 all hasE [] in
        row :: gedges_rows is' all hasE'
    end.

  Definition gbuild_edges (cs : list A) : list (list nat) :=
    gedges_rows (number 0 cs) (number 0 cs) [].

  Definition gpick (cs : list A) (i : nat) : list A :=
    match nth_error cs i with Some c => [c] | None => [] end.

  (* None = out of fuel *)
  Definition gSortChanges (changes : list A) : option (list A) :=
    let cs := gpartition changes in
    let edges := gbuild_edges cs in
    match add_list (add edges (S (length cs))) (seq 0 (length cs)) ([], []) with
    | None => None
    | Some (_, planned) => Some (flat_map (gpick cs) planned)
    end.
End Gen.

(* case *schema.DropSchema, *schema.DropTable, *schema.DropFunc, *schema.DropProc, *schema.DropObject: drop *)
Definition xis_drop (c : xchange) : bool :=
  match c with XDropTable _ _ _ | XDropObject _ => true | _ => false end.

Definition xSortChanges : list xchange -> option (list xchange) := gSortChanges xchange xdependsOn xis_drop.

(** * postgres state.plan for table and object changes: DetachCycles, SortChanges *)
Inductive xpres := XPOut | XPOk (planned : list xchange).

Definition xplan (changes : list xchange) : xpres :=
  match xDetachCycles changes with
  | XDCOut => XPOut
  | XDCOk l => match xSortChanges l with None => XPOut | Some r => XPOk r end
  end.

(* postgres modifyTable + alterTable: ModifyFK -> DropFK, AddFK; constraint drops first; one ALTER *)
Definition xis_dropfk (c : xtchange) : bool := match c with XT (DropFK _) => true | _ => false end.

Definition xpg_sources (c : xchange) : list xchange :=
  match c with
  | XModifyTable t cs =>
      let alter := flat_map (fun c => match c with
                                      | XT (ModifyFK from to) => [XT (DropFK from); XT (AddFK to)]
                                      | c => [c]
                                      end) cs in
      (match alter with
       | [] => []
       | _ => [XModifyTable t (filter xis_dropfk alter ++ filter (fun c => negb (xis_dropfk c)) alter)]
       end)
  | c => [c]
  end.

(** * The reference catalogue with types (the specification side) *)
(* existing enum types (by name) and (table, enum name) uses *)
Definition tstate := (list nat * list (nat * nat))%type.

Definition use_neqb (t n : nat) (u : nat * nat) : bool := negb ((fst u =? t) && (snd u =? n)).

Definition treplay_tc (t : nat) (st : tstate) (c : xtchange) : option tstate :=
  let '(tys, uses) := st in
  match c with
  | XT _ => Some st
  | XAddCol e => if mem (e_name e) tys then Some (tys, uses ++ [(t, e_name e)]) else None     (* type does not exist *)
  | XModCol from to =>
      let uses1 := match from with Some f => filter (use_neqb t (e_name f)) uses | None => uses end in
      match to with
      | Some e => if mem (e_name e) tys then Some (tys, uses1 ++ [(t, e_name e)]) else None
      | None => Some (tys, uses1)
      end
  | XDropCol e => Some (tys, filter (use_neqb t (e_name e)) uses)
  end.

Fixpoint treplay_tcs (t : nat) (st : tstate) (cs : list xtchange) : option tstate :=
  match cs with
  | [] => Some st
  | c :: cs' => match treplay_tc t st c with None => None | Some st' => treplay_tcs t st' cs' end
  end.

Definition treplay1 (st : tstate) (x : xchange) : option tstate :=
  let '(tys, uses) := st in
  match x with
  | XAddObject e =>
      if mem (e_name e) tys then None                                       (* CREATE TYPE of an existing type *)
      else Some (e_name e :: tys, uses)
  | XDropObject e =>
      if negb (mem (e_name e) tys) then None                                (* DROP TYPE of a missing type *)
      else if existsb (fun u => snd u =? e_name e) uses then None           (* ... of a type a column still uses *)
           else Some (remove_nat (e_name e) tys, uses)
  | XAddTable t _ etys =>
      if forallb (fun e => mem (e_name e) tys) etys
      then Some (tys, uses ++ map (fun e => (qn t, e_name e)) etys)
      else None                                                              (* column of a type that does not exist *)
  | XDropTable t _ _ => Some (tys, filter (fun u => negb (fst u =? qn t)) uses)
  | XModifyTable t cs => treplay_tcs (qn t) st cs
  end.

Fixpoint treplay (l : list xchange) (st : tstate) : option tstate :=
  match l with
  | [] => Some st
  | x :: l' => match treplay1 st x with None => None | Some st' => treplay l' st' end
  end.

Record xcat := mkXC { x_cat : cat; x_types : list nat; x_uses : list (nat * nat) }.

(* tables and foreign keys as in SortModel.replay (types do not matter to them), types on their own state *)
Definition xreplay (l : list xchange) (c : xcat) : option xcat :=
  match replay (erase_all l) (x_cat c), treplay l (x_types c, x_uses c) with
  | Some c', Some (tys, uses) => Some (mkXC c' tys uses)
  | _, _ => None
  end.
