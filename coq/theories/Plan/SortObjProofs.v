(** M-SORT, part 2 -- change sets with enum objects (SortObjModel.v): proofs.

    1. Where the Go code ignores objects and column types the extended functions commute with [erase]:
       dependencies / sortMap, detachReferences.
    2. xplan terminates and returns a permutation of what xDetachCycles returned (any input).
    3. For a well-formed change set the dependency relation xdependsOn is acyclic on what xDetachCycles returns
       (rank from the sortMap index resp. from the detached shape), hence xSortChanges puts every dependency
       before its dependent and keeps the drops behind (SortGenProofs.gSortChanges_ranked).
    4. The table / foreign-key projection of such a plan meets every obligation of the reference catalogue. *)
From Coq Require Import List Bool Arith Lia Permutation Sorted.
From Atlas Require Import Plan.SortModel Plan.SortDfs Plan.SortReplay Plan.SortProofs Plan.SortObjModel Plan.SortGenProofs.
Import ListNotations.

(** * 1. erase *)
Definition xis_obj (x : xchange) : bool := match x with XAddObject _ | XDropObject _ => true | _ => false end.

(* the table-only change behind a table change (objects: a dummy that is never used) *)
Definition erase1 (x : xchange) : change :=
  match x with
  | XAddTable t fks _ => AddTable t fks
  | XDropTable t fks _ => DropTable t fks
  | XModifyTable t cs => ModifyTable t (map erase_tc cs)
  | XAddObject _ | XDropObject _ => ModifyTable (mkT 0 0 0) []
  end.

Lemma erase_table x : xis_obj x = false -> erase x = [erase1 x].
Proof. destruct x; simpl; intros H; try reflexivity; discriminate. Qed.

Lemma erase_obj x : xis_obj x = true -> erase x = [].
Proof. destruct x; simpl; intros H; try reflexivity; discriminate. Qed.

Lemma in_erase_all l y : In y (erase_all l) <-> exists x, In x l /\ xis_obj x = false /\ erase1 x = y.
Proof.
  unfold erase_all. rewrite in_flat_map. split.
  - intros [x [Hx Hy]]. exists x. split; [exact Hx|].
    destruct x; simpl in *; try (destruct Hy as [<-|[]]; split; reflexivity); destruct Hy.
  - intros [x [Hx [Ho <-]]]. exists x. split; [exact Hx|]. rewrite (erase_table x Ho). left. reflexivity.
Qed.

Lemma xisDropped_erase X t : xisDropped X t = isDropped (erase_all X) t.
Proof.
  unfold xisDropped, isDropped, erase_all. induction X as [|x X IH]; [reflexivity|].
  simpl. rewrite existsb_app, <- IH. destruct x; simpl; rewrite ?orb_false_r; reflexivity.
Qed.

Lemma xdep_dropfk_erase X f d : xdep_dropfk X f d = dep_dropfk (erase_all X) f d.
Proof. unfold xdep_dropfk, dep_dropfk. rewrite xisDropped_erase. reflexivity. Qed.

Lemma xdep_change_erase X c d :
  xdep_change X d c = fold_left (dep_change (erase_all X)) (erase c) d.
Proof.
  destruct c as [t fks tys|t fks tys|t cs|e|e]; simpl; try reflexivity.
  - revert d. induction fks as [|f fks IH]; intros d; simpl; [reflexivity|].
    rewrite xdep_dropfk_erase. apply IH.
  - revert d. induction cs as [|c cs IH]; intros d; simpl; [reflexivity|].
    rewrite <- IH. f_equal.
    destruct c as [[f|f|from to|k]|e|from to|e]; simpl; try reflexivity. apply xdep_dropfk_erase.
Qed.

Lemma xdeps_fold_erase X : forall cs d,
  fold_left (xdep_change X) cs d = fold_left (dep_change (erase_all X)) (erase_all cs) d.
Proof.
  induction cs as [|c cs IH]; intros d; [reflexivity|].
  unfold erase_all in *. simpl. rewrite fold_left_app, xdep_change_erase. apply IH.
Qed.

Lemma xdependencies_erase X : xdependencies X = dependencies (erase_all X).
Proof. unfold xdependencies, dependencies. apply xdeps_fold_erase. Qed.

(* sortMap sees the table changes only *)
Lemma xsortMap_erase X : xsortMap X = sortMap (erase_all X).
Proof. unfold xsortMap, sortMap, sortMap_of. rewrite xdependencies_erase. reflexivity. Qed.

Lemma filter_map_comm {A B} (f : A -> B) (p : A -> bool) (q : B -> bool) l :
  (forall a, q (f a) = p a) -> map f (filter p l) = filter q (map f l).
Proof.
  intros H. induction l as [|a l IH]; [reflexivity|]. simpl. rewrite H. destruct (p a); simpl; rewrite IH; reflexivity.
Qed.

Lemma is_addfk_erase c : is_addfk (erase_tc c) = xis_addfk c.
Proof. destruct c as [[]| | |]; reflexivity. Qed.

Lemma xdet_planned_erase c : erase_all (xdet_planned c) = flat_map det_planned (erase c).
Proof.
  unfold erase_all. destruct c as [t fks tys|t fks tys|t cs|e|e]; simpl; try reflexivity.
  - destruct (filter (fun f => negb (ptr_eqb (f_ref f) t)) fks); reflexivity.
  - destruct (filter (fun f => negb (ptr_eqb (f_ref f) t)) fks) as [|f l]; [reflexivity|].
    simpl. rewrite map_map. reflexivity.
  - rewrite app_nil_r.
    rewrite <- (filter_map_comm erase_tc (fun c => negb (xis_addfk c)) (fun c => negb (is_addfk c)) cs)
      by (intros a; rewrite is_addfk_erase; reflexivity).
    destruct (filter (fun c => negb (xis_addfk c)) cs); reflexivity.
Qed.

Lemma xdet_deferred_erase c : erase_all (xdet_deferred c) = flat_map det_deferred (erase c).
Proof.
  unfold erase_all. destruct c as [t fks tys|t fks tys|t cs|e|e]; simpl; try reflexivity.
  - destruct (filter (fun f => negb (ptr_eqb (f_ref f) t)) fks) as [|f l]; [reflexivity|].
    simpl. rewrite map_map. reflexivity.
  - destruct (filter (fun f => negb (ptr_eqb (f_ref f) t)) fks); reflexivity.
  - rewrite app_nil_r.
    rewrite <- (filter_map_comm erase_tc xis_addfk is_addfk cs) by (intros a; apply is_addfk_erase).
    destruct (filter xis_addfk cs); reflexivity.
Qed.

Lemma erase_all_app a b : erase_all (a ++ b) = erase_all a ++ erase_all b.
Proof. apply flat_map_app. Qed.

Lemma erase_all_flat_map (h : xchange -> list xchange) (g : change -> list change) :
  (forall c, erase_all (h c) = flat_map g (erase c)) ->
  forall l, erase_all (flat_map h l) = flat_map g (erase_all l).
Proof.
  intros H. induction l as [|c l IH]; [reflexivity|].
  simpl. rewrite erase_all_app, IH, H. unfold erase_all. simpl. rewrite flat_map_app. reflexivity.
Qed.

(* detachReferences handles the table changes as in the table-only model and keeps the object changes *)
Lemma xdetach_erase X : erase_all (xdetachReferences X) = detachReferences (erase_all X).
Proof.
  unfold xdetachReferences, detachReferences. rewrite erase_all_app.
  rewrite (erase_all_flat_map _ _ xdet_planned_erase), (erase_all_flat_map _ _ xdet_deferred_erase). reflexivity.
Qed.

Lemma xdet_deferred_objs c : filter xis_obj (xdet_deferred c) = [].
Proof.
  destruct c as [t fks tys|t fks tys|t cs|e|e]; simpl; try reflexivity.
  - destruct (filter (fun f => negb (ptr_eqb (f_ref f) t)) fks); reflexivity.
  - destruct (filter (fun f => negb (ptr_eqb (f_ref f) t)) fks); reflexivity.
  - destruct (filter xis_addfk cs); reflexivity.
Qed.

Lemma xdet_planned_objs c : filter xis_obj (xdet_planned c) = filter xis_obj [c].
Proof.
  destruct c as [t fks tys|t fks tys|t cs|e|e]; simpl; try reflexivity.
  - destruct (filter (fun f => negb (ptr_eqb (f_ref f) t)) fks); reflexivity.
  - destruct (filter (fun f => negb (ptr_eqb (f_ref f) t)) fks); reflexivity.
  - destruct (filter (fun c => negb (xis_addfk c)) cs); reflexivity.
Qed.

Lemma filter_flat_map {A B} (p : B -> bool) (h : A -> list B) l :
  filter p (flat_map h l) = flat_map (fun x => filter p (h x)) l.
Proof. induction l as [|a l IH]; [reflexivity|]. simpl. rewrite filter_app, IH. reflexivity. Qed.

Lemma xdetach_objs X : filter xis_obj (xdetachReferences X) = filter xis_obj X.
Proof.
  unfold xdetachReferences. rewrite filter_app, !filter_flat_map.
  rewrite (flat_map_ext _ _ xdet_deferred_objs), (flat_map_ext _ _ xdet_planned_objs).
  assert (H0 : flat_map (fun _ : xchange => @nil xchange) X = []) by (induction X; [reflexivity|assumption]).
  rewrite H0, app_nil_r. clear H0.
  induction X as [|c X IH]; [reflexivity|]. cbn [flat_map]. rewrite IH. simpl.
  destruct (xis_obj c); reflexivity.
Qed.

(** * 2. totality, permutation *)
Lemma ginsert_by_perm {A} (key : A -> nat) c l : Permutation (ginsert_by key c l) (c :: l).
Proof.
  induction l as [|x l IH]; simpl; [constructor; constructor|].
  destruct (key c <? key x); [apply Permutation_refl|].
  apply perm_trans with (x :: c :: l); [constructor; exact IH|constructor].
Qed.

Lemma gsort_by_perm {A} (key : A -> nat) l : Permutation l (gsort_by key l).
Proof.
  unfold gsort_by.
  assert (H : forall acc, Permutation (acc ++ l) (fold_left (fun acc c => ginsert_by key c acc) l acc)).
  { induction l as [|c l IH]; intros acc; simpl; [rewrite app_nil_r; apply Permutation_refl|].
    eapply perm_trans; [|apply IH]. apply Permutation_sym.
    eapply perm_trans; [apply Permutation_app_tail; apply ginsert_by_perm|].
    simpl. apply Permutation_cons_app. apply Permutation_refl. }
  apply (H []).
Qed.

Lemma gpartition_perm {A} (p : A -> bool) l : Permutation (gpartition A p l) l.
Proof.
  unfold gpartition. induction l as [|a l IH]; [constructor|]. simpl.
  destruct (p a); simpl.
  - apply Permutation_sym. apply Permutation_cons_app. apply Permutation_sym. exact IH.
  - constructor. exact IH.
Qed.

(* what xSortChanges receives: DetachCycles' sort.Slice is not stable -- any permutation in the cycle-free branch *)
Definition xdetach_spec (X S : list xchange) : Prop :=
  match xsortMap X with
  | SMOut => False
  | SMCycle => S = xdetachReferences X
  | SMOk _ => Permutation X S
  end.

Lemma xDetachCycles_spec X S : xDetachCycles X = XDCOk S -> xdetach_spec X S.
Proof.
  unfold xDetachCycles, xdetach_spec. destruct (xsortMap X) as [| |sorted]; intros H; inversion H; subst.
  - reflexivity.
  - apply gsort_by_perm.
Qed.

Lemma xDetachCycles_total X : exists S, xDetachCycles X = XDCOk S.
Proof.
  unfold xDetachCycles. pose proof (sortMap_total (erase_all X)) as H. rewrite xsortMap_erase.
  destruct (sortMap (erase_all X)); [congruence|eexists; reflexivity|eexists; reflexivity].
Qed.

Theorem xplan_total X : exists l, xplan X = XPOk l.
Proof.
  unfold xplan. destruct (xDetachCycles_total X) as [S HS]. rewrite HS.
  destruct (gSortChanges_perm xchange xdependsOn xis_drop S) as [out [H1 _]].
  unfold xSortChanges. rewrite H1. eexists; reflexivity.
Qed.

(* object changes of a change list: each AddObject / DropObject, by type name *)
Definition oadds (x : xchange) : list nat := match x with XAddObject e => [e_name e] | _ => [] end.
Definition odrops (x : xchange) : list nat := match x with XDropObject e => [e_name e] | _ => [] end.

Lemma filter_obj_fm {B} (f : xchange -> list B) l :
  (forall x, xis_obj x = false -> f x = []) -> flat_map f (filter xis_obj l) = flat_map f l.
Proof.
  intros H. induction l as [|x l IH]; [reflexivity|]. simpl.
  destruct (xis_obj x) eqn:E; simpl; [rewrite IH; reflexivity|]. rewrite (H x E), IH. reflexivity.
Qed.

Lemma xdetach_spec_objs X S : xdetach_spec X S ->
  Permutation (flat_map oadds X) (flat_map oadds S) /\ Permutation (flat_map odrops X) (flat_map odrops S).
Proof.
  unfold xdetach_spec. destruct (xsortMap X); intros H; [destruct H| |].
  - subst S.
    rewrite <- (filter_obj_fm oadds X), <- (filter_obj_fm oadds (xdetachReferences X)),
            <- (filter_obj_fm odrops X), <- (filter_obj_fm odrops (xdetachReferences X)), xdetach_objs;
      try (intros x Hx; destruct x; simpl in *; try reflexivity; discriminate).
    split; apply Permutation_refl.
  - split; apply Permutation_flat_map; exact H.
Qed.

(* once: the plan is a permutation of what xDetachCycles returned; type creations / drops and the table-level
   effects (of the table projection) are the input's *)
Theorem xplan_once X l : xplan X = XPOk l ->
  exists d, xDetachCycles X = XDCOk d /\ Permutation d l /\
    Permutation (flat_map oadds X) (flat_map oadds l) /\ Permutation (flat_map odrops X) (flat_map odrops l) /\
    Permutation (flat_map adds (erase_all X)) (flat_map adds (erase_all l)) /\
    Permutation (flat_map drops (erase_all X)) (flat_map drops (erase_all l)).
Proof.
  unfold xplan. destruct (xDetachCycles X) as [|d] eqn:Ed; [discriminate|].
  destruct (gSortChanges_perm xchange xdependsOn xis_drop d) as [out [H1 H2]].
  unfold xSortChanges. rewrite H1. intros H. inversion H; subst out.
  assert (Hp : Permutation d l).
  { eapply perm_trans; [apply Permutation_sym; apply gpartition_perm|exact H2]. }
  exists d. split; [reflexivity|]. split; [exact Hp|].
  pose proof (xDetachCycles_spec X d Ed) as Hs.
  destruct (xdetach_spec_objs X d Hs) as [Ha Hd].
  split; [eapply perm_trans; [exact Ha|apply Permutation_flat_map; exact Hp]|].
  split; [eapply perm_trans; [exact Hd|apply Permutation_flat_map; exact Hp]|].
  assert (He : Permutation (flat_map adds (erase_all X)) (flat_map adds (erase_all d)) /\
               Permutation (flat_map drops (erase_all X)) (flat_map drops (erase_all d))).
  { unfold xdetach_spec in Hs. destruct (xsortMap X); [destruct Hs| |].
    - subst d. rewrite xdetach_erase, detach_adds, detach_drops. split; apply Permutation_refl.
    - split; apply Permutation_flat_map; apply Permutation_flat_map; exact Hs. }
  destruct He as [Ea Edr].
  assert (Hpe : Permutation (erase_all d) (erase_all l)) by (apply Permutation_flat_map; exact Hp).
  split.
  - eapply perm_trans; [exact Ea|apply Permutation_flat_map; exact Hpe].
  - eapply perm_trans; [exact Edr|apply Permutation_flat_map; exact Hpe].
Qed.

(** * 4a. A table-only plan that respects every dependsOn edge and keeps the drops behind meets every obligation
       of the reference catalogue (no cycle branch: nothing was detached).  The order DetachCycles produced is not
       needed for this -- only that dependsOn is acyclic, which is where the sortMap index comes in (below). *)
Section EdgeSplit.
  Variable cs : list change.
  Variable c : cat.
  Hypothesis HWF : WF cs.
  Hypothesis Hcons : consistent c cs.
  Variable out : list change.
  Hypothesis Hperm : Permutation cs out.
  Hypothesis Hdeps : forall pre x post y, out = pre ++ x :: post -> In y cs -> y <> x ->
    dependsOn x y = true -> In y pre.
  Hypothesis Hbehind : forall pre x post y, out = pre ++ x :: post -> is_drop x = false -> In y pre -> is_drop y = false.

  Lemma es_in x : In x out <-> In x cs.
  Proof.
    split; intros H; [apply (Permutation_in _ (Permutation_sym Hperm) H)|apply (Permutation_in _ Hperm H)].
  Qed.

  Lemma es_fm {B} (f : change -> list B) n : In n (flat_map f out) <-> In n (flat_map f cs).
  Proof.
    pose proof (Permutation_flat_map f Hperm) as Hp. split; intros H.
    - apply (Permutation_in _ (Permutation_sym Hp) H).
    - apply (Permutation_in _ Hp H).
  Qed.

  Lemma edge_split : split_ok out c.
  Proof.
    constructor.
    - apply (Permutation_NoDup (Permutation_flat_map adds Hperm)). apply NoDup_adds. apply (wf_names cs HWF).
    - intros n Hn. apply (proj1 (es_fm _ _)) in Hn. apply (cn_adds c cs Hcons n Hn).
    - apply (Permutation_NoDup (Permutation_flat_map drops Hperm)). apply NoDup_drops. apply (wf_names cs HWF).
    - intros n Hn. apply (proj1 (es_fm _ _)) in Hn. apply (cn_drops c cs Hcons n Hn).
    - intros x f Hx Hf Hd. apply (proj1 (es_in _)) in Hx. apply (proj1 (es_fm _ _)) in Hd.
      apply (wf_decl cs HWF x f Hx Hf Hd).
    - (* declared keys: the creation of the parent is a dependsOn edge *)
      intros pre x post f Eo Hf.
      assert (Hx : In x cs) by (apply es_in; rewrite Eo; apply in_or_app; right; left; reflexivity).
      destruct (cn_parent c cs Hcons x f Hx Hf) as [H|H]; [left; exact H|right].
      apply in_adds_iff in H. destruct H as [t' [fks' [Hy Hn]]].
      destruct (Nat.eq_dec (qn (f_ref f)) (nm x)) as [E|E].
      + right. assert (Exy : AddTable t' fks' = x) by (apply (names_inj cs HWF); [assumption|assumption|unfold nm in *; simpl; congruence]).
        subst x. simpl. unfold nm in E. simpl in E. rewrite E. reflexivity.
      + left. assert (Hne : AddTable t' fks' <> x) by (intros Exy; subst x; apply E; unfold nm; simpl; congruence).
        assert (Hdep : dependsOn x (AddTable t' fks') = true).
        { destruct x as [t fks|t fks|t tcs]; simpl in Hf.
          - simpl. unfold refTo. apply existsb_exists. exists f. split; [exact Hf|]. apply same_table_qn. congruence.
          - destruct Hf.
          - apply (modify_depends_on_add t tcs f t' fks' Hf). congruence. }
        pose proof (Hdeps pre x post _ Eo Hy Hne Hdep) as Hpre.
        apply in_adds_iff. exists t', fks'. split; [exact Hpre|exact Hn].
    - (* modified tables: exist (a table is the subject of one change), and no drop stands before a non-drop *)
      intros pre t tcs post Eo. split.
      + intros Hin. apply in_drops_iff in Hin. destruct Hin as [t' [fks' [Hin _]]].
        pose proof (Hbehind pre _ post _ Eo eq_refl Hin) as Hd. discriminate.
      + left. apply (cn_mods c cs Hcons t tcs). apply es_in. rewrite Eo. apply in_or_app. right. left. reflexivity.
    - (* dropped tables: a live key from a dropped child is a dependsOn edge; a DROP FOREIGN KEY is no drop *)
      intros pre p fks post e Eo He Hp Hne.
      assert (Hx : In (DropTable p fks) cs) by (apply es_in; rewrite Eo; apply in_or_app; right; left; reflexivity).
      assert (Hpd : In (snd e) (flat_map drops cs)).
      { rewrite Hp. apply in_drops_iff. exists p, fks. split; [exact Hx|reflexivity]. }
      assert (Hne' : fst (fst e) <> snd e) by (rewrite Hp; exact Hne).
      destruct (cn_live c cs Hcons e He Hpd Hne') as [y [Hy [Hny Hcov]]].
      destruct y as [t fks0|t fks0|t tcs]; simpl in Hcov; [destruct Hcov| |]; unfold nm in Hny; simpl in Hny.
      + destruct Hcov as [f [Hf [Hs Hr]]].
        exists (DropTable t fks0). split; [|simpl; apply Nat.eqb_eq; exact Hny].
        apply (Hdeps pre _ post _ Eo Hy).
        * intros E. injection E as E1 _. apply Hne. rewrite <- Hny, E1. reflexivity.
        * simpl. unfold refTo. apply existsb_exists. exists f. split; [exact Hf|]. apply same_table_qn. congruence.
      + exists (ModifyTable t tcs). split; [|simpl; rewrite Hcov, (proj2 (Nat.eqb_eq _ _) Hny); reflexivity].
        assert (Hz : In (ModifyTable t tcs) out) by (apply es_in; exact Hy).
        rewrite Eo in Hz. apply in_app_or in Hz. destruct Hz as [Hz|[Hz|Hz]]; [exact Hz|discriminate Hz|].
        exfalso. destruct (in_split _ _ Hz) as [q1 [q2 Eq]].
        assert (Eo' : out = (pre ++ DropTable p fks :: q1) ++ ModifyTable t tcs :: q2) by (rewrite Eo, Eq, <- app_assoc; reflexivity).
        assert (Hdd : is_drop (DropTable p fks) = false).
        { apply (Hbehind _ _ q2 _ Eo' eq_refl). apply in_or_app. right. left. reflexivity. }
        discriminate.
    - apply (Permutation_NoDup (Permutation_flat_map rm_keys Hperm)).
      apply NoDup_keys; [apply (wf_names cs HWF)| |intros x k _; apply rm_keys_fst].
      intros x Hx. pose proof (wf_rm cs HWF x Hx) as Hw. destruct x as [t fks|t fks|t tcs]; simpl; try constructor.
      apply NoDup_map_pair. exact Hw.
    - intros k Hk. apply (proj1 (es_fm _ _)) in Hk. apply in_flat_map in Hk. destruct Hk as [x [Hx Hk]].
      pose proof (cn_rm_live c cs Hcons x Hx) as Hl. destruct x as [t fks|t fks|t tcs]; simpl in Hk; try (destruct Hk; fail).
      apply in_map_iff in Hk. destruct Hk as [s0 [<- Hs]]. apply (Hl s0 Hs).
  Qed.
End EdgeSplit.

(** * 3. xdependsOn is acyclic on what xSortChanges receives: the search puts dependencies first *)
Lemma NoDup_x l : NoDup (erase_all l) -> NoDup (filter xis_obj l) -> NoDup l.
Proof.
  induction l as [|a l IH]; intros He Ho; [constructor|].
  unfold erase_all in *. simpl in *. destruct (xis_obj a) eqn:Ea.
  - rewrite (erase_obj a Ea) in He. simpl in He. inversion Ho as [|? ? Hn Ho']; subst.
    constructor; [|apply IH; assumption]. intros Hin. apply Hn. apply filter_In. split; assumption.
  - rewrite (erase_table a Ea) in He. simpl in He. inversion He as [|? ? Hn He']; subst.
    constructor; [|apply IH; assumption]. intros Hin. apply Hn.
    apply (proj2 (in_erase_all l (erase1 a))). exists a. repeat split; assumption.
Qed.

Lemma erase1_inj_in l : NoDup (erase_all l) -> forall x y, In x l -> In y l ->
  xis_obj x = false -> xis_obj y = false -> erase1 x = erase1 y -> x = y.
Proof.
  induction l as [|a l IH]; intros Hnd x y Hx Hy Ox Oy E; [destruct Hx|].
  unfold erase_all in Hnd. simpl in Hnd.
  assert (Hl : NoDup (erase_all l)) by (apply NoDup_app_r in Hnd; exact Hnd).
  assert (Hout : forall z, xis_obj a = false -> In z l -> xis_obj z = false -> erase1 z = erase1 a -> False).
  { intros z Oa Hz Oz Ez. rewrite (erase_table a Oa) in Hnd. simpl in Hnd. inversion Hnd as [|? ? Hn _]; subst.
    apply Hn. apply (proj2 (in_erase_all l (erase1 a))). exists z. repeat split; assumption. }
  destruct Hx as [<-|Hx]; destruct Hy as [<-|Hy].
  - reflexivity.
  - exfalso. apply (Hout y Ox Hy Oy). symmetry. exact E.
  - exfalso. apply (Hout x Oy Hx Ox E).
  - apply (IH Hl x y Hx Hy Ox Oy E).
Qed.

Lemma existsb_map {A B} (f : A -> B) (p : B -> bool) l : existsb p (map f l) = existsb (fun a => p (f a)) l.
Proof. induction l as [|a l IH]; [reflexivity|]. simpl. rewrite IH. reflexivity. Qed.

Lemma existsb_ext' {A} (p q : A -> bool) l : (forall a, p a = q a) -> existsb p l = existsb q l.
Proof. intros H. induction l as [|a l IH]; [reflexivity|]. simpl. rewrite H, IH. reflexivity. Qed.

(* between table changes xdependsOn is dependsOn of the table-only model *)
Lemma xdep_tables x y : xis_obj x = false -> xis_obj y = false ->
  xdependsOn x y = dependsOn (erase1 x) (erase1 y).
Proof.
  intros Ox Oy. destruct x as [t1 f1 y1|t1 f1 y1|t1 c1|e1|e1]; try discriminate;
    destruct y as [t2 f2 y2|t2 f2 y2|t2 c2|e2|e2]; try discriminate; simpl; try reflexivity.
  - rewrite existsb_map. apply existsb_ext'. intros [[]| | |]; reflexivity.
  - f_equal. rewrite existsb_map. apply existsb_ext'. intros [[]| | |]; reflexivity.
Qed.

Lemma is_drop_erase1 x : xis_obj x = false -> is_drop (erase1 x) = xis_drop x.
Proof. destruct x; simpl; intros H; try reflexivity; discriminate. Qed.

Section XRank.
  Variable L : list xchange.
  Variable r : change -> nat.
  Variable B : nat.
  Hypothesis HndE : NoDup (erase_all L).
  Hypothesis HndO : NoDup (filter xis_obj L).
  Hypothesis Hr : forall a b, In a (erase_all L) -> In b (erase_all L) -> a <> b -> dependsOn a b = true -> r b < r a.
  Hypothesis HB : forall a, In a (erase_all L) -> r a <= B.
  Hypothesis Hcl : forall a b, In a (erase_all L) -> In b (erase_all L) -> is_drop a = false -> a <> b ->
    dependsOn a b = true -> is_drop b = false.

  (* types are created first and dropped last; the table changes keep the rank of the table-only model *)
  Definition xr (x : xchange) : nat :=
    match x with
    | XAddObject _ => 0
    | XDropObject _ => B + 2
    | _ => S (r (erase1 x))
    end.

  Lemma in_E x : In x L -> xis_obj x = false -> In (erase1 x) (erase_all L).
  Proof. intros Hx Ox. apply in_erase_all. exists x. repeat split; assumption. Qed.

  Lemma neq_E x y : In x L -> In y L -> xis_obj x = false -> xis_obj y = false -> x <> y -> erase1 x <> erase1 y.
  Proof. intros Hx Hy Ox Oy Hne E. apply Hne. apply (erase1_inj_in L HndE x y); assumption. Qed.

  Lemma xr_table x : xis_obj x = false -> xr x = S (r (erase1 x)).
  Proof. destruct x; simpl; intros H; try reflexivity; discriminate. Qed.

  Lemma xr_edges x y : In x L -> In y L -> x <> y -> xdependsOn x y = true -> xr y < xr x.
  Proof.
    intros Hx Hy Hne Hd. destruct (xis_obj x) eqn:Ox; destruct (xis_obj y) eqn:Oy.
    - destruct x; try discriminate; destruct y; discriminate.
    - (* a dropped type waits for a table change *)
      rewrite (xr_table y Oy). pose proof (HB _ (in_E y Hy Oy)).
      destruct x; try discriminate; destruct y; try discriminate; simpl in *; try discriminate; lia.
    - (* a table change waits for a created type *)
      rewrite (xr_table x Ox). destruct y; try discriminate; destruct x; try discriminate; simpl in *; try discriminate; lia.
    - rewrite (xr_table x Ox), (xr_table y Oy). rewrite (xdep_tables x y Ox Oy) in Hd.
      pose proof (Hr _ _ (in_E x Hx Ox) (in_E y Hy Oy) (neq_E x y Hx Hy Ox Oy Hne) Hd). lia.
  Qed.

  Lemma x_closed x y : In x L -> In y L -> xis_drop x = false -> x <> y -> xdependsOn x y = true -> xis_drop y = false.
  Proof.
    intros Hx Hy Hdx Hne Hd. destruct (xis_obj x) eqn:Ox; destruct (xis_obj y) eqn:Oy.
    - destruct x; try discriminate; destruct y; discriminate.
    - destruct x; try discriminate; destruct y; try discriminate; simpl in *; discriminate.
    - destruct y; try discriminate; destruct x; try discriminate; simpl in *; try discriminate; reflexivity.
    - rewrite <- (is_drop_erase1 y Oy). rewrite <- (is_drop_erase1 x Ox) in Hdx. rewrite (xdep_tables x y Ox Oy) in Hd.
      apply (Hcl _ _ (in_E x Hx Ox) (in_E y Hy Oy) Hdx (neq_E x y Hx Hy Ox Oy Hne) Hd).
  Qed.

  (* a position of the table projection comes from a position of the plan *)
  Lemma erased_position (out : list xchange) pre a post :
    erase_all out = pre ++ a :: post ->
    exists opre ox opost, out = opre ++ ox :: opost /\ xis_obj ox = false /\ erase1 ox = a /\ pre = erase_all opre.
  Proof.
    intros E. destruct (flat_map_split erase out pre a post E) as [opre [ox [opost [p1 [p2 [Eo [Ex [Ep _]]]]]]]].
    exists opre, ox, opost. split; [exact Eo|].
    destruct (xis_obj ox) eqn:Oo.
    - rewrite (erase_obj ox Oo) in Ex. destruct p1; discriminate.
    - rewrite (erase_table ox Oo) in Ex. destruct p1 as [|b p1].
      + simpl in Ex. injection Ex as Ea _. split; [reflexivity|]. split; [exact Ea|].
        rewrite Ep, app_nil_r. reflexivity.
      + simpl in Ex. injection Ex as _ Ex. destruct p1; discriminate.
  Qed.

  Theorem xsorted_out :
    exists out, xSortChanges L = Some out /\ Permutation L out /\
      (* every dependency stands before its dependent; no drop stands before another change *)
      (forall pre x post y, out = pre ++ x :: post -> In y L -> y <> x -> xdependsOn x y = true -> In y pre) /\
      (forall pre x post y, out = pre ++ x :: post -> xis_drop x = false -> In y pre -> xis_drop y = false) /\
      (* the same for the table projection *)
      Permutation (erase_all L) (erase_all out) /\
      (forall pre a post b, erase_all out = pre ++ a :: post -> In b (erase_all L) -> b <> a ->
         dependsOn a b = true -> In b pre) /\
      (forall pre a post b, erase_all out = pre ++ a :: post -> is_drop a = false -> In b pre -> is_drop b = false).
  Proof.
    pose proof (NoDup_x L HndE HndO) as HndL.
    assert (HinP : forall x, In x (gpartition xchange xis_drop L) <-> In x L).
    { intros x. split; intros H.
      - apply (Permutation_in _ (gpartition_perm xis_drop L) H).
      - apply (Permutation_in _ (Permutation_sym (gpartition_perm xis_drop L)) H). }
    destruct (gSortChanges_ranked xchange xdependsOn xis_drop xr L) as [out [Hs [Hp [Hd Hb]]]].
    - apply (Permutation_NoDup (Permutation_sym (gpartition_perm xis_drop L))). exact HndL.
    - intros x y Hx Hy. apply HinP in Hx. apply HinP in Hy. apply xr_edges; assumption.
    - assert (Hb' : forall pre x post y, out = pre ++ x :: post -> xis_drop x = false -> In y pre -> xis_drop y = false).
      { apply Hb. intros x y Hx Hy. apply HinP in Hx. apply HinP in Hy. apply x_closed; assumption. }
      assert (HpL : Permutation L out).
      { eapply perm_trans; [apply Permutation_sym; apply gpartition_perm|exact Hp]. }
      assert (Hd' : forall pre x post y, out = pre ++ x :: post -> In y L -> y <> x -> xdependsOn x y = true -> In y pre).
      { intros pre x post y Eo Hy. apply (Hd pre x post y Eo). apply HinP. exact Hy. }
      exists out. split; [exact Hs|]. split; [exact HpL|]. split; [exact Hd'|]. split; [exact Hb'|].
      split; [apply Permutation_flat_map; exact HpL|]. split.
      + intros pre a post b E Hbin Hne Hdep.
        destruct (erased_position out pre a post E) as [opre [ox [opost [Eo [Oo [Ea Ep]]]]]].
        apply in_erase_all in Hbin. destruct Hbin as [oy [Hoy [Oy Eb]]].
        assert (Hxy : xdependsOn ox oy = true) by (rewrite (xdep_tables ox oy Oo Oy), Ea, Eb; exact Hdep).
        assert (Hne' : oy <> ox) by (intros Exy; subst oy; apply Hne; congruence).
        pose proof (Hd' opre ox opost oy Eo Hoy Hne' Hxy) as Hin.
        rewrite Ep. apply in_erase_all. exists oy. repeat split; assumption.
      + intros pre a post b E Ha Hbin.
        destruct (erased_position out pre a post E) as [opre [ox [opost [Eo [Oo [Ea Ep]]]]]].
        rewrite Ep in Hbin. apply in_erase_all in Hbin. destruct Hbin as [oy [Hoy [Oy Eb]]].
        rewrite <- Eb, (is_drop_erase1 oy Oy). apply (Hb' opre ox opost oy Eo); [|exact Hoy].
        rewrite <- (is_drop_erase1 ox Oo), Ea. exact Ha.
  Qed.
End XRank.

(** * 4b. The statements *)
(* what the differ emits, with objects: the table changes are well-formed (SortProofs.WF) and an object change
   (a schema.Change pointer) occurs once *)
Record XWF (X : list xchange) : Prop := {
  xwf_tables : WF (erase_all X);
  xwf_objs : NoDup (filter xis_obj X)
}.

Lemma Permutation_filter' {A} (p : A -> bool) l l' : Permutation l l' -> Permutation (filter p l) (filter p l').
Proof.
  intros H. induction H as [|x l l' H IH|x y l|l l' l'' H1 IH1 H2 IH2]; simpl.
  - constructor.
  - destruct (p x); [constructor|]; exact IH.
  - destruct (p x); destruct (p y); try apply Permutation_refl. constructor.
  - eapply perm_trans; eassumption.
Qed.

(* what a plan of a change set with objects guarantees *)
Definition xplan_ok (S out : list xchange) (c : cat) : Prop :=
  Permutation S out /\
  (forall pre x post y, out = pre ++ x :: post -> In y S -> y <> x -> xdependsOn x y = true -> In y pre) /\
  (forall pre x post y, out = pre ++ x :: post -> xis_drop x = false -> In y pre -> xis_drop y = false) /\
  exists c', replay (erase_all out) c = Some c'.

Theorem xsafe_any_tiebreak X c S :
  XWF X -> consistent c (erase_all X) -> xdetach_spec X S ->
  exists out, xSortChanges S = Some out /\ xplan_ok S out c.
Proof.
  intros [HWF HO] Hcons. unfold xdetach_spec. rewrite xsortMap_erase.
  destruct (sortMap (erase_all X)) as [| |sorted] eqn:Esm; intros HS; [destruct HS| |].
  - (* a cycle: the detached list *)
    subst S.
    destruct (xsorted_out (xdetachReferences X) rho_c 2) as [out [Hs [Hp [Hd [Hb [Hpe [Hde Hbe]]]]]]].
    + rewrite xdetach_erase. apply cyc_NoDup. exact HWF.
    + rewrite xdetach_objs. exact HO.
    + rewrite xdetach_erase. apply cyc_edges. exact HWF.
    + intros a _. destruct a; simpl; lia.
    + rewrite xdetach_erase. apply cyc_closed. exact HWF.
    + exists out. split; [exact Hs|]. split; [exact Hp|]. split; [exact Hd|]. split; [exact Hb|].
      apply (split_replay_ok (erase_all out) c).
      rewrite xdetach_erase in Hpe, Hde.
      apply (cyc_out_split (erase_all X) c HWF Hcons (erase_all out)).
      * eapply perm_trans; [apply partition_perm|exact Hpe].
      * intros pre a post b E Hbin. apply (Hde pre a post b E). apply (proj1 (partition_in _ _) Hbin).
      * exact Hbe.
  - (* no cycle: any permutation of the input (sort.Slice is not stable) *)
    assert (HpE : Permutation (erase_all X) (erase_all S)) by (apply Permutation_flat_map; exact HS).
    assert (HinE : forall a, In a (erase_all S) -> In a (erase_all X)).
    { intros a Ha. apply (Permutation_in _ (Permutation_sym HpE) Ha). }
    destruct (xsorted_out S (ra sorted) (length sorted + Koff sorted)) as [out [Hs [Hp [Hd [Hb [Hpe [Hde Hbe]]]]]]].
    + apply (Permutation_NoDup HpE). apply NoDup_cs. exact HWF.
    + apply (Permutation_NoDup (Permutation_filter' xis_obj X S HS)). exact HO.
    + intros a b Ha Hb'. apply (acyc_edges (erase_all X) HWF sorted Esm a b (HinE a Ha) (HinE b Hb')).
    + intros a _. unfold ra. pose proof (key_bound (erase_all X) sorted Esm a). destruct (is_drop a); lia.
    + intros a b Ha Hb' Hda Hne Hdep. apply HinE in Ha. apply HinE in Hb'.
      destruct a as [t1 f1|t1 f1|t1 c1]; destruct b as [t2 f2|t2 f2|t2 c2]; simpl in *; try reflexivity; try discriminate.
      exfalso. apply Hne. apply (names_inj (erase_all X) HWF); [assumption|assumption|].
      unfold nm. simpl. apply same_table_qn. exact Hdep.
    + exists out. split; [exact Hs|]. split; [exact Hp|]. split; [exact Hd|]. split; [exact Hb|].
      apply (split_replay_ok (erase_all out) c).
      apply (edge_split (erase_all X) c HWF Hcons (erase_all out)).
      * eapply perm_trans; [exact HpE|exact Hpe].
      * intros pre a post b E Hbin. apply (Hde pre a post b E). apply (Permutation_in _ HpE Hbin).
      * exact Hbe.
Qed.

Theorem xplan_safe X c :
  XWF X -> consistent c (erase_all X) ->
  exists S out, xDetachCycles X = XDCOk S /\ xplan X = XPOk out /\ xplan_ok S out c.
Proof.
  intros HW Hcons. destruct (xDetachCycles_total X) as [S HS].
  destruct (xsafe_any_tiebreak X c S HW Hcons (xDetachCycles_spec X S HS)) as [out [H1 H2]].
  exists S, out. split; [exact HS|]. split; [|exact H2]. unfold xplan. rewrite HS, H1. reflexivity.
Qed.
