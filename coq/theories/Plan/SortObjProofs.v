(** M-SORT, part 2 -- change sets with enum objects (SortObjModel.v): proofs.

    1. Where the Go code ignores objects and column types the extended functions commute with [erase]:
       dependencies / sortMap, detachReferences.
    2. xplan terminates and returns a permutation of what xDetachCycles returned (any input).
    3. For a well-formed change set the dependency relation xdependsOn is acyclic on what xDetachCycles returns
       (rank from the sortMap index resp. from the detached shape), hence xSortChanges puts every dependency
       before its dependent and keeps the drops behind (SortGenProofs.gSortChanges_ranked).
    4. The table / foreign-key projection of such a plan meets every obligation of the reference catalogue. *)
From Coq Require Import List Bool Arith Lia Permutation Sorted.
From Atlas Require Import Plan.SortModel Plan.SortDfs Plan.SortReplay Plan.SortProofs Plan.SortObjModel Plan.SortGenProofs.
Import ListNotations.

(** * 1. erase *)
Definition xis_obj (x : xchange) : bool := match x with XAddObject _ | XDropObject _ => true | _ => false end.

(* the table-only change behind a table change (objects: a dummy that is never used) *)
Definition erase1 (x : xchange) : change :=
  match x with
  | XAddTable t fks _ => AddTable t fks
  | XDropTable t fks _ => DropTable t fks
  | XModifyTable t cs => ModifyTable t (map erase_tc cs)
  | XAddObject _ | XDropObject _ => ModifyTable (mkT 0 0 0) []
  end.

Lemma erase_table x : xis_obj x = false -> erase x = [erase1 x].
Proof. destruct x; simpl; intros H; try reflexivity; discriminate. Qed.

Lemma erase_obj x : xis_obj x = true -> erase x = [].
Proof. destruct x; simpl; intros H; try reflexivity; discriminate. Qed.

Lemma in_erase_all l y : In y (erase_all l) <-> exists x, In x l /\ xis_obj x = false /\ erase1 x = y.
Proof.
  unfold erase_all. rewrite in_flat_map. split.
  - intros [x [Hx Hy]]. exists x. split; [exact Hx|].
    destruct x; simpl in *; try (destruct Hy as [<-|[]]; split; reflexivity); destruct Hy.
  - intros [x [Hx [Ho <-]]]. exists x. split; [exact Hx|]. rewrite (erase_table x Ho). left. reflexivity.
Qed.

Lemma xisDropped_erase X t : xisDropped X t = isDropped (erase_all X) t.
Proof.
  unfold xisDropped, isDropped, erase_all. induction X as [|x X IH]; [reflexivity|].
  simpl. rewrite existsb_app, <- IH. destruct x; simpl; rewrite ?orb_false_r; reflexivity.
Qed.

Lemma xdep_dropfk_erase X f d : xdep_dropfk X f d = dep_dropfk (erase_all X) f d.
Proof. unfold xdep_dropfk, dep_dropfk. rewrite xisDropped_erase. reflexivity. Qed.

Lemma xdep_change_erase X c d :
  xdep_change X d c = fold_left (dep_change (erase_all X)) (erase c) d.
Proof.
  destruct c as [t fks tys|t fks tys|t cs|e|e]; simpl; try reflexivity.
  - revert d. induction fks as [|f fks IH]; intros d; simpl; [reflexivity|].
    rewrite xdep_dropfk_erase. apply IH.
  - revert d. induction cs as [|c cs IH]; intros d; simpl; [reflexivity|].
    rewrite <- IH. f_equal.
    destruct c as [[f|f|from to|k]|e|from to|e]; simpl; try reflexivity. apply xdep_dropfk_erase.
Qed.

Lemma xdeps_fold_erase X : forall cs d,
  fold_left (xdep_change X) cs d = fold_left (dep_change (erase_all X)) (erase_all cs) d.
Proof.
  induction cs as [|c cs IH]; intros d; [reflexivity|].
  unfold erase_all in *. simpl. rewrite fold_left_app, xdep_change_erase. apply IH.
Qed.

Lemma xdependencies_erase X : xdependencies X = dependencies (erase_all X).
Proof. unfold xdependencies, dependencies. apply xdeps_fold_erase. Qed.

(* sortMap sees the table changes only *)
Lemma xsortMap_erase X : xsortMap X = sortMap (erase_all X).
Proof. unfold xsortMap, sortMap, sortMap_of. rewrite xdependencies_erase. reflexivity. Qed.

Lemma filter_map_comm {A B} (f : A -> B) (p : A -> bool) (q : B -> bool) l :
  (forall a, q (f a) = p a) -> map f (filter p l) = filter q (map f l).
Proof.
  intros H. induction l as [|a l IH]; [reflexivity|]. simpl. rewrite H. destruct (p a); simpl; rewrite IH; reflexivity.
Qed.

Lemma is_addfk_erase c : is_addfk (erase_tc c) = xis_addfk c.
Proof. destruct c as [[]| | |]; reflexivity. Qed.

Lemma xdet_planned_erase c : erase_all (xdet_planned c) = flat_map det_planned (erase c).
Proof.
  unfold erase_all. destruct c as [t fks tys|t fks tys|t cs|e|e]; simpl; try reflexivity.
  - destruct (filter (fun f => negb (ptr_eqb (f_ref f) t)) fks); reflexivity.
  - destruct (filter (fun f => negb (ptr_eqb (f_ref f) t)) fks) as [|f l]; [reflexivity|].
    simpl. rewrite map_map. reflexivity.
  - rewrite app_nil_r.
    rewrite <- (filter_map_comm erase_tc (fun c => negb (xis_addfk c)) (fun c => negb (is_addfk c)) cs)
      by (intros a; rewrite is_addfk_erase; reflexivity).
    destruct (filter (fun c => negb (xis_addfk c)) cs); reflexivity.
Qed.

Lemma xdet_deferred_erase c : erase_all (xdet_deferred c) = flat_map det_deferred (erase c).
Proof.
  unfold erase_all. destruct c as [t fks tys|t fks tys|t cs|e|e]; simpl; try reflexivity.
  - destruct (filter (fun f => negb (ptr_eqb (f_ref f) t)) fks) as [|f l]; [reflexivity|].
    simpl. rewrite map_map. reflexivity.
  - destruct (filter (fun f => negb (ptr_eqb (f_ref f) t)) fks); reflexivity.
  - rewrite app_nil_r.
    rewrite <- (filter_map_comm erase_tc xis_addfk is_addfk cs) by (intros a; apply is_addfk_erase).
    destruct (filter xis_addfk cs); reflexivity.
Qed.

Lemma erase_all_app a b : erase_all (a ++ b) = erase_all a ++ erase_all b.
Proof. apply flat_map_app. Qed.

Lemma erase_all_flat_map (h : xchange -> list xchange) (g : change -> list change) :
  (forall c, erase_all (h c) = flat_map g (erase c)) ->
  forall l, erase_all (flat_map h l) = flat_map g (erase_all l).
Proof.
  intros H. induction l as [|c l IH]; [reflexivity|].
  simpl. rewrite erase_all_app, IH, H. unfold erase_all. simpl. rewrite flat_map_app. reflexivity.
Qed.

(* detachReferences handles the table changes as in the table-only model and keeps the object changes *)
Lemma xdetach_erase X : erase_all (xdetachReferences X) = detachReferences (erase_all X).
Proof.
  unfold xdetachReferences, detachReferences. rewrite erase_all_app.
  rewrite (erase_all_flat_map _ _ xdet_planned_erase), (erase_all_flat_map _ _ xdet_deferred_erase). reflexivity.
Qed.

Lemma xdet_deferred_objs c : filter xis_obj (xdet_deferred c) = [].
Proof.
  destruct c as [t fks tys|t fks tys|t cs|e|e]; simpl; try reflexivity.
  - destruct (filter (fun f => negb (ptr_eqb (f_ref f) t)) fks); reflexivity.
  - destruct (filter (fun f => negb (ptr_eqb (f_ref f) t)) fks); reflexivity.
  - destruct (filter xis_addfk cs); reflexivity.
Qed.

Lemma xdet_planned_objs c : filter xis_obj (xdet_planned c) = filter xis_obj [c].
Proof.
  destruct c as [t fks tys|t fks tys|t cs|e|e]; simpl; try reflexivity.
  - destruct (filter (fun f => negb (ptr_eqb (f_ref f) t)) fks); reflexivity.
  - destruct (filter (fun f => negb (ptr_eqb (f_ref f) t)) fks); reflexivity.
  - destruct (filter (fun c => negb (xis_addfk c)) cs); reflexivity.
Qed.

Lemma filter_flat_map {A B} (p : B -> bool) (h : A -> list B) l :
  filter p (flat_map h l) = flat_map (fun x => filter p (h x)) l.
Proof. induction l as [|a l IH]; [reflexivity|]. simpl. rewrite filter_app, IH. reflexivity. Qed.

Lemma xdetach_objs X : filter xis_obj (xdetachReferences X) = filter xis_obj X.
Proof.
  unfold xdetachReferences. rewrite filter_app, !filter_flat_map.
  rewrite (flat_map_ext _ _ xdet_deferred_objs), (flat_map_ext _ _ xdet_planned_objs).
  assert (H0 : flat_map (fun _ : xchange => @nil xchange) X = []) by (induction X; [reflexivity|assumption]).
  rewrite H0, app_nil_r. clear H0.
  induction X as [|c X IH]; [reflexivity|]. cbn [flat_map]. rewrite IH. simpl.
  destruct (xis_obj c); reflexivity.
Qed.

(** * 2. totality, permutation *)
Lemma ginsert_by_perm {A} (key : A -> nat) c l : Permutation (ginsert_by key c l) (c :: l).
Proof.
  induction l as [|x l IH]; simpl; [constructor; constructor|].
  destruct (key c <? key x); [apply Permutation_refl|].
  apply perm_trans with (x :: c :: l); [constructor; exact IH|constructor].
Qed.

Lemma gsort_by_perm {A} (key : A -> nat) l : Permutation l (gsort_by key l).
Proof.
  unfold gsort_by.
  assert (H : forall acc, Permutation (acc ++ l) (fold_left (fun acc c => ginsert_by key c acc) l acc)).
  { induction l as [|c l IH]; intros acc; simpl; [rewrite app_nil_r; apply Permutation_refl|].
    eapply perm_trans; [|apply IH]. apply Permutation_sym.
    eapply perm_trans; [apply Permutation_app_tail; apply ginsert_by_perm|].
    simpl. apply Permutation_cons_app. apply Permutation_refl. }
  apply (H []).
Qed.

Lemma gpartition_perm {A} (p : A -> bool) l : Permutation (gpartition A p l) l.
Proof.
  unfold gpartition. induction l as [|a l IH]; [constructor|]. simpl.
  destruct (p a); simpl.
  - apply Permutation_sym. apply Permutation_cons_app. apply Permutation_sym. exact IH.
  - constructor. exact IH.
Qed.

(* what xSortChanges receives: DetachCycles' sort.Slice is not stable -- any permutation in the cycle-free branch *)
Definition xdetach_spec (X S : list xchange) : Prop :=
  match xsortMap X with
  | SMOut => False
  | SMCycle => S = xdetachReferences X
  | SMOk _ => Permutation X S
  end.

Lemma xDetachCycles_spec X S : xDetachCycles X = XDCOk S -> xdetach_spec X S.
Proof.
  unfold xDetachCycles, xdetach_spec. destruct (xsortMap X) as [| |sorted]; intros H; inversion H; subst.
  - reflexivity.
  - apply gsort_by_perm.
Qed.

Lemma xDetachCycles_total X : exists S, xDetachCycles X = XDCOk S.
Proof.
  unfold xDetachCycles. pose proof (sortMap_total (erase_all X)) as H. rewrite xsortMap_erase.
  destruct (sortMap (erase_all X)); [congruence|eexists; reflexivity|eexists; reflexivity].
Qed.

Theorem xplan_total X : exists l, xplan X = XPOk l.
Proof.
  unfold xplan. destruct (xDetachCycles_total X) as [S HS]. rewrite HS.
  destruct (gSortChanges_perm xchange xdependsOn xis_drop S) as [out [H1 _]].
  unfold xSortChanges. rewrite H1. eexists; reflexivity.
Qed.

(* object changes of a change list: each AddObject / DropObject, by type name *)
Definition oadds (x : xchange) : list nat := match x with XAddObject e => [e_name e] | _ => [] end.
Definition odrops (x : xchange) : list nat := match x with XDropObject e => [e_name e] | _ => [] end.

Lemma filter_obj_fm {B} (f : xchange -> list B) l :
  (forall x, xis_obj x = false -> f x = []) -> flat_map f (filter xis_obj l) = flat_map f l.
Proof.
  intros H. induction l as [|x l IH]; [reflexivity|]. simpl.
  destruct (xis_obj x) eqn:E; simpl; [rewrite IH; reflexivity|]. rewrite (H x E), IH. reflexivity.
Qed.

Lemma xdetach_spec_objs X S : xdetach_spec X S ->
  Permutation (flat_map oadds X) (flat_map oadds S) /\ Permutation (flat_map odrops X) (flat_map odrops S).
Proof.
  unfold xdetach_spec. destruct (xsortMap X); intros H; [destruct H| |].
  - subst S.
    rewrite <- (filter_obj_fm oadds X), <- (filter_obj_fm oadds (xdetachReferences X)),
            <- (filter_obj_fm odrops X), <- (filter_obj_fm odrops (xdetachReferences X)), xdetach_objs;
      try (intros x Hx; destruct x; simpl in *; try reflexivity; discriminate).
    split; apply Permutation_refl.
  - split; apply Permutation_flat_map; exact H.
Qed.

(* once: the plan is a permutation of what xDetachCycles returned; type creations / drops and the table-level
   effects (of the table projection) are the input's *)
Theorem xplan_once X l : xplan X = XPOk l ->
  exists d, xDetachCycles X = XDCOk d /\ Permutation d l /\
    Permutation (flat_map oadds X) (flat_map oadds l) /\ Permutation (flat_map odrops X) (flat_map odrops l) /\
    Permutation (flat_map adds (erase_all X)) (flat_map adds (erase_all l)) /\
    Permutation (flat_map drops (erase_all X)) (flat_map drops (erase_all l)).
Proof.
  unfold xplan. destruct (xDetachCycles X) as [|d] eqn:Ed; [discriminate|].
  destruct (gSortChanges_perm xchange xdependsOn xis_drop d) as [out [H1 H2]].
  unfold xSortChanges. rewrite H1. intros H. inversion H; subst out.
  assert (Hp : Permutation d l).
  { eapply perm_trans; [apply Permutation_sym; apply gpartition_perm|exact H2]. }
  exists d. split; [reflexivity|]. split; [exact Hp|].
  pose proof (xDetachCycles_spec X d Ed) as Hs.
  destruct (xdetach_spec_objs X d Hs) as [Ha Hd].
  split; [eapply perm_trans; [exact Ha|apply Permutation_flat_map; exact Hp]|].
  split; [eapply perm_trans; [exact Hd|apply Permutation_flat_map; exact Hp]|].
  assert (He : Permutation (flat_map adds (erase_all X)) (flat_map adds (erase_all d)) /\
               Permutation (flat_map drops (erase_all X)) (flat_map drops (erase_all d))).
  { unfold xdetach_spec in Hs. destruct (xsortMap X); [destruct Hs| |].
    - subst d. rewrite xdetach_erase, detach_adds, detach_drops. split; apply Permutation_refl.
    - split; apply Permutation_flat_map; apply Permutation_flat_map; exact Hs. }
  destruct He as [Ea Edr].
  assert (Hpe : Permutation (erase_all d) (erase_all l)) by (apply Permutation_flat_map; exact Hp).
  split.
  - eapply perm_trans; [exact Ea|apply Permutation_flat_map; exact Hpe].
  - eapply perm_trans; [exact Edr|apply Permutation_flat_map; exact Hpe].
Qed.
