(** M-SORT -- executable model of the dependency planner of ariga/atlas.

    Go code followed (names kept):
      sql/internal/sqlx/plan.go     : DetachCycles, detachReferences, sortMap,
                                      dependencies, table, isDropped, SortChanges
      sql/internal/sqlx/sqlx_oss.go : dependsOn (table / foreign-key arms)
      sql/mysql/migrate_oss.go      : state.modifyTable (which ModifyTable sources a plan carries),
                                      state.topLevel (schema-level changes first, the rest to the sort)
      sql/postgres/migrate_oss.go   : state.modifyTable + alterTable, state.topLevel (idem)

    Restrictions (said once, here):
    * changes are AddTable / DropTable / ModifyTable [AddFK | DropFK | ModifyFK | Other];
      schemas, views, functions, objects, triggers, enum and row types are outside
      ([T.Deps] is empty; tables may live in several schemas and two schemas may hold tables
      of the same name: a table carries [t_name] and [t_schema], and the model reads the one or
      the pair exactly where the Go code does -- [dependencies], [isDropped], [table], the index
      map of [sortMap] go by T.Name alone, [dependsOn] by SameTable), so [dependOnOf], [depOfAdd],
      [depOfDrop], [typeDependsOnT] are constantly false and are omitted;
      the ModifyTable/ModifyTable arm of dependsOn needs an AddColumn whose *child* column
      pointer occurs in the other table's new FK and is constantly false here.
    * every foreign key is complete ([checkFK] never errors).
    * a *schema.Table pointer is a [table] = name + schema + id; Go's [==] on pointers is [ptr_eqb]
      (ids), [SameTable] is [same_table] (name and schema), [.Name ==] is [t_name _ =? t_name _].  The copy [t := *change.T] made
      by detachReferences keeps the id: no modelled comparison looks at that pointer afterwards.
    * a schema.Change value is compared by pointer in SortChanges ([c1 != c2], the
      [hasE]/[edges]/[added] maps): the model uses the position in the slice, i.e. it
      assumes the input slice does not contain the same pointer twice.
    * [sort.Slice] in DetachCycles: keys are NOT distinct (a table that is not in the index
      map reads 0, like the first sorted table).  Go's pdqsort is insertion sort (stable)
      up to 12 elements; the executable model is the stable insertion sort and the
      theorems quantify over every permutation sorted by the key.
    * Go maps: [deps] is only read through byKeys (sorted, keys distinct) and by lookup,
      [sorted]/[progress]/[hasE]/[edges]/[added] only by lookup: no map iteration
      order reaches the result.  [deps] is a key-sorted association list here. *)
From Coq Require Import List Bool Arith Lia.
Import ListNotations.

(** * Data *)
(* t_name = T.Name, t_schema = T.Schema.Name (0 = a nil *schema.Schema; SameSchema(nil, nil) = true,
   SameSchema(nil, s) = false: the harness numbers real schemas from 1), t_id = the pointer *)
Record table := mkT { t_name : nat; t_schema : nat; t_id : nat }.
Record fkey := mkFK { f_sym : nat; f_tab : table; f_ref : table }.

Inductive tchange :=
| AddFK (f : fkey)
| DropFK (f : fkey)
| ModifyFK (from to : fkey)
| Other (k : nat).            (* AddColumn / DropColumn of a plain column, ... *)

Inductive change :=
| AddTable (t : table) (fks : list fkey)      (* fks = T.ForeignKeys *)
| DropTable (t : table) (fks : list fkey)
| ModifyTable (t : table) (cs : list tchange).

Definition ptr_eqb (a b : table) : bool := t_id a =? t_id b.
(* plan.go: SameTable = t1.Name == t2.Name && SameSchema(t1.Schema, t2.Schema); the sites of dependsOn
   that spell it out (c1.T.Name == c2.T.Name && SameSchema(...)) are the same test *)
Definition same_table (a b : table) : bool := (t_name a =? t_name b) && (t_schema a =? t_schema b).

(* The identity of a database table is the pair (schema, name).  The reference catalogue
   (specification side) keys tables by an injective code of that pair (SortReplay.qn_inj), so that
   it stays a list of numbers; no modelled Go function computes [qn]. *)
Definition qcode (s n : nat) : nat := (s + n) * (s + n) + s.
Definition qn (t : table) : nat := qcode (t_schema t) (t_name t).

(* plan.go: table *)
Definition table_of (c : change) : table :=
  match c with AddTable t _ => t | DropTable t _ => t | ModifyTable t _ => t end.

Definition mem (x : nat) (l : list nat) : bool := existsb (Nat.eqb x) l.

(** * dependencies (plan.go) *)
Definition deps_t := list (nat * list nat).

(* deps[k] = append(deps[k], v) on a key-sorted association list *)
Fixpoint deps_add (k v : nat) (m : deps_t) : deps_t :=
  match m with
  | [] => [(k, [v])]
  | (k', vs) :: m' =>
      if k =? k' then (k', vs ++ [v]) :: m'
      else if k <? k' then (k, [v]) :: m
      else (k', vs) :: deps_add k v m'
  end.

Fixpoint deps_get (k : nat) (m : deps_t) : list nat :=
  match m with
  | [] => []
  | (k', vs) :: m' => if k =? k' then vs else deps_get k m'
  end.

(* plan.go: isDropped *)
Definition isDropped (changes : list change) (t : table) : bool :=
  existsb (fun c => match c with DropTable t' _ => t_name t' =? t_name t | _ => false end) changes.

Definition dep_addfk (t : table) (f : fkey) (d : deps_t) : deps_t :=
  if negb (ptr_eqb (f_ref f) t) then deps_add (t_name t) (t_name (f_ref f)) d else d.

Definition dep_dropfk (changes : list change) (f : fkey) (d : deps_t) : deps_t :=
  if isDropped changes (f_ref f) then deps_add (t_name (f_ref f)) (t_name (f_tab f)) d else d.

Definition dep_change (changes : list change) (d : deps_t) (c : change) : deps_t :=
  match c with
  | AddTable t fks => fold_left (fun d f => dep_addfk t f d) fks d
  | DropTable t fks => fold_left (fun d f => dep_dropfk changes f d) fks d
  | ModifyTable t cs =>
      fold_left (fun d c => match c with
                            | AddFK f => dep_addfk t f d
                            | ModifyFK _ to => dep_addfk t to d
                            | DropFK f => dep_dropfk changes f d
                            | Other _ => d
                            end) cs d
  end.

Definition dependencies (changes : list change) : deps_t :=
  fold_left (dep_change changes) changes [].

(** * sortMap (plan.go) *)
(* [sorted] is the list of names in the order they received their index
   (sorted[name] = len(sorted)); [progress] the set of names in progress. *)
Inductive vres :=
| VOut                                                  (* out of fuel *)
| VRet (cyc : bool) (sorted progress : list nat).

Fixpoint remove_nat (x : nat) (l : list nat) : list nat :=
  match l with [] => [] | y :: l' => if x =? y then remove_nat x l' else y :: remove_nat x l' end.

(* for _, ref := range refs { if visit(ref) { return true } } *)
Fixpoint visit_refs (visit1 : nat -> list nat -> list nat -> vres)
         (refs : list nat) (sorted progress : list nat) : vres :=
  match refs with
  | [] => VRet false sorted progress
  | r :: refs' =>
      match visit1 r sorted progress with
      | VOut => VOut
      | VRet true s p => VRet true s p
      | VRet false s p => visit_refs visit1 refs' s p
      end
  end.

Fixpoint visit (deps : deps_t) (fuel : nat) (name : nat) (sorted progress : list nat) : vres :=
  match fuel with
  | 0 => VOut
  | S f =>
      if mem name sorted then VRet false sorted progress
      else if mem name progress then VRet true sorted progress
      else match visit_refs (visit deps f) (deps_get name deps) sorted (name :: progress) with
           | VOut => VOut
           | VRet true s p => VRet true s p
           | VRet false s p => VRet false (s ++ [name]) (remove_nat name p)
           end
  end.

Definition universe (deps : deps_t) : list nat := map fst deps ++ concat (map snd deps).
Definition sortMap_fuel (deps : deps_t) : nat := S (length (universe deps)).

Inductive smres := SMOut | SMCycle | SMOk (sorted : list nat).

Definition sortMap (changes : list change) : smres :=
  let deps := dependencies changes in
  match visit_refs (visit deps (sortMap_fuel deps)) (map fst deps) [] [] with
  | VOut => SMOut
  | VRet true _ _ => SMCycle
  | VRet false s _ => SMOk s
  end.

(* sorted[name] of a Go map[string]int: the zero value when the key is absent *)
Fixpoint index_of (name : nat) (l : list nat) : option nat :=
  match l with
  | [] => None
  | x :: l' => if x =? name then Some 0 else option_map S (index_of name l')
  end.

Definition sorted_idx (sorted : list nat) (name : nat) : nat :=
  match index_of name sorted with Some i => i | None => 0 end.

(** * detachReferences (plan.go) -- per change, what goes to [planned] and to [deferred] *)
Definition is_addfk (c : tchange) : bool := match c with AddFK _ => true | _ => false end.

Definition det_planned (c : change) : list change :=
  match c with
  | AddTable t fks =>
      let ext := filter (fun f => negb (ptr_eqb (f_ref f) t)) fks in
      let self := filter (fun f => ptr_eqb (f_ref f) t) fks in
      match ext with [] => [AddTable t fks] | _ => [AddTable t self] end
  | DropTable t fks =>
      let ext := filter (fun f => negb (ptr_eqb (f_ref f) t)) fks in
      match ext with [] => [] | _ => [ModifyTable t (map DropFK ext)] end
  | ModifyTable t cs =>
      let rest := filter (fun c => negb (is_addfk c)) cs in
      match rest with [] => [] | _ => [ModifyTable t rest] end
  end.

Definition det_deferred (c : change) : list change :=
  match c with
  | AddTable t fks =>
      let ext := filter (fun f => negb (ptr_eqb (f_ref f) t)) fks in
      match ext with [] => [] | _ => [ModifyTable t (map AddFK ext)] end
  | DropTable t fks =>
      let ext := filter (fun f => negb (ptr_eqb (f_ref f) t)) fks in
      match ext with [] => [DropTable t fks] | _ => [DropTable t []] end
  | ModifyTable t cs =>
      let fks := filter is_addfk cs in
      match fks with [] => [] | _ => [ModifyTable t fks] end
  end.

Definition detachReferences (changes : list change) : list change :=
  flat_map det_planned changes ++ flat_map det_deferred changes.

(** * DetachCycles (plan.go) *)
(* stable insertion sort by a key = Go's sort.Slice on <= 12 elements *)
Fixpoint insert_by (key : change -> nat) (c : change) (l : list change) : list change :=
  match l with
  | [] => [c]
  | x :: l' => if key c <? key x then c :: l else x :: insert_by key c l'
  end.

Definition sort_by (key : change -> nat) (l : list change) : list change :=
  fold_left (fun acc c => insert_by key c acc) l [].

Definition sort_key (sorted : list nat) (c : change) : nat := sorted_idx sorted (t_name (table_of c)).

Inductive dcres := DCOut | DCOk (planned : list change).

Definition DetachCycles (changes : list change) : dcres :=
  match sortMap changes with
  | SMOut => DCOut
  | SMCycle => DCOk (detachReferences changes)
  | SMOk sorted => DCOk (sort_by (sort_key sorted) changes)
  end.

(** * dependsOn (sqlx_oss.go), table / foreign-key arms *)
Definition refTo (fks : list fkey) (t : table) : bool :=
  existsb (fun f => same_table (f_ref f) t) fks.

Definition dependsOn (c1 c2 : change) : bool :=
  match c1, c2 with
  | AddTable t1 _, DropTable t2 _ => same_table t1 t2                 (* table recreation *)
  | AddTable t1 f1, AddTable t2 _ => refTo f1 t2
  | AddTable t1 f1, ModifyTable t2 _ => negb (same_table t1 t2) && refTo f1 t2
  | DropTable t1 _, DropTable t2 f2 => refTo f2 t1
  | DropTable t1 _, ModifyTable t2 cs =>
      existsb (fun c => match c with DropFK f => same_table (f_ref f) t1 | _ => false end) cs
  | DropTable _ _, AddTable _ _ => false
  | ModifyTable t1 cs, AddTable t2 _ =>
      same_table t1 t2
      || existsb (fun c => match c with
                            | AddFK f => same_table (f_ref f) t2
                            | ModifyFK _ to => same_table (f_ref to) t2    (* fix C04-modfk-detached *)
                            | _ => false
                            end) cs
  | ModifyTable _ _, ModifyTable _ _ => false
  | ModifyTable _ _, DropTable _ _ => false
  end.

(** * SortChanges (plan.go) *)
Definition is_drop (c : change) : bool := match c with DropTable _ _ => true | _ => false end.

(* changes = append(other, append(views, drop...)...) *)
Definition partition_changes (cs : list change) : list change :=
  filter (fun c => negb (is_drop c)) cs ++ filter is_drop cs.

Definition memp (p : nat * nat) (l : list (nat * nat)) : bool :=
  existsb (fun q => (fst p =? fst q) && (snd p =? snd q)) l.

Fixpoint number {A} (i : nat) (l : list A) : list (nat * A) :=
  match l with [] => [] | x :: l' => (i, x) :: number (S i) l' end.

(* inner loop: for _, c2 := range changes *)
Fixpoint edges_row (i : nat) (c1 : change) (js : list (nat * change))
         (hasE : list (nat * nat)) (row : list nat) : list nat * list (nat * nat) :=
  match js with
  | [] => (row, hasE)
  | (j, c2) :: js' =>
      if negb (i =? j) && negb (memp (j, i) hasE) && dependsOn c1 c2
      then edges_row i c1 js' ((i, j) :: hasE) (row ++ [j])
      else edges_row i c1 js' hasE row
  end.

(* outer loop: for _, c1 := range changes; result: edges[i] as the i-th row *)
Fixpoint edges_rows (is all : list (nat * change)) (hasE : list (nat * nat)) : list (list nat) :=
  match is with
  | [] => []
  | (i, c1) :: is' =>
      let '(row, hasE') := edges_row i c1 all hasE [] in
      row :: edges_rows is' all hasE'
  end.

Definition build_edges (cs : list change) : list (list nat) :=
  edges_rows (number 0 cs) (number 0 cs) [].

(* the closure [add]; state = (added, planned), both as index lists *)
Definition dstate := (list nat * list nat)%type.

Fixpoint add_list (add1 : nat -> dstate -> option dstate) (ds : list nat) (st : dstate) : option dstate :=
  match ds with
  | [] => Some st
  | d :: ds' =>
      if mem d (fst st) then add_list add1 ds' st
      else match add1 d st with
           | None => None
           | Some st' => add_list add1 ds' st'
           end
  end.

Fixpoint add (edges : list (list nat)) (fuel : nat) (c : nat) (st : dstate) : option dstate :=
  match fuel with
  | 0 => None
  | S f =>
      if mem c (fst st) then Some st
      else match add_list (add edges f) (nth c edges []) (c :: fst st, snd st) with
           | None => None
           | Some (added, planned) => Some (added, planned ++ [c])
           end
  end.

Definition pick (cs : list change) (i : nat) : list change :=
  match nth_error cs i with Some c => [c] | None => [] end.

(* None = out of fuel *)
Definition SortChanges (changes : list change) : option (list change) :=
  let cs := partition_changes changes in
  let edges := build_edges cs in
  match add_list (add edges (S (length cs))) (seq 0 (length cs)) ([], []) with
  | None => None
  | Some (_, planned) => Some (flat_map (pick cs) planned)
  end.

(** * The planner pipeline of mysql/postgres state.plan for table changes *)
Inductive pres := POut | POk (planned : list change).

Definition plan (changes : list change) : pres :=
  match DetachCycles changes with
  | DCOut => POut
  | DCOk l => match SortChanges l with None => POut | Some r => POk r end
  end.

(** * topLevel (mysql/migrate_oss.go, postgres/migrate_oss.go: state.topLevel, state.plan) *)
(* A change list may hold schema-level changes next to the table changes.  state.plan first runs
   topLevel: one pass over the list that appends the statement of every AddSchema / DropSchema /
   ModifySchema (one attribute change) to the plan at once and collects the other changes, in order,
   in a NEW slice [planned]; only [planned] goes to DetachCycles and SortChanges.  The argument is
   only read: planning the same list again gives the same plan (a Gallina function cannot say more;
   that the Go code does not write to its argument is checked on the Go side, oracle classes
   replan-differs / input-mutated). *)
Inductive schange := AddSchema (s : nat) | DropSchema (s : nat) | ModifySchema (s : nat).
Inductive gchange := GSchema (c : schange) | GTable (c : change).

Fixpoint topLevel (l : list gchange) : list schange * list change :=
  match l with
  | [] => ([], [])
  | GSchema c :: l' => let (top, planned) := topLevel l' in (c :: top, planned)
  | GTable c :: l' => let (top, planned) := topLevel l' in (top, c :: planned)
  end.

(* state.plan: the statements of the schema-level changes first, then the sorted table changes *)
Definition plan_all (l : list gchange) : option (list schange * list change) :=
  let (top, planned) := topLevel l in
  match plan planned with POut => None | POk r => Some (top, r) end.

(** * Which ModifyTable sources the dialect planners put into Plan.Changes *)
Definition is_modfk (c : tchange) : bool := match c with ModifyFK _ _ => true | _ => false end.
Definition is_dropfk (c : tchange) : bool := match c with DropFK _ => true | _ => false end.

(* mysql/migrate_oss.go modifyTable: changes[0] = DropFK of every ModifyFK (+ DropIndex, not
   printed), changes[1] = the rest with ModifyFK replaced by AddFK; one ALTER per non-empty group *)
Definition mysql_sources (c : change) : list change :=
  match c with
  | ModifyTable t cs =>
      let g0 := flat_map (fun c => match c with ModifyFK from _ => [DropFK from] | _ => [] end) cs in
      let g1 := map (fun c => match c with ModifyFK _ to => AddFK to | c => c end) cs in
      (match g0 with [] => [] | _ => [ModifyTable t g0] end)
      ++ (match g1 with [] => [] | _ => [ModifyTable t g1] end)
  | c => [c]
  end.

(* postgres/migrate_oss.go modifyTable + alterTable: ModifyFK -> DropFK, AddFK; then a stable
   sort putting constraint drops first; one ALTER *)
Definition pg_sources (c : change) : list change :=
  match c with
  | ModifyTable t cs =>
      let alter := flat_map (fun c => match c with ModifyFK from to => [DropFK from; AddFK to] | c => [c] end) cs in
      (match alter with
       | [] => []
       | _ => [ModifyTable t (filter is_dropfk alter ++ filter (fun c => negb (is_dropfk c)) alter)]
       end)
  | c => [c]
  end.

(** * The reference catalogue (the specification side) *)
Record cat := mkCat { c_tabs : list nat; c_fks : list (nat * nat * nat) }.  (* (child, symbol, parent) *)

Definition fk_key_neqb (child sym : nat) (e : nat * nat * nat) : bool :=
  negb ((fst (fst e) =? child) && (snd (fst e) =? sym)).

(* is the foreign key (child, symbol) live? *)
Definition fk_live (child sym : nat) (c : cat) : bool :=
  existsb (fun e => negb (fk_key_neqb child sym e)) (c_fks c).

Definition replay_tc (t : nat) (c : cat) (tc : tchange) : option cat :=
  match tc with
  | AddFK f =>
      if mem (qn (f_ref f)) (c_tabs c)
      then Some (mkCat (c_tabs c) (c_fks c ++ [(t, f_sym f, qn (f_ref f))]))
      else None
  | DropFK f =>
      if fk_live t (f_sym f) c                                          (* DROP of a key that is not live *)
      then Some (mkCat (c_tabs c) (filter (fk_key_neqb t (f_sym f)) (c_fks c)))
      else None
  | ModifyFK from to =>
      if mem (qn (f_ref to)) (c_tabs c)
      then if fk_live t (f_sym from) c
           then Some (mkCat (c_tabs c) (filter (fk_key_neqb t (f_sym from)) (c_fks c) ++ [(t, f_sym to, qn (f_ref to))]))
           else None
      else None
  | Other _ => Some c
  end.

Fixpoint replay_tcs (t : nat) (c : cat) (tcs : list tchange) : option cat :=
  match tcs with
  | [] => Some c
  | tc :: tcs' => match replay_tc t c tc with None => None | Some c' => replay_tcs t c' tcs' end
  end.

Definition replay1 (c : cat) (ch : change) : option cat :=
  match ch with
  | AddTable t fks =>
      let n := qn t in
      if mem n (c_tabs c) then None                                     (* double create *)
      else if forallb (fun f => mem (qn (f_ref f)) (n :: c_tabs c)) fks
           then Some (mkCat (n :: c_tabs c) (c_fks c ++ map (fun f => (n, f_sym f, qn (f_ref f))) fks))
           else None                                                     (* FK to a missing table *)
  | DropTable t _ =>
      let n := qn t in
      if negb (mem n (c_tabs c)) then None                              (* double drop / unknown *)
      else if existsb (fun e => (snd e =? n) && negb (fst (fst e) =? n)) (c_fks c)
           then None                                                     (* live incoming FK *)
           else Some (mkCat (remove_nat n (c_tabs c)) (filter (fun e => negb (fst (fst e) =? n)) (c_fks c)))
  | ModifyTable t tcs =>
      if mem (qn t) (c_tabs c) then replay_tcs (qn t) c tcs else None
  end.

Fixpoint replay (l : list change) (c : cat) : option cat :=
  match l with
  | [] => Some c
  | ch :: l' => match replay1 c ch with None => None | Some c' => replay l' c' end
  end.
