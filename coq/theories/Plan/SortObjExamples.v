(** M-SORT, part 2 -- a concrete change set with enum objects (non-vacuity of the C04_*_objects theorems). *)
From Coq Require Import List Bool Arith Lia Permutation Sorted.
From Atlas Require Import Plan.SortModel Plan.SortDfs Plan.SortReplay Plan.SortProofs Plan.SortExamples
  Plan.SortObjModel Plan.SortObjProofs Plan.SortObjTypes.
Import ListNotations.

(* enum 0 is created and used by the created table 1 and by a new column of the kept table 0; enum 1 is dropped,
   its last users are the dropped table 2 and a dropped column of table 0; tables 0 and 1 reference each other
   (a cycle: DetachCycles detaches the keys).  The list is in a bad order: DROP TYPE first, CREATE TYPE last. *)
Definition ox_cs : list xchange :=
  [ XDropObject (mkE 1 2);
    XAddTable (des 1) [mkFK 20 (des 1) (des 0)] [mkE 0 1];
    XModifyTable (des 0) [XT (AddFK (mkFK 21 (des 0) (des 1))); XAddCol (mkE 0 1); XDropCol (mkE 1 2)];
    XDropTable (cur 2) [] [mkE 1 2];
    XAddObject (mkE 0 1) ].
Definition ox_cat : cat := kcat [0; 2] [].
Definition ox_types : tstate := ([1], [(qcode 0 0, 1); (qcode 0 2, 1)]).
Definition ox_plan : list xchange :=
  [ XAddObject (mkE 0 1);
    XAddTable (des 1) [] [mkE 0 1];
    XModifyTable (des 0) [XAddCol (mkE 0 1); XDropCol (mkE 1 2)];
    XModifyTable (des 1) [XT (AddFK (mkFK 20 (des 1) (des 0)))];
    XModifyTable (des 0) [XT (AddFK (mkFK 21 (des 0) (des 1)))];
    XDropTable (cur 2) [] [mkE 1 2];
    XDropObject (mkE 1 2) ].

Lemma ox_wf : XWF ox_cs.
Proof. split; [wf_tac|vm_compute; repeat constructor; simpl; intuition discriminate]. Qed.

Lemma ox_cons : consistent ox_cat (erase_all ox_cs).
Proof. cons_tac. Qed.

Lemma ox_runs :
  xsortMap ox_cs = SMCycle /\ xplan ox_cs = XPOk ox_plan /\
  replay (erase_all ox_plan) ox_cat = Some (kcat [1; 0] [(1, 20, 0); (0, 21, 1)]) /\
  treplay ox_plan ox_types = Some ([0], [(qcode 0 1, 0); (qcode 0 0, 0)]) /\
  (* the input order itself fails on the type half of the catalogue (DROP TYPE 1 while table 2 uses it) *)
  treplay ox_cs ox_types = None.
Proof. vm_compute. repeat split; reflexivity. Qed.

Lemma ox_tcons : tconsistent ox_types ox_cs.
Proof.
  constructor; simpl.
  - repeat constructor; simpl; intuition discriminate.
  - intros n [<-|[]] [H|[]]; discriminate.
  - repeat constructor; simpl; intuition discriminate.
  - intros n [<-|[]]. left. reflexivity.
  - intros p Hp. vm_compute in Hp.
    repeat (destruct Hp as [<-|Hp]); try (destruct Hp; fail); simpl;
      (split; [intros [H|[]]; discriminate|right; exists (mkE 0 1); repeat split; auto 10]).
  - intros u e Hu He Hs. vm_compute in Hu.
    repeat (destruct He as [He|He]); try discriminate; try (destruct He; fail).
    injection He as <-.
    destruct Hu as [<-|[<-|[]]].
    + right. exists (mkE 1 2). split; [vm_compute; auto 10|reflexivity].
    + left. exists (mkE 1 2). split; [vm_compute; auto 10|reflexivity].
Qed.

Lemma ox_xcons : xconsistent (mkXC ox_cat (fst ox_types) (snd ox_types)) ox_cs.
Proof. split; [exact ox_cons|exact ox_tcons]. Qed.
