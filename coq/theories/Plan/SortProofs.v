(** M-SORT proofs, part 3: DetachCycles + SortChanges against the reference catalogue.

    Both branches of DetachCycles hand SortChanges a list which, once partitioned
    (non-drops, then drops), is sorted by a rank under which every dependsOn edge and every
    obligation of the reference catalogue points to a strictly smaller rank:
      - no cycle:  rank = sortMap index (+ an offset for drops);
      - cycle:     rank = 0 for created tables and in-place modifications,
                          1 for the deferred ADD FOREIGN KEY modifications, 2 for drops.
    Hence SortChanges returns the partitioned list unchanged (SortDfs.SortChanges_backward)
    and the replay succeeds (SortReplay.ranked_replay_ok). *)
From Coq Require Import List Bool Arith Lia Permutation Sorted.
From Atlas Require Import Plan.SortModel Plan.SortDfs Plan.SortReplay.
Import ListNotations.

(** * Lists *)
Lemma SS_app {A} (R : A -> A -> Prop) l1 l2 :
  StronglySorted R l1 -> StronglySorted R l2 ->
  (forall x y, In x l1 -> In y l2 -> R x y) -> StronglySorted R (l1 ++ l2).
Proof.
  intros H1 H2 Hc. induction H1 as [|a l1 H1 IH Ha]; simpl; [exact H2|].
  constructor.
  - apply IH. intros x y Hx Hy. apply Hc; [right; exact Hx|exact Hy].
  - apply Forall_app. split; [exact Ha|]. apply Forall_forall. intros y Hy. apply Hc; [left; reflexivity|exact Hy].
Qed.

Lemma SS_filter {A} (R : A -> A -> Prop) (p : A -> bool) l :
  StronglySorted R l -> StronglySorted R (filter p l).
Proof.
  intros H. induction H as [|a l H IH Ha]; simpl; [constructor|].
  destruct (p a); [|exact IH]. constructor; [exact IH|].
  rewrite Forall_forall in *. intros x Hx. apply filter_In in Hx. apply Ha. tauto.
Qed.

Lemma SS_nth {A} (R : A -> A -> Prop) l : StronglySorted R l ->
  forall i j x y, i < j -> nth_error l i = Some x -> nth_error l j = Some y -> R x y.
Proof.
  intros H. induction H as [|a l H IH Ha]; intros i j x y Hij Hi Hj.
  - destruct i; discriminate.
  - destruct j as [|j]; [lia|]. simpl in Hj. destruct i as [|i]; simpl in Hi.
    + inversion Hi; subst. rewrite Forall_forall in Ha. apply Ha. apply nth_error_In with (n := j). exact Hj.
    + apply (IH i j x y); [lia|exact Hi|exact Hj].
Qed.

Lemma filter_perm {A} (p : A -> bool) l :
  Permutation (filter (fun x => negb (p x)) l ++ filter p l) l.
Proof.
  induction l as [|a l IH]; simpl; [constructor|].
  destruct (p a); simpl.
  - apply Permutation_sym. apply Permutation_cons_app. apply Permutation_sym. exact IH.
  - constructor. exact IH.
Qed.

Lemma partition_perm l : Permutation (partition_changes l) l.
Proof. apply (filter_perm is_drop l). Qed.

Lemma partition_in l x : In x (partition_changes l) <-> In x l.
Proof.
  split; intros H.
  - apply (Permutation_in _ (partition_perm l) H).
  - apply (Permutation_in _ (Permutation_sym (partition_perm l)) H).
Qed.

Lemma NoDup_map_inj {A B} (f : A -> B) l a b :
  NoDup (map f l) -> In a l -> In b l -> f a = f b -> a = b.
Proof.
  induction l as [|x l IH]; intros Hn Ha Hb Hf; [destruct Ha|].
  simpl in Hn. inversion Hn as [|? ? Hx Hn']; subst.
  destruct Ha as [->|Ha]; destruct Hb as [->|Hb].
  - reflexivity.
  - exfalso. apply Hx. rewrite Hf. apply in_map. exact Hb.
  - exfalso. apply Hx. rewrite <- Hf. apply in_map. exact Ha.
  - apply IH; assumption.
Qed.

(** rank-sorted + pairwise distinct + every edge decreases the rank => every edge points backwards *)
Lemma ranked_backward (r : change -> nat) l :
  StronglySorted (rle r) l -> NoDup l ->
  (forall x y, In x l -> In y l -> x <> y -> dependsOn x y = true -> r y < r x) ->
  backward l.
Proof.
  intros Hs Hn Hd i j c1 c2 Hi Hj Hij Hdep.
  assert (Hne : c1 <> c2).
  { intros ->. apply Hij. apply (proj1 (NoDup_nth_error l) Hn i j).
    - apply nth_error_Some. rewrite Hi. discriminate.
    - rewrite Hi, Hj. reflexivity. }
  pose proof (Hd c1 c2 (nth_error_In _ _ Hi) (nth_error_In _ _ Hj) Hne Hdep) as Hr.
  destruct (Nat.lt_ge_cases j i) as [Hlt|Hge]; [exact Hlt|].
  assert (Hlt : i < j) by lia.
  pose proof (SS_nth (rle r) l Hs i j c1 c2 Hlt Hi Hj) as Hle. unfold rle in Hle. lia.
Qed.

(** * dependencies *)
Definition ksorted (d : deps_t) : Prop := StronglySorted (fun p q => fst p < fst q) d.

Lemma deps_get_above k (d : deps_t) : Forall (fun p => k < fst p) d -> deps_get k d = [].
Proof.
  induction d as [|[k' vs] d IH]; intros H; simpl; [reflexivity|].
  inversion H; subst. simpl in *. destruct (Nat.eqb_spec k k'); [lia|]. apply IH. assumption.
Qed.

Lemma deps_add_lb k0 k v d :
  k0 < k -> Forall (fun p => k0 < fst p) d -> Forall (fun p : nat * list nat => k0 < fst p) (deps_add k v d).
Proof.
  intros Hk. induction d as [|[k' vs] d IH]; intros H; simpl.
  - constructor; [exact Hk|constructor].
  - inversion H; subst. simpl in *. destruct (k =? k').
    + constructor; [simpl; assumption|assumption].
    + destruct (k <? k'); [constructor; [exact Hk|exact H]|].
      constructor; [simpl; assumption|apply IH; assumption].
Qed.

Lemma deps_add_sorted k v d : ksorted d -> ksorted (deps_add k v d).
Proof.
  unfold ksorted. induction d as [|[k' vs] d IH]; intros H; simpl.
  - constructor; constructor.
  - apply StronglySorted_inv in H. destruct H as [Hs Hf]. simpl in Hf.
    destruct (Nat.eqb_spec k k') as [->|Hne].
    + constructor; assumption.
    + destruct (Nat.ltb_spec k k') as [Hlt|Hge].
      * constructor; [constructor; assumption|].
        constructor; [simpl; exact Hlt|]. apply Forall_forall. intros p Hp. simpl.
        rewrite Forall_forall in Hf. specialize (Hf p Hp). lia.
      * constructor; [apply IH; exact Hs|]. apply deps_add_lb; [simpl; lia|exact Hf].
Qed.

Lemma deps_get_add x k v d :
  ksorted d -> deps_get x (deps_add k v d) = if x =? k then deps_get x d ++ [v] else deps_get x d.
Proof.
  unfold ksorted. induction d as [|[k' vs] d IH]; intros H; simpl.
  - destruct (x =? k); reflexivity.
  - apply StronglySorted_inv in H. destruct H as [Hs Hf]. simpl in Hf.
    destruct (Nat.eqb_spec k k') as [->|Hne]; simpl.
    + destruct (Nat.eqb_spec x k'); reflexivity.
    + destruct (Nat.ltb_spec k k') as [Hlt|Hge]; simpl.
      * destruct (Nat.eqb_spec x k) as [->|Hxk]; [|reflexivity].
        destruct (Nat.eqb_spec k k'); [lia|].
        rewrite deps_get_above; [reflexivity|].
        apply Forall_forall. intros p Hp. rewrite Forall_forall in Hf. specialize (Hf p Hp). lia.
      * destruct (Nat.eqb_spec x k') as [->|Hxk'].
        -- destruct (Nat.eqb_spec k' k); [lia|reflexivity].
        -- apply IH. exact Hs.
Qed.

Definition dsub (d d' : deps_t) : Prop := forall x y, In y (deps_get x d) -> In y (deps_get x d').

Lemma deps_add_sub k v d : ksorted d -> dsub d (deps_add k v d).
Proof.
  intros Hs x y H. rewrite deps_get_add by exact Hs.
  destruct (x =? k); [apply in_or_app; left; exact H|exact H].
Qed.

Lemma deps_add_in k v d : ksorted d -> In v (deps_get k (deps_add k v d)).
Proof.
  intros Hs. rewrite deps_get_add by exact Hs. rewrite Nat.eqb_refl. apply in_or_app. right. left. reflexivity.
Qed.

(* folding operations that keep the key order and only grow the lists *)
Definition grows {A} (op : deps_t -> A -> deps_t) : Prop :=
  forall d a, ksorted d -> ksorted (op d a) /\ dsub d (op d a).

Lemma fold_grows {A} (op : deps_t -> A -> deps_t) : grows op ->
  forall l d, ksorted d -> ksorted (fold_left op l d) /\ dsub d (fold_left op l d).
Proof.
  intros Hg. induction l as [|a l IH]; intros d Hs; simpl.
  - split; [exact Hs|intros x y H; exact H].
  - destruct (Hg d a Hs) as [H1 H2]. destruct (IH (op d a) H1) as [H3 H4].
    split; [exact H3|]. intros x y H. apply H4. apply H2. exact H.
Qed.

Lemma fold_grows_in {A} (op : deps_t -> A -> deps_t) : grows op ->
  forall l d a x y, ksorted d -> In a l ->
    (forall d0, ksorted d0 -> In y (deps_get x (op d0 a))) ->
    In y (deps_get x (fold_left op l d)).
Proof.
  intros Hg. induction l as [|b l IH]; intros d a x y Hs Ha Hop; [destruct Ha|].
  simpl. destruct (Hg d b Hs) as [H1 H2]. destruct Ha as [->|Ha].
  - destruct (fold_grows op Hg l (op d a) H1) as [_ H4]. apply H4. apply Hop. exact Hs.
  - apply (IH (op d b) a x y H1 Ha Hop).
Qed.

Lemma grows_addfk t : grows (fun d f => dep_addfk t f d).
Proof.
  intros d f Hs. unfold dep_addfk. destruct (negb (ptr_eqb (f_ref f) t)).
  - split; [apply deps_add_sorted; exact Hs|apply deps_add_sub; exact Hs].
  - split; [exact Hs|intros x y H; exact H].
Qed.

Lemma grows_dropfk cs : grows (fun d f => dep_dropfk cs f d).
Proof.
  intros d f Hs. unfold dep_dropfk. destruct (isDropped cs (f_ref f)).
  - split; [apply deps_add_sorted; exact Hs|apply deps_add_sub; exact Hs].
  - split; [exact Hs|intros x y H; exact H].
Qed.

Definition dep_tc cs t (d : deps_t) (c : tchange) : deps_t :=
  match c with
  | AddFK f => dep_addfk t f d
  | ModifyFK _ to => dep_addfk t to d
  | DropFK f => dep_dropfk cs f d
  | Other _ => d
  end.

Lemma grows_tc cs t : grows (dep_tc cs t).
Proof.
  intros d c Hs. destruct c; simpl.
  - apply (grows_addfk t d f Hs).
  - apply (grows_dropfk cs d f Hs).
  - apply (grows_addfk t d to Hs).
  - split; [exact Hs|intros x y H; exact H].
Qed.

Lemma dep_change_eq cs d c :
  dep_change cs d c =
  match c with
  | AddTable t fks => fold_left (fun d f => dep_addfk t f d) fks d
  | DropTable t fks => fold_left (fun d f => dep_dropfk cs f d) fks d
  | ModifyTable t tcs => fold_left (dep_tc cs t) tcs d
  end.
Proof. destruct c; reflexivity. Qed.

Lemma grows_change cs : grows (dep_change cs).
Proof.
  intros d c Hs. rewrite dep_change_eq. destruct c as [t fks|t fks|t tcs].
  - apply (fold_grows _ (grows_addfk t) fks d Hs).
  - apply (fold_grows _ (grows_dropfk cs) fks d Hs).
  - apply (fold_grows _ (grows_tc cs t) tcs d Hs).
Qed.

Lemma ksorted_nil : ksorted [].
Proof. constructor. Qed.

(** the edges [dependencies] records *)
Lemma deps_of_add cs t fks f :
  In (AddTable t fks) cs -> In f fks -> ptr_eqb (f_ref f) t = false ->
  In (t_name (f_ref f)) (deps_get (t_name t) (dependencies cs)).
Proof.
  intros Hc Hf Hp. unfold dependencies.
  apply (fold_grows_in _ (grows_change cs) cs [] (AddTable t fks) _ _ ksorted_nil Hc).
  intros d0 Hs0. rewrite dep_change_eq.
  apply (fold_grows_in _ (grows_addfk t) fks d0 f _ _ Hs0 Hf).
  intros d1 Hs1. unfold dep_addfk. rewrite Hp. simpl. apply deps_add_in. exact Hs1.
Qed.

Lemma deps_of_modify cs t tcs f :
  In (ModifyTable t tcs) cs -> In f (flat_map tc_added tcs) -> ptr_eqb (f_ref f) t = false ->
  In (t_name (f_ref f)) (deps_get (t_name t) (dependencies cs)).
Proof.
  intros Hc Hf Hp. unfold dependencies.
  apply in_flat_map in Hf. destruct Hf as [tc [Htc Hf]].
  apply (fold_grows_in _ (grows_change cs) cs [] (ModifyTable t tcs) _ _ ksorted_nil Hc).
  intros d0 Hs0. rewrite dep_change_eq.
  apply (fold_grows_in _ (grows_tc cs t) tcs d0 tc _ _ Hs0 Htc).
  intros d1 Hs1. destruct tc as [g|g|from to|k]; simpl in Hf; try (destruct Hf; fail);
    destruct Hf as [<-|[]]; simpl; unfold dep_addfk; rewrite Hp; simpl; apply deps_add_in; exact Hs1.
Qed.

Lemma deps_of_drop cs t fks f :
  In (DropTable t fks) cs -> In f fks -> isDropped cs (f_ref f) = true ->
  In (t_name (f_tab f)) (deps_get (t_name (f_ref f)) (dependencies cs)).
Proof.
  intros Hc Hf Hp. unfold dependencies.
  apply (fold_grows_in _ (grows_change cs) cs [] (DropTable t fks) _ _ ksorted_nil Hc).
  intros d0 Hs0. rewrite dep_change_eq.
  apply (fold_grows_in _ (grows_dropfk cs) fks d0 f _ _ Hs0 Hf).
  intros d1 Hs1. unfold dep_dropfk. rewrite Hp. apply deps_add_in. exact Hs1.
Qed.

(* isDropped goes by T.Name alone: a dropped table (schema, name) makes every table of that name "dropped" *)
Lemma isDropped_qn cs t : In (qn t) (flat_map drops cs) -> isDropped cs t = true.
Proof.
  unfold isDropped. rewrite existsb_exists, in_drops_iff.
  intros [t' [fks [Hx H]]]. exists (DropTable t' fks). split; [exact Hx|]. apply Nat.eqb_eq. apply qn_name. exact H.
Qed.

(** * Well-formed change sets and consistent catalogues *)
Definition tc_fks (tc : tchange) : list fkey :=
  match tc with AddFK f => [f] | DropFK f => [f] | ModifyFK a b => [a; b] | Other _ => [] end.
Definition change_fks (c : change) : list fkey :=
  match c with
  | AddTable _ fks => fks
  | DropTable _ fks => fks
  | ModifyTable _ tcs => flat_map tc_fks tcs
  end.

Record WF (cs : list change) : Prop := {
  (* each table is in at most one of add / drop / modify *)
  wf_names : NoDup (map nm cs);
  (* a foreign key that references the very object of its change references that table (ids determine names) *)
  wf_ptr : forall x f, In x cs -> In f (change_fks x) ->
             ptr_eqb (f_ref f) (table_of x) = true -> qn (f_ref f) = nm x;
  (* the child table recorded in a foreign key of a dropped table is that table *)
  wf_child : forall t fks f, In (DropTable t fks) cs -> In f fks -> qn (f_tab f) = qn t;
  (* a declared foreign key points at a desired-state table: not at one the change set drops *)
  wf_decl : forall x f, In x cs -> In f (added_fks x) -> ~ In (qn (f_ref f)) (flat_map drops cs);
  (* the keys of a dropped table have distinct symbols; a ModifyTable drops / re-points a symbol at most once *)
  wf_rm : forall x, In x cs ->
            match x with
            | AddTable _ _ => True
            | DropTable _ fks => NoDup (map f_sym fks)
            | ModifyTable _ tcs => NoDup (flat_map tc_rm tcs)
            end
}.

(* does the change set remove the live foreign key e = (child, symbol, parent)? *)
Definition covers (x : change) (e : nat * nat * nat) : Prop :=
  match x with
  | AddTable _ _ => False
  | DropTable _ fks => exists f, In f fks /\ f_sym f = snd (fst e) /\ qn (f_ref f) = snd e
  | ModifyTable _ tcs => existsb (tc_removes (snd (fst e))) tcs = true
  end.

Record consistent (c : cat) (cs : list change) : Prop := {
  cn_adds : forall n, In n (flat_map adds cs) -> ~ In n (c_tabs c);
  cn_drops : forall n, In n (flat_map drops cs) -> In n (c_tabs c);
  cn_mods : forall t tcs, In (ModifyTable t tcs) cs -> In (qn t) (c_tabs c);
  (* the parent of a declared foreign key exists or is created by the change set *)
  cn_parent : forall x f, In x cs -> In f (added_fks x) ->
                In (qn (f_ref f)) (c_tabs c) \/ In (qn (f_ref f)) (flat_map adds cs);
  (* every live foreign key from another table to a dropped table is dropped by the change set *)
  cn_live : forall e, In e (c_fks c) -> In (snd e) (flat_map drops cs) -> fst (fst e) <> snd e ->
              exists x, In x cs /\ nm x = fst (fst e) /\ covers x e;
  (* the keys of a dropped table, and the keys a ModifyTable drops or re-points, are live *)
  cn_rm_live : forall x, In x cs ->
                 match x with
                 | AddTable _ _ => True
                 | DropTable t fks => forall f, In f fks -> exists p, In (qn t, f_sym f, p) (c_fks c)
                 | ModifyTable t tcs => forall s, In s (flat_map tc_rm tcs) -> exists p, In (qn t, s, p) (c_fks c)
                 end
}.

Lemma adds_sub_names l n : In n (flat_map adds l) -> In n (map nm l).
Proof.
  intros H. apply in_flat_map in H. destruct H as [x [Hx Hn]]. apply in_map_iff. exists x.
  split; [|exact Hx]. destruct x; simpl in Hn; try (destruct Hn; fail). destruct Hn as [<-|[]]. reflexivity.
Qed.

Lemma drops_sub_names l n : In n (flat_map drops l) -> In n (map nm l).
Proof.
  intros H. apply in_flat_map in H. destruct H as [x [Hx Hn]]. apply in_map_iff. exists x.
  split; [|exact Hx]. destruct x; simpl in Hn; try (destruct Hn; fail). destruct Hn as [<-|[]]. reflexivity.
Qed.

Lemma NoDup_adds l : NoDup (map nm l) -> NoDup (flat_map adds l).
Proof.
  induction l as [|x l IH]; simpl; intros H; [constructor|].
  inversion H; subst. destruct x; simpl; try (apply IH; assumption).
  constructor; [|apply IH; assumption]. intros Hin. apply adds_sub_names in Hin. contradiction.
Qed.

Lemma NoDup_drops l : NoDup (map nm l) -> NoDup (flat_map drops l).
Proof.
  induction l as [|x l IH]; simpl; intros H; [constructor|].
  inversion H; subst. destruct x; simpl; try (apply IH; assumption).
  constructor; [|apply IH; assumption]. intros Hin. apply drops_sub_names in Hin. contradiction.
Qed.

Lemma NoDup_of_names l : NoDup (map nm l) -> NoDup l.
Proof. apply NoDup_map_inv. Qed.

Lemma NoDup_keys (K : change -> list (nat * nat)) l :
  NoDup (map nm l) -> (forall x, In x l -> NoDup (K x)) ->
  (forall x k, In x l -> In k (K x) -> fst k = nm x) -> NoDup (flat_map K l).
Proof.
  induction l as [|x l IH]; simpl; intros Hn Hk Hf; [constructor|].
  inversion Hn as [|? ? Hx Hn']; subst. apply NoDup_app_intro.
  - apply Hk. left. reflexivity.
  - apply IH; [exact Hn'|intros y Hy; apply Hk; right; exact Hy|intros y k Hy; apply Hf; right; exact Hy].
  - intros k H1 H2. apply in_flat_map in H2. destruct H2 as [y [Hy H2]].
    apply Hx. apply in_map_iff. exists y. split; [|exact Hy].
    rewrite <- (Hf x k (or_introl eq_refl) H1). symmetry. apply (Hf y k (or_intror Hy) H2).
Qed.

Lemma NoDup_map_pair {A} (a : nat) (l : list A) : NoDup l -> NoDup (map (pair a) l).
Proof.
  induction l as [|x l IH]; simpl; intros H; [constructor|]. inversion H; subst. constructor; [|apply IH; assumption].
  intros Hin. apply in_map_iff in Hin. destruct Hin as [y [E Hy]]. inversion E; subst. contradiction.
Qed.

Lemma NoDup_map_filter {A B} (g : A -> B) (p : A -> bool) l : NoDup (map g l) -> NoDup (map g (filter p l)).
Proof.
  induction l as [|x l IH]; simpl; intros H; [constructor|]. inversion H; subst.
  destruct (p x); simpl; [|apply IH; assumption]. constructor; [|apply IH; assumption].
  intros Hin. apply H2. apply in_map_iff in Hin. destruct Hin as [y [E Hy]]. apply filter_In in Hy.
  apply in_map_iff. exists y. tauto.
Qed.

Lemma rm_keys_fst x k : In k (rm_keys x) -> fst k = nm x.
Proof.
  destruct x as [t fks|t fks|t tcs]; simpl; intros H; try (destruct H; fail).
  apply in_map_iff in H. destruct H as [s [<- _]]. reflexivity.
Qed.

(** * DetachCycles: what SortChanges receives *)
Definition kle (sorted : list nat) (x y : change) : Prop := sort_key sorted x <= sort_key sorted y.

(* Go's sort.Slice is not stable: any permutation sorted by the index map *)
Definition detach_spec (cs S : list change) : Prop :=
  match sortMap cs with
  | SMOut => False
  | SMCycle => S = detachReferences cs
  | SMOk sorted => Permutation cs S /\ StronglySorted (kle sorted) S
  end.

Lemma insert_by_perm key c l : Permutation (insert_by key c l) (c :: l).
Proof.
  induction l as [|x l IH]; simpl; [constructor; constructor|].
  destruct (key c <? key x); [apply Permutation_refl|].
  apply perm_trans with (x :: c :: l); [constructor; exact IH|constructor].
Qed.

Lemma insert_by_sorted key c l :
  StronglySorted (fun x y => key x <= key y) l -> StronglySorted (fun x y => key x <= key y) (insert_by key c l).
Proof.
  intros H. induction H as [|x l H IH Hx]; simpl; [constructor; constructor|].
  destruct (Nat.ltb_spec (key c) (key x)) as [Hlt|Hge].
  - constructor; [constructor; assumption|]. constructor; [lia|].
    rewrite Forall_forall in *. intros y Hy. specialize (Hx y Hy). lia.
  - constructor; [exact IH|]. rewrite Forall_forall in *. intros y Hy.
    apply (Permutation_in _ (insert_by_perm key c l)) in Hy. destruct Hy as [<-|Hy]; [exact Hge|apply Hx; exact Hy].
Qed.

Lemma sort_by_spec key l : forall acc,
  StronglySorted (fun x y => key x <= key y) acc ->
  Permutation (acc ++ l) (fold_left (fun acc c => insert_by key c acc) l acc) /\
  StronglySorted (fun x y => key x <= key y) (fold_left (fun acc c => insert_by key c acc) l acc).
Proof.
  induction l as [|c l IH]; intros acc Ha; simpl.
  - rewrite app_nil_r. split; [apply Permutation_refl|exact Ha].
  - destruct (IH (insert_by key c acc) (insert_by_sorted key c acc Ha)) as [H1 H2]. split; [|exact H2].
    eapply perm_trans; [|exact H1]. apply Permutation_sym.
    eapply perm_trans; [apply Permutation_app_tail; apply insert_by_perm|].
    simpl. apply Permutation_cons_app. apply Permutation_refl.
Qed.

Lemma DetachCycles_spec cs S : DetachCycles cs = DCOk S -> detach_spec cs S.
Proof.
  unfold DetachCycles, detach_spec. destruct (sortMap cs) as [| |sorted]; intros H; inversion H; subst.
  - reflexivity.
  - destruct (sort_by_spec (sort_key sorted) cs [] (SSorted_nil _)) as [H1 H2]. split; assumption.
Qed.

Lemma DetachCycles_total cs : exists S, DetachCycles cs = DCOk S.
Proof.
  unfold DetachCycles. pose proof (sortMap_total cs) as H.
  destruct (sortMap cs); [congruence|eexists; reflexivity|eexists; reflexivity].
Qed.

(** * Shared facts *)
Lemma refTo_ex fks t : refTo fks t = true -> exists f, In f fks /\ qn (f_ref f) = qn t.
Proof.
  unfold refTo. rewrite existsb_exists. intros [f [Hf H]]. exists f. split; [exact Hf|].
  apply same_table_qn. exact H.
Qed.

Lemma added_sub_change x f : In f (added_fks x) -> In f (change_fks x).
Proof.
  destruct x as [t fks|t fks|t tcs]; simpl; intros H; [exact H|destruct H|].
  apply in_flat_map in H. destruct H as [tc [Htc Hf]]. apply in_flat_map. exists tc. split; [exact Htc|].
  destruct tc; simpl in *; tauto.
Qed.

Lemma SS_impl_in {A} (R R' : A -> A -> Prop) l :
  (forall x y, In x l -> In y l -> R x y -> R' x y) -> StronglySorted R l -> StronglySorted R' l.
Proof.
  intros Hi H. induction H as [|a l H IH Ha]; [constructor|].
  constructor.
  - apply IH. intros x y Hx Hy. apply Hi; right; assumption.
  - rewrite Forall_forall in *. intros y Hy. apply Hi; [left; reflexivity|right; exact Hy|apply Ha; exact Hy].
Qed.

Section WithWF.
  Variable cs : list change.
  Hypothesis HWF : WF cs.

  Lemma names_inj a b : In a cs -> In b cs -> nm a = nm b -> a = b.
  Proof. apply NoDup_map_inj. apply (wf_names cs HWF). Qed.

  Lemma ptr_false x f : In x cs -> In f (change_fks x) -> qn (f_ref f) <> nm x ->
    ptr_eqb (f_ref f) (table_of x) = false.
  Proof.
    intros Hx Hf Hn. destruct (ptr_eqb (f_ref f) (table_of x)) eqn:E; [|reflexivity].
    exfalso. apply Hn. apply (wf_ptr cs HWF x f Hx Hf E).
  Qed.

  Lemma NoDup_cs : NoDup cs.
  Proof. apply NoDup_of_names. apply (wf_names cs HWF). Qed.

  Lemma add_drop_disjoint n : In n (flat_map adds cs) -> In n (flat_map drops cs) -> False.
  Proof.
    intros Ha Hd. apply in_adds_iff in Ha. destruct Ha as [t1 [f1 [H1 E1]]].
    apply in_drops_iff in Hd. destruct Hd as [t2 [f2 [H2 E2]]].
    assert (E : AddTable t1 f1 = DropTable t2 f2) by (apply names_inj; [assumption|assumption|unfold nm; simpl; congruence]).
    discriminate.
  Qed.

  (** ** No cycle: the input is sorted by the index map *)
  Section Acyclic.
    Variable c : cat.
    Variable sorted : list nat.
    Variable S : list change.
    Hypothesis Hcons : consistent c cs.
    Hypothesis Hsm : sortMap cs = SMOk sorted.
    Hypothesis Hperm : Permutation cs S.
    Hypothesis Hss : StronglySorted (kle sorted) S.

    Definition Koff : nat := Datatypes.S (length sorted).
    Definition ra (x : change) : nat := sort_key sorted x + (if is_drop x then Koff else 0).

    Lemma key_bound x : sort_key sorted x <= length sorted.
    Proof. unfold sort_key. apply (sortMap_ok_bound cs sorted _ Hsm). Qed.

    Lemma idx_lt x y : In y (deps_get x (dependencies cs)) -> sorted_idx sorted y < sorted_idx sorted x.
    Proof. apply (sortMap_ok_order cs sorted Hsm). Qed.

    Lemma inS x : In x S <-> In x cs.
    Proof.
      split; intros H; [apply (Permutation_in _ (Permutation_sym Hperm) H)|apply (Permutation_in _ Hperm H)].
    Qed.

    Lemma acyc_sorted : StronglySorted (rle ra) (partition_changes S).
    Proof.
      unfold partition_changes. apply SS_app.
      - apply SS_impl_in with (R := kle sorted); [|apply SS_filter; exact Hss].
        intros x y Hx Hy Hk. apply filter_In in Hx. apply filter_In in Hy.
        destruct Hx as [_ Hx]. destruct Hy as [_ Hy]. apply negb_true_iff in Hx. apply negb_true_iff in Hy.
        unfold rle, ra, kle in *. rewrite Hx, Hy. lia.
      - apply SS_impl_in with (R := kle sorted); [|apply SS_filter; exact Hss].
        intros x y Hx Hy Hk. apply filter_In in Hx. apply filter_In in Hy.
        destruct Hx as [_ Hx]. destruct Hy as [_ Hy].
        unfold rle, ra, kle in *. rewrite Hx, Hy. lia.
      - intros x y Hx Hy. apply filter_In in Hx. apply filter_In in Hy.
        destruct Hx as [_ Hx]. destruct Hy as [_ Hy]. apply negb_true_iff in Hx.
        unfold rle, ra. rewrite Hx, Hy. pose proof (key_bound x). unfold Koff. lia.
    Qed.

    (* a declared foreign key to another table of the change set: the parent has a smaller index *)
    Lemma decl_key_lt x f : In x cs -> In f (added_fks x) -> qn (f_ref f) <> nm x ->
      sorted_idx sorted (t_name (f_ref f)) < sort_key sorted x.
    Proof.
      intros Hx Hf Hn. pose proof (ptr_false x f Hx (added_sub_change x f Hf) Hn) as Hp.
      unfold sort_key. apply idx_lt. destruct x as [t fks|t fks|t tcs]; simpl in *.
      - apply (deps_of_add cs t fks f Hx Hf Hp).
      - destruct Hf.
      - apply (deps_of_modify cs t tcs f Hx Hf Hp).
    Qed.

    (* the index map goes by name: two tables of one name (in two schemas) share their index *)
    Lemma key_qn a b : qn a = qn b -> sorted_idx sorted (t_name a) = sorted_idx sorted (t_name b).
    Proof. intros H. rewrite (qn_name a b H). reflexivity. Qed.

    Lemma acyc_edges x y : In x cs -> In y cs -> x <> y -> dependsOn x y = true -> ra y < ra x.
    Proof.
      intros Hx Hy Hne Hd.
      assert (Hnn : nm x <> nm y) by (intros E; apply Hne; apply names_inj; assumption).
      destruct x as [t1 f1|t1 f1|t1 tcs1]; destruct y as [t2 f2|t2 f2|t2 tcs2]; simpl in Hd; try discriminate.
      - (* Add / Add *)
        apply refTo_ex in Hd. destruct Hd as [f [Hf Hr]].
        assert (Hlt := decl_key_lt (AddTable t1 f1) f Hx Hf). unfold nm in Hlt, Hnn. simpl in Hlt, Hnn.
        rewrite Hr in Hlt. specialize (Hlt (fun E => Hnn (eq_sym E))).
        rewrite (key_qn _ _ Hr) in Hlt.
        unfold ra, sort_key in *. simpl in *. lia.
      - (* Add / Drop: recreation *)
        apply same_table_qn in Hd. unfold nm in Hnn. simpl in Hnn. contradiction.
      - (* Add / Modify *)
        apply andb_true_iff in Hd. destruct Hd as [_ Hd].
        apply refTo_ex in Hd. destruct Hd as [f [Hf Hr]].
        assert (Hlt := decl_key_lt (AddTable t1 f1) f Hx Hf). unfold nm in Hlt, Hnn. simpl in Hlt, Hnn.
        rewrite Hr in Hlt. specialize (Hlt (fun E => Hnn (eq_sym E))).
        rewrite (key_qn _ _ Hr) in Hlt.
        unfold ra, sort_key in *. simpl in *. lia.
      - (* Drop / Drop *)
        apply refTo_ex in Hd. destruct Hd as [f [Hf Hr]].
        assert (Hdr : isDropped cs (f_ref f) = true).
        { apply isDropped_qn. rewrite Hr. apply in_drops_iff. exists t1, f1. split; [exact Hx|reflexivity]. }
        pose proof (deps_of_drop cs t2 f2 f Hy Hf Hdr) as Hin.
        rewrite (qn_name _ _ (wf_child cs HWF t2 f2 f Hy Hf)), (qn_name _ _ Hr) in Hin. apply idx_lt in Hin.
        unfold ra, sort_key. simpl. lia.
      - (* Drop / Modify *)
        unfold ra. simpl. pose proof (key_bound (ModifyTable t2 tcs2)). unfold Koff. lia.
      - (* Modify / Add *)
        apply orb_true_iff in Hd. destruct Hd as [Hd|Hd].
        + apply same_table_qn in Hd. unfold nm in Hnn. simpl in Hnn. contradiction.
        + apply existsb_exists in Hd. destruct Hd as [tc [Htc Hd]].
          assert (Hex : exists f, In f (tc_added tc) /\ qn (f_ref f) = qn t2).
          { destruct tc as [f| |from to|]; try discriminate; apply same_table_qn in Hd;
              eexists; (split; [left; reflexivity|exact Hd]). }
          destruct Hex as [f [Hftc Hd']]. clear Hd. rename Hd' into Hd.
          assert (Hf : In f (added_fks (ModifyTable t1 tcs1))).
          { simpl. apply in_flat_map. exists tc. split; [exact Htc|exact Hftc]. }
          assert (Hlt := decl_key_lt (ModifyTable t1 tcs1) f Hx Hf). unfold nm in Hlt, Hnn. simpl in Hlt, Hnn.
          rewrite Hd in Hlt. specialize (Hlt (fun E => Hnn (eq_sym E))).
          rewrite (key_qn _ _ Hd) in Hlt.
          unfold ra, sort_key in *. simpl in *. lia.
    Qed.

    Lemma NoDup_partition_S : NoDup (partition_changes S).
    Proof.
      apply (Permutation_NoDup (Permutation_sym (partition_perm S))).
      apply (Permutation_NoDup Hperm). exact NoDup_cs.
    Qed.

    Lemma acyc_backward : backward (partition_changes S).
    Proof.
      apply (ranked_backward ra); [exact acyc_sorted|exact NoDup_partition_S|].
      intros x y Hx Hy. apply (proj1 (partition_in S x)) in Hx. apply (proj1 (partition_in S y)) in Hy.
      apply (proj1 (inS x)) in Hx. apply (proj1 (inS y)) in Hy.
      apply acyc_edges; assumption.
    Qed.

    Lemma perm_part : Permutation cs (partition_changes S).
    Proof. eapply perm_trans; [exact Hperm|apply Permutation_sym; apply partition_perm]. Qed.

    Lemma inP x : In x (partition_changes S) <-> In x cs.
    Proof. rewrite partition_in. apply inS. Qed.

    Lemma fm_in {B} (f : change -> list B) n : In n (flat_map f (partition_changes S)) <-> In n (flat_map f cs).
    Proof.
      pose proof (Permutation_flat_map f perm_part) as Hp. split; intros H.
      - apply (Permutation_in _ (Permutation_sym Hp) H).
      - apply (Permutation_in _ Hp H).
    Qed.

    Lemma acyc_split : split_ok (partition_changes S) c.
    Proof.
      apply (ranked_split ra); try exact acyc_sorted.
      - apply (Permutation_NoDup (Permutation_flat_map adds perm_part)). apply NoDup_adds. apply (wf_names cs HWF).
      - intros n Hn. apply (proj1 (fm_in _ _)) in Hn. apply (cn_adds c cs Hcons n Hn).
      - apply (Permutation_NoDup (Permutation_flat_map drops perm_part)). apply NoDup_drops. apply (wf_names cs HWF).
      - intros n Hn. apply (proj1 (fm_in _ _)) in Hn. apply (cn_drops c cs Hcons n Hn).
      - (* declared foreign keys *)
        intros x f Hx Hf. apply (proj1 (inP _)) in Hx. split.
        + intros Hd. apply (proj1 (fm_in _ _)) in Hd. apply (wf_decl cs HWF x f Hx Hf Hd).
        + destruct (cn_parent c cs Hcons x f Hx Hf) as [H|H]; [left; exact H|right].
          apply in_adds_iff in H. destruct H as [t' [fks' [Hy Hn]]].
          destruct (Nat.eq_dec (qn (f_ref f)) (nm x)) as [E|E].
          * right. assert (Exy : AddTable t' fks' = x) by (apply names_inj; [assumption|assumption|unfold nm in *; simpl; congruence]).
            subst x. simpl. unfold nm in E. simpl in E. rewrite E. reflexivity.
          * left. left. exists (AddTable t' fks'). split; [apply inP; exact Hy|]. split; [simpl; rewrite Hn; reflexivity|].
            pose proof (decl_key_lt x f Hx Hf E) as Hlt. unfold ra, sort_key at 1. simpl. rewrite (key_qn _ _ Hn).
            destruct (is_drop x) eqn:Ed; [|lia]. destruct x; simpl in Hf; try discriminate. destruct Hf.
      - (* modified tables *)
        intros t tcs Hx. apply (proj1 (inP _)) in Hx. split.
        + intros y _ Hy. unfold ra. rewrite Hy. simpl. pose proof (key_bound (ModifyTable t tcs)). unfold Koff. lia.
        + left. apply (cn_mods c cs Hcons t tcs Hx).
      - (* dropped tables *)
        intros p fks e Hx He Hp Hne. apply (proj1 (inP _)) in Hx.
        assert (Hpd : In (snd e) (flat_map drops cs)).
        { rewrite Hp. apply in_drops_iff. exists p, fks. split; [exact Hx|reflexivity]. }
        assert (Hne' : fst (fst e) <> snd e) by (rewrite Hp; exact Hne).
        destruct (cn_live c cs Hcons e He Hpd Hne') as [y [Hy [Hny Hcov]]].
        exists y. split; [apply inP; exact Hy|].
        destruct y as [t fks0|t fks0|t tcs]; simpl in Hcov; [destruct Hcov| |].
        * destruct Hcov as [f [Hf [Hs Hr]]]. unfold nm in Hny; simpl in Hny. split; [simpl; apply Nat.eqb_eq; exact Hny|].
          assert (Hdr : isDropped cs (f_ref f) = true) by (apply isDropped_qn; rewrite Hr; exact Hpd).
          pose proof (deps_of_drop cs t fks0 f Hy Hf Hdr) as Hin.
          assert (Hrp : qn (f_ref f) = qn p) by (rewrite Hr, Hp; reflexivity).
          rewrite (qn_name _ _ (wf_child cs HWF t fks0 f Hy Hf)), (qn_name _ _ Hrp) in Hin. apply idx_lt in Hin.
          unfold ra, sort_key. simpl. lia.
        * unfold nm in Hny; simpl in Hny. split; [simpl; rewrite Hcov; rewrite (proj2 (Nat.eqb_eq _ _) Hny); reflexivity|].
          unfold ra. simpl. pose proof (key_bound (ModifyTable t tcs)). unfold Koff. lia.
      - (* explicitly dropped keys: once, and live *)
        apply (Permutation_NoDup (Permutation_flat_map rm_keys perm_part)).
        apply NoDup_keys; [apply (wf_names cs HWF)| |intros x k _; apply rm_keys_fst].
        intros x Hx. pose proof (wf_rm cs HWF x Hx) as Hw. destruct x as [t fks|t fks|t tcs]; simpl; try constructor.
        apply NoDup_map_pair. exact Hw.
      - intros k Hk. apply (proj1 (fm_in _ _)) in Hk. apply in_flat_map in Hk. destruct Hk as [x [Hx Hk]].
        pose proof (cn_rm_live c cs Hcons x Hx) as Hl. destruct x as [t fks|t fks|t tcs]; simpl in Hk; try (destruct Hk; fail).
        apply in_map_iff in Hk. destruct Hk as [s0 [<- Hs]]. apply (Hl s0 Hs).
    Qed.

    Lemma acyc_replay : exists c', replay (partition_changes S) c = Some c'.
    Proof. apply (split_replay_ok _ _ acyc_split). Qed.
  End Acyclic.
End WithWF.

(** * Cycle: detachReferences *)
Definition ext_of (t : table) (fks : list fkey) : list fkey := filter (fun f => negb (ptr_eqb (f_ref f) t)) fks.
Definition not_addfk (c : tchange) : bool := negb (is_addfk c).

(* rank of a change in a detached plan *)
Definition rc (x : change) : nat :=
  match x with
  | AddTable _ _ => 0
  | ModifyTable _ tcs => if forallb is_addfk tcs then 1 else 0
  | DropTable _ _ => 2
  end.

Inductive pimage : change -> change -> Prop :=
| pi_add t fks fks' : (forall f, In f fks' -> In f fks /\ ptr_eqb (f_ref f) t = true) ->
    pimage (AddTable t fks) (AddTable t fks')
| pi_drop t fks : ext_of t fks <> [] -> pimage (DropTable t fks) (ModifyTable t (map DropFK (ext_of t fks)))
| pi_mod t tcs : filter not_addfk tcs <> [] -> pimage (ModifyTable t tcs) (ModifyTable t (filter not_addfk tcs)).

Inductive dimage : change -> change -> Prop :=
| di_add t fks : ext_of t fks <> [] -> dimage (AddTable t fks) (ModifyTable t (map AddFK (ext_of t fks)))
| di_drop t fks fks' : (forall f, In f fks' -> In f fks /\ ptr_eqb (f_ref f) t = true) ->
    dimage (DropTable t fks) (DropTable t fks')
| di_mod t tcs : filter is_addfk tcs <> [] -> dimage (ModifyTable t tcs) (ModifyTable t (filter is_addfk tcs)).

Lemma filter_nil_all {A} (p : A -> bool) l : filter p l = [] -> forall x, In x l -> p x = false.
Proof.
  induction l as [|a l IH]; intros H x Hx; [destruct Hx|]. simpl in H.
  destruct (p a) eqn:E; [discriminate|]. destruct Hx as [<-|Hx]; [exact E|apply IH; assumption].
Qed.

Lemma det_planned_image src x : In x (det_planned src) -> pimage src x.
Proof.
  destruct src as [t fks|t fks|t tcs]; simpl.
  - destruct (filter (fun f => negb (ptr_eqb (f_ref f) t)) fks) as [|e ext] eqn:E; intros [<-|[]].
    + apply pi_add. intros f Hf. split; [exact Hf|].
      pose proof (filter_nil_all _ fks E f Hf) as H. apply negb_false_iff in H. exact H.
    + apply pi_add. intros f Hf. apply filter_In in Hf. exact Hf.
  - destruct (filter (fun f => negb (ptr_eqb (f_ref f) t)) fks) as [|e ext] eqn:E; [intros []|intros [<-|[]]].
    rewrite <- E. apply pi_drop. unfold ext_of. rewrite E. discriminate.
  - destruct (filter (fun c => negb (is_addfk c)) tcs) as [|e rest] eqn:E; [intros []|intros [<-|[]]].
    rewrite <- E. apply pi_mod. unfold not_addfk. rewrite E. discriminate.
Qed.

Lemma det_deferred_image src x : In x (det_deferred src) -> dimage src x.
Proof.
  destruct src as [t fks|t fks|t tcs]; simpl.
  - destruct (filter (fun f => negb (ptr_eqb (f_ref f) t)) fks) as [|e ext] eqn:E; [intros []|intros [<-|[]]].
    rewrite <- E. apply di_add. unfold ext_of. rewrite E. discriminate.
  - destruct (filter (fun f => negb (ptr_eqb (f_ref f) t)) fks) as [|e ext] eqn:E; intros [<-|[]].
    + apply di_drop. intros f Hf. split; [exact Hf|].
      pose proof (filter_nil_all _ fks E f Hf) as H. apply negb_false_iff in H. exact H.
    + apply di_drop. intros f [].
  - destruct (filter is_addfk tcs) as [|e rest] eqn:E; [intros []|intros [<-|[]]].
    rewrite <- E. apply di_mod. rewrite E. discriminate.
Qed.

Lemma detach_image cs x : In x (detachReferences cs) ->
  exists src, In src cs /\ (pimage src x \/ dimage src x).
Proof.
  unfold detachReferences. intros H. apply in_app_or in H. destruct H as [H|H];
    apply in_flat_map in H; destruct H as [src [Hs Hx]]; exists src; split; try exact Hs.
  - left. apply det_planned_image. exact Hx.
  - right. apply det_deferred_image. exact Hx.
Qed.

Lemma forallb_addfk_mapdrop l : l <> [] -> forallb is_addfk (map DropFK l) = false.
Proof. destruct l; [congruence|reflexivity]. Qed.

Lemma forallb_addfk_mapadd l : forallb is_addfk (map AddFK l) = true.
Proof. induction l; simpl; [reflexivity|exact IHl]. Qed.

Lemma forallb_addfk_rest tcs : filter not_addfk tcs <> [] -> forallb is_addfk (filter not_addfk tcs) = false.
Proof.
  intros H. destruct (forallb is_addfk (filter not_addfk tcs)) eqn:E; [|reflexivity]. exfalso.
  rewrite forallb_forall in E. destruct (filter not_addfk tcs) as [|a l] eqn:El; [congruence|].
  assert (Ha : In a (filter not_addfk tcs)) by (rewrite El; left; reflexivity).
  apply filter_In in Ha. destruct Ha as [_ Ha]. unfold not_addfk in Ha.
  rewrite (E a (or_introl eq_refl)) in Ha. discriminate.
Qed.

Lemma forallb_addfk_fks tcs : forallb is_addfk (filter is_addfk tcs) = true.
Proof. apply forallb_forall. intros x Hx. apply filter_In in Hx. tauto. Qed.

Lemma pimage_rank src x : pimage src x -> rc x = 0 /\ is_drop x = false /\ nm x = nm src.
Proof.
  intros H. destruct H; simpl.
  - repeat split.
  - rewrite forallb_addfk_mapdrop by assumption. repeat split.
  - rewrite forallb_addfk_rest by assumption. repeat split.
Qed.

Lemma dimage_rank src x : dimage src x ->
  ((rc x = 1 /\ is_drop x = false) \/ (rc x = 2 /\ is_drop x = true)) /\ nm x = nm src.
Proof.
  intros H. destruct H; simpl.
  - rewrite forallb_addfk_mapadd. split; [left; split; reflexivity|reflexivity].
  - split; [right; split; reflexivity|reflexivity].
  - rewrite forallb_addfk_fks. split; [left; split; reflexivity|reflexivity].
Qed.

Lemma SS_const (r : change -> nat) k l : (forall x, In x l -> r x = k) -> StronglySorted (rle r) l.
Proof.
  induction l as [|a l IH]; intros H; [constructor|]. constructor.
  - apply IH. intros x Hx. apply H. right. exact Hx.
  - apply Forall_forall. intros y Hy. unfold rle. rewrite (H a (or_introl eq_refl)), (H y (or_intror Hy)). lia.
Qed.

Lemma detach_sorted cs : StronglySorted (rle rc) (partition_changes (detachReferences cs)).
Proof.
  unfold partition_changes, detachReferences. rewrite !filter_app.
  assert (HP : forall x, In x (flat_map det_planned cs) -> rc x = 0 /\ is_drop x = false).
  { intros x Hx. apply in_flat_map in Hx. destruct Hx as [src [_ Hx]].
    destruct (pimage_rank src x (det_planned_image src x Hx)) as [H1 [H2 _]]. split; assumption. }
  assert (HD : forall x, In x (flat_map det_deferred cs) ->
             (rc x = 1 /\ is_drop x = false) \/ (rc x = 2 /\ is_drop x = true)).
  { intros x Hx. apply in_flat_map in Hx. destruct Hx as [src [_ Hx]].
    apply (proj1 (dimage_rank src x (det_deferred_image src x Hx))). }
  apply SS_app.
  - apply SS_app.
    + apply SS_const with (k := 0). intros x Hx. apply filter_In in Hx. apply HP. tauto.
    + apply SS_const with (k := 1). intros x Hx. apply filter_In in Hx. destruct Hx as [Hx Hn].
      apply negb_true_iff in Hn. destruct (HD x Hx) as [[H _]|[_ H]]; [exact H|congruence].
    + intros x y Hx Hy. apply filter_In in Hx. apply filter_In in Hy. unfold rle.
      rewrite (proj1 (HP x (proj1 Hx))). lia.
  - apply SS_const with (k := 2). intros x Hx. apply in_app_or in Hx. destruct Hx as [Hx|Hx]; apply filter_In in Hx; destruct Hx as [Hx Hd].
    + destruct (HP x Hx) as [_ H]. congruence.
    + destruct (HD x Hx) as [[_ H]|[H _]]; [congruence|exact H].
  - intros x y Hx Hy. unfold rle.
    assert (Hrx : rc x <= 1).
    { apply in_app_or in Hx. destruct Hx as [Hx|Hx]; apply filter_In in Hx; destruct Hx as [Hx Hn].
      - rewrite (proj1 (HP x Hx)). lia.
      - apply negb_true_iff in Hn. destruct (HD x Hx) as [[H _]|[_ H]]; [lia|congruence]. }
    assert (Hry : rc y = 2).
    { apply in_app_or in Hy. destruct Hy as [Hy|Hy]; apply filter_In in Hy; destruct Hy as [Hy Hd].
      - destruct (HP y Hy) as [_ H]. congruence.
      - destruct (HD y Hy) as [[_ H]|[H _]]; [congruence|exact H]. }
    lia.
Qed.

(* table-level effects are kept by detaching, in order *)
Lemma planned_adds cs : flat_map adds (flat_map det_planned cs) = flat_map adds cs.
Proof.
  induction cs as [|x cs IH]; simpl; [reflexivity|]. rewrite flat_map_app, IH. f_equal.
  destruct x as [t fks|t fks|t tcs]; simpl.
  - destruct (filter _ fks); reflexivity.
  - destruct (filter _ fks); reflexivity.
  - destruct (filter _ tcs); reflexivity.
Qed.

Lemma deferred_adds cs : flat_map adds (flat_map det_deferred cs) = [].
Proof.
  induction cs as [|x cs IH]; simpl; [reflexivity|]. rewrite flat_map_app, IH.
  destruct x as [t fks|t fks|t tcs]; simpl.
  - destruct (filter _ fks); reflexivity.
  - destruct (filter _ fks); reflexivity.
  - destruct (filter _ tcs); reflexivity.
Qed.

Lemma planned_drops cs : flat_map drops (flat_map det_planned cs) = [].
Proof.
  induction cs as [|x cs IH]; simpl; [reflexivity|]. rewrite flat_map_app, IH.
  destruct x as [t fks|t fks|t tcs]; simpl.
  - destruct (filter _ fks); reflexivity.
  - destruct (filter _ fks); reflexivity.
  - destruct (filter _ tcs); reflexivity.
Qed.

Lemma deferred_drops cs : flat_map drops (flat_map det_deferred cs) = flat_map drops cs.
Proof.
  induction cs as [|x cs IH]; simpl; [reflexivity|]. rewrite flat_map_app, IH. f_equal.
  destruct x as [t fks|t fks|t tcs]; simpl.
  - destruct (filter _ fks); reflexivity.
  - destruct (filter _ fks); reflexivity.
  - destruct (filter _ tcs); reflexivity.
Qed.

Lemma detach_adds cs : flat_map adds (detachReferences cs) = flat_map adds cs.
Proof.
  unfold detachReferences. rewrite flat_map_app, planned_adds, deferred_adds, app_nil_r. reflexivity.
Qed.

Lemma detach_drops cs : flat_map drops (detachReferences cs) = flat_map drops cs.
Proof.
  unfold detachReferences. rewrite flat_map_app, planned_drops, deferred_drops. reflexivity.
Qed.

Lemma names_flat_map (h : change -> list change) cs :
  (forall x y, In y (h x) -> nm y = nm x) -> (forall x, length (h x) <= 1) ->
  NoDup (map nm cs) -> NoDup (map nm (flat_map h cs)) /\ incl (map nm (flat_map h cs)) (map nm cs).
Proof.
  intros Hn Hl. induction cs as [|x cs IH]; simpl; intros Hd; [split; [constructor|intros a []]|].
  inversion Hd as [|? ? Hx Hd']; subst. destruct (IH Hd') as [IH1 IH2].
  rewrite map_app. split.
  - apply NoDup_app_intro; [|exact IH1|].
    + specialize (Hl x). destruct (h x) as [|a [|b l]]; simpl in *; [constructor|constructor; [intros []|constructor]|lia].
    + intros n H1 H2. apply in_map_iff in H1. destruct H1 as [y [<- Hy]]. rewrite (Hn x y Hy) in H2.
      apply Hx. apply IH2. exact H2.
  - intros n H. apply in_app_or in H. destruct H as [H|H].
    + apply in_map_iff in H. destruct H as [y [<- Hy]]. left. symmetry. apply Hn. exact Hy.
    + right. apply IH2. exact H.
Qed.

Lemma det_planned_len x : length (det_planned x) <= 1.
Proof.
  destruct x as [t fks|t fks|t tcs]; simpl.
  - destruct (filter _ fks); simpl; lia.
  - destruct (filter _ fks); simpl; lia.
  - destruct (filter _ tcs); simpl; lia.
Qed.

Lemma det_deferred_len x : length (det_deferred x) <= 1.
Proof.
  destruct x as [t fks|t fks|t tcs]; simpl.
  - destruct (filter _ fks); simpl; lia.
  - destruct (filter _ fks); simpl; lia.
  - destruct (filter _ tcs); simpl; lia.
Qed.

Lemma ex_planned_add cs t fks : In (AddTable t fks) cs -> exists fks', In (AddTable t fks') (detachReferences cs).
Proof.
  intros H. unfold detachReferences.
  assert (E : exists fks', In (AddTable t fks') (det_planned (AddTable t fks))).
  { simpl. destruct (filter _ fks); eexists; left; reflexivity. }
  destruct E as [fks' E]. exists fks'. apply in_or_app. left. apply in_flat_map. eexists; split; [exact H|exact E].
Qed.

Lemma ex_planned_dropfk cs t fks f :
  In (DropTable t fks) cs -> In f fks -> ptr_eqb (f_ref f) t = false ->
  In (ModifyTable t (map DropFK (ext_of t fks))) (detachReferences cs) /\ In f (ext_of t fks).
Proof.
  intros H Hf Hp.
  assert (Hin : In f (ext_of t fks)) by (apply filter_In; split; [exact Hf|rewrite Hp; reflexivity]).
  split; [|exact Hin]. unfold detachReferences. apply in_or_app. left. apply in_flat_map.
  exists (DropTable t fks). split; [exact H|]. simpl. unfold ext_of in *.
  destruct (filter (fun f0 => negb (ptr_eqb (f_ref f0) t)) fks); [destruct Hin|left; reflexivity].
Qed.

Lemma ex_planned_rest cs t tcs tc :
  In (ModifyTable t tcs) cs -> In tc tcs -> is_addfk tc = false ->
  In (ModifyTable t (filter not_addfk tcs)) (detachReferences cs) /\ In tc (filter not_addfk tcs).
Proof.
  intros H Htc Hp.
  assert (Hin : In tc (filter not_addfk tcs)) by (apply filter_In; split; [exact Htc|unfold not_addfk; rewrite Hp; reflexivity]).
  split; [|exact Hin]. unfold detachReferences. apply in_or_app. left. apply in_flat_map.
  exists (ModifyTable t tcs). split; [exact H|]. simpl. unfold not_addfk in *.
  destruct (filter (fun c => negb (is_addfk c)) tcs); [destruct Hin|left; reflexivity].
Qed.

Lemma adds_unique l t1 f1 t2 f2 :
  NoDup (flat_map adds l) -> In (AddTable t1 f1) l -> In (AddTable t2 f2) l -> qn t1 = qn t2 ->
  AddTable t1 f1 = AddTable t2 f2.
Proof.
  induction l as [|x l IH]; intros Hn H1 H2 He; [destruct H1|].
  simpl in Hn. destruct H1 as [->|H1]; destruct H2 as [E2|H2].
  - exact E2.
  - exfalso. simpl in Hn. inversion Hn as [|? ? Hnot Hrest]; subst. apply Hnot. apply in_adds_iff. exists t2, f2. split; [exact H2|congruence].
  - exfalso. subst x. simpl in Hn. inversion Hn as [|? ? Hnot Hrest]; subst. apply Hnot. apply in_adds_iff. exists t1, f1. split; [exact H1|congruence].
  - apply IH; try assumption. apply NoDup_app_r in Hn. exact Hn.
Qed.

Lemma drops_unique l t1 f1 t2 f2 :
  NoDup (flat_map drops l) -> In (DropTable t1 f1) l -> In (DropTable t2 f2) l -> qn t1 = qn t2 ->
  DropTable t1 f1 = DropTable t2 f2.
Proof.
  induction l as [|x l IH]; intros Hn H1 H2 He; [destruct H1|].
  simpl in Hn. destruct H1 as [->|H1]; destruct H2 as [E2|H2].
  - exact E2.
  - exfalso. simpl in Hn. inversion Hn as [|? ? Hnot Hrest]; subst. apply Hnot. apply in_drops_iff. exists t2, f2. split; [exact H2|congruence].
  - exfalso. subst x. simpl in Hn. inversion Hn as [|? ? Hnot Hrest]; subst. apply Hnot. apply in_drops_iff. exists t1, f1. split; [exact H1|congruence].
  - apply IH; try assumption. apply NoDup_app_r in Hn. exact Hn.
Qed.

(* a ModifyTable that declares a key to a table depends on the creation of that table *)
Lemma modify_depends_on_add t tcs f t2 fks2 :
  In f (flat_map tc_added tcs) -> qn (f_ref f) = qn t2 ->
  dependsOn (ModifyTable t tcs) (AddTable t2 fks2) = true.
Proof.
  intros Hf Hn. simpl. apply orb_true_iff. right. apply existsb_exists.
  apply in_flat_map in Hf. destruct Hf as [tc [Htc Hf]]. exists tc. split; [exact Htc|].
  destruct tc as [g|g|from to|k]; simpl in Hf; try (destruct Hf; fail); destruct Hf as [<-|[]];
    apply same_table_qn; exact Hn.
Qed.

(* rank witnessing that dependsOn is acyclic on a detached plan *)
Definition rho_c (x : change) : nat :=
  match x with AddTable _ _ => 0 | ModifyTable _ _ => 1 | DropTable _ _ => 2 end.

(* the keys the detached plan drops explicitly, per source change *)
Definition pkeys (src : change) : list (nat * nat) :=
  match src with
  | AddTable _ _ => []
  | DropTable t fks => map (pair (qn t)) (map f_sym (ext_of t fks))
  | ModifyTable t tcs => map (pair (qn t)) (flat_map tc_rm tcs)
  end.

Lemma tc_rm_mapdrop l : flat_map tc_rm (map DropFK l) = map f_sym l.
Proof. induction l as [|a l IH]; simpl; [reflexivity|]. rewrite IH. reflexivity. Qed.

Lemma tc_rm_addfks l : (forall tc, In tc l -> is_addfk tc = true) -> flat_map tc_rm l = [].
Proof.
  induction l as [|a l IH]; simpl; intros H; [reflexivity|].
  rewrite IH by (intros tc Htc; apply H; right; exact Htc).
  pose proof (H a (or_introl eq_refl)) as Ha. destruct a; try discriminate. reflexivity.
Qed.

Lemma tc_rm_rest tcs : flat_map tc_rm (filter not_addfk tcs) = flat_map tc_rm tcs.
Proof.
  induction tcs as [|a l IH]; simpl; [reflexivity|].
  destruct a; simpl; rewrite IH; reflexivity.
Qed.

Lemma rm_keys_planned src : flat_map rm_keys (det_planned src) = pkeys src.
Proof.
  destruct src as [t fks|t fks|t tcs]; simpl.
  - destruct (filter _ fks); reflexivity.
  - unfold ext_of. destruct (filter (fun f => negb (ptr_eqb (f_ref f) t)) fks) as [|e ext] eqn:E; [reflexivity|].
    change (flat_map rm_keys [ModifyTable t (map DropFK (e :: ext))])
      with (map (pair (qn t)) (flat_map tc_rm (map DropFK (e :: ext))) ++ []).
    rewrite app_nil_r. rewrite (tc_rm_mapdrop (e :: ext)). reflexivity.
  - pose proof (tc_rm_rest tcs) as Hr. unfold not_addfk in Hr.
    destruct (filter (fun c => negb (is_addfk c)) tcs) as [|e rest] eqn:E.
    + simpl in Hr. rewrite <- Hr. reflexivity.
    + rewrite <- Hr.
      change (flat_map rm_keys [ModifyTable t (e :: rest)])
        with (map (pair (qn t)) (flat_map tc_rm (e :: rest)) ++ []).
      rewrite app_nil_r. reflexivity.
Qed.

Lemma rm_keys_deferred src : flat_map rm_keys (det_deferred src) = [].
Proof.
  destruct src as [t fks|t fks|t tcs]; simpl.
  - destruct (filter (fun f => negb (ptr_eqb (f_ref f) t)) fks) as [|e ext] eqn:E; [reflexivity|].
    assert (Hz : flat_map tc_rm (map AddFK (e :: ext)) = []).
    { apply tc_rm_addfks. intros tc Htc. apply in_map_iff in Htc. destruct Htc as [g [<- _]]. reflexivity. }
    change (flat_map rm_keys [ModifyTable t (map AddFK (e :: ext))])
      with (map (pair (qn t)) (flat_map tc_rm (map AddFK (e :: ext))) ++ []).
    rewrite Hz. reflexivity.
  - destruct (filter _ fks); reflexivity.
  - destruct (filter is_addfk tcs) as [|e rest] eqn:E; [reflexivity|].
    assert (Hz : flat_map tc_rm (e :: rest) = []).
    { rewrite <- E. apply tc_rm_addfks. intros tc Htc. apply filter_In in Htc. tauto. }
    change (flat_map rm_keys [ModifyTable t (e :: rest)])
      with (map (pair (qn t)) (flat_map tc_rm (e :: rest)) ++ []).
    rewrite Hz. reflexivity.
Qed.

Lemma detach_rm_keys cs : flat_map rm_keys (detachReferences cs) = flat_map pkeys cs.
Proof.
  unfold detachReferences. rewrite flat_map_app.
  assert (H1 : forall l, flat_map rm_keys (flat_map det_planned l) = flat_map pkeys l).
  { induction l as [|x l IH]; simpl; [reflexivity|]. rewrite flat_map_app, rm_keys_planned, IH. reflexivity. }
  assert (H2 : forall l, flat_map rm_keys (flat_map det_deferred l) = []).
  { induction l as [|x l IH]; simpl; [reflexivity|]. rewrite flat_map_app, rm_keys_deferred, IH. reflexivity. }
  rewrite H1, H2, app_nil_r. reflexivity.
Qed.

Section Cyclic.
  Variable cs : list change.
  Variable c : cat.
  Hypothesis HWF : WF cs.
  Hypothesis Hcons : consistent c cs.

  Let L := detachReferences cs.

  Lemma cyc_NoDup : NoDup L.
  Proof.
    unfold L, detachReferences.
    destruct (names_flat_map det_planned cs) as [HP _];
      [intros x y Hy; apply (pimage_rank x y (det_planned_image x y Hy))|apply det_planned_len|apply (wf_names cs HWF)|].
    destruct (names_flat_map det_deferred cs) as [HD _];
      [intros x y Hy; apply (dimage_rank x y (det_deferred_image x y Hy))|apply det_deferred_len|apply (wf_names cs HWF)|].
    apply NoDup_app_intro; [apply NoDup_of_names; exact HP|apply NoDup_of_names; exact HD|].
    intros x H1 H2. apply in_flat_map in H1. destruct H1 as [s1 [_ H1]]. apply in_flat_map in H2. destruct H2 as [s2 [_ H2]].
    destruct (pimage_rank s1 x (det_planned_image s1 x H1)) as [R1 _].
    destruct (dimage_rank s2 x (det_deferred_image s2 x H2)) as [[[R2 _]|[R2 _]] _]; lia.
  Qed.

  Lemma cyc_adds_nodup : NoDup (flat_map adds L).
  Proof. unfold L. rewrite detach_adds. apply NoDup_adds. apply (wf_names cs HWF). Qed.

  Lemma cyc_drops_nodup : NoDup (flat_map drops L).
  Proof. unfold L. rewrite detach_drops. apply NoDup_drops. apply (wf_names cs HWF). Qed.

  (* the kept foreign keys of a created / dropped table reference that table by name *)
  Lemma self_name src t fks f : In src cs -> table_of src = t -> change_fks src = fks ->
    In f fks -> ptr_eqb (f_ref f) t = true -> qn (f_ref f) = qn t.
  Proof.
    intros Hs <- <- Hf Hp. apply (wf_ptr cs HWF src f Hs Hf Hp).
  Qed.

  (* on a detached plan dependsOn only goes ModifyTable -> AddTable and DropTable -> ModifyTable *)
  Lemma cyc_edges x y : In x L -> In y L -> x <> y -> dependsOn x y = true -> rho_c y < rho_c x.
  Proof.
    intros Hx Hy Hne Hd.
    destruct (detach_image cs x Hx) as [sx [Hsx Ix]]. destruct (detach_image cs y Hy) as [sy [Hsy Iy]].
    assert (Hsame : nm x = nm y -> sx = sy).
    { intros E. apply (names_inj cs HWF); [assumption|assumption|].
      destruct Ix as [Ix|Ix]; [apply pimage_rank in Ix|apply dimage_rank in Ix];
      destruct Iy as [Iy|Iy]; [apply pimage_rank in Iy|apply dimage_rank in Iy| apply pimage_rank in Iy|apply dimage_rank in Iy];
      intuition congruence. }
    destruct x as [t1 f1|t1 f1|t1 tcs1]; destruct y as [t2 f2|t2 f2|t2 tcs2]; simpl in Hd; try discriminate; simpl; try lia.
    - (* Add / Add: the kept keys are self references *)
      exfalso. apply refTo_ex in Hd. destruct Hd as [f [Hf Hr]].
      assert (Hself : qn (f_ref f) = qn t1).
      { destruct Ix as [Ix|Ix]; inversion Ix; subst. destruct (H1 f Hf) as [Hin Hp].
        apply (self_name (AddTable t1 fks) t1 fks f Hsx eq_refl eq_refl Hin Hp). }
      apply Hne. apply (adds_unique L); [exact cyc_adds_nodup|exact Hx|exact Hy|congruence].
    - (* Add / Drop *)
      exfalso. apply same_table_qn in Hd. specialize (Hsame Hd).
      destruct Ix as [Ix|Ix]; inversion Ix; subst; destruct Iy as [Iy|Iy]; inversion Iy.
    - (* Add / Modify *)
      exfalso. apply andb_true_iff in Hd. destruct Hd as [Hn Hd]. apply negb_true_iff in Hn.
      assert (Hn' : qn t1 <> qn t2) by (intros E; apply same_table_qn in E; congruence). clear Hn. rename Hn' into Hn.
      apply refTo_ex in Hd. destruct Hd as [f [Hf Hr]].
      destruct Ix as [Ix|Ix]; inversion Ix; subst. destruct (H1 f Hf) as [Hin Hp].
      pose proof (self_name (AddTable t1 fks) t1 fks f Hsx eq_refl eq_refl Hin Hp). congruence.
    - (* Drop / Drop *)
      exfalso. apply refTo_ex in Hd. destruct Hd as [f [Hf Hr]].
      assert (Hself : qn (f_ref f) = qn t2).
      { destruct Iy as [Iy|Iy]; inversion Iy; subst. destruct (H1 f Hf) as [Hin Hp].
        apply (self_name (DropTable t2 fks) t2 fks f Hsy eq_refl eq_refl Hin Hp). }
      apply Hne. apply (drops_unique L); [exact cyc_drops_nodup|exact Hx|exact Hy|congruence].
  Qed.

  (* no created or modified table waits for a drop *)
  Lemma cyc_closed x y : In x L -> In y L -> is_drop x = false -> x <> y -> dependsOn x y = true -> is_drop y = false.
  Proof.
    intros Hx Hy Hdx Hne Hd. pose proof (cyc_edges x y Hx Hy Hne Hd) as Hr.
    destruct x; destruct y; simpl in *; try reflexivity; try discriminate; lia.
  Qed.

  Lemma pimage_added src x f : pimage src x -> In f (added_fks x) -> In f (added_fks src).
  Proof.
    intros H Hf. destruct H; simpl in *.
    - apply H. exact Hf.
    - exfalso. apply in_flat_map in Hf. destruct Hf as [tc [Htc Hf]]. apply in_map_iff in Htc.
      destruct Htc as [g [<- _]]. destruct Hf.
    - apply in_flat_map in Hf. destruct Hf as [tc [Htc Hf]]. apply filter_In in Htc.
      apply in_flat_map. exists tc. split; [tauto|exact Hf].
  Qed.

  Lemma dimage_added src x f : dimage src x -> In f (added_fks x) -> In f (added_fks src).
  Proof.
    intros H Hf. destruct H; simpl in *.
    - apply in_flat_map in Hf. destruct Hf as [tc [Htc Hf]]. apply in_map_iff in Htc.
      destruct Htc as [g [<- Hg]]. destruct Hf as [<-|[]]. apply filter_In in Hg. tauto.
    - destruct Hf.
    - apply in_flat_map in Hf. destruct Hf as [tc [Htc Hf]]. apply filter_In in Htc.
      apply in_flat_map. exists tc. split; [tauto|exact Hf].
  Qed.

  (** what SortChanges returns on the detached list meets every obligation *)
  Section Out.
    Variable out : list change.
    Hypothesis Hperm : Permutation (partition_changes L) out.
    Hypothesis Hdeps : forall pre x post y, out = pre ++ x :: post -> In y (partition_changes L) -> y <> x ->
      dependsOn x y = true -> In y pre.
    Hypothesis Hbehind : forall pre x post y, out = pre ++ x :: post -> is_drop x = false -> In y pre -> is_drop y = false.

    Lemma outL x : In x out <-> In x L.
    Proof.
      rewrite <- (partition_in L x). split; intros H.
      - apply (Permutation_in _ (Permutation_sym Hperm) H).
      - apply (Permutation_in _ Hperm H).
    Qed.

    Lemma fmO {B} (f : change -> list B) : Permutation (flat_map f L) (flat_map f out).
    Proof.
      eapply perm_trans; [apply Permutation_flat_map; apply Permutation_sym; apply partition_perm|].
      apply Permutation_flat_map. exact Hperm.
    Qed.

    (* the creation of a table of the change set stands before any ModifyTable that declares a key to it *)
    Lemma created_before pre t tcs post f :
      out = pre ++ ModifyTable t tcs :: post -> In f (flat_map tc_added tcs) ->
      In (qn (f_ref f)) (flat_map adds cs) -> In (qn (f_ref f)) (flat_map adds pre).
    Proof.
      intros Eo Hf Ha. apply in_adds_iff in Ha. destruct Ha as [t2 [fks2 [Hin Hn]]].
      destruct (ex_planned_add cs t2 fks2 Hin) as [fks' Hy].
      assert (HyP : In (AddTable t2 fks') (partition_changes L)) by (apply partition_in; exact Hy).
      pose proof (Hdeps pre _ post (AddTable t2 fks') Eo HyP ltac:(discriminate)
                   (modify_depends_on_add t tcs f t2 fks' Hf (eq_sym Hn))) as Hpre.
      apply in_adds_iff. exists t2, fks'. split; [exact Hpre|exact Hn].
    Qed.

    Lemma cyc_out_split : split_ok out c.
    Proof.
      constructor.
      - apply (Permutation_NoDup (fmO adds)). exact cyc_adds_nodup.
      - intros n Hn. apply (Permutation_in _ (Permutation_sym (fmO adds))) in Hn. unfold L in Hn.
        rewrite detach_adds in Hn. apply (cn_adds c cs Hcons n Hn).
      - apply (Permutation_NoDup (fmO drops)). exact cyc_drops_nodup.
      - intros n Hn. apply (Permutation_in _ (Permutation_sym (fmO drops))) in Hn. unfold L in Hn.
        rewrite detach_drops in Hn. apply (cn_drops c cs Hcons n Hn).
      - (* no declared key points at a dropped table *)
        intros x f Hx Hf Hd. apply (proj1 (outL x)) in Hx.
        apply (Permutation_in _ (Permutation_sym (fmO drops))) in Hd. unfold L in Hd. rewrite detach_drops in Hd.
        destruct (detach_image cs x Hx) as [src [Hsrc Im]].
        assert (Hfs : In f (added_fks src)).
        { destruct Im as [Im|Im]; [apply (pimage_added src x f Im Hf)|apply (dimage_added src x f Im Hf)]. }
        apply (wf_decl cs HWF src f Hsrc Hfs Hd).
      - (* declared keys *)
        intros pre x post f Eo Hf.
        assert (Hx : In x L) by (apply outL; rewrite Eo; apply in_or_app; right; left; reflexivity).
        destruct (detach_image cs x Hx) as [src [Hsrc Im]].
        assert (Hfs : In f (added_fks src)).
        { destruct Im as [Im|Im]; [apply (pimage_added src x f Im Hf)|apply (dimage_added src x f Im Hf)]. }
        destruct (cn_parent c cs Hcons src f Hsrc Hfs) as [H|H]; [left; exact H|right].
        destruct x as [t fks|t fks|t tcs].
        + (* created table: the kept keys are self references *)
          right. destruct Im as [Im|Im]; inversion Im; subst.
          match goal with Hall : forall g, In g fks -> _ |- _ => destruct (Hall f Hf) as [Hin Hp] end. simpl.
          match goal with Hs : In (AddTable t ?fks0) cs |- _ =>
            rewrite (self_name (AddTable t fks0) t fks0 f Hs eq_refl eq_refl Hin Hp) end. reflexivity.
        + destruct Hf.
        + left. apply (created_before pre t tcs post f Eo Hf H).
      - (* modified tables *)
        intros pre t tcs post Eo. split.
        + intros Hin. apply in_drops_iff in Hin. destruct Hin as [t' [fks' [Hin _]]].
          pose proof (Hbehind pre _ post _ Eo eq_refl Hin) as Hd. discriminate.
        + assert (Hx : In (ModifyTable t tcs) L) by (apply outL; rewrite Eo; apply in_or_app; right; left; reflexivity).
          destruct (detach_image cs _ Hx) as [src [Hsrc Im]].
          pose proof (conj Eo I) as EoP. clear Eo.
          destruct Im as [Im|Im]; inversion Im; subst; destruct EoP as [Eo _].
          * left. apply (cn_drops c cs Hcons). apply in_drops_iff. exists t, fks. split; [exact Hsrc|reflexivity].
          * left. apply (cn_mods c cs Hcons t tcs0 Hsrc).
          * (* the deferred ADD FOREIGN KEY of a created table depends on its creation *)
            right. destruct (ex_planned_add cs t fks Hsrc) as [fks' Hy].
            assert (HyP : In (AddTable t fks') (partition_changes L)) by (apply partition_in; exact Hy).
            assert (Hdep : dependsOn (ModifyTable t (map AddFK (ext_of t fks))) (AddTable t fks') = true).
            { unfold dependsOn, same_table. rewrite !Nat.eqb_refl. reflexivity. }
            pose proof (Hdeps pre _ post (AddTable t fks') Eo HyP ltac:(discriminate) Hdep) as Hpre.
            apply in_adds_iff. exists t, fks'. split; [exact Hpre|reflexivity].
          * left. apply (cn_mods c cs Hcons t tcs0 Hsrc).
      - (* dropped tables: the change that removes a live incoming key is no drop, hence stands before *)
        intros pre p fks post e Eo He Hp Hne.
        assert (Hx : In (DropTable p fks) L) by (apply outL; rewrite Eo; apply in_or_app; right; left; reflexivity).
        assert (Hpd : In (snd e) (flat_map drops cs)).
        { rewrite Hp. rewrite <- detach_drops. apply in_drops_iff. exists p, fks. split; [exact Hx|reflexivity]. }
        assert (Hne' : fst (fst e) <> snd e) by (rewrite Hp; exact Hne).
        destruct (cn_live c cs Hcons e He Hpd Hne') as [y [Hy [Hny Hcov]]].
        assert (Hrem : exists z, In z L /\ is_drop z = false /\ removes (fst (fst e)) (snd (fst e)) z = true).
        { destruct y as [t fks0|t fks0|t tcs]; simpl in Hcov; [destruct Hcov| |]; unfold nm in Hny; simpl in Hny.
          - destruct Hcov as [f [Hf [Hs Hr]]].
            assert (Hpf : ptr_eqb (f_ref f) t = false).
            { apply (ptr_false cs HWF (DropTable t fks0) f Hy Hf). unfold nm. simpl. congruence. }
            destruct (ex_planned_dropfk cs t fks0 f Hy Hf Hpf) as [Hin Hfe].
            exists (ModifyTable t (map DropFK (ext_of t fks0))). split; [exact Hin|]. split; [reflexivity|].
            simpl. rewrite (proj2 (Nat.eqb_eq _ _) Hny). simpl. apply existsb_exists. exists (DropFK f).
            split; [apply in_map; exact Hfe|simpl; apply Nat.eqb_eq; exact Hs].
          - apply existsb_exists in Hcov. destruct Hcov as [tc [Htc Hrm]].
            assert (Hna : is_addfk tc = false) by (destruct tc; simpl in *; congruence).
            destruct (ex_planned_rest cs t tcs tc Hy Htc Hna) as [Hin Hfe].
            exists (ModifyTable t (filter not_addfk tcs)). split; [exact Hin|]. split; [reflexivity|].
            simpl. rewrite (proj2 (Nat.eqb_eq _ _) Hny). simpl. apply existsb_exists. exists tc. split; assumption. }
        destruct Hrem as [z [Hz [Hzd Hzr]]]. exists z. split; [|exact Hzr].
        apply outL in Hz. rewrite Eo in Hz. apply in_app_or in Hz. destruct Hz as [Hz|[Hz|Hz]]; [exact Hz| |].
        + subst z. discriminate.
        + exfalso. destruct (in_split _ _ Hz) as [q1 [q2 Eq]].
          assert (Eo' : out = (pre ++ DropTable p fks :: q1) ++ z :: q2) by (rewrite Eo, Eq, <- app_assoc; reflexivity).
          assert (Hdd : is_drop (DropTable p fks) = false).
          { apply (Hbehind _ z q2 _ Eo' Hzd). apply in_or_app. right. left. reflexivity. }
          discriminate.
      - (* explicitly dropped keys: once *)
        apply (Permutation_NoDup (fmO rm_keys)). unfold L. rewrite detach_rm_keys.
        apply NoDup_keys; [apply (wf_names cs HWF)| |].
        + intros x Hx. pose proof (wf_rm cs HWF x Hx) as Hw. destruct x as [t fks|t fks|t tcs]; simpl; try constructor.
          * apply NoDup_map_pair. unfold ext_of. apply NoDup_map_filter. exact Hw.
          * apply NoDup_map_pair. exact Hw.
        + intros x k _ Hk. destruct x as [t fks|t fks|t tcs]; simpl in Hk; try (destruct Hk; fail);
            apply in_map_iff in Hk; destruct Hk as [s0 [<- _]]; reflexivity.
      - (* ... and live *)
        intros k Hk. apply (Permutation_in _ (Permutation_sym (fmO rm_keys))) in Hk. unfold L in Hk.
        rewrite detach_rm_keys in Hk. apply in_flat_map in Hk. destruct Hk as [x [Hx Hk]].
        pose proof (cn_rm_live c cs Hcons x Hx) as Hl. destruct x as [t fks|t fks|t tcs]; simpl in Hk; try (destruct Hk; fail).
        + apply in_map_iff in Hk. destruct Hk as [s0 [<- Hs]]. apply in_map_iff in Hs. destruct Hs as [f [<- Hf]].
          apply filter_In in Hf. apply (Hl f (proj1 Hf)).
        + apply in_map_iff in Hk. destruct Hk as [s0 [<- Hs]]. apply (Hl s0 Hs).
    Qed.
  End Out.

  (* SortChanges on the detached list *)
  Lemma cyc_sorted_out :
    exists out, SortChanges L = Some out /\ Permutation L out /\ split_ok out c.
  Proof.
    destruct (SortChanges_ranked rho_c L) as [out [Hs [Hp [Hd Hb]]]].
    - apply (Permutation_NoDup (Permutation_sym (partition_perm L))). exact cyc_NoDup.
    - intros x y Hx Hy. apply (proj1 (partition_in L x)) in Hx. apply (proj1 (partition_in L y)) in Hy.
      apply cyc_edges; assumption.
    - exists out. split; [exact Hs|]. split.
      + eapply perm_trans; [apply Permutation_sym; apply partition_perm|exact Hp].
      + apply (cyc_out_split out Hp Hd). apply Hb.
        intros x y Hx Hy. apply (proj1 (partition_in L x)) in Hx. apply (proj1 (partition_in L y)) in Hy.
        apply cyc_closed; assumption.
  Qed.
End Cyclic.

(** * The three statements *)

(** totality: for every change list (any graph), neither search runs out of fuel *)
Theorem sort_total cs S : detach_spec cs S -> exists l, SortChanges S = Some l /\ Permutation S l.
Proof.
  intros _. destruct (SortChanges_perm S) as [out [H1 H2]]. exists out. split; [exact H1|].
  eapply perm_trans; [apply Permutation_sym; apply partition_perm|exact H2].
Qed.

Theorem plan_total cs : exists l, plan cs = POk l.
Proof.
  unfold plan. destruct (DetachCycles_total cs) as [S HS]. rewrite HS.
  destruct (SortChanges_perm S) as [out [H1 _]]. rewrite H1. eexists; reflexivity.
Qed.

(** once: the plan is a permutation of the detached input; detaching keeps the table-level effects *)
Lemma detach_spec_effects cs S : detach_spec cs S ->
  Permutation (flat_map adds cs) (flat_map adds S) /\ Permutation (flat_map drops cs) (flat_map drops S).
Proof.
  unfold detach_spec. destruct (sortMap cs) as [| |sorted]; intros H; [destruct H| |].
  - subst S. rewrite detach_adds, detach_drops. split; apply Permutation_refl.
  - destruct H as [Hp _]. split; apply Permutation_flat_map; exact Hp.
Qed.

Theorem plan_once cs l : plan cs = POk l ->
  exists d, DetachCycles cs = DCOk d /\ Permutation d l /\
    Permutation (flat_map adds cs) (flat_map adds l) /\ Permutation (flat_map drops cs) (flat_map drops l).
Proof.
  unfold plan. destruct (DetachCycles cs) as [|d] eqn:Ed; [discriminate|].
  destruct (SortChanges_perm d) as [out [H1 H2]]. rewrite H1. intros H. inversion H; subst out.
  assert (Hp : Permutation d l) by (eapply perm_trans; [apply Permutation_sym; apply partition_perm|exact H2]).
  exists d. split; [reflexivity|]. split; [exact Hp|].
  destruct (detach_spec_effects cs d (DetachCycles_spec cs d Ed)) as [Ha Hd]. split.
  - eapply perm_trans; [exact Ha|apply Permutation_flat_map; exact Hp].
  - eapply perm_trans; [exact Hd|apply Permutation_flat_map; exact Hp].
Qed.

Corollary plan_once_wf cs l : WF cs -> plan cs = POk l ->
  NoDup (flat_map adds l) /\ NoDup (flat_map drops l) /\
  (forall n, In n (flat_map adds l) <-> In n (flat_map adds cs)) /\
  (forall n, In n (flat_map drops l) <-> In n (flat_map drops cs)).
Proof.
  intros HWF H. destruct (plan_once cs l H) as [d [_ [_ [Ha Hd]]]].
  split; [apply (Permutation_NoDup Ha); apply NoDup_adds; apply (wf_names cs HWF)|].
  split; [apply (Permutation_NoDup Hd); apply NoDup_drops; apply (wf_names cs HWF)|].
  split; intros n; split; intros Hn.
  - apply (Permutation_in _ (Permutation_sym Ha) Hn).
  - apply (Permutation_in _ Ha Hn).
  - apply (Permutation_in _ (Permutation_sym Hd) Hn).
  - apply (Permutation_in _ Hd Hn).
Qed.

(** safe: for every list SortChanges may receive from DetachCycles (any tie-break of sort.Slice) *)
Theorem safe_split cs c S :
  WF cs -> consistent c cs -> detach_spec cs S ->
  exists out, SortChanges S = Some out /\ Permutation S out /\ split_ok out c.
Proof.
  intros HWF Hcons. unfold detach_spec. destruct (sortMap cs) as [| |sorted] eqn:Esm; intros HS; [destruct HS| |].
  - subst S. apply (cyc_sorted_out cs c HWF Hcons).
  - destruct HS as [Hp Hs]. exists (partition_changes S). split; [|split].
    + apply SortChanges_backward. apply (acyc_backward cs HWF sorted S Esm Hp Hs).
    + apply Permutation_sym. apply partition_perm.
    + apply (acyc_split cs HWF c sorted S Hcons Esm Hp Hs).
Qed.

Theorem safe_any_tiebreak cs c S :
  WF cs -> consistent c cs -> detach_spec cs S ->
  exists out c', SortChanges S = Some out /\ replay out c = Some c'.
Proof.
  intros HWF Hcons HS. destruct (safe_split cs c S HWF Hcons HS) as [out [H1 [_ H2]]].
  destruct (split_replay_ok _ _ H2) as [c' Hc]. exists out, c'. split; assumption.
Qed.

Theorem plan_safe cs c :
  WF cs -> consistent c cs -> exists l c', plan cs = POk l /\ replay l c = Some c'.
Proof.
  intros HWF Hcons. destruct (DetachCycles_total cs) as [S HS].
  destruct (safe_any_tiebreak cs c S HWF Hcons (DetachCycles_spec cs S HS)) as [out [c' [H1 H2]]].
  exists out, c'. split; [|exact H2]. unfold plan. rewrite HS, H1. reflexivity.
Qed.

(* without a cycle SortChanges only moves the drops behind the other changes *)
Theorem acyclic_sort_is_partition cs S sorted :
  WF cs -> sortMap cs = SMOk sorted -> detach_spec cs S -> SortChanges S = Some (partition_changes S).
Proof.
  intros HWF Esm HS. unfold detach_spec in HS. rewrite Esm in HS. destruct HS as [Hp Hs].
  apply SortChanges_backward. apply (acyc_backward cs HWF sorted S Esm Hp Hs).
Qed.

(** * Detaching loses no declared foreign key *)
(* (child, symbol, parent) of every foreign key a change declares *)
Definition decl (x : change) : list (nat * nat * nat) := map (fk_entry (nm x)) (added_fks x).

Lemma filter_perm2 {A} (p q : A -> bool) l :
  (forall x, q x = negb (p x)) -> Permutation (filter q l ++ filter p l) l.
Proof.
  intros H. rewrite (filter_ext q (fun x => negb (p x)) H). apply filter_perm.
Qed.

Lemma tc_added_mapadd l : flat_map tc_added (map AddFK l) = l.
Proof. induction l as [|a l IH]; simpl; [reflexivity|]. rewrite IH. reflexivity. Qed.

Lemma tc_added_mapdrop l : flat_map tc_added (map DropFK l) = [].
Proof. induction l as [|a l IH]; simpl; [reflexivity|exact IH]. Qed.

Lemma decl_detach1 x :
  Permutation (flat_map decl (det_planned x) ++ flat_map decl (det_deferred x)) (decl x).
Proof.
  destruct x as [t fks|t fks|t tcs]; unfold decl; simpl.
  - remember (filter (fun f => negb (ptr_eqb (f_ref f) t)) fks) as ext0 eqn:E.
    destruct ext0 as [|e ext].
    + simpl. rewrite !app_nil_r. apply Permutation_refl.
    + cbn [flat_map decl added_fks app nm table_of]. rewrite !app_nil_r.
      change (AddFK e :: map AddFK ext) with (map AddFK (e :: ext)). rewrite tc_added_mapadd, E.
      rewrite <- map_app. apply Permutation_map.
      apply (filter_perm2 (fun f => negb (ptr_eqb (f_ref f) t)) (fun f => ptr_eqb (f_ref f) t)).
      intros f. rewrite negb_involutive. reflexivity.
  - remember (filter (fun f => negb (ptr_eqb (f_ref f) t)) fks) as ext0 eqn:E.
    destruct ext0 as [|e ext].
    + simpl. apply Permutation_refl.
    + cbn [flat_map decl added_fks app nm table_of]. rewrite !app_nil_r.
      change (DropFK e :: map DropFK ext) with (map DropFK (e :: ext)). rewrite tc_added_mapdrop.
      simpl. apply Permutation_refl.
  - assert (E1 : flat_map decl (match filter (fun c => negb (is_addfk c)) tcs with
                               | [] => [] | _ :: _ => [ModifyTable t (filter (fun c => negb (is_addfk c)) tcs)] end)
                 = map (fk_entry (qn t)) (flat_map tc_added (filter (fun c => negb (is_addfk c)) tcs))).
    { destruct (filter (fun c => negb (is_addfk c)) tcs); [reflexivity|]. unfold decl. simpl. rewrite app_nil_r. reflexivity. }
    assert (E2 : flat_map decl (match filter is_addfk tcs with
                               | [] => [] | _ :: _ => [ModifyTable t (filter is_addfk tcs)] end)
                 = map (fk_entry (qn t)) (flat_map tc_added (filter is_addfk tcs))).
    { destruct (filter is_addfk tcs); [reflexivity|]. unfold decl. simpl. rewrite app_nil_r. reflexivity. }
    unfold decl in E1, E2. rewrite E1, E2. unfold nm. simpl.
    rewrite <- map_app, <- flat_map_app. apply Permutation_map. apply Permutation_flat_map.
    apply (filter_perm is_addfk tcs).
Qed.

Lemma detach_decl cs : Permutation (flat_map decl (detachReferences cs)) (flat_map decl cs).
Proof.
  unfold detachReferences. rewrite flat_map_app.
  induction cs as [|x cs IH]; simpl; [constructor|].
  rewrite !flat_map_app.
  apply perm_trans with ((flat_map decl (det_planned x) ++ flat_map decl (det_deferred x)) ++
                         (flat_map decl (flat_map det_planned cs) ++ flat_map decl (flat_map det_deferred cs))).
  - rewrite <- !app_assoc. apply Permutation_app_head.
    rewrite !app_assoc. apply Permutation_app_tail. apply Permutation_app_comm.
  - apply Permutation_app; [apply decl_detach1|exact IH].
Qed.

Theorem plan_once_fks cs l : plan cs = POk l -> Permutation (flat_map decl cs) (flat_map decl l).
Proof.
  intros H. destruct (plan_once cs l H) as [d [Hd [Hp _]]].
  apply perm_trans with (flat_map decl d); [|apply Permutation_flat_map; exact Hp].
  pose proof (DetachCycles_spec cs d Hd) as Hs. unfold detach_spec in Hs.
  destruct (sortMap cs) as [| |sorted]; [destruct Hs| |].
  - subst d. apply Permutation_sym. apply detach_decl.
  - apply Permutation_flat_map. apply (proj1 Hs).
Qed.
