(** M-SORT proofs, part 1: the two depth-first searches of sqlx/plan.go.

    * [visit] (sortMap): never out of fuel with [sortMap_fuel]; on a cycle-free run the
      index map is a reverse topological order of [dependencies].
    * [add] (SortChanges): never out of fuel with [S (length cs)]; the planned list is a
      permutation of the input for EVERY edge relation (cyclic or not).
    * when every [dependsOn] edge already points backwards in the partitioned input,
      SortChanges returns the partitioned input unchanged. *)
From Coq Require Import List Bool Arith Lia Permutation.
From Atlas Require Import Plan.SortModel.
Import ListNotations.

(** * Small facts *)
Lemma mem_In x l : mem x l = true <-> In x l.
Proof.
  unfold mem. rewrite existsb_exists. split.
  - intros [y [Hy He]]. apply Nat.eqb_eq in He. subst. exact Hy.
  - intros H. exists x. split; [exact H|apply Nat.eqb_refl].
Qed.

Lemma mem_false x l : mem x l = false <-> ~ In x l.
Proof.
  rewrite <- mem_In. destruct (mem x l); split; intros H; congruence.
Qed.

Lemma filter_length_le {A} (f g : A -> bool) l :
  (forall x, f x = true -> g x = true) -> length (filter f l) <= length (filter g l).
Proof.
  intros Hfg. induction l as [|a l IH]; simpl; [lia|].
  destruct (f a) eqn:Fa.
  - rewrite (Hfg a Fa). simpl. lia.
  - destruct (g a); simpl; lia.
Qed.

Lemma filter_length_lt {A} (f g : A -> bool) l a :
  (forall x, f x = true -> g x = true) -> In a l -> g a = true -> f a = false ->
  length (filter f l) < length (filter g l).
Proof.
  intros Hfg Hin Ga Fa. induction l as [|b l IH]; simpl; [destruct Hin|].
  destruct Hin as [->|Hin].
  - rewrite Fa, Ga. simpl. pose proof (filter_length_le f g l Hfg). lia.
  - specialize (IH Hin). destruct (f b) eqn:Fb.
    + rewrite (Hfg b Fb). simpl. lia.
    + destruct (g b); simpl; lia.
Qed.

Lemma NoDup_app_intro {A} (l1 l2 : list A) :
  NoDup l1 -> NoDup l2 -> (forall x, In x l1 -> In x l2 -> False) -> NoDup (l1 ++ l2).
Proof.
  intros H1 H2 Hd. induction l1 as [|a l1 IH]; simpl; [exact H2|].
  inversion H1; subst. constructor.
  - intros Hin. apply in_app_or in Hin. destruct Hin as [Hin|Hin]; [contradiction|].
    apply (Hd a); [left; reflexivity|exact Hin].
  - apply IH; [assumption|]. intros x Hx1 Hx2. apply (Hd x); [right; exact Hx1|exact Hx2].
Qed.

(** measure of a DFS: how many nodes of [U] are not yet marked *)
Definition unmarked (U marked : list nat) : nat :=
  length (filter (fun x => negb (mem x marked)) U).

Lemma unmarked_mono U m m' : incl m m' -> unmarked U m' <= unmarked U m.
Proof.
  intros Hi. apply filter_length_le. intros x Hx.
  apply negb_true_iff in Hx. apply negb_true_iff.
  apply mem_false. apply mem_false in Hx. intros H. apply Hx. apply Hi. exact H.
Qed.

Lemma unmarked_cons_lt U m x : In x U -> ~ In x m -> unmarked U (x :: m) < unmarked U m.
Proof.
  intros Hu Hm. unfold unmarked.
  apply filter_length_lt with (a := x).
  - intros y Hy. apply negb_true_iff in Hy. apply negb_true_iff.
    apply mem_false. apply mem_false in Hy. intros H. apply Hy. right. exact H.
  - exact Hu.
  - apply negb_true_iff. apply mem_false. exact Hm.
  - apply negb_false_iff. apply mem_In. left. reflexivity.
Qed.

Lemma unmarked_nil U : unmarked U [] = length U.
Proof.
  unfold unmarked. induction U; simpl; [reflexivity|]. f_equal. exact IHU.
Qed.

(** * sortMap *)

Lemma index_of_in x s : In x s -> exists i, index_of x s = Some i /\ i < length s.
Proof.
  induction s as [|a s IH]; intros H; [destruct H|].
  simpl. destruct (a =? x) eqn:E.
  - exists 0. split; [reflexivity|lia].
  - destruct H as [->|H]; [rewrite Nat.eqb_refl in E; discriminate|].
    destruct (IH H) as [i [Hi Hl]]. rewrite Hi. exists (S i). split; [reflexivity|lia].
Qed.

Lemma index_of_notin x s : ~ In x s -> index_of x s = None.
Proof.
  induction s as [|a s IH]; intros H; [reflexivity|].
  simpl. destruct (a =? x) eqn:E.
  - apply Nat.eqb_eq in E. subst. exfalso. apply H. left. reflexivity.
  - rewrite IH; [reflexivity|]. intros H'. apply H. right. exact H'.
Qed.

Lemma index_of_app_in x s t : In x s -> index_of x (s ++ t) = index_of x s.
Proof.
  induction s as [|a s IH]; intros H; [destruct H|].
  simpl. destruct (a =? x) eqn:E; [reflexivity|].
  destruct H as [->|H]; [rewrite Nat.eqb_refl in E; discriminate|].
  rewrite (IH H). reflexivity.
Qed.

Lemma index_of_app_notin x s : ~ In x s -> index_of x (s ++ [x]) = Some (length s).
Proof.
  induction s as [|a s IH]; intros H; simpl.
  - rewrite Nat.eqb_refl. reflexivity.
  - destruct (a =? x) eqn:E.
    + apply Nat.eqb_eq in E. subst. exfalso. apply H. left. reflexivity.
    + rewrite IH; [reflexivity|]. intros H'. apply H. right. exact H'.
Qed.

Lemma sorted_idx_app_in s t x : In x s -> sorted_idx (s ++ t) x = sorted_idx s x.
Proof. intros H. unfold sorted_idx. rewrite index_of_app_in by exact H. reflexivity. Qed.

Lemma sorted_idx_lt s x : In x s -> sorted_idx s x < length s.
Proof.
  intros H. unfold sorted_idx. destruct (index_of_in x s H) as [i [Hi Hl]]. rewrite Hi. exact Hl.
Qed.

Lemma sorted_idx_snoc s x : ~ In x s -> sorted_idx (s ++ [x]) x = length s.
Proof. intros H. unfold sorted_idx. rewrite index_of_app_notin by exact H. reflexivity. Qed.

Lemma deps_get_in (deps : deps_t) x y :
  In y (deps_get x deps) -> In x (map fst deps) /\ In y (concat (map snd deps)).
Proof.
  induction deps as [|[k vs] d IH]; simpl; intros H; [destruct H|].
  destruct (x =? k) eqn:E.
  - apply Nat.eqb_eq in E. subst. split; [left; reflexivity|]. apply in_or_app. left. exact H.
  - destruct (IH H) as [H1 H2]. split; [right; exact H1|]. apply in_or_app. right. exact H2.
Qed.

Lemma remove_nat_notin x l : ~ In x l -> remove_nat x l = l.
Proof.
  induction l as [|a l IH]; intros H; [reflexivity|]. simpl.
  destruct (x =? a) eqn:E.
  - apply Nat.eqb_eq in E. subst. exfalso. apply H. left. reflexivity.
  - f_equal. apply IH. intros H'. apply H. right. exact H'.
Qed.

Section SortMap.
  Variable deps : deps_t.

  (** [s] lists every node after all the nodes it depends on *)
  Definition ord (s : list nat) : Prop :=
    forall x y, In x s -> In y (deps_get x deps) -> In y s /\ sorted_idx s y < sorted_idx s x.

  Lemma ord_snoc s x : ord s -> incl (deps_get x deps) s -> ord (s ++ [x]).
  Proof.
    intros Ho Hi a b Ha Hb.
    destruct (in_dec Nat.eq_dec a s) as [Has|Has].
    - destruct (Ho a b Has Hb) as [Hbs Hlt]. split; [apply in_or_app; left; exact Hbs|].
      rewrite !sorted_idx_app_in by assumption. exact Hlt.
    - apply in_app_or in Ha. destruct Ha as [Ha|[<-|[]]]; [contradiction|].
      pose proof (Hi b Hb) as Hbs. split; [apply in_or_app; left; exact Hbs|].
      rewrite sorted_idx_app_in by exact Hbs. rewrite sorted_idx_snoc by exact Has.
      apply sorted_idx_lt. exact Hbs.
  Qed.

  Definition vpost (name : nat) (s p : list nat) (r : vres) : Prop :=
    match r with
    | VOut => False
    | VRet true _ _ => True
    | VRet false s' p' =>
        p' = p /\ (exists new, s' = s ++ new) /\ In name s' /\ (ord s -> ord s')
    end.

  Definition vrpost (refs : list nat) (s p : list nat) (r : vres) : Prop :=
    match r with
    | VOut => False
    | VRet true _ _ => True
    | VRet false s' p' =>
        p' = p /\ (exists new, s' = s ++ new) /\ incl refs s' /\ (ord s -> ord s')
    end.

  Lemma visit_refs_spec visit1 p refs :
    (forall r s, In r refs -> vpost r s p (visit1 r s p)) ->
    forall s, vrpost refs s p (visit_refs visit1 refs s p).
  Proof.
    induction refs as [|r refs IH]; intros Hv s; simpl.
    - split; [reflexivity|split; [exists []; rewrite app_nil_r; reflexivity|split; [intros x []|tauto]]].
    - pose proof (Hv r s (or_introl eq_refl)) as H1.
      destruct (visit1 r s p) as [|[|] s1 p1]; simpl in *; [exact H1|exact I|].
      destruct H1 as [-> [[n1 ->] [Hr Ho1]]].
      assert (Hv' : forall r0 s0, In r0 refs -> vpost r0 s0 p (visit1 r0 s0 p)).
      { intros r0 s0 Hin. apply Hv. right. exact Hin. }
      specialize (IH Hv' (s ++ n1)).
      destruct (visit_refs visit1 refs (s ++ n1) p) as [|[|] s2 p2]; simpl in *; [exact IH|exact I|].
      destruct IH as [-> [[n2 ->] [Hi Ho2]]].
      split; [reflexivity|split; [|split]].
      + exists (n1 ++ n2). rewrite app_assoc. reflexivity.
      + intros x [<-|Hx]; [apply in_or_app; left; exact Hr|apply Hi; exact Hx].
      + intros Ho. apply Ho2. apply Ho1. exact Ho.
  Qed.

  Lemma visit_spec fuel : forall name s p,
    unmarked (universe deps) p < fuel -> vpost name s p (visit deps fuel name s p).
  Proof.
    induction fuel as [|f IH]; intros name s p Hm; [lia|].
    simpl. destruct (mem name s) eqn:Es.
    - simpl. apply mem_In in Es.
      split; [reflexivity|split; [exists []; rewrite app_nil_r; reflexivity|split; [exact Es|tauto]]].
    - destruct (mem name p) eqn:Ep; [exact I|].
      apply mem_false in Ep.
      assert (Hrefs : forall r s0, In r (deps_get name deps) ->
                vpost r s0 (name :: p) (visit deps f r s0 (name :: p))).
      { intros r s0 Hr. apply IH.
        destruct (deps_get_in deps name r Hr) as [Hk _].
        assert (Hu : In name (universe deps)) by (apply in_or_app; left; exact Hk).
        pose proof (unmarked_cons_lt (universe deps) p name Hu Ep). lia. }
      pose proof (visit_refs_spec (visit deps f) (name :: p) (deps_get name deps) Hrefs s) as H.
      destruct (visit_refs (visit deps f) (deps_get name deps) s (name :: p)) as [|[|] s1 p1];
        simpl in *; [exact H|exact I|].
      destruct H as [-> [[n1 ->] [Hi Ho]]].
      split; [|split; [|split]].
      + simpl. rewrite Nat.eqb_refl. apply remove_nat_notin. exact Ep.
      + exists (n1 ++ [name]). rewrite app_assoc. reflexivity.
      + apply in_or_app. right. left. reflexivity.
      + intros Hos. apply ord_snoc; [apply Ho; exact Hos|exact Hi].
  Qed.
End SortMap.

Lemma ord_nil deps : ord deps [].
Proof. intros x y []. Qed.

(** sortMap never runs out of fuel *)
Lemma sortMap_total cs : sortMap cs <> SMOut.
Proof.
  unfold sortMap. set (deps := dependencies cs).
  pose proof (visit_refs_spec deps (visit deps (sortMap_fuel deps)) [] (map fst deps)) as H.
  assert (Hv : forall r s, In r (map fst deps) ->
            vpost deps r s [] (visit deps (sortMap_fuel deps) r s [])).
  { intros r s _. apply visit_spec. rewrite unmarked_nil. unfold sortMap_fuel. lia. }
  specialize (H Hv []).
  destruct (visit_refs (visit deps (sortMap_fuel deps)) (map fst deps) [] []) as [|[|] s p];
    simpl in *; [destruct H|discriminate|discriminate].
Qed.

(** on success the index map is a reverse topological order of the dependency lists *)
Lemma sortMap_ok_order cs sorted :
  sortMap cs = SMOk sorted ->
  forall x y, In y (deps_get x (dependencies cs)) -> sorted_idx sorted y < sorted_idx sorted x.
Proof.
  unfold sortMap. set (deps := dependencies cs). intros H x y Hy.
  pose proof (visit_refs_spec deps (visit deps (sortMap_fuel deps)) [] (map fst deps)) as Hs.
  assert (Hv : forall r s, In r (map fst deps) ->
            vpost deps r s [] (visit deps (sortMap_fuel deps) r s [])).
  { intros r s _. apply visit_spec. rewrite unmarked_nil. unfold sortMap_fuel. lia. }
  specialize (Hs Hv []).
  destruct (visit_refs (visit deps (sortMap_fuel deps)) (map fst deps) [] []) as [|[|] s p];
    simpl in *; try discriminate.
  inversion H; subst s. destruct Hs as [_ [_ [Hi Ho]]].
  destruct (deps_get_in deps x y Hy) as [Hk _].
  apply (Ho (ord_nil deps) x y (Hi x Hk) Hy).
Qed.

Lemma sortMap_ok_bound cs sorted x :
  sortMap cs = SMOk sorted -> sorted_idx sorted x <= length sorted.
Proof.
  intros _. destruct (in_dec Nat.eq_dec x sorted) as [H|H].
  - pose proof (sorted_idx_lt sorted x H). lia.
  - unfold sorted_idx. rewrite index_of_notin by exact H. lia.
Qed.

(** * SortChanges: the closure [add] *)

Section Add.
  Variable edges : list (list nat).
  Variable n : nat.
  Hypothesis Hlen : length edges = n.
  Hypothesis Hrows : forall i j, In j (nth i edges []) -> j < n.

  Definition apost (targets : list nat) (st : dstate) (r : option dstate) : Prop :=
    match r with
    | None => False
    | Some st' =>
        exists new, snd st' = snd st ++ new /\ NoDup new /\
          (forall x, In x new -> ~ In x (fst st)) /\
          (forall x, In x (fst st') <-> In x (fst st) \/ In x new) /\
          incl targets (fst st') /\
          (forall x, In x new -> x < n)
    end.

  Lemma add_list_spec add1 (Q : list nat -> Prop) ds :
    (forall a a', incl a a' -> Q a -> Q a') ->
    (forall d st, In d ds -> d < n -> Q (fst st) -> ~ In d (fst st) -> apost [d] st (add1 d st)) ->
    (forall d, In d ds -> d < n) ->
    forall st, Q (fst st) -> apost ds st (add_list add1 ds st).
  Proof.
    intros Qm. induction ds as [|d ds IH]; intros Hadd Hlt st HQ; simpl.
    - exists []. rewrite app_nil_r. split; [reflexivity|]. split; [constructor|].
      split; [intros x []|]. split; [intros x; simpl; tauto|]. split; [intros x []|intros x []].
    - assert (Hadd' : forall d0 st0, In d0 ds -> d0 < n -> Q (fst st0) -> ~ In d0 (fst st0) ->
                apost [d0] st0 (add1 d0 st0)).
      { intros d0 st0 Hin. apply Hadd. right. exact Hin. }
      assert (Hlt' : forall d0, In d0 ds -> d0 < n) by (intros d0 Hin; apply Hlt; right; exact Hin).
      destruct (mem d (fst st)) eqn:Em.
      + apply mem_In in Em. specialize (IH Hadd' Hlt' st HQ).
        destruct (add_list add1 ds st) as [st'|]; simpl in *; [|exact IH].
        destruct IH as [new [H1 [H2 [H3 [H4 [H5 H6]]]]]]. exists new.
        repeat (split; [assumption|]). split; [|exact H6].
        intros x [<-|Hx]; [apply H4; left; exact Em|apply H5; exact Hx].
      + apply mem_false in Em.
        pose proof (Hadd d st (or_introl eq_refl) (Hlt d (or_introl eq_refl)) HQ Em) as Ha.
        destruct (add1 d st) as [st1|]; simpl in *; [|exact Ha].
        destruct Ha as [new1 [A1 [A2 [A3 [A4 [A5 A6]]]]]].
        assert (HQ1 : Q (fst st1)).
        { apply Qm with (a := fst st); [|exact HQ]. intros x Hx. apply A4. left. exact Hx. }
        specialize (IH Hadd' Hlt' st1 HQ1).
        destruct (add_list add1 ds st1) as [st2|]; simpl in *; [|exact IH].
        destruct IH as [new2 [B1 [B2 [B3 [B4 [B5 B6]]]]]].
        exists (new1 ++ new2). split; [rewrite B1, A1, app_assoc; reflexivity|].
        split.
        { apply NoDup_app_intro; try assumption. intros x Hx1 Hx2.
          apply (B3 x Hx2). apply A4. right. exact Hx1. }
        split.
        { intros x Hx. apply in_app_or in Hx. destruct Hx as [Hx|Hx]; [apply A3; exact Hx|].
          intros Hf. apply (B3 x Hx). apply A4. left. exact Hf. }
        split.
        { intros x. rewrite B4, A4, in_app_iff. tauto. }
        split.
        { intros x [<-|Hx]; [apply B4; left; apply A5; left; reflexivity|apply B5; exact Hx]. }
        intros x Hx. apply in_app_or in Hx. destruct Hx as [Hx|Hx]; [apply A6|apply B6]; exact Hx.
  Qed.

  Lemma add_spec fuel : forall c st,
    c < n -> unmarked (seq 0 n) (fst st) < fuel -> apost [c] st (add edges fuel c st).
  Proof.
    induction fuel as [|f IH]; intros c st Hc Hm; [lia|].
    simpl. destruct (mem c (fst st)) eqn:Em.
    - apply mem_In in Em. simpl. exists []. rewrite app_nil_r. split; [reflexivity|].
      split; [constructor|]. split; [intros x []|]. split; [intros x; simpl; tauto|].
      split; [intros x [<-|[]]; exact Em|intros x []].
    - apply mem_false in Em.
      assert (Hin : In c (seq 0 n)) by (apply in_seq; lia).
      pose proof (unmarked_cons_lt (seq 0 n) (fst st) c Hin Em) as Hlt.
      pose proof (add_list_spec (add edges f) (fun a => unmarked (seq 0 n) a < f) (nth c edges [])) as Hl.
      assert (Qm : forall a a', incl a a' -> unmarked (seq 0 n) a < f -> unmarked (seq 0 n) a' < f).
      { intros a a' Hi Ha. pose proof (unmarked_mono (seq 0 n) a a' Hi). lia. }
      specialize (Hl Qm).
      assert (Hadd : forall d st0, In d (nth c edges []) -> d < n ->
                unmarked (seq 0 n) (fst st0) < f -> ~ In d (fst st0) -> apost [d] st0 (add edges f d st0)).
      { intros d st0 _ Hd Hq _. apply IH; assumption. }
      specialize (Hl Hadd (Hrows c) (c :: fst st, snd st)). simpl fst in Hl.
      assert (Hq0 : unmarked (seq 0 n) (c :: fst st) < f) by lia.
      specialize (Hl Hq0).
      destruct (add_list (add edges f) (nth c edges []) (c :: fst st, snd st)) as [[added planned]|];
        simpl in *; [|exact Hl].
      destruct Hl as [new1 [A1 [A2 [A3 [A4 [A5 A6]]]]]].
      exists (new1 ++ [c]). split; [rewrite A1, app_assoc; reflexivity|].
      split.
      { apply NoDup_app_intro; [exact A2|constructor; [intros []|constructor]|].
        intros x Hx [Hxc|[]]. subst x. apply (A3 c Hx). left. reflexivity. }
      split.
      { intros x Hx. apply in_app_or in Hx. destruct Hx as [Hx|[<-|[]]]; [|exact Em].
        intros Hf. apply (A3 x Hx). right. exact Hf. }
      split.
      { intros x. rewrite A4, in_app_iff. simpl. intuition. }
      split.
      { intros x [<-|[]]. apply A4. left. left. reflexivity. }
      intros x Hx. apply in_app_or in Hx. destruct Hx as [Hx|[<-|[]]]; [apply A6; exact Hx|exact Hc].
  Qed.
End Add.

(** * SortChanges: the edge map *)

Lemma number_in {A} (l : list A) : forall k j x, In (j, x) (number k l) -> k <= j < k + length l /\ nth_error l (j - k) = Some x.
Proof.
  induction l as [|a l IH]; intros k j x H; simpl in *; [destruct H|].
  destruct H as [H|H].
  - inversion H; subst. split; [lia|]. rewrite Nat.sub_diag. reflexivity.
  - destruct (IH (S k) j x H) as [Hr Hn]. split; [lia|].
    replace (j - k) with (S (j - S k)) by lia. exact Hn.
Qed.

Lemma number_nth {A} (l : list A) : forall k m, nth_error (number k l) m = option_map (fun x => (k + m, x)) (nth_error l m).
Proof.
  induction l as [|a l IH]; intros k m; simpl.
  - destruct m; reflexivity.
  - destruct m as [|m]; simpl; [rewrite Nat.add_0_r; reflexivity|].
    rewrite IH. replace (S k + m) with (k + S m) by lia. reflexivity.
Qed.

Lemma number_length {A} (l : list A) k : length (number k l) = length l.
Proof. revert k; induction l; intros k; simpl; [reflexivity|]. f_equal. apply IHl. Qed.

Lemma edges_row_in i c1 : forall js hasE row j,
  In j (fst (edges_row i c1 js hasE row)) ->
  In j row \/ exists c2, In (j, c2) js /\ i <> j /\ dependsOn c1 c2 = true.
Proof.
  induction js as [|[j' c2] js IH]; intros hasE row j H; simpl in *; [left; exact H|].
  destruct (negb (i =? j') && negb (memp (j', i) hasE) && dependsOn c1 c2) eqn:E.
  - apply IH in H. destruct H as [H|[c [Hc Hd]]].
    + apply in_app_or in H. destruct H as [H|[<-|[]]]; [left; exact H|].
      right. exists c2. split; [left; reflexivity|].
      apply andb_true_iff in E. destruct E as [E Ed]. apply andb_true_iff in E. destruct E as [E _].
      apply negb_true_iff in E. apply Nat.eqb_neq in E. split; assumption.
    + right. exists c. split; [right; exact Hc|exact Hd].
  - apply IH in H. destruct H as [H|[c [Hc Hd]]]; [left; exact H|].
    right. exists c. split; [right; exact Hc|exact Hd].
Qed.

Lemma edges_rows_length all : forall is hasE, length (edges_rows is all hasE) = length is.
Proof.
  induction is as [|[i c1] is IH]; intros hasE; simpl; [reflexivity|].
  destruct (edges_row i c1 all hasE []) as [row hasE'] eqn:E. simpl. f_equal. apply IH.
Qed.

Lemma edges_rows_in all : forall is hasE m j,
  In j (nth m (edges_rows is all hasE) []) ->
  exists i c1 c2, nth_error is m = Some (i, c1) /\ In (j, c2) all /\ i <> j /\ dependsOn c1 c2 = true.
Proof.
  induction is as [|[i c1] is IH]; intros hasE m j H; simpl in *.
  - destruct m; destruct H.
  - destruct (edges_row i c1 all hasE []) as [row hasE'] eqn:E.
    destruct m as [|m]; simpl in *.
    + pose proof (edges_row_in i c1 all hasE [] j) as Hr. rewrite E in Hr. simpl in Hr.
      destruct (Hr H) as [[]|[c2 Hc]]. exists i, c1, c2. split; [reflexivity|exact Hc].
    + apply IH in H. exact H.
Qed.

Lemma build_edges_length cs : length (build_edges cs) = length cs.
Proof. unfold build_edges. rewrite edges_rows_length. apply number_length. Qed.

(** an edge i -> j of the edge map joins two distinct positions whose changes are related by dependsOn *)
Lemma build_edges_in cs i j :
  In j (nth i (build_edges cs) []) ->
  exists c1 c2, nth_error cs i = Some c1 /\ nth_error cs j = Some c2 /\ i <> j /\ dependsOn c1 c2 = true.
Proof.
  unfold build_edges. intros H. apply edges_rows_in in H.
  destruct H as [i' [c1 [c2 [Hn [Hin [Hne Hd]]]]]].
  rewrite number_nth in Hn. destruct (nth_error cs i) as [c|] eqn:Ei; simpl in Hn; [|discriminate].
  inversion Hn; subst. simpl in *. apply number_in in Hin. destruct Hin as [_ Hj].
  rewrite Nat.sub_0_r in Hj. exists c1, c2. repeat split; assumption.
Qed.

Lemma build_edges_lt cs i j : In j (nth i (build_edges cs) []) -> j < length cs.
Proof.
  intros H. destruct (build_edges_in cs i j H) as [c1 [c2 [_ [H2 _]]]].
  apply nth_error_Some. rewrite H2. discriminate.
Qed.

Lemma flat_map_pick_seq (pre l : list change) :
  flat_map (pick (pre ++ l)) (seq (length pre) (length l)) = l.
Proof.
  revert pre. induction l as [|a l IH]; intros pre; simpl; [reflexivity|].
  unfold pick at 1. rewrite nth_error_app2 by lia. rewrite Nat.sub_diag. simpl. f_equal.
  specialize (IH (pre ++ [a])). rewrite <- app_assoc in IH. simpl in IH.
  rewrite app_length in IH. simpl in IH. replace (length pre + 1) with (S (length pre)) in IH by lia.
  exact IH.
Qed.

Lemma unmarked_le U m : unmarked U m <= length U.
Proof. unfold unmarked. induction U as [|a U IH]; simpl; [lia|]. destruct (negb (mem a m)); simpl; lia. Qed.

(** SortChanges never runs out of fuel and returns a permutation of its (partitioned) input,
    for every dependency relation, cyclic or not *)
Lemma SortChanges_perm l :
  exists out, SortChanges l = Some out /\ Permutation (partition_changes l) out.
Proof.
  unfold SortChanges. set (cs := partition_changes l). set (n := length cs).
  pose proof (add_list_spec n (add (build_edges cs) (S n))
                (fun a => unmarked (seq 0 n) a < S n) (seq 0 n)) as H.
  assert (Qm : forall a a', incl a a' -> unmarked (seq 0 n) a < S n -> unmarked (seq 0 n) a' < S n).
  { intros a a' _ _. pose proof (unmarked_le (seq 0 n) a'). rewrite seq_length in *. lia. }
  specialize (H Qm).
  assert (Hadd : forall d st, In d (seq 0 n) -> d < n -> unmarked (seq 0 n) (fst st) < S n ->
            ~ In d (fst st) -> apost n [d] st (add (build_edges cs) (S n) d st)).
  { intros d st _ Hd Hq _. apply add_spec; try assumption.
    - apply build_edges_length.
    - intros i j Hj. apply (build_edges_lt cs i j Hj). }
  assert (Hlt : forall d, In d (seq 0 n) -> d < n) by (intros d Hd; apply in_seq in Hd; lia).
  specialize (H Hadd Hlt ([], [])). simpl fst in H.
  assert (Hq : unmarked (seq 0 n) [] < S n) by (rewrite unmarked_nil, seq_length; lia).
  specialize (H Hq).
  destruct (add_list (add (build_edges cs) (S n)) (seq 0 n) ([], [])) as [[added planned]|];
    simpl in *; [|destruct H].
  destruct H as [new [A1 [A2 [A3 [A4 [A5 A6]]]]]]. subst planned.
  eexists. split; [reflexivity|].
  assert (Hp : Permutation (seq 0 n) new).
  { apply NoDup_Permutation; [apply seq_NoDup|exact A2|].
    intros x. split.
    - intros Hx. apply A5 in Hx. apply A4 in Hx. destruct Hx as [[]|Hx]. exact Hx.
    - intros Hx. apply in_seq. pose proof (A6 x Hx). lia. }
  pose proof (flat_map_pick_seq [] cs) as Hf. simpl in Hf. fold n in Hf.
  rewrite <- Hf at 1. apply Permutation_flat_map. exact Hp.
Qed.

(** * SortChanges on an input whose dependsOn edges all point backwards *)

Lemma add_list_skip add1 ds st :
  (forall d, In d ds -> In d (fst st)) -> add_list add1 ds st = Some st.
Proof.
  induction ds as [|d ds IH]; intros H; simpl; [reflexivity|].
  assert (Hd : mem d (fst st) = true) by (apply mem_In; apply H; left; reflexivity).
  rewrite Hd. apply IH. intros d' Hd'. apply H. right. exact Hd'.
Qed.

Lemma add_S edges f c st :
  add edges (S f) c st =
  if mem c (fst st) then Some st
  else match add_list (add edges f) (nth c edges []) (c :: fst st, snd st) with
       | None => None
       | Some (added, planned) => Some (added, planned ++ [c])
       end.
Proof. reflexivity. Qed.

Definition backward (cs : list change) : Prop :=
  forall i j c1 c2, nth_error cs i = Some c1 -> nth_error cs j = Some c2 -> i <> j ->
    dependsOn c1 c2 = true -> j < i.

Lemma add_loop_backward edges n :
  (forall i j, In j (nth i edges []) -> j < i) ->
  forall m k added, k + m = n -> (forall j, In j added <-> j < k) ->
    exists added', add_list (add edges (S n)) (seq k m) (added, seq 0 k) = Some (added', seq 0 n).
Proof.
  intros Hb. induction m as [|m IH]; intros k added Hk Ha.
  - simpl. exists added. replace k with n by lia. reflexivity.
  - assert (Em : mem k added = false).
    { apply mem_false. intros Hin. apply Ha in Hin. lia. }
    change (seq k (S m)) with (k :: seq (S k) m). cbn [add_list fst]. rewrite Em.
    rewrite add_S. cbn [fst snd]. rewrite Em.
    rewrite add_list_skip.
    2:{ simpl. intros d Hd. right. apply Ha. apply (Hb k d Hd). }
    replace (seq 0 k ++ [k]) with (seq 0 (S k)) by (rewrite seq_S; reflexivity).
    apply IH; [lia|].
    intros j. simpl. rewrite Ha. lia.
Qed.

Lemma SortChanges_backward l :
  backward (partition_changes l) -> SortChanges l = Some (partition_changes l).
Proof.
  intros Hb. unfold SortChanges. set (cs := partition_changes l) in *. set (n := length cs).
  assert (He : forall i j, In j (nth i (build_edges cs) []) -> j < i).
  { intros i j Hj. destruct (build_edges_in cs i j Hj) as [c1 [c2 [H1 [H2 [H3 H4]]]]].
    apply (Hb i j c1 c2 H1 H2 H3 H4). }
  destruct (add_loop_backward (build_edges cs) n He n 0 []) as [added' Hl]; [lia|simpl; intros; lia|].
  change (seq 0 0) with (@nil nat) in Hl. rewrite Hl. f_equal.
  pose proof (flat_map_pick_seq [] cs) as Hf. simpl in Hf. exact Hf.
Qed.
