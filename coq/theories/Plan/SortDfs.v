(** M-SORT proofs, part 1: the two depth-first searches of sqlx/plan.go.

    * [visit] (sortMap): never out of fuel with [sortMap_fuel]; on a cycle-free run the
      index map is a reverse topological order of [dependencies].
    * [add] (SortChanges): never out of fuel with [S (length cs)]; the planned list is a
      permutation of the input for EVERY edge relation (cyclic or not).
    * when every [dependsOn] edge already points backwards in the partitioned input,
      SortChanges returns the partitioned input unchanged. *)
From Coq Require Import List Bool Arith Lia Permutation.
From Atlas Require Import Plan.SortModel.
Import ListNotations.

(** * Small facts *)
Lemma mem_In x l : mem x l = true <-> In x l.
Proof.
  unfold mem. rewrite existsb_exists. split.
  - intros [y [Hy He]]. apply Nat.eqb_eq in He. subst. exact Hy.
  - intros H. exists x. split; [exact H|apply Nat.eqb_refl].
Qed.

Lemma mem_false x l : mem x l = false <-> ~ In x l.
Proof.
  rewrite <- mem_In. destruct (mem x l); split; intros H; congruence.
Qed.

Lemma filter_length_le {A} (f g : A -> bool) l :
  (forall x, f x = true -> g x = true) -> length (filter f l) <= length (filter g l).
Proof.
  intros Hfg. induction l as [|a l IH]; simpl; [lia|].
  destruct (f a) eqn:Fa.
  - rewrite (Hfg a Fa). simpl. lia.
  - destruct (g a); simpl; lia.
Qed.

Lemma filter_length_lt {A} (f g : A -> bool) l a :
  (forall x, f x = true -> g x = true) -> In a l -> g a = true -> f a = false ->
  length (filter f l) < length (filter g l).
Proof.
  intros Hfg Hin Ga Fa. induction l as [|b l IH]; simpl; [destruct Hin|].
  destruct Hin as [->|Hin].
  - rewrite Fa, Ga. simpl. pose proof (filter_length_le f g l Hfg). lia.
  - specialize (IH Hin). destruct (f b) eqn:Fb.
    + rewrite (Hfg b Fb). simpl. lia.
    + destruct (g b); simpl; lia.
Qed.

Lemma NoDup_app_intro {A} (l1 l2 : list A) :
  NoDup l1 -> NoDup l2 -> (forall x, In x l1 -> In x l2 -> False) -> NoDup (l1 ++ l2).
Proof.
  intros H1 H2 Hd. induction l1 as [|a l1 IH]; simpl; [exact H2|].
  inversion H1; subst. constructor.
  - intros Hin. apply in_app_or in Hin. destruct Hin as [Hin|Hin]; [contradiction|].
    apply (Hd a); [left; reflexivity|exact Hin].
  - apply IH; [assumption|]. intros x Hx1 Hx2. apply (Hd x); [right; exact Hx1|exact Hx2].
Qed.

Lemma NoDup_app_r {A} (l1 l2 : list A) : NoDup (l1 ++ l2) -> NoDup l2.
Proof. induction l1 as [|a l1 IH]; simpl; intros H; [exact H|]. inversion H; subst. apply IH. assumption. Qed.

Lemma NoDup_app_l {A} (l1 l2 : list A) : NoDup (l1 ++ l2) -> NoDup l1.
Proof.
  induction l1 as [|a l1 IH]; simpl; intros H; [constructor|]. inversion H; subst. constructor.
  - intros Hin. apply H2. apply in_or_app. left. exact Hin.
  - apply IH. assumption.
Qed.

(** measure of a DFS: how many nodes of [U] are not yet marked *)
Definition unmarked (U marked : list nat) : nat :=
  length (filter (fun x => negb (mem x marked)) U).

Lemma unmarked_mono U m m' : incl m m' -> unmarked U m' <= unmarked U m.
Proof.
  intros Hi. apply filter_length_le. intros x Hx.
  apply negb_true_iff in Hx. apply negb_true_iff.
  apply mem_false. apply mem_false in Hx. intros H. apply Hx. apply Hi. exact H.
Qed.

Lemma unmarked_cons_lt U m x : In x U -> ~ In x m -> unmarked U (x :: m) < unmarked U m.
Proof.
  intros Hu Hm. unfold unmarked.
  apply filter_length_lt with (a := x).
  - intros y Hy. apply negb_true_iff in Hy. apply negb_true_iff.
    apply mem_false. apply mem_false in Hy. intros H. apply Hy. right. exact H.
  - exact Hu.
  - apply negb_true_iff. apply mem_false. exact Hm.
  - apply negb_false_iff. apply mem_In. left. reflexivity.
Qed.

Lemma unmarked_nil U : unmarked U [] = length U.
Proof.
  unfold unmarked. induction U; simpl; [reflexivity|]. f_equal. exact IHU.
Qed.

(** * sortMap *)

Lemma index_of_in x s : In x s -> exists i, index_of x s = Some i /\ i < length s.
Proof.
  induction s as [|a s IH]; intros H; [destruct H|].
  simpl. destruct (a =? x) eqn:E.
  - exists 0. split; [reflexivity|lia].
  - destruct H as [->|H]; [rewrite Nat.eqb_refl in E; discriminate|].
    destruct (IH H) as [i [Hi Hl]]. rewrite Hi. exists (S i). split; [reflexivity|lia].
Qed.

Lemma index_of_notin x s : ~ In x s -> index_of x s = None.
Proof.
  induction s as [|a s IH]; intros H; [reflexivity|].
  simpl. destruct (a =? x) eqn:E.
  - apply Nat.eqb_eq in E. subst. exfalso. apply H. left. reflexivity.
  - rewrite IH; [reflexivity|]. intros H'. apply H. right. exact H'.
Qed.

Lemma index_of_app_in x s t : In x s -> index_of x (s ++ t) = index_of x s.
Proof.
  induction s as [|a s IH]; intros H; [destruct H|].
  simpl. destruct (a =? x) eqn:E; [reflexivity|].
  destruct H as [->|H]; [rewrite Nat.eqb_refl in E; discriminate|].
  rewrite (IH H). reflexivity.
Qed.

Lemma index_of_app_notin x s : ~ In x s -> index_of x (s ++ [x]) = Some (length s).
Proof.
  induction s as [|a s IH]; intros H; simpl.
  - rewrite Nat.eqb_refl. reflexivity.
  - destruct (a =? x) eqn:E.
    + apply Nat.eqb_eq in E. subst. exfalso. apply H. left. reflexivity.
    + rewrite IH; [reflexivity|]. intros H'. apply H. right. exact H'.
Qed.

Lemma sorted_idx_app_in s t x : In x s -> sorted_idx (s ++ t) x = sorted_idx s x.
Proof. intros H. unfold sorted_idx. rewrite index_of_app_in by exact H. reflexivity. Qed.

Lemma sorted_idx_lt s x : In x s -> sorted_idx s x < length s.
Proof.
  intros H. unfold sorted_idx. destruct (index_of_in x s H) as [i [Hi Hl]]. rewrite Hi. exact Hl.
Qed.

Lemma sorted_idx_snoc s x : ~ In x s -> sorted_idx (s ++ [x]) x = length s.
Proof. intros H. unfold sorted_idx. rewrite index_of_app_notin by exact H. reflexivity. Qed.

Lemma deps_get_in (deps : deps_t) x y :
  In y (deps_get x deps) -> In x (map fst deps) /\ In y (concat (map snd deps)).
Proof.
  induction deps as [|[k vs] d IH]; simpl; intros H; [destruct H|].
  destruct (x =? k) eqn:E.
  - apply Nat.eqb_eq in E. subst. split; [left; reflexivity|]. apply in_or_app. left. exact H.
  - destruct (IH H) as [H1 H2]. split; [right; exact H1|]. apply in_or_app. right. exact H2.
Qed.

Lemma remove_nat_notin x l : ~ In x l -> remove_nat x l = l.
Proof.
  induction l as [|a l IH]; intros H; [reflexivity|]. simpl.
  destruct (x =? a) eqn:E.
  - apply Nat.eqb_eq in E. subst. exfalso. apply H. left. reflexivity.
  - f_equal. apply IH. intros H'. apply H. right. exact H'.
Qed.

Section SortMap.
  Variable deps : deps_t.

  (** [s] lists every node after all the nodes it depends on *)
  Definition ord (s : list nat) : Prop :=
    forall x y, In x s -> In y (deps_get x deps) -> In y s /\ sorted_idx s y < sorted_idx s x.

  Lemma ord_snoc s x : ord s -> incl (deps_get x deps) s -> ord (s ++ [x]).
  Proof.
    intros Ho Hi a b Ha Hb.
    destruct (in_dec Nat.eq_dec a s) as [Has|Has].
    - destruct (Ho a b Has Hb) as [Hbs Hlt]. split; [apply in_or_app; left; exact Hbs|].
      rewrite !sorted_idx_app_in by assumption. exact Hlt.
    - apply in_app_or in Ha. destruct Ha as [Ha|[<-|[]]]; [contradiction|].
      pose proof (Hi b Hb) as Hbs. split; [apply in_or_app; left; exact Hbs|].
      rewrite sorted_idx_app_in by exact Hbs. rewrite sorted_idx_snoc by exact Has.
      apply sorted_idx_lt. exact Hbs.
  Qed.

  Definition vpost (name : nat) (s p : list nat) (r : vres) : Prop :=
    match r with
    | VOut => False
    | VRet true _ _ => True
    | VRet false s' p' =>
        p' = p /\ (exists new, s' = s ++ new) /\ In name s' /\ (ord s -> ord s')
    end.

  Definition vrpost (refs : list nat) (s p : list nat) (r : vres) : Prop :=
    match r with
    | VOut => False
    | VRet true _ _ => True
    | VRet false s' p' =>
        p' = p /\ (exists new, s' = s ++ new) /\ incl refs s' /\ (ord s -> ord s')
    end.

  Lemma visit_refs_spec visit1 p refs :
    (forall r s, In r refs -> vpost r s p (visit1 r s p)) ->
    forall s, vrpost refs s p (visit_refs visit1 refs s p).
  Proof.
    induction refs as [|r refs IH]; intros Hv s; simpl.
    - split; [reflexivity|split; [exists []; rewrite app_nil_r; reflexivity|split; [intros x []|tauto]]].
    - pose proof (Hv r s (or_introl eq_refl)) as H1.
      destruct (visit1 r s p) as [|[|] s1 p1]; simpl in *; [exact H1|exact I|].
      destruct H1 as [-> [[n1 ->] [Hr Ho1]]].
      assert (Hv' : forall r0 s0, In r0 refs -> vpost r0 s0 p (visit1 r0 s0 p)).
      { intros r0 s0 Hin. apply Hv. right. exact Hin. }
      specialize (IH Hv' (s ++ n1)).
      destruct (visit_refs visit1 refs (s ++ n1) p) as [|[|] s2 p2]; simpl in *; [exact IH|exact I|].
      destruct IH as [-> [[n2 ->] [Hi Ho2]]].
      split; [reflexivity|split; [|split]].
      + exists (n1 ++ n2). rewrite app_assoc. reflexivity.
      + intros x [<-|Hx]; [apply in_or_app; left; exact Hr|apply Hi; exact Hx].
      + intros Ho. apply Ho2. apply Ho1. exact Ho.
  Qed.

  Lemma visit_spec fuel : forall name s p,
    unmarked (universe deps) p < fuel -> vpost name s p (visit deps fuel name s p).
  Proof.
    induction fuel as [|f IH]; intros name s p Hm; [lia|].
    simpl. destruct (mem name s) eqn:Es.
    - simpl. apply mem_In in Es.
      split; [reflexivity|split; [exists []; rewrite app_nil_r; reflexivity|split; [exact Es|tauto]]].
    - destruct (mem name p) eqn:Ep; [exact I|].
      apply mem_false in Ep.
      assert (Hrefs : forall r s0, In r (deps_get name deps) ->
                vpost r s0 (name :: p) (visit deps f r s0 (name :: p))).
      { intros r s0 Hr. apply IH.
        destruct (deps_get_in deps name r Hr) as [Hk _].
        assert (Hu : In name (universe deps)) by (apply in_or_app; left; exact Hk).
        pose proof (unmarked_cons_lt (universe deps) p name Hu Ep). lia. }
      pose proof (visit_refs_spec (visit deps f) (name :: p) (deps_get name deps) Hrefs s) as H.
      destruct (visit_refs (visit deps f) (deps_get name deps) s (name :: p)) as [|[|] s1 p1];
        simpl in *; [exact H|exact I|].
      destruct H as [-> [[n1 ->] [Hi Ho]]].
      split; [|split; [|split]].
      + simpl. rewrite Nat.eqb_refl. apply remove_nat_notin. exact Ep.
      + exists (n1 ++ [name]). rewrite app_assoc. reflexivity.
      + apply in_or_app. right. left. reflexivity.
      + intros Hos. apply ord_snoc; [apply Ho; exact Hos|exact Hi].
  Qed.
End SortMap.

Lemma ord_nil deps : ord deps [].
Proof. intros x y []. Qed.

(** sortMap never runs out of fuel *)
Lemma sortMap_total cs : sortMap cs <> SMOut.
Proof.
  unfold sortMap. set (deps := dependencies cs).
  pose proof (visit_refs_spec deps (visit deps (sortMap_fuel deps)) [] (map fst deps)) as H.
  assert (Hv : forall r s, In r (map fst deps) ->
            vpost deps r s [] (visit deps (sortMap_fuel deps) r s [])).
  { intros r s _. apply visit_spec. rewrite unmarked_nil. unfold sortMap_fuel. lia. }
  specialize (H Hv []).
  destruct (visit_refs (visit deps (sortMap_fuel deps)) (map fst deps) [] []) as [|[|] s p];
    simpl in *; [destruct H|discriminate|discriminate].
Qed.

(** on success the index map is a reverse topological order of the dependency lists *)
Lemma sortMap_ok_order cs sorted :
  sortMap cs = SMOk sorted ->
  forall x y, In y (deps_get x (dependencies cs)) -> sorted_idx sorted y < sorted_idx sorted x.
Proof.
  unfold sortMap. set (deps := dependencies cs). intros H x y Hy.
  pose proof (visit_refs_spec deps (visit deps (sortMap_fuel deps)) [] (map fst deps)) as Hs.
  assert (Hv : forall r s, In r (map fst deps) ->
            vpost deps r s [] (visit deps (sortMap_fuel deps) r s [])).
  { intros r s _. apply visit_spec. rewrite unmarked_nil. unfold sortMap_fuel. lia. }
  specialize (Hs Hv []).
  destruct (visit_refs (visit deps (sortMap_fuel deps)) (map fst deps) [] []) as [|[|] s p];
    simpl in *; try discriminate.
  inversion H; subst s. destruct Hs as [_ [_ [Hi Ho]]].
  destruct (deps_get_in deps x y Hy) as [Hk _].
  apply (Ho (ord_nil deps) x y (Hi x Hk) Hy).
Qed.

Lemma sortMap_ok_bound cs sorted x :
  sortMap cs = SMOk sorted -> sorted_idx sorted x <= length sorted.
Proof.
  intros _. destruct (in_dec Nat.eq_dec x sorted) as [H|H].
  - pose proof (sorted_idx_lt sorted x H). lia.
  - unfold sorted_idx. rewrite index_of_notin by exact H. lia.
Qed.

(** * SortChanges: the closure [add] *)

Section Add.
  Variable edges : list (list nat).
  Variable n : nat.
  Hypothesis Hlen : length edges = n.
  Hypothesis Hrows : forall i j, In j (nth i edges []) -> j < n.

  Definition apost (targets : list nat) (st : dstate) (r : option dstate) : Prop :=
    match r with
    | None => False
    | Some st' =>
        exists new, snd st' = snd st ++ new /\ NoDup new /\
          (forall x, In x new -> ~ In x (fst st)) /\
          (forall x, In x (fst st') <-> In x (fst st) \/ In x new) /\
          incl targets (fst st') /\
          (forall x, In x new -> x < n)
    end.

  Lemma add_list_spec add1 (Q : list nat -> Prop) ds :
    (forall a a', incl a a' -> Q a -> Q a') ->
    (forall d st, In d ds -> d < n -> Q (fst st) -> ~ In d (fst st) -> apost [d] st (add1 d st)) ->
    (forall d, In d ds -> d < n) ->
    forall st, Q (fst st) -> apost ds st (add_list add1 ds st).
  Proof.
    intros Qm. induction ds as [|d ds IH]; intros Hadd Hlt st HQ; simpl.
    - exists []. rewrite app_nil_r. split; [reflexivity|]. split; [constructor|].
      split; [intros x []|]. split; [intros x; simpl; tauto|]. split; [intros x []|intros x []].
    - assert (Hadd' : forall d0 st0, In d0 ds -> d0 < n -> Q (fst st0) -> ~ In d0 (fst st0) ->
                apost [d0] st0 (add1 d0 st0)).
      { intros d0 st0 Hin. apply Hadd. right. exact Hin. }
      assert (Hlt' : forall d0, In d0 ds -> d0 < n) by (intros d0 Hin; apply Hlt; right; exact Hin).
      destruct (mem d (fst st)) eqn:Em.
      + apply mem_In in Em. specialize (IH Hadd' Hlt' st HQ).
        destruct (add_list add1 ds st) as [st'|]; simpl in *; [|exact IH].
        destruct IH as [new [H1 [H2 [H3 [H4 [H5 H6]]]]]]. exists new.
        repeat (split; [assumption|]). split; [|exact H6].
        intros x [<-|Hx]; [apply H4; left; exact Em|apply H5; exact Hx].
      + apply mem_false in Em.
        pose proof (Hadd d st (or_introl eq_refl) (Hlt d (or_introl eq_refl)) HQ Em) as Ha.
        destruct (add1 d st) as [st1|]; simpl in *; [|exact Ha].
        destruct Ha as [new1 [A1 [A2 [A3 [A4 [A5 A6]]]]]].
        assert (HQ1 : Q (fst st1)).
        { apply Qm with (a := fst st); [|exact HQ]. intros x Hx. apply A4. left. exact Hx. }
        specialize (IH Hadd' Hlt' st1 HQ1).
        destruct (add_list add1 ds st1) as [st2|]; simpl in *; [|exact IH].
        destruct IH as [new2 [B1 [B2 [B3 [B4 [B5 B6]]]]]].
        exists (new1 ++ new2). split; [rewrite B1, A1, app_assoc; reflexivity|].
        split.
        { apply NoDup_app_intro; try assumption. intros x Hx1 Hx2.
          apply (B3 x Hx2). apply A4. right. exact Hx1. }
        split.
        { intros x Hx. apply in_app_or in Hx. destruct Hx as [Hx|Hx]; [apply A3; exact Hx|].
          intros Hf. apply (B3 x Hx). apply A4. left. exact Hf. }
        split.
        { intros x. rewrite B4, A4, in_app_iff. tauto. }
        split.
        { intros x [<-|Hx]; [apply B4; left; apply A5; left; reflexivity|apply B5; exact Hx]. }
        intros x Hx. apply in_app_or in Hx. destruct Hx as [Hx|Hx]; [apply A6|apply B6]; exact Hx.
  Qed.

  Lemma add_spec fuel : forall c st,
    c < n -> unmarked (seq 0 n) (fst st) < fuel -> apost [c] st (add edges fuel c st).
  Proof.
    induction fuel as [|f IH]; intros c st Hc Hm; [lia|].
    simpl. destruct (mem c (fst st)) eqn:Em.
    - apply mem_In in Em. simpl. exists []. rewrite app_nil_r. split; [reflexivity|].
      split; [constructor|]. split; [intros x []|]. split; [intros x; simpl; tauto|].
      split; [intros x [<-|[]]; exact Em|intros x []].
    - apply mem_false in Em.
      assert (Hin : In c (seq 0 n)) by (apply in_seq; lia).
      pose proof (unmarked_cons_lt (seq 0 n) (fst st) c Hin Em) as Hlt.
      pose proof (add_list_spec (add edges f) (fun a => unmarked (seq 0 n) a < f) (nth c edges [])) as Hl.
      assert (Qm : forall a a', incl a a' -> unmarked (seq 0 n) a < f -> unmarked (seq 0 n) a' < f).
      { intros a a' Hi Ha. pose proof (unmarked_mono (seq 0 n) a a' Hi). lia. }
      specialize (Hl Qm).
      assert (Hadd : forall d st0, In d (nth c edges []) -> d < n ->
                unmarked (seq 0 n) (fst st0) < f -> ~ In d (fst st0) -> apost [d] st0 (add edges f d st0)).
      { intros d st0 _ Hd Hq _. apply IH; assumption. }
      specialize (Hl Hadd (Hrows c) (c :: fst st, snd st)). simpl fst in Hl.
      assert (Hq0 : unmarked (seq 0 n) (c :: fst st) < f) by lia.
      specialize (Hl Hq0).
      destruct (add_list (add edges f) (nth c edges []) (c :: fst st, snd st)) as [[added planned]|];
        simpl in *; [|exact Hl].
      destruct Hl as [new1 [A1 [A2 [A3 [A4 [A5 A6]]]]]].
      exists (new1 ++ [c]). split; [rewrite A1, app_assoc; reflexivity|].
      split.
      { apply NoDup_app_intro; [exact A2|constructor; [intros []|constructor]|].
        intros x Hx [Hxc|[]]. subst x. apply (A3 c Hx). left. reflexivity. }
      split.
      { intros x Hx. apply in_app_or in Hx. destruct Hx as [Hx|[<-|[]]]; [|exact Em].
        intros Hf. apply (A3 x Hx). right. exact Hf. }
      split.
      { intros x. rewrite A4, in_app_iff. simpl. intuition. }
      split.
      { intros x [<-|[]]. apply A4. left. left. reflexivity. }
      intros x Hx. apply in_app_or in Hx. destruct Hx as [Hx|[<-|[]]]; [apply A6; exact Hx|exact Hc].
  Qed.
End Add.

(** * SortChanges: the edge map *)

Lemma number_in {A} (l : list A) : forall k j x, In (j, x) (number k l) -> k <= j < k + length l /\ nth_error l (j - k) = Some x.
Proof.
  induction l as [|a l IH]; intros k j x H; simpl in *; [destruct H|].
  destruct H as [H|H].
  - inversion H; subst. split; [lia|]. rewrite Nat.sub_diag. reflexivity.
  - destruct (IH (S k) j x H) as [Hr Hn]. split; [lia|].
    replace (j - k) with (S (j - S k)) by lia. exact Hn.
Qed.

Lemma number_nth {A} (l : list A) : forall k m, nth_error (number k l) m = option_map (fun x => (k + m, x)) (nth_error l m).
Proof.
  induction l as [|a l IH]; intros k m; simpl.
  - destruct m; reflexivity.
  - destruct m as [|m]; simpl; [rewrite Nat.add_0_r; reflexivity|].
    rewrite IH. replace (S k + m) with (k + S m) by lia. reflexivity.
Qed.

Lemma number_length {A} (l : list A) k : length (number k l) = length l.
Proof. revert k; induction l; intros k; simpl; [reflexivity|]. f_equal. apply IHl. Qed.

Lemma edges_row_in i c1 : forall js hasE row j,
  In j (fst (edges_row i c1 js hasE row)) ->
  In j row \/ exists c2, In (j, c2) js /\ i <> j /\ dependsOn c1 c2 = true.
Proof.
  induction js as [|[j' c2] js IH]; intros hasE row j H; simpl in *; [left; exact H|].
  destruct (negb (i =? j') && negb (memp (j', i) hasE) && dependsOn c1 c2) eqn:E.
  - apply IH in H. destruct H as [H|[c [Hc Hd]]].
    + apply in_app_or in H. destruct H as [H|[<-|[]]]; [left; exact H|].
      right. exists c2. split; [left; reflexivity|].
      apply andb_true_iff in E. destruct E as [E Ed]. apply andb_true_iff in E. destruct E as [E _].
      apply negb_true_iff in E. apply Nat.eqb_neq in E. split; assumption.
    + right. exists c. split; [right; exact Hc|exact Hd].
  - apply IH in H. destruct H as [H|[c [Hc Hd]]]; [left; exact H|].
    right. exists c. split; [right; exact Hc|exact Hd].
Qed.

Lemma edges_rows_length all : forall is hasE, length (edges_rows is all hasE) = length is.
Proof.
  induction is as [|[i c1] is IH]; intros hasE; simpl; [reflexivity|].
  destruct (edges_row i c1 all hasE []) as [row hasE'] eqn:E. simpl. f_equal. apply IH.
Qed.

Lemma edges_rows_in all : forall is hasE m j,
  In j (nth m (edges_rows is all hasE) []) ->
  exists i c1 c2, nth_error is m = Some (i, c1) /\ In (j, c2) all /\ i <> j /\ dependsOn c1 c2 = true.
Proof.
  induction is as [|[i c1] is IH]; intros hasE m j H; simpl in *.
  - destruct m; destruct H.
  - destruct (edges_row i c1 all hasE []) as [row hasE'] eqn:E.
    destruct m as [|m]; simpl in *.
    + pose proof (edges_row_in i c1 all hasE [] j) as Hr. rewrite E in Hr. simpl in Hr.
      destruct (Hr H) as [[]|[c2 Hc]]. exists i, c1, c2. split; [reflexivity|exact Hc].
    + apply IH in H. exact H.
Qed.

Lemma build_edges_length cs : length (build_edges cs) = length cs.
Proof. unfold build_edges. rewrite edges_rows_length. apply number_length. Qed.

(** an edge i -> j of the edge map joins two distinct positions whose changes are related by dependsOn *)
Lemma build_edges_in cs i j :
  In j (nth i (build_edges cs) []) ->
  exists c1 c2, nth_error cs i = Some c1 /\ nth_error cs j = Some c2 /\ i <> j /\ dependsOn c1 c2 = true.
Proof.
  unfold build_edges. intros H. apply edges_rows_in in H.
  destruct H as [i' [c1 [c2 [Hn [Hin [Hne Hd]]]]]].
  rewrite number_nth in Hn. destruct (nth_error cs i) as [c|] eqn:Ei; simpl in Hn; [|discriminate].
  inversion Hn; subst. simpl in *. apply number_in in Hin. destruct Hin as [_ Hj].
  rewrite Nat.sub_0_r in Hj. exists c1, c2. repeat split; assumption.
Qed.

Lemma build_edges_lt cs i j : In j (nth i (build_edges cs) []) -> j < length cs.
Proof.
  intros H. destruct (build_edges_in cs i j H) as [c1 [c2 [_ [H2 _]]]].
  apply nth_error_Some. rewrite H2. discriminate.
Qed.

Lemma flat_map_pick_seq (pre l : list change) :
  flat_map (pick (pre ++ l)) (seq (length pre) (length l)) = l.
Proof.
  revert pre. induction l as [|a l IH]; intros pre; simpl; [reflexivity|].
  unfold pick at 1. rewrite nth_error_app2 by lia. rewrite Nat.sub_diag. simpl. f_equal.
  specialize (IH (pre ++ [a])). rewrite <- app_assoc in IH. simpl in IH.
  rewrite app_length in IH. simpl in IH. replace (length pre + 1) with (S (length pre)) in IH by lia.
  exact IH.
Qed.

Lemma unmarked_le U m : unmarked U m <= length U.
Proof. unfold unmarked. induction U as [|a U IH]; simpl; [lia|]. destruct (negb (mem a m)); simpl; lia. Qed.

(** SortChanges never runs out of fuel and returns a permutation of its (partitioned) input,
    for every dependency relation, cyclic or not *)
Lemma SortChanges_perm l :
  exists out, SortChanges l = Some out /\ Permutation (partition_changes l) out.
Proof.
  unfold SortChanges. set (cs := partition_changes l). set (n := length cs).
  pose proof (add_list_spec n (add (build_edges cs) (S n))
                (fun a => unmarked (seq 0 n) a < S n) (seq 0 n)) as H.
  assert (Qm : forall a a', incl a a' -> unmarked (seq 0 n) a < S n -> unmarked (seq 0 n) a' < S n).
  { intros a a' _ _. pose proof (unmarked_le (seq 0 n) a'). rewrite seq_length in *. lia. }
  specialize (H Qm).
  assert (Hadd : forall d st, In d (seq 0 n) -> d < n -> unmarked (seq 0 n) (fst st) < S n ->
            ~ In d (fst st) -> apost n [d] st (add (build_edges cs) (S n) d st)).
  { intros d st _ Hd Hq _. apply add_spec; try assumption.
    - apply build_edges_length.
    - intros i j Hj. apply (build_edges_lt cs i j Hj). }
  assert (Hlt : forall d, In d (seq 0 n) -> d < n) by (intros d Hd; apply in_seq in Hd; lia).
  specialize (H Hadd Hlt ([], [])). simpl fst in H.
  assert (Hq : unmarked (seq 0 n) [] < S n) by (rewrite unmarked_nil, seq_length; lia).
  specialize (H Hq).
  destruct (add_list (add (build_edges cs) (S n)) (seq 0 n) ([], [])) as [[added planned]|];
    simpl in *; [|destruct H].
  destruct H as [new [A1 [A2 [A3 [A4 [A5 A6]]]]]]. subst planned.
  eexists. split; [reflexivity|].
  assert (Hp : Permutation (seq 0 n) new).
  { apply NoDup_Permutation; [apply seq_NoDup|exact A2|].
    intros x. split.
    - intros Hx. apply A5 in Hx. apply A4 in Hx. destruct Hx as [[]|Hx]. exact Hx.
    - intros Hx. apply in_seq. pose proof (A6 x Hx). lia. }
  pose proof (flat_map_pick_seq [] cs) as Hf. simpl in Hf. fold n in Hf.
  rewrite <- Hf at 1. apply Permutation_flat_map. exact Hp.
Qed.

(** * SortChanges on an input whose dependsOn edges all point backwards *)

Lemma add_list_skip add1 ds st :
  (forall d, In d ds -> In d (fst st)) -> add_list add1 ds st = Some st.
Proof.
  induction ds as [|d ds IH]; intros H; simpl; [reflexivity|].
  assert (Hd : mem d (fst st) = true) by (apply mem_In; apply H; left; reflexivity).
  rewrite Hd. apply IH. intros d' Hd'. apply H. right. exact Hd'.
Qed.

Lemma add_S edges f c st :
  add edges (S f) c st =
  if mem c (fst st) then Some st
  else match add_list (add edges f) (nth c edges []) (c :: fst st, snd st) with
       | None => None
       | Some (added, planned) => Some (added, planned ++ [c])
       end.
Proof. reflexivity. Qed.

Definition backward (cs : list change) : Prop :=
  forall i j c1 c2, nth_error cs i = Some c1 -> nth_error cs j = Some c2 -> i <> j ->
    dependsOn c1 c2 = true -> j < i.

Lemma add_loop_backward edges n :
  (forall i j, In j (nth i edges []) -> j < i) ->
  forall m k added, k + m = n -> (forall j, In j added <-> j < k) ->
    exists added', add_list (add edges (S n)) (seq k m) (added, seq 0 k) = Some (added', seq 0 n).
Proof.
  intros Hb. induction m as [|m IH]; intros k added Hk Ha.
  - simpl. exists added. replace k with n by lia. reflexivity.
  - assert (Em : mem k added = false).
    { apply mem_false. intros Hin. apply Ha in Hin. lia. }
    change (seq k (S m)) with (k :: seq (S k) m). cbn [add_list fst]. rewrite Em.
    rewrite add_S. cbn [fst snd]. rewrite Em.
    rewrite add_list_skip.
    2:{ simpl. intros d Hd. right. apply Ha. apply (Hb k d Hd). }
    replace (seq 0 k ++ [k]) with (seq 0 (S k)) by (rewrite seq_S; reflexivity).
    apply IH; [lia|].
    intros j. simpl. rewrite Ha. lia.
Qed.

Lemma SortChanges_backward l :
  backward (partition_changes l) -> SortChanges l = Some (partition_changes l).
Proof.
  intros Hb. unfold SortChanges. set (cs := partition_changes l) in *. set (n := length cs).
  assert (He : forall i j, In j (nth i (build_edges cs) []) -> j < i).
  { intros i j Hj. destruct (build_edges_in cs i j Hj) as [c1 [c2 [H1 [H2 [H3 H4]]]]].
    apply (Hb i j c1 c2 H1 H2 H3 H4). }
  destruct (add_loop_backward (build_edges cs) n He n 0 []) as [added' Hl]; [lia|simpl; intros; lia|].
  change (seq 0 0) with (@nil nat) in Hl. rewrite Hl. f_equal.
  pose proof (flat_map_pick_seq [] cs) as Hf. simpl in Hf. exact Hf.
Qed.

(** * SortChanges when the dependsOn edges are acyclic (witnessed by a rank), in any direction *)

Lemma flat_map_split {A B} (h : A -> list B) : forall l pre' y post',
  flat_map h l = pre' ++ y :: post' ->
  exists pre x post p1 p2, l = pre ++ x :: post /\ h x = p1 ++ y :: p2 /\
    pre' = flat_map h pre ++ p1 /\ post' = p2 ++ flat_map h post.
Proof.
  induction l as [|x l IH]; intros pre' y post' E; simpl in E.
  - destruct pre'; discriminate.
  - symmetry in E. apply app_eq_app in E. destruct E as [l0 [[E1 E2]|[E1 E2]]].
    + destruct (IH l0 y post' E2) as [pre [x0 [post [p1 [p2 [H1 [H2 [H3 H4]]]]]]]].
      exists (x :: pre), x0, post, p1, p2. split; [rewrite H1; reflexivity|]. split; [exact H2|].
      split; [|exact H4]. simpl. rewrite <- app_assoc, <- H3. exact E1.
    + destruct l0 as [|z l0]; simpl in E2.
      * rewrite app_nil_r in E1. subst pre'.
        destruct (IH [] y post' (eq_sym E2)) as [pre [x0 [post [p1 [p2 [H1 [H2 [H3 H4]]]]]]]].
        exists (x :: pre), x0, post, p1, p2. split; [rewrite H1; reflexivity|]. split; [exact H2|].
        split; [|exact H4]. simpl. rewrite <- app_assoc, <- H3, app_nil_r. reflexivity.
      * inversion E2; subst. exists [], x, l, pre', l0. repeat split; assumption.
Qed.

Lemma add_list_app add1 ds1 ds2 st :
  add_list add1 (ds1 ++ ds2) st =
  match add_list add1 ds1 st with None => None | Some st1 => add_list add1 ds2 st1 end.
Proof.
  revert st. induction ds1 as [|d ds1 IH]; intros st; simpl; [reflexivity|].
  destruct (mem d (fst st)); [apply IH|]. destruct (add1 d st); [apply IH|reflexivity].
Qed.

Section Respect.
  Variable edges : list (list nat).
  Variable rho : nat -> nat.
  Hypothesis Hrho : forall i j, In j (nth i edges []) -> rho j < rho i.

  (* every node stands after all the nodes it has an edge to *)
  Definition ordered (pl : list nat) : Prop :=
    forall p1 i p2, pl = p1 ++ i :: p2 -> incl (nth i edges []) p1.

  Lemma ordered_snoc pl c : ordered pl -> incl (nth c edges []) pl -> ordered (pl ++ [c]).
  Proof.
    intros Ho Hi p1 i p2 E.
    destruct p2 as [|b p2] using rev_ind.
    - apply app_inj_tail in E. destruct E as [E1 E2]. subst. exact Hi.
    - clear IHp2. rewrite app_comm_cons, app_assoc in E. apply app_inj_tail in E. destruct E as [E1 _].
      apply (Ho p1 i p2 E1).
  Qed.

  (* state invariant; in progress = added but not yet planned *)
  Definition rinv (c : nat) (st : dstate) : Prop :=
    ordered (snd st) /\ incl (snd st) (fst st) /\
    (forall y, In y (fst st) -> ~ In y (snd st) -> rho c < rho y).

  Definition rpost (st st' : dstate) : Prop :=
    ordered (snd st') /\ incl (snd st') (fst st') /\ incl (fst st) (fst st') /\ incl (snd st) (snd st') /\
    (forall y, In y (fst st') -> ~ In y (snd st') -> In y (fst st) /\ ~ In y (snd st)).

  Lemma add_list_resp add1 ds :
    (forall d st st', In d ds -> add1 d st = Some st' -> rinv d st -> rpost st st' /\ In d (snd st')) ->
    forall st st', add_list add1 ds st = Some st' ->
      ordered (snd st) -> incl (snd st) (fst st) ->
      (forall d y, In d ds -> In y (fst st) -> ~ In y (snd st) -> rho d < rho y) ->
      rpost st st' /\ incl ds (snd st').
  Proof.
    induction ds as [|d ds IH]; intros Hadd st st' H Ho Hpa Hin; simpl in H.
    - inversion H; subst. split; [|intros x []].
      split; [exact Ho|]. split; [exact Hpa|]. split; [intros x Hx; exact Hx|]. split; [intros x Hx; exact Hx|].
      intros y H1 H2. split; assumption.
    - assert (Hadd' : forall d0 st0 st0', In d0 ds -> add1 d0 st0 = Some st0' -> rinv d0 st0 ->
                rpost st0 st0' /\ In d0 (snd st0')).
      { intros d0 st0 st0' Hd0. apply Hadd. right. exact Hd0. }
      destruct (mem d (fst st)) eqn:Em.
      + apply mem_In in Em.
        assert (Hdp : In d (snd st)).
        { destruct (in_dec Nat.eq_dec d (snd st)) as [Hy|Hn]; [exact Hy|exfalso].
          pose proof (Hin d d (or_introl eq_refl) Em Hn). lia. }
        destruct (IH Hadd' st st' H Ho Hpa) as [Hp Hi].
        { intros d0 y Hd0. apply Hin. right. exact Hd0. }
        split; [exact Hp|]. intros x [<-|Hx]; [|apply Hi; exact Hx].
        destruct Hp as [_ [_ [_ [Hs _]]]]. apply Hs. exact Hdp.
      + destruct (add1 d st) as [st1|] eqn:E1; [|discriminate].
        assert (Hri : rinv d st).
        { split; [exact Ho|]. split; [exact Hpa|]. intros y. apply Hin. left. reflexivity. }
        destruct (Hadd d st st1 (or_introl eq_refl) E1 Hri) as [[P1 [P2 [P3 [P4 P5]]]] Hd1].
        destruct (IH Hadd' st1 st' H P1 P2) as [[Q1 [Q2 [Q3 [Q4 Q5]]]] Hi].
        { intros d0 y Hd0 Hy1 Hy2. destruct (P5 y Hy1 Hy2) as [Ha Hb]. apply (Hin d0 y (or_intror Hd0) Ha Hb). }
        split.
        * split; [exact Q1|]. split; [exact Q2|]. split; [intros x Hx; apply Q3; apply P3; exact Hx|].
          split; [intros x Hx; apply Q4; apply P4; exact Hx|].
          intros y Hy1 Hy2. destruct (Q5 y Hy1 Hy2) as [Ha Hb]. apply (P5 y Ha Hb).
        * intros x [<-|Hx]; [apply Q4; exact Hd1|apply Hi; exact Hx].
  Qed.

  Lemma add_resp fuel : forall c st st',
    add edges fuel c st = Some st' -> rinv c st -> rpost st st' /\ In c (snd st').
  Proof.
    induction fuel as [|f IH]; intros c st st' H [Ho [Hpa Hin]]; [discriminate|].
    rewrite add_S in H. destruct (mem c (fst st)) eqn:Em.
    - inversion H; subst st'. apply mem_In in Em.
      assert (Hcp : In c (snd st)).
      { destruct (in_dec Nat.eq_dec c (snd st)) as [Hy|Hn]; [exact Hy|exfalso].
        pose proof (Hin c Em Hn). lia. }
      split; [|exact Hcp].
      split; [exact Ho|]. split; [exact Hpa|]. split; [intros x Hx; exact Hx|]. split; [intros x Hx; exact Hx|].
      intros y H1 H2. split; assumption.
    - apply mem_false in Em.
      destruct (add_list (add edges f) (nth c edges []) (c :: fst st, snd st)) as [[added planned]|] eqn:El; [|discriminate].
      inversion H; subst st'. clear H.
      assert (Hcnp : ~ In c (snd st)) by (intros Hc; apply Em; apply Hpa; exact Hc).
      destruct (add_list_resp (add edges f) (nth c edges [])
                  (fun d st0 st0' _ Hs Hr => IH d st0 st0' Hs Hr)
                  (c :: fst st, snd st) (added, planned) El) as [[P1 [P2 [P3 [P4 P5]]]] Hi].
      + exact Ho.
      + simpl. intros x Hx. right. apply Hpa. exact Hx.
      + simpl. intros d y Hd [<-|Hy] Hny; [apply Hrho; exact Hd|].
        pose proof (Hrho c d Hd). pose proof (Hin y Hy Hny). lia.
      + simpl in *. split; [|apply in_or_app; right; left; reflexivity].
        split; [apply ordered_snoc; assumption|].
        split.
        { intros x Hx. apply in_app_or in Hx. destruct Hx as [Hx|[<-|[]]]; [apply P2; exact Hx|].
          apply P3. left. reflexivity. }
        split; [intros x Hx; apply P3; right; exact Hx|].
        split; [intros x Hx; apply in_or_app; left; apply P4; exact Hx|].
        intros y Hy1 Hy2.
        assert (Hny : ~ In y planned) by (intros Hp; apply Hy2; apply in_or_app; left; exact Hp).
        destruct (P5 y Hy1 Hny) as [[<-|Ha] Hb].
        * exfalso. apply Hy2. apply in_or_app. right. left. reflexivity.
        * split; assumption.
  Qed.

  (* a set of nodes closed under the edges: the search started inside never leaves it *)
  Variable Q : nat -> Prop.
  Hypothesis HQ : forall i j, Q i -> In j (nth i edges []) -> Q j.

  Lemma add_list_closed add1 ds :
    (forall d st st', In d ds -> add1 d st = Some st' -> forall x, In x (snd st') -> In x (snd st) \/ Q x) ->
    forall st st', add_list add1 ds st = Some st' -> forall x, In x (snd st') -> In x (snd st) \/ Q x.
  Proof.
    induction ds as [|d ds IH]; intros Hadd st st' H x Hx; simpl in H.
    - inversion H; subst. left. exact Hx.
    - assert (Hadd' : forall d0 st0 st0', In d0 ds -> add1 d0 st0 = Some st0' ->
                forall x0, In x0 (snd st0') -> In x0 (snd st0) \/ Q x0).
      { intros d0 st0 st0' Hd0. apply Hadd. right. exact Hd0. }
      destruct (mem d (fst st)); [apply (IH Hadd' st st' H x Hx)|].
      destruct (add1 d st) as [st1|] eqn:E1; [|discriminate].
      destruct (IH Hadd' st1 st' H x Hx) as [H1|H1]; [|right; exact H1].
      apply (Hadd d st st1 (or_introl eq_refl) E1 x H1).
  Qed.

  Lemma add_closed fuel : forall c st st', Q c ->
    add edges fuel c st = Some st' -> forall x, In x (snd st') -> In x (snd st) \/ Q x.
  Proof.
    induction fuel as [|f IH]; intros c st st' Hc H x Hx; [discriminate|].
    rewrite add_S in H. destruct (mem c (fst st)).
    - inversion H; subst. left. exact Hx.
    - destruct (add_list (add edges f) (nth c edges []) (c :: fst st, snd st)) as [[added planned]|] eqn:El; [|discriminate].
      inversion H; subst st'. simpl in Hx. apply in_app_or in Hx. destruct Hx as [Hx|[<-|[]]]; [|right; exact Hc].
      apply (add_list_closed (add edges f) (nth c edges [])
               (fun d st0 st0' Hd Hs => IH d st0 st0' (HQ c d Hc Hd) Hs) _ _ El x Hx).
  Qed.
End Respect.

(** ** the edge map is complete when dependsOn has no 2-cycle (the inverse-edge test never fires) *)
Lemma memp_cons p q h : memp p (q :: h) = ((fst p =? fst q) && (snd p =? snd q)) || memp p h.
Proof. reflexivity. Qed.

Section Complete.
  Variable cs : list change.
  Hypothesis Hno2 : forall p q cp cq, nth_error cs p = Some cp -> nth_error cs q = Some cq -> p <> q ->
    dependsOn cp cq = true -> dependsOn cq cp = true -> False.

  Definition hgood (hasE : list (nat * nat)) : Prop :=
    forall p q, memp (p, q) hasE = true ->
      exists cp cq, nth_error cs p = Some cp /\ nth_error cs q = Some cq /\ dependsOn cp cq = true.

  Lemma edges_row_complete i c1 : nth_error cs i = Some c1 ->
    forall js hasE row, (forall j c2, In (j, c2) js -> nth_error cs j = Some c2) -> hgood hasE ->
      hgood (snd (edges_row i c1 js hasE row)) /\
      incl row (fst (edges_row i c1 js hasE row)) /\
      (forall j c2, In (j, c2) js -> i <> j -> dependsOn c1 c2 = true -> In j (fst (edges_row i c1 js hasE row))).
  Proof.
    intros Hi. induction js as [|[j c2] js IH]; intros hasE row Hjs Hg; simpl.
    - split; [exact Hg|]. split; [intros x Hx; exact Hx|intros j c2 []].
    - assert (Hjs' : forall j0 c0, In (j0, c0) js -> nth_error cs j0 = Some c0).
      { intros j0 c0 H0. apply Hjs. right. exact H0. }
      pose proof (Hjs j c2 (or_introl eq_refl)) as Hj.
      destruct (negb (i =? j) && negb (memp (j, i) hasE) && dependsOn c1 c2) eqn:E.
      + apply andb_true_iff in E. destruct E as [E Ed]. apply andb_true_iff in E. destruct E as [En _].
        assert (Hg' : hgood ((i, j) :: hasE)).
        { intros p q Hm. rewrite memp_cons in Hm. apply orb_true_iff in Hm. destruct Hm as [Hm|Hm]; [|apply Hg; exact Hm].
          simpl in Hm. apply andb_true_iff in Hm. destruct Hm as [H1 H2].
          apply Nat.eqb_eq in H1. apply Nat.eqb_eq in H2. subst. exists c1, c2. repeat split; assumption. }
        destruct (IH ((i, j) :: hasE) (row ++ [j]) Hjs' Hg') as [G1 [G2 G3]].
        split; [exact G1|]. split; [intros x Hx; apply G2; apply in_or_app; left; exact Hx|].
        intros j0 c0 [H0|H0] Hne Hd; [|apply (G3 j0 c0 H0 Hne Hd)].
        inversion H0; subst. apply G2. apply in_or_app. right. left. reflexivity.
      + destruct (IH hasE row Hjs' Hg) as [G1 [G2 G3]].
        split; [exact G1|]. split; [exact G2|].
        intros j0 c0 [H0|H0] Hne Hd; [|apply (G3 j0 c0 H0 Hne Hd)].
        inversion H0; subst. exfalso.
        apply Nat.eqb_neq in Hne. rewrite Hne, Hd in E. simpl in E. rewrite andb_true_r in E.
        apply negb_false_iff in E. destruct (Hg j0 i E) as [cp [cq [Hp [Hq Hdep]]]].
        rewrite Hj in Hp. rewrite Hi in Hq. inversion Hp; inversion Hq; subst.
        apply Nat.eqb_neq in Hne. apply (Hno2 i j0 cq cp Hi Hj Hne Hd Hdep).
  Qed.

  Lemma edges_rows_complete all : (forall j c2, In (j, c2) all -> nth_error cs j = Some c2) ->
    forall is hasE, (forall i c1, In (i, c1) is -> nth_error cs i = Some c1) -> hgood hasE ->
    forall m i c1, nth_error is m = Some (i, c1) ->
    forall j c2, In (j, c2) all -> i <> j -> dependsOn c1 c2 = true -> In j (nth m (edges_rows is all hasE) []).
  Proof.
    intros Hall. induction is as [|[i0 c0] is IH]; intros hasE His Hg m i c1 Hm j c2 Hj Hne Hd.
    - destruct m; discriminate.
    - simpl. pose proof (His i0 c0 (or_introl eq_refl)) as Hi0.
      destruct (edges_row_complete i0 c0 Hi0 all hasE [] Hall Hg) as [G1 [_ G3]].
      destruct (edges_row i0 c0 all hasE []) as [row hasE'] eqn:E. simpl in *.
      destruct m as [|m]; simpl in *.
      + inversion Hm; subst. apply (G3 j c2 Hj Hne Hd).
      + apply (IH hasE' (fun i1 c1' H1 => His i1 c1' (or_intror H1)) G1 m i c1 Hm j c2 Hj Hne Hd).
  Qed.

  Lemma build_edges_complete i j c1 c2 :
    nth_error cs i = Some c1 -> nth_error cs j = Some c2 -> i <> j -> dependsOn c1 c2 = true ->
    In j (nth i (build_edges cs) []).
  Proof.
    intros Hi Hj Hne Hd. unfold build_edges.
    assert (Hall : forall j0 c0, In (j0, c0) (number 0 cs) -> nth_error cs j0 = Some c0).
    { intros j0 c0 H0. apply number_in in H0. destruct H0 as [_ H0]. rewrite Nat.sub_0_r in H0. exact H0. }
    apply (edges_rows_complete (number 0 cs) Hall (number 0 cs) [] Hall) with (i := i) (c1 := c1) (c2 := c2); try assumption.
    - intros p q Hm. discriminate.
    - rewrite number_nth, Hi. reflexivity.
    - assert (Hn : nth_error (number 0 cs) j = Some (0 + j, c2)) by (rewrite number_nth, Hj; reflexivity).
      apply nth_error_In in Hn. exact Hn.
  Qed.
End Complete.

Lemma NoDup_split_unique {A} (p1 q1 p2 q2 : list A) x :
  p1 ++ x :: q1 = p2 ++ x :: q2 -> NoDup (p1 ++ x :: q1) -> p1 = p2.
Proof.
  revert p2. induction p1 as [|a p1 IH]; intros p2 E Hn.
  - destruct p2 as [|b p2]; [reflexivity|]. simpl in E. injection E as Eb Eq. subst b. exfalso.
    simpl in Hn. inversion Hn as [|? ? Hx _]; subst. apply Hx. apply in_or_app. right. left. reflexivity.
  - destruct p2 as [|b p2]; simpl in E; injection E as Eb Eq.
    + subst a. exfalso. simpl in Hn. inversion Hn as [|? ? Hx _]; subst. apply Hx. apply in_or_app. right. left. reflexivity.
    + subst b. f_equal. apply (IH p2 Eq). simpl in Hn. inversion Hn; assumption.
Qed.

Lemma pick_in cs i x : In x (pick cs i) -> nth_error cs i = Some x.
Proof. unfold pick. destruct (nth_error cs i); [intros [<-|[]]; reflexivity|intros []]. Qed.

(** ** the statement at the level of changes *)
Definition before_all (out : list change) (P : change -> change -> Prop) : Prop :=
  forall pre x post y, out = pre ++ x :: post -> P x y -> In y pre.

Theorem SortChanges_ranked (r : change -> nat) l :
  let cs := partition_changes l in
  NoDup cs ->
  (forall x y, In x cs -> In y cs -> x <> y -> dependsOn x y = true -> r y < r x) ->
  exists out, SortChanges l = Some out /\ Permutation cs out /\
    (* every dependency stands before its dependent *)
    (forall pre x post y, out = pre ++ x :: post -> In y cs -> y <> x -> dependsOn x y = true -> In y pre) /\
    (* when no non-drop depends on a drop, the drops stay behind all the other changes *)
    ((forall x y, In x cs -> In y cs -> is_drop x = false -> x <> y -> dependsOn x y = true -> is_drop y = false) ->
     forall pre x post y, out = pre ++ x :: post -> is_drop x = false -> In y pre -> is_drop y = false).
Proof.
  intros cs Hnd Hr. unfold SortChanges. fold cs. set (n := length cs). set (edges := build_edges cs).
  set (rho := fun i => match nth_error cs i with Some c => r c | None => 0 end).
  assert (Hneq : forall i j ci cj, nth_error cs i = Some ci -> nth_error cs j = Some cj -> i <> j -> ci <> cj).
  { intros i j ci cj Hi Hj Hij E. subst cj. apply Hij.
    apply (proj1 (NoDup_nth_error cs) Hnd i j); [apply nth_error_Some; rewrite Hi; discriminate|rewrite Hi, Hj; reflexivity]. }
  assert (Hrho : forall i j, In j (nth i edges []) -> rho j < rho i).
  { intros i j Hj. destruct (build_edges_in cs i j Hj) as [c1 [c2 [H1 [H2 [H3 H4]]]]].
    unfold rho. rewrite H1, H2. apply Hr; [apply (nth_error_In _ _ H1)|apply (nth_error_In _ _ H2)| |exact H4].
    apply (Hneq i j c1 c2 H1 H2 H3). }
  assert (Hno2 : forall p q cp cq, nth_error cs p = Some cp -> nth_error cs q = Some cq -> p <> q ->
            dependsOn cp cq = true -> dependsOn cq cp = true -> False).
  { intros p q cp cq Hp Hq Hpq H1 H2.
    pose proof (Hneq p q cp cq Hp Hq Hpq) as Hne.
    pose proof (Hr cp cq (nth_error_In _ _ Hp) (nth_error_In _ _ Hq) Hne H1).
    pose proof (Hr cq cp (nth_error_In _ _ Hq) (nth_error_In _ _ Hp) (fun E => Hne (eq_sym E)) H2). lia. }
  (* the run: first the non-drops (positions < k), then the drops *)
  set (k := length (filter (fun c => negb (is_drop c)) l)).
  assert (Hk : k <= n).
  { unfold n, cs, partition_changes. rewrite app_length. unfold k. lia. }
  assert (Hpos : forall i c, nth_error cs i = Some c -> (i < k <-> is_drop c = false)).
  { intros i c Hi. unfold cs, partition_changes in Hi. split; intros H.
    - rewrite nth_error_app1 in Hi by exact H. apply nth_error_In in Hi. apply filter_In in Hi.
      destruct Hi as [_ Hi]. apply negb_true_iff in Hi. exact Hi.
    - destruct (Nat.lt_ge_cases i k) as [Hlt|Hge]; [exact Hlt|exfalso].
      rewrite nth_error_app2 in Hi by exact Hge. apply nth_error_In in Hi. apply filter_In in Hi.
      destruct Hi as [_ Hi]. congruence. }
  assert (Hfuel : forall a, unmarked (seq 0 n) a < S n).
  { intros a. pose proof (unmarked_le (seq 0 n) a). rewrite seq_length in *. lia. }
  assert (Hadd : forall ds d st, In d ds -> d < n -> unmarked (seq 0 n) (fst st) < S n ->
            ~ In d (fst st) -> apost n [d] st (add edges (S n) d st)).
  { intros ds d st _ Hd Hq _. apply add_spec; try assumption.
    - apply build_edges_length.
    - intros i j Hj. apply (build_edges_lt cs i j Hj). }
  replace (seq 0 n) with (seq 0 k ++ seq k (n - k)).
  2:{ rewrite <- seq_app. f_equal. lia. }
  rewrite add_list_app.
  pose proof (add_list_spec n (add edges (S n)) (fun a => unmarked (seq 0 n) a < S n) (seq 0 k)
                (fun a a' _ _ => Hfuel a') (Hadd (seq 0 k))
                (fun d Hd => ltac:(apply in_seq in Hd; lia)) ([], []) (Hfuel [])) as S1.
  destruct (add_list (add edges (S n)) (seq 0 k) ([], [])) as [[added1 planned1]|] eqn:E1; [|destruct S1].
  destruct S1 as [new1 [A1 [A2 [A3 [A4 [A5 A6]]]]]]. simpl in A1, A3, A4, A5. subst planned1.
  pose proof (add_list_spec n (add edges (S n)) (fun a => unmarked (seq 0 n) a < S n) (seq k (n - k))
                (fun a a' _ _ => Hfuel a') (Hadd (seq k (n - k)))
                (fun d Hd => ltac:(apply in_seq in Hd; lia)) (added1, new1) (Hfuel added1)) as S2.
  destruct (add_list (add edges (S n)) (seq k (n - k)) (added1, new1)) as [[added2 planned2]|] eqn:E2; [|destruct S2].
  destruct S2 as [new2 [B1 [B2 [B3 [B4 [B5 B6]]]]]]. simpl in B1, B3, B4, B5. subst planned2.
  eexists. split; [reflexivity|].
  (* the planned indices are a permutation of 0..n-1 *)
  assert (Hnd12 : NoDup (new1 ++ new2)).
  { apply NoDup_app_intro; try assumption. intros x H1 H2. apply (B3 x H2). apply A4. right. exact H1. }
  assert (Hperm : Permutation (seq 0 n) (new1 ++ new2)).
  { apply NoDup_Permutation; [apply seq_NoDup|exact Hnd12|]. intros x. split.
    - intros Hx. apply in_seq in Hx. apply in_or_app.
      destruct (Nat.lt_ge_cases x k) as [Hlt|Hge].
      + left. assert (Hs : In x (seq 0 k)) by (apply in_seq; lia). apply A5 in Hs. apply A4 in Hs.
        destruct Hs as [[]|Hs]. exact Hs.
      + assert (Hs : In x (seq k (n - k))) by (apply in_seq; lia). apply B5 in Hs. apply B4 in Hs.
        destruct Hs as [Hs|Hs]; [|right; exact Hs]. apply A4 in Hs. destruct Hs as [[]|Hs]. left. exact Hs.
    - intros Hx. apply in_app_or in Hx. apply in_seq. destruct Hx as [Hx|Hx]; [pose proof (A6 x Hx)|pose proof (B6 x Hx)]; lia. }
  split.
  { pose proof (flat_map_pick_seq [] cs) as Hf. simpl in Hf. fold n in Hf. rewrite <- Hf at 1.
    apply Permutation_flat_map. exact Hperm. }
  (* the planned order respects the edges *)
  assert (Hord : ordered edges (new1 ++ new2)).
  { assert (Hall : add_list (add edges (S n)) (seq 0 k ++ seq k (n - k)) ([], []) = Some (added2, new1 ++ new2)).
    { rewrite add_list_app, E1. exact E2. }
    destruct (add_list_resp edges rho (add edges (S n)) (seq 0 k ++ seq k (n - k))
                (fun d st st' _ Hs Hri => add_resp edges rho Hrho (S n) d st st' Hs Hri)
                ([], []) (added2, new1 ++ new2) Hall) as [[P1 _] _]; simpl.
    - intros p1 i p2 E. destruct p1; discriminate.
    - intros x [].
    - intros d y _ [].
    - exact P1. }
  split.
  - intros pre x post y Eo Hy Hne Hd.
    destruct (flat_map_split (pick cs) (new1 ++ new2) pre x post Eo) as [p1 [i [p2 [q1 [q2 [Ep [Ei [Epre _]]]]]]]].
    assert (Hxi : nth_error cs i = Some x) by (apply pick_in; rewrite Ei; apply in_or_app; right; left; reflexivity).
    destruct (In_nth_error cs y Hy) as [j Hj].
    assert (Hij : i <> j) by (intros E; subst j; rewrite Hxi in Hj; inversion Hj; subst; apply Hne; reflexivity).
    pose proof (build_edges_complete cs Hno2 i j x y Hxi Hj Hij Hd) as Hrow.
    pose proof (Hord p1 i p2 Ep j Hrow) as Hjp.
    rewrite Epre. apply in_or_app. left. apply in_flat_map. exists j. split; [exact Hjp|].
    unfold pick. rewrite Hj. left. reflexivity.
  - intros Hclosed pre x post y Eo Hx Hy.
    destruct (flat_map_split (pick cs) (new1 ++ new2) pre x post Eo) as [p1 [i [p2 [q1 [q2 [Ep [Ei [Epre _]]]]]]]].
    assert (Hxi : nth_error cs i = Some x) by (apply pick_in; rewrite Ei; apply in_or_app; right; left; reflexivity).
    assert (Hq1 : q1 = []).
    { unfold pick in Ei. rewrite Hxi in Ei. destruct q1 as [|a [|b q1]]; [reflexivity|discriminate|discriminate]. }
    subst q1. rewrite app_nil_r in Epre.
    assert (Hik : i < k) by (apply (Hpos i x Hxi); exact Hx).
    (* the non-drop positions are a closed set: the first phase plans only such positions *)
    assert (HQ : forall a b, a < k -> In b (nth a edges []) -> b < k).
    { intros a b Ha Hb. destruct (build_edges_in cs a b Hb) as [c1 [c2 [H1 [H2 [H3 H4]]]]].
      apply (Hpos b c2 H2). apply (Hclosed c1 c2 (nth_error_In _ _ H1) (nth_error_In _ _ H2)); [|apply (Hneq a b c1 c2 H1 H2 H3)|exact H4].
      apply (Hpos a c1 H1). exact Ha. }
    assert (Hnew1 : forall z, In z new1 -> z < k).
    { intros z Hz.
      assert (Hc : forall d st st', In d (seq 0 k) -> add edges (S n) d st = Some st' ->
                forall x0, In x0 (snd st') -> In x0 (snd st) \/ x0 < k).
      { intros d st st' Hd Hs. apply in_seq in Hd.
        apply (add_closed edges (fun a => a < k) HQ (S n) d st st'); [lia|exact Hs]. }
      destruct (add_list_closed (fun a => a < k) (add edges (S n)) (seq 0 k) Hc
                  ([], []) (added1, new1) E1 z Hz) as [[]|H]. exact H. }
    assert (Hnew2 : forall z, In z new2 -> k <= z).
    { intros z Hz. destruct (Nat.lt_ge_cases z k) as [Hlt|Hge]; [exfalso|exact Hge].
      apply (B3 z Hz). apply A5. apply in_seq. lia. }
    assert (Hin1 : In i new1).
    { assert (Hi12 : In i (new1 ++ new2)) by (rewrite Ep; apply in_or_app; right; left; reflexivity).
      apply in_app_or in Hi12. destruct Hi12 as [H|H]; [exact H|]. pose proof (Hnew2 i H). lia. }
    destruct (in_split _ _ Hin1) as [a [b Eab]].
    assert (Ep1 : p1 = a).
    { apply (NoDup_split_unique p1 p2 a (b ++ new2) i); [|rewrite <- Ep; exact Hnd12].
      rewrite <- Ep, Eab, <- app_assoc. reflexivity. }
    rewrite Epre in Hy. apply in_flat_map in Hy. destruct Hy as [j [Hj Hyj]].
    apply pick_in in Hyj. apply (Hpos j y Hyj). apply Hnew1. rewrite Eab. apply in_or_app. left. rewrite <- Ep1. exact Hj.
Qed.
