(** M-SORT, part 4 (round 5) -- the SQLite planner: sql/sqlite/migrate.go, planApply.PlanChanges / state.plan.

    It does NOT call sqlx.DetachCycles or sqlx.SortChanges: state.plan walks the change list in the order given and
    emits the statements of each change.  What makes that safe on SQLite is (a) the engine: a foreign key may be
    declared to a table that does not exist (the parent is looked up when rows are written), and (b) the bracket
    PlanChanges puts around the plan -- PRAGMA foreign_keys = off ... PRAGMA foreign_keys = on -- whenever s.skipFKs
    was set: by dropTable (every DROP TABLE) and by modifyTable when the ModifyTable is not [alterable] (everything
    but plain ADD COLUMN / index changes is done by rebuilding the table: CREATE new_t, copy, DROP t, RENAME).
    Go code followed (names kept): migrate.go: PlanChanges (skipFKs bracket), state.plan (order), alterable, dropTable,
    modifyTable.  Restrictions: as SortModel.v; a plain column change [Other k] is an AddColumn (k even: alterable --
    no default / index / key on it) or a DropColumn (k odd: not alterable). *)
From Coq Require Import List Bool Arith Lia.
From Atlas Require Import Plan.SortModel.
Import ListNotations.

(* migrate.go: alterable -- of the modelled sub-changes only a plain AddColumn is *)
Definition tc_alterable (c : tchange) : bool :=
  match c with Other k => Nat.even k | _ => false end.
Definition alterable (cs : list tchange) : bool := forallb tc_alterable cs.

(* s.skipFKs after state.plan *)
Definition skipFKs (l : list change) : bool :=
  existsb (fun c => match c with
                    | AddTable _ _ => false
                    | DropTable _ _ => true
                    | ModifyTable _ cs => negb (alterable cs)
                    end) l.

(* PlanChanges: (is the plan bracketed by PRAGMA foreign_keys = off / on?, the changes in statement order) *)
Definition sqlite_plan (l : list change) : bool * list change := (skipFKs l, l).

(** * The reference catalogue with SQLite's semantics (specification side) *)
(* [off] = foreign-key enforcement is off while the plan runs.  A foreign key to a missing table is legal.  With
   enforcement on, DROP TABLE of a table that another table references fails as soon as a row references it
   (the catalogue is pessimistic: it fails); with enforcement off it is legal. *)
Definition sreplay_tc (t : nat) (c : cat) (tc : tchange) : option cat :=
  match tc with
  | AddFK f => Some (mkCat (c_tabs c) (c_fks c ++ [(t, f_sym f, qn (f_ref f))]))
  | DropFK f =>
      if fk_live t (f_sym f) c
      then Some (mkCat (c_tabs c) (filter (fk_key_neqb t (f_sym f)) (c_fks c)))
      else None
  | ModifyFK from to =>
      if fk_live t (f_sym from) c
      then Some (mkCat (c_tabs c) (filter (fk_key_neqb t (f_sym from)) (c_fks c) ++ [(t, f_sym to, qn (f_ref to))]))
      else None
  | Other _ => Some c
  end.

Fixpoint sreplay_tcs (t : nat) (c : cat) (tcs : list tchange) : option cat :=
  match tcs with
  | [] => Some c
  | tc :: tcs' => match sreplay_tc t c tc with None => None | Some c' => sreplay_tcs t c' tcs' end
  end.

Definition sreplay1 (off : bool) (c : cat) (ch : change) : option cat :=
  match ch with
  | AddTable t fks =>
      let n := qn t in
      if mem n (c_tabs c) then None
      else Some (mkCat (n :: c_tabs c) (c_fks c ++ map (fun f => (n, f_sym f, qn (f_ref f))) fks))
  | DropTable t _ =>
      let n := qn t in
      if negb (mem n (c_tabs c)) then None
      else if negb off && existsb (fun e => (snd e =? n) && negb (fst (fst e) =? n)) (c_fks c)
           then None
           else Some (mkCat (remove_nat n (c_tabs c)) (filter (fun e => negb (fst (fst e) =? n)) (c_fks c)))
  | ModifyTable t tcs =>
      if mem (qn t) (c_tabs c) then sreplay_tcs (qn t) c tcs else None
  end.

Fixpoint sreplay (off : bool) (l : list change) (c : cat) : option cat :=
  match l with
  | [] => Some c
  | ch :: l' => match sreplay1 off c ch with None => None | Some c' => sreplay off l' c' end
  end.
