(** M-SORT, part 3 -- the TiDB planner (SortTidbModel.v): proofs. *)
From Coq Require Import List Bool Arith Lia Permutation Sorted.
From Atlas Require Import Plan.SortModel Plan.SortDfs Plan.SortReplay Plan.SortProofs Plan.SortExamples
  Plan.SortTidbModel gen.Gen_TidbPriority.
Import ListNotations.

Definition ple (x y : change) : Prop := priority x <= priority y.

(** * flat *)
Definition atomic (x : change) : Prop := match x with ModifyTable _ cs => length cs = 1 | _ => True end.

(* flat never emits a ModifyTable without (or with several) sub-changes: priority's c.Changes[0] is defined *)
Lemma tflat_atomic l x : In x (tflat l) -> atomic x.
Proof.
  intros H. apply in_flat_map in H. destruct H as [c [_ H]].
  destruct c as [t fks|t fks|t cs]; simpl in H.
  - destruct H as [<-|[]]. exact I.
  - destruct H as [<-|[]]. exact I.
  - apply in_map_iff in H. destruct H as [tc [<- _]]. reflexivity.
Qed.

Lemma tflat_in_modify l t tcs tc : In (ModifyTable t tcs) l -> In tc tcs -> In (ModifyTable t [tc]) (tflat l).
Proof.
  intros H Htc. apply in_flat_map. exists (ModifyTable t tcs). split; [exact H|].
  simpl. apply in_map_iff. exists tc. split; [reflexivity|exact Htc].
Qed.

Lemma tflat1_adds c : flat_map adds (tflat1 c) = adds c.
Proof.
  destruct c as [t fks|t fks|t tcs]; simpl; try reflexivity.
  induction tcs as [|tc tcs IH]; simpl; [reflexivity|exact IH].
Qed.

Lemma tflat1_drops c : flat_map drops (tflat1 c) = drops c.
Proof.
  destruct c as [t fks|t fks|t tcs]; simpl; try reflexivity.
  induction tcs as [|tc tcs IH]; simpl; [reflexivity|exact IH].
Qed.

Lemma tflat1_decl c : flat_map decl (tflat1 c) = decl c.
Proof.
  destruct c as [t fks|t fks|t tcs].
  - cbn [tflat1 flat_map]. apply app_nil_r.
  - cbn [tflat1 flat_map]. apply app_nil_r.
  - unfold decl, nm. cbn [tflat1 table_of added_fks].
    induction tcs as [|tc tcs IH]; [reflexivity|].
    cbn [map flat_map table_of added_fks]. rewrite app_nil_r, map_app. f_equal. exact IH.
Qed.

Lemma flat_map_flat_map {A B C} (f : A -> list B) (g : B -> list C) l :
  flat_map g (flat_map f l) = flat_map (fun x => flat_map g (f x)) l.
Proof. induction l as [|a l IH]; simpl; [reflexivity|]. rewrite flat_map_app, IH. reflexivity. Qed.

Lemma tflat_adds l : flat_map adds (tflat l) = flat_map adds l.
Proof. unfold tflat. rewrite flat_map_flat_map. apply flat_map_ext. apply tflat1_adds. Qed.

Lemma tflat_drops l : flat_map drops (tflat l) = flat_map drops l.
Proof. unfold tflat. rewrite flat_map_flat_map. apply flat_map_ext. apply tflat1_drops. Qed.

Lemma tflat_decl l : flat_map decl (tflat l) = flat_map decl l.
Proof. unfold tflat. rewrite flat_map_flat_map. apply flat_map_ext. apply tflat1_decl. Qed.

(** * the stable sort *)
Lemma insert_by_filter (key : change -> nat) k c l :
  StronglySorted (fun x y => key x <= key y) l ->
  filter (fun x => key x =? k) (insert_by key c l) =
  filter (fun x => key x =? k) l ++ (if key c =? k then [c] else []).
Proof.
  intros H. induction H as [|x l H IH Hx]; simpl.
  - destruct (key c =? k); reflexivity.
  - destruct (Nat.ltb_spec (key c) (key x)) as [Hlt|Hge]; simpl.
    + (* c goes in front of x: nothing behind has key (key c) *)
      destruct (key c =? k) eqn:Ec; [|rewrite app_nil_r; reflexivity].
      apply Nat.eqb_eq in Ec.
      assert (Ex : (key x =? k) = false) by (apply Nat.eqb_neq; lia). rewrite Ex.
      assert (El : filter (fun y => key y =? k) l = []).
      { rewrite Forall_forall in Hx. clear -Hx Hlt Ec. induction l as [|y l IHl]; [reflexivity|]. simpl.
        assert (Ey : (key y =? k) = false) by (apply Nat.eqb_neq; pose proof (Hx y (or_introl eq_refl)); lia).
        rewrite Ey. apply IHl. intros z Hz. apply Hx. right. exact Hz. }
      rewrite El. reflexivity.
    + rewrite IH. destruct (key x =? k); reflexivity.
Qed.

Lemma sort_by_stable (key : change -> nat) k l : forall acc,
  StronglySorted (fun x y => key x <= key y) acc ->
  filter (fun x => key x =? k) (fold_left (fun acc c => insert_by key c acc) l acc) =
  filter (fun x => key x =? k) acc ++ filter (fun x => key x =? k) l.
Proof.
  induction l as [|c l IH]; intros acc Ha; simpl; [rewrite app_nil_r; reflexivity|].
  rewrite (IH _ (insert_by_sorted key c acc Ha)), (insert_by_filter key k c acc Ha), <- app_assoc.
  destruct (key c =? k); reflexivity.
Qed.

(** * PlanChanges up to the per-change planning *)
Lemma tidb_detach_spec cs d : tidb_detach cs = DCOk d ->
  exists d0, DetachCycles cs = DCOk d0 /\ (d = d0 \/ d = map (recopy cs) d0).
Proof.
  unfold tidb_detach. destruct (DetachCycles cs) as [|d0]; [destruct (sortMap cs); discriminate|].
  intros H. exists d0. split; [reflexivity|].
  destruct (sortMap cs); inversion H; auto.
Qed.

Lemma tidb_detach_total cs : exists d, tidb_detach cs = DCOk d.
Proof.
  unfold tidb_detach. destruct (DetachCycles_total cs) as [S HS]. rewrite HS.
  destruct (sortMap cs); eexists; reflexivity.
Qed.

Lemma recopy_adds cs c : adds (recopy cs c) = adds c.
Proof. destruct c as [t fks|t fks|t tcs]; simpl; try reflexivity. destruct (is_copied cs t); reflexivity. Qed.
Lemma recopy_drops cs c : drops (recopy cs c) = drops c.
Proof. destruct c as [t fks|t fks|t tcs]; simpl; try reflexivity. destruct (is_copied cs t); reflexivity. Qed.
Lemma recopy_decl cs c : decl (recopy cs c) = decl c.
Proof. destruct c as [t fks|t fks|t tcs]; simpl; try reflexivity. destruct (is_copied cs t); reflexivity. Qed.

Lemma fm_map_ext {A B} (f : A -> list B) (g : A -> A) l : (forall x, f (g x) = f x) -> flat_map f (map g l) = flat_map f l.
Proof. intros H. induction l as [|a l IH]; [reflexivity|]. simpl. rewrite H, IH. reflexivity. Qed.

Theorem tidb_order_total cs : exists l, tidb_order cs = TOk l.
Proof. unfold tidb_order. destruct (tidb_detach_total cs) as [S HS]. rewrite HS. eexists; reflexivity. Qed.

(* the TiDB order = the flattened DetachCycles output, sorted by priority, the order of equal priorities kept *)
Theorem tidb_order_spec cs l : tidb_order cs = TOk l ->
  exists d, tidb_detach cs = DCOk d /\ Permutation (tflat d) l /\ StronglySorted ple l /\
    (forall k, filter (fun x => priority x =? k) l = filter (fun x => priority x =? k) (tflat d)) /\
    (forall x, In x l -> atomic x).
Proof.
  unfold tidb_order. destruct (tidb_detach cs) as [|d] eqn:Ed; [discriminate|]. intros H. inversion H; subst l.
  exists d. split; [reflexivity|].
  destruct (sort_by_spec priority (tflat d) [] (SSorted_nil _)) as [H1 H2]. simpl in H1.
  split; [exact H1|]. split; [exact H2|]. split.
  - intros k. unfold sort_by. rewrite (sort_by_stable priority k (tflat d) [] (SSorted_nil _)). reflexivity.
  - intros x Hx. apply (tflat_atomic d). apply (Permutation_in _ (Permutation_sym H1)). exact Hx.
Qed.

Lemma detach_spec_decl cs S : detach_spec cs S -> Permutation (flat_map decl cs) (flat_map decl S).
Proof.
  unfold detach_spec. destruct (sortMap cs) as [| |sorted]; intros H; [destruct H| |].
  - subst S. apply Permutation_sym. apply detach_decl.
  - destruct H as [Hp _]. apply Permutation_flat_map. exact Hp.
Qed.

(* once: creations, drops and declared foreign keys of the TiDB order are the input's *)
Theorem tidb_once cs l : tidb_order cs = TOk l ->
  Permutation (flat_map adds cs) (flat_map adds l) /\
  Permutation (flat_map drops cs) (flat_map drops l) /\
  Permutation (flat_map decl cs) (flat_map decl l).
Proof.
  intros H. destruct (tidb_order_spec cs l H) as [d [Ed [Hp _]]].
  destruct (tidb_detach_spec cs d Ed) as [d0 [Ed0 Hdd]].
  pose proof (DetachCycles_spec cs d0 Ed0) as Hs.
  destruct (detach_spec_effects cs d0 Hs) as [Ha Hd]. pose proof (detach_spec_decl cs d0 Hs) as Hk.
  assert (Ea : flat_map adds d = flat_map adds d0)
    by (destruct Hdd as [->| ->]; [reflexivity|apply fm_map_ext; apply recopy_adds]).
  assert (Edr : flat_map drops d = flat_map drops d0)
    by (destruct Hdd as [->| ->]; [reflexivity|apply fm_map_ext; apply recopy_drops]).
  assert (Edc : flat_map decl d = flat_map decl d0)
    by (destruct Hdd as [->| ->]; [reflexivity|apply fm_map_ext; apply recopy_decl]).
  split; [|split].
  - eapply perm_trans; [exact Ha|]. rewrite <- Ea, <- (tflat_adds d). apply Permutation_flat_map. exact Hp.
  - eapply perm_trans; [exact Hd|]. rewrite <- Edr, <- (tflat_drops d). apply Permutation_flat_map. exact Hp.
  - eapply perm_trans; [exact Hk|]. rewrite <- Edc, <- (tflat_decl d). apply Permutation_flat_map. exact Hp.
Qed.

(** * the exception: a foreign key re-pointed to a table that is only created by the change set *)
(* the one fact about the dumped table the argument needs *)
Lemma prio_modfk_lt_addtable : gen_prio_ModifyForeignKey < gen_prio_AddTable.
Proof. vm_compute. lia. Qed.

Lemma modfk_in_detached cs d t tcs from to :
  tidb_detach cs = DCOk d -> In (ModifyTable t tcs) cs -> In (ModifyFK from to) tcs ->
  exists tcs', In (ModifyTable t tcs') d /\ In (ModifyFK from to) tcs'.
Proof.
  intros Ed Hx Htc. destruct (tidb_detach_spec cs d Ed) as [d0 [Ed0 Hdd]].
  assert (H0 : exists tcs', In (ModifyTable t tcs') d0 /\ In (ModifyFK from to) tcs').
  { pose proof (DetachCycles_spec cs d0 Ed0) as Hs. unfold detach_spec in Hs.
    destruct (sortMap cs) as [| |sorted]; [destruct Hs| |].
    - subst d0. destruct (ex_planned_rest cs t tcs (ModifyFK from to) Hx Htc eq_refl) as [H1 H2].
      exists (filter not_addfk tcs). split; assumption.
    - destruct Hs as [Hp _]. exists tcs. split; [apply (Permutation_in _ Hp Hx)|exact Htc]. }
  destruct H0 as [tcs' [H1 H2]]. exists tcs'. split; [|exact H2].
  destruct Hdd as [->| ->]; [exact H1|].
  apply in_map_iff. exists (ModifyTable t tcs'). split; [reflexivity|exact H1].
Qed.

Lemma sorted_prefix_ple l : StronglySorted ple l ->
  forall pre x post y, l = pre ++ x :: post -> In y pre -> priority y <= priority x.
Proof.
  intros H. induction H as [|a l H IH Ha]; intros pre x post y El Hy.
  - destruct pre; discriminate.
  - destruct pre as [|b pre]; [destruct Hy|]. simpl in El. injection El as Eb El. subst b.
    destruct Hy as [<-|Hy].
    + rewrite Forall_forall in Ha. apply Ha. rewrite El. apply in_or_app. right. left. reflexivity.
    + apply (IH pre x post y El Hy).
Qed.

(* every change set that re-points a key to a table which does not exist yet gets a TiDB order that fails:
   the atomic ALTER of the re-pointed key (priority 3) stands before every CREATE TABLE (priority 4) *)
Theorem tidb_unsafe_class cs c l t tcs from to :
  In (ModifyTable t tcs) cs -> In (ModifyFK from to) tcs -> ~ In (qn (f_ref to)) (c_tabs c) ->
  tidb_order cs = TOk l -> replay l c = None.
Proof.
  intros Hx Htc Hnew Ho. destruct (tidb_order_spec cs l Ho) as [d [Ed [Hp [Hs _]]]].
  destruct (modfk_in_detached cs d t tcs from to Ed Hx Htc) as [tcs' [Hd Htc']].
  pose proof (tflat_in_modify d t tcs' _ Hd Htc') as Hf.
  apply (Permutation_in _ Hp) in Hf. destruct (in_split _ _ Hf) as [pre [post El]].
  assert (Hadds : flat_map adds pre = []).
  { assert (Hall : forall y, In y pre -> adds y = []).
    { intros y Hy. pose proof (sorted_prefix_ple l Hs pre _ post y El Hy) as Hle. simpl in Hle.
      pose proof prio_modfk_lt_addtable. destruct y; simpl; try reflexivity. simpl in Hle. lia. }
    clear -Hall. induction pre as [|y pre IH]; [reflexivity|]. simpl.
    rewrite (Hall y (or_introl eq_refl)). apply IH. intros z Hz. apply Hall. right. exact Hz. }
  rewrite El, replay_app. destruct (replay pre c) as [st|] eqn:Epre; [|reflexivity].
  simpl. destruct (mem (qn t) (c_tabs st)); [|reflexivity]. simpl.
  destruct (mem (qn (f_ref to)) (c_tabs st)) eqn:Em; [|reflexivity].
  exfalso. apply mem_In in Em. destruct (after_tabs_upper pre c st _ Epre Em) as [H|H]; [exact (Hnew H)|].
  rewrite Hadds in H. destruct H.
Qed.

(** * the witness: SortExamples.ch_cs (a key of kept table 0 re-pointed from dropped table 3 to created table 1) *)
Definition ch_tidb : list change :=
  [ ModifyTable (des 0) [DropFK (mkFK 5 (cur 0) (cur 3))];
    ModifyTable (des 0) [AddFK (mkFK 5 (des 0) (des 1))];
    AddTable (des 2) [];
    DropTable (cur 3) [];
    AddTable (des 1) [mkFK 22 (des 1) (des 2)] ].

Lemma ch_tidb_runs : tidb_plan ch_cs = TOk ch_tidb /\ replay ch_tidb ch_cat = None.
Proof. vm_compute. split; reflexivity. Qed.
