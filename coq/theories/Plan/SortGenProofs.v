(** M-SORT, part 2 -- SortChanges for any change type (SortObjModel.gSortChanges): the statements of SortDfs.v
    (SortChanges_perm, build_edges_complete, SortChanges_ranked), proved once more with the change type, the
    dependency test and the drop test as section variables.  The searches [add] / [add_list] work on positions and
    are those of SortModel: Sections Add and Respect of SortDfs.v are reused as they are. *)
From Coq Require Import List Bool Arith Lia Permutation.
From Atlas Require Import Plan.SortModel Plan.SortDfs Plan.SortObjModel.
Import ListNotations.

Section GenProofs.
  Variable A : Type.
  Variable dep : A -> A -> bool.
  Variable isdrop : A -> bool.

Lemma gedges_row_in i c1 : forall js hasE row j,
  In j (fst ((gedges_row A dep) i c1 js hasE row)) ->
  In j row \/ exists c2, In (j, c2) js /\ i <> j /\ dep c1 c2 = true.
Proof.
  induction js as [|[j' c2] js IH]; intros hasE row j H; simpl in *; [left; exact H|].
  destruct (negb (i =? j') && negb (memp (j', i) hasE) && dep c1 c2) eqn:E.
  - apply IH in H. destruct H as [H|[c [Hc Hd]]].
    + apply in_app_or in H. destruct H as [H|[<-|[]]]; [left; exact H|].
      right. exists c2. split; [left; reflexivity|].
      apply andb_true_iff in E. destruct E as [E Ed]. apply andb_true_iff in E. destruct E as [E _].
      apply negb_true_iff in E. apply Nat.eqb_neq in E. split; assumption.
    + right. exists c. split; [right; exact Hc|exact Hd].
  - apply IH in H. destruct H as [H|[c [Hc Hd]]]; [left; exact H|].
    right. exists c. split; [right; exact Hc|exact Hd].
Qed.

Lemma gedges_rows_length all : forall is hasE, length ((gedges_rows A dep) is all hasE) = length is.
Proof.
  induction is as [|[i c1] is IH]; intros hasE; simpl; [reflexivity|].
  destruct ((gedges_row A dep) i c1 all hasE []) as [row hasE'] eqn:E. simpl. f_equal. apply IH.
Qed.

Lemma gedges_rows_in all : forall is hasE m j,
  In j (nth m ((gedges_rows A dep) is all hasE) []) ->
  exists i c1 c2, nth_error is m = Some (i, c1) /\ In (j, c2) all /\ i <> j /\ dep c1 c2 = true.
Proof.
  induction is as [|[i c1] is IH]; intros hasE m j H; simpl in *.
  - destruct m; destruct H.
  - destruct ((gedges_row A dep) i c1 all hasE []) as [row hasE'] eqn:E.
    destruct m as [|m]; simpl in *.
    + pose proof (gedges_row_in i c1 all hasE [] j) as Hr. rewrite E in Hr. simpl in Hr.
      destruct (Hr H) as [[]|[c2 Hc]]. exists i, c1, c2. split; [reflexivity|exact Hc].
    + apply IH in H. exact H.
Qed.

Lemma gbuild_edges_length cs : length ((gbuild_edges A dep) cs) = length cs.
Proof. unfold gbuild_edges. rewrite gedges_rows_length. apply number_length. Qed.

(** an edge i -> j of the edge map joins two distinct positions whose changes are related by dep *)
Lemma gbuild_edges_in cs i j :
  In j (nth i ((gbuild_edges A dep) cs) []) ->
  exists c1 c2, nth_error cs i = Some c1 /\ nth_error cs j = Some c2 /\ i <> j /\ dep c1 c2 = true.
Proof.
  unfold gbuild_edges. intros H. apply gedges_rows_in in H.
  destruct H as [i' [c1 [c2 [Hn [Hin [Hne Hd]]]]]].
  rewrite number_nth in Hn. destruct (nth_error cs i) as [c|] eqn:Ei; simpl in Hn; [|discriminate].
  inversion Hn; subst. simpl in *. apply number_in in Hin. destruct Hin as [_ Hj].
  rewrite Nat.sub_0_r in Hj. exists c1, c2. repeat split; assumption.
Qed.

Lemma gbuild_edges_lt cs i j : In j (nth i ((gbuild_edges A dep) cs) []) -> j < length cs.
Proof.
  intros H. destruct (gbuild_edges_in cs i j H) as [c1 [c2 [_ [H2 _]]]].
  apply nth_error_Some. rewrite H2. discriminate.
Qed.

Lemma gflat_map_pick_seq (pre l : list A) :
  flat_map ((gpick A) (pre ++ l)) (seq (length pre) (length l)) = l.
Proof.
  revert pre. induction l as [|a l IH]; intros pre; simpl; [reflexivity|].
  unfold gpick at 1. rewrite nth_error_app2 by lia. rewrite Nat.sub_diag. simpl. f_equal.
  specialize (IH (pre ++ [a])). rewrite <- app_assoc in IH. simpl in IH.
  rewrite app_length in IH. simpl in IH. replace (length pre + 1) with (S (length pre)) in IH by lia.
  exact IH.
Qed.

Lemma gSortChanges_perm l :
  exists out, (gSortChanges A dep isdrop) l = Some out /\ Permutation ((gpartition A isdrop) l) out.
Proof.
  unfold gSortChanges. set (cs := (gpartition A isdrop) l). set (n := length cs).
  pose proof (add_list_spec n (add ((gbuild_edges A dep) cs) (S n))
                (fun a => unmarked (seq 0 n) a < S n) (seq 0 n)) as H.
  assert (Qm : forall a a', incl a a' -> unmarked (seq 0 n) a < S n -> unmarked (seq 0 n) a' < S n).
  { intros a a' _ _. pose proof (unmarked_le (seq 0 n) a'). rewrite seq_length in *. lia. }
  specialize (H Qm).
  assert (Hadd : forall d st, In d (seq 0 n) -> d < n -> unmarked (seq 0 n) (fst st) < S n ->
            ~ In d (fst st) -> apost n [d] st (add ((gbuild_edges A dep) cs) (S n) d st)).
  { intros d st _ Hd Hq _. apply add_spec; try assumption.
    - apply gbuild_edges_length.
    - intros i j Hj. apply (gbuild_edges_lt cs i j Hj). }
  assert (Hlt : forall d, In d (seq 0 n) -> d < n) by (intros d Hd; apply in_seq in Hd; lia).
  specialize (H Hadd Hlt ([], [])). simpl fst in H.
  assert (Hq : unmarked (seq 0 n) [] < S n) by (rewrite unmarked_nil, seq_length; lia).
  specialize (H Hq).
  destruct (add_list (add ((gbuild_edges A dep) cs) (S n)) (seq 0 n) ([], [])) as [[added planned]|];
    simpl in *; [|destruct H].
  destruct H as [new [A1 [A2 [A3 [A4 [A5 A6]]]]]]. subst planned.
  eexists. split; [reflexivity|].
  assert (Hp : Permutation (seq 0 n) new).
  { apply NoDup_Permutation; [apply seq_NoDup|exact A2|].
    intros x. split.
    - intros Hx. apply A5 in Hx. apply A4 in Hx. destruct Hx as [[]|Hx]. exact Hx.
    - intros Hx. apply in_seq. pose proof (A6 x Hx). lia. }
  pose proof (gflat_map_pick_seq [] cs) as Hf. simpl in Hf. fold n in Hf.
  rewrite <- Hf at 1. apply Permutation_flat_map. exact Hp.
Qed.

Section GComplete.
  Variable cs : list A.
  Hypothesis Hno2 : forall p q cp cq, nth_error cs p = Some cp -> nth_error cs q = Some cq -> p <> q ->
    dep cp cq = true -> dep cq cp = true -> False.

  Definition ghgood (hasE : list (nat * nat)) : Prop :=
    forall p q, memp (p, q) hasE = true ->
      exists cp cq, nth_error cs p = Some cp /\ nth_error cs q = Some cq /\ dep cp cq = true.

  Lemma gedges_row_complete i c1 : nth_error cs i = Some c1 ->
    forall js hasE row, (forall j c2, In (j, c2) js -> nth_error cs j = Some c2) -> ghgood hasE ->
      ghgood (snd ((gedges_row A dep) i c1 js hasE row)) /\
      incl row (fst ((gedges_row A dep) i c1 js hasE row)) /\
      (forall j c2, In (j, c2) js -> i <> j -> dep c1 c2 = true -> In j (fst ((gedges_row A dep) i c1 js hasE row))).
  Proof.
    intros Hi. induction js as [|[j c2] js IH]; intros hasE row Hjs Hg; simpl.
    - split; [exact Hg|]. split; [intros x Hx; exact Hx|intros j c2 []].
    - assert (Hjs' : forall j0 c0, In (j0, c0) js -> nth_error cs j0 = Some c0).
      { intros j0 c0 H0. apply Hjs. right. exact H0. }
      pose proof (Hjs j c2 (or_introl eq_refl)) as Hj.
      destruct (negb (i =? j) && negb (memp (j, i) hasE) && dep c1 c2) eqn:E.
      + apply andb_true_iff in E. destruct E as [E Ed]. apply andb_true_iff in E. destruct E as [En _].
        assert (Hg' : ghgood ((i, j) :: hasE)).
        { intros p q Hm. rewrite memp_cons in Hm. apply orb_true_iff in Hm. destruct Hm as [Hm|Hm]; [|apply Hg; exact Hm].
          simpl in Hm. apply andb_true_iff in Hm. destruct Hm as [H1 H2].
          apply Nat.eqb_eq in H1. apply Nat.eqb_eq in H2. subst. exists c1, c2. repeat split; assumption. }
        destruct (IH ((i, j) :: hasE) (row ++ [j]) Hjs' Hg') as [G1 [G2 G3]].
        split; [exact G1|]. split; [intros x Hx; apply G2; apply in_or_app; left; exact Hx|].
        intros j0 c0 [H0|H0] Hne Hd; [|apply (G3 j0 c0 H0 Hne Hd)].
        inversion H0; subst. apply G2. apply in_or_app. right. left. reflexivity.
      + destruct (IH hasE row Hjs' Hg) as [G1 [G2 G3]].
        split; [exact G1|]. split; [exact G2|].
        intros j0 c0 [H0|H0] Hne Hd; [|apply (G3 j0 c0 H0 Hne Hd)].
        inversion H0; subst. exfalso.
        apply Nat.eqb_neq in Hne. rewrite Hne, Hd in E. simpl in E. rewrite andb_true_r in E.
        apply negb_false_iff in E. destruct (Hg j0 i E) as [cp [cq [Hp [Hq Hdep]]]].
        rewrite Hj in Hp. rewrite Hi in Hq. inversion Hp; inversion Hq; subst.
        apply Nat.eqb_neq in Hne. apply (Hno2 i j0 cq cp Hi Hj Hne Hd Hdep).
  Qed.

  Lemma gedges_rows_complete all : (forall j c2, In (j, c2) all -> nth_error cs j = Some c2) ->
    forall is hasE, (forall i c1, In (i, c1) is -> nth_error cs i = Some c1) -> ghgood hasE ->
    forall m i c1, nth_error is m = Some (i, c1) ->
    forall j c2, In (j, c2) all -> i <> j -> dep c1 c2 = true -> In j (nth m ((gedges_rows A dep) is all hasE) []).
  Proof.
    intros Hall. induction is as [|[i0 c0] is IH]; intros hasE His Hg m i c1 Hm j c2 Hj Hne Hd.
    - destruct m; discriminate.
    - simpl. pose proof (His i0 c0 (or_introl eq_refl)) as Hi0.
      destruct (gedges_row_complete i0 c0 Hi0 all hasE [] Hall Hg) as [G1 [_ G3]].
      destruct ((gedges_row A dep) i0 c0 all hasE []) as [row hasE'] eqn:E. simpl in *.
      destruct m as [|m]; simpl in *.
      + inversion Hm; subst. apply (G3 j c2 Hj Hne Hd).
      + apply (IH hasE' (fun i1 c1' H1 => His i1 c1' (or_intror H1)) G1 m i c1 Hm j c2 Hj Hne Hd).
  Qed.

  Lemma gbuild_edges_complete i j c1 c2 :
    nth_error cs i = Some c1 -> nth_error cs j = Some c2 -> i <> j -> dep c1 c2 = true ->
    In j (nth i ((gbuild_edges A dep) cs) []).
  Proof.
    intros Hi Hj Hne Hd. unfold gbuild_edges.
    assert (Hall : forall j0 c0, In (j0, c0) (number 0 cs) -> nth_error cs j0 = Some c0).
    { intros j0 c0 H0. apply number_in in H0. destruct H0 as [_ H0]. rewrite Nat.sub_0_r in H0. exact H0. }
    apply (gedges_rows_complete (number 0 cs) Hall (number 0 cs) [] Hall) with (i := i) (c1 := c1) (c2 := c2); try assumption.
    - intros p q Hm. discriminate.
    - rewrite number_nth, Hi. reflexivity.
    - assert (Hn : nth_error (number 0 cs) j = Some (0 + j, c2)) by (rewrite number_nth, Hj; reflexivity).
      apply nth_error_In in Hn. exact Hn.
  Qed.
End GComplete.

Lemma gpick_in cs i x : In x ((gpick A) cs i) -> nth_error cs i = Some x.
Proof. unfold gpick. destruct (nth_error cs i); [intros [<-|[]]; reflexivity|intros []]. Qed.

Theorem gSortChanges_ranked (r : A -> nat) l :
  let cs := (gpartition A isdrop) l in
  NoDup cs ->
  (forall x y, In x cs -> In y cs -> x <> y -> dep x y = true -> r y < r x) ->
  exists out, (gSortChanges A dep isdrop) l = Some out /\ Permutation cs out /\
    (* every dependency stands before its dependent *)
    (forall pre x post y, out = pre ++ x :: post -> In y cs -> y <> x -> dep x y = true -> In y pre) /\
    (* when no non-drop depends on a drop, the drops stay behind all the other changes *)
    ((forall x y, In x cs -> In y cs -> isdrop x = false -> x <> y -> dep x y = true -> isdrop y = false) ->
     forall pre x post y, out = pre ++ x :: post -> isdrop x = false -> In y pre -> isdrop y = false).
Proof.
  intros cs Hnd Hr. unfold gSortChanges. fold cs. set (n := length cs). set (edges := (gbuild_edges A dep) cs).
  set (rho := fun i => match nth_error cs i with Some c => r c | None => 0 end).
  assert (Hneq : forall i j ci cj, nth_error cs i = Some ci -> nth_error cs j = Some cj -> i <> j -> ci <> cj).
  { intros i j ci cj Hi Hj Hij E. subst cj. apply Hij.
    apply (proj1 (NoDup_nth_error cs) Hnd i j); [apply nth_error_Some; rewrite Hi; discriminate|rewrite Hi, Hj; reflexivity]. }
  assert (Hrho : forall i j, In j (nth i edges []) -> rho j < rho i).
  { intros i j Hj. destruct (gbuild_edges_in cs i j Hj) as [c1 [c2 [H1 [H2 [H3 H4]]]]].
    unfold rho. rewrite H1, H2. apply Hr; [apply (nth_error_In _ _ H1)|apply (nth_error_In _ _ H2)| |exact H4].
    apply (Hneq i j c1 c2 H1 H2 H3). }
  assert (Hno2 : forall p q cp cq, nth_error cs p = Some cp -> nth_error cs q = Some cq -> p <> q ->
            dep cp cq = true -> dep cq cp = true -> False).
  { intros p q cp cq Hp Hq Hpq H1 H2.
    pose proof (Hneq p q cp cq Hp Hq Hpq) as Hne.
    pose proof (Hr cp cq (nth_error_In _ _ Hp) (nth_error_In _ _ Hq) Hne H1).
    pose proof (Hr cq cp (nth_error_In _ _ Hq) (nth_error_In _ _ Hp) (fun E => Hne (eq_sym E)) H2). lia. }
  (* the run: first the non-drops (positions < k), then the drops *)
  set (k := length (filter (fun c => negb (isdrop c)) l)).
  assert (Hk : k <= n).
  { unfold n, cs, gpartition. rewrite app_length. unfold k. lia. }
  assert (Hpos : forall i c, nth_error cs i = Some c -> (i < k <-> isdrop c = false)).
  { intros i c Hi. unfold cs, gpartition in Hi. split; intros H.
    - rewrite nth_error_app1 in Hi by exact H. apply nth_error_In in Hi. apply filter_In in Hi.
      destruct Hi as [_ Hi]. apply negb_true_iff in Hi. exact Hi.
    - destruct (Nat.lt_ge_cases i k) as [Hlt|Hge]; [exact Hlt|exfalso].
      rewrite nth_error_app2 in Hi by exact Hge. apply nth_error_In in Hi. apply filter_In in Hi.
      destruct Hi as [_ Hi]. congruence. }
  assert (Hfuel : forall a, unmarked (seq 0 n) a < S n).
  { intros a. pose proof (unmarked_le (seq 0 n) a). rewrite seq_length in *. lia. }
  assert (Hadd : forall ds d st, In d ds -> d < n -> unmarked (seq 0 n) (fst st) < S n ->
            ~ In d (fst st) -> apost n [d] st (add edges (S n) d st)).
  { intros ds d st _ Hd Hq _. apply add_spec; try assumption.
    - apply gbuild_edges_length.
    - intros i j Hj. apply (gbuild_edges_lt cs i j Hj). }
  replace (seq 0 n) with (seq 0 k ++ seq k (n - k)).
  2:{ rewrite <- seq_app. f_equal. lia. }
  rewrite add_list_app.
  pose proof (add_list_spec n (add edges (S n)) (fun a => unmarked (seq 0 n) a < S n) (seq 0 k)
                (fun a a' _ _ => Hfuel a') (Hadd (seq 0 k))
                (fun d Hd => ltac:(apply in_seq in Hd; lia)) ([], []) (Hfuel [])) as S1.
  destruct (add_list (add edges (S n)) (seq 0 k) ([], [])) as [[added1 planned1]|] eqn:E1; [|destruct S1].
  destruct S1 as [new1 [A1 [A2 [A3 [A4 [A5 A6]]]]]]. simpl in A1, A3, A4, A5. subst planned1.
  pose proof (add_list_spec n (add edges (S n)) (fun a => unmarked (seq 0 n) a < S n) (seq k (n - k))
                (fun a a' _ _ => Hfuel a') (Hadd (seq k (n - k)))
                (fun d Hd => ltac:(apply in_seq in Hd; lia)) (added1, new1) (Hfuel added1)) as S2.
  destruct (add_list (add edges (S n)) (seq k (n - k)) (added1, new1)) as [[added2 planned2]|] eqn:E2; [|destruct S2].
  destruct S2 as [new2 [B1 [B2 [B3 [B4 [B5 B6]]]]]]. simpl in B1, B3, B4, B5. subst planned2.
  eexists. split; [reflexivity|].
  (* the planned indices are a permutation of 0..n-1 *)
  assert (Hnd12 : NoDup (new1 ++ new2)).
  { apply NoDup_app_intro; try assumption. intros x H1 H2. apply (B3 x H2). apply A4. right. exact H1. }
  assert (Hperm : Permutation (seq 0 n) (new1 ++ new2)).
  { apply NoDup_Permutation; [apply seq_NoDup|exact Hnd12|]. intros x. split.
    - intros Hx. apply in_seq in Hx. apply in_or_app.
      destruct (Nat.lt_ge_cases x k) as [Hlt|Hge].
      + left. assert (Hs : In x (seq 0 k)) by (apply in_seq; lia). apply A5 in Hs. apply A4 in Hs.
        destruct Hs as [[]|Hs]. exact Hs.
      + assert (Hs : In x (seq k (n - k))) by (apply in_seq; lia). apply B5 in Hs. apply B4 in Hs.
        destruct Hs as [Hs|Hs]; [|right; exact Hs]. apply A4 in Hs. destruct Hs as [[]|Hs]. left. exact Hs.
    - intros Hx. apply in_app_or in Hx. apply in_seq. destruct Hx as [Hx|Hx]; [pose proof (A6 x Hx)|pose proof (B6 x Hx)]; lia. }
  split.
  { pose proof (gflat_map_pick_seq [] cs) as Hf. simpl in Hf. fold n in Hf. rewrite <- Hf at 1.
    apply Permutation_flat_map. exact Hperm. }
  (* the planned order respects the edges *)
  assert (Hord : ordered edges (new1 ++ new2)).
  { assert (Hall : add_list (add edges (S n)) (seq 0 k ++ seq k (n - k)) ([], []) = Some (added2, new1 ++ new2)).
    { rewrite add_list_app, E1. exact E2. }
    destruct (add_list_resp edges rho (add edges (S n)) (seq 0 k ++ seq k (n - k))
                (fun d st st' _ Hs Hri => add_resp edges rho Hrho (S n) d st st' Hs Hri)
                ([], []) (added2, new1 ++ new2) Hall) as [[P1 _] _]; simpl.
    - intros p1 i p2 E. destruct p1; discriminate.
    - intros x [].
    - intros d y _ [].
    - exact P1. }
  split.
  - intros pre x post y Eo Hy Hne Hd.
    destruct (flat_map_split ((gpick A) cs) (new1 ++ new2) pre x post Eo) as [p1 [i [p2 [q1 [q2 [Ep [Ei [Epre _]]]]]]]].
    assert (Hxi : nth_error cs i = Some x) by (apply gpick_in; rewrite Ei; apply in_or_app; right; left; reflexivity).
    destruct (In_nth_error cs y Hy) as [j Hj].
    assert (Hij : i <> j) by (intros E; subst j; rewrite Hxi in Hj; inversion Hj; subst; apply Hne; reflexivity).
    pose proof (gbuild_edges_complete cs Hno2 i j x y Hxi Hj Hij Hd) as Hrow.
    pose proof (Hord p1 i p2 Ep j Hrow) as Hjp.
    rewrite Epre. apply in_or_app. left. apply in_flat_map. exists j. split; [exact Hjp|].
    unfold gpick. rewrite Hj. left. reflexivity.
  - intros Hclosed pre x post y Eo Hx Hy.
    destruct (flat_map_split ((gpick A) cs) (new1 ++ new2) pre x post Eo) as [p1 [i [p2 [q1 [q2 [Ep [Ei [Epre _]]]]]]]].
    assert (Hxi : nth_error cs i = Some x) by (apply gpick_in; rewrite Ei; apply in_or_app; right; left; reflexivity).
    assert (Hq1 : q1 = []).
    { unfold gpick in Ei. rewrite Hxi in Ei. destruct q1 as [|a [|b q1]]; [reflexivity|discriminate|discriminate]. }
    subst q1. rewrite app_nil_r in Epre.
    assert (Hik : i < k) by (apply (Hpos i x Hxi); exact Hx).
    (* the non-drop positions are a closed set: the first phase plans only such positions *)
    assert (HQ : forall a b, a < k -> In b (nth a edges []) -> b < k).
    { intros a b Ha Hb. destruct (gbuild_edges_in cs a b Hb) as [c1 [c2 [H1 [H2 [H3 H4]]]]].
      apply (Hpos b c2 H2). apply (Hclosed c1 c2 (nth_error_In _ _ H1) (nth_error_In _ _ H2)); [|apply (Hneq a b c1 c2 H1 H2 H3)|exact H4].
      apply (Hpos a c1 H1). exact Ha. }
    assert (Hnew1 : forall z, In z new1 -> z < k).
    { intros z Hz.
      assert (Hc : forall d st st', In d (seq 0 k) -> add edges (S n) d st = Some st' ->
                forall x0, In x0 (snd st') -> In x0 (snd st) \/ x0 < k).
      { intros d st st' Hd Hs. apply in_seq in Hd.
        apply (add_closed edges (fun a => a < k) HQ (S n) d st st'); [lia|exact Hs]. }
      destruct (add_list_closed (fun a => a < k) (add edges (S n)) (seq 0 k) Hc
                  ([], []) (added1, new1) E1 z Hz) as [[]|H]. exact H. }
    assert (Hnew2 : forall z, In z new2 -> k <= z).
    { intros z Hz. destruct (Nat.lt_ge_cases z k) as [Hlt|Hge]; [exfalso|exact Hge].
      apply (B3 z Hz). apply A5. apply in_seq. lia. }
    assert (Hin1 : In i new1).
    { assert (Hi12 : In i (new1 ++ new2)) by (rewrite Ep; apply in_or_app; right; left; reflexivity).
      apply in_app_or in Hi12. destruct Hi12 as [H|H]; [exact H|]. pose proof (Hnew2 i H). lia. }
    destruct (in_split _ _ Hin1) as [a [b Eab]].
    assert (Ep1 : p1 = a).
    { apply (NoDup_split_unique p1 p2 a (b ++ new2) i); [|rewrite <- Ep; exact Hnd12].
      rewrite <- Ep, Eab, <- app_assoc. reflexivity. }
    rewrite Epre in Hy. apply in_flat_map in Hy. destruct Hy as [j [Hj Hyj]].
    apply gpick_in in Hyj. apply (Hpos j y Hyj). apply Hnew1. rewrite Eab. apply in_or_app. left. rewrite <- Ep1. exact Hj.
Qed.
End GenProofs.
