(** Proofs about M-LEX (LexModel.v): string helpers, the frame lemmas of every scanner
    function, the loop invariant of [stmt], losslessness / positions / line mapping, and
    totality (no [Panic], no [OutOfFuel]). *)
From Coq Require Import List NArith ZArith Bool Arith Lia.
From Atlas Require Import Base.Bytes Lex.LexModel.
Import ListNotations.
Open Scope Z_scope.

(** * Basics *)
Lemma zlen_app (a b : bytes) : zlen (a ++ b) = zlen a + zlen b.
Proof. unfold zlen. rewrite app_length. lia. Qed.
Lemma zlen_nonneg (a : bytes) : 0 <= zlen a.
Proof. unfold zlen. lia. Qed.
Lemma zlen_nil : zlen [] = 0. Proof. reflexivity. Qed.
Lemma zlen_cons a (t : bytes) : zlen (a :: t) = 1 + zlen t.
Proof. unfold zlen. simpl length. lia. Qed.
Lemma zlen_zero (a : bytes) : zlen a = 0 -> a = [].
Proof. unfold zlen. destruct a; simpl; [auto|lia]. Qed.

Lemma bind_ok {A B} (x : res A) (f : A -> res B) b :
  bind x f = Ok b -> exists a, x = Ok a /\ f a = Ok b.
Proof. destruct x; simpl; try discriminate. eauto. Qed.

Lemma slice_from_ok s lo r :
  slice_from s lo = Ok r -> 0 <= lo <= zlen s /\ r = skipn (Z.to_nat lo) s.
Proof.
  unfold slice_from. destruct (lo <? 0) eqn:E1; simpl; try discriminate.
  destruct (zlen s <? lo) eqn:E2; try discriminate. intros H; inversion H. split; [lia|reflexivity].
Qed.
Lemma slice_to_ok s hi r :
  slice_to s hi = Ok r -> 0 <= hi <= zlen s /\ r = firstn (Z.to_nat hi) s.
Proof.
  unfold slice_to. destruct (hi <? 0) eqn:E1; simpl; try discriminate.
  destruct (zlen s <? hi) eqn:E2; try discriminate. intros H; inversion H. split; [lia|reflexivity].
Qed.
Lemma slice_ok s lo hi r :
  slice s lo hi = Ok r -> 0 <= lo <= hi /\ hi <= zlen s /\ r = skipn (Z.to_nat lo) (firstn (Z.to_nat hi) s).
Proof.
  unfold slice. destruct (lo <? 0) eqn:E1; simpl; try discriminate.
  destruct (hi <? lo) eqn:E2; simpl; try discriminate.
  destruct (zlen s <? hi) eqn:E3; try discriminate. intros H; inversion H. repeat split; lia.
Qed.
Lemma slice_from_not_fuel s lo : slice_from s lo <> OutOfFuel.
Proof. unfold slice_from. destruct (_ || _); discriminate. Qed.

Lemma slice_from_to s p a b :
  slice_to s p = Ok a -> slice_from s p = Ok b -> s = a ++ b.
Proof.
  intros Ha Hb. apply slice_to_ok in Ha as [_ ->]. apply slice_from_ok in Hb as [_ ->].
  symmetry. apply firstn_skipn.
Qed.

Lemma zlen_firstn (s : bytes) k : 0 <= k <= zlen s -> zlen (firstn (Z.to_nat k) s) = k.
Proof. unfold zlen. intros H. rewrite firstn_length. lia. Qed.
Lemma zlen_skipn (s : bytes) k : 0 <= k <= zlen s -> zlen (skipn (Z.to_nat k) s) = zlen s - k.
Proof. unfold zlen. intros H. rewrite skipn_length. lia. Qed.

(** ** has_prefix / has_suffix / index_of *)
Lemma has_prefix_app s p : has_prefix s p = true <-> exists r, s = p ++ r.
Proof.
  revert s; induction p as [|b p IH]; intros s; simpl.
  - split; [intros _; exists s; reflexivity|reflexivity].
  - destruct s as [|a s]; [split; [discriminate|intros [r H]; discriminate]|].
    rewrite andb_true_iff, N.eqb_eq, IH. split.
    + intros [-> [r ->]]. eauto.
    + intros [r H]. inversion H; subst. eauto.
Qed.

Lemma has_prefix_firstn_mono s p k : has_prefix (firstn k s) p = true -> has_prefix s p = true.
Proof.
  rewrite !has_prefix_app. intros [r H]. exists (r ++ skipn k s).
  rewrite app_assoc, <- H. symmetry; apply firstn_skipn.
Qed.
Lemma has_prefix_firstn s p k : has_prefix s p = true -> has_prefix (firstn (length p + k) s) p = true.
Proof.
  rewrite !has_prefix_app. intros [r ->]. exists (firstn k r).
  rewrite firstn_app_2. reflexivity.
Qed.

Lemma has_suffix_app s p : has_suffix s p = true -> s = firstn (length s - length p) s ++ p.
Proof.
  unfold has_suffix. rewrite andb_true_iff. intros [_ H]. apply bytes_eqb_eq in H.
  etransitivity; [symmetry; apply (firstn_skipn (length s - length p))|]. f_equal. exact H.
Qed.
Lemma trim_suffix_app s p : exists dl, s = trim_suffix s p ++ dl /\ (dl = [] \/ dl = p).
Proof.
  unfold trim_suffix. destruct (has_suffix s p) eqn:E.
  - exists p. split; [apply has_suffix_app; exact E|auto].
  - exists []. rewrite app_nil_r. auto.
Qed.

Lemma index_of_spec s p i :
  index_of s p = Some i -> has_prefix (skipn i s) p = true /\ (i <= length s)%nat.
Proof.
  revert i; induction s as [|a s IH]; intros i; simpl.
  - destruct (has_prefix [] p) eqn:E; [|discriminate]. intros H; inversion H; subst. simpl. auto.
  - destruct (has_prefix (a :: s) p) eqn:E.
    + intros H; inversion H; subst. simpl. split; [exact E|lia].
    + destruct (index_of s p) eqn:E2; [|discriminate]. intros H; inversion H; subst.
      destruct (IH _ eq_refl) as [H1 H2]. simpl. split; [exact H1|lia].
Qed.
Lemma skipn_add {A} (l : list A) i k : skipn (i + k) l = skipn k (skipn i l).
Proof.
  revert l; induction i as [|i IH]; intros l; simpl; [reflexivity|].
  destruct l; [destruct k; reflexivity|apply IH].
Qed.
Lemma index_of_app s p i :
  index_of s p = Some i -> s = firstn i s ++ p ++ skipn (i + length p) s.
Proof.
  intros H. apply index_of_spec in H as [H _]. apply has_prefix_app in H as [r Hr].
  rewrite <- (firstn_skipn i s) at 1. f_equal. rewrite Hr. f_equal.
  rewrite skipn_add, Hr, skipn_app, skipn_all, Nat.sub_diag. reflexivity.
Qed.
(** the occurrence found is the first one, also inside the segment that ends with it. *)
Lemma index_of_firstn s p i :
  index_of s p = Some i -> index_of (firstn (i + length p) s) p = Some i.
Proof.
  revert i; induction s as [|a s IH]; intros i; simpl.
  - destruct (has_prefix [] p) eqn:E; [|discriminate]. intros H; inversion H; subst.
    rewrite firstn_nil. simpl. rewrite E. reflexivity.
  - destruct (has_prefix (a :: s) p) eqn:E.
    + intros H; inversion H; subst. simpl plus.
      replace (length p) with (length p + 0)%nat by lia.
      pose proof (has_prefix_firstn _ _ 0%nat E) as H1.
      destruct (firstn (length p + 0) (a :: s)) eqn:E3; simpl; simpl in H1; rewrite H1; reflexivity.
    + destruct (index_of s p) eqn:E2; [|discriminate]. intros H; inversion H; subst.
      simpl plus. rewrite firstn_cons.
      assert (has_prefix (a :: firstn (n + length p) s) p = false) as Hf.
      { destruct (has_prefix (a :: firstn (n + length p) s) p) eqn:E4; [|reflexivity].
        rewrite <- firstn_cons in E4. apply has_prefix_firstn_mono in E4. congruence. }
      simpl. simpl in Hf. rewrite Hf. rewrite (IH _ eq_refl). reflexivity.
Qed.

(** ** white space *)
Inductive Spaces : bytes -> Prop :=
| Sp_nil : Spaces []
| Sp_1 a t : sp1 a = true -> Spaces t -> Spaces (a :: t)
| Sp_2 a b t : sp2 a b = true -> Spaces t -> Spaces (a :: b :: t)
| Sp_3 a b c t : sp3 a b c = true -> Spaces t -> Spaces (a :: b :: c :: t).

Lemma Spaces_app a b : Spaces a -> Spaces b -> Spaces (a ++ b).
Proof.
  induction 1; intros Hb; simpl; [exact Hb|apply Sp_1|apply Sp_2|apply Sp_3]; auto.
Qed.

(** does [s] start with a white-space rune? *)
Definition starts_space (s : bytes) : bool :=
  match s with
  | a :: t => sp1 a || match t with
                       | b :: t2 => sp2 a b || match t2 with c :: _ => sp3 a b c | [] => false end
                       | [] => false
                       end
  | [] => false
  end.

Lemma trim_left_decomp_n n : forall s, (length s <= n)%nat ->
  exists sp, s = sp ++ trim_left_space s /\ Spaces sp /\ starts_space (trim_left_space s) = false.
Proof.
  induction n as [|n IH]; intros s Hl.
  - destruct s; [|simpl in Hl; lia]. exists []. simpl. repeat split; constructor.
  - destruct s as [|a t]; [exists []; simpl; repeat split; constructor|].
    simpl in Hl. simpl trim_left_space.
    destruct (sp1 a) eqn:E1.
    { destruct (IH t ltac:(lia)) as (sp & H1 & H2 & H3). exists (a :: sp). simpl. rewrite <- H1.
      repeat split; [apply Sp_1; auto|exact H3]. }
    destruct t as [|b t2]; [exists []; simpl; rewrite E1; repeat split; constructor|].
    destruct (sp2 a b) eqn:E2.
    { simpl in Hl. destruct (IH t2 ltac:(lia)) as (sp & H1 & H2 & H3). exists (a :: b :: sp). simpl.
      rewrite <- H1. repeat split; [apply Sp_2; auto|exact H3]. }
    destruct t2 as [|c t3]; [exists []; simpl; rewrite E1, E2; repeat split; constructor|].
    destruct (sp3 a b c) eqn:E3.
    { simpl in Hl. destruct (IH t3 ltac:(lia)) as (sp & H1 & H2 & H3). exists (a :: b :: c :: sp). simpl.
      rewrite <- H1. repeat split; [apply Sp_3; auto|exact H3]. }
    exists []. simpl. rewrite E1, E2, E3. repeat split; constructor.
Qed.
Lemma trim_left_decomp s :
  exists sp, s = sp ++ trim_left_space s /\ Spaces sp /\ starts_space (trim_left_space s) = false.
Proof. apply (trim_left_decomp_n (length s)). lia. Qed.

Lemma trim_left_id s : starts_space s = false -> trim_left_space s = s.
Proof.
  destruct s as [|a [|b [|c t]]]; simpl; auto.
  - rewrite orb_false_r. intros ->. reflexivity.
  - rewrite !orb_false_iff. intros [-> [-> _]]. reflexivity.
  - rewrite !orb_false_iff. intros [-> [-> ->]]. reflexivity.
Qed.

Lemma starts_space_firstn s k : starts_space s = false -> starts_space (firstn k s) = false.
Proof.
  destruct s as [|a [|b [|c t]]]; destruct k as [|[|[|k]]]; simpl; auto;
    rewrite ?orb_false_iff; intuition.
Qed.

(** reversed white-space strings *)
Lemma trim_left_rev_decomp_n n : forall s, (length s <= n)%nat ->
  exists sp, s = sp ++ trim_left_space_rev s /\ Spaces (rev sp).
Proof.
  induction n as [|n IH]; intros s Hl.
  - destruct s; [|simpl in Hl; lia]. exists []. simpl. split; constructor.
  - destruct s as [|a t]; [exists []; simpl; split; constructor|].
    simpl in Hl. simpl trim_left_space_rev.
    destruct (sp1 a) eqn:E1.
    { destruct (IH t ltac:(lia)) as (sp & H1 & H2). exists (a :: sp). simpl. rewrite <- H1.
      split; [reflexivity|]. apply Spaces_app; [exact H2|]. apply Sp_1; [exact E1|constructor]. }
    destruct t as [|b t2]; [exists []; simpl; split; constructor|].
    destruct (sp2 b a) eqn:E2.
    { simpl in Hl. destruct (IH t2 ltac:(lia)) as (sp & H1 & H2). exists (a :: b :: sp). simpl.
      rewrite <- H1. split; [reflexivity|]. rewrite <- app_assoc. apply Spaces_app; [exact H2|].
      simpl. apply Sp_2; [exact E2|constructor]. }
    destruct t2 as [|c t3]; [exists []; simpl; split; constructor|].
    destruct (sp3 c b a) eqn:E3.
    { simpl in Hl. destruct (IH t3 ltac:(lia)) as (sp & H1 & H2). exists (a :: b :: c :: sp). simpl.
      rewrite <- H1. split; [reflexivity|]. rewrite <- !app_assoc. apply Spaces_app; [exact H2|].
      simpl. apply Sp_3; [exact E3|constructor]. }
    exists []. simpl. split; constructor.
Qed.
Lemma trim_right_decomp s : exists sp, s = trim_right_space s ++ sp /\ Spaces sp.
Proof.
  destruct (trim_left_rev_decomp_n (length (rev s)) (rev s) ltac:(lia)) as (sp & H1 & H2).
  exists (rev sp). split; [|exact H2]. unfold trim_right_space.
  rewrite <- rev_app_distr, <- H1, rev_involutive. reflexivity.
Qed.
Lemma trim_space_decomp s :
  starts_space s = false -> exists sp, s = trim_space s ++ sp /\ Spaces sp.
Proof. intros H. unfold trim_space. rewrite (trim_left_id _ H). apply trim_right_decomp. Qed.

(** * UTF-8 decoding *)
From Coq Require Import ZifyBool ZifyNat ZifyN.

Ltac bnorm :=
  repeat match goal with
  | H : _ && _ = true |- _ => apply andb_true_iff in H; destruct H
  | H : _ || _ = false |- _ => apply orb_false_iff in H; destruct H
  | H : negb _ = true |- _ => apply negb_true_iff in H
  | H : negb _ = false |- _ => apply negb_false_iff in H
  | H : (_ <=? _)%N = true |- _ => apply N.leb_le in H
  | H : (_ <=? _)%N = false |- _ => apply N.leb_gt in H
  | H : (_ <? _)%N = true |- _ => apply N.ltb_lt in H
  | H : (_ <? _)%N = false |- _ => apply N.ltb_ge in H
  | H : (_ =? _)%N = true |- _ => apply N.eqb_eq in H
  | H : (_ =? _)%N = false |- _ => apply N.eqb_neq in H
  | H : (_ <=? _) = true |- _ => apply Z.leb_le in H
  | H : (_ <=? _) = false |- _ => apply Z.leb_gt in H
  | H : (_ <? _) = true |- _ => apply Z.ltb_lt in H
  | H : (_ <? _) = false |- _ => apply Z.ltb_ge in H
  | H : (_ =? _) = true |- _ => apply Z.eqb_eq in H
  | H : (_ =? _) = false |- _ => apply Z.eqb_neq in H
  end.

Lemma decode_rune_spec rest r w :
  decode_rune rest = (r, w) -> rest <> [] ->
  1 <= w <= zlen rest /\
  ((r < 128)%N -> w = 1 /\ exists t, rest = r :: t) /\
  (r <> 10%N -> ~ In 10%N (firstn (Z.to_nat w) rest)).
Proof.
  intros H Hne. destruct rest as [|s0 t]; [congruence|clear Hne].
  unfold decode_rune, cont, RuneError in H.
  repeat match type of H with
  | (if ?c then _ else _) = _ => destruct c eqn:?
  | (match ?t with [] => _ | _ :: _ => _ end) = _ => destruct t
  | (let lo := _ in _) = _ => cbv zeta in H
  end; inversion H; subst; clear H; bnorm;
  repeat match goal with H : context[if ?c then _ else _] |- _ => destruct c eqn:? end; bnorm;
  (split; [unfold zlen; simpl length; lia|]);
  (split; [intros Hr; first [lia | split; [reflexivity|eauto]]
         | intros Hr; simpl; intros Hin; repeat (destruct Hin as [Hin|Hin]; try lia); try lia]).
Qed.

(** * Frame lemmas: what each scanner function may change *)

(** [adv s s']: only the cursor moved, forward, with [total] following [pos]. *)
Definition adv (s s' : scanner) : Prop :=
  input s' = input s /\ delim s' = delim s /\ total s' - pos s' = total s - pos s /\ pos s <= pos s'.

Lemma adv_refl s : adv s s.
Proof. unfold adv. repeat split; lia. Qed.
Lemma adv_trans a b c : adv a b -> adv b c -> adv a c.
Proof. unfold adv. intros (?&?&?&?) (?&?&?&?). repeat split; try congruence; lia. Qed.

Lemma adv_addPos s k : 0 <= k -> adv s (addPos s k).
Proof. intros H. unfold adv, addPos. simpl. repeat split; lia. Qed.
Lemma adv_set_width s w : adv s (set_width s w).
Proof. unfold adv. simpl. repeat split; lia. Qed.

Ltac inv_bind H :=
  let a := fresh "a" in let Ha := fresh "Ha" in
  apply bind_ok in H; destruct H as (a & Ha & H).

Lemma next_some s r s' :
  next s = Ok (Some r, s') ->
  exists rest w, slice_from (input s) (pos s) = Ok rest /\ rest <> [] /\ decode_rune rest = (r, w) /\
                 s' = addPos (set_width s w) w /\ 0 <= pos s < zlen (input s).
Proof.
  unfold next. destruct (zlen (input s) <=? pos s) eqn:E; [discriminate|]. bnorm.
  intros H. inv_bind H. destruct (decode_rune a) as [r0 w] eqn:D. inversion H; subst.
  exists a, w. pose proof (slice_from_ok _ _ _ Ha) as [Hb Hs].
  repeat split; auto; try lia.
  intros ->. symmetry in Hs. apply (f_equal (@length N)) in Hs. rewrite skipn_length in Hs.
  unfold zlen in *. simpl in Hs. lia.
Qed.
Lemma next_none s s' : next s = Ok (None, s') -> s' = s /\ zlen (input s) <= pos s.
Proof.
  unfold next. destruct (zlen (input s) <=? pos s) eqn:E; bnorm.
  - intros H; inversion H; subst; auto.
  - intros H. inv_bind H. destruct (decode_rune a); discriminate.
Qed.
Lemma next_adv s r s' : next s = Ok (r, s') -> adv s s'.
Proof.
  destruct r as [r|]; intros H.
  - apply next_some in H as (rest & w & H1 & H2 & H3 & -> & H4).
    destruct (decode_rune_spec _ _ _ H3 H2) as [Hw _].
    eapply adv_trans; [apply adv_set_width|]. apply adv_addPos. lia.
  - apply next_none in H as [-> _]. apply adv_refl.
Qed.

Lemma skipQuote_loop_adv f : forall s p0 q e s',
  skipQuote_loop f s p0 q e = Ok s' -> adv s s'.
Proof.
  induction f as [|f IH]; intros s p0 q e s' H; simpl in H; [discriminate|].
  inv_bind H. destruct a as [r s1]. pose proof (next_adv _ _ _ Ha) as A1.
  destruct r as [c|].
  - destruct (N.eqb c 92 && e).
    + inv_bind H. destruct a as [r2 s2]. simpl in H.
      eapply adv_trans; [exact A1|]. eapply adv_trans; [eapply next_adv; exact Ha0|]. eapply IH; exact H.
    + destruct (N.eqb c q); [inversion H; subst; exact A1|].
      eapply adv_trans; [exact A1|eapply IH; exact H].
  - unfold fail in H. inv_bind H. discriminate.
Qed.
Lemma skipQuote_adv o f s q s' : skipQuote o f s q = Ok s' -> adv s s'.
Proof. unfold skipQuote. intros H. inv_bind H. eapply skipQuote_loop_adv; exact H. Qed.

Lemma skipDollarQuote_loop_adv f : forall s m s', 1 <= zlen m ->
  skipDollarQuote_loop f s m = Ok s' -> adv s s'.
Proof.
  induction f as [|f IH]; intros s m s' Hm H; simpl in H; [discriminate|].
  inv_bind H. destruct a as [r s1]. pose proof (next_adv _ _ _ Ha) as A1.
  destruct r as [c|].
  - destruct (N.eqb c 36).
    + inv_bind H. destruct (has_prefix a m).
      * inversion H; subst. eapply adv_trans; [exact A1|apply adv_addPos; lia].
      * eapply adv_trans; [exact A1|eapply IH; eauto].
    + eapply adv_trans; [exact A1|eapply IH; eauto].
  - destruct (delim s1); [unfold fail in H; inv_bind H; discriminate|].
    inversion H; subst; exact A1.
Qed.
Lemma re_dollar_quote_some tl n : re_dollar_quote tl = Some n -> (2 <= n)%nat /\ tl <> [].
Proof.
  unfold re_dollar_quote. destruct tl as [|a t]; [discriminate|].
  destruct a as [|p]; [discriminate|]. intros H. split; [|discriminate].
  repeat match type of H with
  | match ?x with _ => _ end = _ => destruct x; try discriminate
  end; inversion H; subst; try lia.
Qed.
Lemma skipDollarQuote_adv f s s' : skipDollarQuote f s = Ok s' -> adv s s'.
Proof.
  unfold skipDollarQuote. intros H. inv_bind H.
  destruct (re_dollar_quote a) as [n|] eqn:E; [|unfold fail in H; inv_bind H; discriminate].
  apply re_dollar_quote_some in E as [Hn Hne].
  assert (1 <= zlen (firstn n a)) as Hm.
  { unfold zlen. rewrite firstn_length. destruct a; [congruence|simpl]. lia. }
  eapply adv_trans; [apply (adv_addPos s (zlen (firstn n a) - 1)); lia|].
  eapply skipDollarQuote_loop_adv; eauto.
Qed.

(** ** list utilities *)
Lemma skipn_app_l {A} (a b : list A) : skipn (length a) (a ++ b) = b.
Proof. rewrite skipn_app, skipn_all, Nat.sub_diag. reflexivity. Qed.
Lemma firstn_app_l {A} (a b : list A) : firstn (length a) (a ++ b) = a.
Proof. rewrite firstn_app, firstn_all, Nat.sub_diag, firstn_O, app_nil_r. reflexivity. Qed.
Lemma firstn_add (l : bytes) : forall p k, (p <= length l)%nat -> firstn (p + k) l = firstn p l ++ firstn k (skipn p l).
Proof.
  induction l as [|a l IH]; intros [|p] k H; simpl in *; try reflexivity; try lia.
  f_equal. apply IH. lia.
Qed.
Lemma to_nat_zlen (a : bytes) : Z.to_nat (zlen a) = length a.
Proof. unfold zlen. lia. Qed.
Lemma skipn_firstn_mid (l a b c : bytes) p q :
  l = a ++ b ++ c -> zlen a = p -> zlen b = q - p ->
  skipn (Z.to_nat p) (firstn (Z.to_nat q) l) = b.
Proof.
  intros -> Hp Hq. assert (Z.to_nat q = length (a ++ b)) as ->.
  { rewrite app_length. unfold zlen in *. lia. }
  rewrite app_assoc, firstn_app_l. rewrite <- Hp, to_nat_zlen. apply skipn_app_l.
Qed.
Lemma skipn_to_nat_add (l : bytes) p k : 0 <= p -> 0 <= k ->
  skipn (Z.to_nat (p + k)) l = skipn (Z.to_nat k) (skipn (Z.to_nat p) l).
Proof. intros Hp Hk. rewrite Z2Nat.inj_add by lia. apply skipn_add. Qed.
Lemma skipn_all_z (l : bytes) p : zlen l <= p -> skipn (Z.to_nat p) l = [].
Proof. intros H. apply skipn_all2. unfold zlen in H. lia. Qed.

(** ** the loop that reads to the end of the line *)
Definition EolSeg (seg rest : bytes) : Prop :=
  (exists arg, seg = arg ++ [10%N] /\ ~ In 10%N arg) \/ (~ In 10%N seg /\ rest = []).

Lemma to_eol_loop_spec f : forall s r s',
  to_eol_loop f s r = Ok s' -> 0 <= pos s -> (exists c, r = Some c /\ c <> 10%N) ->
  exists seg, skipn (Z.to_nat (pos s)) (input s) = seg ++ skipn (Z.to_nat (pos s')) (input s) /\
              EolSeg seg (skipn (Z.to_nat (pos s')) (input s)) /\ zlen seg = pos s' - pos s /\ adv s s'.
Proof.
  induction f as [|f IH]; intros s r s' H Hp (c & -> & Hc); simpl in H; [discriminate|].
  apply N.eqb_neq in Hc. rewrite Hc in H. inv_bind H. destruct a as [r1 s1]. simpl in H.
  destruct r1 as [c1|].
  - pose proof (next_adv _ _ _ Ha) as A1.
    apply next_some in Ha as (rest & w & H1 & H2 & H3 & -> & H4).
    destruct (decode_rune_spec _ _ _ H3 H2) as (Hw & Hascii & Hnl).
    apply slice_from_ok in H1 as [_ Hrest].
    assert (rest = firstn (Z.to_nat w) rest ++ skipn (Z.to_nat (pos s + w)) (input s)) as Hsplit.
    { rewrite skipn_to_nat_add by lia. rewrite <- Hrest. symmetry; apply firstn_skipn. }
    assert (zlen (firstn (Z.to_nat w) rest) = w) as Hlw by (apply zlen_firstn; lia).
    destruct (N.eqb c1 10) eqn:E10.
    + apply N.eqb_eq in E10. subst c1. destruct f; simpl in H; [discriminate|]. inversion H; subst s'. clear H.
      destruct (Hascii ltac:(lia)) as [-> [t Ht]].
      exists [10%N]. simpl pos. rewrite <- Hrest. split; [|split; [|split]].
      * rewrite Hsplit at 1. rewrite Ht. reflexivity.
      * left. exists []. split; [reflexivity|intros []].
      * unfold zlen; simpl; lia.
      * exact A1.
    + apply N.eqb_neq in E10.
      destruct (IH _ _ _ H ltac:(simpl; lia) ltac:(eauto)) as (seg & S1 & S2 & S3 & S4).
      simpl pos in *. simpl input in *.
      exists (firstn (Z.to_nat w) rest ++ seg). split; [|split; [|split]].
      * rewrite <- Hrest, Hsplit at 1. rewrite S1, app_assoc. reflexivity.
      * destruct S2 as [(arg & -> & Harg)|[Hseg Hr]].
        -- left. exists (firstn (Z.to_nat w) rest ++ arg). rewrite app_assoc. split; [reflexivity|].
           intros Hin. apply in_app_or in Hin as [Hin|Hin]; [apply (Hnl E10 Hin)|apply (Harg Hin)].
        -- right. split; [|exact Hr]. intros Hin. apply in_app_or in Hin as [Hin|Hin]; [apply (Hnl E10 Hin)|apply (Hseg Hin)].
      * rewrite zlen_app. lia.
      * eapply adv_trans; [exact A1|exact S4].
  - apply next_none in Ha as [-> Hlen]. destruct f; simpl in H; [discriminate|]. inversion H; subst s'.
    exists []. rewrite (skipn_all_z _ _ Hlen).
    split; [reflexivity|split; [right; split; [intros []|reflexivity]|split; [unfold zlen; simpl; lia|apply adv_refl]]].
Qed.

(** * Specification: gaps, raw statements, losslessness *)
Section Spec.
Variable o : opts.

(** a terminated comment: opener, body, terminator — the terminator does not occur earlier. *)
Definition CommentSeg (c : bytes) : Prop :=
  exists left right body,
    c = left ++ body ++ right /\ index_of (body ++ right) right = Some (length body) /\
    ((left = [45%N; 45%N] /\ right = NL) \/ (left = [47%N; 42%N] /\ right = [42%N; 47%N])
     \/ (HashComments o = true /\ left = [35%N] /\ right = NL)).

(** [Gap d g d']: [g] is a sequence of white space, terminated comments and DELIMITER command
    lines; [d] is the delimiter in force before it, [d'] after it. A DELIMITER line is the keyword
    (any case), a space, the rest of the line (no newline inside) and its newline — or the end of
    the input. *)
Inductive Gap : bytes -> bytes -> bytes -> Prop :=
| Gap_nil d : Gap d [] d
| Gap_space d sp g d' : Spaces sp -> Gap d g d' -> Gap d (sp ++ g) d'
| Gap_comment d c g d' : CommentSeg c -> Gap d g d' -> Gap d (c ++ g) d'
| Gap_delim d kw arg nl g d0 d' :
    length kw = 9%nat -> has_prefix_ci kw W_DELIMITER = true ->
    (exists t, arg = 32%N :: t) -> ~ In 10%N arg ->
    (nl = NL \/ (nl = [] /\ g = [])) ->
    delim_of_arg (arg ++ nl) = Ok d0 -> d0 <> [] ->
    Gap (unescape_delim d0) g d' -> Gap d (kw ++ arg ++ nl ++ g) d'.

(** the bytes a statement was cut from: its text, then white space, then possibly the delimiter. *)
Definition RawOf (d raw : bytes) (st : Stmt) : Prop :=
  exists sp dl, raw = Text st ++ sp ++ dl /\ Spaces sp /\ (dl = [] \/ dl = d).

(** [Lossless d off inp ss]: [inp] (which starts at offset [off] of the file, with delimiter [d] in
    force) is exactly gap, raw statement, gap, ..., gap; every statement's [Pos] is the offset
    of its raw text. *)
Inductive Lossless : bytes -> Z -> bytes -> list Stmt -> Prop :=
| LL_end d off g d' : Gap d g d' -> Lossless d off g []
| LL_stmt d off g d' raw rest st ss :
    Gap d g d' -> RawOf d' raw st -> raw <> [] -> Pos st = off + zlen g ->
    Lossless d' (off + zlen g + zlen raw) rest ss ->
    Lossless d off (g ++ raw ++ rest) (st :: ss).

(** ** Comments: which comment segments a statement carries (round 5)

    [SegC seg rest cs cs']: one segment that [stmt] strips off the front of the input between two
    statements, [rest] being everything after it, and what it does to the comment group
    ([Scanner.comments]): white space keeps it; a terminated comment is appended, unless the text
    after it starts with an empty line (two newlines after a block comment, one after a line
    comment, whose own newline is part of it) - then the group is *emptied*; a DELIMITER command
    line empties it ([emit]). [GapCs g rest cs cs'] is a sequence of such segments. *)
Definition blank_after (right rest : bytes) : bool :=
  has_prefix rest NLNL || (bytes_eqb right NL && has_prefix rest NL).

Inductive SegC : bytes -> bytes -> list bytes -> list bytes -> Prop :=
| SC_space sp rest cs : Spaces sp -> SegC sp rest cs cs
| SC_comment left body right sp rest cs :
    index_of (body ++ right) right = Some (length body) ->
    ((left = [45%N; 45%N] /\ right = NL) \/ (left = [47%N; 42%N] /\ right = [42%N; 47%N])
     \/ (HashComments o = true /\ left = [35%N] /\ right = NL)) ->
    Spaces sp -> starts_space rest = false ->
    SegC ((left ++ body ++ right) ++ sp) rest cs
         (if blank_after right (sp ++ rest) then [] else cs ++ [left ++ body ++ right])
| SC_delim kw arg nl sp rest cs :
    length kw = 9%nat -> has_prefix_ci kw W_DELIMITER = true ->
    (exists t, arg = 32%N :: t) -> ~ In 10%N arg -> (nl = NL \/ (nl = [] /\ sp ++ rest = [])) ->
    Spaces sp -> SegC (kw ++ arg ++ nl ++ sp) rest cs [].

Inductive GapCs : bytes -> bytes -> list bytes -> list bytes -> Prop :=
| GCs_nil rest cs : GapCs [] rest cs cs
| GCs_cons seg g rest cs cs1 cs2 :
    SegC seg (g ++ rest) cs cs1 -> GapCs g rest cs1 cs2 -> GapCs (seg ++ g) rest cs cs2.

Lemma GapCs_snoc g : forall seg rest cs cs1 cs2,
  GapCs g (seg ++ rest) cs cs1 -> SegC seg rest cs1 cs2 -> GapCs (g ++ seg) rest cs cs2.
Proof.
  intros seg rest cs cs1 cs2 H. remember (seg ++ rest) as r eqn:Er. revert Er.
  induction H as [r cs|sg g r cs ca cb HS HG IH]; intros Er HS2; subst r.
  - simpl. rewrite <- (app_nil_r seg). eapply GCs_cons; [rewrite app_nil_l; exact HS2|apply GCs_nil].
  - rewrite <- app_assoc. eapply GCs_cons; [rewrite <- app_assoc; exact HS|]. apply IH; auto.
Qed.

(** soundness reading of [GapCs]: every member of the resulting group is a terminated comment
    that occurs in the gap (or was in the group before). *)
Definition InGap (x c : bytes) : Prop := exists a b, x = a ++ c ++ b /\ CommentSeg c.

Lemma GapCs_sound g rest cs cs' : GapCs g rest cs cs' -> forall pre,
  Forall (InGap pre) cs -> Forall (InGap (pre ++ g)) cs'.
Proof.
  induction 1 as [rest cs|seg g rest cs cs1 cs2 HS HG IH]; intros pre HF.
  - rewrite app_nil_r. exact HF.
  - rewrite app_assoc. apply IH.
    assert (Forall (InGap (pre ++ seg)) cs) as HF'.
    { eapply Forall_impl; [|exact HF]. intros c (a & b & -> & HC). exists a, (b ++ seg).
      split; [rewrite <- !app_assoc; reflexivity|exact HC]. }
    inversion HS; subst.
    + exact HF'.
    + destruct (blank_after _ _); [constructor|]. apply Forall_app. split; [exact HF'|].
      constructor; [|constructor]. exists pre, sp. split; [reflexivity|].
      exists left, right, body. auto.
    + constructor.
Qed.

(** the same for every option set: with [GoCommand] a statement may be followed by a segment [go]
    (the consumed GO batch separator, [[]] without the option) and its [Pos] is too large by
    exactly the length of that segment ([emit]: [Pos = total - len(text)], [total] already counts
    the separator). Round 5: [Comments st] is the comment group that the segments of the gap [g]
    before the statement leave ([GapCs], starting from the empty group). *)
Inductive LosslessG : bytes -> Z -> bytes -> list Stmt -> Prop :=
| LG_end d off g d' : Gap d g d' -> LosslessG d off g []
| LG_stmt d off g d' raw go rest st ss :
    Gap d g d' -> RawOf d' raw st -> raw ++ go <> [] -> (go = [] \/ GoCommand o = true) ->
    Pos st = off + zlen g + zlen go ->
    GapCs g (raw ++ go ++ rest) [] (Comments st) ->
    LosslessG d' (off + zlen g + zlen raw + zlen go) rest ss ->
    LosslessG d off (g ++ raw ++ go ++ rest) (st :: ss).

Lemma LosslessG_noGo d off inp ss : GoCommand o = false -> LosslessG d off inp ss -> Lossless d off inp ss.
Proof.
  intros noGo H. induction H as [d off g d' HG|d off g d' raw go rest st ss HG HR Hne Hgo HP HC HL IH].
  - eapply LL_end; exact HG.
  - destruct Hgo as [->|Hgo]; [|congruence]. rewrite app_nil_r in Hne. change (zlen []) with 0 in *.
    rewrite Z.add_0_r in *. simpl. eapply LL_stmt; eauto.
Qed.

(** ** comment *)
Lemma comment_cases s left right s' :
  comment s left right = Ok s' -> 0 <= pos s ->
  adv s s' \/
  (pos s = zlen left /\ exists body sp,
     skipn (Z.to_nat (pos s)) (input s) = body ++ right ++ sp ++ input s' /\
     index_of (body ++ right) right = Some (length body) /\ Spaces sp /\
     starts_space (input s') = false /\ pos s' = 0 /\ delim s' = delim s /\
     total s' = total s + zlen body + zlen right + zlen sp).
Proof.
  unfold comment. intros H Hp. inv_bind H. rename a into tl.
  apply slice_from_ok in Ha as [Hb Htl].
  destruct (index_of tl right) as [i|] eqn:Ei; [|inversion H; left; apply adv_refl].
  destruct (negb (pos s =? zlen left)) eqn:En.
  { inversion H. left. apply adv_addPos. pose proof (zlen_nonneg right). lia. }
  bnorm. right. split; [exact En|].
  inv_bind H. rename a into c. inv_bind H. rename a into rest. inversion H; subst s'; clear H.
  apply slice_from_ok in Ha0 as [_ Hrest]. simpl in Hrest.
  pose proof (index_of_spec _ _ _ Ei) as [_ Hi].
  pose proof (index_of_app _ _ _ Ei) as Happ.
  pose proof (index_of_firstn _ _ _ Ei) as Hfirst.
  assert (rest = skipn (i + length right) tl) as Hrest'.
  { rewrite Hrest, Htl. rewrite skipn_to_nat_add by (pose proof (zlen_nonneg right); lia).
    f_equal. unfold zlen. lia. }
  destruct (trim_left_decomp rest) as (sp & Hsp & Hsp2 & Hsp3).
  exists (firstn i tl), sp.
  assert (length (firstn i tl) = i) as Hlb by (rewrite firstn_length; lia).
  assert (firstn (i + length right) tl = firstn i tl ++ right) as Hbr.
  { rewrite Happ at 1. rewrite app_assoc. rewrite <- Hlb at 1. rewrite <- app_length, firstn_app_l. reflexivity. }
  assert (zlen rest = zlen sp + zlen (trim_left_space rest)) as Hz by (rewrite Hsp at 1; apply zlen_app).
  assert (zlen (firstn i tl) = Z.of_nat i) as Hzb by (unfold zlen; lia).
  match goal with |- context[skipSpaces (if ?b then _ else _)] => destruct b end; simpl;
  (repeat split;
   [ rewrite <- Htl; rewrite Happ at 1; rewrite <- Hrest'; f_equal; f_equal; exact Hsp
   | rewrite <- Hbr, Hlb; exact Hfirst
   | exact Hsp2 | exact Hsp3 | lia ]).
Qed.
End Spec.

(** ** delimCmd *)
Lemma unescape_delim_nonnil d : d <> [] -> unescape_delim d <> [].
Proof.
  destruct d as [|a [|c t]]; [congruence| |]; intros _; simpl.
  - destruct a as [|p]; [discriminate|]. repeat (destruct p; try discriminate).
  - destruct a as [|p]; [discriminate|].
    repeat (destruct p; try discriminate);
    destruct (N.eqb c 110); try discriminate; destruct (N.eqb c 114); try discriminate;
    destruct (N.eqb c 116); discriminate.
Qed.

Lemma pick_32 s : (do r <- pick s; Ok r) = Ok (Some 32%N) -> 0 <= pos s /\
  exists t, skipn (Z.to_nat (pos s)) (input s) = 32%N :: t.
Proof.
  unfold pick. intros H. inv_bind H. inv_bind Ha. destruct a0 as [r s1]. simpl in Ha. inversion Ha; subst.
  inversion H; subst. apply next_some in Ha0 as (rest & w & H1 & H2 & H3 & _ & H4).
  destruct (decode_rune_spec _ _ _ H3 H2) as (_ & Hascii & _).
  destruct (Hascii ltac:(lia)) as [_ [t Ht]]. apply slice_from_ok in H1 as [_ Hr].
  split; [lia|]. exists t. congruence.
Qed.

Local Arguments unescape_delim : simpl never.
Local Arguments skipn : simpl never.
Local Arguments firstn : simpl never.

Lemma delimCmd_cases o f s s' :
  delimCmd o f s = Ok s' -> pos s = 9 ->
  adv s s' \/
  exists arg nl d0,
    skipn 9 (input s) = arg ++ nl ++ input s' /\ (exists t, arg = 32%N :: t) /\ ~ In 10%N arg /\
    (nl = NL \/ (nl = [] /\ input s' = [])) /\ delim_of_arg (arg ++ nl) = Ok d0 /\ d0 <> [] /\
    delim s' = unescape_delim d0 /\ pos s' = 0 /\ total s' = total s + zlen arg + zlen nl.
Proof.
  unfold delimCmd. intros H Hp. inv_bind H. rename a into r.
  destruct (negb (rune_is r 32)) eqn:Er; [inversion H; left; apply adv_refl|]. right.
  bnorm. destruct r as [c|]; [|discriminate]. simpl in Er. apply N.eqb_eq in Er. subst c.
  destruct (pick_32 s) as [Hp0 [t0 Ht0]]; [rewrite Ha; reflexivity|].
  inv_bind H. rewrite Ha in Ha0. inversion Ha0; subst a. clear Ha0.
  inv_bind H. rename a into s1.
  destruct (to_eol_loop_spec _ _ _ _ Ha0 Hp0 ltac:(exists 32%N; split; [reflexivity|discriminate]))
    as (seg & S1 & S2 & S3 & S4).
  inv_bind H. rename a into raw. inv_bind H. rename a into d'. inv_bind H. rename a into s2.
  inv_bind H. rename a into txt. inv_bind H. destruct a as [st s3]. simpl in H. inversion H; subst s3; clear H.
  unfold setDelim in Ha3. destruct d' as [|d1 d2] eqn:Ed'; [discriminate|]. inversion Ha3; subst s2; clear Ha3.
  unfold emit in Ha5. apply bind_ok in Ha5. destruct Ha5 as (rest & Hsl & Ha5).
  inversion Ha5; subst s' st; clear Ha5. simpl in *.
  apply slice_from_ok in Hsl as [Hb Hrest]. rewrite Hp in *.
  destruct S4 as (I1 & I2 & I3 & I4). rewrite I1 in *.
  assert (raw = seg) as ->.
  { apply slice_ok in Ha1 as (_ & _ & ->).
    apply (skipn_firstn_mid _ (firstn 9 (input s)) seg (skipn (Z.to_nat (pos s1)) (input s))).
    - rewrite <- S1. change (Z.to_nat 9) with 9%nat. symmetry; apply firstn_skipn.
    - change 9%nat with (Z.to_nat 9). apply zlen_firstn. change (zlen S_DELIMITER) with 9. lia.
    - change (zlen S_DELIMITER) with 9. lia. }
  change (Z.to_nat 9) with 9%nat in *.
  destruct S2 as [(arg & -> & Harg)|[Hseg Hr]].
  - exists arg, NL, (d1 :: d2). rewrite <- app_assoc in S1. rewrite Hrest.
    repeat split; auto; try discriminate.
    + destruct arg as [|a0 arg']; [rewrite Ht0 in S1; simpl in S1; inversion S1|].
      rewrite Ht0 in S1. simpl in S1. inversion S1. eauto.
    + rewrite zlen_app in S3. change (zlen NL) with 1. change (zlen [10%N]) with 1 in S3. lia.
  - exists seg, [], (d1 :: d2). rewrite Hrest, Hr. rewrite Hr, app_nil_r in S1.
    rewrite !app_nil_r. repeat split; auto; try discriminate.
    + exists t0. congruence.
    + change (zlen []) with 0. lia.
Qed.

(** ** nested block scanners: whatever the nested [stmt] does, the outer scanner only advances *)
Lemma setDelim_ok s d s' : setDelim s d = Ok s' -> d <> [] /\ s' = set_delim s (unescape_delim d).
Proof. unfold setDelim. destruct d; [discriminate|]. intros H; inversion H. split; [discriminate|reflexivity]. Qed.
Lemma init_total s0 inp s : init s0 inp = Ok s -> 0 <= total s /\ pos s = 0 /\ delim s <> [].
Proof.
  unfold init. destruct (directive_delimiter inp); [|intros H; inversion H; simpl; repeat split; [lia|discriminate]].
  intros H. inv_bind H. apply setDelim_ok in Ha as [Hd ->].
  destruct (index_of inp NL); [|unfold fail in H; inv_bind H; discriminate].
  inversion H; subst. simpl. unfold zlen. rewrite skipn_length. repeat split; [lia|].
  apply unescape_delim_nonnil. exact Hd.
Qed.

Lemma word_ci_len w s n r : word_ci w s = Some (n, r) -> n = length w.
Proof. unfold word_ci. destruct (has_prefix_ci s w); [|discriminate]. intros H; inversion H; auto. Qed.
Lemma re_begin_pos s n : re_begin s = Some n -> (1 <= n)%nat.
Proof.
  unfold re_begin. destruct (skip_s s) as [n0 r0]. destruct (word_ci W_BEGIN r0) as [[n1 r1]|] eqn:E; [|discriminate].
  apply word_ci_len in E. destruct (skip_s1 r1) as [[n2 r2]|]; [|discriminate]. intros H; inversion H.
  subst. simpl. lia.
Qed.
Lemma re_begin_word_pos w s n : re_begin_word w s = Some n -> (1 <= n)%nat.
Proof.
  unfold re_begin_word. destruct (skip_s s) as [n0 r0]. destruct (word_ci W_BEGIN r0) as [[n1 r1]|] eqn:E; [|discriminate].
  apply word_ci_len in E. destruct (skip_s1 r1) as [[n2 r2]|]; [|discriminate].
  destruct (word_ci w r2) as [[n3 r3]|]; [|discriminate].
  destruct (skip_s1 r3) as [[n4 r4]|]; [|discriminate]. intros H; inversion H.
  subst. simpl. lia.
Qed.

Section IterProofs.
Variable o : opts.
Variable nested : scanner -> res (scanner * option Stmt).
Hypothesis nested_mono : forall b b' r, pos b = 0 -> delim b <> [] -> nested b = Ok (b', r) ->
  total b <= total b' /\ pos b' = 0 /\ delim b' <> [] /\
  (forall st, r = Some st -> total b + zlen (Text st) <= total b').

Lemma nfail_ok s p k r : nfail s p k = Ok r -> fst r = s.
Proof. unfold nfail. intros H. inv_bind H. inversion H. reflexivity. Qed.

Lemma atomic_loop_adv f : forall s body r, 0 <= total body -> pos body = 0 -> delim body <> [] ->
  atomic_loop nested f s body = Ok r -> adv s (fst r).
Proof.
  induction f as [|f IH]; intros s body r Hb Hp Hd H; simpl in H; [discriminate|].
  destruct (nested body) as [[body' [st|]]|e| |] eqn:En; try discriminate.
  - destruct (nested_mono _ _ _ Hp Hd En) as (M1 & M2 & M3 & M4). destruct (re_end (Text st)).
    + inversion H; subst; simpl. apply adv_addPos. lia.
    + eapply IH; [| | |exact H]; auto. lia.
  - apply nfail_ok in H. rewrite H. apply adv_refl.
  - apply nfail_ok in H. rewrite H. apply adv_refl.
Qed.
Lemma begin_loop_adv f : forall s group r, 0 <= total group -> pos group = 0 -> delim group <> [] ->
  begin_loop o nested f s group = Ok r -> adv s (fst r).
Proof.
  induction f as [|f IH]; intros s group r Hb Hp Hd H; simpl in H; [discriminate|].
  destruct (nested group) as [[group' [st|]]|e| |] eqn:En; try discriminate.
  - destruct (nested_mono _ _ _ Hp Hd En) as (M1 & M2 & M3 & M4). destruct (re_end (Text st)).
    + destruct (_ || _).
      * inversion H; subst; simpl. apply adv_addPos. lia.
      * eapply IH; [| | |exact H]; auto. lia.
    + destruct (_ && _).
      * inversion H; subst; simpl. apply adv_addPos. lia.
      * eapply IH; [| | |exact H]; auto. lia.
  - apply nfail_ok in H. rewrite H. apply adv_refl.
  - apply nfail_ok in H. rewrite H. apply adv_refl.
Qed.

Lemma skipBeginAtomic_adv f s r : skipBeginAtomic nested f s = Ok r -> adv s (fst r).
Proof.
  unfold skipBeginAtomic. intros H. inv_bind H.
  destruct (re_begin_atomic a) as [n|] eqn:E; [|apply nfail_ok in H; rewrite H; apply adv_refl].
  apply re_begin_word_pos in E. inv_bind H.
  assert (adv s (addPos s (Z.of_nat n - 1))) as A1 by (apply adv_addPos; lia).
  destruct (init (new_scanner false) a0) as [body|e| |] eqn:Ei; try discriminate.
  - destruct (init_total _ _ _ Ei) as (T1 & T2 & T3). eapply adv_trans; [exact A1|]. eapply atomic_loop_adv; [| | |exact H]; auto.
  - inversion H; subst; exact A1.
Qed.
Lemma skipBegin_adv f s r : skipBegin o nested f s = Ok r -> adv s (fst r).
Proof.
  unfold skipBegin. intros H. inv_bind H.
  destruct (re_begin a) as [n|] eqn:E; [|apply nfail_ok in H; rewrite H; apply adv_refl].
  apply re_begin_pos in E. inv_bind H.
  assert (adv s (addPos s (Z.of_nat n - 1))) as A1 by (apply adv_addPos; lia).
  destruct (init (new_scanner (BeginEndTerminator o)) a0) as [body|e| |] eqn:Ei; try discriminate.
  - destruct (init_total _ _ _ Ei) as (T1 & T2 & T3). eapply adv_trans; [exact A1|]. eapply begin_loop_adv; [| | |exact H]; auto.
  - inversion H; subst; exact A1.
Qed.

Lemma firstn_zlen_le (l : bytes) n : zlen (firstn n l) <= zlen l.
Proof. unfold zlen. rewrite firstn_length. lia. Qed.

Lemma trycatch_loop_adv f : forall s body r, 0 <= total body -> pos body = 0 -> delim body <> [] ->
  trycatch_loop nested f s body = Ok r -> adv s (fst r).
Proof.
  induction f as [|f IH]; intros s body r Hb Hp Hd H; simpl in H; [discriminate|].
  destruct (nested body) as [[body' [st|]]|e| |] eqn:En; try discriminate.
  - destruct (nested_mono _ _ _ Hp Hd En) as (M1 & M2 & M3 & M4). specialize (M4 _ eq_refl).
    destruct (re_end_catch (Text st)) as [n|].
    + pose proof (firstn_zlen_le (Text st) n). pose proof (zlen_nonneg (firstn n (Text st))).
      inversion H; subst; simpl. destruct (has_suffix _ _); unfold adv, addPos; simpl; repeat split; lia.
    + eapply IH; [| | |exact H]; auto. lia.
  - apply nfail_ok in H. rewrite H. apply adv_refl.
  - apply nfail_ok in H. rewrite H. apply adv_refl.
Qed.
Lemma skipBeginTryCatch_adv f s r : skipBeginTryCatch nested f s = Ok r -> adv s (fst r).
Proof.
  unfold skipBeginTryCatch. intros H. inv_bind H.
  destruct (re_begin_try a) as [n|] eqn:E; [|apply nfail_ok in H; rewrite H; apply adv_refl].
  apply re_begin_word_pos in E. inv_bind H.
  assert (adv s (addPos s (Z.of_nat n - 1))) as A1 by (apply adv_addPos; lia).
  destruct (init (new_scanner false) a0) as [body|e| |] eqn:Ei; try discriminate.
  - destruct (init_total _ _ _ Ei) as (T1 & T2 & T3). eapply adv_trans; [exact A1|]. eapply trycatch_loop_adv; [| | |exact H]; auto.
  - inversion H; subst; exact A1.
Qed.

Lemma after_block_spec r depth opos step s0 :
  after_block r depth opos = Ok step -> (forall x, r = Ok x -> adv s0 (fst x)) ->
  match step with
  | Continue s1 _ _ => adv s0 s1
  | Break s1 text => adv s0 s1 /\ text = firstn (Z.to_nat (pos s1)) (input s1)
  | RetEOF _ => False
  end.
Proof.
  unfold after_block. intros H Hr. inv_bind H. destruct a as [s1 [e|]].
  - inversion H; subst. apply (Hr _ eq_refl).
  - inv_bind H. inversion H; subst. split; [apply (Hr _ eq_refl)|].
    apply slice_to_ok in Ha0 as [_ ->]. reflexivity.
Qed.
End IterProofs.

Lemma one_byte (l : bytes) a t0 : skipn 0 l = a :: t0 -> l = [a] ++ skipn 1 l.
Proof. destruct l as [|x l']; cbv [skipn]; intros H; inversion H; reflexivity. Qed.
Lemma two_bytes (l : bytes) a b t0 t1 :
  skipn 0 l = a :: t0 -> skipn 1 l = b :: t1 -> l = [a; b] ++ skipn 2 l.
Proof.
  destruct l as [|x [|y l']]; cbv [skipn]; intros H1 H2; inversion H1; inversion H2; reflexivity.
Qed.

Ltac inv_bind_as H a Ha := apply bind_ok in H; destruct H as (a & Ha & H).

(** ** the GO batch separator (GoCommand) *)
Lemma skipGoCount_adv f s s' : skipGoCount f s = Ok s' -> adv s s'.
Proof.
  unfold skipGoCount. intros H. inv_bind_as H r Hr.
  destruct (rune_is r 32) eqn:Er; [|inversion H; apply adv_refl].
  destruct r as [c|]; [|discriminate]. simpl in Er. apply N.eqb_eq in Er. subst c.
  destruct (pick_32 s) as [Hp0 _]; [rewrite Hr; reflexivity|].
  cbv zeta in H. inv_bind_as H r0 Hr0. rewrite Hr in Hr0. inversion Hr0; subst r0. clear Hr0.
  inv_bind_as H s1 Hs1.
  destruct (to_eol_loop_spec _ _ _ _ Hs1 Hp0 ltac:(exists 32%N; split; [reflexivity|discriminate]))
    as (seg & _ & _ & _ & S4).
  inv_bind_as H raw Hraw. destruct (atoi_ok _); [|discriminate]. inversion H; subst. exact S4.
Qed.

Lemma split3 (l : bytes) k p : (k <= p)%nat -> l = firstn k l ++ skipn k (firstn p l) ++ skipn p l.
Proof.
  intros H. rewrite <- (firstn_skipn p l) at 1. rewrite <- (firstn_skipn k (firstn p l)) at 1.
  rewrite firstn_firstn, Nat.min_l by lia. rewrite <- app_assoc. reflexivity.
Qed.

(** * Comments (round 5): the functions that do not touch [Scanner.comments] *)
Lemma next_cm s r s' : next s = Ok (r, s') -> comments s' = comments s.
Proof.
  destruct r as [r|]; intros H.
  - apply next_some in H as (rest & w & _ & _ & _ & -> & _). reflexivity.
  - apply next_none in H as [-> _]. reflexivity.
Qed.
Lemma skipQuote_loop_cm f : forall s p0 q e s', skipQuote_loop f s p0 q e = Ok s' -> comments s' = comments s.
Proof.
  induction f as [|f IH]; intros s p0 q e s' H; simpl in H; [discriminate|].
  inv_bind H. destruct a as [r s1]. pose proof (next_cm _ _ _ Ha) as C1.
  destruct r as [c|].
  - destruct (N.eqb c 92 && e).
    + inv_bind H. destruct a as [r2 s2]. simpl in H. rewrite (IH _ _ _ _ _ H), (next_cm _ _ _ Ha0). exact C1.
    + destruct (N.eqb c q); [inversion H; subst; exact C1|]. rewrite (IH _ _ _ _ _ H). exact C1.
  - unfold fail in H. inv_bind H. discriminate.
Qed.
Lemma skipQuote_cm o f s q s' : skipQuote o f s q = Ok s' -> comments s' = comments s.
Proof. unfold skipQuote. intros H. inv_bind H. eapply skipQuote_loop_cm; exact H. Qed.
Lemma skipDollarQuote_loop_cm f : forall s m s', skipDollarQuote_loop f s m = Ok s' -> comments s' = comments s.
Proof.
  induction f as [|f IH]; intros s m s' H; simpl in H; [discriminate|].
  inv_bind H. destruct a as [r s1]. pose proof (next_cm _ _ _ Ha) as C1.
  destruct r as [c|].
  - destruct (N.eqb c 36).
    + inv_bind H. destruct (has_prefix a m).
      * inversion H; subst. exact C1.
      * rewrite (IH _ _ _ H). exact C1.
    + rewrite (IH _ _ _ H). exact C1.
  - destruct (delim s1); [unfold fail in H; inv_bind H; discriminate|]. inversion H; subst; exact C1.
Qed.
Lemma skipDollarQuote_cm f s s' : skipDollarQuote f s = Ok s' -> comments s' = comments s.
Proof.
  unfold skipDollarQuote. intros H. inv_bind H.
  destruct (re_dollar_quote a) as [n|]; [|unfold fail in H; inv_bind H; discriminate].
  apply skipDollarQuote_loop_cm in H. exact H.
Qed.
Lemma to_eol_loop_cm f : forall s r s', to_eol_loop f s r = Ok s' -> comments s' = comments s.
Proof.
  induction f as [|f IH]; intros s r s' H; simpl in H; [discriminate|].
  destruct r as [c|]; [|inversion H; reflexivity]. destruct (N.eqb c 10); [inversion H; reflexivity|].
  inv_bind H. destruct a as [r1 s1]. simpl in H. rewrite (IH _ _ _ H). eapply next_cm; exact Ha.
Qed.
Lemma skipGoCount_cm f s s' : skipGoCount f s = Ok s' -> comments s' = comments s.
Proof.
  unfold skipGoCount. intros H. inv_bind H. destruct (rune_is a 32); [|inversion H; reflexivity].
  cbv zeta in H. inv_bind H. inv_bind H. inv_bind H. destruct (atoi_ok _); [|discriminate]. inversion H; subst.
  eapply to_eol_loop_cm; eauto.
Qed.

Local Arguments blank_after : simpl never.

(** [comment], with what it does to the comment group. *)
Lemma comment_casesC s left right s' :
  comment s left right = Ok s' -> 0 <= pos s ->
  (adv s s' /\ comments s' = comments s) \/
  (pos s = zlen left /\ exists body sp,
     skipn (Z.to_nat (pos s)) (input s) = body ++ right ++ sp ++ input s' /\
     index_of (body ++ right) right = Some (length body) /\ Spaces sp /\
     starts_space (input s') = false /\ pos s' = 0 /\
     comments s' = if blank_after right (sp ++ input s') then []
                   else comments s ++ [firstn (Z.to_nat (pos s)) (input s) ++ body ++ right]).
Proof.
  unfold comment. intros H Hp. inv_bind H. rename a into tl.
  apply slice_from_ok in Ha as [Hb Htl].
  destruct (index_of tl right) as [i|] eqn:Ei; [|inversion H; left; split; [apply adv_refl|reflexivity]].
  destruct (negb (pos s =? zlen left)) eqn:En.
  { inversion H. left. split; [apply adv_addPos; pose proof (zlen_nonneg right); lia|reflexivity]. }
  bnorm. right. split; [exact En|].
  inv_bind H. rename a into c. inv_bind H. rename a into rest. inversion H; subst s'; clear H.
  apply slice_from_ok in Ha0 as [_ Hrest]. simpl in Hrest.
  apply slice_to_ok in Ha as [_ Hc]. simpl in Hc.
  pose proof (index_of_spec _ _ _ Ei) as [_ Hi].
  pose proof (index_of_app _ _ _ Ei) as Happ.
  pose proof (index_of_firstn _ _ _ Ei) as Hfirst.
  assert (rest = skipn (i + length right) tl) as Hrest'.
  { rewrite Hrest, Htl. rewrite skipn_to_nat_add by (pose proof (zlen_nonneg right); lia).
    f_equal. unfold zlen. lia. }
  destruct (trim_left_decomp rest) as (sp & Hsp & Hsp2 & Hsp3).
  exists (firstn i tl), sp.
  assert (length (firstn i tl) = i) as Hlb by (rewrite firstn_length; lia).
  assert (firstn (i + length right) tl = firstn i tl ++ right) as Hbr.
  { rewrite Happ at 1. rewrite app_assoc. rewrite <- Hlb at 1. rewrite <- app_length, firstn_app_l. reflexivity. }
  assert (c = firstn (Z.to_nat (pos s)) (input s) ++ firstn i tl ++ right) as Hc'.
  { rewrite Hc. transitivity (firstn (Z.to_nat (pos s) + (i + length right)) (input s)).
    - f_equal. unfold zlen. lia.
    - rewrite firstn_add by (unfold zlen in Hb; lia). rewrite <- Htl, Hbr. reflexivity. }
  match goal with |- context[skipSpaces (if ?b then _ else _)] => change b with (blank_after right rest) end.
  destruct (blank_after right rest) eqn:Eb; simpl;
  (split; [rewrite <- Htl; rewrite Happ at 1; rewrite <- Hrest'; f_equal; f_equal; exact Hsp|]);
  (split; [rewrite <- Hbr, Hlb; exact Hfirst|]); (split; [exact Hsp2|]); (split; [exact Hsp3|]);
  (split; [reflexivity|]); rewrite <- Hsp, Eb, ?Hc'; reflexivity.
Qed.

Lemma delimCmd_cm o f s s' : delimCmd o f s = Ok s' -> s' = s \/ (comments s' = [] /\ pos s' = 0).
Proof.
  unfold delimCmd. intros H. inv_bind H. destruct (negb _); [inversion H; left; reflexivity|]. right.
  repeat (let a := fresh "x" in let Ha := fresh "Hx" in apply bind_ok in H; destruct H as (a & Ha & H)).
  match goal with HE : emit _ _ _ = Ok _ |- _ =>
    unfold emit in HE; apply bind_ok in HE; destruct HE as (rr & _ & HE); inversion HE; subst end.
  inversion H; subst. simpl. split; reflexivity.
Qed.

Section StripC.
Variable o : opts.

(** one step of the comment group over one iteration of [stmt]'s loop *)
Definition CmStep (s0 s1 : scanner) : Prop :=
  (input s1 = input s0 /\ comments s1 = comments s0) \/
  (pos s0 = 0 /\ pos s1 = 0 /\ exists seg, input s0 = seg ++ input s1 /\
     SegC o seg (input s1) (comments s0) (comments s1)).

Lemma comment_stripC s0 s left right s1 :
  comment s left right = Ok s1 -> adv s0 s -> comments s = comments s0 -> 0 <= pos s0 ->
  (pos s = zlen left -> pos s0 = 0 /\ input s0 = left ++ skipn (length left) (input s0)) ->
  ((left = [45%N; 45%N] /\ right = NL) \/ (left = [47%N; 42%N] /\ right = [42%N; 47%N])
     \/ (HashComments o = true /\ left = [35%N] /\ right = NL)) ->
  CmStep s0 s1.
Proof.
  intros H A C0 Hp Hleft Hk. destruct A as (I1 & I2 & I3 & I4).
  apply comment_casesC in H; [|lia]. destruct H as [[A1 C1]|(Hpos & body & sp & H1 & H2 & H3 & H4 & H5 & H6)].
  - left. destruct A1 as (E & _). split; congruence.
  - right. destruct (Hleft Hpos) as [Hp0 Hin]. rewrite Hpos, to_nat_zlen, I1 in H1.
    assert (firstn (Z.to_nat (pos s)) (input s) = left) as Hfl.
    { rewrite Hpos, to_nat_zlen, I1, Hin. apply firstn_app_l. }
    split; [exact Hp0|]. split; [exact H5|].
    exists ((left ++ body ++ right) ++ sp). split.
    + rewrite Hin, H1, <- !app_assoc. reflexivity.
    + rewrite H6, Hfl, C0. apply SC_comment; auto.
Qed.

Lemma delim_stripC f s0 s s1 hd :
  delimCmd o f (addPos s (zlen S_DELIMITER - 1)) = Ok s1 -> adv s0 s -> comments s = comments s0 ->
  pos s0 = 0 -> pos s = 1 -> starts_space (input s0) = false ->
  slice_to (input s) (zlen S_DELIMITER) = Ok hd -> has_prefix_ci hd W_DELIMITER = true -> length hd = 9%nat ->
  CmStep s0 (skipSpaces s1).
Proof.
  intros H A C0 Hp0 Hp1 Hns Hhd Hci Hlen. destruct A as (I1 & I2 & I3 & I4).
  change (zlen S_DELIMITER - 1) with 8 in H. change (zlen S_DELIMITER) with 9 in Hhd.
  pose proof (delimCmd_cm _ _ _ _ H) as Hcm.
  apply delimCmd_cases in H; [|simpl; lia].
  destruct H as [H|(arg & nl & d0 & H1 & H2 & H3 & H4 & H5 & H6 & H7 & H8 & H9)].
  - left. destruct Hcm as [->|[_ Hz]]; [|destruct H as (_ & _ & _ & Hm); simpl in Hm; lia].
    unfold skipSpaces; simpl. rewrite I1, (trim_left_id _ Hns). split; [reflexivity|exact C0].
  - right. destruct Hcm as [->|[Hc0 _]]; [simpl in H8; lia|].
    simpl in H1. rewrite I1 in *.
    apply slice_to_ok in Hhd as [_ Hhd]. change (Z.to_nat 9) with 9%nat in Hhd.
    assert (input s0 = hd ++ arg ++ nl ++ input s1) as Hdec.
    { rewrite <- H1, Hhd. symmetry; apply firstn_skipn. }
    destruct (trim_left_decomp (input s1)) as (sp & Hsp & Hsp2 & Hsp3).
    split; [exact Hp0|]. split; [unfold skipSpaces; simpl; exact H8|].
    exists (hd ++ arg ++ nl ++ sp). unfold skipSpaces; simpl. split.
    + rewrite Hdec. rewrite Hsp at 1. rewrite <- !app_assoc. reflexivity.
    + rewrite Hc0. apply SC_delim; auto.
      destruct H4 as [H4|[H4 H4']]; [left; exact H4|right; split; [exact H4|]].
      rewrite <- Hsp. exact H4'.
Qed.
End StripC.

Section IterCm.
Variable o : opts.
Variable nested : scanner -> res (scanner * option Stmt).

Lemma atomic_loop_cm f : forall s body r, atomic_loop nested f s body = Ok r -> comments (fst r) = comments s.
Proof.
  induction f as [|f IH]; intros s body r H; simpl in H; [discriminate|].
  destruct (nested body) as [[body' [st|]]|e| |]; try discriminate.
  - destruct (re_end (Text st)); [inversion H; subst; reflexivity|eapply IH; exact H].
  - apply nfail_ok in H. rewrite H. reflexivity.
  - apply nfail_ok in H. rewrite H. reflexivity.
Qed.
Lemma begin_loop_cm f : forall s body r, begin_loop o nested f s body = Ok r -> comments (fst r) = comments s.
Proof.
  induction f as [|f IH]; intros s body r H; simpl in H; [discriminate|].
  destruct (nested body) as [[body' [st|]]|e| |]; try discriminate.
  - destruct (re_end (Text st)).
    + destruct (_ || _); [inversion H; subst; reflexivity|eapply IH; exact H].
    + destruct (_ && _); [inversion H; subst; reflexivity|eapply IH; exact H].
  - apply nfail_ok in H. rewrite H. reflexivity.
  - apply nfail_ok in H. rewrite H. reflexivity.
Qed.
Lemma trycatch_loop_cm f : forall s body r, trycatch_loop nested f s body = Ok r -> comments (fst r) = comments s.
Proof.
  induction f as [|f IH]; intros s body r H; simpl in H; [discriminate|].
  destruct (nested body) as [[body' [st|]]|e| |]; try discriminate.
  - destruct (re_end_catch (Text st)) as [n|]; [|eapply IH; exact H].
    inversion H; subst. simpl. destruct (has_suffix _ _); reflexivity.
  - apply nfail_ok in H. rewrite H. reflexivity.
  - apply nfail_ok in H. rewrite H. reflexivity.
Qed.
Lemma skipBeginAtomic_cm f s r : skipBeginAtomic nested f s = Ok r -> comments (fst r) = comments s.
Proof.
  unfold skipBeginAtomic. intros H. inv_bind H.
  destruct (re_begin_atomic a) as [n|]; [|apply nfail_ok in H; rewrite H; reflexivity].
  inv_bind H. destruct (init (new_scanner false) a0) as [body|e| |]; try discriminate.
  - apply atomic_loop_cm in H. exact H.
  - inversion H; subst; reflexivity.
Qed.
Lemma skipBeginTryCatch_cm f s r : skipBeginTryCatch nested f s = Ok r -> comments (fst r) = comments s.
Proof.
  unfold skipBeginTryCatch. intros H. inv_bind H.
  destruct (re_begin_try a) as [n|]; [|apply nfail_ok in H; rewrite H; reflexivity].
  inv_bind H. destruct (init (new_scanner false) a0) as [body|e| |]; try discriminate.
  - apply trycatch_loop_cm in H. exact H.
  - inversion H; subst; reflexivity.
Qed.
Lemma skipBegin_cm f s r : skipBegin o nested f s = Ok r -> comments (fst r) = comments s.
Proof.
  unfold skipBegin. intros H. inv_bind H.
  destruct (re_begin a) as [n|]; [|apply nfail_ok in H; rewrite H; reflexivity].
  inv_bind H. destruct (init (new_scanner (BeginEndTerminator o)) a0) as [body|e| |]; try discriminate.
  - apply begin_loop_cm in H. exact H.
  - inversion H; subst; reflexivity.
Qed.
Lemma after_block_cm r depth opos step s0 :
  after_block r depth opos = Ok step -> (forall x, r = Ok x -> comments (fst x) = comments s0) ->
  match step with
  | Continue s1 _ _ => comments s1 = comments s0
  | Break s1 _ => comments s1 = comments s0
  | RetEOF _ => False
  end.
Proof.
  unfold after_block. intros H Hr. inv_bind H. destruct a as [s1 [e|]].
  - inversion H; subst. apply (Hr _ eq_refl).
  - inv_bind H. inversion H; subst. apply (Hr _ eq_refl).
Qed.
End IterCm.

(** * One iteration of [stmt]'s loop *)
Section IterSpec.
Variable o : opts.
Variable nested : scanner -> res (scanner * option Stmt).
Hypothesis nested_mono : forall b b' r, pos b = 0 -> delim b <> [] -> nested b = Ok (b', r) ->
  total b <= total b' /\ pos b' = 0 /\ delim b' <> [] /\
  (forall st, r = Some st -> total b + zlen (Text st) <= total b').

(** a leading gap segment was cut off the input (continuation-passing form: any gap that
    follows extends to a gap from the old state). *)
Definition Strip (s0 s1 : scanner) : Prop :=
  starts_space (input s1) = false /\ delim s1 <> [] /\ pos s1 = 0 /\
  total s1 + zlen (input s1) = total s0 - pos s0 + zlen (input s0) /\
  (forall g tl d', input s1 = g ++ tl -> Gap o (delim s1) g d' ->
     exists g0, input s0 = g0 ++ tl /\ Gap o (delim s0) g0 d').

Lemma skipSpaces_adv s : starts_space (input s) = false -> adv s (skipSpaces s).
Proof.
  intros H. unfold adv, skipSpaces. simpl. rewrite (trim_left_id _ H). repeat split; lia.
Qed.

Lemma comment_strip s0 s left right s1 :
  comment s left right = Ok s1 -> adv s0 s -> pos s0 < pos s -> 0 <= pos s0 -> delim s0 <> [] ->
  (pos s = zlen left -> pos s0 = 0 /\ input s0 = left ++ skipn (length left) (input s0)) ->
  ((left = [45%N; 45%N] /\ right = NL) \/ (left = [47%N; 42%N] /\ right = [42%N; 47%N])
     \/ (HashComments o = true /\ left = [35%N] /\ right = NL)) ->
  (adv s0 s1 /\ pos s0 < pos s1) \/ (Strip s0 s1 /\ pos s0 = 0 /\ zlen (input s1) < zlen (input s0)).
Proof.
  intros H A Hlt Hp Hd Hleft Hk. destruct A as (I1 & I2 & I3 & I4).
  apply comment_cases in H; [|lia]. destruct H as [H|(Hpos & body & sp & H1 & H2 & H3 & H4 & H5 & H6 & H7)].
  - left. split; [eapply adv_trans; [|exact H]; repeat split; auto|destruct H as (_ & _ & _ & ?); lia].
  - right. destruct (Hleft Hpos) as [Hp0 Hin]. rewrite Hpos, to_nat_zlen, I1 in H1.
    assert (input s0 = (left ++ body ++ right) ++ sp ++ input s1) as Hdec.
    { rewrite Hin, H1, <- !app_assoc. reflexivity. }
    assert (1 <= zlen left) as Hl1 by (destruct Hk as [[-> _]|[[-> _]|(_ & -> & _)]]; unfold zlen; simpl; lia).
    split; [|split; [exact Hp0|rewrite Hdec, !zlen_app; pose proof (zlen_nonneg body); pose proof (zlen_nonneg right); pose proof (zlen_nonneg sp); lia]].
    repeat split; auto.
    + congruence.
    + rewrite Hdec, !zlen_app. lia.
    + intros g tl d' Hg HG. exists ((left ++ body ++ right) ++ sp ++ g). split.
      * rewrite Hdec, Hg, <- !app_assoc. reflexivity.
      * apply Gap_comment; [exists left, right, body; auto|]. apply Gap_space; [exact H3|].
        rewrite <- I2, <- H6. exact HG.
Qed.

Lemma delim_strip f s0 s s1 hd :
  delimCmd o f (addPos s (zlen S_DELIMITER - 1)) = Ok s1 -> adv s0 s -> pos s0 = 0 -> pos s = 1 ->
  delim s0 <> [] -> starts_space (input s0) = false ->
  slice_to (input s) (zlen S_DELIMITER) = Ok hd -> has_prefix_ci hd W_DELIMITER = true -> length hd = 9%nat ->
  (adv s0 (skipSpaces s1) /\ pos s0 < pos (skipSpaces s1)) \/
  (Strip s0 (skipSpaces s1) /\ pos s0 = 0 /\ zlen (input (skipSpaces s1)) < zlen (input s0)).
Proof.
  intros H A Hp0 Hp1 Hd Hns Hhd Hci Hlen. destruct A as (I1 & I2 & I3 & I4).
  change (zlen S_DELIMITER - 1) with 8 in H. change (zlen S_DELIMITER) with 9 in Hhd.
  apply delimCmd_cases in H; [|simpl; lia].
  destruct H as [H|(arg & nl & d0 & H1 & H2 & H3 & H4 & H5 & H6 & H7 & H8 & H9)].
  - left. assert (adv s0 s1) as A1.
    { eapply adv_trans; [|exact H]. unfold adv; simpl. repeat split; auto; lia. }
    split; [eapply adv_trans; [exact A1|]; apply skipSpaces_adv; destruct A1 as (E & _); rewrite E; exact Hns|].
    destruct H as (_ & _ & _ & Hm). simpl in Hm. unfold skipSpaces; simpl. lia.
  - right. simpl in H1, H9. rewrite I1 in *.
    apply slice_to_ok in Hhd as [_ Hhd]. change (Z.to_nat 9) with 9%nat in Hhd.
    assert (input s0 = hd ++ arg ++ nl ++ input s1) as Hdec.
    { rewrite <- H1, Hhd. symmetry; apply firstn_skipn. }
    destruct (trim_left_decomp (input s1)) as (sp & Hsp & Hsp2 & Hsp3).
    assert (zlen hd = 9) as Hzhd by (unfold zlen; lia).
    split; [|split; [exact Hp0|unfold skipSpaces; simpl; rewrite Hdec, !zlen_app; rewrite Hsp at 2; rewrite zlen_app;
      pose proof (zlen_nonneg arg); pose proof (zlen_nonneg nl); pose proof (zlen_nonneg sp); lia]].
    unfold Strip, skipSpaces; simpl. repeat split; auto.
    + rewrite H7. apply unescape_delim_nonnil. exact H6.
    + rewrite Hdec, !zlen_app. lia.
    + intros g tl d' Hg HG. exists (hd ++ arg ++ nl ++ sp ++ g). split.
      * rewrite Hdec. rewrite Hsp at 1. rewrite Hg, <- !app_assoc. reflexivity.
      * eapply Gap_delim; eauto.
        -- destruct H4 as [H4|[H4 H4']]; [left; exact H4|right; split; [exact H4|]].
           rewrite H4' in Hsp, Hg. simpl in Hsp, Hg. symmetry in Hsp. apply app_eq_nil in Hsp as [-> _].
           symmetry in Hg. apply app_eq_nil in Hg as [-> _]. reflexivity.
        -- apply Gap_space; [exact Hsp2|]. rewrite <- H7. exact HG.
Qed.

Lemma fail_not_ok {A} s p k (x : A) : fail s p k = Ok x -> False.
Proof. unfold fail. intros H. inv_bind H. discriminate. Qed.

Lemma stmt_iter_spec f s0 depth opos step :
  stmt_iter o nested f s0 depth opos = Ok step ->
  starts_space (input s0) = false -> delim s0 <> [] ->
  match step with
  | Continue s1 _ _ => (adv s0 s1 /\ pos s0 < pos s1) \/
                       (Strip s0 s1 /\ pos s0 = 0 /\ zlen (input s1) < zlen (input s0))
  | Break s1 text => adv s0 s1 /\ 0 < pos s1 /\
      (text = firstn (Z.to_nat (pos s1)) (input s1) \/ (text = input s1 /\ zlen (input s1) <= pos s1) \/
       (GoCommand o = true /\ exists k, 0 <= k <= pos s1 /\ text = firstn (Z.to_nat k) (input s1)))
  | RetEOF s1 => adv s0 s1 /\ zlen (input s1) <= pos s1 <= 0
  end.
Proof.
  unfold stmt_iter. intros H Hns Hd. inv_bind H. destruct a as [r s]. pose proof (next_adv _ _ _ Ha) as A0.
  destruct r as [c|].
  2:{ apply next_none in Ha as [-> Hlen].
      destruct (0 <? depth); [apply fail_not_ok in H; contradiction|].
      destruct (0 <? pos s0) eqn:E; bnorm; inversion H; subst.
      - split; [apply adv_refl|split; [lia|right; left; auto]].
      - split; [apply adv_refl|lia]. }
  apply next_some in Ha as (rest & w & H1 & H2 & H3 & Hs & H4).
  destruct (decode_rune_spec _ _ _ H3 H2) as (Hw & Hascii & _).
  assert (pos s = pos s0 + w) as Hps by (subst s; reflexivity).
  assert (width s = w) as Hws by (subst s; reflexivity).
  assert (input s = input s0) as His by (subst s; reflexivity).
  assert (delim s = delim s0) as Hds by (subst s; reflexivity).
  apply slice_from_ok in H1 as [_ Hrest].
  clear Hs.
  assert (forall s1, adv s s1 -> adv s0 s1 /\ pos s0 < pos s1) as Hprog.
  { intros s1 A1; split; [eapply adv_trans; eauto|destruct A1 as (_&_&_&?); lia]. }
  destruct (N.eqb c 40). { inversion H; left; apply Hprog; apply adv_refl. }
  destruct (N.eqb c 41).
  { destruct (depth =? 0); [apply fail_not_ok in H; contradiction|inversion H; left; apply Hprog; apply adv_refl]. }
  destruct (N.eqb c 39 || N.eqb c 34 || N.eqb c 96).
  { inv_bind H. inversion H; subst. left. apply Hprog. eapply skipQuote_adv; eauto. }
  inv_bind H. rename a into isDelimCmd. destruct isDelimCmd.
  { inv_bind H. inversion H; subst; clear H.
    destruct ((pos s =? 1) && (zlen S_DELIMITER <? zlen (input s))) eqn:E; [|discriminate]. bnorm.
    inv_bind Ha. injection Ha as Ha. bnorm.
    match goal with HH : (length _ =? 9)%nat = true |- _ => apply Nat.eqb_eq in HH end.
    eapply delim_strip; eauto. lia. }
  clear Ha. inv_bind_as H go1 Hgo1. inv_bind_as H go2 Hgo2. destruct go2.
  { assert (GoCommand o = true) as HG.
    { destruct (GoCommand o); [reflexivity|]. simpl in Hgo1. injection Hgo1 as <-. simpl in Hgo2. discriminate. }
    inv_bind_as H s1 Hs1. inv_bind_as H text Ht. inv_bind_as H rs2 Hrs2. inv_bind_as H s3 Hs3. injection H as <-.
    assert (adv s s1) as A1.
    { destruct go1; [|injection Hs1 as <-; apply adv_refl].
      inv_bind_as Hs1 rs1 Hrs1. injection Hs1 as <-. destruct rs1 as [r1 s1']. simpl. eapply next_adv; exact Hrs1. }
    destruct rs2 as [r2 s2]. simpl in Hs3. pose proof (next_adv _ _ _ Hrs2) as A2.
    pose proof (skipGoCount_adv _ _ _ Hs3) as A3.
    assert (adv s s3) as A13 by (eapply adv_trans; [exact A1|eapply adv_trans; eauto]).
    assert (adv s3 (skipSpaces s3)) as A4.
    { apply skipSpaces_adv. destruct A13 as (E & _). rewrite E, His. exact Hns. }
    apply slice_to_ok in Ht as [Hb ->].
    destruct A1 as (a11 & a12 & a13 & a14). destruct A2 as (a21 & a22 & a23 & a24).
    destruct A3 as (a31 & a32 & a33 & a34). destruct A4 as (a41 & a42 & a43 & a44).
    destruct A0 as (a01 & a02 & a03 & a04).
    split; [unfold adv; repeat split; try congruence; lia|]. split; [lia|].
    right; right. split; [exact HG|]. exists (pos s1 - 1). split; [lia|].
    f_equal. congruence. }
  clear Hgo1 Hgo2 go1.
  inv_bind H. rename a into isDelim. destruct isDelim.
  { inv_bind H. inversion H; subst; clear H. apply slice_to_ok in Ha0 as [Hb ->].
    assert (1 <= zlen (delim s0)) as Hdl.
    { destruct (delim s0) as [|x l]; [congruence|rewrite zlen_cons; pose proof (zlen_nonneg l); lia]. }
    destruct A0 as (I1 & I2 & I3 & I4). unfold adv, addPos; simpl. rewrite Hds in *.
    repeat split; auto; try lia. }
  clear Ha. inv_bind H. rename a into isDollar. destruct isDollar.
  { inv_bind H. inversion H; subst. left. apply Hprog. eapply skipDollarQuote_adv; eauto. }
  clear Ha.
  destruct (N.eqb c 35 && HashComments o) eqn:Ehash.
  { inv_bind H. injection H as <-. bnorm. subst c.
    eapply comment_strip; [exact Ha|exact A0|lia|lia|exact Hd| |right; right; auto].
    intros Hp. change (zlen [35%N]) with 1 in Hp. destruct (Hascii ltac:(lia)) as [Hw1 [t Ht]].
    assert (pos s0 = 0) as Hp0 by lia. split; [exact Hp0|]. rewrite Hp0 in Hrest. rewrite Hrest in Ht.
    apply one_byte in Ht. exact Ht. }
  clear Ehash.
  inv_bind H. rename a into p1.
  destruct (N.eqb c 45 && rune_is p1 45) eqn:Edash.
  { bnorm. subst c. rewrite N.eqb_refl in Ha.
    inv_bind H. destruct a as [r1 s2]. inv_bind H. injection H as <-. simpl in Ha1.
    unfold pick in Ha. rewrite Ha0 in Ha. simpl in Ha. injection Ha as <-.
    destruct r1 as [c1|]; [|match goal with HH : rune_is None _ = true |- _ => discriminate HH end].
    match goal with HH : rune_is (Some _) _ = true |- _ => simpl in HH; apply N.eqb_eq in HH; subst c1 end.
    pose proof (next_adv _ _ _ Ha0) as A1.
    apply next_some in Ha0 as (rest1 & w1 & G1 & G2 & G3 & Gs & G4).
    destruct (decode_rune_spec _ _ _ G3 G2) as (_ & Gascii & _).
    destruct (Hascii ltac:(lia)) as [Hw1 [t Ht]]. destruct (Gascii ltac:(lia)) as [Hw2 [t1 Ht1]].
    apply slice_from_ok in G1 as [_ G1].
    eapply comment_strip; [exact Ha1|eapply adv_trans; eauto|destruct A1 as (_&_&_&?); lia|lia|exact Hd| |left; auto].
    intros Hp. change (zlen [45%N; 45%N]) with 2 in Hp. rewrite Gs in Hp. simpl in Hp.
    assert (pos s0 = 0) as Hp0 by lia. split; [exact Hp0|].
    rewrite Hp0 in Hrest. rewrite Hps, Hp0, His, Hw1 in G1. change (Z.to_nat (0 + 1)) with 1%nat in G1.
    change (Z.to_nat 0) with 0%nat in Hrest. rewrite Hrest in Ht. rewrite G1 in Ht1.
    eapply two_bytes; eauto. }
  clear Edash Ha p1.
  inv_bind H. rename a into p2.
  destruct (N.eqb c 47 && rune_is p2 42) eqn:Eslash.
  { bnorm. subst c. rewrite N.eqb_refl in Ha.
    inv_bind H. destruct a as [r1 s2]. inv_bind H. injection H as <-. simpl in Ha1.
    unfold pick in Ha. rewrite Ha0 in Ha. simpl in Ha. injection Ha as <-.
    destruct r1 as [c1|]; [|match goal with HH : rune_is None _ = true |- _ => discriminate HH end].
    match goal with HH : rune_is (Some _) _ = true |- _ => simpl in HH; apply N.eqb_eq in HH; subst c1 end.
    pose proof (next_adv _ _ _ Ha0) as A1.
    apply next_some in Ha0 as (rest1 & w1 & G1 & G2 & G3 & Gs & G4).
    destruct (decode_rune_spec _ _ _ G3 G2) as (_ & Gascii & _).
    destruct (Hascii ltac:(lia)) as [Hw1 [t Ht]]. destruct (Gascii ltac:(lia)) as [Hw2 [t1 Ht1]].
    apply slice_from_ok in G1 as [_ G1].
    eapply comment_strip; [exact Ha1|eapply adv_trans; eauto|destruct A1 as (_&_&_&?); lia|lia|exact Hd| |right; left; auto].
    intros Hp. change (zlen [47%N; 42%N]) with 2 in Hp. rewrite Gs in Hp. simpl in Hp.
    assert (pos s0 = 0) as Hp0 by lia. split; [exact Hp0|].
    rewrite Hp0 in Hrest. rewrite Hps, Hp0, His, Hw1 in G1. change (Z.to_nat (0 + 1)) with 1%nat in G1.
    change (Z.to_nat 0) with 0%nat in Hrest. rewrite Hrest in Ht. rewrite G1 in Ht1.
    eapply two_bytes; eauto. }
  clear Eslash Ha p2.
  inv_bind H. rename a into isEndTerm. destruct isEndTerm.
  { inv_bind H. inversion H; subst; clear H. apply slice_to_ok in Ha0 as [_ ->].
    split; [exact A0|split; [lia|left; reflexivity]]. }
  clear Ha.
  inv_bind H. rename a into isAtomic. destruct isAtomic.
  { apply after_block_spec with (s0 := s) in H;
      [|intros x Hx; eapply skipBeginAtomic_adv; eauto].
    destruct step as [s1 d1 o1|s1 text|s1]; [left; apply Hprog; exact H| |contradiction].
    destruct H as [A1 ->]. split; [eapply adv_trans; eauto|split; [destruct A1 as (_&_&_&?); lia|left; reflexivity]]. }
  clear Ha.
  inv_bind H. rename a into isTry. destruct isTry.
  { apply after_block_spec with (s0 := s) in H;
      [|intros x Hx; eapply skipBeginTryCatch_adv; eauto].
    destruct step as [s1 d1 o1|s1 text|s1]; [left; apply Hprog; exact H| |contradiction].
    destruct H as [A1 ->]. split; [eapply adv_trans; eauto|split; [destruct A1 as (_&_&_&?); lia|left; reflexivity]]. }
  clear Ha.
  inv_bind H. rename a into isBegin. destruct isBegin.
  { apply after_block_spec with (s0 := s) in H;
      [|intros x Hx; eapply skipBegin_adv; eauto].
    destruct step as [s1 d1 o1|s1 text|s1]; [left; apply Hprog; exact H| |contradiction].
    destruct H as [A1 ->]. split; [eapply adv_trans; eauto|split; [destruct A1 as (_&_&_&?); lia|left; reflexivity]]. }
  inversion H; subst. left. apply Hprog. apply adv_refl.
Qed.
End IterSpec.

(** the comment group over one iteration of [stmt]'s loop *)
Section IterCmSpec.
Variable o : opts.
Variable nested : scanner -> res (scanner * option Stmt).
Hypothesis nested_mono : forall b b' r, pos b = 0 -> delim b <> [] -> nested b = Ok (b', r) ->
  total b <= total b' /\ pos b' = 0 /\ delim b' <> [] /\
  (forall st, r = Some st -> total b + zlen (Text st) <= total b').

Lemma stmt_iter_cm f s0 depth opos step :
  stmt_iter o nested f s0 depth opos = Ok step -> starts_space (input s0) = false ->
  match step with
  | Continue s1 _ _ => CmStep o s0 s1
  | Break s1 _ => input s1 = input s0 /\ comments s1 = comments s0
  | RetEOF s1 => input s1 = input s0 /\ comments s1 = comments s0
  end.
Proof.
  unfold stmt_iter. intros H Hns. inv_bind H. destruct a as [r s]. pose proof (next_adv _ _ _ Ha) as A0.
  pose proof (next_cm _ _ _ Ha) as C0. pose proof A0 as (I0 & _).
  destruct r as [c|].
  2:{ destruct (0 <? depth); [apply fail_not_ok in H; contradiction|].
      destruct (0 <? pos s); inversion H; subst; split; assumption. }
  apply next_some in Ha as (rest & w & H1 & H2 & H3 & Hs & H4).
  destruct (decode_rune_spec _ _ _ H3 H2) as (Hw & Hascii & _).
  assert (pos s = pos s0 + w) as Hps by (subst s; reflexivity).
  assert (input s = input s0) as His by (subst s; reflexivity).
  apply slice_from_ok in H1 as [_ Hrest].
  clear Hs.
  assert (forall s1, adv s s1 -> comments s1 = comments s -> CmStep o s0 s1) as Hk.
  { intros s1 (E & _) Ec. left. split; congruence. }
  assert (forall s1, adv s s1 -> comments s1 = comments s ->
                     input s1 = input s0 /\ comments s1 = comments s0) as Hk2.
  { intros s1 (E & _) Ec. split; congruence. }
  destruct (N.eqb c 40). { inversion H; subst. apply Hk; [apply adv_refl|reflexivity]. }
  destruct (N.eqb c 41).
  { destruct (depth =? 0); [apply fail_not_ok in H; contradiction|inversion H; subst; apply Hk; [apply adv_refl|reflexivity]]. }
  destruct (N.eqb c 39 || N.eqb c 34 || N.eqb c 96).
  { inv_bind H. inversion H; subst. apply Hk; [eapply skipQuote_adv; eauto|eapply skipQuote_cm; eauto]. }
  inv_bind H. rename a into isDelimCmd. destruct isDelimCmd.
  { inv_bind H. inversion H; subst; clear H.
    destruct ((pos s =? 1) && (zlen S_DELIMITER <? zlen (input s))) eqn:E; [|discriminate]. bnorm.
    inv_bind Ha. injection Ha as Ha. bnorm.
    match goal with HH : (length _ =? 9)%nat = true |- _ => apply Nat.eqb_eq in HH end.
    eapply delim_stripC; eauto. lia. }
  clear Ha. inv_bind_as H go1 Hgo1. inv_bind_as H go2 Hgo2. destruct go2.
  { inv_bind_as H s1 Hs1. inv_bind_as H text Ht. inv_bind_as H rs2 Hrs2. inv_bind_as H s3 Hs3. injection H as <-.
    assert (adv s s1 /\ comments s1 = comments s) as [A1 C1].
    { destruct go1; [|injection Hs1 as <-; split; [apply adv_refl|reflexivity]].
      inv_bind_as Hs1 rs1 Hrs1. injection Hs1 as <-. destruct rs1 as [r1 s1']. simpl.
      split; [eapply next_adv; exact Hrs1|eapply next_cm; exact Hrs1]. }
    destruct rs2 as [r2 s2]. simpl in Hs3.
    pose proof (next_adv _ _ _ Hrs2) as A2. pose proof (next_cm _ _ _ Hrs2) as C2.
    pose proof (skipGoCount_adv _ _ _ Hs3) as A3. pose proof (skipGoCount_cm _ _ _ Hs3) as C3.
    destruct A1 as (a1 & _). destruct A2 as (a2 & _). destruct A3 as (a3 & _).
    assert (input s3 = input s0) as Ei by congruence.
    unfold skipSpaces; simpl. rewrite Ei, (trim_left_id _ Hns). split; [reflexivity|congruence]. }
  clear Hgo1 Hgo2 go1.
  inv_bind H. rename a into isDelim. destruct isDelim.
  { inv_bind H. inversion H; subst; clear H. simpl. split; [exact His|exact C0]. }
  clear Ha. inv_bind H. rename a into isDollar. destruct isDollar.
  { inv_bind H. inversion H; subst. apply Hk; [eapply skipDollarQuote_adv; eauto|eapply skipDollarQuote_cm; eauto]. }
  clear Ha.
  destruct (N.eqb c 35 && HashComments o) eqn:Ehash.
  { inv_bind H. injection H as <-. bnorm. subst c.
    eapply comment_stripC; [exact Ha|exact A0|exact C0|lia| |right; right; auto].
    intros Hp. change (zlen [35%N]) with 1 in Hp. destruct (Hascii ltac:(lia)) as [Hw1 [t Ht]].
    assert (pos s0 = 0) as Hp0 by lia. split; [exact Hp0|]. rewrite Hp0 in Hrest. rewrite Hrest in Ht.
    apply one_byte in Ht. exact Ht. }
  clear Ehash.
  inv_bind H. rename a into p1.
  destruct (N.eqb c 45 && rune_is p1 45) eqn:Edash.
  { bnorm. subst c. rewrite N.eqb_refl in Ha.
    inv_bind H. destruct a as [r1 s2]. inv_bind H. injection H as <-. simpl in Ha1.
    unfold pick in Ha. rewrite Ha0 in Ha. simpl in Ha. injection Ha as <-.
    destruct r1 as [c1|]; [|match goal with HH : rune_is None _ = true |- _ => discriminate HH end].
    match goal with HH : rune_is (Some _) _ = true |- _ => simpl in HH; apply N.eqb_eq in HH; subst c1 end.
    pose proof (next_adv _ _ _ Ha0) as A1. pose proof (next_cm _ _ _ Ha0) as C1.
    apply next_some in Ha0 as (rest1 & w1 & G1 & G2 & G3 & Gs & G4).
    destruct (decode_rune_spec _ _ _ G3 G2) as (_ & Gascii & _).
    destruct (Hascii ltac:(lia)) as [Hw1 [t Ht]]. destruct (Gascii ltac:(lia)) as [Hw2 [t1 Ht1]].
    apply slice_from_ok in G1 as [_ G1].
    eapply comment_stripC; [exact Ha1|eapply adv_trans; eauto|congruence|lia| |left; auto].
    intros Hp. change (zlen [45%N; 45%N]) with 2 in Hp. rewrite Gs in Hp. simpl in Hp.
    assert (pos s0 = 0) as Hp0 by lia. split; [exact Hp0|].
    rewrite Hp0 in Hrest. rewrite Hps, Hp0, His, Hw1 in G1. change (Z.to_nat (0 + 1)) with 1%nat in G1.
    change (Z.to_nat 0) with 0%nat in Hrest. rewrite Hrest in Ht. rewrite G1 in Ht1.
    eapply two_bytes; eauto. }
  clear Edash Ha p1.
  inv_bind H. rename a into p2.
  destruct (N.eqb c 47 && rune_is p2 42) eqn:Eslash.
  { bnorm. subst c. rewrite N.eqb_refl in Ha.
    inv_bind H. destruct a as [r1 s2]. inv_bind H. injection H as <-. simpl in Ha1.
    unfold pick in Ha. rewrite Ha0 in Ha. simpl in Ha. injection Ha as <-.
    destruct r1 as [c1|]; [|match goal with HH : rune_is None _ = true |- _ => discriminate HH end].
    match goal with HH : rune_is (Some _) _ = true |- _ => simpl in HH; apply N.eqb_eq in HH; subst c1 end.
    pose proof (next_adv _ _ _ Ha0) as A1. pose proof (next_cm _ _ _ Ha0) as C1.
    apply next_some in Ha0 as (rest1 & w1 & G1 & G2 & G3 & Gs & G4).
    destruct (decode_rune_spec _ _ _ G3 G2) as (_ & Gascii & _).
    destruct (Hascii ltac:(lia)) as [Hw1 [t Ht]]. destruct (Gascii ltac:(lia)) as [Hw2 [t1 Ht1]].
    apply slice_from_ok in G1 as [_ G1].
    eapply comment_stripC; [exact Ha1|eapply adv_trans; eauto|congruence|lia| |right; left; auto].
    intros Hp. change (zlen [47%N; 42%N]) with 2 in Hp. rewrite Gs in Hp. simpl in Hp.
    assert (pos s0 = 0) as Hp0 by lia. split; [exact Hp0|].
    rewrite Hp0 in Hrest. rewrite Hps, Hp0, His, Hw1 in G1. change (Z.to_nat (0 + 1)) with 1%nat in G1.
    change (Z.to_nat 0) with 0%nat in Hrest. rewrite Hrest in Ht. rewrite G1 in Ht1.
    eapply two_bytes; eauto. }
  clear Eslash Ha p2.
  inv_bind H. rename a into isEndTerm. destruct isEndTerm.
  { inv_bind H. inversion H; subst; clear H. split; [exact His|exact C0]. }
  clear Ha.
  inv_bind H. rename a into isAtomic. destruct isAtomic.
  { pose proof H as H'.
    apply after_block_spec with (s0 := s) in H; [|intros x Hx; eapply skipBeginAtomic_adv; eauto].
    apply after_block_cm with (s0 := s) in H'; [|intros x Hx; eapply skipBeginAtomic_cm; eauto].
    destruct step as [s1 d1 o1|s1 text|s1]; [apply Hk; assumption|destruct H as [A1 _]; apply Hk2; assumption|contradiction]. }
  clear Ha.
  inv_bind H. rename a into isTry. destruct isTry.
  { pose proof H as H'.
    apply after_block_spec with (s0 := s) in H; [|intros x Hx; eapply skipBeginTryCatch_adv; eauto].
    apply after_block_cm with (s0 := s) in H'; [|intros x Hx; eapply skipBeginTryCatch_cm; eauto].
    destruct step as [s1 d1 o1|s1 text|s1]; [apply Hk; assumption|destruct H as [A1 _]; apply Hk2; assumption|contradiction]. }
  clear Ha.
  inv_bind H. rename a into isBegin. destruct isBegin.
  { pose proof H as H'.
    apply after_block_spec with (s0 := s) in H; [|intros x Hx; eapply skipBegin_adv; eauto].
    apply after_block_cm with (s0 := s) in H'; [|intros x Hx; eapply skipBegin_cm; eauto].
    destruct step as [s1 d1 o1|s1 text|s1]; [apply Hk; assumption|destruct H as [A1 _]; apply Hk2; assumption|contradiction]. }
  inversion H; subst. apply Hk; [apply adv_refl|reflexivity].
Qed.
End IterCmSpec.


(** * The loop of [stmt], [stmt], [Scan] *)
Lemma starts_space_trim_suffix t d : starts_space t = false -> starts_space (trim_suffix t d) = false.
Proof. unfold trim_suffix. destruct (has_suffix t d); [apply starts_space_firstn|auto]. Qed.

Lemma emit_spec o s1 text k st s' :
  emit o s1 text = Ok (st, s') -> 0 <= k <= pos s1 -> text = firstn (Z.to_nat k) (input s1) ->
  starts_space (input s1) = false ->
  exists go, input s1 = text ++ go ++ input s' /\ RawOf (delim s1) text st /\ Pos st = total s1 - zlen text /\
  pos s' = 0 /\ delim s' = delim s1 /\ total s' = total s1 /\ zlen text = k /\ zlen go = pos s1 - k /\
  Comments st = comments s1 /\ comments s' = [].
Proof.
  unfold emit. intros H Hk Ht Hns. inv_bind H. apply slice_from_ok in Ha as [Hb ->].
  injection H as <- <-. simpl.
  assert (starts_space text = false) as Hns2 by (rewrite Ht; apply starts_space_firstn; exact Hns).
  exists (skipn (Z.to_nat k) (firstn (Z.to_nat (pos s1)) (input s1))).
  split; [rewrite Ht; apply split3; lia|].
  split.
  { set (t := if OmitDelimiter o || negb (bytes_eqb (delim s1) delimiter) then trim_suffix text (delim s1) else text).
    assert (exists dl, text = t ++ dl /\ (dl = [] \/ dl = delim s1)) as (dl & Hdl & Hdl2).
    { unfold t. destruct (_ || _); [apply trim_suffix_app|exists []; rewrite app_nil_r; auto]. }
    assert (starts_space t = false) as Hns3.
    { unfold t. destruct (_ || _); [apply starts_space_trim_suffix|]; exact Hns2. }
    destruct (trim_space_decomp _ Hns3) as (sp & Hsp & Hsp2).
    exists sp, dl. simpl. split; [|auto]. rewrite Hdl at 1. rewrite Hsp at 1. rewrite <- app_assoc. reflexivity. }
  split; [reflexivity|]. split; [reflexivity|]. split; [reflexivity|]. split; [reflexivity|].
  split; [rewrite Ht; apply zlen_firstn; lia|].
  split; [unfold zlen in *; rewrite skipn_length, firstn_length; lia|].
  split; reflexivity.
Qed.

Section LoopSpec.
Variable o : opts.
Variable nested : scanner -> res (scanner * option Stmt).
Hypothesis nested_mono : forall b b' r, pos b = 0 -> delim b <> [] -> nested b = Ok (b', r) ->
  total b <= total b' /\ pos b' = 0 /\ delim b' <> [] /\
  (forall st, r = Some st -> total b + zlen (Text st) <= total b').
Variables (I0 D0 : bytes) (T0 : Z) (C0 : list bytes).

Definition LI (s : scanner) : Prop :=
  starts_space (input s) = false /\ delim s <> [] /\ 0 <= pos s /\
  total s - pos s + zlen (input s) = T0 /\
  (forall g tl d', input s = g ++ tl -> Gap o (delim s) g d' -> exists g0, I0 = g0 ++ tl /\ Gap o D0 g0 d') /\
  (exists gc, I0 = gc ++ input s /\ GapCs o gc (input s) C0 (comments s)).

Definition StmtResult (s' : scanner) (r : option Stmt) : Prop :=
  pos s' = 0 /\ delim s' <> [] /\ total s' + zlen (input s') = T0 /\
  match r with
  | None => input s' = [] /\ Gap o D0 I0 (delim s')
  | Some st => exists g raw go, I0 = g ++ raw ++ go ++ input s' /\ Gap o D0 g (delim s') /\
                             RawOf (delim s') raw st /\ raw ++ go <> [] /\
                             Pos st = T0 - zlen I0 + zlen g + zlen go /\ (go = [] \/ GoCommand o = true) /\
                             GapCs o g (raw ++ go ++ input s') C0 (Comments st) /\ comments s' = []
  end.

Lemma LI_adv s s1 : LI s -> adv s s1 -> comments s1 = comments s -> LI s1.
Proof.
  intros (L1 & L2 & L3 & L4 & L5 & L6) (A1 & A2 & A3 & A4) AC. unfold LI. rewrite A1, A2, AC.
  split; [exact L1|]. split; [exact L2|]. split; [lia|]. split; [lia|]. split; [exact L5|exact L6].
Qed.
Lemma LI_strip s s1 : LI s -> Strip o s s1 ->
  (exists seg, input s = seg ++ input s1 /\ SegC o seg (input s1) (comments s) (comments s1)) -> LI s1.
Proof.
  intros (L1 & L2 & L3 & L4 & L5 & (gc & L6 & L7)) (S1 & S2 & S3 & S4 & S5) (seg & Hseg & HC). unfold LI.
  split; [exact S1|]. split; [exact S2|]. split; [lia|]. split; [lia|]. split.
  - intros g tl d' Hg HG. destruct (S5 _ _ _ Hg HG) as (g1 & Hg1 & HG1). eapply L5; eauto.
  - exists (gc ++ seg). split; [rewrite L6, Hseg, app_assoc; reflexivity|].
    eapply GapCs_snoc; [|exact HC]. rewrite <- Hseg. exact L7.
Qed.

Lemma stmt_loop_spec lf : forall s d op s' r,
  stmt_loop o nested lf s d op = Ok (s', r) -> LI s -> StmtResult s' r.
Proof.
  induction lf as [|lf IH]; intros s d op s' r H L; simpl in H; [discriminate|].
  inv_bind H. pose proof L as (L1 & L2 & L3 & L4 & L5 & L6).
  pose proof (stmt_iter_spec o nested nested_mono _ _ _ _ _ Ha L1 L2) as Hit.
  pose proof (stmt_iter_cm o nested nested_mono _ _ _ _ _ Ha L1) as Hcm.
  destruct a as [s1 d1 o1|s1 text|s1].
  - eapply IH; [exact H|]. destruct Hit as [[A Hlt]|[S [Hp0 Hlen]]].
    + destruct Hcm as [[Ei Ec]|(_ & Hp1 & _)]; [eapply LI_adv; eauto|lia].
    + destruct Hcm as [[Ei Ec]|(_ & _ & HC)]; [rewrite Ei in Hlen; lia|eapply LI_strip; eauto].
  - destruct Hit as (A & Hpos & Htext). inv_bind H. destruct a as [st s2]. simpl in H. injection H as <- <-.
    destruct Hcm as [_ Ec].
    pose proof (LI_adv _ _ L A Ec) as (M1 & M2 & M3 & M4 & M5 & (gc & M6 & M7)).
    assert (exists k, 0 <= k <= pos s1 /\ text = firstn (Z.to_nat k) (input s1) /\
                      (k = pos s1 \/ GoCommand o = true)) as (k & Hk & Ht & Hgo).
    { destruct Htext as [Ht|[[Ht Hlen]|(HG & k & Hk & Ht)]].
      - exists (pos s1). split; [lia|]. split; [exact Ht|left; reflexivity].
      - exists (pos s1). split; [lia|]. split; [|left; reflexivity]. rewrite Ht. symmetry. apply firstn_all2.
        unfold zlen in Hlen. lia.
      - exists k. auto. }
    destruct (emit_spec _ _ _ _ _ _ Ha0 Hk Ht M1) as (go & E1 & E2 & E3 & E4 & E5 & E6 & E7 & E8 & E9 & E10).
    destruct (M5 [] (input s1) (delim s1) eq_refl (Gap_nil o _)) as (g0 & Hg0 & HG0).
    assert (gc = g0) as -> by (rewrite M6 in Hg0; apply app_inv_tail in Hg0; exact Hg0).
    pose proof (zlen_nonneg go) as Hgo0.
    assert (zlen (input s1) = zlen text + zlen go + zlen (input s2)) as Hlen1.
    { rewrite E1 at 1. rewrite !zlen_app. lia. }
    unfold StmtResult. rewrite E5. split; [exact E4|]. split; [exact M2|]. split; [lia|].
    exists g0, text, go. rewrite <- E1. split; [exact Hg0|]. split; [exact HG0|]. split; [exact E2|].
    split; [|split; [|split; [|split]]].
    + intros Hnil. apply (f_equal zlen) in Hnil. rewrite zlen_app in Hnil. change (zlen []) with 0 in Hnil. lia.
    + rewrite Hg0, zlen_app. lia.
    + destruct Hgo as [Hkp|HG]; [left; apply zlen_zero; lia|right; exact HG].
    + rewrite E9. exact M7.
    + exact E10.
  - destruct Hit as (A & Hlen). injection H as <- <-. destruct Hcm as [_ Ec].
    pose proof (LI_adv _ _ L A Ec) as (M1 & M2 & M3 & M4 & M5 & _).
    assert (input s1 = []) as Hin by (apply zlen_zero; pose proof (zlen_nonneg (input s1)); lia).
    destruct (M5 [] [] (delim s1) ltac:(rewrite Hin; reflexivity) (Gap_nil o _)) as (g0 & Hg0 & HG0).
    rewrite app_nil_r in Hg0. subst g0.
    unfold StmtResult. repeat split; auto; try lia.
Qed.
End LoopSpec.

Section StmtSpec.
Variable o : opts.

Lemma StmtResult_mono I0 D0 T0 C0 s' r b :
  StmtResult o I0 D0 T0 C0 s' r -> I0 = input b -> T0 = total b + zlen (input b) ->
  total b <= total s' /\ pos s' = 0 /\ delim s' <> [] /\
  (forall st, r = Some st -> total b + zlen (Text st) <= total s').
Proof.
  intros (R1 & R2 & R3 & R4) -> ->. destruct r as [st|].
  - destruct R4 as (g & raw & go & Hin & _ & (sp & dl & Hraw & _) & _). rewrite Hin, !zlen_app in R3.
    rewrite Hraw, !zlen_app in R3. pose proof (zlen_nonneg go).
    pose proof (zlen_nonneg g). pose proof (zlen_nonneg sp). pose proof (zlen_nonneg dl). pose proof (zlen_nonneg (Text st)).
    repeat split; auto; try lia. intros st0 E. injection E as <-. lia.
  - destruct R4 as [Hin _]. rewrite Hin in R3. change (zlen []) with 0 in R3.
    pose proof (zlen_nonneg (input b)). repeat split; auto; try lia. discriminate.
Qed.

Lemma stmt_spec f : forall s s' r, stmt o f s = Ok (s', r) -> pos s = 0 -> delim s <> [] ->
  StmtResult o (input s) (delim s) (total s + zlen (input s)) (comments s) s' r.
Proof.
  induction f as [|f IH]; intros s s' r H Hp Hd; simpl in H; [discriminate|].
  eapply (stmt_loop_spec o (stmt o f)); [|exact H|].
  - intros b b' r0 Hb1 Hb2 Hb3. eapply StmtResult_mono; [eapply IH; eauto|reflexivity|reflexivity].
  - destruct (trim_left_decomp (input s)) as (sp & Hsp & Hsp2 & Hsp3).
    unfold LI, skipSpaces; simpl. split; [exact Hsp3|]. split; [exact Hd|]. split; [lia|]. split; [lia|]. split.
    + intros g tl d' Hg HG. exists (sp ++ g). split.
      * rewrite Hsp at 1. rewrite Hg, app_assoc. reflexivity.
      * apply Gap_space; auto.
    + exists sp. split; [exact Hsp|].
      change sp with ([] ++ sp). eapply GapCs_snoc; [apply GCs_nil|apply SC_space; exact Hsp2].
Qed.

Lemma scan_loop_spec f : forall s acc ss, scan_loop o f s acc = Ok ss -> pos s = 0 -> delim s <> [] ->
  comments s = [] ->
  exists ss', ss = rev acc ++ ss' /\ LosslessG o (delim s) (total s) (input s) ss'.
Proof.
  induction f as [|f IH]; intros s acc ss H Hp Hd Hcs; [discriminate|].
  cbn [scan_loop] in H. inv_bind H. destruct a as [s1 r].
  pose proof (stmt_spec _ _ _ _ Ha Hp Hd) as (R1 & R2 & R3 & R4). rewrite Hcs in R4.
  destruct r as [st|].
  - destruct R4 as (g & raw & go & Hin & HG & HR & Hne & HP & Hgo & HC & Hcs1).
    destruct (IH _ _ _ H R1 R2 Hcs1) as (ss' & Hss & HL).
    exists (st :: ss'). split; [rewrite Hss; simpl; rewrite <- app_assoc; reflexivity|].
    rewrite Hin. eapply LG_stmt; [exact HG|exact HR|exact Hne|exact Hgo|lia|exact HC|].
    replace (total s + zlen g + zlen raw + zlen go) with (total s1); [exact HL|].
    rewrite Hin, !zlen_app in R3. lia.
  - destruct R4 as [Hin HG]. injection H as <-. exists []. rewrite app_nil_r. split; [reflexivity|].
    eapply LG_end; exact HG.
Qed.

(** the [-- atlas:delimiter] header line stripped by [init] (dir.go [directive]). *)
Definition Header (inp hdr d0 : bytes) : Prop :=
  (directive_delimiter inp = None /\ hdr = [] /\ d0 = delimiter) \/
  (exists dd line, directive_delimiter inp = Some dd /\ dd <> [] /\ d0 = unescape_delim dd /\
                   hdr = line ++ NL /\ ~ In 10%N line).

Lemma index_of_nl_first s i : index_of s NL = Some i -> ~ In 10%N (firstn i s).
Proof.
  revert i; induction s as [|a s IH]; intros i; simpl.
  - discriminate.
  - destruct (N.eqb a 10) eqn:E; simpl.
    + intros H; inversion H. cbv [firstn]. intros [].
    + destruct (index_of s NL) eqn:E2; [|discriminate]. intros H; inversion H; subst.
      cbv [firstn]. fold (@firstn N). intros [Hin|Hin]; [apply N.eqb_neq in E; congruence|].
      apply (IH _ eq_refl Hin).
Qed.

Theorem Scan_losslessG fuel inp ss :
  Scan o fuel inp = Ok ss ->
  exists hdr d0 rest, inp = hdr ++ rest /\ Header inp hdr d0 /\ LosslessG o d0 (zlen hdr) rest ss.
Proof.
  unfold Scan. intros H. inv_bind H. rename a into s. unfold init in Ha.
  destruct (directive_delimiter inp) as [dd|] eqn:Ed.
  - inv_bind Ha. apply setDelim_ok in Ha0 as [Hdd ->].
    destruct (index_of inp NL) as [i|] eqn:Ei; [|apply fail_not_ok in Ha; contradiction].
    injection Ha as <-.
    destruct (scan_loop_spec _ _ _ _ H eq_refl ltac:(simpl; apply unescape_delim_nonnil; exact Hdd) eq_refl) as (ss' & -> & HL).
    simpl in HL. pose proof (index_of_app _ _ _ Ei) as Happ. pose proof (index_of_spec _ _ _ Ei) as [_ Hi].
    exists (firstn i inp ++ NL), (unescape_delim dd), (skipn (S i) inp).
    assert (skipn (i + length NL) inp = skipn (S i) inp) as Hsk by (f_equal; simpl; lia).
    rewrite Hsk in Happ. split; [rewrite <- app_assoc; exact Happ|]. split.
    + right. exists dd, (firstn i inp). repeat split; auto. apply index_of_nl_first; exact Ei.
    + replace (zlen (firstn i inp ++ NL)) with (zlen inp - zlen (skipn (S i) inp)); [exact HL|].
      rewrite Happ at 1. rewrite !zlen_app. lia.
  - injection Ha as <-.
    destruct (scan_loop_spec _ _ _ _ H eq_refl ltac:(simpl; discriminate) eq_refl) as (ss' & -> & HL).
    exists [], delimiter, inp. split; [reflexivity|]. split; [left; auto|exact HL].
Qed.

Theorem Scan_lossless fuel inp ss :
  GoCommand o = false -> Scan o fuel inp = Ok ss ->
  exists hdr d0 rest, inp = hdr ++ rest /\ Header inp hdr d0 /\ Lossless o d0 (zlen hdr) rest ss.
Proof.
  intros noGo H. destruct (Scan_losslessG _ _ _ H) as (hdr & d0 & rest & H1 & H2 & H3).
  exists hdr, d0, rest. split; [exact H1|]. split; [exact H2|]. apply LosslessG_noGo; assumption.
Qed.
End StmtSpec.

(** * Positions and lines, from losslessness *)
(** Go's [input[Pos : Pos+len(Text)] == Text], without panic. *)
Definition TextAt (inp : bytes) (st : Stmt) : Prop :=
  slice inp (Pos st) (Pos st + zlen (Text st)) = Ok (Text st).

(** positions strictly increase and the intervals [Pos, Pos+|Text|) are disjoint, all >= lo. *)
Fixpoint ordered (lo : Z) (ss : list Stmt) : Prop :=
  match ss with
  | [] => True
  | st :: r => lo <= Pos st /\ ordered (Z.max (Pos st + 1) (Pos st + zlen (Text st))) r
  end.

Lemma ordered_weaken ss : forall lo lo', lo' <= lo -> ordered lo ss -> ordered lo' ss.
Proof. destruct ss as [|st r]; simpl; intros lo lo' H; [auto|]. intros [H1 H2]. split; [lia|exact H2]. Qed.

Lemma slice_mid (a b c : bytes) : slice (a ++ b ++ c) (zlen a) (zlen a + zlen b) = Ok b.
Proof.
  unfold slice. pose proof (zlen_nonneg a). pose proof (zlen_nonneg b). pose proof (zlen_nonneg c).
  rewrite !zlen_app.
  destruct (zlen a <? 0) eqn:E1; [bnorm; lia|]. destruct (zlen a + zlen b <? zlen a) eqn:E2; [bnorm; lia|].
  destruct (zlen a + (zlen b + zlen c) <? zlen a + zlen b) eqn:E3; [bnorm; lia|]. simpl. f_equal.
  apply (skipn_firstn_mid _ a b c); [reflexivity|reflexivity|lia].
Qed.

Lemma lossless_positions o d off rest ss :
  Lossless o d off rest ss -> forall pre, zlen pre = off ->
  Forall (TextAt (pre ++ rest)) ss /\ ordered off ss.
Proof.
  induction 1 as [d off g d' HG|d off g d' raw rest st ss HG HR Hne HP HL IH]; intros pre Hpre.
  - split; constructor.
  - destruct HR as (sp & dl & Hraw & _ & _).
    destruct (IH (pre ++ g ++ raw) ltac:(rewrite !zlen_app; lia)) as [IH1 IH2].
    assert (1 <= zlen raw) as Hr1.
    { destruct raw; [congruence|]. rewrite zlen_cons. pose proof (zlen_nonneg raw). lia. }
    assert (zlen (Text st) <= zlen raw) as Hr2.
    { rewrite Hraw, !zlen_app. pose proof (zlen_nonneg sp). pose proof (zlen_nonneg dl). lia. }
    pose proof (zlen_nonneg g) as Hg0.
    split.
    + constructor.
      * unfold TextAt. rewrite HP, Hraw.
        replace (pre ++ g ++ (Text st ++ sp ++ dl) ++ rest) with ((pre ++ g) ++ Text st ++ (sp ++ dl ++ rest))
          by (rewrite <- !app_assoc; reflexivity).
        replace (off + zlen g) with (zlen (pre ++ g)) by (rewrite zlen_app; lia).
        apply slice_mid.
      * replace (pre ++ g ++ raw ++ rest) with ((pre ++ g ++ raw) ++ rest) by (rewrite <- !app_assoc; reflexivity).
        exact IH1.
    + simpl. split; [lia|]. eapply ordered_weaken; [|exact IH2]. lia.
Qed.

(** an independent reading of "the 1-based line of offset p": walk the text, count newlines. *)
Fixpoint line_walk (s : bytes) (n : nat) (line : Z) : Z :=
  match n, s with
  | S n', a :: t => line_walk t n' (if N.eqb a 10 then line + 1 else line)
  | _, _ => line
  end.
Definition line_of (inp : bytes) (p : Z) : Z := line_walk inp (Z.to_nat p) 1.

Lemma count_nl_cons a t : count_nl (a :: t) = (if N.eqb a 10 then 1 else 0) + count_nl t.
Proof.
  unfold count_nl. cbn [filter]. destruct (N.eqb_spec 10 a), (N.eqb_spec a 10); subst; try congruence;
    simpl length; lia.
Qed.
Lemma line_walk_count s : forall n l, line_walk s n l = count_nl (firstn n s) + l.
Proof.
  induction s as [|a t IH]; intros [|n] l; cbv [firstn]; fold (@firstn N); simpl line_walk;
    try (unfold count_nl; simpl; lia).
  rewrite IH, count_nl_cons. destruct (N.eqb a 10); lia.
Qed.

Lemma Line_spec inp st : TextAt inp st -> Line inp (Pos st) = Ok (line_of inp (Pos st)).
Proof.
  unfold TextAt, Line. intros H. apply slice_ok in H as (H1 & H2 & _).
  pose proof (zlen_nonneg (Text st)).
  unfold slice_to. destruct (Pos st <? 0) eqn:E1; [bnorm; lia|]. destruct (zlen inp <? Pos st) eqn:E2; [bnorm; lia|].
  simpl. unfold line_of. rewrite line_walk_count. reflexivity.
Qed.

(** ** the same for every option set (GoCommand included): the text is found [sh] bytes before
    [Pos], where [sh] is the length of the GO separator consumed after the statement (0 without
    the option); [Line(Pos)] never panics and is the line of the byte at [Pos]. *)
Definition TextAtShift (inp : bytes) (sh : Z) (st : Stmt) : Prop :=
  slice inp (Pos st - sh) (Pos st - sh + zlen (Text st)) = Ok (Text st).

Lemma losslessG_positions o d off rest ss :
  LosslessG o d off rest ss -> forall pre, zlen pre = off ->
  Forall (fun st => exists sh, 0 <= sh /\ (GoCommand o = false -> sh = 0) /\
                    TextAtShift (pre ++ rest) sh st /\ 0 <= Pos st <= zlen (pre ++ rest)) ss.
Proof.
  induction 1 as [d off g d' HG|d off g d' raw go rest st ss HG HR Hne Hgo HP HC HL IH]; intros pre Hpre.
  - constructor.
  - destruct HR as (sp & dl & Hraw & _ & _).
    specialize (IH (pre ++ g ++ raw ++ go) ltac:(rewrite !zlen_app; lia)).
    pose proof (zlen_nonneg g). pose proof (zlen_nonneg go). pose proof (zlen_nonneg raw).
    pose proof (zlen_nonneg rest). pose proof (zlen_nonneg pre).
    constructor.
    + exists (zlen go). split; [assumption|]. split.
      { intros Hf. destruct Hgo as [->|Hgo]; [reflexivity|congruence]. }
      split.
      * unfold TextAtShift. rewrite HP, Hraw.
        replace (pre ++ g ++ (Text st ++ sp ++ dl) ++ go ++ rest)
          with ((pre ++ g) ++ Text st ++ (sp ++ dl ++ go ++ rest)) by (rewrite <- !app_assoc; reflexivity).
        replace (off + zlen g + zlen go - zlen go) with (zlen (pre ++ g)) by (rewrite zlen_app; lia).
        apply slice_mid.
      * rewrite HP, !zlen_app. lia.
    + replace (pre ++ g ++ raw ++ go ++ rest) with ((pre ++ g ++ raw ++ go) ++ rest)
        by (rewrite <- !app_assoc; reflexivity).
      exact IH.
Qed.

Lemma losslessG_comments o d off rest ss : LosslessG o d off rest ss -> forall pre,
  Forall (fun st => Forall (InGap o (pre ++ rest)) (Comments st)) ss.
Proof.
  induction 1 as [d off g d' HG|d off g d' raw go rest st ss HG HR Hne Hgo HP HC HL IH]; intros pre; constructor.
  - pose proof (GapCs_sound o _ _ _ _ HC pre (Forall_nil _)) as HF. eapply Forall_impl; [|exact HF].
    intros c (a & b & E & Hc). exists a, (b ++ raw ++ go ++ rest). split; [|exact Hc].
    rewrite (app_assoc pre g), E, <- !app_assoc. reflexivity.
  - specialize (IH (pre ++ g ++ raw ++ go)). rewrite <- !app_assoc in IH. exact IH.
Qed.

Lemma Line_bounds inp p : 0 <= p <= zlen inp -> Line inp p = Ok (line_of inp p).
Proof.
  intros H. unfold Line, slice_to.
  destruct (p <? 0) eqn:E1; [bnorm; lia|]. destruct (zlen inp <? p) eqn:E2; [bnorm; lia|].
  simpl. unfold line_of. rewrite line_walk_count. reflexivity.
Qed.

(** carriage returns: [FileReport.Line] counts "\n" only, so "\r\n" ends a line exactly once and a
    lone "\r" never does: deleting every "\r" before [p] does not change the line. *)
Definition strip_cr (s : bytes) : bytes := filter (fun b => negb (N.eqb b 13)) s.
Lemma count_nl_strip_cr s : count_nl (strip_cr s) = count_nl s.
Proof.
  induction s as [|a t IH]; [reflexivity|]. unfold strip_cr in *. cbn [filter].
  destruct (N.eqb a 13) eqn:E; cbn [negb].
  - rewrite IH, count_nl_cons. apply N.eqb_eq in E. subst a. reflexivity.
  - rewrite !count_nl_cons, IH. reflexivity.
Qed.
Lemma Line_cr inp p : 0 <= p <= zlen inp ->
  Line inp p = Ok (count_nl (strip_cr (firstn (Z.to_nat p) inp)) + 1).
Proof.
  intros H. unfold Line, slice_to.
  destruct (p <? 0) eqn:E1; [bnorm; lia|]. destruct (zlen inp <? p) eqn:E2; [bnorm; lia|].
  simpl. rewrite count_nl_strip_cr. reflexivity.
Qed.

(** * Termination: the depth fuel [length input + 2] is never exhausted *)
Definition rem (s : scanner) : Z := zlen (input s) - pos s.

Lemma bind_fuel {A B} (x : res A) (f : A -> res B) :
  bind x f = OutOfFuel -> x = OutOfFuel \/ exists a, x = Ok a /\ f a = OutOfFuel.
Proof. destruct x; simpl; try discriminate; eauto. Qed.

Ltac nf_bind H :=
  let a := fresh "a" in let Ha := fresh "Ha" in
  apply bind_fuel in H; destruct H as [H|(a & Ha & H)].

Lemma slice_to_nf s p : slice_to s p <> OutOfFuel.
Proof. unfold slice_to. destruct (_ || _); discriminate. Qed.
Lemma slice_nf s p q : slice s p q <> OutOfFuel.
Proof. unfold slice. destruct (_ || _); discriminate. Qed.
Lemma index_nf s p : index s p <> OutOfFuel.
Proof. unfold index. destruct (_ || _); [discriminate|]. destruct (nth_error _ _); discriminate. Qed.
Lemma error_at_nf s p k : error_at s p k <> OutOfFuel.
Proof. unfold error_at. intros H. nf_bind H; [apply slice_to_nf in H; auto|discriminate]. Qed.
Lemma fail_nf {A} s p k : @fail A s p k <> OutOfFuel.
Proof. unfold fail. intros H. nf_bind H; [apply error_at_nf in H; auto|discriminate]. Qed.
Lemma nfail_nf s p k : nfail s p k <> OutOfFuel.
Proof. unfold nfail. intros H. nf_bind H; [apply error_at_nf in H; auto|discriminate]. Qed.
Lemma next_nf s : next s <> OutOfFuel.
Proof.
  unfold next. destruct (_ <=? _); [discriminate|]. intros H. nf_bind H; [apply slice_from_not_fuel in H; auto|].
  destruct (decode_rune a); discriminate.
Qed.
Lemma pick_nf s : pick s <> OutOfFuel.
Proof. unfold pick. intros H. nf_bind H; [apply next_nf in H; auto|discriminate]. Qed.

Lemma next_rem s c s1 : next s = Ok (Some c, s1) -> rem s1 < rem s.
Proof.
  intros H. apply next_some in H as (rest & w & H1 & H2 & H3 & -> & H4).
  destruct (decode_rune_spec _ _ _ H3 H2) as [Hw _]. unfold rem; simpl. lia.
Qed.
Lemma adv_rem s s1 : adv s s1 -> rem s1 <= rem s.
Proof. intros (A1 & _ & _ & A4). unfold rem. rewrite A1. lia. Qed.

Lemma next_some_rem s c s1 : next s = Ok (Some c, s1) -> 1 <= rem s.
Proof. intros H. apply next_some in H as (_ & _ & _ & _ & _ & _ & ?). unfold rem. lia. Qed.

Lemma skipQuote_loop_nf f : forall s p0 q e, (0 < f)%nat -> rem s < Z.of_nat f -> skipQuote_loop f s p0 q e <> OutOfFuel.
Proof.
  induction f as [|f IH]; intros s p0 q e Hf Hr H; simpl in H; [lia|].
  nf_bind H; [apply next_nf in H; auto|]. destruct a as [[c|] s1].
  - pose proof (next_rem _ _ _ Ha) as R1. pose proof (next_some_rem _ _ _ Ha) as R2.
    destruct (N.eqb c 92 && e).
    + nf_bind H; [apply next_nf in H; auto|]. destruct a as [r2 s2]. simpl in H.
      pose proof (adv_rem _ _ (next_adv _ _ _ Ha0)). eapply IH; [| |exact H]; lia.
    + destruct (N.eqb c q); [discriminate|]. eapply IH; [| |exact H]; lia.
  - apply fail_nf in H. auto.
Qed.
Lemma skipQuote_nf o f s q : (0 < f)%nat -> rem s < Z.of_nat f -> skipQuote o f s q <> OutOfFuel.
Proof.
  unfold skipQuote. intros Hf Hr H. nf_bind H.
  - destruct (BackslashEscapes o); [discriminate|]. destruct (_ && _); [|discriminate].
    nf_bind H; [apply index_nf in H; auto|discriminate].
  - eapply skipQuote_loop_nf; eauto.
Qed.

Lemma skipDollarQuote_loop_nf f : forall s m, (0 < f)%nat -> rem s < Z.of_nat f -> skipDollarQuote_loop f s m <> OutOfFuel.
Proof.
  induction f as [|f IH]; intros s m Hf Hr H; simpl in H; [lia|].
  nf_bind H; [apply next_nf in H; auto|]. destruct a as [[c|] s1].
  - pose proof (next_rem _ _ _ Ha) as R1. pose proof (next_some_rem _ _ _ Ha) as R2.
    destruct (N.eqb c 36).
    + nf_bind H; [apply slice_from_not_fuel in H; auto|]. destruct (has_prefix a m); [discriminate|].
      eapply IH; [| |exact H]; lia.
    + eapply IH; [| |exact H]; lia.
  - destruct (delim s1); [apply fail_nf in H; auto|discriminate].
Qed.
Lemma skipDollarQuote_nf f s : (0 < f)%nat -> rem s < Z.of_nat f -> 1 <= pos s -> skipDollarQuote f s <> OutOfFuel.
Proof.
  unfold skipDollarQuote. intros Hf Hr Hp H. nf_bind H; [apply slice_from_not_fuel in H; auto|].
  destruct (re_dollar_quote a) as [n|] eqn:E; [|apply fail_nf in H; auto].
  apply re_dollar_quote_some in E as [Hn Hne].
  eapply skipDollarQuote_loop_nf; [| |exact H]; [lia|].
  unfold rem, addPos; simpl. unfold rem in Hr.
  assert (1 <= zlen (firstn n a)).
  { unfold zlen. rewrite firstn_length. destruct a; [congruence|simpl]. lia. }
  lia.
Qed.

Lemma to_eol_loop_nf f : forall s r, (1 < f)%nat -> rem s + 1 < Z.of_nat f -> to_eol_loop f s r <> OutOfFuel.
Proof.
  induction f as [|f IH]; intros s r Hf Hr H; simpl in H; [lia|].
  destruct r as [c|]; [|discriminate]. destruct (N.eqb c 10); [discriminate|].
  nf_bind H; [apply next_nf in H; auto|]. destruct a as [[c1|] s1]; simpl in H.
  - pose proof (next_rem _ _ _ Ha) as R1. pose proof (next_some_rem _ _ _ Ha) as R2.
    eapply IH; [| |exact H]; lia.
  - destruct f; [lia|simpl in H; discriminate].
Qed.

Lemma comment_nf s l r : comment s l r <> OutOfFuel.
Proof.
  unfold comment. intros H. nf_bind H; [apply slice_from_not_fuel in H; auto|].
  destruct (index_of a r); [|discriminate]. destruct (negb _); [discriminate|].
  nf_bind H; [apply slice_to_nf in H; auto|]. nf_bind H; [apply slice_from_not_fuel in H; auto|]. discriminate.
Qed.
Lemma emit_nf o s t : emit o s t <> OutOfFuel.
Proof. unfold emit. intros H. nf_bind H; [apply slice_from_not_fuel in H; auto|discriminate]. Qed.
Lemma setDelim_nf s d : setDelim s d <> OutOfFuel.
Proof. unfold setDelim. destruct d; discriminate. Qed.
Lemma delim_of_arg_nf a : delim_of_arg a <> OutOfFuel.
Proof. unfold delim_of_arg. destruct (_ && _); [|discriminate]. intros H. nf_bind H; [apply slice_nf in H; auto|discriminate]. Qed.
Lemma delimCmd_nf o f s : (1 < f)%nat -> rem s + 1 < Z.of_nat f -> delimCmd o f s <> OutOfFuel.
Proof.
  unfold delimCmd. intros Hf Hr H. nf_bind H; [apply pick_nf in H; auto|]. destruct (negb _); [discriminate|].
  nf_bind H; [apply pick_nf in H; auto|]. nf_bind H; [eapply to_eol_loop_nf; eauto|].
  nf_bind H; [apply slice_nf in H; auto|]. nf_bind H; [apply delim_of_arg_nf in H; auto|].
  nf_bind H; [apply setDelim_nf in H; auto|]. nf_bind H; [apply slice_to_nf in H; auto|].
  nf_bind H; [apply emit_nf in H; auto|discriminate].
Qed.
Lemma init_nf s0 inp : init s0 inp <> OutOfFuel.
Proof.
  unfold init. destruct (directive_delimiter inp); [|discriminate]. intros H.
  nf_bind H; [apply setDelim_nf in H; auto|]. destruct (index_of inp NL); [discriminate|apply fail_nf in H; auto].
Qed.
Lemma init_input_len s0 inp s : init s0 inp = Ok s -> zlen (input s) <= zlen inp.
Proof.
  unfold init. destruct (directive_delimiter inp); [|intros H; inversion H; simpl; lia].
  intros H. inv_bind H. apply setDelim_ok in Ha as [_ ->].
  destruct (index_of inp NL); [|apply fail_not_ok in H; contradiction].
  inversion H; simpl. unfold zlen. rewrite skipn_length. lia.
Qed.

Lemma skipGoCount_nf f s : (1 < f)%nat -> rem s + 1 < Z.of_nat f -> skipGoCount f s <> OutOfFuel.
Proof.
  unfold skipGoCount. intros Hf Hr H. nf_bind H; [apply pick_nf in H; auto|]. destruct (rune_is a 32); [|discriminate].
  cbv zeta in H. nf_bind H; [apply pick_nf in H; auto|]. nf_bind H; [eapply to_eol_loop_nf; eauto|].
  nf_bind H; [apply slice_nf in H; auto|]. destruct (atoi_ok _); discriminate.
Qed.

Section NestedNF.
Variable o : opts.
Variable nested : scanner -> res (scanner * option Stmt).
Variable fn : nat.
Hypothesis nested_mono : forall b b' r, pos b = 0 -> delim b <> [] -> nested b = Ok (b', r) ->
  total b <= total b' /\ pos b' = 0 /\ delim b' <> [] /\
  (forall st, r = Some st -> total b + zlen (Text st) <= total b').
Hypothesis nested_prog : forall b b' st, pos b = 0 -> delim b <> [] -> nested b = Ok (b', Some st) ->
  zlen (input b') < zlen (input b).
Hypothesis nested_nf : forall b, pos b = 0 -> delim b <> [] -> zlen (input b) + 2 <= Z.of_nat fn ->
  nested b <> OutOfFuel.

Lemma atomic_loop_nf f : forall s body, pos body = 0 -> delim body <> [] ->
  zlen (input body) < Z.of_nat f -> zlen (input body) + 2 <= Z.of_nat fn ->
  atomic_loop nested f s body <> OutOfFuel.
Proof.
  induction f as [|f IH]; intros s body Hp Hd Hl Hn H; simpl in H; [pose proof (zlen_nonneg (input body)); lia|].
  destruct (nested body) as [[body' [st|]]|e| |] eqn:En; try discriminate.
  - destruct (nested_mono _ _ _ Hp Hd En) as (_ & M2 & M3 & _). pose proof (nested_prog _ _ _ Hp Hd En).
    destruct (re_end (Text st)); [discriminate|]. eapply IH; [| | | |exact H]; auto; lia.
  - apply nfail_nf in H; auto.
  - apply nfail_nf in H; auto.
  - eapply nested_nf; eauto.
Qed.
Lemma begin_loop_nf f : forall s group, pos group = 0 -> delim group <> [] ->
  zlen (input group) < Z.of_nat f -> zlen (input group) + 2 <= Z.of_nat fn ->
  begin_loop o nested f s group <> OutOfFuel.
Proof.
  induction f as [|f IH]; intros s body Hp Hd Hl Hn H; simpl in H; [pose proof (zlen_nonneg (input body)); lia|].
  destruct (nested body) as [[body' [st|]]|e| |] eqn:En; try discriminate.
  - destruct (nested_mono _ _ _ Hp Hd En) as (_ & M2 & M3 & _). pose proof (nested_prog _ _ _ Hp Hd En).
    destruct (re_end (Text st)).
    + destruct (_ || _); [discriminate|]. eapply IH; [| | | |exact H]; auto; lia.
    + destruct (_ && _); [discriminate|]. eapply IH; [| | | |exact H]; auto; lia.
  - apply nfail_nf in H; auto.
  - apply nfail_nf in H; auto.
  - eapply nested_nf; eauto.
Qed.

Lemma trycatch_loop_nf f : forall s body, pos body = 0 -> delim body <> [] ->
  zlen (input body) < Z.of_nat f -> zlen (input body) + 2 <= Z.of_nat fn ->
  trycatch_loop nested f s body <> OutOfFuel.
Proof.
  induction f as [|f IH]; intros s body Hp Hd Hl Hn H; simpl in H; [pose proof (zlen_nonneg (input body)); lia|].
  destruct (nested body) as [[body' [st|]]|e| |] eqn:En; try discriminate.
  - destruct (nested_mono _ _ _ Hp Hd En) as (_ & M2 & M3 & _). pose proof (nested_prog _ _ _ Hp Hd En).
    destruct (re_end_catch (Text st)); [discriminate|]. eapply IH; [| | | |exact H]; auto; lia.
  - apply nfail_nf in H; auto.
  - apply nfail_nf in H; auto.
  - eapply nested_nf; eauto.
Qed.
Lemma skipBeginTryCatch_nf f s : 1 <= pos s -> rem s < Z.of_nat f -> rem s + 2 <= Z.of_nat fn ->
  skipBeginTryCatch nested f s <> OutOfFuel.
Proof.
  unfold skipBeginTryCatch. intros Hp Hr Hn H. nf_bind H; [apply slice_from_not_fuel in H; auto|].
  destruct (re_begin_try a) as [n|] eqn:E; [|apply nfail_nf in H; auto].
  apply re_begin_word_pos in E. nf_bind H; [apply slice_from_not_fuel in H; auto|].
  apply slice_from_ok in Ha0 as [Hb ->]. simpl in Hb.
  destruct (init (new_scanner false) _) as [body|e| |] eqn:Ei; try discriminate.
  - destruct (init_total _ _ _ Ei) as (_ & T2 & T3). pose proof (init_input_len _ _ _ Ei) as Hl.
    rewrite zlen_skipn in Hl by (simpl; lia). simpl in Hl. unfold rem in *.
    eapply trycatch_loop_nf; [| | | |exact H]; auto; lia.
  - apply init_nf in Ei; auto.
Qed.
Lemma skipBeginAtomic_nf f s : 1 <= pos s -> rem s < Z.of_nat f -> rem s + 2 <= Z.of_nat fn ->
  skipBeginAtomic nested f s <> OutOfFuel.
Proof.
  unfold skipBeginAtomic. intros Hp Hr Hn H. nf_bind H; [apply slice_from_not_fuel in H; auto|].
  destruct (re_begin_atomic a) as [n|] eqn:E; [|apply nfail_nf in H; auto].
  apply re_begin_word_pos in E. nf_bind H; [apply slice_from_not_fuel in H; auto|].
  apply slice_from_ok in Ha0 as [Hb ->]. simpl in Hb.
  destruct (init (new_scanner false) _) as [body|e| |] eqn:Ei; try discriminate.
  - destruct (init_total _ _ _ Ei) as (_ & T2 & T3). pose proof (init_input_len _ _ _ Ei) as Hl.
    rewrite zlen_skipn in Hl by (simpl; lia). simpl in Hl. unfold rem in *.
    eapply atomic_loop_nf; [| | | |exact H]; auto; lia.
  - apply init_nf in Ei; auto.
Qed.
Lemma skipBegin_nf f s : 1 <= pos s -> rem s < Z.of_nat f -> rem s + 2 <= Z.of_nat fn ->
  skipBegin o nested f s <> OutOfFuel.
Proof.
  unfold skipBegin. intros Hp Hr Hn H. nf_bind H; [apply slice_from_not_fuel in H; auto|].
  destruct (re_begin a) as [n|] eqn:E; [|apply nfail_nf in H; auto].
  apply re_begin_pos in E. nf_bind H; [apply slice_from_not_fuel in H; auto|].
  apply slice_from_ok in Ha0 as [Hb ->]. simpl in Hb.
  destruct (init (new_scanner (BeginEndTerminator o)) _) as [body|e| |] eqn:Ei; try discriminate.
  - destruct (init_total _ _ _ Ei) as (_ & T2 & T3). pose proof (init_input_len _ _ _ Ei) as Hl.
    rewrite zlen_skipn in Hl by (simpl; lia). simpl in Hl. unfold rem in *.
    eapply begin_loop_nf; [| | | |exact H]; auto; lia.
  - apply init_nf in Ei; auto.
Qed.

Lemma after_block_nf r d op : after_block r d op = OutOfFuel -> r = OutOfFuel.
Proof.
  unfold after_block. intros H. nf_bind H; [exact H|]. destruct a as [s1 [e|]]; [discriminate|].
  nf_bind H; [apply slice_to_nf in H; contradiction|discriminate].
Qed.

Lemma stmt_iter_nf f s0 depth opos :
  rem s0 <= Z.of_nat f -> rem s0 + 1 <= Z.of_nat fn ->
  stmt_iter o nested f s0 depth opos <> OutOfFuel.
Proof.
  unfold stmt_iter. intros Hr Hn H. nf_bind H; [apply next_nf in H; auto|]. destruct a as [[c|] s].
  2:{ destruct (0 <? depth); [apply fail_nf in H; auto|]. destruct (0 <? pos s); discriminate. }
  pose proof (next_rem _ _ _ Ha) as R1. pose proof (next_some_rem _ _ _ Ha) as R2.
  assert (1 <= pos s) as Hps.
  { apply next_some in Ha as (rest & w & H1 & H2 & H3 & -> & H4).
    destruct (decode_rune_spec _ _ _ H3 H2) as [Hw _]. simpl. lia. }
  clear Ha.
  destruct (N.eqb c 40); [discriminate|].
  destruct (N.eqb c 41). { destruct (depth =? 0); [apply fail_nf in H; auto|discriminate]. }
  destruct (N.eqb c 39 || N.eqb c 34 || N.eqb c 96).
  { nf_bind H; [eapply skipQuote_nf; [| |exact H]; lia|discriminate]. }
  nf_bind H.
  { destruct (_ && _); [|discriminate]. nf_bind H; [apply slice_to_nf in H; auto|discriminate]. }
  destruct a.
  { destruct ((pos s =? 1) && (zlen S_DELIMITER <? zlen (input s))) eqn:E; [|discriminate]. bnorm.
    change (zlen S_DELIMITER) with 9 in *.
    nf_bind H; [|discriminate]. eapply delimCmd_nf; [| |exact H]; unfold rem in *; simpl; lia. }
  clear Ha. nf_bind H.
  { destruct (GoCommand o && N.eqb c 10); [|discriminate]. nf_bind H; [apply slice_from_not_fuel in H; auto|discriminate]. }
  rename a into go1. clear Ha. nf_bind H.
  { destruct go1; [discriminate|]. destruct (GoCommand o); [|discriminate]. nf_bind H.
    - destruct (pos s =? 1); [discriminate|]. destruct (1 <? pos s); [|discriminate].
      nf_bind H; [apply index_nf in H; auto|discriminate].
    - destruct a; [|discriminate]. nf_bind H; [apply slice_from_not_fuel in H; auto|discriminate]. }
  rename a into go2. clear Ha. destruct go2.
  { nf_bind H.
    { destruct go1; [|discriminate]. nf_bind H; [apply next_nf in H; auto|discriminate]. }
    rename a into s1. assert (rem s1 <= rem s) as Hr1.
    { destruct go1; [|injection Ha as <-; lia]. inv_bind_as Ha rs1 Hrs1. injection Ha as <-.
      destruct rs1 as [r1 s1']. simpl. exact (adv_rem _ _ (next_adv _ _ _ Hrs1)). }
    clear Ha. nf_bind H; [apply slice_to_nf in H; auto|]. rename a into text. clear Ha.
    nf_bind H; [apply next_nf in H; auto|]. destruct a as [r2 s2]. pose proof (adv_rem _ _ (next_adv _ _ _ Ha)) as Hr2.
    nf_bind H; [|discriminate]. simpl in H. destruct r2 as [c2|].
    - pose proof (next_rem _ _ _ Ha) as Q1. pose proof (next_some_rem _ _ _ Ha) as Q2.
      eapply skipGoCount_nf; [| |exact H]; lia.
    - pose proof (next_none _ _ Ha) as [-> _]. unfold skipGoCount, pick in H. rewrite Ha in H. simpl in H. discriminate. }
  nf_bind H.
  { destruct (depth =? 0); [|discriminate]. nf_bind H; [apply slice_from_not_fuel in H; auto|discriminate]. }
  destruct a. { nf_bind H; [apply slice_to_nf in H; auto|discriminate]. }
  clear Ha. nf_bind H.
  { destruct (_ && _); [|discriminate]. nf_bind H; [apply slice_from_not_fuel in H; auto|discriminate]. }
  destruct a. { nf_bind H; [eapply skipDollarQuote_nf; [| | |exact H]; lia|discriminate]. }
  clear Ha.
  destruct (N.eqb c 35 && HashComments o). { nf_bind H; [apply comment_nf in H; auto|discriminate]. }
  nf_bind H. { destruct (N.eqb c 45); [apply pick_nf in H; auto|discriminate]. }
  destruct (N.eqb c 45 && rune_is a 45).
  { nf_bind H; [apply next_nf in H; auto|]. nf_bind H; [apply comment_nf in H; auto|discriminate]. }
  clear Ha. nf_bind H. { destruct (N.eqb c 47); [apply pick_nf in H; auto|discriminate]. }
  destruct (N.eqb c 47 && rune_is a0 42).
  { nf_bind H; [apply next_nf in H; auto|]. nf_bind H; [apply comment_nf in H; auto|discriminate]. }
  clear Ha. nf_bind H.
  { destruct (endterm s); [|discriminate]. nf_bind H; [apply slice_to_nf in H; auto|discriminate]. }
  destruct a1. { nf_bind H; [apply slice_to_nf in H; auto|discriminate]. }
  clear Ha. nf_bind H.
  { destruct (_ && _); [|discriminate]. nf_bind H; [apply slice_from_not_fuel in H; auto|discriminate]. }
  destruct a1. { apply after_block_nf in H. eapply skipBeginAtomic_nf; [| | |exact H]; lia. }
  clear Ha. nf_bind H.
  { destruct (_ && _); [|discriminate]. nf_bind H; [apply slice_from_not_fuel in H; auto|discriminate]. }
  destruct a1. { apply after_block_nf in H. eapply skipBeginTryCatch_nf; [| | |exact H]; lia. }
  clear Ha.
  nf_bind H.
  { destruct (_ && _); [|discriminate]. destruct (pos s =? 1).
    - nf_bind H; [apply slice_from_not_fuel in H; auto|discriminate].
    - destruct (1 <? pos s); [|discriminate]. nf_bind H; [apply slice_from_not_fuel in H; auto|discriminate]. }
  destruct a1; [|discriminate]. apply after_block_nf in H. eapply skipBegin_nf; [| | |exact H]; lia.
Qed.

Lemma stmt_iter_continue_rem f s0 d op s1 d1 o1 :
  stmt_iter o nested f s0 d op = Ok (Continue s1 d1 o1) -> 1 <= rem s0.
Proof.
  unfold stmt_iter. intros H. inv_bind H. destruct a as [[c|] s]; [eapply next_some_rem; eauto|].
  destruct (0 <? d); [apply fail_not_ok in H; contradiction|]. destruct (0 <? pos s); discriminate.
Qed.

Lemma stmt_loop_nf lf : forall s d op,
  starts_space (input s) = false -> delim s <> [] -> (0 < lf)%nat ->
  rem s < Z.of_nat lf -> rem s + 1 <= Z.of_nat fn ->
  stmt_loop o nested lf s d op <> OutOfFuel.
Proof.
  induction lf as [|lf IH]; intros s d op Hns Hd Hlf Hr Hn H; simpl in H; [lia|].
  nf_bind H; [eapply stmt_iter_nf; [| |exact H]; lia|].
  pose proof (stmt_iter_spec o nested nested_mono _ _ _ _ _ Ha Hns Hd) as Hit.
  destruct a as [s1 d1 o1|s1 text|s1].
  - pose proof (stmt_iter_continue_rem _ _ _ _ _ _ _ Ha) as Hr1.
    destruct Hit as [[A Hlt]|[(S1 & S2 & S3 & S4 & S5) [Hp0 Hlen]]].
    + destruct A as (A1 & A2 & A3 & A4). eapply IH; [| | | | |exact H]; unfold rem in *; rewrite ?A1, ?A2; auto; lia.
    + eapply IH; [| | | | |exact H]; auto; unfold rem in *; lia.
  - nf_bind H; [apply emit_nf in H; auto|discriminate].
  - discriminate.
Qed.
End NestedNF.

Section StmtNF.
Variable o : opts.

Lemma stmt_prog f b b' st : pos b = 0 -> delim b <> [] -> stmt o f b = Ok (b', Some st) ->
  zlen (input b') < zlen (input b).
Proof.
  intros Hp Hd H. destruct (stmt_spec o _ _ _ _ H Hp Hd) as (_ & _ & _ & g & raw & go & Hin & _ & _ & Hne & _).
  rewrite Hin, !zlen_app. pose proof (zlen_nonneg g). pose proof (zlen_nonneg raw). pose proof (zlen_nonneg go).
  assert (zlen (raw ++ go) <> 0) as Hnz by (intros Hz; apply zlen_zero in Hz; congruence).
  rewrite zlen_app in Hnz. lia.
Qed.
Lemma stmt_mono f b b' r : pos b = 0 -> delim b <> [] -> stmt o f b = Ok (b', r) ->
  total b <= total b' /\ pos b' = 0 /\ delim b' <> [] /\
  (forall st, r = Some st -> total b + zlen (Text st) <= total b').
Proof.
  intros Hp Hd H. eapply (StmtResult_mono o); [eapply (stmt_spec o); eauto|reflexivity|reflexivity].
Qed.

Lemma stmt_nf f : forall s, pos s = 0 -> delim s <> [] -> zlen (input s) + 2 <= Z.of_nat f ->
  stmt o f s <> OutOfFuel.
Proof.
  induction f as [|f IH]; intros s Hp Hd Hl H; [pose proof (zlen_nonneg (input s)); lia|].
  cbn [stmt] in H.
  destruct (trim_left_decomp (input s)) as (sp & Hsp & Hsp2 & Hsp3).
  assert (zlen (trim_left_space (input s)) <= zlen (input s)) as Hle.
  { rewrite Hsp at 2. rewrite zlen_app. pose proof (zlen_nonneg sp). lia. }
  pose proof (zlen_nonneg (trim_left_space (input s))) as Hnn.
  eapply (stmt_loop_nf o (stmt o f) f); [| | | | | | | |exact H].
  - intros b b' r. apply stmt_mono.
  - intros b b' st. apply stmt_prog.
  - intros b Hb1 Hb2 Hb3. apply IH; auto.
  - exact Hsp3.
  - exact Hd.
  - lia.
  - unfold rem, skipSpaces; simpl. lia.
  - unfold rem, skipSpaces; simpl. lia.
Qed.

Lemma scan_loop_nf f : forall s acc, pos s = 0 -> delim s <> [] -> zlen (input s) + 2 <= Z.of_nat f ->
  scan_loop o f s acc <> OutOfFuel.
Proof.
  induction f as [|f IH]; intros s acc Hp Hd Hl H; [pose proof (zlen_nonneg (input s)); lia|].
  cbn [scan_loop] in H. nf_bind H; [eapply stmt_nf; [| | |exact H]; auto|].
  destruct a as [s1 [st|]]; [|discriminate].
  destruct (stmt_mono _ _ _ _ Hp Hd Ha) as (_ & M2 & M3 & _). pose proof (stmt_prog _ _ _ _ Hp Hd Ha).
  eapply IH; [| | |exact H]; auto. lia.
Qed.

Theorem Scan_terminates inp : Scan o (fuel_of inp) inp <> OutOfFuel.
Proof.
  unfold Scan. intros H. nf_bind H; [apply init_nf in H; auto|].
  destruct (init_total _ _ _ Ha) as (_ & T2 & T3). pose proof (init_input_len _ _ _ Ha).
  eapply scan_loop_nf; [| | |exact H]; auto. unfold fuel_of, zlen in *. lia.
Qed.
End StmtNF.

(** * Crash freedom: no checked slice ever leaves its bounds *)
Definition wf (s : scanner) : Prop :=
  0 <= pos s <= zlen (input s) /\ zlen (input s) <= zlen (src s) /\
  total s = zlen (src s) - zlen (input s) + pos s.

(** [safe r P]: [r] is not [Panic], and [P] holds of an [Ok] result. *)
Definition safe {A} (r : res A) (P : A -> Prop) : Prop :=
  match r with Ok a => P a | Err _ => True | Panic => False | OutOfFuel => True end.

Lemma safe_bind {A B} (x : res A) (f : A -> res B) (P : A -> Prop) (Q : B -> Prop) :
  safe x P -> (forall a, x = Ok a -> P a -> safe (f a) Q) -> safe (bind x f) Q.
Proof. destruct x; simpl; auto. Qed.
Lemma safe_weaken {A} (r : res A) (P Q : A -> Prop) : safe r P -> (forall a, r = Ok a -> P a -> Q a) -> safe r Q.
Proof. destruct r; simpl; auto. Qed.
Lemma safe_ok {A} (r : res A) P a : safe r P -> r = Ok a -> P a.
Proof. intros H ->. exact H. Qed.

Lemma slice_from_safe s p : 0 <= p <= zlen s -> safe (slice_from s p) (fun r => r = skipn (Z.to_nat p) s).
Proof.
  intros H. unfold slice_from. destruct (p <? 0) eqn:E1; [bnorm; lia|]. destruct (zlen s <? p) eqn:E2; [bnorm; lia|].
  simpl. reflexivity.
Qed.
Lemma slice_to_safe s p : 0 <= p <= zlen s -> safe (slice_to s p) (fun r => r = firstn (Z.to_nat p) s).
Proof.
  intros H. unfold slice_to. destruct (p <? 0) eqn:E1; [bnorm; lia|]. destruct (zlen s <? p) eqn:E2; [bnorm; lia|].
  simpl. reflexivity.
Qed.
Lemma slice_safe s p q : 0 <= p <= q -> q <= zlen s -> safe (slice s p q) (fun _ => True).
Proof.
  intros H1 H2. unfold slice. destruct (p <? 0) eqn:E1; [bnorm; lia|]. destruct (q <? p) eqn:E2; [bnorm; lia|].
  destruct (zlen s <? q) eqn:E3; [bnorm; lia|]. simpl. exact I.
Qed.
Lemma index_safe s i : 0 <= i < zlen s -> safe (index s i) (fun _ => True).
Proof.
  intros H. unfold index. destruct (i <? 0) eqn:E1; [bnorm; lia|]. destruct (zlen s <=? i) eqn:E2; [bnorm; lia|].
  simpl. destruct (nth_error s (Z.to_nat i)) eqn:E; [exact I|].
  apply nth_error_None in E. unfold zlen in H. lia.
Qed.

Lemma fail_safe {A} s p0 k (P : A -> Prop) : wf s -> 0 <= p0 <= zlen (input s) -> safe (@fail A s p0 k) P.
Proof.
  intros (W1 & W2 & W3) Hp. unfold fail, error_at.
  pose proof (slice_to_safe (src s) (zlen (src s) - zlen (input s) + p0) ltac:(lia)) as Hs.
  destruct (slice_to (src s) _); simpl in *; auto.
Qed.
Lemma nfail_safe s p0 k (P : scanner -> Prop) : wf s -> 0 <= p0 <= zlen (input s) -> P s ->
  safe (nfail s p0 k) (fun r => P (fst r)).
Proof.
  intros (W1 & W2 & W3) Hp HP. unfold nfail, error_at.
  pose proof (slice_to_safe (src s) (zlen (src s) - zlen (input s) + p0) ltac:(lia)) as Hs.
  destruct (slice_to (src s) _); simpl in *; auto.
Qed.

Lemma wf_addPos s k : wf s -> 0 <= pos s + k <= zlen (input s) -> wf (addPos s k).
Proof. intros (W1 & W2 & W3) H. unfold wf, addPos; simpl. repeat split; lia. Qed.
Lemma wf_set_width s w : wf s -> wf (set_width s w).
Proof. intros W. exact W. Qed.

(** [next] never fails on a well-formed scanner. *)
Lemma next_safe s : wf s -> exists r s', next s = Ok (r, s') /\ wf s' /\ src s' = src s.
Proof.
  intros W. pose proof W as (W1 & W2 & W3). unfold next. destruct (zlen (input s) <=? pos s) eqn:E.
  - exists None, s. split; [reflexivity|split; [exact W|reflexivity]].
  - bnorm. unfold slice_from. destruct (pos s <? 0) eqn:E1; [bnorm; lia|].
    destruct (zlen (input s) <? pos s) eqn:E2; [bnorm; lia|].
    remember (skipn (Z.to_nat (pos s)) (input s)) as rest eqn:Hs.
    simpl. destruct (decode_rune rest) as [r w] eqn:D.
    assert (rest <> []) as Hne.
    { intros ->. symmetry in Hs. apply (f_equal (@length N)) in Hs. rewrite skipn_length in Hs.
      unfold zlen in *. simpl in Hs. lia. }
    destruct (decode_rune_spec _ _ _ D Hne) as [Hw _].
    exists (Some r), (addPos (set_width s w) w). split; [reflexivity|]. split; [|reflexivity].
    apply wf_addPos; [exact W|]. simpl. rewrite Hs, zlen_skipn in Hw by lia. lia.
Qed.
Lemma pick_safe s : wf s -> exists r, pick s = Ok r.
Proof. intros W. destruct (next_safe s W) as (r & s' & H & _). unfold pick. rewrite H. simpl. eauto. Qed.

Ltac use_next s W :=
  let r := fresh "r" in let s1 := fresh "s" in let Hn := fresh "Hn" in let W1 := fresh "W" in let Hsrc := fresh "Hsrc" in
  destruct (next_safe s W) as (r & s1 & Hn & W1 & Hsrc); rewrite Hn; cbn [bind].

Lemma skipQuote_loop_safe f : forall s p0 q e, wf s -> 0 <= p0 <= zlen (input s) ->
  safe (skipQuote_loop f s p0 q e) (fun s' => wf s' /\ src s' = src s).
Proof.
  induction f as [|f IH]; intros s p0 q e W Hp; simpl; [exact I|].
  destruct (next_safe s W) as (r & s1 & Hn & W1 & Hsrc). rewrite Hn. cbn [bind].
  pose proof (next_adv _ _ _ Hn) as (A1 & _).
  destruct r as [c|].
  - destruct (N.eqb c 92 && e).
    + destruct (next_safe s1 W1) as (r2 & s2 & Hn2 & W2 & Hsrc2). rewrite Hn2. cbn [bind snd].
      pose proof (next_adv _ _ _ Hn2) as (A2 & _).
      eapply safe_weaken; [apply IH; [exact W2|rewrite A2, A1; exact Hp]|].
      intros a _ [? ?]. split; [auto|congruence].
    + destruct (N.eqb c q); [simpl; auto|].
      eapply safe_weaken; [apply IH; [exact W1|rewrite A1; exact Hp]|]. intros a _ [? ?]. split; [auto|congruence].
  - apply fail_safe; [exact W1|rewrite A1; exact Hp].
Qed.
Lemma skipQuote_safe o f s q : wf s -> safe (skipQuote o f s q) (fun s' => wf s' /\ src s' = src s).
Proof.
  intros W. pose proof W as (W1 & W2 & W3). unfold skipQuote.
  eapply safe_bind with (P := fun _ => True).
  - destruct (BackslashEscapes o); [exact I|]. destruct (EscapedStringExt o && (0 <? pos s)) eqn:E; [|exact I].
    bnorm. eapply safe_bind; [apply index_safe; lia|]. intros; exact I.
  - intros a _ _. apply skipQuote_loop_safe; [exact W|lia].
Qed.

Lemma skipDollarQuote_loop_safe f : forall s m, wf s ->
  safe (skipDollarQuote_loop f s m) (fun s' => wf s' /\ src s' = src s).
Proof.
  induction f as [|f IH]; intros s m W; simpl; [exact I|].
  destruct (next_safe s W) as (r & s1 & Hn & W1 & Hsrc). rewrite Hn. cbn [bind].
  destruct r as [c|].
  - assert (1 <= pos s1) as Hp1.
    { apply next_some in Hn as (rest & w & H1 & H2 & H3 & -> & H4).
      destruct (decode_rune_spec _ _ _ H3 H2) as [Hw _]. simpl. lia. }
    destruct (N.eqb c 36).
    + pose proof W1 as (V1 & V2 & V3).
      eapply safe_bind; [apply slice_from_safe; lia|]. intros tl _ ->.
      destruct (has_prefix _ m) eqn:Ep.
      * simpl. split; [|exact Hsrc]. apply wf_addPos; [exact W1|].
        apply has_prefix_app in Ep as [r Hr]. apply (f_equal zlen) in Hr.
        rewrite zlen_skipn, zlen_app in Hr by lia. pose proof (zlen_nonneg r). pose proof (zlen_nonneg m). lia.
      * eapply safe_weaken; [apply IH; exact W1|]. intros a _ [? ?]. split; [auto|congruence].
    + eapply safe_weaken; [apply IH; exact W1|]. intros a _ [? ?]. split; [auto|congruence].
  - destruct (delim s1); [apply fail_safe; [exact W1|apply W1]|simpl; auto].
Qed.
Lemma skipDollarQuote_safe f s : wf s -> 1 <= pos s ->
  safe (skipDollarQuote f s) (fun s' => wf s' /\ src s' = src s).
Proof.
  intros W Hp. pose proof W as (W1 & W2 & W3). unfold skipDollarQuote.
  eapply safe_bind; [apply slice_from_safe; lia|]. intros tl _ ->.
  destruct (re_dollar_quote _) as [n|] eqn:E; [|apply fail_safe; [exact W|lia]].
  eapply safe_weaken; [apply skipDollarQuote_loop_safe|intros a _ [? ?]; split; [auto|simpl in *; congruence]].
  apply wf_addPos; [exact W|].
  apply re_dollar_quote_some in E as [Hn Hne].
  set (tl := skipn (Z.to_nat (pos s - 1)) (input s)) in *.
  assert (1 <= zlen (firstn n tl) <= zlen tl) as Hm.
  { unfold zlen. rewrite firstn_length. destruct tl; [congruence|simpl]. lia. }
  unfold tl in Hm. rewrite (zlen_skipn (input s) (pos s - 1)) in Hm by lia. fold tl in Hm. lia.
Qed.

Lemma to_eol_loop_safe f : forall s r, wf s -> safe (to_eol_loop f s r) (fun s' => wf s' /\ src s' = src s /\ input s' = input s /\ pos s <= pos s').
Proof.
  induction f as [|f IH]; intros s r W; simpl; [exact I|].
  destruct r as [c|]; [|simpl; split; [exact W|repeat split; lia]].
  destruct (N.eqb c 10); [simpl; split; [exact W|repeat split; lia]|].
  destruct (next_safe s W) as (r1 & s1 & Hn & W1 & Hsrc). rewrite Hn. cbn [bind snd fst].
  pose proof (next_adv _ _ _ Hn) as (A1 & _ & _ & A4).
  eapply safe_weaken; [apply IH; exact W1|]. intros a _ (? & ? & ? & ?). split; [assumption|split; [congruence|split; [congruence|lia]]].
Qed.

Lemma wf_skipSpaces s : wf s -> pos s = 0 -> wf (skipSpaces s).
Proof.
  intros (W1 & W2 & W3) Hp. destruct (trim_left_decomp (input s)) as (sp & Hsp & _ & _).
  assert (zlen (input s) = zlen sp + zlen (trim_left_space (input s))) as Hz by (rewrite Hsp at 1; apply zlen_app).
  pose proof (zlen_nonneg sp). pose proof (zlen_nonneg (trim_left_space (input s))).
  unfold wf, skipSpaces; simpl. repeat split; lia.
Qed.

Lemma comment_safe s l r : wf s -> safe (comment s l r) (fun s' => wf s' /\ src s' = src s).
Proof.
  intros W. pose proof W as (W1 & W2 & W3). unfold comment.
  eapply safe_bind; [apply slice_from_safe; lia|]. intros tl _ ->.
  destruct (index_of _ r) as [i|] eqn:Ei; [|simpl; auto].
  pose proof (index_of_spec _ _ _ Ei) as [Hpre Hi]. apply has_prefix_app in Hpre as [rr Hrr].
  apply (f_equal zlen) in Hrr. rewrite zlen_app in Hrr. unfold zlen in Hrr at 1. rewrite skipn_length in Hrr.
  fold (zlen (skipn (Z.to_nat (pos s)) (input s))) in *.
  assert (zlen (skipn (Z.to_nat (pos s)) (input s)) = zlen (input s) - pos s) as Hzs by (apply zlen_skipn; lia).
  unfold zlen in Hzs at 1. pose proof (zlen_nonneg rr). pose proof (zlen_nonneg r).
  assert (wf (addPos s (Z.of_nat i + zlen r))) as Wa by (apply wf_addPos; [exact W|lia]).
  destruct (negb _); [simpl; auto|].
  pose proof Wa as (U1 & U2 & U3).
  eapply safe_bind; [apply slice_to_safe; lia|]. intros c _ _.
  eapply safe_bind; [apply slice_from_safe; lia|]. intros rest _ Hrest.
  assert (zlen rest = zlen (input s) - pos (addPos s (Z.of_nat i + zlen r))) as Hzr.
  { rewrite Hrest. apply zlen_skipn. exact U1. }
  simpl. match goal with |- context[skipSpaces (if ?b then _ else _)] => destruct b end;
  (split; [apply wf_skipSpaces; [|reflexivity]; unfold wf; simpl in *; repeat split; try lia|reflexivity]).
Qed.

Lemma emit_safe o s t : wf s -> safe (emit o s t) (fun r => wf (snd r) /\ src (snd r) = src s /\ pos (snd r) = 0 /\ delim (snd r) = delim s).
Proof.
  intros W. pose proof W as (W1 & W2 & W3). unfold emit.
  eapply safe_bind; [apply slice_from_safe; lia|]. intros rest _ Hrest.
  assert (zlen rest = zlen (input s) - pos s) as Hzr by (rewrite Hrest; apply zlen_skipn; exact W1).
  simpl. unfold wf; simpl. repeat split; try lia.
Qed.

Lemma delim_of_arg_safe raw : safe (delim_of_arg raw) (fun _ => True).
Proof.
  unfold delim_of_arg. destruct ((1 <? zlen (trim_space raw)) && _ && _) eqn:E; [|exact I].
  bnorm. eapply safe_bind; [apply slice_safe; lia|]. intros; exact I.
Qed.

Lemma delimCmd_safe o f s : wf s -> 9 <= pos s ->
  safe (delimCmd o f s) (fun s' => wf s' /\ src s' = src s /\ (pos s' = 0 \/ s' = s)).
Proof.
  intros W Hp. unfold delimCmd.
  destruct (pick_safe s W) as (r & Hr). rewrite Hr. cbn [bind].
  destruct (negb (rune_is r 32)); [simpl; auto|].
  cbn [bind].
  eapply safe_bind; [apply to_eol_loop_safe; exact W|]. intros s1 _ (W1 & S1 & I1 & P1).
  pose proof W1 as (V1 & V2 & V3).
  eapply safe_bind; [apply slice_safe; change (zlen S_DELIMITER) with 9; lia|]. intros raw _ _.
  eapply safe_bind; [apply delim_of_arg_safe|]. intros d' _ _.
  unfold setDelim. destruct d' as [|d1 d2]; [exact I|]. cbn [bind].
  eapply safe_bind; [apply slice_to_safe; simpl; lia|]. intros txt _ _.
  eapply safe_bind; [apply (emit_safe o (set_delim s1 (unescape_delim (d1 :: d2)))); exact W1|].
  intros es _ (E1 & E2 & E3 & E4). simpl. split; [exact E1|]. split; [simpl in E2; congruence|left; exact E3].
Qed.

Lemma init_safe s0 inp :
  safe (init s0 inp) (fun s => wf s /\ pos s = 0 /\ src s = inp /\ delim s <> []).
Proof.
  unfold init. destruct (directive_delimiter inp) as [d|].
  - unfold setDelim. destruct d as [|d1 d2]; [exact I|]. cbn [bind].
    destruct (index_of inp NL) as [i|].
    + simpl. unfold wf; simpl. pose proof (zlen_nonneg (skipn (S i) inp)).
      assert (zlen (skipn (S i) inp) <= zlen inp) by (unfold zlen; rewrite skipn_length; lia).
      repeat split; try lia. apply unescape_delim_nonnil. discriminate.
    + apply fail_safe; [unfold wf; simpl; pose proof (zlen_nonneg inp); lia|simpl; pose proof (zlen_nonneg inp); lia].
  - simpl. unfold wf; simpl. pose proof (zlen_nonneg inp). repeat split; try lia. discriminate.
Qed.

Lemma skip_s_len s n r : skip_s s = (n, r) -> length s = (n + length r)%nat.
Proof.
  revert n r; induction s as [|a t IH]; intros n r; simpl.
  - intros H; inversion H; reflexivity.
  - destruct (re_s a); [|intros H; inversion H; reflexivity].
    destruct (skip_s t) as [n0 r0]. intros H; inversion H; subst. rewrite (IH _ _ eq_refl). reflexivity.
Qed.
Lemma skip_s1_len s n r : skip_s1 s = Some (n, r) -> length s = (n + length r)%nat.
Proof.
  unfold skip_s1. destruct (skip_s s) as [[|n0] r0] eqn:E; [discriminate|]. intros H; inversion H; subst.
  apply skip_s_len; exact E.
Qed.
Lemma has_prefix_ci_len s w : has_prefix_ci s w = true -> (length w <= length s)%nat.
Proof.
  revert s; induction w as [|b w IH]; intros s; simpl; [lia|].
  destruct s as [|a s]; [discriminate|]. rewrite andb_true_iff. intros [_ H]. apply IH in H. simpl. lia.
Qed.
Lemma word_ci_len2 w s n r : word_ci w s = Some (n, r) -> length s = (n + length r)%nat.
Proof.
  unfold word_ci. destruct (has_prefix_ci s w) eqn:E; [|discriminate]. intros H; inversion H; subst.
  apply has_prefix_ci_len in E. rewrite skipn_length. lia.
Qed.
Lemma re_begin_len s n : re_begin s = Some n -> (n <= length s)%nat.
Proof.
  unfold re_begin. destruct (skip_s s) as [n0 r0] eqn:E0. destruct (word_ci W_BEGIN r0) as [[n1 r1]|] eqn:E1; [|discriminate].
  destruct (skip_s1 r1) as [[n2 r2]|] eqn:E2; [|discriminate]. intros H; inversion H.
  apply skip_s_len in E0. apply word_ci_len2 in E1. apply skip_s1_len in E2. lia.
Qed.
Lemma re_begin_word_len w s n : re_begin_word w s = Some n -> (n <= length s)%nat.
Proof.
  unfold re_begin_word. destruct (skip_s s) as [n0 r0] eqn:E0. destruct (word_ci W_BEGIN r0) as [[n1 r1]|] eqn:E1; [|discriminate].
  destruct (skip_s1 r1) as [[n2 r2]|] eqn:E2; [|discriminate].
  destruct (word_ci w r2) as [[n3 r3]|] eqn:E3; [|discriminate].
  destruct (skip_s1 r3) as [[n4 r4]|] eqn:E4; [|discriminate]. intros H; inversion H.
  apply skip_s_len in E0. apply word_ci_len2 in E1. apply skip_s1_len in E2.
  apply word_ci_len2 in E3. apply skip_s1_len in E4. lia.
Qed.

Section NestedSafe.
Variable o : opts.
Variable nested : scanner -> res (scanner * option Stmt).
Hypothesis nested_safe : forall b, wf b -> pos b = 0 -> delim b <> [] ->
  safe (nested b) (fun r => wf (fst r) /\ src (fst r) = src b /\ pos (fst r) = 0 /\ delim (fst r) <> []).

Definition same (s s' : scanner) : Prop := wf s' /\ src s' = src s /\ input s' = input s /\ pos s <= pos s'.

Lemma total_bound b : wf b -> pos b = 0 -> 0 <= total b <= zlen (src b).
Proof. intros (W1 & W2 & W3) Hp. pose proof (zlen_nonneg (input b)). lia. Qed.

Lemma atomic_loop_safe f : forall s body, wf s -> wf body -> pos body = 0 -> delim body <> [] ->
  zlen (src body) <= zlen (input s) - pos s ->
  safe (atomic_loop nested f s body) (fun r => same s (fst r)).
Proof.
  induction f as [|f IH]; intros s body W Wb Hp Hd Hl; simpl; [exact I|].
  pose proof (nested_safe body Wb Hp Hd) as Hn. pose proof W as (W1 & W2 & W3).
  assert (same s s) as Hss by (unfold same; repeat split; auto; lia).
  destruct (nested body) as [[body' [st|]]|e| |]; simpl in Hn; try contradiction.
  - destruct Hn as (Wb' & Sb' & Pb' & Db').
    destruct (re_end (Text st)).
    + simpl. pose proof (total_bound _ Wb' Pb') as Tb. rewrite Sb' in Tb. unfold same; simpl. split; [apply wf_addPos; [exact W|]; lia|].
      repeat split; lia.
    + apply IH; auto. congruence.
  - apply (nfail_safe s (pos s) EEofBody (same s)); auto.
  - apply (nfail_safe s (pos s) EScanBody (same s)); auto.
  - exact I.
Qed.
Lemma begin_loop_safe f : forall s body, wf s -> wf body -> pos body = 0 -> delim body <> [] ->
  zlen (src body) <= zlen (input s) - pos s ->
  safe (begin_loop o nested f s body) (fun r => same s (fst r)).
Proof.
  induction f as [|f IH]; intros s body W Wb Hp Hd Hl; simpl; [exact I|].
  pose proof (nested_safe body Wb Hp Hd) as Hn. pose proof W as (W1 & W2 & W3).
  assert (same s s) as Hss by (unfold same; repeat split; auto; lia).
  destruct (nested body) as [[body' [st|]]|e| |]; simpl in Hn; try contradiction.
  - destruct Hn as (Wb' & Sb' & Pb' & Db').
    assert (same s (addPos s (total body'))) as Hadd.
    { pose proof (total_bound _ Wb' Pb') as Tb. rewrite Sb' in Tb. unfold same; simpl. split; [apply wf_addPos; [exact W|]; lia|].
      repeat split; lia. }
    destruct (re_end (Text st)).
    + destruct (_ || _); [exact Hadd|apply IH; auto; congruence].
    + destruct (_ && _); [exact Hadd|apply IH; auto; congruence].
  - apply (nfail_safe s (pos s) EEofCompound (same s)); auto.
  - apply (nfail_safe s (pos s) EScanCompound (same s)); auto.
  - exact I.
Qed.

Lemma same_trans a b c : same a b -> same b c -> same a c.
Proof. unfold same. intros (?&?&?&?) (?&?&?&?). split; [assumption|split; [congruence|split; [congruence|lia]]]. Qed.

Lemma block_safe (re : bytes -> option nat) (loop : nat -> scanner -> scanner -> nres) et kmiss f s :
  (forall t n, re t = Some n -> (1 <= n <= length t)%nat) ->
  (forall f s body, wf s -> wf body -> pos body = 0 -> delim body <> [] ->
     zlen (src body) <= zlen (input s) - pos s -> safe (loop f s body) (fun r => same s (fst r))) ->
  wf s -> 1 <= pos s ->
  safe (do tl <- slice_from (input s) (pos s - 1);
        match re tl with
        | None => nfail s (pos s) kmiss
        | Some n =>
          let s1 := addPos s (Z.of_nat n - 1) in
          do bi <- slice_from (input s1) (pos s1);
          match init (new_scanner et) bi with
          | Ok body => loop f s1 body
          | Err e => Ok (s1, Some e)
          | Panic => Panic
          | OutOfFuel => OutOfFuel
          end
        end) (fun r => same s (fst r)).
Proof.
  intros Hre Hloop W Hp. pose proof W as (W1 & W2 & W3).
  assert (same s s) as Hss by (unfold same; repeat split; auto; lia).
  eapply safe_bind; [apply slice_from_safe; lia|]. intros tl _ Htl.
  destruct (re tl) as [n|] eqn:E; [|apply (nfail_safe s (pos s) kmiss (same s)); auto; lia].
  apply Hre in E. assert (zlen tl = zlen (input s) - (pos s - 1)) as Hzt by (rewrite Htl; apply zlen_skipn; lia).
  unfold zlen in Hzt at 1.
  assert (same s (addPos s (Z.of_nat n - 1))) as Hs1.
  { unfold same; simpl. split; [apply wf_addPos; [exact W|]; lia|]. repeat split; lia. }
  cbv zeta. destruct Hs1 as (Ws1 & Ss1 & Is1 & Ps1). pose proof Ws1 as (U1 & U2 & U3).
  eapply safe_bind; [apply slice_from_safe; exact U1|]. intros bi _ Hbi.
  assert (zlen bi = zlen (input (addPos s (Z.of_nat n - 1))) - pos (addPos s (Z.of_nat n - 1))) as Hzb
    by (rewrite Hbi; apply zlen_skipn; exact U1).
  pose proof (init_safe (new_scanner et) bi) as Hi.
  destruct (init (new_scanner et) bi) as [body|e| |]; simpl in Hi; try contradiction.
  - destruct Hi as (Wb & Pb & Sb & Db).
    eapply safe_weaken; [apply Hloop; auto; rewrite Sb; lia|].
    intros r _ Hr. eapply same_trans; [|exact Hr]. unfold same. split; [exact Ws1|auto].
  - simpl. unfold same. split; [exact Ws1|auto].
  - exact I.
Qed.

Lemma skipBeginAtomic_safe f s : wf s -> 1 <= pos s ->
  safe (skipBeginAtomic nested f s) (fun r => same s (fst r)).
Proof.
  intros W Hp. unfold skipBeginAtomic.
  apply (block_safe re_begin_atomic (atomic_loop nested) false EMissingBeginAtomic); auto.
  - intros t n E. split; [eapply re_begin_word_pos; exact E|eapply re_begin_word_len; exact E].
  - intros. apply atomic_loop_safe; auto.
Qed.
Lemma skipBegin_safe f s : wf s -> 1 <= pos s ->
  safe (skipBegin o nested f s) (fun r => same s (fst r)).
Proof.
  intros W Hp. unfold skipBegin.
  apply (block_safe re_begin (begin_loop o nested) (BeginEndTerminator o) EMissingBegin); auto.
  - intros t n E. split; [eapply re_begin_pos; exact E|eapply re_begin_len; exact E].
  - intros. apply begin_loop_safe; auto.
Qed.

Lemma after_block_safe r d op s :
  safe r (fun x => same s (fst x)) ->
  safe (after_block r d op) (fun st => match st with
                                        | Continue s1 _ _ => same s s1
                                        | Break s1 _ => same s s1
                                        | RetEOF _ => False end).
Proof.
  intros Hr. unfold after_block. eapply safe_bind; [exact Hr|]. intros [s1 [e|]] _ Hs; simpl in Hs.
  - simpl. exact Hs.
  - pose proof Hs as ((U1 & _) & _). eapply safe_bind; [apply slice_to_safe; exact U1|]. intros t _ _. simpl. exact Hs.
Qed.
End NestedSafe.

Section NestedSafeTC.
Variable o : opts.
Variable nested : scanner -> res (scanner * option Stmt).
Hypothesis nested_safe : forall b, wf b -> pos b = 0 -> delim b <> [] ->
  safe (nested b) (fun r => wf (fst r) /\ src (fst r) = src b /\ pos (fst r) = 0 /\ delim (fst r) <> []).
Hypothesis nested_mono : forall b b' r, pos b = 0 -> delim b <> [] -> nested b = Ok (b', r) ->
  total b <= total b' /\ pos b' = 0 /\ delim b' <> [] /\
  (forall st, r = Some st -> total b + zlen (Text st) <= total b').

Lemma trycatch_loop_safe f : forall s body, wf s -> wf body -> pos body = 0 -> delim body <> [] ->
  zlen (src body) <= zlen (input s) - pos s ->
  safe (trycatch_loop nested f s body) (fun r => same s (fst r)).
Proof.
  induction f as [|f IH]; intros s body W Wb Hp Hd Hl; simpl; [exact I|].
  pose proof (nested_safe body Wb Hp Hd) as Hn. pose proof W as (W1 & W2 & W3).
  assert (same s s) as Hss by (unfold same; repeat split; auto; lia).
  destruct (nested body) as [[body' [st|]]|e| |] eqn:En; simpl in Hn; try contradiction.
  - destruct Hn as (Wb' & Sb' & Pb' & Db').
    destruct (nested_mono _ _ _ Hp Hd En) as (_ & _ & _ & M4). specialize (M4 _ eq_refl).
    pose proof Wb as (B1 & B2 & B3). pose proof Wb' as (C1 & C2 & C3). rewrite Sb' in *.
    pose proof (zlen_nonneg (input body)). pose proof (zlen_nonneg (input body')).
    destruct (re_end_catch (Text st)) as [n|].
    + simpl.
      pose proof (firstn_zlen_le (Text st) n). pose proof (zlen_nonneg (firstn n (Text st))).
      destruct (has_suffix _ _); unfold same, wf, addPos; simpl; repeat split; lia.
    + apply IH; auto. congruence.
  - apply (nfail_safe s (pos s) EEofBody (same s)); auto.
  - apply (nfail_safe s (pos s) EScanBody (same s)); auto.
  - exact I.
Qed.
Lemma skipBeginTryCatch_safe f s : wf s -> 1 <= pos s ->
  safe (skipBeginTryCatch nested f s) (fun r => same s (fst r)).
Proof.
  intros W Hp. unfold skipBeginTryCatch.
  apply (block_safe nested nested_safe re_begin_try (trycatch_loop nested) false EMissingBeginTry); auto.
  - intros t n E. split; [eapply re_begin_word_pos; exact E|eapply re_begin_word_len; exact E].
  - intros. apply trycatch_loop_safe; auto.
Qed.
End NestedSafeTC.

Lemma skipGoCount_safe f s : wf s -> safe (skipGoCount f s) (fun s' => wf s' /\ src s' = src s /\ input s' = input s).
Proof.
  intros W. unfold skipGoCount. destruct (pick_safe s W) as (r & Hr). rewrite Hr. cbn [bind].
  destruct (rune_is r 32); [|simpl; auto]. cbv zeta. cbn [bind].
  eapply safe_bind; [apply to_eol_loop_safe; exact W|]. intros s1 _ (W1 & S1 & I1 & P1).
  pose proof W as (V1 & _). pose proof W1 as (U1 & _).
  eapply safe_bind; [apply slice_safe; lia|]. intros raw _ _.
  destruct (atoi_ok _); simpl; auto.
Qed.

Section IterSafe.
Variable o : opts.
Variable nested : scanner -> res (scanner * option Stmt).

(** how [depth] / [openingPos] evolve over one iteration *)
Lemma stmt_iter_depth f s0 depth opos s1 d1 o1 :
  stmt_iter o nested f s0 depth opos = Ok (Continue s1 d1 o1) ->
  (d1 = depth /\ o1 = opos) \/
  (d1 = depth + 1 /\ o1 = (if depth =? 0 then pos s1 else opos) /\ 1 <= pos s1) \/
  (depth <> 0 /\ d1 = depth - 1 /\ o1 = opos).
Proof.
  unfold stmt_iter, after_block. intros H.
  repeat match type of H with
  | bind _ _ = Ok _ => let a := fresh "a" in let Ha := fresh "Ha" in apply bind_ok in H; destruct H as (a & Ha & H)
  | (let '(_, _) := ?x in _) = Ok _ => destruct x
  | (if ?c then _ else _) = Ok _ => destruct c eqn:?
  | match ?x with _ => _ end = Ok _ => destruct x eqn:?
  | fail _ _ _ = Ok _ => apply fail_not_ok in H; contradiction
  end; try discriminate;
  try (injection H as <- <- <-;
       first [left; split; reflexivity
             | right; left; split; [reflexivity|split; [reflexivity|]];
               match goal with Hx : next _ = Ok (Some _, _) |- _ =>
                 apply next_some in Hx as (rest & w & X1 & X2 & X3 & -> & X4);
                 destruct (decode_rune_spec _ _ _ X3 X2) as [Xw _]; simpl; lia end
             | right; right; bnorm; repeat split; auto]).
Qed.

Hypothesis nested_safe : forall b, wf b -> pos b = 0 -> delim b <> [] ->
  safe (nested b) (fun r => wf (fst r) /\ src (fst r) = src b /\ pos (fst r) = 0 /\ delim (fst r) <> []).
Hypothesis nested_mono_s : forall b b' r, pos b = 0 -> delim b <> [] -> nested b = Ok (b', r) ->
  total b <= total b' /\ pos b' = 0 /\ delim b' <> [] /\
  (forall st, r = Some st -> total b + zlen (Text st) <= total b').

Lemma wf_skipSpaces_id s : wf s -> starts_space (input s) = false -> wf (skipSpaces s).
Proof.
  intros (W1 & W2 & W3) H. unfold wf, skipSpaces; simpl. rewrite (trim_left_id _ H). repeat split; lia.
Qed.

Definition step_state (st : step) : scanner :=
  match st with Continue s _ _ => s | Break s _ => s | RetEOF s => s end.

Lemma safe_const {A} (x : res A) (P : A -> Prop) : (forall a, x = Ok a -> P a) -> x <> Panic -> safe x P.
Proof. destruct x; simpl; auto. Qed.

Lemma stmt_iter_safe f s0 depth opos :
  wf s0 -> starts_space (input s0) = false -> (0 < depth -> 0 <= opos <= zlen (input s0)) ->
  safe (stmt_iter o nested f s0 depth opos) (fun st => wf (step_state st) /\ src (step_state st) = src s0).
Proof.
  intros W Hns Hop. unfold stmt_iter.
  destruct (next_safe s0 W) as (r & s & Hn & Ws & Hsrc). rewrite Hn. cbn [bind].
  destruct r as [c|].
  2:{ apply next_none in Hn as [-> _]. destruct (0 <? depth) eqn:E; [bnorm; apply fail_safe; auto|].
      destruct (0 <? pos s0); simpl; auto. }
  pose proof (next_some _ _ _ Hn) as (rest & w & H1 & H2 & H3 & Hs & H4).
  destruct (decode_rune_spec _ _ _ H3 H2) as (Hw & _ & _).
  assert (pos s = pos s0 + w) as Hps by (subst s; reflexivity).
  assert (width s = w) as Hws by (subst s; reflexivity).
  assert (input s = input s0) as His by (subst s; reflexivity).
  clear Hs H1 H2 H3. pose proof Ws as (V1 & V2 & V3).
  destruct (N.eqb c 40). { simpl. auto. }
  destruct (N.eqb c 41). { destruct (depth =? 0); [apply fail_safe; auto|simpl; auto]. }
  destruct (N.eqb c 39 || N.eqb c 34 || N.eqb c 96).
  { eapply safe_bind; [apply skipQuote_safe; exact Ws|]. intros s1 _ [W1 S1]. simpl. split; [exact W1|congruence]. }
  eapply safe_bind with (P := fun b => b = true -> pos s = 1 /\ 9 < zlen (input s)).
  { destruct ((pos s =? 1) && (zlen S_DELIMITER <? zlen (input s))) eqn:E; [|simpl; discriminate].
    bnorm. change (zlen S_DELIMITER) with 9 in *.
    eapply safe_bind; [apply slice_to_safe; lia|]. intros hd _ _. simpl. auto. }
  intros isDelimCmd _ HD. destruct isDelimCmd.
  { destruct (HD eq_refl) as [Hp1 Hl9]. change (zlen S_DELIMITER - 1) with 8.
    assert (wf (addPos s 8)) as W8 by (apply wf_addPos; [exact Ws|lia]).
    eapply safe_bind; [apply (delimCmd_safe o f _ W8); simpl; lia|].
    intros s1 _ (W1 & S1 & [P1|E1]); [|subst s1]; simpl.
    - split; [apply wf_skipSpaces; auto|simpl in S1; congruence].
    - split; [apply wf_skipSpaces_id; [exact W8|simpl; congruence]|congruence]. }
  clear HD.
  eapply safe_bind with (P := fun _ => True).
  { destruct (GoCommand o && N.eqb c 10); [|exact I]. eapply safe_bind; [apply slice_from_safe; lia|]. intros; exact I. }
  intros go1 _ _.
  eapply safe_bind with (P := fun _ => True).
  { destruct go1; [exact I|]. destruct (GoCommand o); [|exact I].
    eapply safe_bind with (P := fun _ => True).
    - destruct (pos s =? 1); [exact I|]. destruct (1 <? pos s) eqn:E1; [|exact I]. bnorm.
      eapply safe_bind; [apply index_safe; lia|]. intros; exact I.
    - intros als _ _. destruct als; [|exact I]. eapply safe_bind; [apply slice_from_safe; lia|]. intros; exact I. }
  intros go2 _ _. destruct go2.
  { eapply safe_bind with (P := fun s1 => wf s1 /\ src s1 = src s /\ input s1 = input s /\ 1 <= pos s1).
    { destruct go1; [|simpl; repeat split; auto; lia].
      destruct (next_safe s Ws) as (r1 & s1' & Hn1 & W1' & Hsrc1). rewrite Hn1. cbn [bind snd]. simpl.
      pose proof (next_adv _ _ _ Hn1) as (G1 & _ & _ & G4).
      split; [exact W1'|split; [exact Hsrc1|split; [exact G1|lia]]]. }
    intros s1 _ (Ws1 & Ss1 & Is1 & Ps1). pose proof Ws1 as (U1 & U2 & U3).
    eapply safe_bind; [apply slice_to_safe; lia|]. intros text _ _.
    destruct (next_safe s1 Ws1) as (r2 & s2 & Hn2 & W2 & Hsrc2). rewrite Hn2. cbn [bind snd].
    pose proof (next_adv _ _ _ Hn2) as (G2 & _).
    eapply safe_bind; [apply (skipGoCount_safe f s2 W2)|]. intros s3 _ (W3' & S3 & I3).
    simpl. split; [apply wf_skipSpaces_id; [exact W3'|]|congruence].
    rewrite I3, G2, Is1, His. exact Hns. }
  eapply safe_bind with (P := fun b => b = true -> has_prefix (skipn (Z.to_nat (pos s - width s)) (input s)) (delim s) = true).
  { destruct (depth =? 0); [|simpl; discriminate].
    eapply safe_bind; [apply slice_from_safe; lia|]. intros tl _ ->. simpl. auto. }
  intros isDelim _ HD. destruct isDelim.
  { pose proof (HD eq_refl) as Hpre. apply has_prefix_app in Hpre as [rr Hrr]. apply (f_equal zlen) in Hrr.
    rewrite zlen_skipn, zlen_app in Hrr by lia. pose proof (zlen_nonneg rr). pose proof (zlen_nonneg (delim s)).
    assert (wf (addPos s (zlen (delim s) - width s))) as Wd by (apply wf_addPos; [exact Ws|lia]).
    eapply safe_bind; [apply slice_to_safe; apply Wd|]. intros t _ _. simpl. split; [exact Wd|exact Hsrc]. }
  clear HD.
  eapply safe_bind with (P := fun _ => True).
  { destruct (MatchDollarQuote o && N.eqb c 36); [|exact I].
    eapply safe_bind; [apply slice_from_safe; lia|]. intros; exact I. }
  intros isDollar _ _. destruct isDollar.
  { eapply safe_bind; [apply skipDollarQuote_safe; [exact Ws|lia]|]. intros s1 _ [W1 S1]. simpl. split; [exact W1|congruence]. }
  destruct (N.eqb c 35 && HashComments o).
  { eapply safe_bind; [apply comment_safe; exact Ws|]. intros s1 _ [W1 S1]. simpl. split; [exact W1|congruence]. }
  eapply safe_bind with (P := fun _ => True).
  { destruct (N.eqb c 45); [|exact I]. destruct (pick_safe s Ws) as (p & ->). exact I. }
  intros p1 _ _. destruct (N.eqb c 45 && rune_is p1 45).
  { destruct (next_safe s Ws) as (r2 & s2 & Hn2 & W2 & Hsrc2). rewrite Hn2. cbn [bind snd].
    eapply safe_bind; [apply comment_safe; exact W2|]. intros s1 _ [W1 S1]. simpl. split; [exact W1|congruence]. }
  eapply safe_bind with (P := fun _ => True).
  { destruct (N.eqb c 47); [|exact I]. destruct (pick_safe s Ws) as (p & ->). exact I. }
  intros p2 _ _. destruct (N.eqb c 47 && rune_is p2 42).
  { destruct (next_safe s Ws) as (r2 & s2 & Hn2 & W2 & Hsrc2). rewrite Hn2. cbn [bind snd].
    eapply safe_bind; [apply comment_safe; exact W2|]. intros s1 _ [W1 S1]. simpl. split; [exact W1|congruence]. }
  eapply safe_bind with (P := fun _ => True).
  { destruct (endterm s); [|exact I]. eapply safe_bind; [apply slice_to_safe; lia|]. intros; exact I. }
  intros isEndTerm _ _. destruct isEndTerm.
  { eapply safe_bind; [apply slice_to_safe; lia|]. intros t _ _. simpl. auto. }
  eapply safe_bind with (P := fun _ => True).
  { destruct (_ && _); [|exact I]. eapply safe_bind; [apply slice_from_safe; lia|]. intros; exact I. }
  intros isAtomic _ _. destruct isAtomic.
  { eapply safe_weaken; [apply (after_block_safe _ _ _ s); apply (skipBeginAtomic_safe nested nested_safe); auto; lia|].
    intros [s1 d1 o1|s1 t|s1] _ Hsame; simpl in *; try contradiction;
      destruct Hsame as (U1 & U2 & _); (split; [exact U1|congruence]). }
  eapply safe_bind with (P := fun _ => True).
  { destruct (_ && _); [|exact I]. eapply safe_bind; [apply slice_from_safe; lia|]. intros; exact I. }
  intros isTry _ _. destruct isTry.
  { eapply safe_weaken; [apply (after_block_safe _ _ _ s); apply (skipBeginTryCatch_safe nested nested_safe nested_mono_s); auto; lia|].
    intros [s1 d1 o1|s1 t|s1] _ Hsame; simpl in *; try contradiction;
      destruct Hsame as (U1 & U2 & _); (split; [exact U1|congruence]). }
  eapply safe_bind with (P := fun _ => True).
  { destruct (_ && _); [|exact I]. destruct (pos s =? 1).
    - eapply safe_bind; [apply slice_from_safe; lia|]. intros; exact I.
    - destruct (1 <? pos s) eqn:E; [|exact I]. bnorm. eapply safe_bind; [apply slice_from_safe; lia|]. intros; exact I. }
  intros isBegin _ _. destruct isBegin; [|simpl; auto].
  eapply safe_weaken; [apply (after_block_safe _ _ _ s); apply (skipBegin_safe o nested nested_safe); auto; lia|].
  intros [s1 d1 o1|s1 t|s1] _ Hsame; simpl in *; try contradiction;
    destruct Hsame as (U1 & U2 & _); (split; [exact U1|congruence]).
Qed.
End IterSafe.


Section StmtSafe.
Variable o : opts.

Definition SafeRes (s : scanner) (r : scanner * option Stmt) : Prop :=
  wf (fst r) /\ src (fst r) = src s /\ pos (fst r) = 0 /\ delim (fst r) <> [].

Section Loop.
Variable nested : scanner -> res (scanner * option Stmt).
Hypothesis nested_mono : forall b b' r, pos b = 0 -> delim b <> [] -> nested b = Ok (b', r) ->
  total b <= total b' /\ pos b' = 0 /\ delim b' <> [] /\
  (forall st, r = Some st -> total b + zlen (Text st) <= total b').
Hypothesis nested_safe : forall b, wf b -> pos b = 0 -> delim b <> [] -> safe (nested b) (SafeRes b).

Lemma stmt_loop_safe lf : forall s d op,
  wf s -> starts_space (input s) = false -> delim s <> [] -> 0 <= d -> (0 < d -> 1 <= op <= pos s) ->
  safe (stmt_loop o nested lf s d op) (SafeRes s).
Proof.
  induction lf as [|lf IH]; intros s d op W Hns Hd Hd0 Hop; simpl; [exact I|].
  pose proof W as (W1 & W2 & W3).
  eapply safe_bind; [apply (stmt_iter_safe o nested nested_safe nested_mono lf s d op W Hns); intros; lia|].
  intros st Hst (Wst & Sst).
  pose proof (stmt_iter_spec o nested nested_mono _ _ _ _ _ Hst Hns Hd) as Hit.
  destruct st as [s1 d1 o1|s1 text|s1]; simpl in Wst, Sst.
  - pose proof (stmt_iter_depth o nested _ _ _ _ _ _ _ Hst) as Hdep.
    assert (input s1 = input s /\ delim s1 = delim s /\ pos s < pos s1 \/
            starts_space (input s1) = false /\ delim s1 <> [] /\ pos s1 = 0 /\ pos s = 0) as Hcase.
    { destruct Hit as [[(A1 & A2 & _ & _) Hlt]|[(S1 & S2 & S3 & _) [Hp0 _]]]; [left; auto|right; auto]. }
    eapply safe_weaken.
    + apply IH; auto.
      * destruct Hcase as [(E1 & _ & _)|(E1 & _)]; [rewrite E1; exact Hns|exact E1].
      * destruct Hcase as [(_ & E2 & _)|(_ & E2 & _)]; [rewrite E2; exact Hd|exact E2].
      * destruct Hdep as [[-> _]|[[-> _]|(Hne & -> & _)]]; lia.
      * destruct Hdep as [[-> ->]|[(-> & -> & Hp1)|(Hne & -> & ->)]]; intros Hpos.
        -- destruct Hcase as [(_ & _ & ?)|(_ & _ & ? & ?)]; lia.
        -- destruct (d =? 0) eqn:E0; bnorm; [lia|]. destruct Hcase as [(_ & _ & ?)|(_ & _ & ? & ?)]; lia.
        -- destruct Hcase as [(_ & _ & ?)|(_ & _ & ? & ?)]; lia.
    + intros r _ (R1 & R2 & R3 & R4). unfold SafeRes. split; [exact R1|split; [congruence|split; [exact R3|exact R4]]].
  - destruct Hit as ((A1 & A2 & _ & _) & _).
    eapply safe_bind; [apply emit_safe; exact Wst|]. intros es _ (E1 & E2 & E3 & E4). simpl.
    unfold SafeRes; simpl. split; [exact E1|split; [simpl in E2; congruence|split; [exact E3|rewrite E4, A2; exact Hd]]].
  - destruct Hit as ((A1 & A2 & _ & _) & Hl). simpl. unfold SafeRes; simpl.
    split; [exact Wst|split; [exact Sst|split; [destruct Wst as (U1 & _); lia|rewrite A2; exact Hd]]].
Qed.
End Loop.

Lemma stmt_safe f : forall s, wf s -> pos s = 0 -> delim s <> [] -> safe (stmt o f s) (SafeRes s).
Proof.
  induction f as [|f IH]; intros s W Hp Hd; [exact I|]. cbn [stmt].
  destruct (trim_left_decomp (input s)) as (sp & Hsp & Hsp2 & Hsp3).
  eapply safe_weaken.
  - apply (stmt_loop_safe (stmt o f)).
    + intros b b' r. apply (stmt_mono o).
    + exact IH.
    + apply wf_skipSpaces; auto.
    + exact Hsp3.
    + exact Hd.
    + lia.
    + lia.
  - intros r _ (R1 & R2 & R3 & R4). unfold SafeRes. split; [exact R1|split; [exact R2|split; [exact R3|exact R4]]].
Qed.

Lemma scan_loop_safe f : forall s acc, wf s -> pos s = 0 -> delim s <> [] -> safe (scan_loop o f s acc) (fun _ => True).
Proof.
  induction f as [|f IH]; intros s acc W Hp Hd; [exact I|]. cbn [scan_loop].
  eapply safe_bind; [apply stmt_safe; auto|]. intros [s1 [st|]] _ (R1 & R2 & R3 & R4); simpl in *; [|exact I].
  apply IH; auto.
Qed.

Theorem Scan_no_panic fuel inp : Scan o fuel inp <> Panic.
Proof.
  unfold Scan. intros H.
  assert (safe (do s <- init (new_scanner false) inp; scan_loop o fuel s []) (fun _ => True)) as Hs.
  { eapply safe_bind; [apply init_safe|]. intros s _ (W & P & _ & D). apply scan_loop_safe; auto. }
  rewrite H in Hs. exact Hs.
Qed.
End StmtSafe.
