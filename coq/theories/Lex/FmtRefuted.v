(** C07: witnesses (by computation) of the inputs on which the faithful model — and the real
    code, see notes/C07.md and known_findings.d/C07.json — does NOT round-trip. *)
From Coq Require Import List NArith ZArith Bool String Ascii.
From Atlas Require Import Base.Bytes Lex.LexModel Lex.ClosedModel Lex.ClosedBeginModel Lex.FmtModel Lex.QuoteModel Lex.FmtImportModel.
Import ListNotations.

Fixpoint bs (s : string) : bytes :=
  match s with EmptyString => [] | String c r => N_of_ascii c :: bs r end.
Definition nl : string := String (ascii_of_nat 10) EmptyString.
Definition semi : bytes := [59%N].

Definition plan1 (cmds : list (string * string)) : plan :=
  mkPlan [] [] [] [] (map (fun cc => mkChange (bs (fst cc)) (bs (snd cc)) []) cmds).

(** 1. Builder.Ident (repaired, C16-ident-double-quote-char): the table named [a'';b] (PostgreSQL)
    is written with the quote doubled and read back; the spelling before the fix was not closed. *)
Definition w_ident : bytes := bs "a"";b".
Definition w_ident_plan : plan :=
  mkPlan [] [] [] []
    [mkChange (bs "CREATE TABLE " ++ ident 34 34 w_ident ++ bs " (""c"" integer)") (bs "create table") []].
Lemma ident_repaired :
  roundtrip FAtlas opts_postgres [] w_ident_plan = planned opts_postgres semi w_ident_plan
  /\ scan_closed opts_postgres semi (c_cmd (hd (mkChange [] [] []) (p_changes w_ident_plan))) = true
  /\ scan_closed opts_postgres semi (bs "CREATE TABLE " ++ raw_ident 34 34 w_ident ++ bs " (""c"" integer)") = false.
Proof. vm_compute. repeat split; reflexivity. Qed.

(** 2. MySQL quote = strconv.Quote writes [\'']; the sqltool readers other than Liquibase scan with
    the generic options (no backslash escapes): a column comment [a''b;c] splits the statement. *)
Definition w_mysql_cmd : bytes :=
  bs "CREATE TABLE `t` (`c` int COMMENT " ++ mysql_quote [] (bs "a""b;c") ++ bs ")".
Definition w_mysql_plan : plan := mkPlan [] [] [] [] [mkChange w_mysql_cmd (bs "create t") []].
Lemma mysql_generic_refuted :
  (* the dialect scanner reads it back *)
  roundtrip FAtlas opts_mysql [] w_mysql_plan = planned opts_mysql semi w_mysql_plan
  /\ scan_closed opts_mysql semi w_mysql_cmd = true
  (* the generic one (golang-migrate, flyway, goose, dbmate readers) does not *)
  /\ roundtrip FGolangMigrate opts_mysql [] w_mysql_plan <> planned opts_generic semi w_mysql_plan
  /\ roundtrip FFlyway opts_mysql [] w_mysql_plan <> planned opts_generic semi w_mysql_plan
  /\ roundtrip FGoose opts_mysql [] w_mysql_plan <> planned opts_generic semi w_mysql_plan
  /\ roundtrip FDBMate opts_mysql [] w_mysql_plan <> planned opts_generic semi w_mysql_plan
  /\ scan_closed opts_generic semi w_mysql_cmd = false.
Proof. vm_compute. repeat split; try reflexivity; discriminate. Qed.

(** 3. a comment with a newline is written raw: its second line is read as a statement. *)
Definition w_comment_plan : plan := plan1 [("SELECT 1", "two" ++ nl ++ "DROP TABLE t")]%string.
Lemma comment_newline_refuted :
  roundtrip FAtlas opts_generic [] w_comment_plan <> planned opts_generic semi w_comment_plan
  /\ scan_closed opts_generic semi (bs "SELECT 1") = true
  /\ comment_ok (bs ("two" ++ nl ++ "DROP TABLE t")) = false.
Proof. vm_compute. repeat split; try reflexivity; discriminate. Qed.

(** 4. GooseFile / DBMateFile.StmtDecls (repaired, C07-pragma-regexp-grouping): a line containing
    Down / down is no longer taken for a pragma; with the ungrouped patterns of the tree before the
    fix both lines matched. *)
Definition w_goose_plan : plan := plan1 [("CREATE TABLE ""CountDown"" (""c"" integer)", "create"); ("SELECT 1", "")]%string.
Definition w_dbmate_plan : plan := plan1 [("CREATE TABLE ""downloads"" (""c"" integer)", "create"); ("SELECT 1", "")]%string.
Lemma goose_dbmate_word_repaired :
  roundtrip FGoose opts_postgres [] w_goose_plan = planned opts_generic semi w_goose_plan
  /\ roundtrip FDBMate opts_postgres [] w_dbmate_plan = planned opts_generic semi w_dbmate_plan
  /\ re_goose_pragma_ungrouped (bs "CREATE TABLE ""CountDown"" (""c"" integer);") = true
  /\ re_dbmate_pragma_ungrouped (bs "CREATE TABLE ""downloads"" (""c"" integer);") = true
  /\ re_goose_pragma (bs "CREATE TABLE ""CountDown"" (""c"" integer);") = false
  /\ re_dbmate_pragma (bs "CREATE TABLE ""downloads"" (""c"" integer);") = false.
Proof. vm_compute. repeat split; reflexivity. Qed.

(** 5. Liquibase (the multi-line rollback leak was repaired in the tree under test, ae3e356:
    every line of a reverse statement now carries the "--rollback: " prefix; witness of the repaired
    behaviour) *)
Definition w_liquibase_plan : plan :=
  mkPlan [] [] [] []
    [mkChange (bs "CREATE TABLE t (c integer)") (bs "create t") [bs ("DROP TABLE" ++ nl ++ "t")]].
Lemma liquibase_rollback_repaired :
  roundtrip FLiquibase opts_postgres (bs "20240101000000") w_liquibase_plan
    = Some [bs "CREATE TABLE t (c integer);"].
Proof. vm_compute. reflexivity. Qed.
(** and the empty plan is read as one statement (the header line has no newline after it) *)
Lemma liquibase_empty_refuted :
  roundtrip FLiquibase opts_postgres [] (mkPlan [] [] [] [] []) = Some [bs "--liquibase formatted sql"].
Proof. vm_compute. reflexivity. Qed.

(** 6. formatValues does not escape: MySQL enum value [it's]. *)
Definition w_enum_cmd : bytes :=
  bs "CREATE TABLE `t` (`c` enum(" ++ format_values [bs "on"; bs "it's"] ++ bs "))".
Lemma format_values_refuted :
  format_values [bs "on"; bs "it's"] = bs "'on','it's'"
  /\ lit_closed opts_mysql (format_value (bs "it's")) = false
  /\ scan_closed opts_mysql semi w_enum_cmd = false
  /\ roundtrip FAtlas opts_mysql [] (mkPlan [] [] [] [] [mkChange w_enum_cmd [] []]) = None.
Proof. vm_compute. repeat split; reflexivity. Qed.

(** 7. the MySQL scanner applies backslash escapes inside back-quoted identifiers (MySQL itself
    does not): an identifier ending in a backslash. *)
Definition w_bslash_cmd : bytes := bs "CREATE TABLE " ++ ident 96 96 (bs "ab\") ++ bs " (`c` int)".
Lemma mysql_ident_backslash_refuted :
  scan_closed opts_mysql semi w_bslash_cmd = false
  /\ roundtrip FAtlas opts_mysql [] (mkPlan [] [] [] [] [mkChange w_bslash_cmd [] []]) = None
  /\ scan_closed opts_generic semi w_bslash_cmd = true.
Proof. vm_compute. repeat split; reflexivity. Qed.

(** 8. already-quoted inputs are passed through unchanged, and IsQuoted never looks at the byte
    before the last one: [quote('''a'''')] is an unterminated literal. *)
Lemma quote_passthrough_refuted :
  pg_quote (bs "'a''") = bs "'a''" /\ lit_closed opts_postgres (pg_quote (bs "'a''")) = false
  /\ mysql_quote [] (bs "'a\'") = bs "'a\'" /\ lit_closed opts_mysql (mysql_quote [] (bs "'a\'")) = false.
Proof. vm_compute. repeat split; reflexivity. Qed.


(** 9. a first comment that reads as the delimiter directive (sqltool templates write it raw) *)
Definition w_directive_plan : plan := plan1 [("SELECT 1", "atlas:delimiter //"); ("SELECT 2", "")]%string.
Lemma comment_directive_refuted :
  roundtrip FGolangMigrate opts_generic [] w_directive_plan = Some [bs ("SELECT 1;" ++ nl ++ "SELECT 2;")%string]
  /\ roundtrip FDBMate opts_generic [] w_directive_plan = Some [bs ("SELECT 1;" ++ nl ++ "SELECT 2;")%string]
  /\ roundtrip FAtlas opts_generic [] w_directive_plan = Some [bs "SELECT 1;"%string; bs "SELECT 2;"%string].
Proof. vm_compute. repeat split; reflexivity. Qed.

(** example plans / directories used by the non-vacuity Examples and witnesses of Props_C07.v *)
Local Open Scope string_scope.
Lemma semi_eq : semi = delimiter. Proof. reflexivity. Qed.
Definition ex_plan (d : bytes) : plan :=
  mkPlan (bs "20240101000000") (bs "n") d [bs "-- atlas:txmode none"]
    [mkChange (bs "CREATE TABLE `t;` (`c` int COMMENT ""x\""; -- y"")") (bs "create ""t;"" table") [bs "DROP TABLE `t;`"];
     mkChange (bs "ALTER TABLE `t;` ADD COLUMN `d` varchar(9) DEFAULT 'a''b;'") [] []].
Definition ex_tool_plan : plan :=
  mkPlan [] [] [] [] [mkChange (bs "CREATE TABLE ""t;"" (c text DEFAULT 'a''b;')") (bs "create t") [bs "DROP TABLE t"]].
Definition w_import_files : list (bytes * bytes) :=
  [(bs "V2__a.sql", bs ("CREATE TABLE ta (a int);" ++ nl));
   (bs "V10__b.sql", bs ("CREATE TABLE tb (a int);" ++ nl))].

(** a MySQL trigger with a BEGIN ... END body (one block) and the plan that contains it *)
Definition ex_trigger : begin_cmd :=
  mkBegin (bs "CREATE TRIGGER `tr` BEFORE INSERT ON `t` FOR EACH ROW") 32 (bs "BEGIN") (bs " ")
    [(bs "SET NEW.a = 1", bs " "); (bs "SET NEW.b = 'x;y'", bs " ")] (bs "END").
Definition ex_trigger_plan : plan :=
  mkPlan [] [] [] []
    [mkChange (bs "CREATE TABLE `t` (`a` int, `b` text)") (bs "create t") [];
     mkChange (render_begin ex_trigger) (bs "create trigger") [];
     mkChange (bs "CREATE TABLE `u` (`a` int)") [] []].

(** a DBMate file with options after the direction (repaired, C07-dbmate-directive-options) *)
Definition w_dbmate_options : bytes :=
  bs ("-- migrate:up transaction:false" ++ nl ++ "CREATE TABLE t1 (a int);" ++ nl ++ "CREATE TABLE t2 (a int);" ++ nl
      ++ "-- migrate:down transaction:false" ++ nl ++ "DROP TABLE t1;" ++ nl).
Lemma dbmate_options_repaired :
  texts (read FDBMate opts_generic w_dbmate_options) = Some [bs "CREATE TABLE t1 (a int);"; bs "CREATE TABLE t2 (a int);"].
Proof. vm_compute. reflexivity. Qed.

(** * Statements that end in a comment (import)
    A golang-migrate file whose statements end in the five ways the import has to survive: a line
    comment and the terminator on the next line, a block comment and the terminator on the next
    line, the delimiter inside the line comment, blank lines before the terminator, a comment
    after the terminator. *)
Definition w_tails : bytes :=
  bs ("CREATE TABLE t1 (a int) -- seed row" ++ nl ++ ";" ++ nl ++
      "INSERT INTO t1 VALUES (1) /* seed row */" ++ nl ++ ";" ++ nl ++
      "CREATE INDEX i1 ON t1 (a) -- c;" ++ nl ++ ";" ++ nl ++
      "SELECT 1" ++ nl ++ nl ++ ";" ++ nl ++
      "SELECT 2;  -- trailing" ++ nl ++ "SELECT 3;" ++ nl)%string.
Definition w_tails_name : bytes := bs "1_a.up.sql".

(** NOT the code — the counterfactual spelling strings.TrimSpace(strings.TrimSuffix(s.Text, ";")):
    the newline that ends a trailing line comment is trimmed, the formatter's ";" lands inside the
    comment.  Only used by the sensitivity clause of C07_import_cmd_text. *)
Definition import_cmd_trimspace (s : Stmt) : bytes :=
  (List.concat (List.map (fun c => if has_suffix c S_NL then c else c ++ S_NL) (Comments s))
   ++ trim_space (trim_suffix (Text s) delimiter))%list.
Definition import_plan_trimspace (version desc : bytes) (ss : list Stmt) : plan :=
  mkPlan version desc [] [] (List.map (fun s => mkChange (import_cmd_trimspace s) [] []) ss).

(** * The Goose reader and comments around the terminator (hand-made files)
    pressly/goose ignores a trailing "--" comment when it looks for the line-final ";"
    (sqlparser: endsWithSemicolon); GooseFile.StmtDecls tests the trimmed line's last byte. *)
Definition w_goose_trailing : bytes :=
  bs ("-- +goose Up" ++ nl ++ "SELECT 1;  -- trailing" ++ nl ++ "SELECT 2;" ++ nl ++
      "-- +goose Down" ++ nl ++ "DROP TABLE t;" ++ nl)%string.
Definition w_goose_comment_semi : bytes :=
  bs ("-- +goose Up" ++ nl ++ "SELECT 1 -- c;" ++ nl ++ ";" ++ nl ++ "SELECT 2;" ++ nl ++
      "-- +goose Down" ++ nl ++ "DROP TABLE t;" ++ nl)%string.
