(** M-FMT (closed commands with one BEGIN ... END block): CREATE TRIGGER / PROCEDURE bodies for the
    scanners that match BEGIN blocks only (MySQL, SQLite option sets: MatchBegin on,
    MatchBeginAtomic and MatchBeginTryCatch off), default delimiter.

    The command is  pre ++ [ws1] ++ KW ++ ws2 ++ s1 ";" w1 ++ ... ++ sk ";" wk ++ END  where
      - pre is walked by the walker of ClosedModel.v (it ends with a non-space byte),
      - ws1 is ONE white-space byte ([\s] of Go regexp), KW is the word BEGIN in any letter case,
        ws2 is a non-empty run of [\s] not followed by [\s],
      - every inner statement si is closed for the same scanner with what follows it as
        look-ahead, is not an END statement, and wi is (possibly empty) [\s] white space,
      - END is the word END in any letter case.
    Scanner.stmt reaches the B of KW, reBegin matches from the byte before it, skipBegin runs a
    nested scanner over the inner statements until "END;" and the whole command plus the
    delimiter is one statement.  No proofs here (ClosedBeginProofs.v). *)
From Coq Require Import List NArith ZArith Bool Arith.
From Atlas Require Import Base.Bytes Lex.LexModel Lex.ClosedModel.
Import ListNotations.

Record begin_cmd := mkBegin {
  bc_pre : bytes; bc_ws1 : N; bc_kw : bytes; bc_ws2 : bytes;
  bc_inner : list (bytes * bytes); bc_end : bytes }.

Definition render_inner (inner : list (bytes * bytes)) : bytes :=
  concat (map (fun sw => fst sw ++ [59%N] ++ snd sw) inner).
Definition render_begin (b : begin_cmd) : bytes :=
  bc_pre b ++ [bc_ws1 b] ++ bc_kw b ++ bc_ws2 b ++ render_inner (bc_inner b) ++ bc_end b.

Definition all_s (w : bytes) : bool := forallb re_s w.
Definition is_word (w : bytes) (upper_word : bytes) : bool :=
  (length w =? length upper_word)%nat && has_prefix_ci w upper_word.

(** the inner statements, each with the rest of the block (and ";\n") as look-ahead *)
Fixpoint inner_closed (o : opts) (inner : list (bytes * bytes)) (after : bytes) : bool :=
  match inner with
  | [] => true
  | (st, ws) :: r =>
    let rest := ws ++ render_inner r ++ after in
    trimmed st && all_s ws
    && negb (is_some (re_end st))
    && cw o delimiter (S (length st)) true None 0 (length st) (st ++ [59%N] ++ rest)
    && inner_closed o r after
  end.

Definition begin_opts (o : opts) : bool :=
  MatchBegin o && negb (MatchBeginAtomic o) && negb (MatchBeginTryCatch o) && negb (GoCommand o)
  && negb (BeginEndTerminator o).

Definition scan_closed_begin (o : opts) (b : begin_cmd) : bool :=
  let tail := [bc_ws1 b] ++ bc_kw b ++ bc_ws2 b ++ render_inner (bc_inner b) ++ bc_end b ++ [59%N; 10%N] in
  begin_opts o
  && trimmed (render_begin b)
  && negb (match rev (bc_pre b) with [] => true | x :: _ => re_s x end)      (* pre non-empty, ends with a non-space *)
  && cw o delimiter (S (length (bc_pre b))) true None 0 (length (bc_pre b)) (bc_pre b ++ tail)
  && re_s (bc_ws1 b)
  && is_word (bc_kw b) W_BEGIN
  && negb (match bc_ws2 b with [] => true | _ => false end) && all_s (bc_ws2 b)
  && negb (match render_inner (bc_inner b) ++ bc_end b with x :: _ => re_s x | [] => true end)
  && inner_closed o (bc_inner b) (bc_end b ++ [59%N; 10%N])
  && is_word (bc_end b) W_END.
