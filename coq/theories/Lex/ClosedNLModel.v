(** M-FMT (closed commands, Goose variant): GooseFile.StmtDecls rewrites its file so that every
    command is followed by a NEWLINE, then the delimiter line ["-- ATLAS_DELIM_END"], then a newline.
    [scan_closed_nl o d cmd] is the walker of ClosedModel.v with that look-ahead
    ([cmd ++ "\n" ++ d ++ "\n"]); it is used with a delimiter for which no BEGIN matcher is live
    ([d <> ";"]).  No proofs here. *)
From Coq Require Import List NArith ZArith Bool Arith.
From Atlas Require Import Base.Bytes Lex.LexModel Lex.ClosedModel.
Import ListNotations.

Definition follow_nl (d : bytes) : bytes := [10%N] ++ d ++ [10%N].

Definition scan_closed_nl (o : opts) (d : bytes) (cmd : bytes) : bool :=
  trimmed cmd && negb (bytes_eqb d delimiter) &&
  cw o d (S (length cmd)) true None 0 (length cmd) (cmd ++ follow_nl d).

(** the delimiter GooseFile.StmtDecls inserts *)
Definition GOOSE_DELIM_NL : bytes :=
  [45;45;32;65;84;76;65;83;95;68;69;76;73;77;95;69;78;68]%N.   (* "-- ATLAS_DELIM_END" *)
