(** M-FMT (closed commands with one BEGIN ... END block, ClosedBeginModel.v):
    [stmt_gap_closed_begin] — gap, command with a BEGIN ... END block, ";", newline, anything is
    read by Scanner.stmt as exactly one statement.
    Layers: the walker simulation of ClosedProofs.v with an arbitrary final step ([cw_simQ]); one
    statement terminated by ";" with an arbitrary look-ahead, read by [stmt] ([stmt_semi]); the
    loop of skipBegin over the inner statements and END ([begin_loop_inner]); the white-space
    byte, the B of BEGIN and skipBegin ([ws1_step], [b_step], [final_begin]); the whole command. *)
From Coq Require Import List NArith ZArith Bool Arith Lia.
From Atlas Require Import Base.Bytes Lex.LexModel Lex.LexProofs Lex.ClosedModel Lex.ClosedProofs
  Lex.ClosedBeginModel.
From Atlas Require Lex.ClosedBridgeModel Lex.ClosedBridgeProofs.
From Coq Require Import ZifyBool ZifyNat ZifyN.
Import ListNotations.
Open Scope Z_scope.

Lemma conclude_eq2 (P : bytes -> Prop) (a b x y : bytes) : a ++ b = x ++ y -> P (a ++ b) -> P (x ++ y).
Proof. intros E. rewrite E. auto. Qed.

(** * The simulation of ClosedProofs.v with an arbitrary final step
    ([cw_sim] fixes the shape of the state after the command; here [Q] is any predicate) *)
Section SimQ.
Variable o : opts.
Variable d : bytes.
Variable fol : bytes.
Variable tail : bytes.
Variable T : Z.
Variable SRC : bytes.
Variable nested : scanner -> res (scanner * option Stmt).
Hypothesis Hgo : GoCommand o = false.
Hypothesis Hfol_split : exists a x, fol = a ++ [x; 10%N] /\ (x < 128)%N.
Hypothesis Hfol_len : (length d <= length fol)%nat.
Hypothesis Hfol_59 : d = [59%N] -> In 59%N fol.

Local Notation At := (ClosedProofs.At d tail T SRC).
Local Notation Mid := (ClosedProofs.Mid d fol tail T SRC).
Local Notation step_at := (ClosedProofs.step_at o d fol tail T SRC nested Hgo Hfol_split Hfol_len Hfol_59).
Local Notation skipQuote_sim := (ClosedProofs.skipQuote_sim o d fol tail T SRC nested Hgo Hfol_split Hfol_len Hfol_59).
Local Notation ck_delimcmd_at := (ClosedProofs.ck_delimcmd_at o d fol tail T SRC nested Hgo Hfol_split Hfol_len Hfol_59).
Local Notation ck_dollar_at_hit := (ClosedProofs.ck_dollar_at_hit o d fol tail T SRC nested Hgo Hfol_split Hfol_len Hfol_59).
Local Notation skipDollarQuote_sim := (ClosedProofs.skipDollarQuote_sim o d fol tail T SRC nested Hgo Hfol_split Hfol_len Hfol_59).
Local Notation ck_dollar_at_skip := (ClosedProofs.ck_dollar_at_skip o d fol tail T SRC nested Hgo Hfol_split Hfol_len Hfol_59).
Local Notation ck_dash_at_hit := (ClosedProofs.ck_dash_at_hit o d fol tail T SRC nested Hgo Hfol_split Hfol_len Hfol_59).
Local Notation ck_dash_at_skip := (ClosedProofs.ck_dash_at_skip o d fol tail T SRC nested Hgo Hfol_split Hfol_len Hfol_59).
Local Notation ck_slash_at_hit := (ClosedProofs.ck_slash_at_hit o d fol tail T SRC nested Hgo Hfol_split Hfol_len Hfol_59).
Local Notation ck_slash_at_skip := (ClosedProofs.ck_slash_at_skip o d fol tail T SRC nested Hgo Hfol_split Hfol_len Hfol_59).
Local Notation ck_delim_at_skip := (ClosedProofs.ck_delim_at_skip o d fol tail T SRC nested Hgo Hfol_len).
Local Notation cskip_sim := (ClosedProofs.cskip_sim o d fol tail T SRC nested Hgo Hfol_len).
Local Notation ck_begins_at := (ClosedProofs.ck_begins_at o d fol tail T SRC nested Hgo Hfol_len Hfol_59).
Local Notation byte_before_seg := (ClosedProofs.byte_before_seg o d fol Hgo Hfol_len).
Local Notation is_quote_cases := (ClosedProofs.is_quote_cases o d fol Hgo Hfol_len).
Local Notation fol_app_ne := (ClosedProofs.fol_app_ne o d fol Hgo Hfol_split Hfol_len Hfol_59).

Variable Q : scanner -> bytes -> Prop.
Variable NE : bytes -> Prop.      (* what the final step needs of the bytes before the cursor *)
Variable fd : bytes.
Variable KF : nat.
Hypothesis Hfin : forall F s pre opos, At s pre fol -> NE pre -> (KF <= F)%nat ->
  exists s1, Q s1 pre /\
    stmt_loop o nested F s 0 opos = (do es <- emit o s1 (pre ++ fd); Ok (snd es, Some (fst es))).

Lemma cw_simQ : forall f start prev depth n l, cw o d f start prev depth n l = true ->
  forall rest pre s opos F, l = rest ++ fol -> n = length rest -> At s pre l -> PV start prev pre ->
    NE (pre ++ rest) -> (n + KF <= F)%nat ->
  exists s1, Q s1 (pre ++ rest) /\
    stmt_loop o nested F s (Z.of_nat depth) opos =
    (do es <- emit o s1 ((pre ++ rest) ++ fd); Ok (snd es, Some (fst es))).
Proof.
  induction f as [|f IH]; intros start prev depth n l H rest pre s opos F Hl Hn HA HP Hne HF; [discriminate|].
  rewrite cw_S in H.
  destruct n as [|n'].
  - (* the delimiter *)
    destruct rest; [|discriminate]. apply Nat.eqb_eq in H. subst depth l. rewrite app_nil_r in Hne.
    cbn [app] in *. rewrite app_nil_r. change (Z.of_nat 0) with 0. apply Hfin; auto.
  - destruct F as [|F]; [slia|]. rewrite stmt_loop_S.
    destruct (decode_rune l) as [r wz] eqn:D. cbv beta iota zeta in H.
    destruct ((Z.to_nat wz =? 0)%nat || (S n' <? Z.to_nat wz)%nat) eqn:Echk; [discriminate|].
    subst l. rewrite Hn in Echk.
    destruct (step_at s pre rest r wz HA D Echk)
      as (seg & rest1 & s1 & Hr & Hls & Hzs & Hw1 & Hsk & Hn1 & Hnx & Hwd & HA1 & Hasc).
    rewrite Hsk, Hn, Hn1 in H. rewrite <- Hls in H.
    assert (seg <> []) as Hsne by (intros ->; simpl in Hzs; unfold zlen in Hzs; simpl in Hzs; slia).
    assert (Mid s1 pre seg rest1) as HM by (split; [exact HA1|split; [congruence|exact Hsne]]).
    assert (length rest1 + KF <= F)%nat as HF1.
    { rewrite Hr, app_length in Hn. destruct seg; [congruence|simpl in Hn; slia]. }
    assert ((pre ++ seg) ++ rest1 = pre ++ rest) as Heq0 by (rewrite Hr, <- app_assoc; reflexivity).
    assert (NE ((pre ++ seg) ++ rest1)) as Hne1 by (rewrite Heq0; exact Hne).
    rewrite Hr in H.
    destruct (byte_before_seg seg rest1 Hsne) as (x & p & Hsegx & Hbb). rewrite Hbb in H.
    assert (PV false (Some p) (pre ++ seg)) as HP1.
    { right. split; [reflexivity|]. exists (pre ++ x), p. split; [rewrite Hsegx, app_assoc; reflexivity|reflexivity]. }
    pattern (pre ++ rest). apply (conclude_eq2 _ (pre ++ seg) rest1 pre rest Heq0). cbv beta.
    rewrite stmt_iter_eq, Hnx. cbn [bind]. unfold iter_some.
    destruct (N.eqb r 40) eqn:E40.
    { (* ( *)
      cbn [bind].
      destruct (IH _ _ _ _ _ H rest1 (pre ++ seg) s1
                   (if Z.of_nat depth =? 0 then pos s1 else opos) F eq_refl eq_refl HA1 HP1 Hne1 HF1)
        as (s2 & HA2 & Hrun).
      replace (Z.of_nat depth + 1) with (Z.of_nat (S depth)) by slia.
      rewrite Hrun. exists s2. split; [exact HA2|reflexivity]. }
    destruct (N.eqb r 41) eqn:E41.
    { (* ) *)
      destruct depth as [|dep']; [discriminate|].
      replace (Z.of_nat (S dep') =? 0) with false by slia. cbn [bind].
      replace (Z.of_nat (S dep') - 1) with (Z.of_nat dep') by slia.
      destruct (IH _ _ _ _ _ H rest1 (pre ++ seg) s1 opos F eq_refl eq_refl HA1 HP1 Hne1 HF1)
        as (s2 & HA2 & Hrun).
      rewrite Hrun. exists s2. split; [exact HA2|reflexivity]. }
    change (N.eqb r 39 || N.eqb r 34 || N.eqb r 96) with (is_quote r).
    destruct (is_quote r) eqn:Eq.
    { (* quoted string *)
      destruct (qloop f r (BackslashEscapes o) (length rest1) (rest1 ++ fol)) as [[n2 l2]|] eqn:Eql; [|discriminate].
      assert (seg = [r]) as Hsr by (apply Hasc; destruct (is_quote_cases r Eq) as [ -> | [ -> | -> ] ]; slia).
      rewrite Hsr in *.
      destruct (skipQuote_sim r Eq _ _ _ _ _ Eql rest1 pre s1 F eq_refl eq_refl HA1 ltac:(slia))
        as (segq & segq' & rest2 & s2 & Hr2 & Hsq & Hn2 & Hl2 & Hrun & HA2).
      rewrite Hrun. cbn [bind]. subst n2 l2.
      pattern ((pre ++ [r]) ++ rest1).
      apply (conclude_eq2 _ ((pre ++ [r]) ++ segq) rest2 (pre ++ [r]) rest1); [rewrite Hr2, <- app_assoc; reflexivity|].
      cbv beta.
      destruct (IH _ _ _ _ _ H rest2 ((pre ++ [r]) ++ segq) s2 opos F eq_refl eq_refl HA2)
        as (s3 & HA3 & Hrun3).
      - right. split; [reflexivity|]. exists ((pre ++ [r]) ++ segq'), r. split; [rewrite Hsq, app_assoc; reflexivity|reflexivity].
      - rewrite <- app_assoc, <- Hr2. exact Hne1.
      - rewrite Hr2, app_length in HF1. slia.
      - rewrite Hrun3. exists s3. split; [exact HA3|reflexivity]. }
    unfold iter_rest.
    destruct (start && (length seg =? 1)%nat && has_prefix_ci ((seg ++ rest1) ++ fol) W_DELIMITER) eqn:Edc; [discriminate|].
    rewrite (ck_delimcmd_at F s1 pre seg rest1 start prev _ _ _ HM HP Edc).
    rewrite ck_go_skip by exact Hgo.
    destruct ((depth =? 0)%nat && has_prefix ((seg ++ rest1) ++ fol) d) eqn:Edl; [discriminate|].
    rewrite (ck_delim_at_skip s1 pre seg rest1 depth _ HM Edl).
    destruct (MatchDollarQuote o && N.eqb r 36 && is_some (re_dollar_quote ((seg ++ rest1) ++ fol))) eqn:Edq.
    { (* dollar-quoted string *)
      apply andb_true_iff in Edq as [Edq1 Edq3]. apply andb_true_iff in Edq1 as [Edq1 Edq2].
      apply N.eqb_eq in Edq2. subst r.
      assert (seg = [36%N]) as Hsr by (apply Hasc; slia). rewrite Hsr in *.
      destruct (re_dollar_quote (([36%N] ++ rest1) ++ fol)) as [m|] eqn:Erd; [|discriminate].
      destruct (length ([36%N] ++ rest1) <? m)%nat eqn:Elm; [discriminate|].
      destruct (dloop f (firstn m (([36%N] ++ rest1) ++ fol)) (length ([36%N] ++ rest1) - m)
                      (skipn m (([36%N] ++ rest1) ++ fol))) as [[n2 l2]|] eqn:Edl2; [|discriminate].
      rewrite (ck_dollar_at_hit F s1 pre rest1 _ _ _ HM Edq1) by (rewrite Erd; reflexivity).
      destruct (skipDollarQuote_sim f m n2 l2 rest1 pre s1 F Erd Elm Edl2 HA1 ltac:(slia))
        as (segq & segq' & rest2 & s2 & Hr2 & Hsq & Hn2 & Hl2 & Hrun & HA2).
      rewrite Hrun. cbn [bind]. subst n2 l2.
      pattern ((pre ++ [36%N]) ++ rest1).
      apply (conclude_eq2 _ (pre ++ segq) rest2 (pre ++ [36%N]) rest1);
        [rewrite <- !app_assoc; f_equal; symmetry; exact Hr2|].
      cbv beta.
      destruct (IH _ _ _ _ _ H rest2 (pre ++ segq) s2 opos F eq_refl eq_refl HA2)
        as (s3 & HA3 & Hrun3).
      - right. split; [reflexivity|]. exists (pre ++ segq'), 36%N. split; [rewrite Hsq, app_assoc; reflexivity|reflexivity].
      - rewrite <- app_assoc, <- Hr2. rewrite <- app_assoc in Hne1. exact Hne1.
      - apply (f_equal (@length N)) in Hr2. rewrite app_length in Hr2. simpl in Hr2.
        assert (1 <= length segq)%nat by (rewrite Hsq, app_length; simpl; slia). slia.
      - rewrite Hrun3. exists s3. split; [exact HA3|reflexivity]. }
    rewrite (ck_dollar_at_skip F s1 pre seg rest1 r _ _ _ HM Hasc Edq).
    destruct (N.eqb r 35 && HashComments o) eqn:Eh.
    { (* # comment *)
      destruct start; [discriminate|].
      destruct (cskip NL (length rest1) (rest1 ++ fol)) as [[n2 l2]|] eqn:Ecs; [|discriminate].
      unfold ck_hash. rewrite Eh.
      destruct (cskip_sim [35%N] NL _ _ _ _ Ecs rest1 (pre ++ seg) s1 eq_refl eq_refl HA1)
        as (segq & segq' & rest2 & s2 & Hr2 & Hsq & Hn2 & Hl2 & Hrun & HA2).
      { destruct HP as [(Hf & _)|(_ & pre' & p' & Hpre & _)]; [discriminate|].
        rewrite Hpre, !zlen_app. pose proof (zlen_nonneg pre'). pose proof (zlen_nonneg seg).
        change (zlen [p']) with 1. change (zlen [35%N]) with 1. slia. }
      rewrite Hrun. cbn [bind]. subst n2 l2.
      pattern ((pre ++ seg) ++ rest1).
      apply (conclude_eq2 _ ((pre ++ seg) ++ segq) rest2 (pre ++ seg) rest1); [rewrite Hr2, <- app_assoc; reflexivity|].
      cbv beta.
      destruct (IH _ _ _ _ _ H rest2 ((pre ++ seg) ++ segq) s2 opos F eq_refl eq_refl HA2)
        as (s3 & HA3 & Hrun3).
      - right. split; [reflexivity|]. exists ((pre ++ seg) ++ segq'), 10%N. split; [rewrite Hsq, app_assoc; reflexivity|reflexivity].
      - rewrite <- app_assoc, <- Hr2. exact Hne1.
      - rewrite Hr2, app_length in HF1. slia.
      - rewrite Hrun3. exists s3. split; [exact HA3|reflexivity]. }
    rewrite (ck_hash_skip o s1 r _ _ _ Eh).
    destruct (N.eqb r 45 && rune_is (Some (fst (decode_rune (rest1 ++ fol)))) 45) eqn:Eda.
    { (* -- comment *)
      destruct start; [discriminate|].
      destruct (length rest1) as [|n1'] eqn:Eln1; [discriminate|].
      destruct (cskip NL n1' (skipn 1 (rest1 ++ fol))) as [[n2 l2]|] eqn:Ecs; [|discriminate].
      apply andb_true_iff in Eda as [Eda1 Eda2]. apply N.eqb_eq in Eda1. subst r.
      rewrite (ck_dash_at_hit s1 pre seg rest1 _ _ _ HM Eda2).
      destruct (decode_rune (rest1 ++ fol)) as [r2 wz2] eqn:D2. cbn [fst rune_is] in Eda2.
      apply N.eqb_eq in Eda2. subst r2.
      assert (wz2 = 1) as ->.
      { pose proof (fol_app_ne rest1) as Hnn.
        destruct (decode_rune_spec _ _ _ D2 Hnn) as (_ & Ha & _). destruct (Ha ltac:(slia)) as [-> _]. reflexivity. }
      destruct (step_at s1 (pre ++ seg) rest1 45%N 1 HA1 D2 ltac:(rewrite Eln1; reflexivity))
        as (seg2 & rest1' & s1' & Hr' & Hls' & Hzs' & _ & Hsk' & Hn1' & Hnx' & _ & HA1' & Hasc').
      rewrite Hnx'. cbn [bind snd]. change (Z.to_nat 1) with 1%nat in *. rewrite Hsk' in Ecs.
      assert (n1' = length rest1') as Hn1e by (rewrite Eln1 in Hn1'; slia).
      destruct (cskip_sim [45%N; 45%N] NL _ _ _ _ Ecs rest1' ((pre ++ seg) ++ seg2) s1' eq_refl Hn1e HA1')
        as (segq & segq' & rest2 & s2 & Hr2 & Hsq & Hn2 & Hl2 & Hrun & HA2).
      { destruct HP as [(Hf & _)|(_ & pre' & p' & Hpre & _)]; [discriminate|].
        rewrite Hpre, !zlen_app. pose proof (zlen_nonneg pre'). unfold zlen in *. simpl. slia. }
      rewrite Hrun. cbn [bind]. subst n2 l2.
      pattern ((pre ++ seg) ++ rest1).
      apply (conclude_eq2 _ (((pre ++ seg) ++ seg2) ++ segq) rest2 (pre ++ seg) rest1);
        [rewrite Hr', Hr2, <- !app_assoc; reflexivity|].
      cbv beta.
      destruct (IH _ _ _ _ _ H rest2 (((pre ++ seg) ++ seg2) ++ segq) s2 opos F eq_refl eq_refl HA2)
        as (s3 & HA3 & Hrun3).
      - right. split; [reflexivity|]. exists (((pre ++ seg) ++ seg2) ++ segq'), 10%N.
        split; [rewrite Hsq, app_assoc; reflexivity|reflexivity].
      - rewrite <- !app_assoc. rewrite <- Hr2, <- Hr'. rewrite <- app_assoc in Hne1. exact Hne1.
      - apply (f_equal (@length N)) in Hr', Hr2. rewrite app_length in Hr', Hr2. slia.
      - rewrite Hrun3. exists s3. split; [exact HA3|reflexivity]. }
    rewrite (ck_dash_at_skip s1 pre seg rest1 r _ _ _ HM Eda).
    destruct (N.eqb r 47 && rune_is (Some (fst (decode_rune (rest1 ++ fol)))) 42) eqn:Esl.
    { (* block comment *)
      destruct start; [discriminate|].
      destruct (length rest1) as [|n1'] eqn:Eln1; [discriminate|].
      destruct (cskip [42%N; 47%N] n1' (skipn 1 (rest1 ++ fol))) as [[n2 l2]|] eqn:Ecs; [|discriminate].
      apply andb_true_iff in Esl as [Esl1 Esl2]. apply N.eqb_eq in Esl1. subst r.
      rewrite (ck_slash_at_hit s1 pre seg rest1 _ _ _ HM Esl2).
      destruct (decode_rune (rest1 ++ fol)) as [r2 wz2] eqn:D2. cbn [fst rune_is] in Esl2.
      apply N.eqb_eq in Esl2. subst r2.
      assert (wz2 = 1) as ->.
      { pose proof (fol_app_ne rest1) as Hnn.
        destruct (decode_rune_spec _ _ _ D2 Hnn) as (_ & Ha & _). destruct (Ha ltac:(slia)) as [-> _]. reflexivity. }
      destruct (step_at s1 (pre ++ seg) rest1 42%N 1 HA1 D2 ltac:(rewrite Eln1; reflexivity))
        as (seg2 & rest1' & s1' & Hr' & Hls' & Hzs' & _ & Hsk' & Hn1' & Hnx' & _ & HA1' & Hasc').
      rewrite Hnx'. cbn [bind snd]. change (Z.to_nat 1) with 1%nat in *. rewrite Hsk' in Ecs.
      assert (n1' = length rest1') as Hn1e by (rewrite Eln1 in Hn1'; slia).
      destruct (cskip_sim [47%N; 42%N] [42%N; 47%N] _ _ _ _ Ecs rest1' ((pre ++ seg) ++ seg2) s1' eq_refl Hn1e HA1')
        as (segq & segq' & rest2 & s2 & Hr2 & Hsq & Hn2 & Hl2 & Hrun & HA2).
      { destruct HP as [(Hf & _)|(_ & pre' & p' & Hpre & _)]; [discriminate|].
        rewrite Hpre, !zlen_app. pose proof (zlen_nonneg pre'). unfold zlen in *. simpl. slia. }
      rewrite Hrun. cbn [bind]. subst n2 l2.
      pattern ((pre ++ seg) ++ rest1).
      apply (conclude_eq2 _ (((pre ++ seg) ++ seg2) ++ segq) rest2 (pre ++ seg) rest1);
        [rewrite Hr', Hr2, <- !app_assoc; reflexivity|].
      cbv beta.
      destruct (IH _ _ _ _ _ H rest2 (((pre ++ seg) ++ seg2) ++ segq) s2 opos F eq_refl eq_refl HA2)
        as (s3 & HA3 & Hrun3).
      - right. split; [reflexivity|]. exists (((pre ++ seg) ++ seg2) ++ segq' ++ [42%N]), 47%N.
        split; [rewrite Hsq, <- !app_assoc; reflexivity|reflexivity].
      - rewrite <- !app_assoc. rewrite <- Hr2, <- Hr'. rewrite <- app_assoc in Hne1. exact Hne1.
      - apply (f_equal (@length N)) in Hr', Hr2. rewrite app_length in Hr', Hr2. slia.
      - rewrite Hrun3. exists s3. split; [exact HA3|reflexivity]. }
    rewrite (ck_slash_at_skip s1 pre seg rest1 r _ _ _ HM Esl).
    match type of H with (if ?c then _ else _) = _ => destruct c eqn:Ebg; [discriminate|] end.
    rewrite ck_endterm_skip by (destruct HA1 as (_ & _ & _ & _ & Et & _); exact Et).
    rewrite (ck_begins_at F s1 pre seg rest1 start prev _ _ _ HM HP Ebg).
    cbn [bind].
    destruct (IH _ _ _ _ _ H rest1 (pre ++ seg) s1 opos F eq_refl eq_refl HA1 HP1 Hne1 HF1)
      as (s2 & HA2 & Hrun).
    rewrite Hrun. exists s2. split; [exact HA2|reflexivity].
Qed.
End SimQ.

(** * White space *)
Lemma re_s_sp1 b : re_s b = true -> sp1 b = true.
Proof. unfold re_s, sp1. lia. Qed.

Lemma trim_left_all_s ws X : all_s ws = true -> trim_left_space (ws ++ X) = trim_left_space X.
Proof.
  induction ws as [|b ws IH]; intros H; [reflexivity|].
  cbn [all_s forallb] in H. apply andb_true_iff in H as [Hb H].
  cbn [app trim_left_space]. rewrite (re_s_sp1 b Hb). apply IH. exact H.
Qed.

Lemma all_s_not_59 ws : all_s ws = true -> ~ In 59%N ws.
Proof.
  induction ws as [|b ws IH]; intros H Hin; [destruct Hin|].
  cbn [all_s forallb] in H. apply andb_true_iff in H as [Hb H].
  destruct Hin as [->|Hin]; [discriminate|]. exact (IH H Hin).
Qed.

(** * One statement terminated by [;], with an arbitrary look-ahead [R] *)
Section Semi.
Variable o : opts.
Variable nested : scanner -> res (scanner * option Stmt).
Hypothesis Hgo : GoCommand o = false.

(** the [;] after the command: [break Scan] *)
Lemma final_semi R tail T SRC F s pre opos :
  At delimiter tail T SRC s pre (59%N :: R) -> pre <> [] -> (1 <= F)%nat ->
  exists s1, At delimiter tail T SRC s1 (pre ++ [59%N]) R /\
    stmt_loop o nested F s 0 opos = (do es <- emit o s1 (pre ++ [59%N]); Ok (snd es, Some (fst es))).
Proof.
  intros HA Hne HF. destruct F as [|F]; [lia|]. rewrite stmt_loop_S.
  destruct HA as (I & P & Tt & Dl & Et & Sr).
  assert (input s = pre ++ 59%N :: R ++ tail) as I0 by (rewrite I; reflexivity).
  rewrite stmt_iter_eq, (next_ascii_at s pre 59%N _ I0 P ltac:(lia)). cbn [bind].
  set (s1 := addPos (set_width s 1) 1).
  assert (pos s1 = zlen pre + 1) as P1 by (unfold s1; simpl; lia).
  assert (1 <= zlen pre) as Hp1 by (destruct pre; [congruence|rewrite zlen_cons; pose proof (zlen_nonneg pre); lia]).
  unfold iter_some. cbn [N.eqb Pos.eqb orb]. unfold iter_rest.
  rewrite ck_delimcmd_skip by lia.
  rewrite ck_go_skip by exact Hgo.
  rewrite (ck_delim_hit s1 _ ((59%N :: R) ++ tail)).
  - set (s2 := addPos s1 (zlen (delim s1) - width s1)).
    assert (input s2 = (pre ++ [59%N]) ++ R ++ tail) as I2.
    { unfold s2, s1. simpl. rewrite I. rewrite <- !app_assoc. reflexivity. }
    assert (pos s2 = zlen (pre ++ [59%N])) as P2.
    { unfold s2, s1. simpl. rewrite P, Dl, zlen_app. change (zlen delimiter) with 1. change (zlen [59%N]) with 1. lia. }
    rewrite I2, (slice_to_app _ _ _ P2). cbn [bind]. exists s2. split; [|reflexivity].
    unfold At. splits; auto.
    unfold s2, s1. simpl. rewrite Tt, Dl, zlen_app. change (zlen delimiter) with 1. change (zlen [59%N]) with 1. lia.
  - unfold s1. simpl. rewrite I. apply slice_from_app. lia.
  - unfold s1. simpl. rewrite Dl. reflexivity.
Qed.

End Semi.

(** a closed statement after white space, read by [stmt]; what follows the [;] is arbitrary
    (it only has to end with ASCII and a newline somewhere: the look-ahead of the walker) *)
Lemma stmt_semi o ws st R tail s f :
  GoCommand o = false -> all_s ws = true -> trimmed st = true ->
  cw o delimiter (S (length st)) true None 0 (length st) (st ++ [59%N] ++ R) = true ->
  (exists a x, [59%N] ++ R = a ++ [x; 10%N] /\ (x < 128)%N) ->
  input s = ws ++ st ++ [59%N] ++ R ++ tail -> pos s = 0 -> delim s = delimiter -> endterm s = false ->
  (length st + 3 <= f)%nat ->
  exists s' cs,
    stmt o f s = Ok (s', Some (mkStmt (total s + zlen ws) (stmt_text o delimiter st) cs)) /\
    input s' = R ++ tail /\ pos s' = 0 /\ delim s' = delimiter /\ endterm s' = false /\
    total s' = total s + zlen ws + zlen st + 1 /\ src s' = src s /\ comments s' = [].
Proof.
  intros Hgo Hws Htr Hcw Hsplit I P Dl Et Hf.
  destruct (trimmed_inv st Htr) as [Hne Hts]. destruct (trim_space_fix st Hts) as [Hss _].
  set (X := st ++ [59%N] ++ R ++ tail) in *.
  assert (starts_space X = false) as HX by (unfold X; cbn [app]; apply starts_space_app_ascii; auto; slia).
  destruct f as [|f']; [slia|].
  change (stmt o (S f') s) with (stmt_loop o (stmt o f') f' (skipSpaces s) 0 0).
  set (s0 := skipSpaces s).
  assert (input s0 = X) as I0.
  { unfold s0. simpl. rewrite I, trim_left_all_s by exact Hws. apply trim_left_id. exact HX. }
  assert (total s0 = total s + zlen ws) as T0.
  { unfold s0. simpl. fold s0. change (trim_left_space (input s)) with (input s0). rewrite I0, I, zlen_app. slia. }
  assert (At delimiter tail (total s0) (src s) s0 [] (st ++ [59%N] ++ R)) as HA0.
  { unfold At. splits; auto.
    - rewrite I0. unfold X. cbn [app]. rewrite <- !app_assoc. reflexivity.
    - rewrite zlen_nil. slia. }
  destruct (cw_simQ o delimiter ([59%N] ++ R) tail (total s0) (src s) (stmt o f') Hgo Hsplit
              ltac:(cbn; slia) ltac:(intros _; left; reflexivity)
              (fun s1 pre => At delimiter tail (total s0) (src s) s1 (pre ++ [59%N]) R) (fun x => x <> []) [59%N] 1%nat
              (fun F sx prex oposx => final_semi o (stmt o f') Hgo R tail (total s0) (src s) F sx prex oposx)
              _ _ _ _ _ _ Hcw st [] s0 0 f' eq_refl eq_refl HA0) as (s1 & HA1 & Hrun).
  { left. auto. }
  { exact Hne. }
  { slia. }
  change (Z.of_nat 0) with 0 in Hrun. rewrite Hrun. cbn [app] in *.
  destruct HA1 as (I1 & P1 & T1 & D1 & E1 & S1).
  unfold emit. rewrite I1, slice_from_app by exact P1. cbn [bind snd fst].
  eexists. eexists. split; [|splits].
  - rewrite D1. change (st ++ [59%N]) with (st ++ delimiter). rewrite (emit_text o delimiter st Htr).
    change (st ++ delimiter) with (st ++ [59%N]).
    replace (total s1 - zlen (st ++ [59%N])) with (total s + zlen ws) by slia. reflexivity.
  - reflexivity.
  - reflexivity.
  - exact D1.
  - exact E1.
  - simpl. rewrite T1, zlen_app. change (zlen [59%N]) with 1. slia.
  - exact S1.
  - reflexivity.
Qed.


(** * The words END and BEGIN *)
Lemma upper_cases x y : upper x = y -> (65 <= y <= 90)%N -> x = y \/ x = (y + 32)%N.
Proof. unfold upper. intros H Hy. destruct ((97 <=? x)%N && (x <=? 122)%N) eqn:E; lia. Qed.

Lemma end_word_cases e : is_word e W_END = true ->
  exists a b c, e = [a; b; c] /\ (a = 69 \/ a = 101)%N /\ (b = 78 \/ b = 110)%N /\ (c = 68 \/ c = 100)%N.
Proof.
  unfold is_word. intros H. apply andb_true_iff in H as [Hl H].
  destruct e as [|a [|b [|c [|x e]]]]; try discriminate.
  cbn [has_prefix_ci W_END] in H. bnorm.
  exists a, b, c. split; [reflexivity|].
  repeat split; match goal with H : upper ?x = ?y |- ?x = _ \/ _ => apply (upper_cases x y H); lia end.
Qed.

Lemma end_word_closed o e : is_word e W_END = true ->
  trimmed e = true /\ cw o delimiter (S (length e)) true None 0 (length e) (e ++ [59%N; 10%N]) = true.
Proof.
  intros H. destruct (end_word_cases e H) as (a & b & c & -> & Ha & Hb & Hc).
  assert (ClosedBridgeModel.skel_ok o [ClosedBridgeModel.PText [a; b; c]] = true) as Hs
    by (destruct Ha as [-> | ->], Hb as [-> | ->], Hc as [-> | ->]; reflexivity).
  apply ClosedBridgeProofs.skel_closed in Hs. unfold scan_closed in Hs.
  apply andb_true_iff in Hs as [H1 H2]. split; [exact H1|exact H2].
Qed.

Lemma end_word_text o e : is_word e W_END = true ->
  exists n, re_end (stmt_text o delimiter e) = Some n /\
    ((n =? length (stmt_text o delimiter e))%nat || bytes_eqb (skipn n (stmt_text o delimiter e)) delimiter) = true.
Proof.
  intros H. destruct (end_word_cases e H) as (a & b & c & -> & Ha & Hb & Hc).
  exists 3%nat. unfold stmt_text.
  destruct (OmitDelimiter o); destruct Ha as [-> | ->], Hb as [-> | ->], Hc as [-> | ->]; split; reflexivity.
Qed.

Lemma re_end_some x : is_some (re_end x) = has_prefix_ci (skip_s_list x) W_END.
Proof.
  unfold re_end. rewrite <- skip_s_snd. destruct (skip_s x) as [n0 r0]. cbn [snd].
  unfold word_ci. destruct (has_prefix_ci r0 W_END); [|reflexivity].
  destruct (skip_s (skipn (length W_END) r0)). reflexivity.
Qed.

Lemma not_in_59_W_END : ~ In (upper 59) W_END.
Proof. intros Hin. cbv in Hin. repeat (destruct Hin as [Hin|Hin]; [discriminate|]). exact Hin. Qed.

Lemma re_end_text o st : trimmed st = true -> is_some (re_end st) = false ->
  re_end (stmt_text o delimiter st) = None.
Proof.
  intros Htr He. destruct (trimmed_inv st Htr) as [Hne Hts]. destruct (trim_space_fix st Hts) as [Hss _].
  destruct st as [|a st]; [congruence|].
  assert (re_s a = false) as Ha.
  { destruct (re_s a) eqn:E; [|reflexivity]. apply re_s_sp1 in E. cbn [starts_space] in Hss. rewrite E in Hss. discriminate. }
  rewrite re_end_some in He. cbn [skip_s_list] in He. rewrite Ha in He.
  assert (is_some (re_end (stmt_text o delimiter (a :: st))) = false) as Hn.
  { unfold stmt_text. destruct (OmitDelimiter o || negb (bytes_eqb delimiter delimiter)).
    - rewrite re_end_some. cbn [skip_s_list]. rewrite Ha. exact He.
    - rewrite re_end_some. cbn [app skip_s_list]. rewrite Ha.
      destruct (has_prefix_ci (a :: st ++ delimiter) W_END) eqn:E; [|reflexivity].
      change (a :: st ++ delimiter) with ((a :: st) ++ 59%N :: []) in E.
      apply (ClosedBridgeProofs.hpci_stop 59 [] _ W_END not_in_59_W_END) in E. congruence. }
  destruct (re_end (stmt_text o delimiter (a :: st))); [discriminate|reflexivity].
Qed.

(** * The loop of skipBegin over the inner statements *)
Lemma begin_loop_S o nested f s group : begin_loop o nested (S f) s group =
    match nested group with
    | Ok (_, None) => nfail s (pos s) EEofCompound
    | Err _ => nfail s (pos s) EScanCompound
    | Ok (group', Some st) =>
      match re_end (Text st) with
      | Some n =>
        if (n =? length (Text st))%nat || bytes_eqb (skipn n (Text st)) (delim s)
        then Ok (addPos s (total group'), None)
        else begin_loop o nested f s group'
      | None =>
        if BeginEndTerminator o && re_end_term (Text st)
        then Ok (addPos s (total group'), None)
        else begin_loop o nested f s group'
      end
    | Panic => Panic
    | OutOfFuel => OutOfFuel
    end.
Proof. reflexivity. Qed.

Lemma render_inner_cons st ws r : render_inner ((st, ws) :: r) = st ++ [59%N] ++ ws ++ render_inner r.
Proof. unfold render_inner. cbn [map concat fst snd]. rewrite <- !app_assoc. reflexivity. Qed.

Lemma begin_loop_inner o e tail s f' :
  GoCommand o = false -> BeginEndTerminator o = false -> is_word e W_END = true -> delim s = delimiter ->
  forall inner W group fuel,
  inner_closed o inner (e ++ [59%N; 10%N]) = true -> all_s W = true ->
  input group = W ++ render_inner inner ++ e ++ [59%N; 10%N] ++ tail ->
  pos group = 0 -> delim group = delimiter -> endterm group = false ->
  (length (render_inner inner) + length e + 3 <= f')%nat -> (length inner + 1 <= fuel)%nat ->
  begin_loop o (stmt o f') fuel s group =
  Ok (addPos s (total group + zlen W + zlen (render_inner inner) + zlen e + 1), None).
Proof.
  intros Hgo Hbet He Hds. induction inner as [|[st ws] r IH]; intros W group fuel Hin HW I P Dl Et Hf Hfu.
  - destruct fuel as [|fuel]; [simpl in Hfu; slia|]. rewrite begin_loop_S.
    destruct (end_word_closed o e He) as [Htr Hcw].
    cbn [render_inner map concat app] in I.
    destruct (stmt_semi o W e [10%N] tail group f' Hgo HW Htr Hcw) as (g' & cs & Hs & I1 & P1 & D1 & E1 & T1 & S1 & C1); auto.
    { exists [], 59%N. split; [reflexivity|slia]. }
    rewrite Hs. cbn [Text].
    destruct (end_word_text o e He) as (n & Hre & Hc). rewrite Hre, Hds, Hc.
    do 2 f_equal. f_equal. rewrite T1. change (zlen (render_inner [])) with 0. slia.
  - destruct fuel as [|fuel]; [simpl in Hfu; slia|]. rewrite begin_loop_S.
    cbn [inner_closed] in Hin.
    apply andb_true_iff in Hin as [Hin Hr]. apply andb_true_iff in Hin as [Hin Hcw].
    apply andb_true_iff in Hin as [Hin Hne]. apply andb_true_iff in Hin as [Htr Hws].
    apply negb_true_iff in Hne.
    rewrite render_inner_cons in I.
    set (R := ws ++ render_inner r ++ e ++ [59%N; 10%N]) in *.
    assert (input group = W ++ st ++ [59%N] ++ R ++ tail) as I'.
    { rewrite I. unfold R. rewrite <- !app_assoc. reflexivity. }
    destruct (stmt_semi o W st R tail group f' Hgo HW Htr Hcw) as (g' & cs & Hs & I1 & P1 & D1 & E1 & T1 & S1 & C1); auto.
    { exists ([59%N] ++ ws ++ render_inner r ++ e), 59%N. split; [unfold R; rewrite <- !app_assoc; reflexivity|slia]. }
    { rewrite render_inner_cons, !app_length in Hf. slia. }
    rewrite Hs. cbn [Text]. rewrite (re_end_text o st Htr Hne), Hbet. cbn [andb].
    rewrite (IH ws g' fuel Hr Hws); auto.
    + do 2 f_equal. f_equal. rewrite T1, render_inner_cons, !zlen_app. change (zlen [59%N]) with 1. slia.
    + rewrite I1. unfold R. rewrite <- !app_assoc. reflexivity.
    + rewrite render_inner_cons, !app_length in Hf. slia.
    + simpl in Hfu. slia.
Qed.


(** * reBegin on  \s* BEGIN \s+ body *)
Lemma re_s_cases b : re_s b = true -> (b = 9 \/ b = 10 \/ b = 12 \/ b = 13 \/ b = 32)%N.
Proof. unfold re_s. lia. Qed.

Definition head_not_s (X : bytes) : Prop := match X with [] => True | x :: _ => re_s x = false end.

Lemma skip_s_all ws X : all_s ws = true -> head_not_s X -> skip_s (ws ++ X) = (length ws, X).
Proof.
  intros H HX. induction ws as [|b ws IH].
  - destruct X as [|x X]; [reflexivity|]. cbn [app skip_s]. cbn in HX. rewrite HX. reflexivity.
  - cbn [all_s forallb] in H. apply andb_true_iff in H as [Hb H].
    cbn [app skip_s length]. rewrite Hb, (IH H). reflexivity.
Qed.

Lemma has_prefix_ci_app_true a Y W : has_prefix_ci a W = true -> has_prefix_ci (a ++ Y) W = true.
Proof.
  revert a; induction W as [|b W IH]; intros a H; [reflexivity|].
  destruct a as [|x a]; [discriminate|]. cbn [app has_prefix_ci] in *.
  apply andb_true_iff in H as [H1 H2]. rewrite H1, (IH _ H2). reflexivity.
Qed.

Lemma begin_word_head kw : is_word kw W_BEGIN = true ->
  length kw = 5%nat /\ exists k1 kt, kw = k1 :: kt /\ (k1 = 66 \/ k1 = 98)%N.
Proof.
  unfold is_word. intros H. apply andb_true_iff in H as [Hl H]. apply Nat.eqb_eq in Hl.
  split; [exact Hl|]. destruct kw as [|k1 kt]; [discriminate|]. exists k1, kt. split; [reflexivity|].
  cbn [has_prefix_ci W_BEGIN] in H. apply andb_true_iff in H as [H _]. apply N.eqb_eq in H.
  apply (upper_cases k1 66 H). lia.
Qed.

Lemma re_begin_match W0 kw ws2 X :
  all_s W0 = true -> is_word kw W_BEGIN = true -> ws2 <> [] -> all_s ws2 = true -> head_not_s X ->
  re_begin (W0 ++ kw ++ ws2 ++ X) = Some (length W0 + 5 + length ws2)%nat.
Proof.
  intros HW Hkw Hne Hws HX. destruct (begin_word_head kw Hkw) as (Hl & k1 & kt & Hk & Hk1).
  unfold re_begin. rewrite (skip_s_all W0 (kw ++ ws2 ++ X) HW).
  2:{ rewrite Hk. cbn. destruct Hk1 as [-> | ->]; reflexivity. }
  unfold is_word in Hkw. apply andb_true_iff in Hkw as [_ Hp].
  unfold word_ci. rewrite (has_prefix_ci_app_true kw (ws2 ++ X) W_BEGIN Hp).
  change (length W_BEGIN) with 5%nat. rewrite <- Hl, skipn_app_l.
  unfold skip_s1. rewrite (skip_s_all ws2 X Hws HX).
  destruct ws2; [congruence|]. reflexivity.
Qed.

Lemma directive_none inp : has_prefix inp [45%N; 45%N] = false -> directive_delimiter inp = None.
Proof.
  intros H. unfold directive_delimiter.
  destruct (has_prefix (printable_prefix inp) S_HDR) eqn:E; [|reflexivity]. exfalso.
  destruct inp as [|a [|b inp]]; cbn [printable_prefix] in E.
  - discriminate.
  - destruct (printable a); cbn in E; rewrite ?andb_false_r in E; discriminate.
  - destruct (printable a); [|discriminate]. destruct (printable b).
    + cbn in E, H. apply andb_true_iff in E as [E1 E]. apply andb_true_iff in E as [E2 _].
      rewrite E1, E2 in H. discriminate.
    + cbn in E. rewrite ?andb_false_r in E. discriminate.
Qed.

(** * The final step of the outer walk: the white-space byte, the B of BEGIN, skipBegin *)
Section BeginFin.
Variable o : opts.
Variable f' : nat.
Variable tail : bytes.
Variable T : Z.
Variable SRC : bytes.
Hypothesis Hgo : GoCommand o = false.
Hypothesis HMB : MatchBegin o = true.
Hypothesis HMA : MatchBeginAtomic o = false.
Hypothesis HMT : MatchBeginTryCatch o = false.
Hypothesis HBET : BeginEndTerminator o = false.
Variable ws1 : N.
Variable kw ws2 : bytes.
Variable inner : list (bytes * bytes).
Variable e : bytes.
Hypothesis Hws1 : re_s ws1 = true.
Hypothesis Hkw : is_word kw W_BEGIN = true.
Hypothesis Hws2 : all_s ws2 = true.
Hypothesis Hws2ne : ws2 <> [].
Hypothesis He : is_word e W_END = true.
Hypothesis Hbody : head_not_s (render_inner inner ++ e).
Hypothesis Hdd : has_prefix (render_inner inner ++ e) [45%N; 45%N] = false.
Hypothesis Hinner : inner_closed o inner (e ++ [59%N; 10%N]) = true.
Hypothesis Hf' : (length (render_inner inner) + length e + 3 <= f')%nat.

Notation BODY := (render_inner inner).
Notation TL := (kw ++ ws2 ++ BODY ++ e ++ [59%N; 10%N]).
Notation nested := (stmt o f').

Lemma head_not_s_app X Y : X <> [] -> head_not_s X -> head_not_s (X ++ Y).
Proof. destruct X; [congruence|]. auto. Qed.

Lemma body_ne : BODY ++ e <> [].
Proof. destruct (end_word_cases e He) as (a & b & c & -> & _). destruct BODY; discriminate. Qed.

Lemma ws1_step F s pre' p opos :
  At delimiter tail T SRC s (pre' ++ [p]) (ws1 :: TL) -> re_s p = false ->
  exists s1, At delimiter tail T SRC s1 ((pre' ++ [p]) ++ [ws1]) TL /\
    stmt_iter o nested F s 0 opos = Ok (Continue s1 0 opos).
Proof.
  intros HA Hp. pose proof HA as (I & P & Tt & Dl & Et & Sr).
  pose proof (re_s_cases ws1 Hws1) as Hc.
  assert (input s = (pre' ++ [p]) ++ ws1 :: TL ++ tail) as I0 by (rewrite I; reflexivity).
  rewrite stmt_iter_eq, (next_ascii_at s (pre' ++ [p]) ws1 _ I0 P ltac:(slia)). cbn [bind].
  set (s1 := addPos (set_width s 1) 1).
  assert (At delimiter tail T SRC s1 ((pre' ++ [p]) ++ [ws1]) TL) as HA1.
  { apply At_move with (pre := pre' ++ [p]) (l := ws1 :: TL); [exact HA| |].
    - rewrite <- !app_assoc. reflexivity.
    - rewrite zlen_app. reflexivity. }
  assert (pos s1 = zlen pre' + 2) as P1 by (unfold s1; simpl; rewrite P, zlen_app; change (zlen [p]) with 1; slia).
  pose proof (zlen_nonneg pre') as Hp0.
  assert (delim s1 = delimiter) as D1 by exact Dl.
  exists s1. split; [exact HA1|].
  assert (N.eqb ws1 40 = false /\ N.eqb ws1 41 = false /\ N.eqb ws1 39 = false /\ N.eqb ws1 34 = false /\
          N.eqb ws1 96 = false /\ N.eqb ws1 36 = false /\ N.eqb ws1 35 = false /\ N.eqb ws1 45 = false /\
          N.eqb ws1 47 = false /\ N.eqb ws1 59 = false /\ N.eqb (upper ws1) 69 = false)
    as (E40 & E41 & E39 & E34 & E96 & E36 & E35 & E45 & E47 & E59 & EU)
    by (destruct Hc as [-> |[-> |[-> |[-> | ->]]]]; repeat split; reflexivity).
  unfold iter_some. rewrite E40, E41, E39, E34, E96. cbn [orb]. unfold iter_rest.
  rewrite ck_delimcmd_skip by slia.
  rewrite ck_go_skip by exact Hgo.
  rewrite ck_delim_skip.
  2:{ intros _. exists ((ws1 :: TL) ++ tail). split.
      - unfold s1. simpl. rewrite I. apply slice_from_app. slia.
      - rewrite D1. cbn [app has_prefix delimiter]. rewrite E59. reflexivity. }
  rewrite ck_dollar_skip by (rewrite E36, andb_false_r; discriminate).
  rewrite ck_hash_skip by (rewrite E35; reflexivity).
  rewrite ck_dash_skip by (rewrite E45; discriminate).
  rewrite ck_slash_skip by (rewrite E47; discriminate).
  rewrite ck_endterm_skip by exact Et.
  rewrite ck_atomic_skip by (rewrite HMA, andb_false_r; discriminate).
  rewrite ck_try_skip by (rewrite HMT, andb_false_r; discriminate).
  rewrite ck_begin_skip; [reflexivity|].
  intros _. split; [slia|]. intros _.
  exists ((p :: ws1 :: TL) ++ tail). split.
  - unfold s1. simpl. rewrite I.
    replace ((pre' ++ [p]) ++ (ws1 :: TL) ++ tail) with (pre' ++ ((p :: ws1 :: TL) ++ tail))
      by (repeat (rewrite <- app_assoc || cbn [app]); reflexivity).
    apply slice_from_app. rewrite P, zlen_app. change (zlen [p]) with 1. slia.
  - unfold re_begin. cbn [app skip_s]. rewrite Hp. unfold word_ci. cbn [has_prefix_ci W_BEGIN].
    rewrite EU, andb_false_r. reflexivity.
Qed.

Lemma b_step F s pre0 opos :
  At delimiter tail T SRC s (pre0 ++ [ws1]) TL -> pre0 <> [] -> (length inner + 1 <= F)%nat ->
  exists s4, At delimiter tail T SRC s4 (pre0 ++ [ws1] ++ kw ++ ws2 ++ BODY ++ e ++ [59%N]) [10%N] /\
    stmt_iter o nested F s 0 opos = Ok (Break s4 (pre0 ++ [ws1] ++ kw ++ ws2 ++ BODY ++ e ++ [59%N])).
Proof.
  intros HA Hne HF. pose proof HA as (I & P & Tt & Dl & Et & Sr).
  destruct (begin_word_head kw Hkw) as (Hl & k1 & kt & Hk & Hk1).
  assert (1 <= zlen pre0) as Hp0 by (destruct pre0; [congruence|rewrite zlen_cons; pose proof (zlen_nonneg pre0); slia]).
  assert (zlen (pre0 ++ [ws1]) = zlen pre0 + 1) as Hz1 by (rewrite zlen_app; reflexivity).
  assert (input s = (pre0 ++ [ws1]) ++ k1 :: (kt ++ ws2 ++ BODY ++ e ++ [59%N; 10%N]) ++ tail) as I0.
  { rewrite I, Hk. rewrite <- !app_assoc. reflexivity. }
  assert (k1 < 128)%N as Hk128 by slia.
  rewrite stmt_iter_eq, (next_ascii_at s (pre0 ++ [ws1]) k1 _ I0 P Hk128). cbn [bind].
  set (s2 := addPos (set_width s 1) 1).
  assert (input s2 = input s) as I2 by reflexivity.
  assert (pos s2 = zlen pre0 + 2) as P2 by (unfold s2; simpl; slia).
  assert (width s2 = 1) as W2 by reflexivity.
  assert (delim s2 = delimiter) as D2 by exact Dl.
  assert (N.eqb k1 40 = false /\ N.eqb k1 41 = false /\ N.eqb k1 39 = false /\ N.eqb k1 34 = false /\
          N.eqb k1 96 = false /\ N.eqb k1 36 = false /\ N.eqb k1 35 = false /\ N.eqb k1 45 = false /\
          N.eqb k1 47 = false /\ N.eqb k1 59 = false)
    as (E40 & E41 & E39 & E34 & E96 & E36 & E35 & E45 & E47 & E59)
    by (destruct Hk1 as [-> | ->]; repeat split; reflexivity).
  unfold iter_some. rewrite E40, E41, E39, E34, E96. cbn [orb]. unfold iter_rest.
  rewrite ck_delimcmd_skip by slia.
  rewrite ck_go_skip by exact Hgo.
  rewrite ck_delim_skip.
  2:{ intros _. exists (TL ++ tail). split.
      - rewrite I2, I, P2, W2. apply slice_from_app. slia.
      - rewrite D2, Hk. cbn [app has_prefix delimiter]. rewrite E59. reflexivity. }
  rewrite ck_dollar_skip by (rewrite E36, andb_false_r; discriminate).
  rewrite ck_hash_skip by (rewrite E35; reflexivity).
  rewrite ck_dash_skip by (rewrite E45; discriminate).
  rewrite ck_slash_skip by (rewrite E47; discriminate).
  rewrite ck_endterm_skip by exact Et.
  rewrite ck_atomic_skip by (rewrite HMA, andb_false_r; discriminate).
  rewrite ck_try_skip by (rewrite HMT, andb_false_r; discriminate).
  (* isBegin *)
  set (X := BODY ++ e ++ [59%N; 10%N] ++ tail).
  assert (head_not_s X) as HXh.
  { unfold X. rewrite app_assoc. apply head_not_s_app; [apply body_ne|exact Hbody]. }
  assert (TL ++ tail = kw ++ ws2 ++ X) as HTL by (unfold X; rewrite <- !app_assoc; reflexivity).
  unfold ck_begin. rewrite D2, bytes_eqb_refl, HMB. cbn [andb].
  replace (pos s2 =? 1) with false by slia. replace (1 <? pos s2) with true by slia.
  assert (slice_from (input s2) (pos s2 - 2) = Ok ([ws1] ++ kw ++ ws2 ++ X)) as ->.
  { rewrite I2, I, <- app_assoc, HTL. apply slice_from_app. slia. }
  cbn [bind].
  rewrite (re_begin_match [ws1] kw ws2 X) by (auto; cbn; rewrite Hws1; reflexivity).
  cbn [is_some].
  (* skipBegin *)
  unfold skipBegin.
  assert (slice_from (input s2) (pos s2 - 1) = Ok (kw ++ ws2 ++ X)) as ->.
  { rewrite I2, I, HTL. apply slice_from_app. slia. }
  cbn [bind].
  pose proof (re_begin_match [] kw ws2 X eq_refl Hkw Hws2ne Hws2 HXh) as Hrb.
  change (length (@nil N) + 5 + length ws2)%nat with (5 + length ws2)%nat in Hrb. cbn [app] in Hrb.
  rewrite Hrb.
  set (s3 := addPos s2 (Z.of_nat (5 + length ws2) - 1)).
  assert (input s3 = (pre0 ++ [ws1] ++ kw ++ ws2) ++ X) as I3.
  { change (input s3) with (input s). rewrite I, HTL, <- !app_assoc. reflexivity. }
  assert (pos s3 = zlen (pre0 ++ [ws1] ++ kw ++ ws2)) as P3.
  { change (pos s3) with (pos s2 + (Z.of_nat (5 + length ws2) - 1)). rewrite P2.
    rewrite !zlen_app. unfold zlen. rewrite Hl. cbn [length]. slia. }
  rewrite I3, slice_from_app by exact P3. cbn [bind].
  unfold init. rewrite directive_none.
  2:{ unfold X. rewrite app_assoc, has_prefix_app_len; [exact Hdd|].
      destruct (end_word_cases e He) as (a & b & c & -> & _). rewrite app_length. simpl. slia. }
  set (group := mkScanner X X 0 0 0 delimiter [] (endterm (new_scanner (BeginEndTerminator o)))).
  assert (delim s3 = delimiter) as D3 by exact Dl.
  rewrite (begin_loop_inner o e tail s3 f' Hgo HBET He D3 inner [] group F Hinner eq_refl); auto.
  unfold after_block. cbn [bind].
  set (s4 := addPos s3 _).
  assert (input s4 = (pre0 ++ [ws1] ++ kw ++ ws2 ++ BODY ++ e ++ [59%N]) ++ [10%N] ++ tail) as I4.
  { change (input s4) with (input s3). rewrite I3. unfold X. rewrite <- !app_assoc. reflexivity. }
  assert (pos s4 = zlen (pre0 ++ [ws1] ++ kw ++ ws2 ++ BODY ++ e ++ [59%N])) as P4.
  { change (pos s4) with (pos s3 + (total group + zlen [] + zlen BODY + zlen e + 1)). rewrite P3.
    change (total group) with 0. rewrite !zlen_app. unfold zlen. cbn [length]. slia. }
  rewrite I4, slice_to_app by exact P4. cbn [bind].
  exists s4. split; [|reflexivity].
  unfold At. splits; auto.
  change (total s4) with (total s + 1 + (Z.of_nat (5 + length ws2) - 1) + (total group + zlen [] + zlen BODY + zlen e + 1)).
  rewrite Tt. change (total group) with 0. rewrite !zlen_app. unfold zlen. rewrite Hl. cbn [length]. slia.
Qed.

(** the final step of the outer walk *)
Lemma final_begin F s pre opos :
  At delimiter tail T SRC s pre (ws1 :: TL) ->
  (exists pre' p, pre = pre' ++ [p] /\ re_s p = false) -> (length inner + 3 <= F)%nat ->
  exists s4, At delimiter tail T SRC s4 (pre ++ [ws1] ++ kw ++ ws2 ++ BODY ++ e ++ [59%N]) [10%N] /\
    stmt_loop o nested F s 0 opos =
    (do es <- emit o s4 (pre ++ [ws1] ++ kw ++ ws2 ++ BODY ++ e ++ [59%N]); Ok (snd es, Some (fst es))).
Proof.
  intros HA (pre' & p & -> & Hp) HF.
  destruct F as [|F]; [slia|]. rewrite stmt_loop_S.
  destruct (ws1_step F s pre' p opos HA Hp) as (s1 & HA1 & Hit). rewrite Hit. cbn [bind].
  destruct F as [|F]; [slia|]. rewrite stmt_loop_S.
  destruct (b_step F s1 (pre' ++ [p]) opos HA1) as (s4 & HA4 & Hit4).
  { destruct pre'; discriminate. }
  { slia. }
  rewrite Hit4. cbn [bind]. exists s4. split; [exact HA4|reflexivity].
Qed.
End BeginFin.


(** * The whole command *)
Lemma cw_dashdash o f n l : cw o delimiter (S f) true None 0 (S (S n)) (45%N :: 45%N :: l) = false.
Proof. rewrite ClosedProofs.cw_S. destruct (MatchDollarQuote o); reflexivity. Qed.

Lemma inner_length inner : (length inner <= length (render_inner inner))%nat.
Proof.
  induction inner as [|[st ws] r IH]; [simpl; lia|].
  rewrite render_inner_cons, !app_length. simpl length. lia.
Qed.

(** the body of the block does not start with "--" (a statement cannot start with a comment) *)
Lemma body_no_dashdash o inner e :
  inner_closed o inner (e ++ [59%N; 10%N]) = true -> is_word e W_END = true ->
  has_prefix (render_inner inner ++ e) [45%N; 45%N] = false.
Proof.
  intros Hin He. destruct inner as [|[st ws] r].
  - destruct (end_word_cases e He) as (a & b & c & -> & Ha & _). cbn.
    destruct Ha as [-> | ->]; reflexivity.
  - cbn [inner_closed] in Hin.
    apply andb_true_iff in Hin as [Hin _]. apply andb_true_iff in Hin as [Hin Hcw].
    apply andb_true_iff in Hin as [Hin _]. apply andb_true_iff in Hin as [Htr _].
    rewrite render_inner_cons.
    destruct st as [|x [|y st]]; [discriminate| |].
    + cbn. destruct (N.eqb x 45); reflexivity.
    + destruct (has_prefix (((x :: y :: st) ++ [59%N] ++ ws ++ render_inner r) ++ e) [45%N; 45%N]) eqn:E; [|reflexivity].
      cbn [app has_prefix] in E. apply andb_true_iff in E as [E1 E]. apply andb_true_iff in E as [E2 _].
      apply N.eqb_eq in E1, E2. subst x y. cbn [length app] in Hcw. rewrite cw_dashdash in Hcw. discriminate.
Qed.

Theorem stmt_gap_closed_begin o b g tail s f :
  scan_closed_begin o b = true -> Gap delimiter g ->
  input s = g ++ render_begin b ++ [59%N; 10%N] ++ tail -> pos s = 0 -> delim s = delimiter -> endterm s = false ->
  (length g + 2 * length (render_begin b) + 10 <= f)%nat ->
  exists s' cs,
    stmt o f s = Ok (s', Some (mkStmt (total s + zlen g) (stmt_text o delimiter (render_begin b)) cs)) /\
    input s' = 10%N :: tail /\ pos s' = 0 /\ delim s' = delimiter /\ endterm s' = false /\
    total s' = total s + zlen g + zlen (render_begin b) + 1 /\ src s' = src s /\ comments s' = [].
Proof.
  intros Hsc HG I P Dl Et Hf.
  unfold scan_closed_begin in Hsc.
  repeat match type of Hsc with (_ && _ = true) => let H := fresh "C" in apply andb_true_iff in Hsc as [Hsc H] end.
  rename C into Cend, C0 into Cinner, C1 into Cbody, C2 into Cws2, C3 into Cws2ne, C4 into Ckw,
         C5 into Cws1, C6 into Ccw, C7 into Cpre, C8 into Ctr.
  unfold begin_opts in Hsc.
  repeat match type of Hsc with (_ && _ = true) => let H := fresh "O" in apply andb_true_iff in Hsc as [Hsc H] end.
  apply negb_true_iff in O, O0, O1, O2. rename Hsc into HMB, O into HBET, O0 into Hgo, O1 into HMT, O2 into HMA.
  destruct b as [pre ws1 kw ws2 inner e]. unfold render_begin in *. cbn [bc_pre bc_ws1 bc_kw bc_ws2 bc_inner bc_end] in *.
  set (BODY := render_inner inner) in *.
  set (fol := [ws1] ++ kw ++ ws2 ++ BODY ++ e ++ [59%N; 10%N]) in *.
  set (fd := [ws1] ++ kw ++ ws2 ++ BODY ++ e ++ [59%N]).
  set (cmd := pre ++ [ws1] ++ kw ++ ws2 ++ BODY ++ e) in *.
  assert (cmd ++ [59%N] = pre ++ fd) as Hcmd by (unfold cmd, fd; rewrite <- !app_assoc; reflexivity).
  destruct (trimmed_inv cmd Ctr) as [Hne Hts]. destruct (trim_space_fix cmd Hts) as [Hss _].
  set (X := cmd ++ [59%N; 10%N] ++ tail) in *.
  assert (starts_space X = false) as HX by (unfold X; cbn [app]; apply starts_space_app_ascii; auto; slia).
  assert (gap_delim_ok delimiter) as Hgd by (intros Hx; discriminate).
  destruct f as [|f']; [slia|].
  change (stmt o (S f') s) with (stmt_loop o (stmt o f') f' (skipSpaces s) 0 0).
  destruct (gap_loop o (stmt o f') delimiter X Hgo HX g (Gap_GapS delimiter g Hgd HG) (skipSpaces s) 0 f')
    as (s0 & F0 & I0 & P0 & D0 & E0 & S0 & T0 & HF0 & Hloop).
  { simpl. rewrite I. reflexivity. }
  { exact P. }
  { exact Dl. }
  { slia. }
  rewrite Hloop.
  assert (total s0 = total s + zlen g) as T0'.
  { simpl in T0. rewrite I, zlen_app in T0. slia. }
  assert (At delimiter tail (total s0) (src s) s0 [] (pre ++ fol)) as HA0.
  { unfold At. splits; auto.
    - rewrite I0. unfold X, cmd, fol. repeat (rewrite <- app_assoc || cbn [app]). reflexivity.
    - rewrite zlen_nil. slia.
    - rewrite E0. exact Et. }
  assert (exists pre' p, pre = pre' ++ [p] /\ re_s p = false) as HNE.
  { apply negb_true_iff in Cpre. destruct (rev pre) as [|x r] eqn:Er; [discriminate|].
    exists (rev r), x. split; [|exact Cpre]. rewrite <- (rev_involutive pre), Er. reflexivity. }
  assert (ws2 <> []) as Hws2ne by (destruct ws2; [discriminate|discriminate]).
  assert (head_not_s (BODY ++ e)) as Hbody.
  { apply negb_true_iff in Cbody. destruct (BODY ++ e); [discriminate|exact Cbody]. }
  pose proof (body_no_dashdash o inner e Cinner Cend) as Hdd.
  pose proof (inner_length inner) as Hil. fold BODY in Hil.
  assert (length cmd = length pre + 1 + length kw + length ws2 + length BODY + length e)%nat as Hlc
    by (unfold cmd; rewrite !app_length; simpl; slia).
  assert (length BODY + length e + 3 <= f')%nat as Hf' by slia.
  destruct (cw_simQ o delimiter fol tail (total s0) (src s) (stmt o f') Hgo
              ltac:(exists ([ws1] ++ kw ++ ws2 ++ BODY ++ e), 59%N; split; [unfold fol; rewrite <- !app_assoc; reflexivity|slia])
              ltac:(unfold fol; cbn; slia)
              ltac:(intros _; unfold fol; rewrite !app_assoc; apply in_or_app; right; left; reflexivity)
              (fun s4 p => At delimiter tail (total s0) (src s) s4 (p ++ fd) [10%N])
              (fun p => exists pre' q, p = pre' ++ [q] /\ re_s q = false)
              fd (length inner + 3)%nat
              (final_begin o f' tail (total s0) (src s) Hgo HMB HMA HMT HBET ws1 kw ws2 inner e
                           Cws1 Ckw Cws2 Hws2ne Cend Hbody Hdd Cinner Hf')
              _ _ _ _ _ _ Ccw pre [] s0 0 F0 eq_refl eq_refl HA0) as (s4 & HA4 & Hrun).
  { left. auto. }
  { exact HNE. }
  { slia. }
  change (Z.of_nat 0) with 0 in Hrun. rewrite Hrun. cbn [app] in *.
  rewrite <- Hcmd in *.
  destruct HA4 as (I4 & P4 & T4 & D4 & E4 & S4).
  unfold emit. rewrite I4, slice_from_app by exact P4. cbn [bind snd fst].
  eexists. eexists. split; [|splits].
  - rewrite D4. change (cmd ++ [59%N]) with (cmd ++ delimiter). rewrite (emit_text o delimiter cmd Ctr).
    change (cmd ++ delimiter) with (cmd ++ [59%N]).
    replace (total s4 - zlen (cmd ++ [59%N])) with (total s + zlen g) by slia. reflexivity.
  - reflexivity.
  - reflexivity.
  - exact D4.
  - exact E4.
  - simpl. rewrite T4, zlen_app. change (zlen [59%N]) with 1. slia.
  - exact S4.
  - reflexivity.
Qed.
