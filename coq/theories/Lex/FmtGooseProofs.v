From Coq Require Import List NArith ZArith Bool Arith Lia.
From Atlas Require Import Base.Bytes Lex.LexModel Lex.LexProofs Lex.ClosedModel Lex.ClosedNLModel Lex.ClosedProofs Lex.ClosedNLProofs Lex.FmtModel Lex.FmtProofs.
Import ListNotations.

(** * GooseFile.StmtDecls on the file GooseFormatter writes *)

(** a line the loop copies unchanged in state [up] *)
Definition goose_line_ok (l : bytes) : bool :=
  negb (has_prefix l S_GOOSE) && negb (re_goose_pragma l) && bytes_eqb (trim_right_space l) l.
(** the delimiter line is inserted after a line ending in ';' that is not a "--" line *)
Definition goose_ends (l : bytes) : bool := has_suffix l [59%N] && negb (has_prefix l [45%N; 45%N]).
Definition goose_rewrite (ls : list bytes) : list bytes :=
  flat_map (fun l => if goose_ends l then [l; GOOSE_DELIM] else [l]) ls.

Lemma goose_loop_good : forall ls acc rest, forallb goose_line_ok ls = true ->
  goose_loop (ls ++ rest) GUp acc = goose_loop rest GUp (rev (goose_rewrite ls) ++ acc).
Proof.
  induction ls as [|l ls IH]; intros acc rest H; [reflexivity|].
  simpl in H. apply andb_true_iff in H as [Hl Hls]. unfold goose_line_ok in Hl.
  apply andb_true_iff in Hl as [Hl H3]. apply andb_true_iff in Hl as [H1 H2].
  rewrite negb_true_iff in H1, H2. apply bytes_eqb_eq in H3.
  cbn [goose_loop app]. rewrite H1. rewrite H2. cbn [negb andb]. rewrite H3.
  unfold goose_rewrite. cbn [flat_map]. fold (goose_rewrite ls). unfold goose_ends.
  destruct (has_suffix l [59%N] && negb (has_prefix l [45%N; 45%N])) eqn:E.
  - cbn [andb]. rewrite IH by exact Hls. cbn [app rev]. repeat rewrite <- app_assoc. reflexivity.
  - cbn [andb]. rewrite IH by exact Hls. cbn [app rev]. repeat rewrite <- app_assoc. reflexivity.
Qed.

Lemma join_cons_ne x L : L <> [] -> join S_NL (x :: L) = x ++ S_NL ++ join S_NL L.
Proof. destruct L; [congruence|reflexivity]. Qed.

Lemma lines_join_app_n n : forall U L, (length U <= n)%nat -> complete U -> ~ In 13%N U -> L <> [] ->
  join S_NL (ulines U ++ L) = U ++ join S_NL L.
Proof.
  induction n as [|n IH]; intros U L Hl Hc Hcr HL.
  - destruct U; [reflexivity|simpl in Hl; lia].
  - destruct U as [|x U0] eqn:EU; [reflexivity|]. rewrite <- EU in *.
    destruct (complete_split U Hc) as (a & r & E & Ha & Hcr' & Hlen); [rewrite EU; discriminate|].
    assert (Hcra : ~ In 13%N a) by (intros H; apply Hcr; rewrite E; apply in_or_app; left; exact H).
    assert (Hcrr : ~ In 13%N r) by (intros H; apply Hcr; rewrite E; apply in_or_app; right; right; exact H).
    rewrite E at 1. unfold ulines. rewrite ulines_acc_line by exact Ha. cbn [rev app]. rewrite drop_cr_id by exact Hcra.
    fold (ulines r). cbn [app]. rewrite join_cons_ne.
    + rewrite IH; [|lia|exact Hcr'|exact Hcrr|exact HL]. rewrite E. unfold S_NL. repeat rewrite <- app_assoc. reflexivity.
    + destruct (ulines r); [exact HL|discriminate].
Qed.
Lemma lines_join_app U L : complete U -> ~ In 13%N U -> L <> [] -> join S_NL (ulines U ++ L) = U ++ join S_NL L.
Proof. intros. eapply lines_join_app_n; eauto. Qed.

Lemma lines_app_complete U V : complete U -> ~ In 13%N U -> ulines (U ++ V) = ulines U ++ ulines V.
Proof. intros Hc Hr. destruct (ulines_complete U V Hc Hr) as [H _]. exact H. Qed.

(** first / blank / Down ulines *)
Lemma goose_first rest acc :
  goose_loop ((S_GOOSE ++ [32;85;112]%N) :: rest) GNone acc = goose_loop rest GUp acc.
Proof. reflexivity. Qed.
Lemma goose_blank rest acc : goose_loop ([] :: rest) GUp acc = goose_loop rest GUp ([] :: acc).
Proof. reflexivity. Qed.
Lemma goose_down rest acc :
  goose_loop ((S_GOOSE ++ [32;68;111;119;110]%N) :: rest) GUp acc = GLines (rev acc).
Proof. reflexivity. Qed.

Definition goose_hdr : bytes := S_DELIM_DIRECTIVE ++ GOOSE_DELIM.

(** the text handed to the scanner, for an up section [U] of good ulines *)
Lemma goose_text_up U D : complete U -> ~ In 13%N U -> forallb goose_line_ok (ulines U) = true ->
  goose_text (S_GOOSE_UP ++ U ++ S_GOOSE_DOWN ++ D) =
  Some (join S_NL ([goose_hdr; []] ++ goose_rewrite (ulines U) ++ [[]])).
Proof.
  intros Hc Hcr Hl. unfold goose_text.
  assert (E : lines (S_GOOSE_UP ++ U ++ S_GOOSE_DOWN ++ D) =
              (S_GOOSE ++ [32;85;112]%N) :: ulines U ++ [] :: (S_GOOSE ++ [32;68;111;119;110]%N) :: lines D).
  { unfold S_GOOSE_UP, S_GOOSE_DOWN.
    replace ((S_GOOSE ++ [32; 85; 112; 10]%N) ++ U ++ ([10%N] ++ S_GOOSE ++ [32; 68; 111; 119; 110; 10]%N) ++ D)
      with ((S_GOOSE ++ [32;85;112]%N) ++ 10%N :: (U ++ ([] ++ 10%N :: ((S_GOOSE ++ [32;68;111;119;110]%N) ++ 10%N :: D))))
      by (repeat (rewrite <- app_assoc; simpl); reflexivity).
    rewrite lines_cons by (vm_compute; intuition discriminate).
    rewrite (lines_short U _ Hc Hcr).
    rewrite lines_cons by (vm_compute; intuition discriminate).
    rewrite lines_cons by (vm_compute; intuition discriminate).
    reflexivity. }
  rewrite E. rewrite goose_first. rewrite goose_loop_good by exact Hl. rewrite goose_blank, goose_down.
  f_equal. f_equal. cbn [rev]. rewrite rev_app_distr, rev_involutive. cbn [rev app].
  reflexivity.
Qed.

(** ** per-change condition and the rewritten text *)
Fixpoint lb_eqb (a b : list bytes) : bool :=
  match a, b with
  | [], [] => true
  | x :: a', y :: b' => bytes_eqb x y && lb_eqb a' b'
  | _, _ => false
  end.
Lemma lb_eqb_eq a : forall b, lb_eqb a b = true -> a = b.
Proof.
  induction a as [|x a IH]; intros [|y b] H; simpl in H; try discriminate; [reflexivity|].
  apply andb_true_iff in H as [H1 H2]. apply bytes_eqb_eq in H1. rewrite H1, (IH _ H2). reflexivity.
Qed.

(** decidable, on the bytes the formatter writes for one change: every line is copied unchanged,
    the delimiter line is inserted exactly once, after the last line; no carriage return; the
    comment line does not read as the delimiter line *)
Definition goose_change_ok (c : change) : bool :=
  forallb goose_line_ok (ulines (tool_change c))
  && lb_eqb (goose_rewrite (ulines (tool_change c))) (ulines (tool_change c) ++ [GOOSE_DELIM])
  && negb (existsb (N.eqb 13) (tool_change c))
  && negb (has_prefix (tool_comment S_DASH2_SP (c_comment c)) GOOSE_DELIM).

Lemma tool_change_complete c : complete (tool_change c).
Proof.
  right. unfold tool_change, S_SEMI_NL. exists (tool_comment S_DASH2_SP (c_comment c) ++ c_cmd c ++ [59%N]).
  repeat rewrite <- app_assoc. reflexivity.
Qed.

Lemma not_existsb_13 x : negb (existsb (N.eqb 13) x) = true -> ~ In 13%N x.
Proof.
  rewrite negb_true_iff. intros H Hin. assert (existsb (N.eqb 13) x = true); [|congruence].
  apply existsb_exists. exists 13%N. split; [exact Hin|reflexivity].
Qed.

Lemma goose_rewrite_app a b : goose_rewrite (a ++ b) = goose_rewrite a ++ goose_rewrite b.
Proof. unfold goose_rewrite. apply flat_map_app. Qed.

Lemma complete_app a b : complete a -> complete b -> complete (a ++ b).
Proof.
  intros Ha [->|[b' ->]]; [rewrite app_nil_r; exact Ha|]. right. exists (a ++ b'). rewrite app_assoc. reflexivity.
Qed.

Lemma goose_up_facts cs : Forall (fun c => goose_change_ok c = true) cs ->
  complete (concat (map tool_change cs)) /\ ~ In 13%N (concat (map tool_change cs)) /\
  forallb goose_line_ok (ulines (concat (map tool_change cs))) = true /\
  forall L, L <> [] ->
    join S_NL (goose_rewrite (ulines (concat (map tool_change cs))) ++ L) =
    concat (map (fun c => tool_change c ++ GOOSE_DELIM ++ [10%N]) cs) ++ join S_NL L.
Proof.
  induction cs as [|c cs IH]; intros Hall.
  - repeat split; try reflexivity; [left; reflexivity|intros []].
  - apply Forall_cons_iff in Hall as [Hc Hall]. destruct (IH Hall) as (I1 & I2 & I3 & I4).
    unfold goose_change_ok in Hc. apply andb_true_iff in Hc as [Hc H4].
    apply andb_true_iff in Hc as [Hc H3].
    apply andb_true_iff in Hc as [H1 H2]. apply lb_eqb_eq in H2. apply not_existsb_13 in H3.
    pose proof (tool_change_complete c) as Hcc.
    cbn [map concat].
    assert (Hl : ulines (tool_change c ++ concat (map tool_change cs)) =
                 ulines (tool_change c) ++ ulines (concat (map tool_change cs)))
      by (apply lines_app_complete; assumption).
    split; [apply complete_app; assumption|].
    split; [intros Hin; apply in_app_or in Hin as [Hin|Hin]; auto|].
    split; [rewrite Hl, forallb_app, H1, I3; reflexivity|].
    intros L HL. rewrite Hl, goose_rewrite_app, H2. repeat rewrite <- app_assoc.
    rewrite lines_join_app; [|exact Hcc|exact H3|discriminate].
    cbn [app]. rewrite join_cons_ne.
    + rewrite I4 by exact HL. unfold S_NL. repeat rewrite <- app_assoc. reflexivity.
    + destruct (goose_rewrite (ulines (concat (map tool_change cs)))); [exact HL|discriminate].
Qed.

Lemma goose_text_plan p : Forall (fun c => goose_change_ok c = true) (p_changes p) ->
  goose_text (goose_content p) =
  Some (goose_hdr ++ 10%N :: 10%N :: concat (map (fun c => tool_change c ++ GOOSE_DELIM ++ [10%N]) (p_changes p))).
Proof.
  intros Hall. destruct (goose_up_facts _ Hall) as (H1 & H2 & H3 & H4).
  unfold goose_content, tool_up. rewrite goose_text_up by assumption. f_equal.
  cbn [app]. rewrite join_cons_ne by discriminate. rewrite join_cons_ne.
  - rewrite H4 by discriminate. cbn [join]. rewrite app_nil_r. unfold S_NL. reflexivity.
  - destruct (goose_rewrite (ulines (concat (map tool_change (p_changes p))))); discriminate.
Qed.

(** ** the Goose round trip *)
Definition goose_seg (c : change) : bytes * bytes := (tool_comment S_DASH2_SP (c_comment c), c_cmd c ++ [59%N]).

Lemma goose_delim_same : GOOSE_DELIM = GOOSE_DELIM_NL. Proof. reflexivity. Qed.
Lemma goose_hdr_line : goose_hdr = delim_line GOOSE_DELIM. Proof. reflexivity. Qed.

Lemma goose_segs_bytes cs :
  concat (map (fun c => tool_change c ++ GOOSE_DELIM ++ [10%N]) cs) = segs_bytes_nl GOOSE_DELIM (map goose_seg cs).
Proof.
  unfold segs_bytes_nl. rewrite map_map. f_equal. apply map_ext. intros c.
  unfold seg_bytes_nl, goose_seg, tool_change, S_SEMI_NL. cbn [fst snd]. repeat rewrite <- app_assoc. reflexivity.
Qed.

Definition goose_plan_ok (p : plan) : Prop :=
  Forall (fun c => goose_change_ok c = true /\ comment_ok (c_comment c) = true /\
                   scan_closed_nl opts_generic GOOSE_DELIM (c_cmd c ++ [59%N]) = true) (p_changes p).

Theorem goose_roundtrip o p : goose_plan_ok p ->
  texts (read FGoose o (goose_content p)) = Some (map (fun c => stmt_text opts_generic delimiter (c_cmd c)) (p_changes p)).
Proof.
  intros Hall. unfold read.
  rewrite goose_text_plan by (eapply Forall_impl; [|exact Hall]; intros c (H & _); exact H).
  rewrite goose_hdr_line, goose_segs_bytes.
  destruct goose_delim_ok as (D1 & D2 & D3 & D4). rewrite <- goose_delim_same in *.
  unfold Stmts, scan, Scan.
  set (body := 10%N :: segs_bytes_nl GOOSE_DELIM (map goose_seg (p_changes p))).
  destruct (init_delim GOOSE_DELIM body D1) as (s & Hs & Hi & Hp & Hd & He).
  rewrite Hs. cbn [bind].
  destruct (scan_loop_closed_nl_gen opts_generic GOOSE_DELIM [] eq_refl D1 D2 D3 (gap_nil _) (map goose_seg (p_changes p)))
    with (pg := [10%N]) (s := s) (f := fuel_of (delim_line GOOSE_DELIM ++ 10%N :: body)) (acc := @nil Stmt)
    as (ss & Hss & Ht & _); auto.
  - intros gc Hin. apply in_map_iff in Hin as (c & <- & Hc).
    pose proof (proj1 (Forall_forall _ _) Hall c Hc) as (G1 & G2 & G3). cbn [fst snd goose_seg]. split; [|exact G3].
    unfold goose_change_ok in G1. apply andb_true_iff in G1 as [_ G4]. rewrite negb_true_iff in G4.
    unfold tool_comment in *. destruct (c_comment c) as [|x cm] eqn:Ec; [constructor|].
    unfold S_DASH2_SP, S_NL in *.
    change ([45%N; 45%N; 32%N] ++ (x :: cm) ++ [10%N]) with ([45%N; 45%N] ++ [32%N] ++ (x :: cm) ++ [10%N]).
    apply comment_line_gap; [intros [E|[]]; discriminate|exact G2|exact G4].
  - repeat constructor.
  - rewrite Hi. unfold body. rewrite app_nil_r. reflexivity.
  - rewrite Hi. unfold fuel_of. rewrite app_length. cbn [length]. lia.
  - rewrite Hss. cbn [app rev of_scan texts]. rewrite Ht. rewrite !map_map. f_equal.
Qed.
