(** M-FMT: the directory formatters and readers as byte-producing / byte-consuming functions.

    Writers: sql/migrate/dir.go: DefaultFormatter (TemplateFormatter.Format over the content
    template), directives, delim; sql/sqltool/tool.go: GolangMigrateFormatter, GooseFormatter,
    FlywayFormatter, LiquibaseFormatter, DBMateFormatter, reverse.
    Readers: migrate.FileStmts(drv, *LocalFile) = the dialect scanner; LocalFile.Stmts =
    migrate.Stmts (generic options); GooseFile.StmtDecls, DBMateFile.StmtDecls (line filters in
    front of migrate.Stmts); the file selection/order of LocalDir.Files, GolangMigrateDir.Files,
    FlywayDir.Files (flywayFiles.add/names, flywayVersion, flywayVersionCompare).

    text/template is not modelled: each template is transcribed into the concatenation it
    denotes (checked byte for byte by the tie on every case).  [now] (the timestamp in the file
    names / Liquibase changeset ids) is a parameter.  No proofs here. *)
From Coq Require Import List NArith ZArith Bool Arith.
From Atlas Require Import Base.Bytes Lex.LexModel Lex.ClosedModel.
Import ListNotations.

(** migrate.Change: Cmd, Comment, ReverseStmts() *)
Record change := mkChange { c_cmd : bytes; c_comment : bytes; c_reverse : list bytes }.

(** migrate.Plan: Version, Name, Delimiter, Directives, Changes *)
Record plan := mkPlan {
  p_version : bytes; p_name : bytes; p_delim : bytes; p_directives : list bytes;
  p_changes : list change }.

Inductive format := FAtlas | FGolangMigrate | FGoose | FFlyway | FLiquibase | FDBMate.

Definition str (l : list nat) : bytes := map N.of_nat l.
Definition S_DASH2_SP : bytes := [45;45;32]%N.                       (* "-- " *)
Definition S_SEMI_NL : bytes := [59;10]%N.                           (* ";\n" *)
Definition S_NL : bytes := [10%N].
(* "-- atlas:delimiter " *)
Definition S_DELIM_DIRECTIVE : bytes := S_HDR ++ [32%N].
(* "-- reverse: " *)
Definition S_REVERSE : bytes := [45;45;32;114;101;118;101;114;115;101;58;32]%N.
(* "-- +goose Up\n", "\n-- +goose Down\n" *)
Definition S_GOOSE : bytes := [45;45;32;43;103;111;111;115;101]%N.   (* "-- +goose" *)
Definition S_GOOSE_UP : bytes := S_GOOSE ++ [32;85;112;10]%N.
Definition S_GOOSE_DOWN : bytes := [10%N] ++ S_GOOSE ++ [32;68;111;119;110;10]%N.
(* "-- migrate:up\n", "\n-- migrate:down\n" *)
Definition S_DBMATE : bytes := [45;45;32;109;105;103;114;97;116;101;58]%N.  (* "-- migrate:" *)
Definition S_DBMATE_UP : bytes := S_DBMATE ++ [117;112;10]%N.
Definition S_DBMATE_DOWN : bytes := [10%N] ++ S_DBMATE ++ [100;111;119;110;10]%N.
(* "--liquibase formatted sql", "\n--changeset atlas:", "--comment: ", "--rollback: " *)
Definition S_LIQUIBASE : bytes :=
  [45;45;108;105;113;117;105;98;97;115;101;32;102;111;114;109;97;116;116;101;100;32;115;113;108]%N.
Definition S_CHANGESET : bytes :=
  [10;45;45;99;104;97;110;103;101;115;101;116;32;97;116;108;97;115;58]%N.
Definition S_LCOMMENT : bytes := [45;45;99;111;109;109;101;110;116;58;32]%N.
Definition S_ROLLBACK : bytes := [45;45;114;111;108;108;98;97;99;107;58;32]%N.

(** decimal text of a number ([inc $index] printed by the template) *)
Fixpoint dec_digits (fuel : nat) (n : N) (acc : bytes) : bytes :=
  match fuel with
  | O => acc
  | S f => let acc' := (48 + N.modulo n 10)%N :: acc in
           if (n <? 10)%N then acc' else dec_digits f (N.div n 10) acc'
  end.
Definition dec (n : N) : bytes := dec_digits (S (N.to_nat (N.log2 n))) n [].

(** ** sql/migrate/dir.go *)

(** delim: strings.NewReplacer("\n", `\n`, "\r", `\r`, "\t", `\t`).Replace, prefixed. *)
Fixpoint escape_delim (s : bytes) : bytes :=
  match s with
  | [] => []
  | b :: t =>
    if N.eqb b 10 then 92%N :: 110%N :: escape_delim t
    else if N.eqb b 13 then 92%N :: 114%N :: escape_delim t
    else if N.eqb b 9 then 92%N :: 116%N :: escape_delim t
    else b :: escape_delim t
  end.
Definition delim_line (d : bytes) : bytes := S_DELIM_DIRECTIVE ++ escape_delim d.

(** strings.Join *)
Fixpoint join (sep : bytes) (l : list bytes) : bytes :=
  match l with
  | [] => []
  | [x] => x
  | x :: t => x ++ sep ++ join sep t
  end.

(** directives (the error paths — invalid directive, duplicate delimiter — are outside the model:
    the callers pass well-formed non-delimiter directives). *)
Definition directives (p : plan) : bytes :=
  let ds := (match p_delim p with [] => [] | d => [delim_line d] end) ++ p_directives p in
  match ds with
  | [] => []
  | _ => join S_NL ds ++ [10;10]%N
  end.

(** [slice . 0 1 | upper]: strings.ToUpper of the one-byte string: ASCII letters fold, a byte
    >= 0x80 is an invalid encoding and strings.Map replaces it by U+FFFD. *)
Definition upper1 (b : N) : bytes :=
  if (b <? 128)%N then [upper b] else [239;191;189]%N.

(** DefaultFormatter, per change: [{{ with .Comment }}{{ printf "-- %s%s\n" ... }}{{ end }}]. *)
Definition atlas_comment (c : bytes) : bytes :=
  match c with
  | [] => []
  | b :: t => S_DASH2_SP ++ upper1 b ++ t ++ S_NL
  end.
Definition or_delim (d : bytes) : bytes := match d with [] => delimiter | _ => d end.
Definition atlas_change (d : bytes) (c : change) : bytes :=
  atlas_comment (c_comment c) ++ c_cmd c ++ or_delim d ++ S_NL.
Definition atlas_content (p : plan) : bytes :=
  directives p ++ concat (map (atlas_change (p_delim p)) (p_changes p)).

(** ** sql/sqltool/tool.go *)

(** [{{ with .Comment }}-- {{ println . }}{{ end }}{{ printf "%s;\n" .Cmd }}] *)
Definition tool_comment (pre c : bytes) : bytes :=
  match c with [] => [] | _ => pre ++ c ++ S_NL end.
Definition tool_change (c : change) : bytes :=
  tool_comment S_DASH2_SP (c_comment c) ++ c_cmd c ++ S_SEMI_NL.
Definition tool_up (p : plan) : bytes := concat (map tool_change (p_changes p)).

(** reverse (sqltool.reverse = list reversal) and the down template. *)
Definition tool_down_change (c : change) : bytes :=
  match c_reverse c with
  | [] => []
  | rs => tool_comment S_REVERSE (c_comment c) ++ concat (map (fun r => r ++ S_SEMI_NL) rs)
  end.
Definition tool_down (p : plan) : bytes := concat (map tool_down_change (rev (p_changes p))).

Definition goose_content (p : plan) : bytes := S_GOOSE_UP ++ tool_up p ++ S_GOOSE_DOWN ++ tool_down p.
Definition dbmate_content (p : plan) : bytes := S_DBMATE_UP ++ tool_up p ++ S_DBMATE_DOWN ++ tool_down p.

(** funcs["rollback"] (fix ae3e356): "--rollback: " + strings.ReplaceAll(stmt, "\n", "\n--rollback: ") + ";\n"
    — every line of a multi-line reverse statement carries the comment prefix. *)
Fixpoint rollback_lines (s : bytes) : bytes :=
  match s with
  | [] => []
  | b :: t => if N.eqb b 10 then 10%N :: S_ROLLBACK ++ rollback_lines t else b :: rollback_lines t
  end.
Definition liquibase_rollback (r : bytes) : bytes := S_ROLLBACK ++ rollback_lines r ++ S_SEMI_NL.

Fixpoint liquibase_changes (now : bytes) (i : N) (cs : list change) : bytes :=
  match cs with
  | [] => []
  | c :: t =>
    S_CHANGESET ++ now ++ [45%N] ++ dec (i + 1) ++ S_NL ++
    (match c_comment c with [] => [] | cm => S_LCOMMENT ++ cm end) ++ S_NL ++
    c_cmd c ++ S_SEMI_NL ++
    concat (map liquibase_rollback (c_reverse c)) ++
    liquibase_changes now (i + 1) t
  end.
Definition liquibase_content (now : bytes) (p : plan) : bytes :=
  S_LIQUIBASE ++ liquibase_changes now 0 (p_changes p).

(** file names *)
Definition S_SQL : bytes := [46;115;113;108]%N.              (* ".sql" *)
Definition S_UP_SQL : bytes := [46;117;112]%N ++ S_SQL.      (* ".up.sql" *)
Definition S_DOWN_SQL : bytes := [46;100;111;119;110]%N ++ S_SQL.
Definition with_name (sep name : bytes) : bytes := match name with [] => [] | _ => sep ++ name end.
Definition atlas_name (now : bytes) (p : plan) : bytes :=
  (match p_version p with [] => now | v => v end) ++ with_name [95%N] (p_name p) ++ S_SQL.

(** Formatter.Format: the files (name, content) in template order. *)
Definition format_files (F : format) (now : bytes) (p : plan) : list (bytes * bytes) :=
  let base := now ++ with_name [95%N] (p_name p) in
  match F with
  | FAtlas => [(atlas_name now p, atlas_content p)]
  | FGolangMigrate => [(base ++ S_UP_SQL, tool_up p); (base ++ S_DOWN_SQL, tool_down p)]
  | FGoose => [(base ++ S_SQL, goose_content p)]
  | FFlyway => [([86%N] ++ now ++ with_name [95;95]%N (p_name p) ++ S_SQL, tool_up p);
                ([85%N] ++ now ++ with_name [95;95]%N (p_name p) ++ S_SQL, tool_down p)]
  | FLiquibase => [(base ++ S_SQL, liquibase_content now p)]
  | FDBMate => [(base ++ S_SQL, dbmate_content p)]
  end.

(** the file the matching reader executes ("up") *)
Definition up_content (F : format) (now : bytes) (p : plan) : bytes :=
  match F with
  | FAtlas => atlas_content p
  | FGolangMigrate | FFlyway => tool_up p
  | FGoose => goose_content p
  | FLiquibase => liquibase_content now p
  | FDBMate => dbmate_content p
  end.

(** ** readers *)

(** bufio.Scanner with ScanLines: split at "\n", drop one trailing "\r" per line, a final line
    without newline is a line if non-empty.  Since fix C07-sqltool-scanner-buffer the readers size
    the scanner's buffer to the file ([sc.Buffer(nil, len+1)]) and report [sc.Err()]: no line is
    too long any more, the split is total. *)
Definition drop_cr (l : bytes) : bytes :=
  match rev l with 13%N :: r => rev r | _ => l end.
Fixpoint ulines_acc (s : bytes) (cur : bytes) : list bytes :=
  match s with
  | [] => match cur with [] => [] | _ => [drop_cr (rev cur)] end
  | b :: t => if N.eqb b 10 then drop_cr (rev cur) :: ulines_acc t [] else ulines_acc t (b :: cur)
  end.
Definition ulines (s : bytes) : list bytes := ulines_acc s [].
Definition lines (s : bytes) : list bytes := ulines s.

(** strings.Contains *)
Definition contains (s p : bytes) : bool := match index_of s p with Some _ => true | None => false end.

(** reGoosePragma = "^" + QuoteMeta("-- +goose") + " (?:Up|Down|StatementBegin|StatementEnd)" and
    reDBMatePragma = "^-- migrate:(?:up|down)" (fix C07-pragma-regexp-grouping: grouped and anchored;
    before the fix the alternation was ungrouped and every line containing Down / StatementBegin /
    StatementEnd / down anywhere matched). *)
Definition S_Up : bytes := [85;112]%N.
Definition S_Down : bytes := [68;111;119;110]%N.
Definition S_StatementBegin : bytes := [83;116;97;116;101;109;101;110;116;66;101;103;105;110]%N.
Definition S_StatementEnd : bytes := [83;116;97;116;101;109;101;110;116;69;110;100]%N.
Definition re_goose_pragma (line : bytes) : bool :=
  has_prefix line (S_GOOSE ++ [32%N] ++ S_Up) || has_prefix line (S_GOOSE ++ [32%N] ++ S_Down)
  || has_prefix line (S_GOOSE ++ [32%N] ++ S_StatementBegin) || has_prefix line (S_GOOSE ++ [32%N] ++ S_StatementEnd).
Definition S_down : bytes := [100;111;119;110]%N.
Definition S_up : bytes := [117;112]%N.
Definition re_dbmate_pragma (line : bytes) : bool :=
  has_prefix line (S_DBMATE ++ S_up) || has_prefix line (S_DBMATE ++ S_down).
(** the ungrouped patterns of the tree before the fix (kept for the record of the defect) *)
Definition re_goose_pragma_ungrouped (line : bytes) : bool :=
  contains line (S_GOOSE ++ [32%N] ++ S_Up) || contains line S_Down
  || contains line S_StatementBegin || contains line S_StatementEnd.
Definition re_dbmate_pragma_ungrouped (line : bytes) : bool :=
  contains line (S_DBMATE ++ S_up) || contains line S_down.

(** "-- ATLAS_DELIM_END" *)
Definition GOOSE_DELIM : bytes :=
  [45;45;32;65;84;76;65;83;95;68;69;76;73;77;95;69;78;68]%N.

Inductive gstate := GNone | GUp | GBegin | GEnd.
Inductive gres := GLines (l : list bytes) | GUnexpectedPragma.

(** GooseFile.StmtDecls: the loop over the lines; [acc] = lines written so far (reversed). *)
Fixpoint goose_loop (ls : list bytes) (st : gstate) (acc : list bytes) : gres :=
  match ls with
  | [] => GLines (rev acc)
  | line :: rest =>
    (* pragma handling: Some st' = go on, None = break Scan, error *)
    let pr :=
      if has_prefix line S_GOOSE then
        let arg := trim_space (trim_prefix line S_GOOSE) in
        if bytes_eqb arg S_Up then
          match st with GNone => inl (Some GUp) | _ => inr tt end
        else if bytes_eqb arg S_Down then
          match st with GUp => inl None | _ => inr tt end
        else if bytes_eqb arg S_StatementBegin then
          match st with GUp => inl (Some GBegin) | _ => inr tt end
        else if bytes_eqb arg S_StatementEnd then
          match st with GBegin => inl (Some GEnd) | _ => inr tt end
        else inl (Some st)
      else inl (Some st) in
    match pr with
    | inr _ => GUnexpectedPragma
    | inl None => GLines (rev acc)
    | inl (Some st1) =>
      let acc1 :=
        if negb (re_goose_pragma line) && negb (match st1 with GEnd => true | _ => false end) then
          let l1 := trim_right_space line in
          let acc' := l1 :: acc in
          if (match st1 with GUp => true | _ => false end) && has_suffix l1 [59%N]
             && negb (has_prefix l1 [45;45]%N)
          then GOOSE_DELIM :: acc' else acc'
        else acc in
      match st1 with
      | GEnd => goose_loop rest GUp (GOOSE_DELIM :: acc1)
      | _ => goose_loop rest st1 acc1
      end
    end
  end.
Definition goose_text (content : bytes) : option bytes :=
  match goose_loop (lines content) GNone [ [] ; S_DELIM_DIRECTIVE ++ GOOSE_DELIM ] with
  | GLines l => Some (join S_NL l)
  | GUnexpectedPragma => None
  end.

(** strings.Fields(s)[0]: the first white-space separated field ([] when there is none) *)
Fixpoint take_field (s : bytes) : bytes :=
  match s with
  | [] => []
  | a :: t =>
    if sp1 a then [] else
    match t with
    | b :: t2 =>
      if sp2 a b then [] else
      match t2 with
      | c :: _ => if sp3 a b c then [] else a :: take_field t
      | [] => a :: take_field t
      end
    | [] => [a]
    end
  end.
Definition first_field (s : bytes) : bytes := take_field (trim_left_space s).

(** DBMateFile.StmtDecls (fix C07-dbmate-directive-options: the direction is the first field after
    "-- migrate:", options such as transaction:false may follow) *)
Fixpoint dbmate_loop (ls : list bytes) (isup : bool) (acc : list bytes) : list bytes :=
  match ls with
  | [] => rev acc
  | line :: rest =>
    let pr :=
      if has_prefix line S_DBMATE then
        let arg := first_field (trim_prefix line S_DBMATE) in
        if bytes_eqb arg S_up then Some true
        else if bytes_eqb arg S_down then None
        else Some isup
      else Some isup in
    match pr with
    | None => rev acc
    | Some up1 =>
      dbmate_loop rest up1 (if negb (re_dbmate_pragma line) && up1 then line :: acc else acc)
    end
  end.
Definition dbmate_text (content : bytes) : bytes := join S_NL (dbmate_loop (lines content) false []).

Inductive rres := RStmts (l : list Stmt) | RScanErr (e : errkind) | RPragmaErr | RBad.
Definition of_scan (r : res (list Stmt)) : rres :=
  match r with Ok l => RStmts l | Err e => RScanErr (e_kind e) | _ => RBad end.

(** the statements the matching reader returns for the up file: migrate.FileStmts(drv, f) for
    *LocalFile (atlas, liquibase: the dialect options [o]); f.StmtDecls() otherwise. *)
Definition read (F : format) (o : opts) (content : bytes) : rres :=
  match F with
  | FAtlas | FLiquibase => of_scan (scan o content)
  | FGolangMigrate | FFlyway => of_scan (Stmts content)
  | FGoose => match goose_text content with
              | Some t => of_scan (Stmts t)
              | None => RPragmaErr
              end
  | FDBMate => of_scan (Stmts (dbmate_text content))
  end.

Definition texts (r : rres) : option (list bytes) :=
  match r with RStmts l => Some (map Text l) | _ => None end.

(** ** file selection and order *)

(** insertion sort by a strict order (the Go sorts are unstable; the callers have no ties) *)
Fixpoint insert_by (lt : bytes -> bytes -> bool) (x : bytes) (l : list bytes) : list bytes :=
  match l with
  | [] => [x]
  | y :: t => if lt y x then y :: insert_by lt x t else x :: l
  end.
Definition sort_by (lt : bytes -> bytes -> bool) (l : list bytes) : list bytes :=
  fold_right (insert_by lt) [] l.

(** LocalDir.Files: names with suffix ".sql", sorted; GolangMigrateDir.Files: "*.up.sql", sorted. *)
Definition local_files (names : list bytes) : list bytes :=
  sort_by bytes_ltb (filter (fun n => has_suffix n S_SQL) names).
Definition golang_files (names : list bytes) : list bytes :=
  sort_by bytes_ltb (filter (fun n => has_suffix n S_UP_SQL) names).

(** flywayVersion: strings.SplitN(TrimSuffix(base, ".sql"), "__", 2)[0][1:]; "" for R files. *)
Definition before_sep2 (s : bytes) : bytes :=
  match index_of s [95;95]%N with Some i => firstn i s | None => s end.
Definition flyway_version (name : bytes) : bytes :=
  match name with
  | 82%N :: _ => []
  | _ => skipn 1 (before_sep2 (trim_suffix name S_SQL))
  end.
(** strings.Split(strings.ReplaceAll(s, "_", "."), ".") then Atoi (0 for non-numeric) *)
Fixpoint split_dots (s cur : bytes) : list bytes :=
  match s with
  | [] => [rev cur]
  | b :: t => if N.eqb b 46 || N.eqb b 95 then rev cur :: split_dots t [] else split_dots t (b :: cur)
  end.
Definition atoi0 (s : bytes) : Z :=
  let '(neg, dgs) := match s with
                     | 43%N :: t => (false, t)
                     | 45%N :: t => (true, t)
                     | _ => (false, s)
                     end in
  match dgs with
  | [] => 0%Z
  | _ => match digits_val dgs 0 with
         | Some v => if neg then (- Z.of_N v)%Z else Z.of_N v
         | None => 0%Z
         end
  end.
Definition flyway_parse (v : bytes) : list Z := map atoi0 (split_dots v []).
(** slices.Compare *)
Fixpoint zs_compare (a b : list Z) : comparison :=
  match a, b with
  | [], [] => Eq
  | [], _ => Lt
  | _, [] => Gt
  | x :: a', y :: b' => match Z.compare x y with Eq => zs_compare a' b' | c => c end
  end.
Definition flyway_lt (a b : bytes) : bool :=
  match zs_compare (flyway_parse (flyway_version a)) (flyway_parse (flyway_version b)) with
  | Lt => true | _ => false end.

(** flywayFiles.add over the walk order (names in one directory, lexical order of fs.WalkDir) *)
Record ffiles := mkFF { ff_base : option bytes; ff_versioned : list bytes; ff_repeatable : list bytes }.
Definition flyway_add (ff : ffiles) (name : bytes) : ffiles :=
  match name with
  | 66%N :: _ =>
    match ff_base ff with
    | Some b0 => if bytes_ltb (flyway_version name) (flyway_version b0) then ff
                 else mkFF (Some name)
                           (filter (fun v => bytes_ltb (flyway_version name) v) (ff_versioned ff))
                           (ff_repeatable ff)
    | None => mkFF (Some name)
                   (filter (fun v => bytes_ltb (flyway_version name) v) (ff_versioned ff))
                   (ff_repeatable ff)
    end
  | 86%N :: _ =>
    match ff_base ff with
    | Some b0 => if bytes_ltb (flyway_version b0) (flyway_version name)
                 then mkFF (ff_base ff) (ff_versioned ff ++ [name]) (ff_repeatable ff) else ff
    | None => mkFF (ff_base ff) (ff_versioned ff ++ [name]) (ff_repeatable ff)
    end
  | 82%N :: _ => mkFF (ff_base ff) (ff_versioned ff) (ff_repeatable ff ++ [name])
  | _ => ff
  end.
Definition flyway_candidate (name : bytes) : bool :=
  has_suffix name S_SQL && (4 <=? length name)%nat &&
  match name with b :: _ => N.eqb b 86 || N.eqb b 66 || N.eqb b 82 | [] => false end.
Definition flyway_files (names : list bytes) : list bytes :=
  let ff := fold_left flyway_add (filter flyway_candidate (sort_by bytes_ltb names)) (mkFF None [] []) in
  (match ff_base ff with Some b => [b] | None => [] end)
  ++ sort_by flyway_lt (ff_versioned ff) ++ sort_by flyway_lt (ff_repeatable ff).

Definition dir_files (F : format) (names : list bytes) : list bytes :=
  match F with
  | FGolangMigrate => golang_files names
  | FFlyway => flyway_files names
  | _ => local_files names
  end.

(** ** the round trip: what the matching reader returns for the up file a formatter writes, and
    what property C07 requires (the planned commands, as Scanner.emit reports a statement) *)
Definition roundtrip (F : format) (o : opts) (now : bytes) (p : plan) : option (list bytes) :=
  texts (read F o (up_content F now p)).
Definition planned (o : opts) (d : bytes) (p : plan) : option (list bytes) :=
  Some (map (fun c => stmt_text o d (c_cmd c)) (p_changes p)).
(** the scanner options / delimiter the matching reader uses *)
Definition reader_opts (F : format) (o : opts) : opts :=
  match F with FAtlas | FLiquibase => o | _ => opts_generic end.
Definition reader_delim (F : format) (p : plan) : bytes :=
  match F with FAtlas => or_delim (p_delim p) | _ => delimiter end.
