(** The flag of one ALTER TABLE is the conjunction over its arms, and its reverse holds the inverse of
    every arm, last arm first. *)
From Coq Require Import List NArith Bool Arith Lia.
From Atlas Require Import Base.Bytes Lex.DownAlterModel.
Import ListNotations.

Lemma alter_loop_spec arms : forall acc b,
  snd (alter_loop arms acc b) = b && forallb arm_reversible arms /\
  (snd (alter_loop arms acc b) = true ->
   fst (alter_loop arms acc b) = acc ++ filter arm_has_inverse arms).
Proof.
  induction arms as [|a arms IH]; intros acc b; simpl.
  - split; [now rewrite andb_true_r|intros _; now rewrite app_nil_r].
  - unfold arm_reversible, arm_has_inverse. destruct (a_kind a); simpl.
    + destruct (IH (acc ++ [a]) b) as [H1 H2]. split; [exact H1|]. intros H. rewrite (H2 H), <- app_assoc. reflexivity.
    + destruct (IH (acc ++ [a]) b) as [H1 H2]. split; [exact H1|]. intros H. rewrite (H2 H), <- app_assoc. reflexivity.
    + destruct b; simpl.
      * destruct (IH (acc ++ [a]) true) as [H1 H2]. split; [exact H1|]. intros H. rewrite (H2 H), <- app_assoc. reflexivity.
      * destruct (IH acc false) as [H1 H2]. split; [exact H1|]. intros H. rewrite H1 in H. discriminate.
    + destruct b; simpl; destruct (IH acc false) as [H1 H2]; (split; [exact H1|]); intros H; rewrite H1 in H; discriminate.
    + destruct (IH (acc ++ [a]) false) as [H1 H2]. split; [now rewrite H1, andb_false_r|].
      intros H. rewrite H1 in H. discriminate.
    + destruct (IH acc false) as [H1 H2]. split; [now rewrite H1, andb_false_r|].
      intros H. rewrite H1 in H. discriminate.
Qed.

Lemma alter_reverse_spec arms :
  alter_reverse arms =
  if forallb arm_reversible arms then Some (rev (filter arm_has_inverse arms)) else None.
Proof.
  unfold alter_reverse. destruct (alter_loop_spec arms [] true) as [H1 H2].
  destruct (alter_loop arms [] true) as [r b] eqn:E. simpl in *. subst b.
  destruct (forallb arm_reversible arms); [|reflexivity]. now rewrite (H2 eq_refl).
Qed.

Lemma forallb_filter_perm {A} (f g : A -> bool) l :
  forallb f (filter g l ++ filter (fun a => negb (g a)) l) = forallb f l.
Proof.
  rewrite forallb_app. induction l as [|x l IH]; simpl; [reflexivity|].
  destruct (g x); simpl; rewrite <- IH.
  - now rewrite andb_assoc.
  - rewrite !andb_assoc. f_equal. apply andb_comm.
Qed.

Lemma alter_mysql_lemma arms :
  alterTable_mysql arms =
  if forallb arm_reversible arms then Some (rev (filter arm_has_inverse arms)) else None.
Proof. apply alter_reverse_spec. Qed.

Lemma alter_postgres_lemma arms :
  alterTable_postgres arms =
  if forallb arm_reversible arms then Some (rev (filter arm_has_inverse (pg_sorted arms))) else None.
Proof.
  unfold alterTable_postgres. rewrite alter_reverse_spec. unfold pg_sorted.
  now rewrite forallb_filter_perm.
Qed.

Lemma filter_all {A} (f : A -> bool) l : forallb f l = true -> filter f l = l.
Proof.
  induction l as [|x l IH]; simpl; [reflexivity|]. intros H. apply andb_true_iff in H as [H1 H2].
  now rewrite H1, IH.
Qed.

Lemma inverse_all arms :
  forallb arm_reversible arms = true -> filter arm_has_inverse arms = arms.
Proof.
  intros R. apply filter_all. rewrite forallb_forall in *. intros a Ha.
  specialize (R a Ha). unfold arm_reversible, arm_has_inverse in *.
  destruct (a_kind a); try reflexivity; discriminate.
Qed.

Lemma forallb_pg_sorted (f : arm -> bool) arms : forallb f (pg_sorted arms) = forallb f arms.
Proof. apply forallb_filter_perm. Qed.

Lemma alter_flag_lemma arms :
  (alterTable_mysql arms <> None <-> forallb arm_reversible arms = true) /\
  (alterTable_postgres arms <> None <-> forallb arm_reversible arms = true).
Proof.
  rewrite alter_mysql_lemma, alter_postgres_lemma.
  destruct (forallb arm_reversible arms); split; split; intros H; try reflexivity; try discriminate; congruence.
Qed.

Lemma alter_complete_lemma arms r :
  (alterTable_mysql arms = Some r -> r = rev arms) /\
  (alterTable_postgres arms = Some r -> r = rev (pg_sorted arms)).
Proof.
  rewrite alter_mysql_lemma, alter_postgres_lemma.
  destruct (forallb arm_reversible arms) eqn:R; split; intros H; try discriminate; inversion H.
  - now rewrite (inverse_all arms R).
  - rewrite inverse_all; [reflexivity|]. now rewrite forallb_pg_sorted.
Qed.
