(** The flag of one ALTER TABLE is the conjunction over its arms, and its reverse holds the inverse of
    every arm, last arm first. *)
From Coq Require Import List NArith Bool Arith Lia.
From Atlas Require Import Base.Bytes Lex.DownAlterModel.
Import ListNotations.

Lemma alter_loop_spec arms : forall acc b,
  snd (alter_loop arms acc b) = b && forallb arm_reversible arms /\
  (snd (alter_loop arms acc b) = true ->
   fst (alter_loop arms acc b) = acc ++ map inverse_arm (filter arm_has_inverse arms)).
Proof.
  induction arms as [|a arms IH]; intros acc b; cbn [alter_loop forallb filter map].
  - split; [now rewrite andb_true_r|intros _; now rewrite app_nil_r].
  - assert (Step : forall x b', b' = b && arm_reversible a ->
              (b' = true -> arm_has_inverse a = true /\ x = inverse_arm a) ->
              snd (alter_loop arms (acc ++ [x]) b') = b && (arm_reversible a && forallb arm_reversible arms) /\
              (snd (alter_loop arms (acc ++ [x]) b') = true ->
               fst (alter_loop arms (acc ++ [x]) b') =
               acc ++ map inverse_arm (if arm_has_inverse a then a :: filter arm_has_inverse arms else filter arm_has_inverse arms))).
    { intros x b' Eb Hx. destruct (IH (acc ++ [x]) b') as [H1 H2]. split; [now rewrite H1, Eb, andb_assoc|].
      intros H. rewrite (H2 H). rewrite H1 in H. apply andb_true_iff in H as [Hb' _].
      destruct (Hx Hb') as [Hi ->]. rewrite Hi. cbn [map]. now rewrite <- app_assoc. }
    assert (Skip : forall b', b' = b && arm_reversible a -> (b' = true -> arm_has_inverse a = false) ->
              snd (alter_loop arms acc b') = b && (arm_reversible a && forallb arm_reversible arms) /\
              (snd (alter_loop arms acc b') = true ->
               fst (alter_loop arms acc b') =
               acc ++ map inverse_arm (if arm_has_inverse a then a :: filter arm_has_inverse arms else filter arm_has_inverse arms))).
    { intros b' Eb Hx. destruct (IH acc b') as [H1 H2]. split; [now rewrite H1, Eb, andb_assoc|].
      intros H. rewrite (H2 H). rewrite H1 in H. apply andb_true_iff in H as [Hb' _]. now rewrite (Hx Hb'). }
    unfold arm_reversible, arm_has_inverse, inverse_arm in *. destruct (a_kind a) as [| | | | |k|] eqn:Ek.
    + apply Step; [now rewrite andb_true_r|intros _; now split].
    + apply Step; [now rewrite andb_true_r|intros _; now split].
    + destruct b; cbn [andb].
      * apply (Step a true); [reflexivity|intros _; now split].
      * apply (Skip false); [reflexivity|discriminate].
    + destruct b; cbn [andb]; apply (Skip false); try reflexivity; discriminate.
    + apply (Step a false); [now rewrite andb_false_r|discriminate].
    + apply Step.
      * destruct (k_generated k); [now rewrite andb_false_r|now rewrite andb_true_r].
      * intros Hb. split; [reflexivity|reflexivity].
    + apply (Skip false); [now rewrite andb_false_r|discriminate].
Qed.

Lemma alter_reverse_spec arms :
  alter_reverse arms =
  if forallb arm_reversible arms then Some (rev (map inverse_arm (filter arm_has_inverse arms))) else None.
Proof.
  unfold alter_reverse. destruct (alter_loop_spec arms [] true) as [H1 H2].
  destruct (alter_loop arms [] true) as [r b] eqn:E. simpl in *. subst b.
  destruct (forallb arm_reversible arms); [|reflexivity]. now rewrite (H2 eq_refl).
Qed.

Lemma forallb_filter_perm {A} (f g : A -> bool) l :
  forallb f (filter g l ++ filter (fun a => negb (g a)) l) = forallb f l.
Proof.
  rewrite forallb_app. induction l as [|x l IH]; simpl; [reflexivity|].
  destruct (g x); simpl; rewrite <- IH.
  - now rewrite andb_assoc.
  - rewrite !andb_assoc. f_equal. apply andb_comm.
Qed.

Lemma alter_mysql_lemma arms :
  alterTable_mysql arms =
  if forallb arm_reversible arms then Some (rev (map inverse_arm (filter arm_has_inverse arms))) else None.
Proof. apply alter_reverse_spec. Qed.

Lemma alter_postgres_lemma arms :
  alterTable_postgres arms =
  if forallb arm_reversible arms then Some (rev (map inverse_arm (filter arm_has_inverse (pg_sorted arms)))) else None.
Proof.
  unfold alterTable_postgres. rewrite alter_reverse_spec. unfold pg_sorted.
  now rewrite forallb_filter_perm.
Qed.

Lemma filter_all {A} (f : A -> bool) l : forallb f l = true -> filter f l = l.
Proof.
  induction l as [|x l IH]; simpl; [reflexivity|]. intros H. apply andb_true_iff in H as [H1 H2].
  now rewrite H1, IH.
Qed.

Lemma inverse_all arms :
  forallb arm_reversible arms = true -> map inverse_arm (filter arm_has_inverse arms) = arms.
Proof.
  intros R. rewrite filter_all.
  - rewrite <- (map_id arms) at 2. apply map_ext_in. intros a Ha.
    rewrite forallb_forall in R. specialize (R a Ha). unfold arm_reversible, inverse_arm in *.
    destruct a as [k key]. cbn in *. destruct k as [| | | | |ks|]; try reflexivity.
    destruct ks as [t n d at' g]. cbn in *. destruct g; [discriminate|reflexivity].
  - rewrite forallb_forall in *. intros a Ha. specialize (R a Ha).
    unfold arm_reversible, arm_has_inverse in *. destruct (a_kind a); try reflexivity; discriminate.
Qed.

Lemma forallb_pg_sorted (f : arm -> bool) arms : forallb f (pg_sorted arms) = forallb f arms.
Proof. apply forallb_filter_perm. Qed.

Lemma alter_flag_lemma arms :
  (alterTable_mysql arms <> None <-> forallb arm_reversible arms = true) /\
  (alterTable_postgres arms <> None <-> forallb arm_reversible arms = true).
Proof.
  rewrite alter_mysql_lemma, alter_postgres_lemma.
  destruct (forallb arm_reversible arms); split; split; intros H; try reflexivity; try discriminate; congruence.
Qed.

Lemma alter_complete_lemma arms r :
  (alterTable_mysql arms = Some r -> r = rev arms) /\
  (alterTable_postgres arms = Some r -> r = rev (pg_sorted arms)).
Proof.
  rewrite alter_mysql_lemma, alter_postgres_lemma.
  destruct (forallb arm_reversible arms) eqn:R; split; intros H; try discriminate; inversion H.
  - now rewrite (inverse_all arms R).
  - rewrite inverse_all; [reflexivity|]. now rewrite forallb_pg_sorted.
Qed.

(** the kinds of one ModifyColumn: the ChangeGenerated bit, whatever the other bits, wherever the arm stands *)
Lemma alter_kinds_lemma pre post k col :
  k_generated k = true ->
  alterTable_mysql (pre ++ mkArm (KModCol k) col :: post) = None /\
  alterTable_postgres (pre ++ mkArm (KModCol k) col :: post) = None.
Proof.
  intros G.
  assert (F : forallb arm_reversible (pre ++ mkArm (KModCol k) col :: post) = false).
  { rewrite forallb_app. cbn. unfold arm_reversible at 2. cbn. rewrite G. cbn.
    now rewrite andb_false_r. }
  pose proof (alter_flag_lemma (pre ++ mkArm (KModCol k) col :: post)) as [[M _] [P _]].
  split.
  - destruct (alterTable_mysql _); [|reflexivity]. rewrite M in F; [discriminate|discriminate].
  - destruct (alterTable_postgres _); [|reflexivity]. rewrite P in F; [discriminate|discriminate].
Qed.

Lemma in_pg_sorted a arms : In a (pg_sorted arms) <-> In a arms.
Proof.
  unfold pg_sorted. rewrite in_app_iff, !filter_In. split.
  - intros [[H _]|[H _]]; exact H.
  - intros H. destruct (is_drop_const a) eqn:E; [left|right]; split; auto.
Qed.

(** a change with a reverse: the reverse holds every clause of the Cmd (kind and object), and no other *)
Lemma alter_clauses_lemma arms r c :
  alterTable_mysql arms = Some r \/ alterTable_postgres arms = Some r ->
  (In c (flat_map arm_clauses arms) <-> In c (flat_map arm_clauses r)).
Proof.
  intros H. rewrite !in_flat_map.
  destruct H as [H|H]; apply alter_complete_lemma in H; subst r.
  - split; intros [a [Ha Hc]]; exists a; split; auto.
    + now apply -> in_rev.
    + now apply in_rev.
  - split; intros [a [Ha Hc]]; exists a; split; auto.
    + apply -> in_rev. now apply in_pg_sorted.
    + apply in_rev in Ha. now apply in_pg_sorted.
Qed.
