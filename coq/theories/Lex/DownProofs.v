(** Proofs about [Lex/DownModel.v] (C17 items 2-4): the flag is a [forallb], the swap loop of
    [sqltool.reverse] is [List.rev], and the down sections scan to
    [flat_map ReverseStmts (rev changes)]. *)
From Coq Require Import List NArith ZArith Bool Arith Lia.
From Atlas Require Import Base.Bytes Lex.DownModel.
Import ListNotations.
Open Scope Z_scope.

(** * SetReversible *)

Lemma SetReversible_loop_spec cs b :
  SetReversible_loop cs b = b && forallb has_reverse cs.
Proof.
  revert b; induction cs as [|c cs IH]; intros b; simpl.
  - now rewrite andb_true_r.
  - rewrite IH. unfold has_reverse.
    destruct (Nat.eqb (length (ReverseStmts c)) 0); simpl.
    + now rewrite andb_false_r.
    + reflexivity.
Qed.

Lemma SetReversible_forallb cs : SetReversible cs = forallb has_reverse cs.
Proof. unfold SetReversible. now rewrite SetReversible_loop_spec. Qed.

Lemma SetReversible_false_iff cs :
  SetReversible cs = false <-> exists c, In c cs /\ ReverseStmts c = [].
Proof.
  rewrite SetReversible_forallb. split.
  - intros H. induction cs as [|c cs IH]; simpl in H; [discriminate|].
    apply andb_false_iff in H as [H|H].
    + exists c. split; [now left|]. unfold has_reverse in H.
      destruct (ReverseStmts c); [reflexivity|discriminate].
    + destruct (IH H) as (c' & Hin & Hr). exists c'. split; [now right|exact Hr].
  - intros (c & Hin & Hr). apply not_true_is_false. intros Ht.
    rewrite forallb_forall in Ht. specialize (Ht c Hin). unfold has_reverse in Ht.
    rewrite Hr in Ht. discriminate.
Qed.

(** * reverse = List.rev *)

Section ReverseProofs.
Context {A : Type}.

Lemma set_nat_spec (l : list (option A)) k (x : A) :
  (k < length l)%nat ->
  exists l', set_nat l k x = Some l' /\ length l' = length l /\
    forall p, nth_error l' p = if Nat.eqb p k then Some (Some x) else nth_error l p.
Proof.
  revert k; induction l as [|h t IH]; intros k Hk; simpl in Hk; [lia|].
  destruct k as [|k]; simpl.
  - eexists; split; [reflexivity|]. split; [reflexivity|]. intros [|p]; reflexivity.
  - destruct (IH k ltac:(lia)) as (t' & E & L & N). rewrite E.
    eexists; split; [reflexivity|]. split; [simpl; lia|].
    intros [|p]; simpl; [reflexivity|]. apply N.
Qed.

Lemma set_index_spec (l : list (option A)) (k : nat) (x : A) :
  (k < length l)%nat ->
  exists l', set_index l (Z.of_nat k) x = Some l' /\ length l' = length l /\
    forall p, nth_error l' p = if Nat.eqb p k then Some (Some x) else nth_error l p.
Proof.
  intros Hk. unfold set_index.
  replace (Z.of_nat k <? 0) with false by (symmetry; apply Z.ltb_ge; lia).
  rewrite Nat2Z.id. now apply set_nat_spec.
Qed.

Lemma at_index_nat (l : list A) (k : nat) : at_index l (Z.of_nat k) = nth_error l k.
Proof.
  unfold at_index. replace (Z.of_nat k <? 0) with false by (symmetry; apply Z.ltb_ge; lia).
  now rewrite Nat2Z.id.
Qed.

Variable l : list A.
Let n := length l.

(** [n = 2h + b], [b < 2]: [h] is Go's [n/2] and [b] is [n%2] (instantiated at the end). *)
Section Half.
Variables h b : nat.
Hypothesis Hdm : (n = 2 * h + b)%nat.
Hypothesis Hb : (b < 2)%nat.

(** slot [p] has been written after [k] rounds of the loop (the middle one before the loop). *)
Definition filled (k p : nat) : bool :=
  (p <? k)%nat || (n - k <=? p)%nat || ((b =? 1)%nat && (p =? h)%nat).

Definition Inv (k : nat) (rev : list (option A)) : Prop :=
  length rev = n /\
  forall p, (p < n)%nat ->
    nth_error rev p = Some (if filled k p then nth_error l (n - 1 - p) else None).

Lemma loop_spec fuel : forall k rev,
  Inv k rev -> (2 * k <= n)%nat -> (h <= fuel + k)%nat ->
  exists rev', reverse_loop fuel l rev (Z.of_nat k) (Z.of_nat n - 1 - Z.of_nat k) = Ok rev' /\
               Inv h rev'.
Proof.
  induction fuel as [|fuel IH]; intros k rev HI Hk Hf.
  - (* no fuel: k = h, the loop condition is false *)
    assert (k = h) by lia. subst k. cbn [reverse_loop].
    replace (Z.of_nat h <? Z.of_nat n - 1 - Z.of_nat h) with false
      by (symmetry; apply Z.ltb_ge; lia).
    eexists; split; [reflexivity|exact HI].
  - cbn [reverse_loop].
    destruct (Z.ltb_spec (Z.of_nat k) (Z.of_nat n - 1 - Z.of_nat k)) as [Hlt|Hge].
    + assert (Hj : Z.of_nat n - 1 - Z.of_nat k = Z.of_nat (n - 1 - k)) by lia.
      rewrite Hj. rewrite !at_index_nat.
      destruct (nth_error l (n - 1 - k)) as [cj|] eqn:Ej;
        [|apply nth_error_None in Ej; fold n in Ej; lia].
      destruct (nth_error l k) as [ci|] eqn:Ei;
        [|apply nth_error_None in Ei; fold n in Ei; lia].
      destruct HI as [HL HN].
      destruct (set_index_spec rev k cj ltac:(lia)) as (r1 & E1 & L1 & N1). rewrite E1.
      destruct (set_index_spec r1 (n - 1 - k) ci ltac:(lia)) as (r2 & E2 & L2 & N2). rewrite E2.
      replace (Z.of_nat k + 1) with (Z.of_nat (S k)) by lia.
      replace (Z.of_nat (n - 1 - k) - 1) with (Z.of_nat n - 1 - Z.of_nat (S k)) by lia.
      apply IH; [|lia|lia].
      split; [lia|]. intros p Hp. rewrite N2, N1.
      destruct (Nat.eqb_spec p (n - 1 - k)) as [->|Hne1].
      * replace (n - 1 - (n - 1 - k))%nat with k by lia. rewrite Ei.
        f_equal. unfold filled.
        replace (n - S k <=? n - 1 - k)%nat with true by (symmetry; apply Nat.leb_le; lia).
        now rewrite orb_true_r.
      * destruct (Nat.eqb_spec p k) as [->|Hne2].
        -- rewrite Ej. f_equal. unfold filled.
           replace (k <? S k)%nat with true by (symmetry; apply Nat.ltb_lt; lia).
           reflexivity.
        -- rewrite (HN p Hp). f_equal.
           assert (Hfe : filled (S k) p = filled k p); [|now rewrite Hfe].
           unfold filled. f_equal. f_equal.
           ++ destruct (Nat.ltb_spec p (S k)), (Nat.ltb_spec p k); try reflexivity; lia.
           ++ destruct (Nat.leb_spec (n - S k) p), (Nat.leb_spec (n - k) p); try reflexivity; lia.
    + (* loop condition false: 2k+1 >= n, hence k = h *)
      assert (k = h) by lia. subst k.
      eexists; split; [reflexivity|exact HI].
Qed.

Lemma filled_half p : (p < n)%nat -> filled h p = true.
Proof.
  intros Hp. unfold filled.
  destruct (Nat.ltb_spec p h); [reflexivity|].
  destruct (Nat.leb_spec (n - h) p); [reflexivity|]. simpl.
  assert (Hb1 : b = 1%nat) by (unfold n in *; lia).
  assert (Hph : p = h) by (unfold n in *; lia).
  rewrite Hb1, Hph, !Nat.eqb_refl. reflexivity.
Qed.
End Half.

Lemma nth_error_repeat_none k p : (p < k)%nat -> nth_error (repeat (@None A) k) p = Some None.
Proof.
  revert p; induction k as [|k IH]; intros p Hp; [lia|].
  destruct p as [|p]; simpl; [reflexivity|]. apply IH; lia.
Qed.

Lemma reverse_slots_spec :
  exists slots h b, (n = 2 * h + b)%nat /\ (b < 2)%nat /\
    reverse_slots l = Ok slots /\ Inv h b h slots.
Proof.
  pose (h := (n / 2)%nat). pose (b := (n mod 2)%nat).
  assert (Hdm : (n = 2 * h + b)%nat) by (apply Nat.div_mod; lia).
  assert (Hb : (b < 2)%nat) by (apply Nat.mod_upper_bound; lia).
  assert (Hz2 : Z.of_nat n / 2 = Z.of_nat h).
  { change 2 with (Z.of_nat 2). now rewrite <- Nat2Z.inj_div. }
  assert (Hzm : Z.of_nat n mod 2 = Z.of_nat b).
  { change 2 with (Z.of_nat 2). now rewrite <- Nat2Z.inj_mod. }
  clearbody h b.
  assert (Hrep : forall p, (p < n)%nat -> nth_error (repeat (@None A) n) p = Some None)
    by (intros; now apply nth_error_repeat_none).
  unfold reverse_slots. fold n. rewrite Hzm, Hz2.
  destruct (Z.eqb_spec (Z.of_nat b) 1) as [Hodd|Heven].
  - assert (Hodd' : b = 1%nat) by lia.
    rewrite at_index_nat.
    destruct (nth_error l h) as [c|] eqn:Ec;
      [|apply nth_error_None in Ec; fold n in Ec; lia].
    destruct (set_index_spec (repeat (@None A) n) h c) as (r & E & L & N).
    { rewrite repeat_length. lia. }
    rewrite E. rewrite repeat_length in L.
    replace (reverse_loop n l r 0 (Z.of_nat n - 1))
      with (reverse_loop n l r (Z.of_nat 0) (Z.of_nat n - 1 - Z.of_nat 0))
      by (f_equal; lia).
    destruct (loop_spec h b Hdm Hb n 0%nat r) as (rev' & E' & I'); [|lia|lia|].
    + split; [exact L|]. intros p Hp. rewrite N.
      unfold filled. rewrite Hodd'. rewrite Nat.eqb_refl. rewrite Nat.sub_0_r.
      replace (p <? 0)%nat with false by (symmetry; apply Nat.ltb_ge; lia).
      replace (n <=? p)%nat with false by (symmetry; apply Nat.leb_gt; lia).
      cbn [orb andb].
      destruct (Nat.eqb_spec p h) as [->|Hne].
      * replace (n - 1 - h)%nat with h by lia. now rewrite Ec.
      * now apply Hrep.
    + exists rev', h, b. repeat split; try assumption; apply I'.
  - assert (Heven' : b = 0%nat) by lia.
    replace (reverse_loop n l (repeat None n) 0 (Z.of_nat n - 1))
      with (reverse_loop n l (repeat None n) (Z.of_nat 0) (Z.of_nat n - 1 - Z.of_nat 0))
      by (f_equal; lia).
    destruct (loop_spec h b Hdm Hb n 0%nat (repeat None n)) as (rev' & E' & I'); [|lia|lia|].
    + split; [apply repeat_length|]. intros p Hp. rewrite (Hrep p Hp).
      unfold filled. rewrite Heven'. cbn [Nat.eqb andb]. rewrite Nat.sub_0_r.
      replace (p <? 0)%nat with false by (symmetry; apply Nat.ltb_ge; lia).
      replace (n <=? p)%nat with false by (symmetry; apply Nat.leb_gt; lia). reflexivity.
    + exists rev', h, b. repeat split; try assumption; apply I'.
Qed.

Lemma nth_error_eq_ext {B} (a b : list B) :
  length a = length b -> (forall p, (p < length a)%nat -> nth_error a p = nth_error b p) -> a = b.
Proof.
  revert b; induction a as [|x a IH]; intros [|y b] HL HN; simpl in HL; try lia; [reflexivity|].
  f_equal.
  - specialize (HN 0%nat ltac:(simpl; lia)). simpl in HN. congruence.
  - apply IH; [lia|]. intros p Hp. apply (HN (S p)). simpl; lia.
Qed.

Lemma all_some_map (m : list A) : all_some (map Some m) = Some m.
Proof. induction m as [|x m IH]; simpl; [reflexivity|now rewrite IH]. Qed.

Lemma reverse_is_rev_lemma : reverse l = Ok (List.rev l).
Proof.
  destruct reverse_slots_spec as (slots & h & b & Hdm & Hb & E & HL & HN).
  unfold reverse. rewrite E.
  assert (Hs : slots = map Some (List.rev l)).
  { apply nth_error_eq_ext.
    - rewrite map_length, rev_length. exact HL.
    - intros p Hp. rewrite HL in Hp.
      rewrite (HN p Hp), (filled_half h b Hdm Hb) by exact Hp.
      rewrite nth_error_map.
      destruct (nth_error l (n - 1 - p)) as [x|] eqn:Ex;
        [|apply nth_error_None in Ex; fold n in Ex; lia].
      assert (Hr : nth_error (List.rev l) p = Some x).
      { rewrite <- Ex.
        rewrite (nth_error_nth' (List.rev l) x) by (rewrite rev_length; exact Hp).
        rewrite (nth_error_nth' l x) by (fold n; lia).
        f_equal. rewrite rev_nth by (fold n; lia). fold n. f_equal. lia. }
      rewrite Hr. reflexivity. }
  rewrite Hs, all_some_map. reflexivity.
Qed.
End ReverseProofs.

(** * The down sections *)

Lemma down_body_ok changes : down_body changes = Ok (concat (map down_change (List.rev changes))).
Proof. unfold down_body. now rewrite reverse_is_rev_lemma. Qed.

Section DownFile.
(** The scanner side (C07/C08) as premises: [scan] returns a statement that is [scan_closed]
    when it is followed by ";\n", and skips a "-- reverse: ..." comment line. *)
Variable scan : bytes -> list bytes.
Variable scan_closed : bytes -> bool.
Variable comment_ok : bytes -> bool.
Hypothesis scan_nil : scan [] = [].
Hypothesis scan_stmt : forall s rest,
  scan_closed s = true -> scan (s ++ s_semi_nl ++ rest) = s :: scan rest.
Hypothesis scan_comment : forall c rest,
  comment_ok c = true -> scan (s_rev_cmt ++ c ++ s_nl ++ rest) = scan rest.

Definition change_ok (c : mchange) : Prop :=
  (c_comment c <> [] -> comment_ok (c_comment c) = true) /\
  forall s, In s (ReverseStmts c) -> scan_closed s = true.

Lemma scan_stmts stmts rest :
  (forall s, In s stmts -> scan_closed s = true) ->
  scan (concat (map (fun s => s ++ s_semi_nl) stmts) ++ rest) = stmts ++ scan rest.
Proof.
  induction stmts as [|s stmts IH]; intros H; simpl; [reflexivity|].
  rewrite <- !app_assoc. rewrite scan_stmt by (apply H; now left).
  f_equal. apply IH. intros s' Hs'. apply H. now right.
Qed.

Lemma scan_down_change c rest :
  change_ok c -> scan (down_change c ++ rest) = ReverseStmts c ++ scan rest.
Proof.
  intros [Hc Hs]. unfold down_change.
  destruct (ReverseStmts c) as [|s0 stmts] eqn:E; [reflexivity|].
  rewrite <- E in *. clear E.
  destruct (c_comment c) as [|b cm] eqn:Ec; simpl nonempty; cbv iota.
  - simpl app at 1. now apply scan_stmts.
  - rewrite <- !app_assoc. rewrite scan_comment by (apply Hc; discriminate).
    now apply scan_stmts.
Qed.

Lemma scan_down_changes cs rest :
  (forall c, In c cs -> change_ok c) ->
  scan (concat (map down_change cs) ++ rest) = flat_map ReverseStmts cs ++ scan rest.
Proof.
  induction cs as [|c cs IH]; intros H; simpl; [reflexivity|].
  rewrite <- !app_assoc. rewrite scan_down_change by (apply H; now left).
  f_equal. apply IH. intros c' Hc'. apply H. now right.
Qed.

(** Item 4 for the two-file formatters (golang-migrate [*.down.sql], flyway [U*.sql]) and
    for the sections of goose and dbmate. *)
Lemma down_body_scan changes :
  (forall c, In c changes -> change_ok c) ->
  exists d, down_body changes = Ok d /\
            scan d = flat_map ReverseStmts (List.rev changes).
Proof.
  intros H. rewrite down_body_ok. eexists; split; [reflexivity|].
  rewrite <- (app_nil_r (concat _)). rewrite scan_down_changes.
  - now rewrite scan_nil, app_nil_r.
  - intros c Hc. apply H. now apply in_rev.
Qed.

Lemma goose_file_scan changes :
  (forall c, In c changes -> change_ok c) ->
  exists d, goose_file changes = Ok (s_goose_up ++ up_body changes ++ s_goose_down ++ d) /\
            scan d = flat_map ReverseStmts (List.rev changes).
Proof.
  intros H. destruct (down_body_scan changes H) as (d & E & S).
  exists d. split; [|exact S]. unfold goose_file. now rewrite E.
Qed.

Lemma dbmate_file_scan changes :
  (forall c, In c changes -> change_ok c) ->
  exists d, dbmate_file changes = Ok (s_dbmate_up ++ up_body changes ++ s_dbmate_down ++ d) /\
            scan d = flat_map ReverseStmts (List.rev changes).
Proof.
  intros H. destruct (down_body_scan changes H) as (d & E & S).
  exists d. split; [|exact S]. unfold dbmate_file. now rewrite E.
Qed.
End DownFile.

(** * [line_scan] meets the premises of section [DownFile] *)

Lemma head_is_app x s y r :
  head_is x (s ++ y :: r) = match s with [] => N.eqb y x | _ => head_is x s end.
Proof. destruct s; reflexivity. Qed.

Lemma line_scan_stmt_go s : forall acc rest,
  no_semi_nl s = true ->
  line_scan_go LStmt acc (s ++ s_semi_nl ++ rest) =
  (List.rev acc ++ s) :: line_scan_go LStart [] rest.
Proof.
  induction s as [|c s IH]; intros acc rest H.
  - simpl. now rewrite app_nil_r.
  - simpl in H. apply andb_true_iff in H as [H1 H2].
    change ((c :: s) ++ s_semi_nl ++ rest) with (c :: (s ++ 59%N :: 10%N :: rest)).
    cbn [line_scan_go]. rewrite head_is_app.
    assert (Hc : N.eqb c 59 && match s with [] => N.eqb 59 10 | _ :: _ => head_is 10 s end = false).
    { destruct s; [simpl; now rewrite andb_false_r|].
      now apply negb_true_iff in H1. }
    rewrite Hc. change (s ++ 59%N :: 10%N :: rest) with (s ++ s_semi_nl ++ rest).
    rewrite IH by exact H2. simpl. now rewrite <- app_assoc.
Qed.

Lemma line_scan_stmt s rest :
  line_closed s = true -> line_scan (s ++ s_semi_nl ++ rest) = s :: line_scan rest.
Proof.
  destruct s as [|c s]; [discriminate|]. intros H.
  unfold line_closed in H. apply andb_true_iff in H as [H H3].
  apply andb_true_iff in H as [H1 H2].
  unfold line_scan.
  change ((c :: s) ++ s_semi_nl ++ rest) with (c :: (s ++ 59%N :: 10%N :: rest)).
  cbn [line_scan_go]. rewrite !head_is_app.
  apply negb_true_iff in H1. rewrite H1.
  assert (Hd : N.eqb c 45 && match s with [] => N.eqb 59 45 | _ :: _ => head_is 45 s end = false).
  { destruct s; [simpl; now rewrite andb_false_r|]. now apply negb_true_iff in H2. }
  rewrite Hd.
  simpl in H3. apply andb_true_iff in H3 as [H4 H5].
  assert (Hc : N.eqb c 59 && match s with [] => N.eqb 59 10 | _ :: _ => head_is 10 s end = false).
  { destruct s; [simpl; now rewrite andb_false_r|]. now apply negb_true_iff in H4. }
  rewrite Hc. change (s ++ 59%N :: 10%N :: rest) with (s ++ s_semi_nl ++ rest).
  rewrite line_scan_stmt_go by exact H5. reflexivity.
Qed.

Lemma line_scan_comment_go t : forall rest,
  no_nl t = true -> line_scan_go LComment [] (t ++ s_nl ++ rest) = line_scan_go LStart [] rest.
Proof.
  induction t as [|c t IH]; intros rest H; [reflexivity|].
  simpl in H. apply andb_true_iff in H as [H1 H2]. apply negb_true_iff in H1.
  simpl. rewrite H1. now apply IH.
Qed.

Lemma no_nl_app a b : no_nl (a ++ b) = no_nl a && no_nl b.
Proof. induction a as [|x a IH]; simpl; [reflexivity|]. now rewrite IH, andb_assoc. Qed.

Lemma line_scan_comment c rest :
  no_nl c = true -> line_scan (s_rev_cmt ++ c ++ s_nl ++ rest) = line_scan rest.
Proof.
  intros H. unfold line_scan, s_rev_cmt. cbn [app].
  cbn [line_scan_go head_is N.eqb Pos.eqb andb].
  now apply line_scan_comment_go.
Qed.

Lemma line_scan_nil : line_scan [] = [].
Proof. reflexivity. Qed.

(** * Liquibase: the rollback lines of the changesets, last changeset first *)

Lemma lines_go_app a : forall acc b,
  lines_go acc (a ++ 10%N :: b) = lines_go acc a ++ lines b.
Proof.
  induction a as [|c a IH]; intros acc b; simpl; [reflexivity|].
  destruct (N.eqb c 10); [simpl; f_equal; apply IH|apply IH].
Qed.
Lemma lines_app a b : lines (a ++ 10%N :: b) = lines a ++ lines b.
Proof. apply lines_go_app. Qed.

Lemma lines_go_no_nl a : forall acc, no_nl a = true -> lines_go acc a = [List.rev acc ++ a].
Proof.
  induction a as [|c a IH]; intros acc H; simpl; [now rewrite app_nil_r|].
  simpl in H. apply andb_true_iff in H as [H1 H2]. apply negb_true_iff in H1. rewrite H1.
  rewrite IH by exact H2. simpl. now rewrite <- app_assoc.
Qed.
Lemma lines_no_nl a : no_nl a = true -> lines a = [a].
Proof. intros H. unfold lines. now rewrite lines_go_no_nl. Qed.

Lemma has_prefix_app p s : has_prefix (p ++ s) p = true.
Proof. induction p as [|x p IH]; simpl; [reflexivity|]. now rewrite N.eqb_refl. Qed.

Lemma skipn_length_app {B} (a b : list B) : skipn (length a) (a ++ b) = b.
Proof. induction a; simpl; auto. Qed.

(** [lines] by recursion on the text *)
Lemma lines_go_acc x : forall acc,
  lines_go acc x = match lines_go [] x with h :: t => (List.rev acc ++ h) :: t | [] => [] end.
Proof.
  induction x as [|c x IH]; intros acc; cbn [lines_go].
  - cbn [List.rev app]. now rewrite app_nil_r.
  - destruct (N.eqb c 10).
    + cbn [List.rev app]. now rewrite app_nil_r.
    + rewrite (IH (c :: acc)), (IH [c]). destruct (lines_go [] x) as [|h t]; [reflexivity|].
      cbn [List.rev app]. now rewrite <- app_assoc.
Qed.

Lemma lines_nil : lines [] = [[]].
Proof. reflexivity. Qed.

Lemma lines_cons c x :
  lines (c :: x) =
  if N.eqb c 10 then [] :: lines x
  else match lines x with h :: t => (c :: h) :: t | [] => [] end.
Proof.
  unfold lines. cbn [lines_go]. destruct (N.eqb c 10); [reflexivity|].
  rewrite (lines_go_acc x [c]). destruct (lines_go [] x); reflexivity.
Qed.

Lemma lines_not_nil x : lines x <> [].
Proof.
  induction x as [|c x IH]; [discriminate|]. rewrite lines_cons.
  destruct (N.eqb c 10); [discriminate|]. destruct (lines x); [contradiction|discriminate].
Qed.

Lemma unlines_lines x : concat (map (fun l => l ++ s_nl) (lines x)) = x ++ s_nl.
Proof.
  induction x as [|c x IH]; [reflexivity|]. rewrite lines_cons.
  destruct (N.eqb c 10) eqn:E.
  - apply N.eqb_eq in E. subst c. cbn [map concat app]. now rewrite IH.
  - destruct (lines x) as [|h t] eqn:El; [now destruct (lines_not_nil x)|].
    cbn [map concat app] in *. now rewrite IH.
Qed.

(** every line of "--rollback: " ++ (the statement, its newlines prefixed) carries the prefix *)
Lemma lines_prefixed x : forall p,
  no_nl p = true ->
  lines (p ++ lq_prefix_lines x) =
  match lines x with h :: t => (p ++ h) :: map (app s_lq_rollback) t | [] => [] end.
Proof.
  induction x as [|c x IH]; intros p Hp.
  - cbn [lq_prefix_lines flat_map]. rewrite app_nil_r, lines_nil, (lines_no_nl p Hp). now rewrite app_nil_r.
  - cbn [lq_prefix_lines flat_map]. rewrite lines_cons.
    change (flat_map (fun c0 : N => if N.eqb c0 10 then 10%N :: s_lq_rollback else [c0]) x) with (lq_prefix_lines x).
    destruct (N.eqb c 10) eqn:E.
    + cbn [app]. rewrite lines_app, (lines_no_nl p Hp), (IH s_lq_rollback eq_refl).
      rewrite app_nil_r. destruct (lines x); reflexivity.
    + cbn [app]. replace (p ++ c :: lq_prefix_lines x) with ((p ++ [c]) ++ lq_prefix_lines x)
        by (rewrite <- app_assoc; reflexivity).
      rewrite IH by (rewrite no_nl_app, Hp; simpl; now rewrite E).
      destruct (lines x); [reflexivity|]. now rewrite <- app_assoc.
Qed.

Lemma lq_prefix_lines_app a b : lq_prefix_lines (a ++ b) = lq_prefix_lines a ++ lq_prefix_lines b.
Proof. unfold lq_prefix_lines. apply flat_map_app. Qed.

Lemma lq_rollback_line_split s rest :
  lq_rollback_line s ++ rest = (s_lq_rollback ++ lq_prefix_lines (s ++ [59%N])) ++ 10%N :: rest.
Proof.
  unfold lq_rollback_line, s_semi_nl. rewrite lq_prefix_lines_app. cbn [lq_prefix_lines flat_map N.eqb Pos.eqb app].
  rewrite <- !app_assoc. reflexivity.
Qed.

Lemma lq_content_prefixed l : flat_map lq_rollback_content (map (app s_lq_rollback) l) = l.
Proof.
  induction l as [|x l IH]; [reflexivity|]. cbn [map flat_map]. unfold lq_rollback_content at 1.
  rewrite has_prefix_app, skipn_length_app, IH. reflexivity.
Qed.

Lemma lq_rollback_line_content s :
  flat_map lq_rollback_content (lines (s_lq_rollback ++ lq_prefix_lines (s ++ [59%N]))) = lines (s ++ [59%N]).
Proof.
  rewrite (lines_prefixed (s ++ [59%N]) s_lq_rollback eq_refl).
  destruct (lines (s ++ [59%N])) as [|h t] eqn:E; [now destruct (lines_not_nil (s ++ [59%N]))|].
  change ((s_lq_rollback ++ h) :: map (app s_lq_rollback) t) with (map (app s_lq_rollback) (h :: t)).
  apply lq_content_prefixed.
Qed.

(** the contents of the rollback comments of a changeset's tail, joined line by line, are the
    statements each followed by ";\n" *)
Lemma lq_rollback_lines_content stmts :
  concat (map (fun l => l ++ s_nl)
            (flat_map lq_rollback_content (lines (concat (map lq_rollback_line stmts))))) =
  concat (map (fun s => s ++ s_semi_nl) stmts).
Proof.
  induction stmts as [|s stmts IH]; [reflexivity|].
  change (concat (map lq_rollback_line (s :: stmts))) with (lq_rollback_line s ++ concat (map lq_rollback_line stmts)).
  change (concat (map (fun s0 => s0 ++ s_semi_nl) (s :: stmts)))
    with ((s ++ s_semi_nl) ++ concat (map (fun s0 => s0 ++ s_semi_nl) stmts)).
  rewrite lq_rollback_line_split, lines_app, flat_map_app, lq_rollback_line_content.
  rewrite map_app, concat_app, unlines_lines. f_equal; [|exact IH].
  unfold s_semi_nl, s_nl. now rewrite <- !app_assoc.
Qed.

Lemma dec_loop_no_nl fuel : forall n acc, no_nl acc = true -> no_nl (dec_loop fuel n acc) = true.
Proof.
  induction fuel as [|f IH]; intros n acc H; cbn [dec_loop]; [exact H|].
  set (d := (48 + N.modulo n 10)%N).
  assert (Hd : N.eqb d 10 = false).
  { apply N.eqb_neq. unfold d. pose proof (N.mod_lt n 10 ltac:(discriminate)) as Hlt.
    revert Hlt. generalize (N.modulo n 10). intros m Hlt. lia. }
  assert (Hda : no_nl (d :: acc) = true) by (cbn [no_nl]; rewrite Hd, H; reflexivity).
  destruct (n <? 10)%N; [exact Hda|apply IH; exact Hda].
Qed.
Lemma dec_no_nl n : no_nl (dec n) = true.
Proof. apply dec_loop_no_nl. reflexivity. Qed.

Lemma has_prefix_changeset now k :
  has_prefix ([45;45;99;104;97;110;103;101;115;101;116;32;97;116;108;97;115;58]%N ++ now ++ s_dash ++ dec k) s_lq_rollback = false.
Proof. reflexivity. Qed.

Lemma lq_changeset_read now index c :
  no_nl now = true -> no_nl (c_comment c) = true -> lq_cmd_ok (c_cmd c) = true ->
  (forall s, In s (ReverseStmts c) -> line_closed s = true) ->
  lq_rollbacks (lq_changeset now index c) = ReverseStmts c.
Proof.
  intros Hn Hc Hcmd Hs. unfold lq_changeset, s_lq_changeset, s_nl, s_semi_nl.
  set (A := [45;45;99;104;97;110;103;101;115;101;116;32;97;116;108;97;115;58]%N ++ now ++ s_dash ++ dec (S index)).
  set (B := if nonempty (c_comment c) then s_lq_comment ++ c_comment c else []).
  replace (([10;45;45;99;104;97;110;103;101;115;101;116;32;97;116;108;97;115;58]%N ++
            now ++ s_dash ++ dec (S index) ++ [10%N] ++ B ++ [10%N] ++ c_cmd c ++ [59%N; 10%N] ++
            concat (map lq_rollback_line (ReverseStmts c))))
    with ([] ++ 10%N :: A ++ 10%N :: B ++ 10%N :: (c_cmd c ++ [59%N]) ++ 10%N ::
          concat (map lq_rollback_line (ReverseStmts c))).
  2:{ unfold A. simpl. rewrite <- !app_assoc. simpl. reflexivity. }
  unfold lq_rollbacks.
  rewrite lines_app.
  replace (A ++ 10%N :: B ++ 10%N :: (c_cmd c ++ [59%N]) ++ 10%N :: concat (map lq_rollback_line (ReverseStmts c)))
    with (A ++ 10%N :: (B ++ 10%N :: (c_cmd c ++ [59%N]) ++ 10%N :: concat (map lq_rollback_line (ReverseStmts c))))
    by reflexivity.
  rewrite lines_app.
  rewrite lines_app.
  rewrite lines_app.
  rewrite !flat_map_app.
  assert (HA : no_nl A = true).
  { unfold A. rewrite !no_nl_app, Hn, dec_no_nl. reflexivity. }
  assert (HB : no_nl B = true).
  { unfold B. destruct (nonempty (c_comment c)); [|reflexivity]. rewrite no_nl_app, Hc. reflexivity. }
  rewrite (lines_no_nl A HA), (lines_no_nl B HB).
  assert (E1 : flat_map lq_rollback_content (lines []) = []) by reflexivity.
  assert (E2 : flat_map lq_rollback_content [A] = []).
  { cbn [flat_map]. rewrite app_nil_r. unfold lq_rollback_content. unfold A.
    now rewrite has_prefix_changeset. }
  assert (E3 : flat_map lq_rollback_content [B] = []).
  { cbn [flat_map]. rewrite app_nil_r. unfold lq_rollback_content, B.
    destruct (nonempty (c_comment c)); reflexivity. }
  assert (E4 : flat_map lq_rollback_content (lines (c_cmd c ++ [59%N])) = []).
  { unfold lq_cmd_ok in Hcmd. induction (lines (c_cmd c ++ [59%N])) as [|l ls IH]; [reflexivity|].
    cbn [forallb] in Hcmd. apply andb_true_iff in Hcmd as [H1 H2]. apply negb_true_iff in H1.
    cbn [flat_map]. unfold lq_rollback_content at 1. rewrite H1. cbn [app]. now apply IH. }
  rewrite E1.
  assert (G : forall (x1 x2 x3 r : list bytes), x1 = [] -> x2 = [] -> x3 = [] ->
              [] ++ x1 ++ x2 ++ x3 ++ r = r) by (intros; subst; reflexivity).
  rewrite (G _ _ _ _ E2 E3 E4).
  rewrite lq_rollback_lines_content.
  rewrite <- (app_nil_r (concat _)).
  rewrite (scan_stmts line_scan line_closed line_scan_stmt (ReverseStmts c) [] Hs).
  now rewrite line_scan_nil, app_nil_r.
Qed.

Definition lq_change_ok (c : mchange) : Prop :=
  no_nl (c_comment c) = true /\ lq_cmd_ok (c_cmd c) = true /\
  forall s, In s (ReverseStmts c) -> line_closed s = true.

Lemma lq_texts_read now : forall changes index,
  no_nl now = true -> (forall c, In c changes -> lq_change_ok c) ->
  map lq_rollbacks (lq_changeset_texts now index changes) = map ReverseStmts changes.
Proof.
  induction changes as [|c cs IH]; intros index Hn H; [reflexivity|].
  simpl. f_equal.
  - destruct (H c (or_introl eq_refl)) as (H1 & H2 & H3). now apply lq_changeset_read.
  - apply IH; [exact Hn|]. intros c' Hc'. apply H. now right.
Qed.

Lemma flat_map_concat_map {B C} (f : B -> list C) l : flat_map f l = concat (map f l).
Proof. induction l; simpl; congruence. Qed.

Lemma liquibase_down_lemma now changes :
  no_nl now = true -> (forall c, In c changes -> lq_change_ok c) ->
  liquibase_down now changes = flat_map ReverseStmts (List.rev changes).
Proof.
  intros Hn H. unfold liquibase_down.
  rewrite !flat_map_concat_map, !map_rev, lq_texts_read by assumption. reflexivity.
Qed.

Lemma liquibase_file_texts now : forall changes index,
  lq_changesets now index changes = concat (lq_changeset_texts now index changes).
Proof. induction changes as [|c cs IH]; intros index; simpl; [reflexivity|now rewrite IH]. Qed.
